import EsbuildModel.Lemmas.Wtf8
import EsbuildModel.Spec.Unicode
/-!
`UTF16ToString`, `StringToUTF16` and the consumer loop over `DecodeWTF8Rune` in terms of code points
(`pairs`: potentially ill-formed UTF-16 → code points, surrogates that do not form a pair stay as they are).
-/
namespace EsbuildModel.Wtf8
set_option linter.unusedSimpArgs false
set_option maxRecDepth 4096

/-- the code points of a potentially ill-formed UTF-16 string -/
def pairs : List Nat → List Nat
  | [] => []
  | [c] => [c]
  | c :: c2 :: rest => if isHigh c && isLow c2 then combine c c2 :: pairs rest else c :: pairs (c2 :: rest)

theorem combine_eq (c c2 : Nat) (h : c2 - 0xDC00 < 1024) :
    combine c c2 = (c - 55296) * 1024 + (c2 - 56320) + 65536 := by
  unfold combine
  rw [shl10, or_mul1024 _ _ h]

theorem isHigh_iff (c : Nat) : isHigh c = true ↔ 55296 ≤ c ∧ c ≤ 56319 := by simp [isHigh]
theorem isLow_iff (c : Nat) : isLow c = true ↔ 56320 ≤ c ∧ c ≤ 57343 := by simp [isLow]

theorem combine_pair (c c2 : Nat) (h1 : isHigh c = true) (h2 : isLow c2 = true) :
    combine c c2 = (c - 55296) * 1024 + (c2 - 56320) + 65536 ∧ 65536 ≤ combine c c2 ∧ combine c c2 ≤ 0x10FFFF := by
  rw [isHigh_iff] at h1; rw [isLow_iff] at h2
  have := combine_eq c c2 (by omega)
  omega

theorem pairs_le (u : List Nat) (hu : ∀ x ∈ u, x < 65536) : ∀ cp ∈ pairs u, cp ≤ 0x10FFFF := by
  induction u using pairs.induct with
  | case1 => simp [pairs]
  | case2 c => simp [pairs]; have := hu c (by simp); omega
  | case3 c c2 rest hc ih =>
    simp only [pairs, hc, if_true, List.mem_cons]
    rintro cp (h | h)
    · simp only [Bool.and_eq_true] at hc
      have := combine_pair c c2 hc.1 hc.2; omega
    · exact ih (fun x hx => hu x (List.mem_cons_of_mem _ (List.mem_cons_of_mem _ hx))) cp h
  | case4 c c2 rest hc ih =>
    simp only [pairs, hc, Bool.false_eq_true, if_false, List.mem_cons]
    rintro cp (h | h)
    · have := hu c (by simp); omega
    · exact ih (fun x hx => hu x (List.mem_cons_of_mem _ hx)) cp h

theorem appendEnc_eq (r : Nat) (h : r ≤ 0x10FFFF) (bs : List Nat) : appendEnc r (some bs) = some (encA r ++ bs) := by
  unfold appendEnc; rw [enc_eq r h]

/-- (L1) `UTF16ToString` writes the generalized UTF-8 of the code points; it never panics. -/
theorem utf16ToString_eq (u : List Nat) (hu : ∀ x ∈ u, x < 65536) :
    utf16ToString u = some ((pairs u).flatMap encA) := by
  induction u using pairs.induct with
  | case1 => rw [utf16ToString, pairs]; rfl
  | case2 c =>
    have := hu c (by simp)
    rw [utf16ToString, pairs, appendEnc_eq c (by omega)]
    simp
  | case3 c c2 rest hc ih =>
    have hc' := hc
    simp only [Bool.and_eq_true] at hc'
    have hcp := combine_pair c c2 hc'.1 hc'.2
    rw [utf16ToString, pairs]
    simp only [hc, if_true]
    rw [ih (fun x hx => hu x (List.mem_cons_of_mem _ (List.mem_cons_of_mem _ hx))), appendEnc_eq _ hcp.2.2]
    simp
  | case4 c c2 rest hc ih =>
    have := hu c (by simp)
    rw [utf16ToString, pairs]
    simp only [hc, Bool.false_eq_true, if_false]
    rw [ih (fun x hx => hu x (List.mem_cons_of_mem _ hx)), appendEnc_eq c (by omega)]
    simp

theorem pushUTF16_small (c : Nat) (h : c ≤ 0xFFFF) : pushUTF16 c = [c] := by simp [pushUTF16, h]

theorem pushUTF16_big (c : Nat) (h1 : 0xFFFF < c) (h2 : c ≤ 0x10FFFF) :
    pushUTF16 c = [55296 + (c - 65536) / 1024, 56320 + (c - 65536) % 1024] := by
  unfold pushUTF16
  have : ¬ c ≤ 0xFFFF := by omega
  simp only [this, if_false]
  rw [show (0x3FF : Nat) = 1023 from rfl, shr10, and1023, and1023, show (0x10000 : Nat) = 65536 from rfl,
    show (0xD800 : Nat) = 55296 from rfl, show (0xDC00 : Nat) = 56320 from rfl]
  generalize hx : c - 65536 = x
  have hx' : x < 1048576 := by omega
  have e1 : (55296 + x / 1024 % 1024) % 65536 = 55296 + x / 1024 := by omega
  have e2 : (56320 + x % 1024) % 65536 = 56320 + x % 1024 := by omega
  rw [e1, e2]

theorem pushUTF16_combine (c c2 : Nat) (h1 : isHigh c = true) (h2 : isLow c2 = true) :
    pushUTF16 (combine c c2) = [c, c2] := by
  have hcp := combine_pair c c2 h1 h2
  rw [isHigh_iff] at h1; rw [isLow_iff] at h2
  rw [pushUTF16_big _ (by omega) hcp.2.2, hcp.1]
  have e1 : 55296 + ((c - 55296) * 1024 + (c2 - 56320) + 65536 - 65536) / 1024 = c := by omega
  have e2 : 56320 + ((c - 55296) * 1024 + (c2 - 56320) + 65536 - 65536) % 1024 = c2 := by omega
  rw [e1, e2]

/-- (L2) re-encoding the code points as UTF-16 gives the units back -/
theorem unpairs (u : List Nat) (hu : ∀ x ∈ u, x < 65536) : (pairs u).flatMap pushUTF16 = u := by
  induction u using pairs.induct with
  | case1 => simp [pairs]
  | case2 c => have := hu c (by simp); simp [pairs, pushUTF16_small c (by omega)]
  | case3 c c2 rest hc ih =>
    have hc' := hc
    simp only [Bool.and_eq_true] at hc'
    simp only [pairs, hc, if_true, List.flatMap_cons, pushUTF16_combine c c2 hc'.1 hc'.2,
      ih (fun x hx => hu x (List.mem_cons_of_mem _ (List.mem_cons_of_mem _ hx)))]
    simp
  | case4 c c2 rest hc ih =>
    have := hu c (by simp)
    simp only [pairs, hc, Bool.false_eq_true, if_false, List.flatMap_cons, pushUTF16_small c (by omega),
      ih (fun x hx => hu x (List.mem_cons_of_mem _ hx))]
    simp

/-- (L4) the consumer loop reads back the code points the encoder wrote, surrogates included; it is never stuck -/
theorem decodeAll_enc (cps : List Nat) (hcps : ∀ cp ∈ cps, cp ≤ 0x10FFFF) : ∀ (fuel : Nat),
    (cps.flatMap encA).length ≤ fuel → decodeAll fuel (cps.flatMap encA) = .runes cps := by
  induction cps with
  | nil => intro fuel _; cases fuel <;> simp [decodeAll]
  | cons cp cps ih =>
    intro fuel hf
    have hl := encA_length cp
    simp only [List.flatMap_cons, List.length_append] at hf ⊢
    cases fuel with
    | zero => omega
    | succ fuel =>
      obtain ⟨a, t, hat⟩ : ∃ a t, encA cp ++ cps.flatMap encA = a :: t := by
        cases h : encA cp ++ cps.flatMap encA with
        | nil =>
          have := congrArg List.length h
          simp only [List.length_append, List.length_nil] at this; omega
        | cons a t => exact ⟨a, t, rfl⟩
      rw [hat, decodeAll, ← hat, dec_encA cp (hcps cp (by simp))]
      simp only
      have hw : ¬ (encA cp).length = 0 := by omega
      simp only [hw, if_false, List.drop_left']
      rw [ih (fun c hc => hcps c (List.mem_cons_of_mem _ hc)) fuel (by omega)]


/-! ### against the Unicode encoding forms -/
open Spec.Unicode

theorem encA_eq_utf8 (cp : Nat) : encA cp = utf8 cp := rfl

theorem pushUTF16_eq_utf16 (cp : Nat) (h : cp ≤ 0x10FFFF) : pushUTF16 cp = utf16 cp := by
  unfold utf16
  by_cases hs : cp ≤ 0xFFFF
  · rw [pushUTF16_small cp hs]; simp [hs]
  · rw [pushUTF16_big cp (by omega) h]; simp [hs]

/-- (L3) the UTF-16 of scalar values has no unpaired surrogate: pairing gives the scalar values back -/
theorem pairs_push (cps : List Nat) (h : ∀ cp ∈ cps, IsScalar cp) : pairs (cps.flatMap pushUTF16) = cps := by
  induction cps with
  | nil => simp [pairs]
  | cons cp cps ih =>
    have hcp := h cp (by simp)
    have ih' := ih (fun c hc => h c (List.mem_cons_of_mem _ hc))
    unfold IsScalar at hcp
    simp only [List.flatMap_cons]
    by_cases hs : cp ≤ 0xFFFF
    · rw [pushUTF16_small cp hs]
      have hnh : isHigh cp = false := by
        simp only [isHigh, Bool.and_eq_false_imp, decide_eq_true_eq, decide_eq_false_iff_not]; omega
      cases hr : cps.flatMap pushUTF16 with
      | nil => rw [hr] at ih'; simp [pairs, ← ih']
      | cons c2 r =>
        rw [hr] at ih'
        simp only [List.singleton_append, pairs, hnh, Bool.false_and, Bool.false_eq_true, if_false, ih']
    · rw [pushUTF16_big cp (by omega) hcp.1]
      have h1 : isHigh (55296 + (cp - 65536) / 1024) = true := by rw [isHigh_iff]; omega
      have h2 : isLow (56320 + (cp - 65536) % 1024) = true := by rw [isLow_iff]; omega
      have hc := (combine_pair _ _ h1 h2).1
      have e : (55296 + (cp - 65536) / 1024 - 55296) * 1024 + (56320 + (cp - 65536) % 1024 - 56320) + 65536 = cp := by
        omega
      simp only [List.cons_append, List.nil_append, pairs, h1, h2, Bool.and_self, if_true, ih', hc, e]

theorem acceptLo_eq (a : Nat) : acceptLo a = if a = 224 then 160 else if a = 240 then 144 else 128 := rfl
theorem acceptHi_eq (a : Nat) : acceptHi a = if a = 237 then 159 else if a = 244 then 143 else 191 := rfl

theorem isCont_byte (x : Nat) : isCont (128 + x % 64) = true := by
  simp only [isCont, Bool.and_eq_true, decide_eq_true_eq]; omega

/-- Go's decoder on the UTF-8 of a scalar value -/
theorem goDecode_enc (cp : Nat) (h : IsScalar cp) (rest : List Nat) :
    ∃ a t, encA cp ++ rest = a :: t ∧ goDecodeRune a t = (cp, (encA cp).length) ∧ t.drop ((encA cp).length - 1) = rest := by
  unfold IsScalar at h
  unfold encA
  by_cases h1 : cp ≤ 127
  · simp only [h1, if_true]
    refine ⟨cp, rest, rfl, ?_, rfl⟩
    unfold goDecodeRune
    have : cp < 0x80 := by omega
    simp [this]
  · simp only [h1, if_false]
    by_cases h2 : cp ≤ 2047
    · simp only [h2, if_true]
      refine ⟨192 + cp / 64, (128 + cp % 64) :: rest, rfl, ?_, rfl⟩
      unfold goDecodeRune
      have c1 : ¬ 192 + cp / 64 < 0x80 := by omega
      have c2 : 0xC2 ≤ 192 + cp / 64 ∧ 192 + cp / 64 ≤ 0xDF := by omega
      have e : (192 + cp / 64) % 32 * 64 + (128 + cp % 64) % 64 = cp := by omega
      simp only [c1, c2, and_self, if_true, if_false, List.cons_append, List.nil_append, isCont_byte, dec2, e]
      simp only [List.length_cons, List.length_nil]
    · simp only [h2, if_false]
      by_cases h3 : cp ≤ 65535
      · simp only [h3, if_true]
        refine ⟨224 + cp / 4096, (128 + cp / 64 % 64) :: (128 + cp % 64) :: rest, rfl, ?_, rfl⟩
        unfold goDecodeRune
        have c1 : ¬ 224 + cp / 4096 < 0x80 := by omega
        have c2 : ¬ (0xC2 ≤ 224 + cp / 4096 ∧ 224 + cp / 4096 ≤ 0xDF) := by omega
        have c3 : 0xE0 ≤ 224 + cp / 4096 ∧ 224 + cp / 4096 ≤ 0xEF := by omega
        have c4 : acceptLo (224 + cp / 4096) ≤ 128 + cp / 64 % 64 ∧ 128 + cp / 64 % 64 ≤ acceptHi (224 + cp / 4096) := by
          rw [acceptLo_eq, acceptHi_eq]
          constructor
          · split
            · omega
            · split <;> omega
          · split
            · omega
            · split <;> omega
        have e : (224 + cp / 4096) % 16 * 4096 + (128 + cp / 64 % 64) % 64 * 64 + (128 + cp % 64) % 64 = cp := by omega
        simp only [c1, c2, c3, c4, and_self, true_and, if_true, if_false, List.cons_append, List.nil_append, isCont_byte, dec3, e]
        simp only [List.length_cons, List.length_nil]
      · simp only [h3, if_false]
        refine ⟨240 + cp / 262144, (128 + cp / 4096 % 64) :: (128 + cp / 64 % 64) :: (128 + cp % 64) :: rest, rfl, ?_, rfl⟩
        unfold goDecodeRune
        have c1 : ¬ 240 + cp / 262144 < 0x80 := by omega
        have c2 : ¬ (0xC2 ≤ 240 + cp / 262144 ∧ 240 + cp / 262144 ≤ 0xDF) := by omega
        have c3 : ¬ (0xE0 ≤ 240 + cp / 262144 ∧ 240 + cp / 262144 ≤ 0xEF) := by omega
        have c5 : 0xF0 ≤ 240 + cp / 262144 ∧ 240 + cp / 262144 ≤ 0xF4 := by omega
        have c4 : acceptLo (240 + cp / 262144) ≤ 128 + cp / 4096 % 64 ∧ 128 + cp / 4096 % 64 ≤ acceptHi (240 + cp / 262144) := by
          rw [acceptLo_eq, acceptHi_eq]
          constructor
          · split
            · omega
            · split <;> omega
          · split
            · omega
            · split <;> omega
        have e : (240 + cp / 262144) % 8 * 262144 + (128 + cp / 4096 % 64) % 64 * 4096 + (128 + cp / 64 % 64) % 64 * 64
            + (128 + cp % 64) % 64 = cp := by omega
        simp only [c1, c2, c3, c4, c5, and_self, true_and, if_true, if_false, List.cons_append, List.nil_append, isCont_byte, dec4, e]
        simp only [List.length_cons, List.length_nil]

/-- (L5) `StringToUTF16` maps the UTF-8 of scalar values to their UTF-16 -/
theorem stringToUTF16_enc (cps : List Nat) (h : ∀ cp ∈ cps, IsScalar cp) :
    stringToUTF16 (cps.flatMap encA) = cps.flatMap pushUTF16 := by
  induction cps with
  | nil => simp [stringToUTF16]
  | cons cp cps ih =>
    obtain ⟨a, t, hat, hdec, hdrop⟩ := goDecode_enc cp (h cp (by simp)) (cps.flatMap encA)
    simp only [List.flatMap_cons]
    rw [hat, stringToUTF16]
    simp only [hdec, hdrop]
    rw [ih (fun c hc => h c (List.mem_cons_of_mem _ hc))]

end EsbuildModel.Wtf8
