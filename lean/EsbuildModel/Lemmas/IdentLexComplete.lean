import EsbuildModel.Lemmas.IdentLexScan
/-! The second pass on valid elements, `UTF16ToString`, and the completeness of `next`. -/
namespace EsbuildModel.IdentLex
open EsbuildModel.Spec.JsIdentifier
open EsbuildModel.Spec.StrLit (isHexDigit digitsMV)
open EsbuildModel.StrLex

theorem decodeLoop_elems (es : List Elem) (cps : List Nat) (h : es.map Elem.cp = cps.map some)
    (h13 : Elem.char 13 ∉ es) (i : Nat) :
    decodeLoop true (textOf es) 0 i = .ok (cps.flatMap encodeRune) none := by
  induction es generalizing cps i with
  | nil =>
    cases cps with
    | nil => simp [textOf, decodeLoop]
    | cons _ _ => simp at h
  | cons e r ih =>
    cases cps with
    | nil => simp at h
    | cons v cps' =>
      simp only [List.map_cons, List.cons.injEq] at h
      obtain ⟨hv, hr⟩ := h
      have he13 : e ≠ .char 13 := fun hh => h13 (by simp [hh])
      obtain ⟨c0, t', htext, hstep⟩ := step_elem e v hv he13 (textOf r)
      rw [textOf_cons, htext]
      have := decodeLoop_emit true c0 t' (textOf r) (encodeRune v) false i hstep
      simp only [List.cons_append] at this ⊢
      rw [this, ih cps' hr (fun hh => h13 (by simp [hh]))]
      simp [prepend_ok_none]

theorem decode_elems (es : List Elem) (cps : List Nat) (h : es.map Elem.cp = cps.map some) (h13 : Elem.char 13 ∉ es) :
    decode true (textOf es) = .ok (cps.flatMap encodeRune) none := decodeLoop_elems es cps h h13 0

/-! ### UTF16ToString -/

theorem joinUnits_single {u : Nat} (h : isHigh u = false) (r : List Nat) : joinUnits (u :: r) = u :: joinUnits r := by
  cases r with
  | nil => simp [joinUnits]
  | cons v r => simp [joinUnits, h]

theorem joinUnits_pair {u v : Nat} (hu : isHigh u = true) (hv : isLow v = true) (r : List Nat) :
    joinUnits (u :: v :: r) = ((u - 0xD800) * 1024 + (v - 0xDC00) + 0x10000) :: joinUnits r := by
  simp [joinUnits, hu, hv]

/-- UTF16ToString after the decoder's final encoding gives back a scalar value -/
theorem joinUnits_encodeRune {c : Nat} (hc : c ≤ 0x10FFFF) (hs : isSurrogate c = false) (r : List Nat) :
    joinUnits (encodeRune c ++ r) = c :: joinUnits r := by
  simp only [isSurrogate, Bool.and_eq_false_iff, decide_eq_false_iff_not] at hs
  by_cases hsmall : c ≤ 65535
  · rw [encodeRune_small hsmall]
    have : isHigh c = false := by
      simp only [isHigh, Bool.and_eq_false_iff, decide_eq_false_iff_not]; omega
    simpa using joinUnits_single this r
  · have henc : encodeRune c = [55296 + (c - 65536) / 1024 % 1024, 56320 + (c - 65536) % 1024] := by
      simp only [encodeRune]
      have : ¬ (c ≥ 2147483648 ∨ c ≤ 65535) := by omega
      simp [this]
    rw [henc]
    have hu : isHigh (55296 + (c - 65536) / 1024 % 1024) = true := by
      simp only [isHigh, Bool.and_eq_true, decide_eq_true_eq]; omega
    have hv : isLow (56320 + (c - 65536) % 1024) = true := by
      simp only [isLow, Bool.and_eq_true, decide_eq_true_eq]; omega
    have := joinUnits_pair hu hv r
    have hval : (55296 + (c - 65536) / 1024 % 1024 - 0xD800) * 1024 + (56320 + (c - 65536) % 1024 - 0xDC00) + 0x10000 = c := by
      omega
    rw [hval] at this
    simpa using this

def Scalars (cps : List Nat) : Prop := ∀ c ∈ cps, c ≤ 0x10FFFF ∧ isSurrogate c = false

theorem joinUnits_flatMap (cps : List Nat) (h : Scalars cps) : joinUnits (cps.flatMap encodeRune) = cps := by
  induction cps with
  | nil => simp [joinUnits]
  | cons c r ih =>
    obtain ⟨h1, h2⟩ := h c (by simp)
    simp only [List.flatMap_cons]
    rw [joinUnits_encodeRune h1 h2, ih (fun x hx => h x (by simp [hx]))]

theorem rangeRunes_scalars (cps : List Nat) (h : ∀ c ∈ cps, isSurrogate c = false) : rangeRunes cps = cps := by
  induction cps with
  | nil => rfl
  | cons c r ih =>
    simp only [rangeRunes, List.flatMap_cons, h c (by simp)]
    have := ih (fun x hx => h x (by simp [hx]))
    simp only [rangeRunes] at this
    simp [this]

/-- the IdentifierCodePoint of an element is a code point -/
theorem cp_le {e : Elem} {v : Nat} (hsrc : ∀ c ∈ e.text, c ≤ 0x10FFFF) (h : e.cp = some v) : v ≤ 0x10FFFF := by
  cases e with
  | char c =>
    simp only [Elem.cp] at h
    split at h
    · cases h
    · injection h with h; subst h; exact hsrc c (by simp [Elem.text])
  | esc4 a b c d =>
    simp only [Elem.cp] at h
    split at h
    · injection h with h
      have ha := Spec.StrLit.isHexDigit
      have g1 := hexVal?_getD_lt a
      have g2 := hexVal?_getD_lt b
      have g3 := hexVal?_getD_lt c
      have g4 := hexVal?_getD_lt d
      simp only [digitsMV, List.foldl_cons, List.foldl_nil] at h
      omega
    · cases h
  | escBrace ds =>
    simp only [Elem.cp] at h
    split at h
    · injection h with h
      rename_i hc; omega
    · cases h

/-! ### the arms of `next` -/

def isCharElem : Elem → Bool
  | .char _ => true
  | _ => false

theorem text_head_of_not_char {e : Elem} (h : isCharElem e = false) (l : List Nat) : (e.text ++ l).head? = some 92 := by
  cases e <;> simp_all [isCharElem, Elem.text]

/-- the leading plain characters of a sequence of elements -/
def plainPrefix : List Elem → List Nat × List Elem
  | .char c :: r => (c :: (plainPrefix r).1, (plainPrefix r).2)
  | l => ([], l)

theorem plainPrefix_spec (es : List Elem) :
    es = (plainPrefix es).1.map Elem.char ++ (plainPrefix es).2 ∧
    (∀ e r, (plainPrefix es).2 = e :: r → isCharElem e = false) ∧
    ((plainPrefix es).2 = [] ↔ es.all isCharElem = true) := by
  induction es with
  | nil => simp [plainPrefix]
  | cons e r ih =>
    cases e with
    | char c =>
      obtain ⟨h1, h2, h3⟩ := ih
      refine ⟨?_, h2, ?_⟩
      · simp only [plainPrefix, List.map_cons, List.cons_append]; rw [← h1]
      · simpa [plainPrefix, isCharElem] using h3
    | esc4 a b c d => simp [plainPrefix, isCharElem]
    | escBrace ds => simp [plainPrefix, isCharElem]

theorem textOf_append (a b : List Elem) : textOf (a ++ b) = textOf a ++ textOf b := by simp [textOf]
theorem textOf_chars (cs : List Nat) : textOf (cs.map Elem.char) = cs := by
  induction cs with
  | nil => rfl
  | cons c r ih => simp only [List.map_cons, textOf_cons, Elem.text, ih]; rfl

theorem isFastByte_eq (d : Nat) : isFastByte d = asciiCont d := by
  unfold isFastByte asciiCont asciiStart
  rw [Bool.eq_iff_iff]
  simp only [Bool.or_eq_true, Bool.and_eq_true, decide_eq_true_eq, beq_iff_eq]
  omega

/-- the byte loop followed by the slow path of the `'a' … 'Z'` arm skips exactly the IsIdentifierContinue characters -/
theorem asciiArm_len (T : Tables) (h127 : T.cont 127 = false) (rest : List Nat) :
    spanLen isFastByte rest + slowLen T (rest.drop (spanLen isFastByte rest))
      = spanLen (isIdCont T) rest := by
  unfold slowLen
  induction rest with
  | nil => simp [spanLen]
  | cons d r ih =>
    by_cases hf : isFastByte d = true
    · have hc : isIdCont T d = true := by simp [isIdCont, ← isFastByte_eq, hf]
      simp only [spanLen, hf, hc, if_true, List.drop_succ_cons]
      omega
    · have hf' : isFastByte d = false := by simpa using hf
      simp only [spanLen, hf']
      by_cases h128 : d ≥ 128
      · simp [h128, spanLen]
      · have hc : isIdCont T d = false := by
          unfold isIdCont
          rw [← isFastByte_eq, hf']
          by_cases h : d < 127
          · simp [h]
          · have : d = 127 := by omega
            subst this; simp [h127]
        simp [h128, hc]

theorem drop_append_length' {α} (a b : List α) (n : Nat) (h : n = a.length) : (a ++ b).drop n = b := by
  subst h; simp

theorem take_append_length' {α} (a b : List α) (n : Nat) (h : n = a.length) : (a ++ b).take n = a := by
  subst h; simp

/-- after the plain characters `pre` of a name: the rest of the token is `post` (empty, or beginning with an escape) -/
theorem afterPlain_elems (T : Tables) (k : List Nat → Kind) (isPriv : Bool) (pre : List Nat) (post : List Elem) (rest : List Nat)
    (hshape : ∀ e ∈ post, Shape T e) (hhead : ∀ e r, post = e :: r → isCharElem e = false) (hrest : Stops T rest) :
    afterPlain T k isPriv (pre ++ (textOf post ++ rest)) pre.length =
      if post = [] then .tok (k pre) pre.length pre true false
      else finishEscaped T isPriv (pre ++ (textOf post ++ rest)) (pre.length + (textOf post).length) := by
  unfold afterPlain
  rw [drop_append_length' _ _ _ rfl]
  cases post with
  | nil =>
    have : rest.head? ≠ some 92 := fun h => (hrest 92 h).1 rfl
    simp [textOf, this]
  | cons e r =>
    have he := hhead e r rfl
    have hd : (textOf (e :: r) ++ rest).head? = some 92 := by
      rw [textOf_cons, List.append_assoc]; exact text_head_of_not_char he _
    rw [hd]
    simp only [if_true, List.cons_ne_nil, if_false]
    unfold scanEscaped
    rw [drop_append_length' _ _ _ rfl, pass1_elems T (e :: r) hshape, pass1_stop T rest hrest]

/-- the second pass on a valid IdentifierName spelled by `es` -/
theorem finishEscaped_elems (T : Tables) (es : List Elem) (cps rest : List Nat) (hcp : es.map Elem.cp = cps.map some)
    (h13 : Elem.char 13 ∉ es) (hsc : Scalars cps) (hid : isIdentifierRunes T cps = true) :
    finishEscaped T false (textOf es ++ rest) (textOf es).length =
      .tok (if isKeyword cps then .escapedKeyword else .ident) (textOf es).length cps false false := by
  unfold finishEscaped
  rw [take_append_length' _ _ _ rfl, decode_elems es cps hcp h13]
  simp only [joinUnits_flatMap cps hsc, Bool.false_eq_true, if_false,
    rangeRunes_scalars cps (fun c hc => (hsc c hc).2), hid, Bool.not_true]
  split <;> rfl
