import EsbuildModel.Lemmas.JsonBasics
import EsbuildModel.Spec.JsonDialects
/-
`skipSep` (the `continue` branches of `Lexer.Next`) against the white space / comment derivations `Spec.Json.Sep`:
completeness (a well-formed separator is skipped exactly, without an error message).
-/
namespace EsbuildModel.Json
open EsbuildModel.Spec.Json

def dialectOf : Flavor → Dialect
  | .json => esbuildStrict
  | .tsconfig => esbuildTsconfig

theorem isLT_eq (c : Char) : isLT c = isNewline c := by
  simp only [isLT, isNewline]
  cases (c == '\n') <;> cases (c == '\r') <;> simp

/-- a line terminator occurs in the separator (outside single-line comments, which cannot contain one) -/
def sepNl : List SepItem → Bool
  | [] => false
  | .ws c :: t => isLT c || sepNl t
  | .block b :: t => b.any isLT || sepNl t
  | _ :: t => sepNl t

theorem widths_append (a b : List Cp) : widths (a ++ b) = widths a + widths b := by
  simp [widths, List.sum_append]
@[simp] theorem widths_nil : widths [] = 0 := rfl
@[simp] theorem widths_cons (c : Cp) (l : List Cp) : widths (c :: l) = c.w + widths l := by
  simp [widths]

/-- running over the body of a single-line comment -/
theorem skip_line_body (fl : Flavor) (cs : Option Nat) (b : List Char) (hb : b.any isLT = false) (tail : List Cp) (sk : Sk) :
    skipSep fl (.line cs) (cps b ++ tail) sk =
      skipSep fl (.line cs) tail { sk with pos := sk.pos + widths (cps b) } := by
  induction b generalizing sk with
  | nil => simp
  | cons c b ih =>
    simp only [List.any_cons, Bool.or_eq_false_iff] at hb
    have hc : isNewline c = false := by rw [← isLT_eq]; exact hb.1
    simp only [cps_cons, List.cons_append, skipSep, cpOf_c, hc, Bool.false_eq_true, if_false]
    rw [ih hb.2]
    simp [Nat.add_assoc]

/-- running over the body of a multi-line comment up to and including the closing `*/`; `star`: the previous
character was a `*` (then the body does not start with `/`) -/
theorem skip_block_body (fl : Flavor) (cs : Nat) (b : List Char) (tail : List Cp) :
    ∀ (star : Bool) (sk : Sk), hasStarSlash b = false → (star = true → b.head? ≠ some '/') →
    skipSep fl (if star then .star cs else .block cs) (cps b ++ (cpOf '*' :: cpOf '/' :: tail)) sk =
      skipSep fl .top tail ⟨sk.pos + widths (cps b) + (cpOf '*').w + (cpOf '/').w, sk.nl || b.any isLT,
        commentError fl sk.log cs⟩ := by
  induction b with
  | nil =>
    intro star sk _ _
    cases star <;> simp [skipSep, Nat.add_assoc]
  | cons c b ih =>
    intro star sk hss hst
    have hb : hasStarSlash b = false := by
      cases b with
      | nil => rfl
      | cons c2 b2 => simp only [hasStarSlash, Bool.or_eq_false_iff] at hss; exact hss.2
    by_cases hcs : c = '*'
    · -- next state: star
      subst hcs
      have hnext : b.head? ≠ some '/' := by
        cases b with
        | nil => simp
        | cons c2 b2 =>
          simp only [hasStarSlash, Bool.or_eq_false_iff, Bool.and_eq_false_iff] at hss
          intro h; simp only [List.head?_cons, Option.some.injEq] at h; subst h
          rcases hss.1 with h | h <;> simp at h
      have := ih true { sk with pos := sk.pos + (cpOf '*').w } hb (fun _ => hnext)
      cases star
      · simp only [Bool.false_eq_true, if_false, cps_cons, List.cons_append, skipSep, cpOf_c, if_true]
        simp only [if_true] at this
        rw [this]
        simp [isLT, Nat.add_assoc]
      · have hne : ('*' : Char) ≠ '/' := by decide
        simp only [if_true, cps_cons, List.cons_append, skipSep, cpOf_c, hne, if_false]
        simp only [if_true] at this
        rw [this]
        simp [isLT, Nat.add_assoc]
    · have hnl := isLT_eq c
      cases star
      · simp only [Bool.false_eq_true, if_false, cps_cons, List.cons_append, skipSep, cpOf_c, hcs]
        have := ih false
        simp only [Bool.false_eq_true, if_false] at this
        by_cases hl : isNewline c = true
        · simp only [hl, if_true]
          rw [this _ hb (by simp)]
          simp [hnl, hl, Nat.add_assoc]
        · simp only [hl, Bool.false_eq_true, if_false]
          rw [this _ hb (by simp)]
          simp only [Bool.not_eq_true] at hl
          simp [hnl, hl, Nat.add_assoc]
      · have hne : c ≠ '/' := by
          intro h; subst h; exact hst rfl rfl
        simp only [if_true, cps_cons, List.cons_append, skipSep, cpOf_c, hne, hcs, if_false]
        have := ih false
        simp only [Bool.false_eq_true, if_false] at this
        by_cases hl : isNewline c = true
        · simp only [hl, if_true]
          rw [this _ hb (by simp)]
          simp [hnl, hl, Nat.add_assoc]
        · simp only [hl, Bool.false_eq_true, if_false]
          rw [this _ hb (by simp)]
          simp only [Bool.not_eq_true] at hl
          simp [hnl, hl, Nat.add_assoc]

/-- the equation of `skipSep` in `top` mode, whatever the length of the rest -/
theorem skipSep_top_cons (fl : Flavor) (c : Cp) (r : List Cp) (sk : Sk) :
    skipSep fl .top (c :: r) sk =
    (if isNewline c.c then skipSep fl .top r { sk with pos := sk.pos + c.w, nl := true }
    else if c.c = '\t' ∨ c.c = ' ' then skipSep fl .top r { sk with pos := sk.pos + c.w }
    else if c.c = '/' then
      match r with
      | d :: r' =>
        if d.c = '/' then skipSep fl (.line (some sk.pos)) r' { sk with pos := sk.pos + c.w + d.w }
        else if d.c = '*' then skipSep fl (.block sk.pos) r' { sk with pos := sk.pos + c.w + d.w }
        else .ok (sk, c :: r)
      | [] => .ok (sk, c :: r)
    else if c.c = '<' then
      match r with
      | d :: e :: f :: r' =>
        if d.c = '!' ∧ e.c = '-' ∧ f.c = '-' then
          skipSep fl (.line none) r' ⟨sk.pos + c.w + d.w + e.w + f.w, sk.nl, sk.log.warn sk.pos⟩
        else .ok (sk, c :: r)
      | _ => .ok (sk, c :: r)
    else if c.c = '-' then
      match r with
      | d :: e :: r' =>
        if d.c = '-' ∧ e.c = '>' ∧ sk.nl then
          skipSep fl (.line none) r' ⟨sk.pos + c.w + d.w + e.w, sk.nl, sk.log.warn sk.pos⟩
        else .ok (sk, c :: r)
      | _ => .ok (sk, c :: r)
    else if isWhitespace c.c then skipSep fl .top r { sk with pos := sk.pos + c.w }
    else .ok (sk, c :: r)) := by
  cases r with
  | nil => rw [skipSep.eq_9]
  | cons d r2 => rw [skipSep.eq_8]; rfl

/-- the head of the input does not start white space or a comment -/
def SepStop (rest : List Cp) : Prop :=
  ∀ c r, rest = c :: r → isNewline c.c = false ∧ c.c ≠ '\t' ∧ c.c ≠ ' ' ∧ isWhitespace c.c = false ∧ c.c ≠ '/' ∧
    c.c ≠ '<' ∧ (c.c = '-' → headIs r (· == '-') = false)

theorem skipSep_top_stop {rest : List Cp} (h : SepStop rest) (fl : Flavor) (sk : Sk) :
    skipSep fl .top rest sk = .ok (sk, rest) := by
  cases rest with
  | nil => rfl
  | cons c r =>
    obtain ⟨h1, h2, h3, h4, h5, h6, h7⟩ := h c r rfl
    rw [skipSep_top_cons]
    simp only [h1, h2, h3, h4, h5, h6, Bool.false_eq_true, if_false, false_or]
    split
    · rename_i hm
      have := h7 hm
      cases r with
      | nil => rfl
      | cons d r2 =>
        cases r2 with
        | nil => rfl
        | cons e r3 =>
          simp only [headIs, beq_eq_false_iff_ne, ne_eq] at this
          simp [this]
    · rfl

def modeOf : Option (Option Nat) → SMode
  | none => .top
  | some cs => .line cs

theorem isWhitespace_not_special {c : Char} (h : isWhitespace c = true) : c ≠ '/' ∧ c ≠ '<' ∧ c ≠ '-' := by
  refine ⟨?_, ?_, ?_⟩ <;> (rintro rfl; revert h; decide)

theorem isNewline_not_special {c : Char} (h : isNewline c = true) : c ≠ '/' ∧ c ≠ '<' ∧ c ≠ '-' := by
  refine ⟨?_, ?_, ?_⟩ <;> (rintro rfl; revert h; decide)

theorem jsExtraWs_iff (c : Char) : jsExtraWs c = true → (isWhitespace c = true ∨ isNewline c = true) := by
  intro h
  simp only [jsExtraWs, Bool.or_eq_true, beq_iff_eq, Bool.and_eq_true, decide_eq_true_eq] at h
  simp only [isWhitespace, isNewline, Bool.or_eq_true, beq_iff_eq, Bool.and_eq_true, decide_eq_true_eq]
  omega

theorem dialect_extraWs (fl : Flavor) : (dialectOf fl).extraWs = jsExtraWs := by cases fl <;> rfl
theorem dialect_html (fl : Flavor) : (dialectOf fl).htmlComments = true := by cases fl <;> rfl

theorem commentError_of_line {fl : Flavor} (h : (dialectOf fl).lineComments = true) (log : Log) (p : Nat) :
    commentError fl log p = log := by
  cases fl
  · cases h
  · rfl

theorem commentError_of_block {fl : Flavor} (h : (dialectOf fl).blockComments = true) (log : Log) (p : Nat) :
    commentError fl log p = log := by
  cases fl
  · cases h
  · rfl

/-- one white space character in `top` mode -/
theorem skipSep_top_ws (fl : Flavor) (c : Char) (h : (isRfcWs c || jsExtraWs c) = true) (tail : List Cp) (sk : Sk) :
    skipSep fl .top (cpOf c :: tail) sk = skipSep fl .top tail ⟨sk.pos + (cpOf c).w, sk.nl || isLT c, sk.log⟩ := by
  rw [isLT_eq]
  by_cases hn : isNewline c = true
  · rw [skipSep_top_cons]; simp [hn]
  · simp only [Bool.not_eq_true] at hn
    by_cases hts : c = '\t' ∨ c = ' '
    · rw [skipSep_top_cons]; simp [hn, hts]
    · have hw : isWhitespace c = true := by
        simp only [Bool.or_eq_true] at h
        rcases h with h | h
        · simp only [isRfcWs, Bool.or_eq_true, beq_iff_eq] at h
          rcases h with ((h | h) | h) | h
          · exact absurd (Or.inr h) hts
          · exact absurd (Or.inl h) hts
          · subst h; revert hn; decide
          · subst h; revert hn; decide
        · rcases jsExtraWs_iff c h with h | h
          · exact h
          · rw [h] at hn; cases hn
      obtain ⟨a1, a2, a3⟩ := isWhitespace_not_special hw
      rw [skipSep_top_cons]; simp [hn, hts, a1, a2, a3, hw]

theorem lineEnd_clean {fl : Flavor} {log : Log} (h : log.Clean) (cs : Option Nat)
    (hp : ∀ p, cs = some p → (dialectOf fl).lineComments = true) : (lineEnd fl log cs).Clean := by
  cases cs with
  | none => exact h
  | some p => simp only [lineEnd]; rw [commentError_of_line (hp p rfl)]; exact h

@[simp] theorem Sep.render_nil : Sep.render [] = [] := rfl
@[simp] theorem Sep.render_cons (it : SepItem) (t : List SepItem) : Sep.render (it :: t) = it.render ++ Sep.render t := by
  simp [Sep.render]

/-- **completeness of `skipSep`**: a well-formed separator of the flavour's dialect in front of something that does
not continue it is skipped exactly; only warnings (for HTML-like comments) are logged.  `pend = some cs`: the scan is
inside a single-line comment whose body has been consumed. -/
theorem skipSep_complete (fl : Flavor) (s : List SepItem) :
    ∀ (pend : Option (Option Nat)) (sk : Sk) (final : Bool) (rest : List Cp),
    Sep.ok (dialectOf fl) final sk.nl s = true →
    (pend.isSome = true → lineEndOk final s = true) →
    (∀ p, pend = some (some p) → (dialectOf fl).lineComments = true) →
    sk.log.Clean → (final = true → rest = []) → SepStop rest →
    ∃ log', log'.Clean ∧
      skipSep fl (modeOf pend) (cps (Sep.render s) ++ rest) sk =
        .ok (⟨sk.pos + widths (cps (Sep.render s)), sk.nl || sepNl s, log'⟩, rest) := by
  induction s with
  | nil =>
    intro pend sk final rest _ hle hp hcl hfin hstop
    cases pend with
    | none =>
      refine ⟨sk.log, hcl, ?_⟩
      simp only [Sep.render_nil, cps_nil, List.nil_append, modeOf, widths_nil, Nat.add_zero, sepNl, Bool.or_false]
      exact skipSep_top_stop hstop fl sk
    | some cs =>
      have hf : final = true := by simpa [lineEndOk] using hle rfl
      have hr := hfin hf
      subst hr
      refine ⟨lineEnd fl sk.log cs, lineEnd_clean hcl cs (fun p h => hp p (by rw [h])), ?_⟩
      simp [modeOf, skipSep, sepNl]
  | cons it t ih =>
    intro pend sk final rest hok hle hp hcl hfin hstop
    cases it with
    | ws c =>
      simp only [Sep.ok, Bool.and_eq_true] at hok
      have hws : (isRfcWs c || jsExtraWs c) = true := by rw [← dialect_extraWs fl]; exact hok.1
      cases pend with
      | none =>
        obtain ⟨log', h1, h2⟩ := ih none ⟨sk.pos + (cpOf c).w, sk.nl || isLT c, sk.log⟩ final rest hok.2
          (by simp) (by simp) hcl hfin hstop
        refine ⟨log', h1, ?_⟩
        simp only [modeOf] at h2
        simp only [Sep.render_cons, SepItem.render, List.singleton_append, cps_cons, List.cons_append, List.nil_append, modeOf]
        rw [skipSep_top_ws fl c hws, h2]
        simp [sepNl, Nat.add_assoc, Bool.or_assoc]
      | some cs =>
        have hlt : isLT c = true := by simpa [lineEndOk] using hle rfl
        have hnl : isNewline c = true := by rw [← isLT_eq]; exact hlt
        have hok2 := hok.2
        rw [hlt, Bool.or_true] at hok2
        obtain ⟨log', h1, h2⟩ := ih none ⟨sk.pos + (cpOf c).w, true, lineEnd fl sk.log cs⟩ final rest hok2
          (by simp) (by simp) (lineEnd_clean hcl cs (fun p h => hp p (by rw [h]))) hfin hstop
        refine ⟨log', h1, ?_⟩
        simp only [modeOf] at h2
        simp only [Sep.render_cons, SepItem.render, List.singleton_append, cps_cons, List.cons_append, List.nil_append, modeOf]
        simp only [skipSep, cpOf_c, hnl, if_true]
        rw [h2]
        simp [sepNl, hlt, Nat.add_assoc]
    | line b =>
      simp only [Sep.ok, Bool.and_eq_true, Bool.not_eq_true'] at hok
      cases pend with
      | some cs => simp [lineEndOk] at hle
      | none =>
        obtain ⟨⟨⟨hd, hb⟩, hle'⟩, hok'⟩ := hok
        obtain ⟨log', h1, h2⟩ := ih (some (some sk.pos))
          ⟨sk.pos + (cpOf '/').w + (cpOf '/').w + widths (cps b), sk.nl, sk.log⟩ final rest hok'
          (fun _ => hle') (fun _ _ => hd) hcl hfin hstop
        refine ⟨log', h1, ?_⟩
        simp only [modeOf] at h2
        simp only [Sep.render_cons, SepItem.render, cps_cons, List.cons_append, cps_append, List.append_assoc, modeOf]
        rw [skipSep_top_cons]
        simp only [cpOf_c, show isNewline '/' = false by decide,
          Bool.false_eq_true, if_false, if_true, show ¬ (('/' : Char) = '\t' ∨ ('/' : Char) = ' ') by decide]
        rw [skip_line_body fl _ b hb]
        dsimp only
        rw [h2]
        simp [sepNl, widths_append, Nat.add_assoc]
    | block b =>
      simp only [Sep.ok, Bool.and_eq_true, Bool.not_eq_true'] at hok
      cases pend with
      | some cs => simp [lineEndOk] at hle
      | none =>
        obtain ⟨⟨hd, hb⟩, hok'⟩ := hok
        obtain ⟨log', h1, h2⟩ := ih none
          ⟨sk.pos + (cpOf '/').w + (cpOf '*').w + widths (cps b) + (cpOf '*').w + (cpOf '/').w, sk.nl || b.any isLT, sk.log⟩
          final rest hok' (by simp) (by simp) hcl hfin hstop
        refine ⟨log', h1, ?_⟩
        simp only [modeOf] at h2
        simp only [Sep.render_cons, SepItem.render, cps_cons, List.cons_append, cps_append, List.append_assoc, cps_nil,
          List.nil_append, modeOf]
        rw [skipSep_top_cons]
        simp only [cpOf_c, show isNewline '/' = false by decide,
          Bool.false_eq_true, if_false, if_true, show ¬ (('/' : Char) = '\t' ∨ ('/' : Char) = ' ') by decide,
          show ('*' : Char) ≠ '/' by decide]
        have := skip_block_body fl sk.pos b (cps (Sep.render t) ++ rest) false
          ⟨sk.pos + (cpOf '/').w + (cpOf '*').w, sk.nl, sk.log⟩ hb (by simp)
        simp only [Bool.false_eq_true, if_false] at this
        rw [this, commentError_of_block hd, h2]
        simp [sepNl, widths_append, Nat.add_assoc, Bool.or_assoc]
    | htmlOpen b =>
      simp only [Sep.ok, Bool.and_eq_true, Bool.not_eq_true'] at hok
      cases pend with
      | some cs => simp [lineEndOk] at hle
      | none =>
        obtain ⟨⟨⟨hd, hb⟩, hle'⟩, hok'⟩ := hok
        obtain ⟨log', h1, h2⟩ := ih (some none)
          ⟨sk.pos + (cpOf '<').w + (cpOf '!').w + (cpOf '-').w + (cpOf '-').w + widths (cps b), sk.nl, sk.log.warn sk.pos⟩
          final rest hok' (fun _ => hle') (by simp) (Log.clean_warn hcl _) hfin hstop
        refine ⟨log', h1, ?_⟩
        simp only [modeOf] at h2
        simp only [Sep.render_cons, SepItem.render, cps_cons, List.cons_append, cps_append, List.append_assoc, modeOf]
        rw [skipSep_top_cons]
        simp only [cpOf_c, show isNewline '<' = false by decide, and_self,
          Bool.false_eq_true, if_false, if_true, show ¬ (('<' : Char) = '\t' ∨ ('<' : Char) = ' ') by decide,
          show ('<' : Char) ≠ '/' by decide]
        rw [skip_line_body fl _ b hb]
        dsimp only
        rw [h2]
        simp [sepNl, widths_append, Nat.add_assoc]
    | htmlClose b =>
      simp only [Sep.ok, Bool.and_eq_true, Bool.not_eq_true'] at hok
      cases pend with
      | some cs => simp [lineEndOk] at hle
      | none =>
        obtain ⟨⟨⟨⟨hd, hnl⟩, hb⟩, hle'⟩, hok'⟩ := hok
        obtain ⟨log', h1, h2⟩ := ih (some none)
          ⟨sk.pos + (cpOf '-').w + (cpOf '-').w + (cpOf '>').w + widths (cps b), sk.nl, sk.log.warn sk.pos⟩
          final rest hok' (fun _ => hle') (by simp) (Log.clean_warn hcl _) hfin hstop
        refine ⟨log', h1, ?_⟩
        simp only [modeOf] at h2
        simp only [Sep.render_cons, SepItem.render, cps_cons, List.cons_append, cps_append, List.append_assoc, modeOf]
        rw [skipSep_top_cons]
        simp only [cpOf_c, show isNewline '-' = false by decide, true_and,
          Bool.false_eq_true, if_false, if_true, show ¬ (('-' : Char) = '\t' ∨ ('-' : Char) = ' ') by decide,
          show ('-' : Char) ≠ '/' by decide, show ('-' : Char) ≠ '<' by decide]
        rw [if_pos hnl, skip_line_body fl _ b hb]
        dsimp only
        rw [h2]
        simp [sepNl, widths_append, Nat.add_assoc]

end EsbuildModel.Json
