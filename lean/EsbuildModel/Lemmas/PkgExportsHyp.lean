import EsbuildModel.Impl.PkgExports
/-
The explicit hypotheses of the refinement theorems of Props/C11PkgExports.lean, as decidable (Bool)
predicates, so that every one of them can be evaluated on a concrete package.json (`by decide`).
Each conjunct excludes one place where esbuild's implementation and Node's algorithm are KNOWN to
differ; the counterexamples are in Props/C11PkgExports.lean.
-/
namespace EsbuildModel.PkgExports
open EsbuildModel.NodeExports (Str Target)

/-- no "%" (URL escapes are not modelled; Node also decodes them in segment checks and URL resolution) and
no "\" (a path separator for Node's URL resolution, an ordinary character for esbuild) -/
def plainStr (s : Str) : Bool := !s.contains '%' && !s.contains '\\'

/-- the only spellings of ".", ".." and "node_modules" are the literal ones (Node compares case-insensitively) -/
def canonSeg (seg : Str) : Bool := !NodeExports.isDotOrModules seg || badSegment seg

/-- a string target on which both sides agree:
 * starts with "./": plain characters; after the leading "." no segment is empty or a non-literal spelling
   of a forbidden segment (a literal one is rejected by both sides)
 * otherwise: no URL scheme (only matters for "imports", where Node rejects URLs and esbuild does not look) -/
def targetOK (t : Str) : Bool :=
  if NodeExports.startsWith t ['.', '/'] then
    plainStr t && ((NodeExports.splitBy NodeExports.isSep t).drop 1).all fun seg => !seg.isEmpty && canonSeg seg
  else !NodeExports.hasScheme t

/-- a pattern match ("*" substitution) on which both sides agree: plain characters, no empty segment, only
literal spellings of the forbidden segments (a literal one, in any position, is rejected by both sides) -/
def subOK (pm : Str) : Bool :=
  plainStr pm &&
  ((NodeExports.splitBy NodeExports.isSep pm).all fun seg => !seg.isEmpty && canonSeg seg)

mutual
/-- every string target is `targetOK`; every object is a pure condition object in esbuild's eyes (no key
starting with "." next to one that does not: esbuild rejects those, Node does not) and has no array-index
key (Node rejects those, esbuild does not) -/
def wf : Target → Bool
  | .str t => targetOK t
  | .null => true
  | .other => true
  | .arr l => wfList l
  | .obj l => !isMixed l && !l.any (fun p => NodeExports.isArrayIndex p.1) && wfProps l
def wfList : List Target → Bool
  | [] => true
  | t :: ts => wf t && wfList ts
def wfProps : List (Str × Target) → Bool
  | [] => true
  | (_, t) :: ts => wf t && wfProps ts
end

/-- a key of a subpath map is not a folder mapping ("./x/", no "*"): esbuild still implements those, Node 17
removed them. (Keys with several "*" are allowed: Node ignores them, and in esbuild they can only apply to a request
that itself contains "*".) -/
def keyOK (k : Str) : Bool := k.contains '*' || !NodeExports.endsWith k ['/']

def nodupKeys : List Str → Bool
  | [] => true
  | k :: ks => !ks.contains k && nodupKeys ks

/-- the request: no "*" (esbuild refuses such import paths before resolution) and no trailing "/" -/
def requestOK (matchKey : Str) : Bool := !matchKey.contains '*' && !NodeExports.endsWith matchKey ['/']

/-- hypotheses on a subpath map (the object under "exports" with keys starting with ".", or "imports") -/
def mapOK (matchKey : Str) (l : List (Str × Target)) : Bool :=
  requestOK matchKey && nodupKeys (l.map Prod.fst) && l.all (fun p => keyOK p.1) && wfProps l &&
  -- the request is not the part of a pattern key before its "*" (esbuild lets "*" stand for "", Node does not)
  (l.all fun p => !decide (p.1.count '*' = 1) || matchKey != p.1.take (NodeExports.indexOfStar p.1)) &&
  -- what a pattern key lets "*" stand for is `subOK`
  l.all fun p => !decide (p.1.count '*' = 1) || match NodeExports.patternMatchOf p.1 matchKey with
    | some pm => subOK pm
    | none => true

/-- hypotheses of `model_refines_spec_exports` -/
def exportsOK (subpath : Str) (exports : Target) : Bool :=
  requestOK subpath &&
  match exports with
  | .other => false      -- "exports": 5 — esbuild: invalid configuration, Node: not exported
  | .obj l =>
    if l.any NodeExports.keyStartsWithDot then
      (if subpath = ['.'] then wfProps l else mapOK subpath l)
    else wf exports
  | t => wf t

/-- hypotheses of `model_refines_spec_imports` -/
def importsOK (specifier : Str) (imports : Target) : Bool :=
  specifier != ['#'] && !NodeExports.startsWith specifier ['#', '/'] &&
  match imports with
  | .obj l => !isMixed l && mapOK specifier l
  | _ => false           -- esbuild: invalid configuration, Node: import not defined

end EsbuildModel.PkgExports
