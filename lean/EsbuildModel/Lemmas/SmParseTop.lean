import EsbuildModel.Lemmas.SmParseInv
import EsbuildModel.Lemmas.GoSortStable
/-!
`parse` (= `ParseSourceMap` after the JSON has been taken apart): safety of the result, using the loop invariants and
the fact that `sort.Stable` returns a permutation.
-/
namespace EsbuildModel.SmParse

/-- postcondition of `parse` as a function of the result -/
def ResultPost (Q : Nat → Nat → Nat → List Mapping → Prop) : Result → Prop
  | .map s c n ms => Q s c n ms
  | .nil => True
  | .err _ _ _ => True
  | .panic => False
  | .hang => False

theorem parse_safe (xs : List SectionIn) (hs : totalSources xs < 2147483648) (hn : totalNames xs < 2147483648) :
    ResultPost (fun s c n ms => c ≤ s ∧ ∀ m ∈ ms, Safe s n m) (parse xs) := by
  unfold parse
  have h := sections_safe xs {} (by simpa using hs) (by simpa using hn) ⟨Nat.le_refl _, fun m hm => by cases hm⟩
  cases hr : sections {} xs with
  | panic => rw [hr] at h; exact h.elim
  | hang => rw [hr] at h; exact h.elim
  | err => trivial
  | ok a =>
    rw [hr] at h
    simp only
    split
    · trivial
    · split
      · obtain ⟨d, hd, hp⟩ := GoSort.stable_ok less a.mappings.toArray
        rw [hd]
        refine ⟨h.1, fun m hm => h.2 m ?_⟩
        have := (Array.Perm.mem_iff (a := m) hp).mp (by simpa using hm)
        simpa using this
      · exact h

/-- the accepted mappings are sorted already when `needSort` stayed false -/
theorem parse_sections_sorted (xs : List SectionIn) (hx : ∀ x ∈ xs, LinesFit x) :
    SecOk (fun a => a.needSort = false → Sorted a.mappings) (sections {} xs) := by
  have h := sections_sorted xs {} hx ⟨by unfold InI32; decide, by unfold InI32; decide,
    fun _ => ⟨List.Pairwise.nil, fun m hm => by cases hm⟩⟩
  cases hr : sections {} xs with
  | ok a => rw [hr] at h; exact fun hf => (h.2.2 hf).1
  | err => trivial
  | panic => trivial
  | hang => trivial


instance : Inhabited Mapping := ⟨⟨0, 0, 0, 0, 0, none⟩⟩

/-- `mappingArray.Less` ("generated position of i <= generated position of j") is a reflexive total preorder -/
theorem less_totalPreorder : GoSort.TotalPreorder less := by
  constructor
  · intro a b
    simp only [less_iff]
    unfold posLE; omega
  · intro a b c h1 h2
    rw [less_iff] at *
    exact h1.trans h2

/-- the accepted mappings come out sorted by generated position, whether or not the conditional sort ran -/
theorem parse_sorted (xs : List SectionIn) (hx : ∀ x ∈ xs, LinesFit x) :
    ∀ s c n ms, parse xs = .map s c n ms → Sorted ms := by
  intro s c n ms hp
  unfold parse at hp
  have h := parse_sections_sorted xs hx
  cases hr : sections {} xs with
  | panic => rw [hr] at hp; cases hp
  | hang => rw [hr] at hp; cases hp
  | err => rw [hr] at hp; cases hp
  | ok a =>
    rw [hr] at h hp
    simp only at hp
    split at hp
    · cases hp
    · split at hp
      · obtain ⟨d, hd, hsorted⟩ := GoSort.stable_sorted less less_totalPreorder a.mappings.toArray
        rw [hd] at hp
        simp only [Result.map.injEq] at hp
        rw [← hp.2.2.2]
        exact hsorted
      · next hns =>
        simp only [Result.map.injEq] at hp
        rw [← hp.2.2.2]
        exact h (by simpa using hns)

end EsbuildModel.SmParse
