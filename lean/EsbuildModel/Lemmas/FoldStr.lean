import EsbuildModel.Lemmas.FoldNum
/-! Helper lemmas for the `fold` kernel: stringCompareUCS2 against the code-unit order of ECMA-262, decimal digits
(strconv.FormatInt against `Nat.toDigits`, MV of DecimalDigits, canonical BigInt literals), and what
StringToEquivalentNumberValue guarantees. -/
set_option linter.unusedSimpArgs false
namespace EsbuildModel.Fold
open EsbuildModel F64 EsbuildModel.Spec.JsArith

/-- list-recursive form of the comparison loop -/
def cmpList : List Nat → List Nat → Int
  | x :: xs, y :: ys => if (x : Int) - (y : Int) ≠ 0 then (x : Int) - (y : Int) else cmpList xs ys
  | xs, ys => (xs.length : Int) - (ys.length : Int)

theorem compareFrom_eq (a b : List Nat) (n : Nat) (hn : n = min a.length b.length) :
    ∀ (fuel i : Nat), i ≤ n → n - i < fuel →
      compareFrom a b n fuel i = some (cmpList (a.drop i) (b.drop i) ) := by
  intro fuel
  induction fuel with
  | zero => intro i _ h; omega
  | succ fuel ih =>
    intro i hi hf
    unfold compareFrom
    by_cases hlt : i < n
    · have ha : i < a.length := by omega
      have hb : i < b.length := by omega
      simp only [hlt, if_true]
      rw [List.getElem?_eq_getElem ha, List.getElem?_eq_getElem hb]
      rw [List.drop_eq_getElem_cons ha, List.drop_eq_getElem_cons hb]
      simp only [cmpList]
      split
      · rfl
      · exact ih (i + 1) (by omega) (by omega)
    · have hin : i = n := by omega
      simp only [hlt, if_false]
      subst hin
      by_cases hab : a.length ≤ b.length
      · have : List.drop i a = [] := List.drop_eq_nil_of_le (by omega)
        rw [this]
        cases hd : List.drop i b with
        | nil =>
          have : b.length ≤ i := by simpa using List.drop_eq_nil_iff.mp hd
          simp [cmpList]; omega
        | cons y ys =>
          have hl : (List.drop i b).length = b.length - i := List.length_drop
          rw [hd] at hl
          simp [cmpList] at hl ⊢; omega
      · have : List.drop i b = [] := List.drop_eq_nil_of_le (by omega)
        rw [this]
        have hl : (List.drop i a).length = a.length - i := List.length_drop
        cases hd : List.drop i a with
        | nil => rw [hd] at hl; simp [cmpList] at hl ⊢; omega
        | cons y ys => rw [hd] at hl; simp [cmpList] at hl ⊢; omega

theorem stringCompareUCS2_eq (a b : List Nat) : stringCompareUCS2 a b = some (cmpList a b) := by
  unfold stringCompareUCS2
  have h := compareFrom_eq a b (min a.length b.length) rfl (min a.length b.length + 1) 0 (by omega) (by omega)
  simp only [List.drop_zero] at h
  have hmin : (if a.length < b.length then a.length else b.length) = min a.length b.length := by
    split <;> omega
  simp only [hmin]
  exact h

theorem cmpList_neg (a : List Nat) : ∀ b, (cmpList a b < 0 ↔ stringLessThan a b = true) := by
  induction a with
  | nil => intro b; cases b <;> simp [cmpList, stringLessThan] <;> omega
  | cons x xs ih =>
    intro b
    cases b with
    | nil => simp [cmpList, stringLessThan]; omega
    | cons y ys =>
      simp only [cmpList, stringLessThan]
      by_cases h1 : x < y
      · simp [h1]; omega
      · by_cases h2 : y < x
        · simp [h1, h2]; omega
        · have : x = y := by omega
          subst this
          simp [ih ys]

theorem cmpList_zero (a : List Nat) : ∀ b, (cmpList a b = 0 ↔ a = b) := by
  induction a with
  | nil => intro b; cases b <;> simp [cmpList]; omega
  | cons x xs ih =>
    intro b
    cases b with
    | nil => simp [cmpList]; omega
    | cons y ys =>
      simp only [cmpList]
      by_cases h : x = y
      · subst h; simp [ih ys]
      · have : (x : Int) - (y : Int) ≠ 0 := by omega
        simp [this, h]

theorem cmpList_swap (a : List Nat) : ∀ b, cmpList b a = - cmpList a b := by
  induction a with
  | nil => intro b; cases b <;> simp [cmpList]
  | cons x xs ih =>
    intro b
    cases b with
    | nil => simp [cmpList]
    | cons y ys =>
      simp only [cmpList]
      by_cases h : x = y
      · subst h; simp [ih ys]
      · have h1 : (x : Int) - (y : Int) ≠ 0 := by omega
        have h2 : (y : Int) - (x : Int) ≠ 0 := by omega
        simp [h1, h2]; omega

theorem cmpList_pos (a b : List Nat) : (cmpList a b > 0 ↔ stringLessThan b a = true) := by
  rw [← cmpList_neg b a, cmpList_swap a b]; omega

-- ---------------------------------------------------------------- decimal digits

theorem digitChar_toNat : ∀ d, d < 10 → (Nat.digitChar d).toNat = 48 + d := by decide

theorem formatDigits_eq (fuel : Nat) : ∀ (u : Nat) (acc : List Nat) (cs : List Char), acc = cs.map Char.toNat →
    formatDigits fuel u acc = (Nat.toDigitsCore 10 fuel u cs).map Char.toNat := by
  induction fuel with
  | zero => intro u acc cs h; simp [formatDigits, Nat.toDigitsCore, h]
  | succ fuel ih =>
    intro u acc cs h
    simp only [formatDigits, Nat.toDigitsCore]
    have hd : (Nat.digitChar (u % 10)).toNat = 48 + u % 10 := digitChar_toNat _ (Nat.mod_lt _ (by decide))
    split
    · simp [h, hd]
    · exact ih _ _ _ (by simp [h, hd])

theorem formatDigits_decimal (v : Nat) : formatDigits (v + 1) v [] = decimal v := by
  unfold decimal Nat.toDigits
  exact formatDigits_eq (v + 1) v [] [] rfl


theorem decimal_small (d : Nat) (h : d < 10) : decimal d = [48 + d] := by
  unfold decimal
  rw [Nat.toDigits_of_lt_base h]
  simp [digitChar_toNat d h]

theorem decimal_step (n d : Nat) (hn : 0 < n) (hd : d < 10) : decimal (n * 10 + d) = decimal n ++ [48 + d] := by
  have h := @Nat.toDigits_append_toDigits 10 n d (by decide) hn hd
  unfold decimal
  rw [Nat.mul_comm n 10, ← h, Nat.toDigits_of_lt_base hd]
  simp [digitChar_toNat d hd]

theorem digitsValueFrom_append (xs : List Nat) : ∀ (acc : Nat) (c : Nat),
    digitsValueFrom acc (xs ++ [c]) =
      match digitsValueFrom acc xs with
      | some a => if 48 ≤ c ∧ c ≤ 57 then some (a * 10 + (c - 48)) else none
      | none => none := by
  induction xs with
  | nil => intro acc c; simp [digitsValueFrom]
  | cons x xs ih =>
    intro acc c
    simp only [List.cons_append, digitsValueFrom]
    split
    · exact ih _ _
    · rfl

theorem digitsValueFrom_decimal : ∀ (v : Nat), digitsValueFrom 0 (decimal v) = some v := by
  intro v
  induction v using Nat.strongRecOn with
  | _ v ih =>
    by_cases h : v < 10
    · rw [decimal_small v h]
      simp [digitsValueFrom]; omega
    · have hv : v = (v / 10) * 10 + v % 10 := by omega
      have hd : v % 10 < 10 := Nat.mod_lt _ (by decide)
      rw [hv, decimal_step (v / 10) (v % 10) (by omega) hd, digitsValueFrom_append, ih (v / 10) (by omega)]
      simp; omega

theorem decimal_ne_nil (v : Nat) : decimal v ≠ [] := by
  intro h
  by_cases hv : v < 10
  · rw [decimal_small v hv] at h; simp at h
  · have hv' : v = (v / 10) * 10 + v % 10 := by omega
    rw [hv', decimal_step (v / 10) (v % 10) (by omega) (Nat.mod_lt _ (by decide))] at h
    simp at h

theorem digitsValue_decimal (v : Nat) : digitsValue (decimal v) = some v := by
  have h := digitsValueFrom_decimal v
  cases hd : decimal v with
  | nil => exact absurd hd (decimal_ne_nil v)
  | cons c cs => rw [hd] at h; simpa [digitsValue] using h

/-- the first code unit of a decimal representation is a digit -/
theorem decimal_head (v : Nat) : ∃ c cs, decimal v = c :: cs ∧ 48 ≤ c ∧ c ≤ 57 := by
  have h := digitsValueFrom_decimal v
  cases hd : decimal v with
  | nil => exact absurd hd (decimal_ne_nil v)
  | cons c cs =>
    refine ⟨c, cs, rfl, ?_⟩
    rw [hd] at h
    simp only [digitsValueFrom] at h
    split at h
    · assumption
    · cases h

theorem formatInt_eq (i : Int) : formatInt i = (if i < 0 then [45] else []) ++ decimal i.natAbs := by
  unfold formatInt; rw [formatDigits_decimal]

theorem numberToString_ofInt (i : Int) (h : i.natAbs < 2 ^ 53) : numberToString (ofInt i) = some (formatInt i) := by
  rw [formatInt_eq]
  unfold ofInt numberToString
  by_cases h0 : i.natAbs = 0
  · have : i = 0 := by omega
    subst this
    simp [ascii, decimal_small 0 (by decide)]
  · simp only [h0, if_false]
    have h1 : isIntegral i.natAbs 0 = true := by simp [isIntegral]
    have h2 : truncAbs i.natAbs 0 = i.natAbs := by simp [truncAbs]
    simp [h1, h2, h]

theorem stringToNumber_formatInt (i : Int) (h : i.natAbs < 2 ^ 53) :
    stringToNumber (formatInt i) = some (ofInt i) := by
  rw [formatInt_eq]
  by_cases hn : i < 0
  · simp [hn, stringToNumber, decimalLiteral, digitsValue_decimal, h, ofInt]
  · simp only [hn, if_false, List.nil_append]
    obtain ⟨c, cs, hc, h1, h2⟩ := decimal_head i.natAbs
    have hv := digitsValue_decimal i.natAbs
    rw [hc] at hv ⊢
    have e1 : c ≠ 45 := by omega
    have e2 : c ≠ 43 := by omega
    have e3 : ¬ (c = 91 ∨ c = 47) := by omega
    simp [stringToNumber, decimalLiteral, e1, e2, e3, hv, h, ofInt, hn]

open EsbuildModel.ToInt32 in
theorem wrap32_range' (x : Int) : -2147483648 ≤ wrap32 x ∧ wrap32 x < 2147483648 := by
  unfold wrap32; omega

open EsbuildModel.ToInt32 in
theorem parseDigits32_range (ds : List Nat) : ∀ (acc iv : Int), -2147483648 ≤ acc ∧ acc < 2147483648 →
    parseDigits32 acc ds = some iv → -2147483648 ≤ iv ∧ iv < 2147483648 := by
  induction ds with
  | nil => intro acc iv h hp; simp [parseDigits32] at hp; omega
  | cons c cs ih =>
    intro acc iv h hp
    simp only [parseDigits32] at hp
    split at hp
    · cases hp
    · exact ih _ _ (wrap32_range' _) hp

/-- what StringToEquivalentNumberValue guarantees: the string is the canonical decimal text of an int32 and the
result is that integer -/
theorem stringToEquivalentNumberValue_spec (s : List Nat) (n : F64) (h : stringToEquivalentNumberValue s = some n) :
    ∃ iv : Int, -2147483648 ≤ iv ∧ iv < 2147483648 ∧ s = formatInt iv ∧ n = ofInt iv := by
  unfold stringToEquivalentNumberValue at h
  cases s with
  | nil => cases h
  | cons c0 rest =>
    simp only at h
    generalize (c0 == 45 && decide ((c0 :: rest).length > 1)) = isNeg at h
    generalize (if isNeg = true then rest else c0 :: rest) = digits at h
    cases hp : parseDigits32 0 digits with
    | none => simp [hp] at h
    | some iv =>
      have hr := parseDigits32_range _ 0 iv (by omega) hp
      simp only [hp] at h
      generalize hiv : (if isNeg = true then ToInt32.wrap32 (-iv) else iv) = iv' at h
      have hr' : -2147483648 ≤ iv' ∧ iv' < 2147483648 := by
        subst hiv
        split
        · exact wrap32_range' _
        · exact hr
      by_cases heq : ((c0 :: rest) == formatInt iv') = true
      · simp only [heq, if_true] at h
        cases h
        exact ⟨iv', hr'.1, hr'.2, eq_of_beq heq, rfl⟩
      · simp [heq] at h

theorem digitOfRadix10 (c d : Nat) (h : digitOfRadix 10 c = some d) : c = 48 + d ∧ d < 10 := by
  unfold digitOfRadix at h
  simp only at h
  split at h
  · rename_i d' hd
    split at h
    · cases h
      split at hd
      · cases hd; omega
      · split at hd
        · cases hd; omega
        · split at hd
          · cases hd; omega
          · cases hd
    · cases h
  · cases h

theorem radixValueFrom10_decimal (t : List Nat) : ∀ (acc v : Nat), 0 < acc →
    radixValueFrom 10 acc t = some v → decimal v = decimal acc ++ t := by
  induction t with
  | nil => intro acc v _ h; simp [radixValueFrom] at h; simp [h]
  | cons c cs ih =>
    intro acc v hacc h
    simp only [radixValueFrom] at h
    split at h
    · rename_i d hd
      obtain ⟨hc, hd10⟩ := digitOfRadix10 c d hd
      have := ih (acc * 10 + d) v (by omega) h
      rw [this, decimal_step acc d hacc hd10, hc]
      simp
    · cases h

theorem bigint_canonical (t : List Nat) (v : Nat) (h : bigintLiteralValue t = some v) (hn : noRadix t = true) :
    decimal v = t := by
  cases t with
  | nil => simp [bigintLiteralValue] at h
  | cons c cs =>
    simp only [bigintLiteralValue] at h
    by_cases hc48 : c = 48
    · subst hc48
      cases cs with
      | nil => simp at h; subst h; exact decimal_small 0 (by decide)
      | cons p ds => simp [noRadix] at hn; omega
    · simp only [hc48, if_false, radixValue, radixValueFrom] at h
      split at h
      · rename_i d hd
        obtain ⟨hc, hd10⟩ := digitOfRadix10 c d hd
        have := radixValueFrom10_decimal cs (0 * 10 + d) v (by omega) h
        rw [this, Nat.zero_mul, Nat.zero_add, decimal_small d hd10, hc]
        rfl
      · cases h

end EsbuildModel.Fold
