import EsbuildModel.Impl.StmtMangle
/-!
Lemmas/StmtMangleDead — what shouldKeepStmtInDeadControlFlow (`keepDead`) keeps: the hoisted declarations.
-/
namespace EsbuildModel.MiniJS

mutual
/-- the function declarations anywhere inside a statement (they are hoisted out of dead code as well) -/
def Stmt.fnsDeep : Stmt → List Nat
  | .func f _ => [f]
  | .ifS _ y n => y.fnsDeep ++ optFnsDeep n
  | .block ss => listFnsDeep ss
  | .label _ s => s.fnsDeep
  | .forS _ _ _ b => b.fnsDeep
  | .whileS _ b => b.fnsDeep
  | .doWhile b _ => b.fnsDeep
  | _ => []
def optFnsDeep : Option Stmt → List Nat
  | none => []
  | some s => s.fnsDeep
def listFnsDeep : List Stmt → List Nat
  | [] => []
  | s :: ss => s.fnsDeep ++ listFnsDeep ss
end

theorem declNames_stripInits : ∀ ds : List Decl, declNames (stripInits ds) = declNames ds
  | [] => rfl
  | d :: ds => by simp [stripInits, declNames, declNames_stripInits ds]

theorem declNames_nil_of_empty (ds : List Decl) (h : ds.isEmpty = true) : declNames ds = [] := by
  cases ds <;> simp_all [declNames]

/-- the names stay, the initialisers go -/
def noInits : List Decl → Bool
  | [] => true
  | d :: ds => d.init.isNone && noInits ds

theorem noInits_stripInits : ∀ ds : List Decl, noInits (stripInits ds) = true
  | [] => rfl
  | d :: ds => by simp [stripInits, noInits, noInits_stripInits ds]

theorem keepDeadDecl_names (k : DeclKind) (ds : List Decl) : declNames (keepDeadDecl k ds).2 = declNames ds := by
  simp only [keepDeadDecl]
  split
  · rfl
  · split
    · rfl
    · exact declNames_stripInits ds

mutual
/-- the statement as keepDead leaves it declares the same `var` names and the same functions -/
theorem keepDead_names : ∀ s : Stmt, (keepDead s).2.varNames = s.varNames ∧ (keepDead s).2.fnsDeep = s.fnsDeep
  | .decl k ds => by
    simp only [keepDead, Stmt.varNames, Stmt.fnsDeep, keepDeadDecl_names]
    simp
  | .block ss => by simp only [keepDead, Stmt.varNames, Stmt.fnsDeep]; exact keepDeadList_names ss
  | .ifS c y n => by
    simp only [keepDead]
    split
    · simp [Stmt.varNames, Stmt.fnsDeep, keepDead_names y]
    · simp [Stmt.varNames, Stmt.fnsDeep, keepDeadOpt_names n]
  | .whileS c b => by simp [keepDead, Stmt.varNames, Stmt.fnsDeep, keepDead_names b]
  | .doWhile b c => by simp [keepDead, Stmt.varNames, Stmt.fnsDeep, keepDead_names b]
  | .forS init t u b => by
    cases init with
    | none => simp [keepDead, Stmt.varNames, Stmt.fnsDeep, keepDead_names b]
    | expr e => simp [keepDead, Stmt.varNames, Stmt.fnsDeep, keepDead_names b]
    | decl k ds =>
      simp only [keepDead]
      split
      · simp only [Stmt.varNames, Stmt.fnsDeep, ForInit.varNames, keepDeadDecl_names]
        simp
      · simp [Stmt.varNames, Stmt.fnsDeep, keepDead_names b]
  | .label l s => by simp [keepDead, Stmt.varNames, Stmt.fnsDeep, keepDead_names s]
  | .func f fid => by simp [keepDead]
  | .empty => by simp [keepDead]
  | .expr _ => by simp [keepDead]
  | .ret _ => by simp [keepDead]
  | .throw _ => by simp [keepDead]
  | .brk _ => by simp [keepDead]
  | .cont _ => by simp [keepDead]
theorem keepDeadOpt_names : ∀ n : Option Stmt,
    optVarNames (keepDeadOpt n).2 = optVarNames n ∧ optFnsDeep (keepDeadOpt n).2 = optFnsDeep n
  | none => by simp [keepDeadOpt]
  | some s => by simp [keepDeadOpt, optVarNames, optFnsDeep, keepDead_names s]
theorem keepDeadList_names : ∀ ss : List Stmt,
    listVarNames (keepDeadList ss).2 = listVarNames ss ∧ listFnsDeep (keepDeadList ss).2 = listFnsDeep ss
  | [] => by simp [keepDeadList]
  | s :: ss => by
    simp only [keepDeadList]
    split
    · simp [listVarNames, listFnsDeep, keepDead_names s]
    · simp [listVarNames, listFnsDeep, keepDeadList_names ss]
end

mutual
/-- a statement that is dropped from dead code declares no `var` and no function -/
theorem keepDead_false : ∀ s : Stmt, (keepDead s).1 = false → s.varNames = [] ∧ s.fnsDeep = []
  | .decl k ds, h => by
    simp only [keepDead, keepDeadDecl] at h
    simp only [Stmt.varNames, Stmt.fnsDeep]
    split at h
    · rename_i hk; simp at hk; simp [hk]
    · split at h
      · rename_i he; simp [declNames_nil_of_empty ds he]
      · simp at h
  | .block ss, h => by simp only [keepDead] at h; simpa [Stmt.varNames, Stmt.fnsDeep] using keepDeadList_false ss h
  | .ifS c y n, h => by
    simp only [keepDead] at h
    split at h
    · simp at h
    · rename_i hy
      have hy' : (keepDead y).1 = false := by simpa using hy
      simp [Stmt.varNames, Stmt.fnsDeep, keepDead_false y hy', keepDeadOpt_false n h]
  | .whileS c b, h => by simp only [keepDead] at h; simpa [Stmt.varNames, Stmt.fnsDeep] using keepDead_false b h
  | .doWhile b c, h => by simp only [keepDead] at h; simpa [Stmt.varNames, Stmt.fnsDeep] using keepDead_false b h
  | .forS init t u b, h => by
    cases init with
    | none => simp only [keepDead] at h; simpa [Stmt.varNames, Stmt.fnsDeep, ForInit.varNames] using keepDead_false b h
    | expr e => simp only [keepDead] at h; simpa [Stmt.varNames, Stmt.fnsDeep, ForInit.varNames] using keepDead_false b h
    | decl k ds =>
      simp only [keepDead] at h
      split at h
      · simp at h
      · rename_i hd
        have hb := keepDead_false b h
        simp only [keepDeadDecl] at hd
        simp only [Stmt.varNames, Stmt.fnsDeep, ForInit.varNames, hb]
        split at hd
        · rename_i hk; simp at hk; simp [hk]
        · split at hd
          · rename_i he; simp [declNames_nil_of_empty ds he]
          · simp at hd
  | .label l s, h => by simp only [keepDead] at h; simpa [Stmt.varNames, Stmt.fnsDeep] using keepDead_false s h
  | .func f fid, h => by simp [keepDead] at h
  | .empty, _ => by simp [Stmt.varNames, Stmt.fnsDeep]
  | .expr _, _ => by simp [Stmt.varNames, Stmt.fnsDeep]
  | .ret _, _ => by simp [Stmt.varNames, Stmt.fnsDeep]
  | .throw _, _ => by simp [Stmt.varNames, Stmt.fnsDeep]
  | .brk _, _ => by simp [Stmt.varNames, Stmt.fnsDeep]
  | .cont _, _ => by simp [Stmt.varNames, Stmt.fnsDeep]
theorem keepDeadOpt_false : ∀ n : Option Stmt, (keepDeadOpt n).1 = false → optVarNames n = [] ∧ optFnsDeep n = []
  | none, _ => by simp [optVarNames, optFnsDeep]
  | some s, h => by simp only [keepDeadOpt] at h; simpa [optVarNames, optFnsDeep] using keepDead_false s h
theorem keepDeadList_false : ∀ ss : List Stmt, (keepDeadList ss).1 = false → listVarNames ss = [] ∧ listFnsDeep ss = []
  | [], _ => by simp [listVarNames, listFnsDeep]
  | s :: ss, h => by
    simp only [keepDeadList] at h
    split at h
    · simp at h
    · rename_i hs
      have hs' : (keepDead s).1 = false := by simpa using hs
      simp [listVarNames, listFnsDeep, keepDead_false s hs', keepDeadList_false ss h]
end

end EsbuildModel.MiniJS
