import EsbuildModel.Impl.Fold
import EsbuildModel.Spec.JsArith
import EsbuildModel.Lemmas.ToInt32
/-! Helper lemmas for the `fold` kernel: comparison of dyadic values, Go's IEEE comparisons against ECMA-262
Number::lessThan / Number::equal, Go's int32 / uint32 operators (BitVec 32) against the shift and bit operators
of ECMA-262. -/
set_option linter.unusedSimpArgs false
namespace EsbuildModel.Fold
open EsbuildModel F64 EsbuildModel.Spec.JsArith EsbuildModel.ToInt32

/-- magnitude of `scaled` -/
def mag (m : Nat) (e e0 : Int) : Nat := m * 2 ^ (e - e0).toNat

theorem scaled_eq (n : Bool) (m : Nat) (e e0 : Int) :
    scaled n m e e0 = if n then -(mag m e e0 : Int) else (mag m e e0 : Int) := rfl

theorem mag_eq_zero (m : Nat) (e e0 : Int) : mag m e e0 = 0 ↔ m = 0 := by
  unfold mag
  have h2 : 0 < 2 ^ (e - e0).toNat := Nat.two_pow_pos _
  constructor
  · intro h
    rcases Nat.eq_zero_or_pos m with hm | hm
    · exact hm
    · have := Nat.mul_pos hm h2; omega
  · intro h; subst h; simp

theorem mag_zero (e e0 : Int) : mag 0 e e0 = 0 := by simp [mag]

theorem finEq_iff (n1 : Bool) (m1 : Nat) (e1 : Int) (n2 : Bool) (m2 : Nat) (e2 : Int) :
    finEq n1 m1 e1 n2 m2 e2 = true ↔ scaled n1 m1 e1 (min e1 e2) = scaled n2 m2 e2 (min e1 e2) := by
  simp [finEq]

theorem finLt_iff (n1 : Bool) (m1 : Nat) (e1 : Int) (n2 : Bool) (m2 : Nat) (e2 : Int) :
    finLt n1 m1 e1 n2 m2 e2 = true ↔ scaled n1 m1 e1 (min e1 e2) < scaled n2 m2 e2 (min e1 e2) := by
  simp [finLt]

theorem ieeeEq_fin_zero (n : Bool) (m : Nat) (e : Int) : ieeeEq (.fin n m e) zero = decide (m = 0) := by
  have h := mag_eq_zero m e (min e 0)
  rw [Bool.eq_iff_iff]
  simp only [ieeeEq, zero, finEq_iff, scaled_eq, mag_zero, decide_eq_true_eq]
  cases n <;> simp <;> omega

theorem ieeeLt_fin_zero (n : Bool) (m : Nat) (e : Int) : ieeeLt (.fin n m e) zero = (n && decide (m ≠ 0)) := by
  have h := mag_eq_zero m e (min e 0)
  rw [Bool.eq_iff_iff]
  simp only [ieeeLt, zero, finLt_iff, scaled_eq, mag_zero]
  cases n <;> simp <;> omega

theorem ieeeLt_zero_fin (n : Bool) (m : Nat) (e : Int) : ieeeLt zero (.fin n m e) = (!n && decide (m ≠ 0)) := by
  have h := mag_eq_zero m e (min 0 e)
  rw [Bool.eq_iff_iff]
  simp only [ieeeLt, zero, finLt_iff, scaled_eq, mag_zero]
  cases n <;> simp <;> omega


theorem fin_le_iff (n1 : Bool) (m1 : Nat) (e1 : Int) (n2 : Bool) (m2 : Nat) (e2 : Int) :
    (finLt n1 m1 e1 n2 m2 e2 || finEq n1 m1 e1 n2 m2 e2) = !finLt n2 m2 e2 n1 m1 e1 := by
  rw [Bool.eq_iff_iff]
  simp only [Bool.or_eq_true, Bool.not_eq_true', ← Bool.not_eq_true, finLt_iff, finEq_iff, Int.min_comm e2 e1]
  omega

theorem fin_ge_iff (n1 : Bool) (m1 : Nat) (e1 : Int) (n2 : Bool) (m2 : Nat) (e2 : Int) :
    (finLt n2 m2 e2 n1 m1 e1 || finEq n1 m1 e1 n2 m2 e2) = !finLt n1 m1 e1 n2 m2 e2 := by
  rw [Bool.eq_iff_iff]
  simp only [Bool.or_eq_true, Bool.not_eq_true', ← Bool.not_eq_true, finLt_iff, finEq_iff, Int.min_comm e2 e1]
  omega

theorem lt_correct (a b : F64) : ieeeLt a b = (lessThan a b).getD false := by
  cases a <;> cases b <;> simp [ieeeLt, lessThan]
  all_goals (try (rename_i x y; cases x <;> cases y <;> rfl))

theorem eq_correct (a b : F64) : ieeeEq a b = numberEqual a b := by
  cases a <;> cases b <;> simp [ieeeEq, numberEqual]

theorem falseResult_some (b : Bool) : falseResult (some b) = !b := by cases b <;> rfl

theorem le_correct (a b : F64) : ieeeLe a b = falseResult (lessThan b a) := by
  cases a <;> cases b <;> simp [ieeeLe, ieeeLt, ieeeEq, lessThan, fin_le_iff, falseResult_some]
  all_goals (try (rename_i x y; cases x <;> cases y <;> rfl))
  all_goals (try rfl)

theorem ge_correct (a b : F64) : ieeeGe a b = falseResult (lessThan a b) := by
  cases a <;> cases b <;> simp [ieeeGe, ieeeLt, ieeeEq, lessThan, fin_ge_iff, falseResult_some]
  all_goals (try (rename_i x y; cases x <;> cases y <;> rfl))
  all_goals (try rfl)

-- ---------------------------------------------------------------- int32 / uint32

theorem spec_range (f : F64) : -2147483648 ≤ spec f ∧ spec f < 2147483648 := by
  cases f with
  | nan => simp [spec]
  | inf n => simp [spec]
  | fin neg m e =>
    simp only [spec]
    split <;> omega

theorem toInt32_toNat (G : F64 → Int) (f : F64) : (toInt32 G f).toNat = toBits32 (spec f) := by
  unfold toInt32 toBits32
  rw [impl_eq_spec, BitVec.toNat_ofInt]
  rfl

theorem bv_toInt_eq (b : BitVec 32) : b.toInt = ofBits32 b.toNat := by
  rw [BitVec.toInt_eq_toNat_bmod, Int.bmod_def]
  unfold ofBits32
  have := b.isLt
  split <;> split <;> omega

theorem ofBits32_toBits32 (x : Int) (h : -2147483648 ≤ x ∧ x < 2147483648) : ofBits32 (toBits32 x) = x := by
  unfold ofBits32 toBits32
  split <;> omega

theorem toInt32_toInt (G : F64 → Int) (f : F64) : (toInt32 G f).toInt = spec f := by
  rw [bv_toInt_eq, toInt32_toNat, ofBits32_toBits32 _ (spec_range f)]

theorem specU_eq (f : F64) : specU f = spec f % 4294967296 := by
  rw [← implU_eq_specU 0 f, implU, impl_eq_spec]

theorem shiftAmount_eq (G : F64 → Int) (b : F64) : shiftAmount G b = shiftCount b := by
  unfold shiftAmount shiftCount toUint32
  rw [BitVec.toNat_and, toInt32_toNat, specU_eq]
  have : (31#32 : BitVec 32).toNat = 2 ^ 5 - 1 := by decide
  rw [this, Nat.and_two_pow_sub_one_eq_mod]
  unfold toBits32
  omega

theorem shl_correct (G : F64 → Int) (a b : F64) :
    ofInt32 (toInt32 G a <<< shiftAmount G b) = leftShift a b := by
  unfold ofInt32 leftShift
  rw [bv_toInt_eq, BitVec.toNat_shiftLeft, toInt32_toNat, shiftAmount_eq, Nat.shiftLeft_eq]

theorem shr_correct (G : F64 → Int) (a b : F64) :
    ofInt32 ((toInt32 G a).sshiftRight (shiftAmount G b)) = signedRightShift a b := by
  unfold ofInt32 signedRightShift
  rw [BitVec.toInt_sshiftRight, toInt32_toInt, shiftAmount_eq, Int.shiftRight_eq_div_pow]

theorem ushr_correct (G : F64 → Int) (a b : F64) :
    ofUint32 (toUint32 G a >>> shiftAmount G b) = unsignedRightShift a b := by
  unfold ofUint32 unsignedRightShift toUint32
  rw [BitVec.toNat_ushiftRight, toInt32_toNat, shiftAmount_eq, Nat.shiftRight_eq_div_pow, specU_eq]
  congr 1
  unfold toBits32
  have h1 : (0:Int) ≤ spec a % 4294967296 := Int.emod_nonneg _ (by decide)
  rw [Int.natCast_ediv, Int.toNat_of_nonneg h1]

theorem band_correct (G : F64 → Int) (a b : F64) :
    ofInt32 (toInt32 G a &&& toInt32 G b) = numberBitwise (· &&& ·) a b := by
  unfold ofInt32 numberBitwise
  rw [bv_toInt_eq, BitVec.toNat_and, toInt32_toNat, toInt32_toNat]

theorem bor_correct (G : F64 → Int) (a b : F64) :
    ofInt32 (toInt32 G a ||| toInt32 G b) = numberBitwise (· ||| ·) a b := by
  unfold ofInt32 numberBitwise
  rw [bv_toInt_eq, BitVec.toNat_or, toInt32_toNat, toInt32_toNat]

theorem bxor_correct (G : F64 → Int) (a b : F64) :
    ofInt32 (toInt32 G a ^^^ toInt32 G b) = numberBitwise (· ^^^ ·) a b := by
  unfold ofInt32 numberBitwise
  rw [bv_toInt_eq, BitVec.toNat_xor, toInt32_toNat, toInt32_toNat]

theorem cpl_correct (G : F64 → Int) (a : F64) :
    ofInt32 (~~~ (toInt32 G a)) = bitwiseNOT a := by
  unfold ofInt32 bitwiseNOT
  rw [bv_toInt_eq, BitVec.toNat_not, toInt32_toNat]

/-- 53-bit significand: what distinguishes a float64 from an arbitrary dyadic -/
def Mant53 : F64 → Prop
  | .fin _ m _ => m < 2 ^ 53
  | _ => True

theorem mant53_ofBits (b : Nat) : Mant53 (ofBits b) := by
  unfold ofBits
  simp only
  split
  · split <;> trivial
  · split
    · show b % 2 ^ 52 < 2 ^ 53
      have := Nat.mod_lt b (Nat.two_pow_pos 52)
      omega
    · show b % 2 ^ 52 + 2 ^ 52 < 2 ^ 53
      have := Nat.mod_lt b (Nat.two_pow_pos 52)
      omega

end EsbuildModel.Fold
