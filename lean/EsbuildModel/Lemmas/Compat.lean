import EsbuildModel.Impl.Compat
namespace EsbuildModel.Compat

def esv (n : Nat) : Semver := { parts := [n], pre := false }

/-- shape check used by monotonicity: the ES entry of a feature is one open-ended range -/
def esOpen (engines : List (String × List Range)) : Bool :=
  match engines.lookup "ES" with
  | none => true
  | some [(_, e)] => e == (0, 0, 0)
  | some _ => false

theorem table_es_open : Gen.compatTable.all (fun (_, engines) => esOpen engines) = true := by decide +kernel

theorem features_fit : Gen.compatFeatures.length ≤ 64 := by decide

theorem every_feature_listed :
    Gen.compatFeatures.all (fun f => f == "InlineScript" || (Gen.compatTable.lookup f).isSome) = true := by decide +kernel

theorem compare_mono (s : V) (n m : Nat) (h : n ≤ m) (hs : compareVersions s (esv n) ≤ 0) :
    compareVersions s (esv m) ≤ 0 := by
  obtain ⟨a, b, c⟩ := s
  simp only [compareVersions, esv, List.getD_cons_zero, List.getD_cons_succ, List.getD_nil] at *
  simp at *
  (repeat' split at hs) <;> (repeat' split) <;> omega


theorem lookup_mem {α β} [BEq α] [LawfulBEq α] (k : α) (v : β) (l : List (α × β)) (h : l.lookup k = some v) : (k, v) ∈ l := by
  induction l with
  | nil => simp [List.lookup] at h
  | cons x xs ih =>
    obtain ⟨a, b⟩ := x
    simp only [List.lookup] at h
    split at h
    · rename_i heq
      simp at h; subst h
      have : k = a := by simpa using heq
      subst this; simp
    · exact List.mem_cons_of_mem _ (ih h)

theorem unsupported_open_mono (engines : List (String × List Range)) (ho : esOpen engines = true) (n m : Nat) (h : n ≤ m)
    (hu : featureUnsupported engines [("ES", esv m)] = true) : featureUnsupported engines [("ES", esv n)] = true := by
  simp only [featureUnsupported, List.any_cons, List.any_nil, Bool.or_false] at *
  unfold esOpen at ho
  cases hl : engines.lookup "ES" with
  | none => rfl
  | some ranges =>
    rw [hl] at ho hu
    simp only at hu ho ⊢
    match ranges, ho with
    | [(s, e)], ho =>
      simp only [isVersionSupported, List.any_cons, List.any_nil, Bool.or_false] at hu ⊢
      have he : (e == ((0, 0, 0) : V)) = true := ho
      simp only [he, Bool.true_or, Bool.and_true, Bool.not_eq_true', decide_eq_false_iff_not] at hu ⊢
      intro hn
      exact hu (compare_mono s n m h hn)

/-- `Compat.monotone`: a syntax feature that must be transformed for ES target `m` must also be
transformed for every older ES target `n ≤ m` (equivalently: supported at ES n ⇒ supported at ES n+1). -/
theorem es_monotone (f : String) (n m : Nat) (h : n ≤ m)
    (hm : f ∈ unsupported Gen.compatTable Gen.compatFeatures [("ES", esv m)]) :
    f ∈ unsupported Gen.compatTable Gen.compatFeatures [("ES", esv n)] := by
  simp only [unsupported, List.mem_filter] at hm ⊢
  refine ⟨hm.1, ?_⟩
  have h2 := hm.2
  simp only [Bool.and_eq_true] at h2 ⊢
  refine ⟨h2.1, ?_⟩
  cases hl : Gen.compatTable.lookup f with
  | none => rw [hl] at h2; simp at h2
  | some engines =>
    rw [hl] at h2
    have hmem := lookup_mem f engines Gen.compatTable hl
    have hopen : esOpen engines = true := by
      have := List.all_eq_true.mp table_es_open (f, engines) hmem
      simpa using this
    exact unsupported_open_mono engines hopen n m h h2.2

theorem overrides_bit (features overrides mask : BitVec 64) (i : Nat) :
    (applyOverrides features overrides mask).getLsbD i =
      if mask.getLsbD i then overrides.getLsbD i else features.getLsbD i := by
  unfold applyOverrides
  by_cases hi : i < 64
  · simp only [BitVec.getLsbD_or, BitVec.getLsbD_and, BitVec.getLsbD_not, hi, decide_true, Bool.true_and]
    cases mask.getLsbD i <;> simp
  · have h1 : ∀ x : BitVec 64, x.getLsbD i = false := fun x => BitVec.getLsbD_of_ge x i (by omega)
    simp [h1]

end EsbuildModel.Compat
