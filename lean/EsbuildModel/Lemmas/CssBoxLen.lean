import EsbuildModel.Lemmas.CssBoxMain
/-
Length facts: without the `inset` lowering every loop iteration appends exactly one slot, and neither the final
compaction nor the duplicate removal adds declarations.
-/
namespace EsbuildModel.CssBox
open EsbuildModel.Spec.BoxCascade

theorem step_length (o : Opts) (ho : o.insetUnsupported = false) (st : St) (hb : Bound st) (d : CssBox.Decl) :
    (step o st d).rs.rules.length = st.rs.rules.length + 1 := by
  unfold step
  simp only
  split
  · rename_i f hk
    have : ¬(f = Family.inset ∧ o.insetUnsupported = true) := by simp [ho]
    rw [if_neg this]
    exact (Bound_stepSides o st hb f d).2
  · exact (Bound_stepSide o st hb _ d _).2
  · simp

theorem foldl_step_length (o : Opts) (ho : o.insetUnsupported = false) (ds : List CssBox.Decl) (st : St) (hb : Bound st) :
    (ds.foldl (step o) st).rs.rules.length = st.rs.rules.length + ds.length := by
  induction ds generalizing st with
  | nil => rfl
  | cons d r ih =>
    rw [List.foldl_cons, ih _ (Bound_step o st hb d), step_length o ho st hb d]
    simp; omega

theorem removeDead_length_le (l : List CssBox.Decl) : (removeDead l).length ≤ l.length := by
  induction l with
  | nil => exact Nat.le_refl _
  | cons d r ih =>
    have hstep : removeDead (d :: r) =
        if (removeDead r).any (fun e => d.equal e) = true then removeDead r else d :: removeDead r := rfl
    rw [hstep]
    split
    · simp; omega
    · simp; omega

theorem minifyDecls_length_le (o : Opts) (ho : o.insetUnsupported = false) (ds out : List CssBox.Decl)
    (h : minifyDecls o ds = some out) : out.length ≤ ds.length := by
  unfold minifyDecls processDeclarations at h
  have hp := (Bound_foldl o ds _ (Bound_init o)).1
  simp only [hp, Bool.false_eq_true, if_false, Option.map_some, Option.some.injEq] at h
  rw [← h]
  have h1 := removeDead_length_le (List.filterMap id (List.foldl (step o) (initSt o) ds).rs.rules)
  have h2 := List.length_filterMap_le id (List.foldl (step o) (initSt o) ds).rs.rules
  have h3 := foldl_step_length o ho ds (initSt o) (Bound_init o)
  have h4 : (initSt o).rs.rules.length = 0 := rfl
  omega

theorem minifyDecls_isSome (o : Opts) (ds : List CssBox.Decl) : ∃ out, minifyDecls o ds = some out := by
  have := processDeclarations_isSome o ds
  unfold minifyDecls
  cases h : processDeclarations o ds with
  | none => rw [h] at this; cases this
  | some l => exact ⟨_, rfl⟩

end EsbuildModel.CssBox
