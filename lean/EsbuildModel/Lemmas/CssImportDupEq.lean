import EsbuildModel.Lemmas.CssImportSem
/-!
`DupEq`: two style sheets that differ only by `@layer` declarations that repeat, later, an identical earlier
declaration (same conditions, same layer).  esbuild wraps every file of an imported subtree separately, so the
opening of the wrapping `@layer` is repeated for every file; the specification wraps the subtree once.
`DupEq` is a congruence for concatenation and wrapping, and implies the same cascade in every context.
-/
namespace EsbuildModel.CssImport
open EsbuildModel.Spec.CssCascade

inductive DupEq : List Item → List Item → Prop
  | refl (a : List Item) : DupEq a a
  | symm {a b : List Item} : DupEq a b → DupEq b a
  | trans {a b c : List Item} : DupEq a b → DupEq b c → DupEq a c
  | dup (x : List Item) (cs : List Atom) (l : Layer) (y z : List Item) :
      DupEq (x ++ Item.declare cs l :: (y ++ Item.declare cs l :: z)) (x ++ Item.declare cs l :: (y ++ z))

theorem DupEq.of_eq {a b : List Item} (h : a = b) : DupEq a b := h ▸ DupEq.refl a

theorem DupEq.ctx {a b : List Item} (h : DupEq a b) (p t : List Item) : DupEq (p ++ a ++ t) (p ++ b ++ t) := by
  induction h with
  | refl a => exact .refl _
  | symm _ ih => exact .symm ih
  | trans _ _ ih1 ih2 => exact .trans ih1 ih2
  | dup x cs l y z =>
    have e1 : p ++ (x ++ Item.declare cs l :: (y ++ Item.declare cs l :: z)) ++ t =
        (p ++ x) ++ Item.declare cs l :: (y ++ Item.declare cs l :: (z ++ t)) := by simp
    have e2 : p ++ (x ++ Item.declare cs l :: (y ++ z)) ++ t =
        (p ++ x) ++ Item.declare cs l :: (y ++ (z ++ t)) := by simp
    rw [e1, e2]
    exact .dup _ _ _ _ _

theorem DupEq.append {a b c d : List Item} (h1 : DupEq a b) (h2 : DupEq c d) : DupEq (a ++ c) (b ++ d) := by
  have e1 : DupEq (a ++ c) (b ++ c) := by simpa using h1.ctx [] c
  have e2 : DupEq (b ++ c) (b ++ d) := by simpa using h2.ctx b []
  exact e1.trans e2

theorem DupEq.map_under {a b : List Item} (h : DupEq a b) (atoms : List Atom) (lay : Layer) :
    DupEq (a.map (Item.under atoms lay)) (b.map (Item.under atoms lay)) := by
  induction h with
  | refl a => exact .refl _
  | symm _ ih => exact .symm ih
  | trans _ _ ih1 ih2 => exact .trans ih1 ih2
  | dup x cs l y z =>
    simp only [List.map_append, List.map_cons, Item.under]
    exact .dup _ _ _ _ _

theorem DupEq.wrap {a b : List Item} (h : DupEq a b) (c : Cond) (id : List Nat) :
    DupEq (wrap c id a) (wrap c id b) := by
  unfold Spec.CssCascade.wrap
  exact (DupEq.refl _).append (h.map_under _ _)

theorem DupEq.wrapN {a b : List Item} (h : DupEq a b) (cs : List Cond) : DupEq (wrapN cs a) (wrapN cs b) := by
  induction cs with
  | nil => exact h
  | cons c cs ih => exact ih.wrap c []

/-- wrapping two pieces together or one after the other -/
theorem wrap_append (c : Cond) (id : List Nat) (a b : List Item) :
    DupEq (wrap c id (a ++ b)) (wrap c id a ++ wrap c id b) := by
  unfold Spec.CssCascade.wrap
  split
  · simp only [List.nil_append, List.map_append]
    exact .refl _
  · simp only [List.map_append, List.cons_append, List.nil_append]
    exact (DupEq.dup [] _ _ _ _).symm

theorem wrapN_append (cs : List Cond) (a b : List Item) :
    DupEq (wrapN cs (a ++ b)) (wrapN cs a ++ wrapN cs b) := by
  induction cs with
  | nil => exact .refl _
  | cons c cs ih =>
    show DupEq (wrap c [] (wrapN cs (a ++ b))) (wrap c [] (wrapN cs a) ++ wrap c [] (wrapN cs b))
    exact (ih.wrap c []).trans (wrap_append c [] _ _)

theorem wrapN_snoc (cs : List Cond) (c : Cond) (items : List Item) :
    wrapN (cs ++ [c]) items = wrapN cs (wrap c [] items) := by
  simp [wrapN, List.foldr_append]

-- ------------------------------------------------------------------ a repeated declaration changes nothing

theorem mem_addLayer_of_mem {acc : List Layer} {p : Layer} (l : Layer) (h : p ∈ acc) : p ∈ addLayer acc l := by
  unfold addLayer
  split
  · exact h
  · exact List.mem_append_left _ h

theorem mem_foldl_addLayer_of_mem {acc : List Layer} {p : Layer} (ps : List Layer) (h : p ∈ acc) :
    p ∈ ps.foldl addLayer acc := by
  induction ps generalizing acc with
  | nil => exact h
  | cons q ps ih => exact ih (mem_addLayer_of_mem q h)

theorem mem_foldl_addLayer_self (acc : List Layer) (ps : List Layer) : ∀ p ∈ ps, p ∈ ps.foldl addLayer acc := by
  induction ps generalizing acc with
  | nil => intro p hp; cases hp
  | cons q ps ih =>
    intro p hp
    rcases List.mem_cons.1 hp with rfl | hp
    · simp only [List.foldl_cons]
      apply mem_foldl_addLayer_of_mem
      show p ∈ addLayer acc p
      unfold addLayer
      split
      · assumption
      · simp
    · exact ih _ p hp

theorem foldl_addLayer_of_all_mem (acc : List Layer) (ps : List Layer) (h : ∀ p ∈ ps, p ∈ acc) :
    ps.foldl addLayer acc = acc := by
  induction ps with
  | nil => rfl
  | cons q ps ih =>
    have hq : q ∈ acc := h q (List.mem_cons_self ..)
    simp only [List.foldl_cons, addLayer, hq, ↓reduceIte]
    exact ih (fun p hp => h p (List.mem_cons_of_mem _ hp))

theorem mem_addLayers_of_mem {acc : List Layer} {p : Layer} (l : Layer) (h : p ∈ acc) : p ∈ addLayers acc l :=
  mem_foldl_addLayer_of_mem _ h

theorem mem_layerOrderFrom_of_mem (env : Env) {acc : List Layer} {p : Layer} (items : List Item) (h : p ∈ acc) :
    p ∈ layerOrderFrom env acc items := by
  unfold layerOrderFrom
  generalize items.filterMap (Item.declares env) = ls
  induction ls generalizing acc with
  | nil => exact h
  | cons l ls ih => exact ih (mem_addLayers_of_mem l h)

theorem layerOrderFrom_cons (env : Env) (acc : List Layer) (it : Item) (items : List Item) :
    layerOrderFrom env acc (it :: items) =
      layerOrderFrom env (match Item.declares env it with | some l => addLayers acc l | none => acc) items := by
  unfold layerOrderFrom
  rw [List.filterMap_cons]
  cases Item.declares env it <;> rfl

theorem layerOrderFrom_dup (env : Env) (acc : List Layer) (x : List Item) (cs : List Atom) (l : Layer)
    (y z : List Item) :
    layerOrderFrom env acc (x ++ Item.declare cs l :: (y ++ Item.declare cs l :: z)) =
      layerOrderFrom env acc (x ++ Item.declare cs l :: (y ++ z)) := by
  simp only [layerOrderFrom_append, layerOrderFrom_cons, Item.declares]
  by_cases hcs : cs.all (Atom.holds env) = true
  · -- the declaration is active
    simp only [hcs, ↓reduceIte]
    generalize layerOrderFrom env acc x = a1
    have hmem : ∀ p ∈ prefixes l, p ∈ layerOrderFrom env (addLayers a1 l) y := by
      intro p hp
      apply mem_layerOrderFrom_of_mem
      exact mem_foldl_addLayer_self a1 (prefixes l) p hp
    have : addLayers (layerOrderFrom env (addLayers a1 l) y) l = layerOrderFrom env (addLayers a1 l) y :=
      foldl_addLayer_of_all_mem _ _ hmem
    rw [this]
  · simp only [hcs, Bool.false_eq_true, ↓reduceIte]

theorem DupEq.sameLayers {a b : List Item} (h : DupEq a b) : SameLayers a b := by
  induction h with
  | refl a => exact SameLayers.rfl' a
  | symm _ ih => exact ih.symm
  | trans _ _ ih1 ih2 => exact ih1.trans ih2
  | dup x cs l y z => intro env acc; exact layerOrderFrom_dup env acc x cs l y z

theorem DupEq.sameItems {a b : List Item} (h : DupEq a b) : SameItems a b := by
  refine ⟨h.sameLayers, ?_⟩
  induction h with
  | refl a => intros; rfl
  | symm _ ih => intro env m p o; exact (ih env m p o).symm
  | trans _ _ ih1 ih2 => intro env m p o; exact (ih1 env m p o).trans (ih2 env m p o)
  | dup x cs l y z =>
    intro env m p o
    simp [cands, List.filterMap_append, List.filterMap_cons, Item.cand]

theorem DupEq.ctxSame {a b : List Item} (h : DupEq a b) : CtxSame a b := h.sameItems.ctxSame

end EsbuildModel.CssImport
