import EsbuildModel.Impl.Targets
import EsbuildModel.Spec.TargetText
import EsbuildModel.Lemmas.Compat
/-! `matchVersion` (the transcription of `versionRegex`) against the spelling grammar of `Spec.TargetText`. -/
namespace EsbuildModel.Targets
open EsbuildModel.Spec.TargetText (joinDot Digits PreTag Spelling dotted)

theorem takeWhile_append_stop {p : Char → Bool} (d rest : Text) (hd : ∀ c ∈ d, p c = true)
    (hr : rest = [] ∨ ∃ c r, rest = c :: r ∧ p c = false) :
    (d ++ rest).takeWhile p = d ∧ (d ++ rest).dropWhile p = rest := by
  induction d with
  | nil =>
    rcases hr with hr | ⟨c, r, hr, hc⟩
    · subst hr; simp
    · subst hr; simp [List.takeWhile, List.dropWhile, hc]
  | cons x xs ih =>
    have hx : p x = true := hd x (List.mem_cons_self)
    have := ih (fun c hc => hd c (List.mem_cons_of_mem _ hc))
    simp [List.takeWhile, List.dropWhile, hx, this]

theorem takeWhile_all {p : Char → Bool} (l : Text) : ∀ c ∈ l.takeWhile p, p c = true := by
  intro c hc
  induction l with
  | nil => simp at hc
  | cons x xs ih =>
    simp only [List.takeWhile] at hc
    split at hc
    · rcases List.mem_cons.mp hc with h | h
      · subst h; assumption
      · exact ih h
    · simp at hc

theorem dropWhile_head {p : Char → Bool} (l : Text) : l.dropWhile p = [] ∨ ∃ c r, l.dropWhile p = c :: r ∧ p c = false := by
  induction l with
  | nil => simp
  | cons x xs ih =>
    simp only [List.dropWhile]
    split
    · exact ih
    · rename_i h; exact Or.inr ⟨x, xs, rfl, by simpa using h⟩

theorem take_drop_while (p : Char → Bool) (l : Text) : l.takeWhile p ++ l.dropWhile p = l := List.takeWhile_append_dropWhile

/-! ### splitDot / joinDot -/

theorem splitDot_ne_nil (b : Text) : splitDot b ≠ [] := by
  cases b with
  | nil => simp [splitDot]
  | cons c cs =>
    simp only [splitDot]
    split
    · simp
    · split <;> simp

theorem joinDot_splitDot (b : Text) : joinDot (splitDot b) = b := by
  induction b with
  | nil => simp [splitDot, joinDot]
  | cons c cs ih =>
    simp only [splitDot]
    split
    · rename_i hc; subst hc
      cases hs : splitDot cs with
      | nil => exact absurd hs (splitDot_ne_nil cs)
      | cons h t => rw [hs] at ih; simp [joinDot, ih]
    · cases hs : splitDot cs with
      | nil => exact absurd hs (splitDot_ne_nil cs)
      | cons h t =>
        rw [hs] at ih
        cases t with
        | nil => simp only [joinDot] at ih ⊢; rw [ih]
        | cons t1 t2 => simp only [joinDot] at ih ⊢; rw [← ih]; simp

theorem splitDot_no_dot (a : Text) (ha : ∀ c ∈ a, c ≠ '.') : splitDot a = [a] := by
  induction a with
  | nil => simp [splitDot]
  | cons c cs ih =>
    have hc : c ≠ '.' := ha c List.mem_cons_self
    have := ih (fun c hc => ha c (List.mem_cons_of_mem _ hc))
    simp [splitDot, hc, this]

theorem splitDot_append_dot (a rest : Text) (ha : ∀ c ∈ a, c ≠ '.') : splitDot (a ++ '.' :: rest) = a :: splitDot rest := by
  induction a with
  | nil => simp [splitDot]
  | cons c cs ih =>
    have hc : c ≠ '.' := ha c List.mem_cons_self
    have := ih (fun c hc => ha c (List.mem_cons_of_mem _ hc))
    simp [splitDot, hc, this]

theorem splitDot_joinDot (ids : List Text) (hne : ids ≠ []) (hid : ∀ i ∈ ids, ∀ c ∈ i, c ≠ '.') : splitDot (joinDot ids) = ids := by
  induction ids with
  | nil => exact absurd rfl hne
  | cons a r ih =>
    cases r with
    | nil => simp only [joinDot]; exact splitDot_no_dot a (hid a List.mem_cons_self)
    | cons b r' =>
      simp only [joinDot]
      rw [splitDot_append_dot a _ (hid a List.mem_cons_self)]
      rw [ih (by simp) (fun i hi => hid i (List.mem_cons_of_mem _ hi))]

theorem alnum_ne_dot (c : Char) (h : c.isAlphanum = true) : c ≠ '.' := by
  intro hc; subst hc; simp [Char.isAlphanum, Char.isAlpha, Char.isUpper, Char.isLower, Char.isDigit] at h

/-- group 4 of the regex accepts exactly the pre-release tags of the spec -/
theorem preOk_iff (p : Text) : preOk p = true ↔ PreTag p := by
  constructor
  · intro h
    unfold preOk at h
    split at h
    · rename_i body
      refine ⟨splitDot body, splitDot_ne_nil body, ?_, by rw [joinDot_splitDot]⟩
      intro i hi
      have := List.all_eq_true.mp h i hi
      simp only [Bool.and_eq_true, Bool.not_eq_true', List.all_eq_true] at this
      exact ⟨by intro hn; subst hn; simp at this, this.2⟩
    · simp at h
  · rintro ⟨ids, hne, hid, rfl⟩
    simp only [preOk]
    rw [splitDot_joinDot ids hne (fun i hi c hc => alnum_ne_dot c ((hid i hi).2 c hc))]
    simp only [List.all_eq_true, Bool.and_eq_true, Bool.not_eq_true']
    intro i hi
    refine ⟨?_, (hid i hi).2⟩
    cases i with
    | nil => exact absurd rfl (hid _ hi).1
    | cons _ _ => rfl

/-! ### the whole regex -/

/-- what may follow a digit group: nothing, or a character that is not a digit -/
def Stop (r : Text) : Prop := r = [] ∨ ∃ c r', r = c :: r' ∧ c.isDigit = false

theorem optDotDigits_take (d r : Text) (hd : Digits d) (hr : Stop r) : optDotDigits ('.' :: (d ++ r)) = (d, r) := by
  obtain ⟨h1, h2⟩ := takeWhile_append_stop (p := Char.isDigit) d r hd.2 hr
  simp only [optDotDigits, h1, h2]
  cases d with
  | nil => exact absurd rfl hd.1
  | cons _ _ => simp

theorem optDotDigits_skip (r : Text) (hr : r = [] ∨ ∃ r', r = '-' :: r') : optDotDigits r = ([], r) := by
  rcases hr with hr | ⟨r', hr⟩ <;> subst hr <;> simp [optDotDigits]

theorem optDotDigits_cases (r g r' : Text) (h : optDotDigits r = (g, r')) :
    (g = [] ∧ r' = r) ∨ (Digits g ∧ r = '.' :: (g ++ r') ∧ Stop r') := by
  unfold optDotDigits at h
  split at h
  · rename_i rest
    dsimp only at h
    split at h
    · simp only [Prod.mk.injEq] at h; exact Or.inl ⟨h.1.symm, h.2.symm⟩
    · rename_i hne
      simp only [Prod.mk.injEq] at h
      obtain ⟨h1, h2⟩ := h
      subst h1; subst h2
      refine Or.inr ⟨⟨?_, takeWhile_all rest⟩, by rw [take_drop_while], dropWhile_head rest⟩
      intro hn; rw [hn] at hne; simp at hne
  · simp only [Prod.mk.injEq] at h; exact Or.inl ⟨h.1.symm, h.2.symm⟩

theorem preTag_head (p : Text) (h : PreTag p) : ∃ r, p = '-' :: r := by
  obtain ⟨ids, _, _, rfl⟩ := h; exact ⟨_, rfl⟩

theorem stop_dash (r : Text) : Stop ('-' :: r) := Or.inr ⟨'-', r, rfl, by decide⟩
theorem stop_dot (r : Text) : Stop ('.' :: r) := Or.inr ⟨'.', r, rfl, by decide⟩

/-- COMPLETENESS: every well-formed spelling is accepted, with exactly its components as the groups -/
theorem matchVersion_complete (s : Spelling) (h : s.WellFormed) :
    matchVersion s.text = some (s.x, s.y.getD [], s.z.getD [], s.pre.getD []) := by
  obtain ⟨hx, hy, hz, hp⟩ := h
  obtain ⟨x, y, z, pre⟩ := s
  simp only at hx hy hz hp
  -- the tail after the last digit group
  have htail : (pre.getD [] = [] ∧ pre = none) ∨ (∃ r, pre.getD [] = '-' :: r) ∧ preOk (pre.getD []) = true := by
    cases pre with
    | none => exact Or.inl ⟨rfl, rfl⟩
    | some p =>
      have := hp p rfl
      exact Or.inr ⟨preTag_head p this, (preOk_iff p).mpr this⟩
  have hstopP : Stop (pre.getD []) := by
    rcases htail with h | ⟨⟨r, h⟩, _⟩
    · exact Or.inl h.1
    · rw [h]; exact stop_dash r
  have hskipP : optDotDigits (pre.getD []) = ([], pre.getD []) :=
    optDotDigits_skip _ (by rcases htail with h | ⟨⟨r, h⟩, _⟩; exact Or.inl h.1; exact Or.inr ⟨r, h⟩)
  have hfin : ∀ g1 g2 g3 : Text, (if (pre.getD []).isEmpty = true then some (g1, g2, g3, ([] : Text))
      else if preOk (pre.getD []) = true then some (g1, g2, g3, pre.getD []) else none) = some (g1, g2, g3, pre.getD []) := by
    intro g1 g2 g3
    rcases htail with h | ⟨⟨r, h⟩, hok⟩
    · simp [h.1]
    · have hne : (pre.getD []).isEmpty = false := by rw [h]; rfl
      simp only [hne, hok, if_true, Bool.false_eq_true, if_false]
  have hxne : x.isEmpty = false := by
    cases x with
    | nil => exact absurd rfl hx.1
    | cons _ _ => rfl
  cases y with
  | none =>
    have hzn : z = none := by
      cases z with
      | none => rfl
      | some zz => exact absurd rfl (hz zz rfl).2
    subst hzn
    simp only [Spelling.text, dotted, List.append_nil, Option.getD_none]
    obtain ⟨h1, h2⟩ := takeWhile_append_stop (p := Char.isDigit) x (pre.getD []) hx.2 hstopP
    simp only [matchVersion, h1, h2, hxne, hskipP]
    exact hfin _ _ _
  | some yy =>
    have hyy := hy yy rfl
    cases z with
    | none =>
      simp only [Spelling.text, dotted, List.append_nil, Option.getD_none, Option.getD_some]
      have e1 : x ++ '.' :: yy ++ pre.getD [] = x ++ '.' :: (yy ++ pre.getD []) := by simp
      rw [e1]
      obtain ⟨h1, h2⟩ := takeWhile_append_stop (p := Char.isDigit) x ('.' :: (yy ++ pre.getD [])) hx.2 (stop_dot _)
      simp only [matchVersion, h1, h2, hxne, optDotDigits_take yy _ hyy hstopP, hskipP]
      exact hfin _ _ _
    | some zz =>
      have hzz := (hz zz rfl).1
      simp only [Spelling.text, dotted, Option.getD_some]
      have e1 : x ++ '.' :: yy ++ '.' :: zz ++ pre.getD [] = x ++ '.' :: (yy ++ '.' :: (zz ++ pre.getD [])) := by simp
      rw [e1]
      obtain ⟨h1, h2⟩ := takeWhile_append_stop (p := Char.isDigit) x ('.' :: (yy ++ '.' :: (zz ++ pre.getD []))) hx.2 (stop_dot _)
      simp only [matchVersion, h1, h2, hxne, optDotDigits_take yy _ hyy (stop_dot _), optDotDigits_take zz _ hzz hstopP]
      exact hfin _ _ _

def optOf (g : Text) : Option Text := if g.isEmpty then none else some g

theorem optOf_getD (g : Text) : (optOf g).getD [] = g := by
  cases g <;> simp [optOf]

theorem dotted_optOf_nil : dotted (optOf []) = [] := rfl

theorem dotted_optOf_digits (g : Text) (h : Digits g) : dotted (optOf g) = '.' :: g := by
  cases g with
  | nil => exact absurd rfl h.1
  | cons _ _ => simp [optOf, dotted]

/-- SOUNDNESS: whatever the regex accepts is a well-formed spelling, and the groups are its components -/
theorem matchVersion_sound (t g1 g2 g3 g4 : Text) (h : matchVersion t = some (g1, g2, g3, g4)) :
    ∃ s : Spelling, s.WellFormed ∧ s.text = t ∧ s.x = g1 ∧ s.y.getD [] = g2 ∧ s.z.getD [] = g3 ∧ s.pre.getD [] = g4 := by
  unfold matchVersion at h
  dsimp only at h
  split at h
  · simp at h
  · rename_i hg1
    cases ho2 : optDotDigits (List.dropWhile Char.isDigit t) with
    | mk a2 r2 =>
    cases ho3 : optDotDigits r2 with
    | mk a3 r3 =>
    rw [ho2] at h; dsimp only at h; rw [ho3] at h; dsimp only at h
    have hx : Digits (List.takeWhile Char.isDigit t) :=
      ⟨by intro hn; rw [hn] at hg1; simp at hg1, takeWhile_all t⟩
    have ht := take_drop_while Char.isDigit t
    -- the tail
    have htail : ∃ pre : Option Text, pre.getD [] = r3 ∧ (∀ p, pre = some p → PreTag p) ∧ g4 = r3 ∧
        g1 = List.takeWhile Char.isDigit t ∧ g2 = a2 ∧ g3 = a3 := by
      split at h
      · rename_i he
        simp only [Option.some.injEq, Prod.mk.injEq] at h
        have : r3 = [] := by simpa using he
        exact ⟨none, by simp [this], by simp, by rw [this]; exact h.2.2.2.symm, h.1.symm, h.2.1.symm, h.2.2.1.symm⟩
      · split at h
        · rename_i hok
          simp only [Option.some.injEq, Prod.mk.injEq] at h
          exact ⟨some r3, rfl, by intro p hp; simp at hp; subst hp; exact (preOk_iff _).mp hok,
            h.2.2.2.symm, h.1.symm, h.2.1.symm, h.2.2.1.symm⟩
        · simp at h
    obtain ⟨pre, hpre, hpt, h4, h1, h2, h3⟩ := htail
    subst h1; subst h2; subst h3; subst h4
    refine ⟨{ x := List.takeWhile Char.isDigit t, y := optOf g2, z := optOf g3, pre := pre }, ?_, ?_, rfl, optOf_getD _, optOf_getD _, hpre⟩
    · -- well-formed
      refine ⟨hx, ?_, ?_, hpt⟩
      · intro y hy
        rcases optDotDigits_cases _ _ _ ho2 with ⟨hg, _⟩ | ⟨hd, _, _⟩
        · subst hg; simp [optOf] at hy
        · have : y = g2 := by cases g2 <;> simp [optOf] at hy <;> exact hy.symm
          subst this; exact hd
      · intro z hz
        rcases optDotDigits_cases _ _ _ ho3 with ⟨hg, _⟩ | ⟨hd, _, _⟩
        · subst hg; simp [optOf] at hz
        · have hzz : z = g3 := by cases g3 <;> simp [optOf] at hz <;> exact hz.symm
          subst hzz
          refine ⟨hd, ?_⟩
          rcases optDotDigits_cases _ _ _ ho2 with ⟨hg, hr⟩ | ⟨hd2, _, _⟩
          · -- group 2 skipped: group 3 sees the same text and skips too
            exfalso
            subst hr; rw [ho2] at ho3
            simp only [Prod.mk.injEq] at ho3
            have := ho3.1; subst hg; rw [← this] at hd; exact hd.1 rfl
          · cases g2 with
            | nil => exact absurd rfl hd2.1
            | cons _ _ => simp [optOf]
    · -- the text
      simp only [Spelling.text, hpre, List.append_assoc]
      have key : dotted (optOf g2) ++ (dotted (optOf g3) ++ g4) = List.dropWhile Char.isDigit t := by
        rcases optDotDigits_cases _ _ _ ho2 with ⟨hg, hr⟩ | ⟨hd2, hr2, _⟩
        · subst hg; subst hr
          rw [ho2] at ho3; simp only [Prod.mk.injEq] at ho3
          obtain ⟨h3a, h3b⟩ := ho3
          subst h3a; subst h3b
          simp [dotted_optOf_nil]
        · rcases optDotDigits_cases _ _ _ ho3 with ⟨hg, hr⟩ | ⟨hd3, hr3, _⟩
          · subst hg; subst hr
            rw [dotted_optOf_digits _ hd2, dotted_optOf_nil, hr2]; simp
          · rw [dotted_optOf_digits _ hd2, dotted_optOf_digits _ hd3, hr2, hr3]; simp
      rw [key]; exact ht

/-! ### Atoi and the parts -/

theorem digitsVal_eq_value (d : Text) : digitsVal d = Spec.TargetText.value d := rfl

theorem atoi_digits (d : Text) (h : Digits d) : atoi d = if Spec.TargetText.value d ≤ maxInt then some (Spec.TargetText.value d) else none := by
  cases d with
  | nil => exact absurd rfl h.1
  | cons _ _ => rfl

/-- the numeric parts `validateFeatures` builds from a spelling: a minor (or patch) that does not fit an `int`
silently ends the list -/
def partsOf (s : Spelling) : List Nat :=
  Spec.TargetText.value s.x ::
    match s.y with
    | none => []
    | some y =>
      if Spec.TargetText.value y ≤ maxInt then
        Spec.TargetText.value y ::
          match s.z with
          | none => []
          | some z => if Spec.TargetText.value z ≤ maxInt then [Spec.TargetText.value z] else []
      else []

theorem parseVersion_of_spelling (s : Spelling) (h : s.WellFormed) :
    parseVersion s.text =
      if Spec.TargetText.value s.x ≤ maxInt then some { parts := partsOf s, pre := s.pre.getD [] } else none := by
  unfold parseVersion
  rw [matchVersion_complete s h]
  obtain ⟨hx, hy, hz, _⟩ := h
  obtain ⟨x, y, z, pre⟩ := s
  simp only at hx hy hz ⊢
  rw [atoi_digits x hx]
  by_cases hxm : Spec.TargetText.value x ≤ maxInt
  · simp only [hxm, if_true, partsOf]
    cases y with
    | none => simp [atoi]
    | some yy =>
      simp only [Option.getD_some, atoi_digits yy (hy yy rfl)]
      by_cases hym : Spec.TargetText.value yy ≤ maxInt
      · simp only [hym, if_true]
        cases z with
        | none => simp [atoi]
        | some zz =>
          simp only [Option.getD_some, atoi_digits zz (hz zz rfl).1]
          by_cases hzm : Spec.TargetText.value zz ≤ maxInt <;> simp [hzm]
      · simp [hym]
  · simp [hxm]

/-! ### one item of `--target=` -/

theorem toLower_append (a b : Text) : toLower (a ++ b) = toLower a ++ toLower b := by simp [toLower]

theorem engines_prefix_free :
    (Gen.cliEngines.map (·.1)).Pairwise (fun a b => ¬ a.toList.isPrefixOf b.toList ∧ ¬ b.toList.isPrefixOf a.toList) := by decide

theorem engines_lower : Gen.cliEngines.all (fun en => toLower en.1.toList == en.1.toList) = true := by decide

theorem targets_no_engine_prefix :
    Gen.cliTargets.all (fun kt => Gen.cliEngines.all fun en => !en.1.toList.isPrefixOf kt.1.toList) = true := by decide

theorem targets_lookup_self : Gen.cliTargets.all (fun kt => Gen.cliTargets.lookup kt.1 == some kt.2) = true := by decide

theorem findEngine_hit (tbl : List (String × String))
    (hpf : (tbl.map (·.1)).Pairwise (fun a b => ¬ a.toList.isPrefixOf b.toList ∧ ¬ b.toList.isPrefixOf a.toList))
    (key name : String) (hm : (key, name) ∈ tbl) (ver : Text) : findEngine (key.toList ++ ver) tbl = some (name, ver) := by
  induction tbl with
  | nil => simp at hm
  | cons x rest ih =>
    obtain ⟨k', n'⟩ := x
    simp only [List.map_cons, List.pairwise_cons] at hpf
    simp only [findEngine]
    rcases List.mem_cons.mp hm with heq | hmr
    · have h1 : key = k' := (Prod.mk.inj heq).1
      have h2 : name = n' := (Prod.mk.inj heq).2
      subst h1; subst h2
      have : key.toList.isPrefixOf (key.toList ++ ver) = true := List.isPrefixOf_iff_prefix.mpr (List.prefix_append _ _)
      simp [this]
    · have hne := hpf.1 key (List.mem_map.mpr ⟨(key, name), hmr, rfl⟩)
      split
      · rename_i hpre
        exfalso
        have p1 : k'.toList <+: key.toList ++ ver := List.isPrefixOf_iff_prefix.mp hpre
        have p2 : key.toList <+: key.toList ++ ver := List.prefix_append _ _
        rcases Nat.le_total k'.toList.length key.toList.length with hl | hl
        · exact hne.1 (List.isPrefixOf_iff_prefix.mpr (List.prefix_of_prefix_length_le p1 p2 hl))
        · exact hne.2 (List.isPrefixOf_iff_prefix.mpr (List.prefix_of_prefix_length_le p2 p1 hl))
      · exact ih hpf.2 hmr

theorem target_lookup_none_of_engine (key name : String) (hm : (key, name) ∈ Gen.cliEngines) (ver : Text) :
    Gen.cliTargets.lookup (String.ofList (toLower (key.toList ++ ver))) = none := by
  cases hl : Gen.cliTargets.lookup (String.ofList (toLower (key.toList ++ ver))) with
  | none => rfl
  | some t =>
    exfalso
    have hmem := Compat.lookup_mem _ _ _ hl
    have h1 := List.all_eq_true.mp targets_no_engine_prefix _ hmem
    have h2 := List.all_eq_true.mp h1 _ hm
    have h3 : toLower key.toList = key.toList := by
      have := List.all_eq_true.mp engines_lower _ hm
      simpa using this
    simp only [String.toList_ofList, toLower_append, h3, Bool.not_eq_true'] at h2
    have : key.toList.isPrefixOf (key.toList ++ toLower ver) = true := List.isPrefixOf_iff_prefix.mpr (List.prefix_append _ _)
    rw [this] at h2; simp at h2
