import EsbuildModel.Impl.ParWrites
/-
Helper lemmas for Props/C08ParWrites.lean: the general "commuting steps of different workers ⇒ every interleaving
equals the sequential order" theorem, and facts about `Merge`.
-/
namespace EsbuildModel.ParWrites

theorem run_nil {σ : Type} (s : σ) : run ([] : List (σ → σ)) s = s := rfl

theorem run_cons {σ : Type} (a : σ → σ) (p : List (σ → σ)) (s : σ) : run (a :: p) s = run p (a s) := rfl

theorem run_append {σ : Type} (p q : List (σ → σ)) (s : σ) : run (p ++ q) s = run q (run p s) := by
  simp [run, List.foldl_append]

/-- a step that commutes with every step of `p` can be moved across `p` -/
theorem run_comm_past {σ : Type} (a : σ → σ) (p : List (σ → σ)) (h : ∀ b ∈ p, ∀ s, a (b s) = b (a s)) :
    ∀ s, run p (a s) = a (run p s) := by
  induction p with
  | nil => intro s; rfl
  | cons b p ih =>
    intro s
    rw [run_cons, run_cons, ← h b (by simp) s]
    exact ih (fun c hc => h c (by simp [hc])) (b s)

theorem flatten_eq_nil_of_all_nil {α : Type} {ls : List (List α)} (h : ∀ l ∈ ls, l = []) : ls.flatten = [] := by
  induction ls with
  | nil => rfl
  | cons l ls ih =>
    rw [List.flatten_cons, h l (by simp), ih (fun l' hl' => h l' (by simp [hl']))]
    rfl

theorem all_nil_of_length {α : Type} {ls : List (List α)} (h : ls.flatten.length = 0) : ∀ l ∈ ls, l = [] := by
  have := List.eq_nil_of_length_eq_zero h
  rw [List.flatten_eq_nil_iff] at this
  exact this

theorem split_at {α : Type} (ls : List (List α)) (i : Nat) (h : i < ls.length) :
    ls = ls.take i ++ ls[i] :: ls.drop (i + 1) := by
  rw [List.getElem_cons_drop, List.take_append_drop]

theorem set_split {α : Type} (ls : List (List α)) (i : Nat) (h : i < ls.length) (r : List α) :
    ls.set i r = ls.take i ++ r :: ls.drop (i + 1) := by
  rw [List.set_eq_take_append_cons_drop, if_pos h]

theorem mem_of_mem_set_getElem {α : Type} (ls : List (List α)) (i : Nat) (a : α) (rest : List α) (hi : i < ls.length)
    (hls : ls[i] = a :: rest) (k : Nat) (hk : k < (ls.set i rest).length) (x : α) (hx : x ∈ (ls.set i rest)[k]) :
    x ∈ ls[k]'(by simpa using hk) := by
  rw [List.getElem_set] at hx
  split at hx
  · next h => subst h; rw [hls]; exact List.mem_cons_of_mem _ hx
  · exact hx

theorem crossCommute_set {σ : Type} (ls : List (List (σ → σ))) (i : Nat) (a : σ → σ) (rest : List (σ → σ))
    (hi : i < ls.length) (hls : ls[i] = a :: rest) (hc : CrossCommute ls) : CrossCommute (ls.set i rest) := by
  intro j k hj hk hjk x hx y hy s
  have hj' : j < ls.length := by simpa using hj
  have hk' : k < ls.length := by simpa using hk
  exact hc j k hj' hk' hjk x (mem_of_mem_set_getElem ls i a rest hi hls j hj x hx)
    y (mem_of_mem_set_getElem ls i a rest hi hls k hk y hy) s

/-- THE general theorem: when steps of different workers commute, every interleaving of the workers computes what the
sequential order (worker 0 completely, then worker 1, …) computes. -/
theorem merge_eq_sequential {σ : Type} {ls : List (List (σ → σ))} {out : List (σ → σ)} (hm : Merge ls out) :
    CrossCommute ls → ∀ s, run out s = run ls.flatten s := by
  induction hm with
  | done h => intro _ s; rw [flatten_eq_nil_of_all_nil h]
  | @step ls out i hi a rest hls _ ih =>
    intro hc s
    rw [run_cons, ih (crossCommute_set ls i a rest hi hls hc) (a s)]
    have e1 : (ls.set i rest).flatten = (ls.take i).flatten ++ (rest ++ (ls.drop (i + 1)).flatten) := by
      rw [set_split ls i hi rest]; simp
    have e2 : ls.flatten = (ls.take i).flatten ++ (a :: (rest ++ (ls.drop (i + 1)).flatten)) := by
      conv => lhs; rw [split_at ls i hi, hls]
      simp
    have hcomm : ∀ t, run (ls.take i).flatten (a t) = a (run (ls.take i).flatten t) := by
      apply run_comm_past
      intro b hb t
      -- b is a step of some worker j < i
      rw [List.mem_flatten] at hb
      obtain ⟨l, hl, hbl⟩ := hb
      obtain ⟨j, hj, rfl⟩ := List.getElem_of_mem hl
      have hj' : j < i := by
        have : j < (ls.take i).length := hj
        rw [List.length_take] at this; omega
      have hjl : j < ls.length := by omega
      rw [List.getElem_take] at hbl
      exact hc i j hi hjl (by omega) a (by rw [hls]; simp) b hbl t
    rw [e1, e2]
    simp only [run_append, run_cons, hcomm]

/-- the sequential order itself is one of the interleavings (so the theorems are not about an empty set of schedules) -/
theorem merge_flatten {α : Type} : ∀ (ls : List (List α)), Merge ls ls.flatten := by
  intro ls
  -- induction on the total number of remaining steps
  generalize hn : ls.flatten.length = n
  induction n generalizing ls with
  | zero =>
    have : ls.flatten = [] := List.eq_nil_of_length_eq_zero hn
    rw [this]
    apply Merge.done
    intro l hl
    rw [List.flatten_eq_nil_iff] at this
    exact this l hl
  | succ n ih =>
    -- find the first non-empty list
    induction ls with
    | nil => simp at hn
    | cons l ls ihl =>
      cases l with
      | nil =>
        simp only [List.flatten_cons, List.nil_append] at hn ⊢
        have hm := ihl hn
        -- lift a merge of `ls` to a merge of `[] :: ls`
        clear ihl ih hn
        generalize ls.flatten = out at hm
        induction hm with
        | done h => exact Merge.done (by intro l hl; rcases List.mem_cons.mp hl with rfl | h'; rfl; exact h l h')
        | @step ls' out' i hi a rest hls _ ih' =>
          exact Merge.step (i + 1) (by simp; omega) a rest (by simpa using hls) (by simpa using ih')
      | cons a l =>
        simp only [List.flatten_cons, List.cons_append] at hn ⊢
        refine Merge.step 0 (by simp) a l rfl ?_
        simp only [List.set_cons_zero]
        have := ih (l :: ls) (by simp at hn ⊢; omega)
        simpa using this

/-- an interleaving is a permutation of all the steps -/
theorem merge_perm {α : Type} {ls : List (List α)} {out : List α} (hm : Merge ls out) : out.Perm ls.flatten := by
  induction hm with
  | done h => rw [flatten_eq_nil_of_all_nil h]
  | @step ls out i hi a rest hls _ ih =>
    have e1 : (ls.set i rest).flatten = (ls.take i).flatten ++ (rest ++ (ls.drop (i + 1)).flatten) := by
      rw [set_split ls i hi rest]; simp
    have e2 : ls.flatten = (ls.take i).flatten ++ (a :: (rest ++ (ls.drop (i + 1)).flatten)) := by
      conv => lhs; rw [split_at ls i hi, hls]
      simp
    rw [e2]
    rw [e1] at ih
    exact (List.Perm.cons a ih).trans List.perm_middle.symm



/-! ### slot workers -/

theorem slotStep_comm {V : Type} (i j : Nat) (hij : i ≠ j) (g h : V → V) (m : Mem V) :
    slotStep i g (slotStep j h m) = slotStep j h (slotStep i g m) := by
  funext k
  simp only [slotStep]
  by_cases h1 : k = i <;> by_cases h2 : k = j <;> simp_all

theorem length_slotWorkersFrom {V : Type} (progs : List (List (V → V))) (b : Nat) :
    (slotWorkersFrom b progs).length = progs.length := by
  induction progs generalizing b with
  | nil => rfl
  | cons gs rest ih => simp [slotWorkersFrom, ih]

theorem getElem_slotWorkersFrom {V : Type} (progs : List (List (V → V))) (b i : Nat)
    (h : i < (slotWorkersFrom b progs).length) :
    (slotWorkersFrom b progs)[i] = slotWorker (b + i) (progs[i]'(by rw [length_slotWorkersFrom] at h; exact h)) := by
  induction progs generalizing b i with
  | nil => simp [slotWorkersFrom] at h
  | cons gs rest ih =>
    cases i with
    | zero => simp [slotWorkersFrom]
    | succ i =>
      simp only [slotWorkersFrom, List.getElem_cons_succ]
      rw [ih (b + 1) i]
      congr 1; omega

theorem crossCommute_slotWorkersFrom {V : Type} (progs : List (List (V → V))) (b0 : Nat) :
    CrossCommute (slotWorkersFrom b0 progs) := by
  intro i j hi hj hij a ha b hb s
  rw [getElem_slotWorkersFrom] at ha hb
  simp only [slotWorker, List.mem_map] at ha hb
  obtain ⟨g, _, rfl⟩ := ha
  obtain ⟨h, _, rfl⟩ := hb
  exact slotStep_comm (b0 + i) (b0 + j) (by omega) g h s

theorem crossCommute_slotWorkers {V : Type} (progs : List (List (V → V))) : CrossCommute (slotWorkers progs) :=
  crossCommute_slotWorkersFrom progs 0

theorem run_slotWorker {V : Type} (b : Nat) (gs : List (V → V)) (m : Mem V) :
    run (slotWorker b gs) m = fun k => if k = b then gs.foldl (fun v g => g v) (m b) else m k := by
  induction gs generalizing m with
  | nil => funext k; by_cases h : k = b <;> simp [slotWorker, run, h]
  | cons g gs ih =>
    have : slotWorker b (g :: gs) = slotStep b g :: slotWorker b gs := rfl
    rw [this, run_cons, ih]
    funext k
    by_cases h : k = b <;> simp [slotStep, h]

theorem run_slotWorkersFrom {V : Type} (progs : List (List (V → V))) (b : Nat) (m : Mem V) :
    run (slotWorkersFrom b progs).flatten m = fun k =>
      if k < b then m k else
        match progs[k - b]? with
        | some gs => gs.foldl (fun v g => g v) (m k)
        | none => m k := by
  induction progs generalizing b m with
  | nil => funext k; simp [slotWorkersFrom, run]
  | cons gs rest ih =>
    simp only [slotWorkersFrom, List.flatten_cons]
    rw [run_append, ih (b + 1), run_slotWorker]
    funext k
    by_cases h1 : k < b
    · have : k < b + 1 := by omega
      have h2 : k ≠ b := by omega
      simp [h1, this, h2]
    · by_cases h2 : k = b
      · subst h2; simp
      · have h3 : ¬ k < b + 1 := by omega
        have h4 : k - b = (k - (b + 1)) + 1 := by omega
        simp only [h1, h3, if_false, h2]
        rw [h4, List.getElem?_cons_succ]

/-! ### accumulators -/

theorem crossCommute_accWorkers {σ X : Type} (A : CommAcc σ X) (work : List (List X)) :
    CrossCommute (work.map (accWorker A)) := by
  intro i j hi hj _ a ha b hb s
  simp only [List.getElem_map, accWorker, List.mem_map] at ha hb
  obtain ⟨x, _, rfl⟩ := ha
  obtain ⟨y, _, rfl⟩ := hb
  exact A.comm x y s

theorem run_map_op {σ X : Type} (op : X → σ → σ) (xs : List X) (s : σ) :
    run (xs.map op) s = xs.foldl (fun s x => op x s) s := by
  induction xs generalizing s with
  | nil => rfl
  | cons x xs ih => simp only [List.map_cons, run_cons, List.foldl_cons]; exact ih (op x s)

theorem flatten_map_map {X Y : Type} (f : X → Y) (work : List (List X)) :
    (work.map (fun xs => xs.map f)).flatten = work.flatten.map f := by
  induction work with
  | nil => rfl
  | cons w ws ih => simp only [List.map_cons, List.flatten_cons, List.map_append, ih]

theorem mapInsert_comm {K V : Type} [DecidableEq K] (a b : K × V) (h : a.1 ≠ b.1) (m : K → Option V) :
    mapInsert a (mapInsert b m) = mapInsert b (mapInsert a m) := by
  funext k
  simp only [mapInsert]
  by_cases h1 : k = a.1
  · have h2 : k ≠ b.1 := fun h' => h (h1.symm.trans h')
    simp only [if_pos h1, if_neg h2]
  · by_cases h2 : k = b.1
    · simp only [if_neg h1, if_pos h2]
    · simp only [if_neg h1, if_neg h2]

theorem firstWins_run {E : Type} (es : List E) (x : E) : run (es.map firstWins) (some x) = some x := by
  induction es with
  | nil => rfl
  | cons e es ih => simp only [List.map_cons, run_cons, firstWins]; exact ih

end EsbuildModel.ParWrites
