import EsbuildModel.Lemmas.ScopesTree
/-!
hoistSymbols keeps sibling scopes disjoint: a symbol only travels from a scope to scopes that enclose it, and the
variable a sloppy block-level function is hoisted into is fresh.
-/
namespace EsbuildModel.Scopes

/-- the ancestors after a step: same kinds, and they only gained symbols satisfying `P` -/
def AncRel (P : Nat → Prop) : List Frame → List Frame → Prop
  | [], [] => True
  | g :: gs, f :: fs => (f.kind = g.kind ∧ ∀ s, s ∈ f.decls → s ∈ g.decls ∨ P s) ∧ AncRel P gs fs
  | _, _ => False

theorem AncRel.refl (P : Nat → Prop) : ∀ (a : List Frame), AncRel P a a
  | [] => trivial
  | _ :: gs => ⟨⟨rfl, fun _ h => Or.inl h⟩, AncRel.refl P gs⟩

theorem AncRel.mono {P Q : Nat → Prop} (h : ∀ s, P s → Q s) : ∀ {a b : List Frame}, AncRel P a b → AncRel Q a b
  | [], [], _ => trivial
  | _ :: _, _ :: _, hr => ⟨⟨hr.1.1, fun s hs => (hr.1.2 s hs).imp id (h s)⟩, AncRel.mono h hr.2⟩
  | [], _ :: _, hr => hr.elim
  | _ :: _, [], hr => hr.elim

theorem AncRel.trans {P : Nat → Prop} : ∀ {a b c : List Frame}, AncRel P a b → AncRel P b c → AncRel P a c
  | [], [], [], _, _ => trivial
  | g :: gs, f :: fs, e :: es, h1, h2 =>
    ⟨⟨h2.1.1.trans h1.1.1, fun s hs => by
      rcases h2.1.2 s hs with h | h
      · exact h1.1.2 s h
      · exact Or.inr h⟩, AncRel.trans h1.2 h2.2⟩
  | [], _ :: _, _, h1, _ => h1.elim
  | _ :: _, [], _, h1, _ => h1.elim
  | [], [], _ :: _, _, h2 => h2.elim
  | _ :: _, _ :: _, [], _, h2 => h2.elim

theorem AncRel.cons_inv {P : Nat → Prop} {g : Frame} {gs b : List Frame} (h : AncRel P (g :: gs) b) :
    ∃ f fs, b = f :: fs ∧ (f.kind = g.kind ∧ ∀ s, s ∈ f.decls → s ∈ g.decls ∨ P s) ∧ AncRel P gs fs := by
  cases b with
  | nil => exact h.elim
  | cons f fs => exact ⟨f, fs, rfl, h.1, h.2⟩

theorem decls_insert {f : Frame} {n r s : Nat} (hs : s ∈ ({ f with members := insert n r f.members } : Frame).decls) :
    s ∈ f.decls ∨ s = r := by
  rw [mem_decls] at hs
  rcases hs with hs | hs | hs
  · rcases mem_refsOf_insert hs with h | h
    · exact Or.inr h
    · exact Or.inl (mem_decls.mpr (Or.inl h))
  · exact Or.inl (mem_decls.mpr (Or.inr (Or.inl hs)))
  · exact Or.inl (mem_decls.mpr (Or.inr (Or.inr hs)))

/-- the walk upwards: the enclosing scopes only gain the hoisted symbol; no symbol is created -/
theorem hoistUp_spec (name : Name) (mref orig : Nat) (sl : Bool) :
    ∀ (first : Bool) (anc : List Frame) (st : HSt) (anc' : List Frame) (st' : HSt),
    hoistUp name mref orig sl first anc st = some (anc', st') →
    st'.syms.length = st.syms.length ∧ AncRel (fun s => s = mref) anc anc'
  | _, [], _, _, _, h => by simp [hoistUp] at h
  | first, s :: rest, st, anc', st', h => by
    simp only [hoistUp] at h
    -- the continuation
    have hcont : ∀ (s0 : Frame) (st0 : HSt), s0.kind = s.kind → (∀ x, x ∈ s0.decls → x ∈ s.decls ∨ x = mref) →
        st0.syms.length = st.syms.length →
        (if s0.kind.stopsHoisting = true then some ({ s0 with members := insert name mref s0.members } :: rest, st0)
          else match hoistUp name mref orig sl false rest st0 with
            | none => none
            | some (rest', st') => some (s0 :: rest', st')) = some (anc', st') →
        st'.syms.length = st.syms.length ∧ AncRel (fun s => s = mref) (s :: rest) anc' := by
      intro s0 st0 hk hd hl h
      split at h
      · cases h
        refine ⟨hl, ⟨hk, ?_⟩, AncRel.refl _ _⟩
        intro x hx
        rcases decls_insert hx with h1 | h1
        · exact hd x h1
        · exact Or.inr h1
      · split at h
        · cases h
        · next rest' st1 hr =>
          cases h
          obtain ⟨h1, h2⟩ := hoistUp_spec name mref orig sl false rest st0 rest' st' hr
          exact ⟨h1.trans hl, ⟨hk, hd⟩, h2⟩
    have hl1 : (if s.kind = ScK.with_ then { st with syms := pin st.syms mref } else st).syms.length = st.syms.length := by
      split <;> simp
    generalize (if s.kind = ScK.with_ then { st with syms := pin st.syms mref } else st) = st1 at h hl1
    split at h
    · exact hcont s _ rfl (fun x hx => Or.inl hx) hl1 h
    · next ex hex =>
      split at h
      · next ek blocked mk _ _ _ =>
        split at h
        · cases h; exact ⟨hl1, AncRel.refl _ _⟩
        · split at h
          · cases h
            refine ⟨by simp only [length_setLink]; split <;> simp [hl1], ⟨rfl, ?_⟩, AncRel.refl _ _⟩
            intro x hx
            rw [insert_same hex] at hx
            exact Or.inl hx
          · split at h
            · split at h
              · split at h
                · cases h; exact ⟨hl1, AncRel.refl _ _⟩
                · split at h <;> cases h <;> exact ⟨hl1, AncRel.refl _ _⟩
              · cases h; exact ⟨hl1, AncRel.refl _ _⟩
            · exact hcont { s with members := insert name mref s.members }
                { st1 with syms := setLink (if ek = SK.arguments then pin st1.syms mref else st1.syms) ex (some mref) } rfl
                (fun x hx => decls_insert hx) (by simp only [length_setLink]; split <;> simp [hl1]) h
      · cases h

/-- what hoisting the members of one scope may change: the scope gains fresh generated symbols, its ancestors
gain members of the scope or those fresh symbols -/
structure HStep (anc : List Frame) (f : Frame) (st : HSt) (anc' : List Frame) (f' : Frame) (st' : HSt) : Prop where
  len : st.syms.length ≤ st'.syms.length
  kind : f'.kind = f.kind
  mem : f'.members = f.members
  lab : f'.label = f.label
  gen : ∀ s, s ∈ f'.generated → s ∈ f.generated ∨ (st.syms.length ≤ s ∧ s < st'.syms.length)
  anc : AncRel (fun s => s ∈ refsOf f.members ∨ (st.syms.length ≤ s ∧ s < st'.syms.length)) anc anc'

theorem HStep.refl (anc : List Frame) (f : Frame) (st : HSt) : HStep anc f st anc f st :=
  ⟨Nat.le_refl _, rfl, rfl, rfl, fun _ h => Or.inl h, AncRel.refl _ _⟩

theorem HStep.errs (anc : List Frame) (f : Frame) (st : HSt) (e : List Name) :
    HStep anc f st anc f { st with errs := e } :=
  ⟨Nat.le_refl _, rfl, rfl, rfl, fun _ h => Or.inl h, AncRel.refl _ _⟩

theorem HStep.trans {a0 a1 a2 : List Frame} {f0 f1 f2 : Frame} {s0 s1 s2 : HSt}
    (h1 : HStep a0 f0 s0 a1 f1 s1) (h2 : HStep a1 f1 s1 a2 f2 s2) : HStep a0 f0 s0 a2 f2 s2 := by
  refine ⟨Nat.le_trans h1.len h2.len, h2.kind.trans h1.kind, h2.mem.trans h1.mem, h2.lab.trans h1.lab, ?_, ?_⟩
  · intro s hs
    rcases h2.gen s hs with h | h
    · rcases h1.gen s h with h | h
      · exact Or.inl h
      · exact Or.inr ⟨h.1, Nat.lt_of_lt_of_le h.2 h2.len⟩
    · exact Or.inr ⟨Nat.le_trans h1.len h.1, h.2⟩
  · refine AncRel.trans (AncRel.mono ?_ h1.anc) (AncRel.mono ?_ h2.anc)
    · rintro s (h | h)
      · exact Or.inl h
      · exact Or.inr ⟨h.1, Nat.lt_of_lt_of_le h.2 h2.len⟩
    · rintro s (h | h)
      · exact Or.inl (h1.mem ▸ h)
      · exact Or.inr ⟨Nat.le_trans h1.len h.1, h.2⟩

theorem hoistMember_spec {anc anc' : List Frame} {f f' : Frame} {st st' : HSt} {mref : Nat}
    (h : hoistMember anc f st mref = some (anc', f', st')) (hm : mref ∈ refsOf f.members) :
    HStep anc f st anc' f' st' := by
  unfold hoistMember at h
  split at h
  · next sym p rest _ =>
    split at h
    · cases h; exact HStep.errs _ _ _ _
    · split at h
      · cases h; exact HStep.refl _ _ _
      · split at h
        · split at h
          · cases h; exact HStep.refl _ _ _
          · simp only [newSymbol] at h
            split at h
            · cases h
            · next anc1 st1 hu =>
              cases h
              obtain ⟨hl, hr⟩ := hoistUp_spec _ _ _ _ _ _ _ _ _ hu
              simp only [length_pinIfWith, List.length_append, List.length_singleton] at hl
              refine ⟨by omega, rfl, rfl, rfl, ?_, AncRel.mono ?_ hr⟩
              · intro s hs
                simp only [List.mem_append, List.mem_singleton] at hs
                rcases hs with hs | hs
                · exact Or.inl hs
                · subst hs; exact Or.inr ⟨Nat.le_refl _, by omega⟩
              · intro s hs; subst hs; exact Or.inr ⟨Nat.le_refl _, by omega⟩
        · split at h
          · cases h
          · next anc1 st1 hu =>
            cases h
            obtain ⟨hl, hr⟩ := hoistUp_spec _ _ _ _ _ _ _ _ _ hu
            simp only [length_pinIfWith] at hl
            refine ⟨by omega, rfl, rfl, rfl, fun _ h => Or.inl h, AncRel.mono ?_ hr⟩
            intro s hs; subst hs; exact Or.inl hm
  · cases h

theorem hoistMembers_spec : ∀ (ms : List Nat) {anc anc' : List Frame} {f f' : Frame} {st st' : HSt},
    hoistMembers anc f st ms = some (anc', f', st') → (∀ m, m ∈ ms → m ∈ refsOf f.members) →
    HStep anc f st anc' f' st'
  | [], anc, anc', f, f', st, st', h, _ => by
    simp only [hoistMembers] at h; cases h; exact HStep.refl _ _ _
  | m :: ms, anc, anc', f, f', st, st', h, hm => by
    simp only [hoistMembers] at h
    split at h
    · cases h
    · next a1 f1 s1 h1 =>
      have e1 := hoistMember_spec h1 (hm m (by simp))
      have e2 := hoistMembers_spec ms h (fun x hx => e1.mem ▸ hm x (by simp [hx]))
      exact e1.trans e2

theorem mem_insertNat {a s : Nat} : ∀ {l : List Nat}, s ∈ insertNat a l → s = a ∨ s ∈ l
  | [] => by simp [insertNat]
  | b :: bs => by
    simp only [insertNat]
    split
    · simp
    · simp only [List.mem_cons]
      rintro (h | h)
      · exact Or.inr (Or.inl h)
      · rcases mem_insertNat (l := bs) h with h | h
        · exact Or.inl h
        · exact Or.inr (Or.inr h)

theorem mem_sortRefs {s : Nat} : ∀ {l : List Nat}, s ∈ sortRefs l → s ∈ l
  | [] => by simp [sortRefs]
  | a :: l => by
    simp only [sortRefs, List.foldr_cons]
    intro h
    rcases mem_insertNat h with h | h
    · simp [h]
    · exact List.mem_cons_of_mem _ (mem_sortRefs (l := l) h)

/-- `s` was created between the two lengths -/
def Fresh (a b : Nat) (s : Nat) : Prop := a ≤ s ∧ s < b

theorem Fresh.mono {a b a' b' s : Nat} (h : Fresh a b s) (ha : a' ≤ a) (hb : b ≤ b') : Fresh a' b' s :=
  ⟨Nat.le_trans ha h.1, Nat.lt_of_lt_of_le h.2 hb⟩

mutual
theorem hoistSc_spec (esm : Bool) : ∀ (sc : Sc) (anc : List Frame) (st : HSt) (anc' : List Frame) (sc' : Sc) (st' : HSt),
    hoistSc esm anc sc st = some (anc', sc', st') →
    st.syms.length ≤ st'.syms.length ∧
    AncRel (fun s => s ∈ sc.all ∨ Fresh st.syms.length st'.syms.length s) anc anc' ∧
    (∀ s, s ∈ sc'.all → s ∈ sc.all ∨ Fresh st.syms.length st'.syms.length s) ∧
    (sc.SibDisj → sc.Below st.syms.length → sc'.SibDisj)
  | .node f kids, anc, st, anc', sc', st', h => by
    simp only [hoistSc] at h
    split at h
    · cases h
    · next es _ =>
      split at h
      · cases h
      · next anc1 f1 st2 hr =>
        have hstep : HStep anc f st anc1 f1 st2 := by
          split at hr
          · cases hr; exact HStep.errs _ _ _ _
          · have := hoistMembers_spec _ hr (fun m hm => by
              have := mem_sortRefs hm; simpa [refsOf] using this)
            exact ⟨this.len, this.kind, this.mem, this.lab, this.gen, this.anc⟩
        split at h
        · next f2 anc2 kids' st3 hk =>
          cases h
          obtain ⟨hl, hanc, hall, hdisj⟩ := hoistKids_spec esm kids (f1 :: anc1) st2 (f2 :: anc') kids' st' hk
          have hl0 := hstep.len
          have hf1 : ∀ s, s ∈ f1.decls → s ∈ f.decls ∨ Fresh st.syms.length st2.syms.length s := by
            intro s hs
            rw [mem_decls] at hs
            rcases hs with hs | hs | hs
            · exact Or.inl (mem_decls.mpr (Or.inl (hstep.mem ▸ hs)))
            · rcases hstep.gen s hs with h1 | h1
              · exact Or.inl (mem_decls.mpr (Or.inr (Or.inl h1)))
              · exact Or.inr h1
            · exact Or.inl (mem_decls.mpr (Or.inr (Or.inr (hstep.lab ▸ hs))))
          refine ⟨Nat.le_trans hl0 hl, ?_, ?_, ?_⟩
          · refine AncRel.trans (AncRel.mono ?_ hstep.anc) (AncRel.mono ?_ hanc.2)
            · rintro s (h1 | h1)
              · exact Or.inl (by simp only [Sc.all, List.mem_append]; exact Or.inl (mem_decls.mpr (Or.inl h1)))
              · exact Or.inr (Fresh.mono h1 (Nat.le_refl _) hl)
            · rintro s (h1 | h1)
              · exact Or.inl (by simp only [Sc.all, List.mem_append]; exact Or.inr h1)
              · exact Or.inr (Fresh.mono h1 hl0 (Nat.le_refl _))
          · intro s hs
            simp only [Sc.all, List.mem_append] at hs ⊢
            rcases hs with hs | hs
            · rcases hanc.1.2 s hs with h1 | h1 | h1
              · rcases hf1 s h1 with h2 | h2
                · exact Or.inl (Or.inl h2)
                · exact Or.inr (Fresh.mono h2 (Nat.le_refl _) hl)
              · exact Or.inl (Or.inr h1)
              · exact Or.inr (Fresh.mono h1 hl0 (Nat.le_refl _))
            · rcases hall s hs with h1 | h1
              · exact Or.inl (Or.inr h1)
              · exact Or.inr (Fresh.mono h1 hl0 (Nat.le_refl _))
          · intro hd hb
            simp only [Sc.SibDisj] at hd ⊢
            refine hdisj hd ?_
            intro s hs
            exact Nat.lt_of_lt_of_le (hb s (by simp only [Sc.all, List.mem_append]; exact Or.inr hs)) hl0
        · cases h
theorem hoistKids_spec (esm : Bool) : ∀ (ks : List Sc) (anc : List Frame) (st : HSt) (anc' : List Frame) (ks' : List Sc)
    (st' : HSt), hoistKids esm anc ks st = some (anc', ks', st') →
    st.syms.length ≤ st'.syms.length ∧
    AncRel (fun s => s ∈ allKids ks ∨ Fresh st.syms.length st'.syms.length s) anc anc' ∧
    (∀ s, s ∈ allKids ks' → s ∈ allKids ks ∨ Fresh st.syms.length st'.syms.length s) ∧
    (KidsDisj ks → KidsBelow st.syms.length ks → KidsDisj ks')
  | [], anc, st, anc', ks', st', h => by
    simp only [hoistKids] at h
    cases h
    exact ⟨Nat.le_refl _, AncRel.refl _ _, fun s hs => Or.inl hs, fun h _ => h⟩
  | k :: ks, anc, st, anc', ks', st', h => by
    simp only [hoistKids] at h
    split at h
    · cases h
    · next anc1 k' st1 h1 =>
      split at h
      · cases h
      · next anc2 ks2 st2 h2 =>
        cases h
        obtain ⟨l1, a1, c1, d1⟩ := hoistSc_spec esm k anc st anc1 k' st1 h1
        obtain ⟨l2, a2, c2, d2⟩ := hoistKids_spec esm ks anc1 st1 anc' ks2 st' h2
        refine ⟨Nat.le_trans l1 l2, ?_, ?_, ?_⟩
        · refine AncRel.trans (AncRel.mono ?_ a1) (AncRel.mono ?_ a2)
          · rintro s (h | h)
            · exact Or.inl (by simp [allKids, h])
            · exact Or.inr (h.mono (Nat.le_refl _) l2)
          · rintro s (h | h)
            · exact Or.inl (by simp [allKids, h])
            · exact Or.inr (h.mono l1 (Nat.le_refl _))
        · intro s hs
          simp only [allKids, List.mem_append] at hs ⊢
          rcases hs with hs | hs
          · rcases c1 s hs with h | h
            · exact Or.inl (Or.inl h)
            · exact Or.inr (h.mono (Nat.le_refl _) l2)
          · rcases c2 s hs with h | h
            · exact Or.inl (Or.inr h)
            · exact Or.inr (h.mono l1 (Nat.le_refl _))
        · intro hd hb
          simp only [KidsDisj] at hd ⊢
          have hbk : k.Below st.syms.length := fun s hs => hb s (by simp [allKids, hs])
          have hbks : KidsBelow st.syms.length ks := fun s hs => hb s (by simp [allKids, hs])
          refine ⟨d1 hd.1 hbk, d2 hd.2.1 (fun s hs => Nat.lt_of_lt_of_le (hbks s hs) l1), ?_⟩
          intro s hs hs2
          rcases c1 s hs with h | h <;> rcases c2 s hs2 with h' | h'
          · exact hd.2.2 s h h'
          · exact absurd (hbk s h) (Nat.not_lt.mpr (Nat.le_trans l1 h'.1))
          · exact absurd (hbks s h') (Nat.not_lt.mpr h.1)
          · exact absurd h.2 (Nat.not_lt.mpr h'.1)
end

end EsbuildModel.Scopes
