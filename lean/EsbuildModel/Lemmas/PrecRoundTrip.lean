/-
Helper lemmas for the round trip `parse (print e) = e` (Props/C13Prec.lean).
Part 2: the printed form of an expression against the reference parser. `wrapOf` / `home` say when the printer
parenthesises and which nonterminal derives the bare form; `RT e` is the induction invariant: at every nonterminal that
may meet the printed tokens, the parser returns exactly `e` and leaves the rest of the input untouched.
-/
import EsbuildModel.Lemmas.PrecPrint
import EsbuildModel.Lemmas.PrecParse
namespace EsbuildModel.PrecPrint
open EsbuildModel.JsExpr

variable {m : Bool}

/-- whether `print m e level forbidIn isNewTarget` puts parentheses around `e` -/
def wrapOf : Expr → Nat → Bool → Bool → Bool
  | .ident _, _, _, _ | .num _, _, _, _ | .dot _ _, _, _, _ | .index _ _, _, _, _ => false
  | .unary op _, L, _, _ => decide (L ≥ (if op.isPostfix then 19 else 18))
  | .binary op _ _, L, fi, _ => binWrap op L fi
  | .cond _ _ _, L, _, _ => decide (L ≥ 5)
  | .call _ _, L, _, nt => decide (L ≥ 20) || nt
  | .new _ _, L, _, _ => decide (L ≥ 21)

/-- the stratum of the production that derives the unparenthesised form. A bare ConditionalExpression is counted as an
AssignmentExpression (4): what follows its last branch must not be an assignment operator (`a ? b : c = d` groups as
`a ? b : (c = d)`), and it is never printed bare anywhere else than at AssignmentExpression positions. -/
def home (m : Bool) (L : Nat) : Expr → Bool → Nat
  | .ident _, _ | .num _, _ => 23
  | .dot _ _, nt | .index _ _, nt => if nt then 22 else 21
  | .call _ _, _ => 21
  | .new _ as, _ => if newParens m as L then 22 else 20
  | .unary op _, _ => if op.isPostfix then 19 else 18
  | .binary op _ _, _ => op.stratum
  | .cond _ _ _, _ => 4

/-- a level at which `e` is printed bare with the same inner tokens as inside its parentheses -/
def bodyLevel : Expr → Nat
  | .new _ _ => 19
  | _ => 0

theorem wrapOf_zero (e : Expr) : wrapOf e (bodyLevel e) false false = false := by
  cases e with
  | unary op v => cases op <;> simp [wrapOf, bodyLevel, UnOp.isPostfix]
  | binary op l r => cases op <;> simp [wrapOf, bodyLevel, binWrap, BinOp.stratum]
  | _ => simp [wrapOf, bodyLevel]

theorem wrapOf_level0 (e : Expr) : wrapOf e 0 false false = false := by
  cases e with
  | unary op v => cases op <;> simp [wrapOf, UnOp.isPostfix]
  | binary op l r => cases op <;> simp [wrapOf, binWrap, BinOp.stratum]
  | _ => simp [wrapOf]

theorem print_wrapped (e : Expr) (L : Nat) (fi nt : Bool) (h : wrapOf e L fi nt = true) :
    print m e L fi nt = .p .lparen :: (print m e (bodyLevel e) false false ++ [.p .rparen]) := by
  cases e with
  | ident n => simp [wrapOf] at h
  | num n => simp [wrapOf] at h
  | dot e n => simp [wrapOf] at h
  | index e i => simp [wrapOf] at h
  | unary op v =>
    have h0 := wrapOf_zero (.unary op v)
    rw [show bodyLevel (Expr.unary op v) = 0 from rfl] at h0 ⊢
    simp only [wrapOf] at h h0
    simp only [print_unary, h, h0, paren, if_true]
    simp
  | binary op l r =>
    have h0 := wrapOf_zero (.binary op l r)
    rw [show bodyLevel (Expr.binary op l r) = 0 from rfl] at h0 ⊢
    simp only [wrapOf] at h h0
    simp only [print_binary, h, h0, paren]
    simp
  | cond t y n =>
    simp only [wrapOf] at h
    simp only [print_cond, h, paren, bodyLevel]
    simp
  | call f as =>
    simp only [wrapOf] at h
    simp only [print_call, h, paren, bodyLevel]
    simp
  | new f as =>
    simp only [wrapOf, decide_eq_true_eq] at h
    have h1 : newParens m as L = true := by simp [newParens]; omega
    have h2 : newParens m as 19 = true := by simp [newParens]
    simp only [print_new, h, h1, h2, paren, bodyLevel, decide_true, if_true]
    simp

/-- the first token of a printed expression is never `)`, and at level ≥ 18 it is not a prefix operator -/
def HeadOk (L : Nat) (ts : List Tok) : Prop :=
  ∃ t ts', ts = t :: ts' ∧ t ≠ .p .rparen ∧ (18 ≤ L → ∀ x, t = .p x → prefixOpOf x = none)

theorem HeadOk_append (L : Nat) (ts more : List Tok) (h : HeadOk L ts) : HeadOk L (ts ++ more) := by
  obtain ⟨t, ts', rfl, h1, h2⟩ := h
  exact ⟨t, ts' ++ more, by simp, h1, h2⟩

theorem HeadOk_level (L L' : Nat) (ts : List Tok) (h : HeadOk L ts) (hL : 18 ≤ L' → 18 ≤ L) : HeadOk L' ts := by
  obtain ⟨t, ts', rfl, h1, h2⟩ := h
  exact ⟨t, ts', rfl, h1, fun h' => h2 (hL h')⟩

theorem HeadOk_cons (L : Nat) (t : Tok) (ts : List Tok) (h1 : t ≠ .p .rparen)
    (h2 : 18 ≤ L → ∀ x, t = .p x → prefixOpOf x = none) : HeadOk L (t :: ts) := ⟨t, ts, rfl, h1, h2⟩

theorem HeadOk_lparen (L : Nat) (ts : List Tok) : HeadOk L (.p .lparen :: ts) :=
  HeadOk_cons L _ ts (by simp) (by intro _ x hx; cases hx; rfl)

theorem print_head : (e : Expr) → (L : Nat) → (fi nt : Bool) → HeadOk L (print m e L fi nt)
  | .ident n, L, fi, nt => by rw [print_ident]; exact HeadOk_cons L _ _ (by simp) (by simp)
  | .num n, L, fi, nt => by rw [print_num]; exact HeadOk_cons L _ _ (by simp) (by simp)
  | .unary op v, L, fi, nt => by
    rw [print_unary]
    by_cases hw : L ≥ (if op.isPostfix then 19 else 18)
    · simp only [paren, hw, decide_true, if_true]; exact HeadOk_lparen L _
    · simp only [paren, hw, decide_false]
      cases hp : op.isPostfix with
      | true =>
        simp only [hp, if_true] at hw ⊢
        exact HeadOk_append L _ _ (HeadOk_level 18 L _ (print_head v 18 false false) (by omega))
      | false =>
        simp only [hp] at hw ⊢
        exact HeadOk_cons L _ _ (by cases op <;> simp [UnOp.tok]) (fun h => by simp at hw; omega)
  | .binary op l r, L, fi, nt => by
    rw [print_binary]
    by_cases hw : binWrap op L fi = true
    · simp only [paren, hw, if_true]; exact HeadOk_lparen L _
    · simp only [Bool.not_eq_true] at hw
      simp only [paren, hw]
      refine HeadOk_append L _ _ (HeadOk_level _ L _ (print_head l (leftLevel op l) _ false) (fun h => ?_))
      exfalso
      simp only [binWrap, Bool.or_eq_false_iff, decide_eq_false_iff_not] at hw
      have : op.stratum ≤ 17 := by cases op <;> simp [BinOp.stratum]
      omega
  | .cond t y n, L, fi, nt => by
    rw [print_cond]
    by_cases hw : L ≥ 5
    · simp only [paren, hw, decide_true, if_true]; exact HeadOk_lparen L _
    · simp only [paren, hw, decide_false]
      exact HeadOk_append L _ _ (HeadOk_level _ L _ (print_head t 5 _ false) (by omega))
  | .dot e n, L, fi, nt => by
    rw [print_dot]
    exact HeadOk_append L _ _ (HeadOk_level _ L _ (print_head e 19 false nt) (by omega))
  | .index e i, L, fi, nt => by
    rw [print_index]
    exact HeadOk_append L _ _ (HeadOk_level _ L _ (print_head e 19 false nt) (by omega))
  | .call f as, L, fi, nt => by
    rw [print_call]
    by_cases hw : (decide (L ≥ 20) || nt) = true
    · simp only [paren, hw, if_true]; exact HeadOk_lparen L _
    · simp only [Bool.not_eq_true] at hw
      simp only [paren, hw]
      exact HeadOk_append L _ _ (HeadOk_level _ L _ (print_head f 19 false false) (by omega))
  | .new f as, L, fi, nt => by
    rw [print_new]
    by_cases hw : L ≥ 21
    · simp only [paren, hw, decide_true, if_true]; exact HeadOk_lparen L _
    · simp only [paren, hw, decide_false]
      exact HeadOk_cons L _ _ (by simp) (by intro _ x hx; cases hx; rfl)

theorem unaryOpOf_none_of_prefix (x : P) (h : prefixOpOf x = none) : unaryOpOf x = none := by
  cases x <;> simp_all [prefixOpOf, unaryOpOf]

theorem startsWithUnaryOp_of_HeadOk (L : Nat) (ts more : List Tok) (h : HeadOk L ts) (hL : 18 ≤ L) :
    startsWithUnaryOp (ts ++ more) = false := by
  obtain ⟨t, ts', rfl, _, h2⟩ := h
  cases t with
  | p x => simp [startsWithUnaryOp, unaryOpOf_none_of_prefix x (h2 hL x rfl)]
  | _ => simp [startsWithUnaryOp]

/-- the left operand of `**`, printed at the level `checkAndPrepare` chooses, never starts with a unary operator -/
theorem powLeft_head (l : Expr) (fi : Bool) (more : List Tok) :
    startsWithUnaryOp (print m l (if powLeftS l then 21 else 17) fi false ++ more) = false := by
  cases l with
  | ident n => simp [print_ident, startsWithUnaryOp]
  | num n => simp [print_num, startsWithUnaryOp]
  | unary op v =>
    cases hu : op.isUpdate with
    | false =>
      have hp : op.isPostfix = false := by cases op <;> simp_all [UnOp.isUpdate, UnOp.isPostfix]
      simp [powLeftS, hu, print_unary, hp, paren, startsWithUnaryOp, unaryOpOf]
    | true =>
      simp only [powLeftS, hu, Bool.not_true, Bool.false_eq_true, if_false, print_unary]
      cases hp : op.isPostfix with
      | true =>
        simp only [if_true, paren, show ¬ (17 ≥ 19) by omega, decide_false, Bool.false_eq_true, if_false]
        rw [List.append_assoc]
        exact startsWithUnaryOp_of_HeadOk 18 _ _ (print_head v 18 false false) (by omega)
      | false =>
        cases op <;> simp_all [UnOp.isUpdate, UnOp.isPostfix, paren, startsWithUnaryOp, unaryOpOf, UnOp.tok]
  | binary op l r =>
    have : binWrap op 17 fi = true := by cases op <;> simp [binWrap, BinOp.stratum]
    simp [powLeftS, print_binary, this, paren, startsWithUnaryOp, unaryOpOf]
  | cond t y n => simp [powLeftS, print_cond, paren, startsWithUnaryOp, unaryOpOf]
  | dot e n =>
    simp only [powLeftS, Bool.false_eq_true, if_false, print_dot, List.append_assoc]
    exact startsWithUnaryOp_of_HeadOk 19 _ _ (print_head e 19 false false) (by omega)
  | index e i =>
    simp only [powLeftS, Bool.false_eq_true, if_false, print_index, List.append_assoc]
    exact startsWithUnaryOp_of_HeadOk 19 _ _ (print_head e 19 false false) (by omega)
  | call f as =>
    simp only [powLeftS, Bool.false_eq_true, if_false, print_call, paren, show ¬ (17 ≥ 20) by omega, decide_false,
      Bool.or_false, List.append_assoc]
    exact startsWithUnaryOp_of_HeadOk 19 _ _ (print_head f 19 false false) (by omega)
  | new f as => simp [powLeftS, print_new, paren, startsWithUnaryOp, unaryOpOf]


/-- the operand nonterminal of the left-associative production of stratum `s` -/
def subRank (s : Nat) : Nat := if s = 1 then 4 else if s = 6 then 9 else s + 1

/-- its parser, with `A = assignment f`, `F = f + 1` -/
def subP (f : Nat) (io : Bool) (s : Nat) : Parser :=
  if s = 1 then assignment f io
  else if s = 7 then logicalAnd (assignment f) (f + 1) io
  else if s = 6 ∨ s = 8 then bitOr (assignment f) (f + 1) io
  else parseStrata (assignment f) (f + 1) io (bitOrStrata.drop (s - 8))

theorem Expr.size_pos (e : Expr) : 1 ≤ e.size := by cases e <;> simp [Expr.size]

/-- budget needed at nesting budget `f` -/
def budget (e : Expr) (w : Bool) (f : Nat) : Prop := 2 * e.size ≤ f + (if w then 0 else 1)

/-- the induction invariant (see the file header) -/
def RT (m : Bool) (e : Expr) : Prop :=
  ∀ (f L : Nat) (fi nt io : Bool),
    (∀ rest r, 2 ≤ r → r ≤ 23 → (wrapOf e L fi nt = true ∨ r ≤ home m L e nt) → budget e (wrapOf e L fi nt) f →
        (wrapOf e L fi nt = false → r ≤ 13 → io = false → fi = true) → contRank io rest < r →
        Sat (assignment f) (f + 1) io (e.size + 1) r (print m e L fi nt ++ rest) e rest) ∧
    (2 * e.size + (if wrapOf e L fi nt then 1 else 0) ≤ f → (wrapOf e L fi nt = false → io = false → fi = true) →
        CLP (assignment f io) commaOps io 1 e (print m e L fi nt) e.size) ∧
    (∀ s, 6 ≤ s → s ≤ 16 → (wrapOf e L fi nt = true ∨ s = home m L e nt ∨ subRank s ≤ home m L e nt) →
        budget e (wrapOf e L fi nt) f → (wrapOf e L fi nt = false → s ≤ 13 → io = false → fi = true) →
        CLP (subP f io s) (opsOfRank s) io s e (print m e L fi nt) e.size) ∧
    (nt = false → (wrapOf e L fi nt = true ∨ 21 ≤ home m L e nt) → budget e (wrapOf e L fi nt) f →
        HLP (assignment f) (f + 1) e (print m e L fi nt) e.size) ∧
    (nt = true → (wrapOf e L fi nt = true ∨ 22 ≤ home m L e nt) → budget e (wrapOf e L fi nt) f →
        MLP (assignment f) (f + 1) e (print m e L fi nt) e.size)

/-- what each constructor has to establish: the bare form at its own nonterminal -/
def Core (m : Bool) (e : Expr) : Prop :=
  ∀ (f L : Nat) (fi nt io : Bool), wrapOf e L fi nt = false → 2 * e.size ≤ f + 1 →
    (2 ≤ home m L e nt → ∀ rest, (home m L e nt ≤ 13 → io = false → fi = true) → contRank io rest < home m L e nt →
        Sat (assignment f) (f + 1) io (e.size + 1) (home m L e nt) (print m e L fi nt ++ rest) e rest) ∧
    (home m L e nt = 1 → 2 * e.size ≤ f → (io = false → fi = true) →
        CLP (assignment f io) commaOps io 1 e (print m e L fi nt) e.size) ∧
    (6 ≤ home m L e nt → home m L e nt ≤ 16 → (home m L e nt ≤ 13 → io = false → fi = true) →
        CLP (subP f io (home m L e nt)) (opsOfRank (home m L e nt)) io (home m L e nt) e (print m e L fi nt) e.size) ∧
    (nt = false → 21 ≤ home m L e nt → HLP (assignment f) (f + 1) e (print m e L fi nt) e.size) ∧
    (nt = true → 22 ≤ home m L e nt → MLP (assignment f) (f + 1) e (print m e L fi nt) e.size)

/-- argument lists -/
def RTA (m : Bool) (as : Args) : Prop :=
  ∀ (f : Nat) (rest : List Tok), 2 * as.size ≤ f →
    arguments (assignment f) (f + 1) (.p .lparen :: (printArgs m as ++ .p .rparen :: rest)) = some (as, rest)

theorem home_le {L : Nat} (e : Expr) (nt : Bool) : home m L e nt ≤ 23 := by
  cases e with
  | unary op v => cases op <;> simp [home, UnOp.isPostfix]
  | binary op l r => cases op <;> simp [home, BinOp.stratum]
  | dot e n => cases nt <;> simp [home]
  | index e i => cases nt <;> simp [home]
  | new f as => simp only [home]; split <;> omega
  | _ => simp [home]

theorem home_cases {L : Nat} (e : Expr) (nt : Bool) : home m L e nt = 1 ∨ 4 ≤ home m L e nt := by
  cases e with
  | unary op v => cases op <;> simp [home, UnOp.isPostfix]
  | binary op l r => cases op <;> simp [home, BinOp.stratum]
  | dot e n => cases nt <;> simp [home]
  | index e i => cases nt <;> simp [home]
  | new f as => simp only [home]; split <;> omega
  | _ => simp [home]

theorem Sat_23 (A : Bool → Parser) (F : Nat) (io : Bool) (n : Nat) (ts : List Tok) (e : Expr) (rest : List Tok) :
    Sat A F io n 23 ts e rest = (primary A F ts = some (e, rest)) := by simp [Sat]

theorem Sat_4 (A : Bool → Parser) (F : Nat) (io : Bool) (n : Nat) (ts : List Tok) (e : Expr) (rest : List Tok) :
    Sat A F io n 4 ts e rest = (assignmentWith A F io ts = some (e, rest)) := by simp [Sat]

theorem Sat_strata (A : Bool → Parser) (F : Nat) (io : Bool) (n i : Nat) (hi : i ≤ 7) (ts : List Tok) (e : Expr)
    (rest : List Tok) :
    Sat A F io n (9 + i) ts e rest = (parseStrata A F io (bitOrStrata.drop i) ts = some (e, rest)) := by
  have : 9 + i - 9 = i := by omega
  simp only [Sat, this]
  simp only [show ¬ (9 + i = 23) by omega, show ¬ (9 + i = 22) by omega, show ¬ (9 + i = 21 ∨ 9 + i = 20) by omega,
    show ¬ (9 + i = 19) by omega, show ¬ (9 + i = 18) by omega, show ¬ (9 + i = 17) by omega,
    show 9 ≤ 9 + i by omega, if_true, if_false]

theorem subP_of_Sat (f : Nat) (io : Bool) (n s : Nat) (h6 : 6 ≤ s) (h16 : s ≤ 16) (ts : List Tok) (e : Expr)
    (rest : List Tok) (h : Sat (assignment f) (f + 1) io n (subRank s) ts e rest) (hn : n ≤ f + 1) :
    subP f io s ts = some (e, rest) := by
  have hs : s = 6 ∨ s = 7 ∨ s = 8 ∨ (9 ≤ s ∧ s ≤ 15) ∨ s = 16 := by omega
  rcases hs with rfl | rfl | rfl | hs | rfl
  · have := (Sat_strata (assignment f) (f + 1) io n 0 (by omega) ts e rest).mp (by simpa [subRank] using h)
    simpa [subP, bitOr] using this
  · simpa [subP, subRank, Sat] using h
  · have := (Sat_strata (assignment f) (f + 1) io n 0 (by omega) ts e rest).mp (by simpa [subRank] using h)
    simpa [subP, bitOr] using this
  · obtain ⟨i, rfl⟩ : ∃ i, s = 9 + i := ⟨s - 9, by omega⟩
    have e1 : subRank (9 + i) = 9 + (i + 1) := by
      simp only [subRank, show ¬ (9 + i = 1) by omega, show ¬ (9 + i = 6) by omega, if_false]; omega
    rw [e1, Sat_strata _ _ _ _ (i + 1) (by omega)] at h
    have e2 : 9 + i - 8 = i + 1 := by omega
    simp only [subP, e2, show ¬ (9 + i = 1) by omega, show ¬ (9 + i = 7) by omega, show ¬ (9 + i = 6 ∨ 9 + i = 8) by omega,
      if_false]
    exact h
  · have : ∀ g, n ≤ g → expAux (assignment f) (f + 1) g ts = some (e, rest) := by simpa [subRank, Sat] using h
    have := this (f + 1) hn
    simpa [subP, strata_drop8, parseStrata] using this

/-! ### assembling `RT m e` from `Core m e` -/

theorem U_AB (e : Expr) (hc : Core m e) (f L : Nat) (fi nt io : Bool) (rest : List Tok) (r : Nat)
    (hw : wrapOf e L fi nt = false) (h2 : 2 ≤ r) (hr : r ≤ home m L e nt) (hb : 2 * e.size ≤ f + 1)
    (hio : r ≤ 13 → io = false → fi = true) (hcr : contRank io rest < r) :
    Sat (assignment f) (f + 1) io (e.size + 1) r (print m e L fi nt ++ rest) e rest := by
  have hs := Expr.size_pos e
  have c1 := (hc f L fi nt io hw hb).1 (by omega) rest (fun h => hio (by omega)) (by omega)
  exact Sat_lift (assignment f) (f + 1) io (e.size + 1) (by omega) (by omega) _ e rest r h2 hcr
    (home m L e nt - r) (home m L e nt) (by omega) (home_le e nt) c1

theorem U_D1 (e : Expr) (hc : Core m e) (f L : Nat) (fi nt io : Bool)
    (hw : wrapOf e L fi nt = false) (hb : 2 * e.size ≤ f) (hio : io = false → fi = true) :
    CLP (assignment f io) commaOps io 1 e (print m e L fi nt) e.size := by
  have hs := Expr.size_pos e
  rcases home_cases (m := m) e nt with h1 | h4
  · exact (hc f L fi nt io hw (by omega)).2.1 h1 hb hio
  · obtain ⟨f', rfl⟩ : ∃ f', f = f' + 1 := ⟨f - 1, by omega⟩
    apply CLP_base
    intro rest hcr
    have := U_AB e hc f' L fi nt io rest 4 hw (by omega) h4 (by omega) (fun _ => hio) (by omega)
    rw [Sat_4] at this
    rw [assignment_succ]; exact this

theorem U_C (e : Expr) (hc : Core m e) (f L : Nat) (fi nt io : Bool) (rest : List Tok)
    (hw : wrapOf e L fi nt = false) (hb : 2 * e.size ≤ f) (hio : io = false → fi = true)
    (hcr : contRank io rest < 1) :
    expressionWith (assignment f) (f + 1) io (print m e L fi nt ++ rest) = some (e, rest) := by
  have hs := Expr.size_pos e
  simp only [expressionWith]
  exact chain_of_CLP _ _ io 1 e _ e.size (f + 1) (U_D1 e hc f L fi nt io hw hb hio) (by omega) rest (by omega)
    (stop_of_contRank io 1 rest (by omega) (by omega))

theorem W_primary (e : Expr) (hc : Core m e) (f L : Nat) (fi nt : Bool) (rest : List Tok)
    (hw : wrapOf e L fi nt = true) (hb : 2 * e.size ≤ f) :
    primary (assignment f) (f + 1) (print m e L fi nt ++ rest) = some (e, rest) := by
  rw [print_wrapped e L fi nt hw]
  have := U_C e hc f (bodyLevel e) false false true (.p .rparen :: rest) (wrapOf_zero e) hb (by simp) (by simp [contRank, contRankP])
  have e1 : (.p .lparen :: (print m e (bodyLevel e) false false ++ [.p .rparen])) ++ rest
      = .p .lparen :: (print m e (bodyLevel e) false false ++ .p .rparen :: rest) := by simp
  rw [e1]
  simp only [primary, this]

theorem W_AB (e : Expr) (hc : Core m e) (f L : Nat) (fi nt io : Bool) (rest : List Tok) (r : Nat)
    (hw : wrapOf e L fi nt = true) (h2 : 2 ≤ r) (h23 : r ≤ 23) (hb : 2 * e.size ≤ f) (hcr : contRank io rest < r) :
    Sat (assignment f) (f + 1) io (e.size + 1) r (print m e L fi nt ++ rest) e rest := by
  have hs := Expr.size_pos e
  have := W_primary e hc f L fi nt rest hw hb
  rw [← Sat_23 (assignment f) (f + 1) io (e.size + 1)] at this
  exact Sat_lift (assignment f) (f + 1) io (e.size + 1) (by omega) (by omega) _ e rest r h2 hcr
    (23 - r) 23 (by omega) (by omega) this

theorem subRank_bounds (s : Nat) (h6 : 6 ≤ s) (h16 : s ≤ 16) : s < subRank s ∧ subRank s ≤ 17 := by
  simp only [subRank]
  by_cases h : s = 6
  · subst h; simp
  · simp only [show ¬ s = 1 by omega, h, if_false]; omega

theorem AB_any (e : Expr) (hc : Core m e) (f L : Nat) (fi nt io : Bool) (rest : List Tok) (r : Nat)
    (h2 : 2 ≤ r) (h23 : r ≤ 23) (hfit : wrapOf e L fi nt = true ∨ r ≤ home m L e nt) (hb : budget e (wrapOf e L fi nt) f)
    (hio : wrapOf e L fi nt = false → r ≤ 13 → io = false → fi = true) (hcr : contRank io rest < r) :
    Sat (assignment f) (f + 1) io (e.size + 1) r (print m e L fi nt ++ rest) e rest := by
  cases hw : wrapOf e L fi nt with
  | true =>
    simp only [budget, hw, if_true] at hb
    exact W_AB e hc f L fi nt io rest r hw h2 h23 (by omega) hcr
  | false =>
    simp only [budget, hw] at hb
    have hr : r ≤ home m L e nt := by
      rcases hfit with h | h
      · simp [hw] at h
      · exact h
    exact U_AB e hc f L fi nt io rest r hw h2 hr (by simpa using hb) (hio hw) hcr

theorem primary_head_lparen (A : Bool → Parser) (F g : Nat) (ts : List Tok) :
    memberHead A F (g + 1) (.p .lparen :: ts) = primary A F (.p .lparen :: ts) := by
  apply memberHead_eq_primary; intro ts' h; simp at h

theorem RT_of_Core (e : Expr) (hc : Core m e) : RT m e := by
  intro f L fi nt io
  have hs := Expr.size_pos e
  refine ⟨fun rest r h2 h23 hfit hb hio hcr => AB_any e hc f L fi nt io rest r h2 h23 hfit hb hio hcr, ?_, ?_, ?_, ?_⟩
  · -- comma chains
    intro hb hio
    cases hw : wrapOf e L fi nt with
    | false => simp only [hw] at hb; exact U_D1 e hc f L fi nt io hw (by simpa using hb) (hio hw)
    | true =>
      simp only [hw, if_true] at hb
      obtain ⟨f', rfl⟩ : ∃ f', f = f' + 1 := ⟨f - 1, by omega⟩
      apply CLP_base
      intro rest hcr
      have := W_AB e hc f' L fi nt io rest 4 hw (by omega) (by omega) (by omega) (by omega)
      rw [Sat_4] at this
      rw [assignment_succ]; exact this
  · -- the other left-associative strata
    intro s h6 h16 hfit hb hio
    by_cases hhome : wrapOf e L fi nt = false ∧ s = home m L e nt
    · obtain ⟨hw, rfl⟩ := hhome
      simp only [budget, hw] at hb
      exact (hc f L fi nt io hw (by simpa using hb)).2.2.1 h6 h16 (hio hw)
    · apply CLP_base
      intro rest hcr
      obtain ⟨hsub, hsub2⟩ := subRank_bounds s h6 h16
      apply subP_of_Sat f io (e.size + 1) s h6 h16 _ e rest _ (by simp only [budget] at hb; split at hb <;> omega)
      apply AB_any e hc f L fi nt io rest (subRank s) (by omega) (by omega) _ hb _ (by omega)
      · rcases hfit with h | h | h
        · exact Or.inl h
        · cases hw : wrapOf e L fi nt with
          | true => exact Or.inl rfl
          | false => exact absurd ⟨hw, h⟩ hhome
        · exact Or.inr h
      · intro hw h13; exact hio hw (by omega)
  · -- call spines
    intro hnt hfit hb
    cases hw : wrapOf e L fi nt with
    | false =>
      simp only [budget, hw] at hb
      rcases hfit with h | h
      · simp [hw] at h
      · exact (hc f L fi nt io hw (by simpa using hb)).2.2.2.1 hnt h
    | true =>
      simp only [budget, hw, if_true] at hb
      apply HLP_base
      intro g0 rest hg
      obtain ⟨g0, rfl⟩ : ∃ g', g0 = g' + 1 := ⟨g0 - 1, by omega⟩
      have := W_primary e hc f L fi nt rest hw (by omega)
      rw [print_wrapped e L fi nt hw] at this ⊢
      simp only [List.cons_append] at this ⊢
      rw [primary_head_lparen]; exact this
  · -- member spines
    intro hnt hfit hb
    cases hw : wrapOf e L fi nt with
    | false =>
      simp only [budget, hw] at hb
      rcases hfit with h | h
      · simp [hw] at h
      · exact (hc f L fi nt io hw (by simpa using hb)).2.2.2.2 hnt h
    | true =>
      simp only [budget, hw, if_true] at hb
      apply MLP_base
      intro g0 rest hg
      obtain ⟨g0, rfl⟩ : ∃ g', g0 = g' + 1 := ⟨g0 - 1, by omega⟩
      have := W_primary e hc f L fi nt rest hw (by omega)
      rw [print_wrapped e L fi nt hw] at this ⊢
      simp only [List.cons_append] at this ⊢
      rw [primary_head_lparen]; exact this



/-- printed at level `L ≤ 20`, an expression is either parenthesised or derived by a nonterminal above `L` -/
theorem fits_level (e : Expr) (L : Nat) (fi nt : Bool) (hL : L ≤ 20) (h4 : L ≠ 4 := by omega) :
    wrapOf e L fi nt = true ∨ L + 1 ≤ home m L e nt := by
  cases e with
  | ident n => right; simp [home]; omega
  | num n => right; simp [home]; omega
  | dot e n => right; cases nt <;> simp [home] <;> omega
  | index e i => right; cases nt <;> simp [home] <;> omega
  | unary op v =>
    by_cases h : L ≥ (if op.isPostfix then 19 else 18)
    · left; simp [wrapOf, h]
    · right; simp only [home]; omega
  | binary op l r =>
    by_cases h : L ≥ op.stratum
    · left; simp [wrapOf, binWrap, h]
    · right; simp only [home]; omega
  | cond t y n =>
    by_cases h : L ≥ 5
    · left; simp [wrapOf, h]
    · right; simp only [home]; omega
  | call f as =>
    by_cases h : L ≥ 20
    · left; simp [wrapOf, h]
    · right; simp only [home]; omega
  | new f as =>
    right; simp only [home]
    cases hp : newParens m as L with
    | true => simp; omega
    | false => simp [newParens] at hp; simp; omega

/-- at level 19 or 20 with `isNewTarget`, everything is parenthesised or a MemberExpression -/
theorem fits_member (e : Expr) (L : Nat) (fi : Bool) (hL : 19 ≤ L) (hL' : L ≤ 20) :
    wrapOf e L fi true = true ∨ 22 ≤ home m L e true := by
  cases e with
  | unary op v => left; cases op <;> simp [wrapOf, UnOp.isPostfix] <;> omega
  | binary op l r => left; cases op <;> simp [wrapOf, binWrap, BinOp.stratum] <;> omega
  | cond t y n => left; simp [wrapOf]; omega
  | call f as => left; simp [wrapOf]
  | new f as =>
    right
    have : newParens m as L = true := by simp [newParens]; omega
    simp [home, this]
  | _ => right; simp [home]

theorem prefixOpOf_tok (op : UnOp) (h : op.isPostfix = false) : prefixOpOf op.tok = some op := by
  cases op <;> simp_all [UnOp.isPostfix, UnOp.tok, prefixOpOf, unaryOpOf]

/-- Expression-level consequence of the invariant -/
theorem RT_expr (e : Expr) (h : RT m e) (f L : Nat) (fi nt io : Bool) (rest : List Tok)
    (hb : 2 * e.size + (if wrapOf e L fi nt then 1 else 0) ≤ f)
    (hio : wrapOf e L fi nt = false → io = false → fi = true) (hcr : contRank io rest < 1) :
    expressionWith (assignment f) (f + 1) io (print m e L fi nt ++ rest) = some (e, rest) := by
  have hs := Expr.size_pos e
  simp only [expressionWith]
  exact chain_of_CLP _ _ io 1 e _ e.size (f + 1) ((h f L fi nt io).2.1 hb hio) (by omega) rest (by omega)
    (stop_of_contRank io 1 rest (by omega) (by omega))

/-- AssignmentExpression-level consequence, through the knot `A = assignment f` -/
theorem RT_assign (e : Expr) (h : RT m e) (f L : Nat) (fi nt io : Bool) (rest : List Tok)
    (hfit : wrapOf e L fi nt = true ∨ 4 ≤ home m L e nt)
    (hb : 2 * e.size + (if wrapOf e L fi nt then 1 else 0) ≤ f)
    (hio : wrapOf e L fi nt = false → io = false → fi = true) (hcr : contRank io rest < 4) :
    assignment f io (print m e L fi nt ++ rest) = some (e, rest) := by
  have hs := Expr.size_pos e
  obtain ⟨f', rfl⟩ : ∃ f', f = f' + 1 := ⟨f - 1, by omega⟩
  rw [assignment_succ, ← Sat_4 (assignment f') (f' + 1) io (e.size + 1)]
  apply (h f' L fi nt io).1 rest 4 (by omega) (by omega) hfit _ (fun hw _ => hio hw) hcr
  simp only [budget]; split <;> simp_all <;> omega

/-! ### the constructors -/

theorem Core_ident (n : Nat) : Core m (.ident n) := by
  intro f L fi nt io hw hb
  have hh : ∀ g0 rest, 1 ≤ g0 → memberHead (assignment f) (f + 1) g0 ([Tok.ident n] ++ rest) = some (.ident n, rest) := by
    intro g0 rest hg
    obtain ⟨g0, rfl⟩ : ∃ g', g0 = g' + 1 := ⟨g0 - 1, by omega⟩
    rw [memberHead_eq_primary _ _ _ _ (by intro ts' h; simp at h)]; simp [primary]
  refine ⟨?_, ?_, ?_, ?_, ?_⟩
  · intro _ rest _ _; simp [home, Sat, print_ident, primary]
  · intro h; simp [home] at h
  · intro _ h; simp [home] at h
  · intro _ _; rw [print_ident]; exact HLP_base _ _ _ _ _ (fun g0 rest hg => hh g0 rest (by simp [Expr.size] at hg; omega))
  · intro _ _; rw [print_ident]; exact MLP_base _ _ _ _ _ (fun g0 rest hg => hh g0 rest (by simp [Expr.size] at hg; omega))

theorem Core_num (n : Nat) : Core m (.num n) := by
  intro f L fi nt io hw hb
  have hh : ∀ g0 rest, 1 ≤ g0 → memberHead (assignment f) (f + 1) g0 ([Tok.num n] ++ rest) = some (.num n, rest) := by
    intro g0 rest hg
    obtain ⟨g0, rfl⟩ : ∃ g', g0 = g' + 1 := ⟨g0 - 1, by omega⟩
    rw [memberHead_eq_primary _ _ _ _ (by intro ts' h; simp at h)]; simp [primary]
  refine ⟨?_, ?_, ?_, ?_, ?_⟩
  · intro _ rest _ _; simp [home, Sat, print_num, primary]
  · intro h; simp [home] at h
  · intro _ h; simp [home] at h
  · intro _ _; rw [print_num]; exact HLP_base _ _ _ _ _ (fun g0 rest hg => hh g0 rest (by simp [Expr.size] at hg; omega))
  · intro _ _; rw [print_num]; exact MLP_base _ _ _ _ _ (fun g0 rest hg => hh g0 rest (by simp [Expr.size] at hg; omega))

theorem simpleTarget_home (v : Expr) (h : v.simpleTarget = true) : (∀ L, 21 ≤ home m L v false) ∧ ∀ L fi, wrapOf v L fi false = false := by
  cases v <;> simp_all [Expr.simpleTarget, home, wrapOf]

theorem Core_unary (op : UnOp) (v : Expr) (hv : RT m v) (hwf : op.isUpdate = true → v.simpleTarget = true) :
    Core m (.unary op v) := by
  intro f L fi nt io hw hb
  have hsv := Expr.size_pos v
  simp only [Expr.size] at hb
  refine ⟨?_, ?_, ?_, ?_, ?_⟩
  · intro _ rest _ hcr
    cases hp : op.isPostfix with
    | false =>
      simp only [wrapOf, hp, Bool.false_eq_true, if_false, decide_eq_false_iff_not] at hw
      simp only [home, hp, Bool.false_eq_true, if_false] at hcr ⊢
      simp only [print_unary, hp, Bool.false_eq_true, if_false, paren, show decide (L ≥ 18) = false by simpa using hw,
        List.cons_append]
      simp only [Sat, show ¬ (18 = 23) by omega, show ¬ (18 = 22) by omega, show ¬ (18 = 21 ∨ 18 = 20) by omega,
        show ¬ (18 = 19) by omega, if_false, if_true]
      intro g hg
      simp only [Expr.size] at hg
      obtain ⟨g, rfl⟩ : ∃ g', g = g' + 1 := ⟨g - 1, by omega⟩
      have hsub := (hv f 17 false false io).1 rest 18 (by omega) (by omega) (fits_level v 17 false false (by omega))
        (by simp only [budget]; split <;> omega) (by intro _ h; omega) hcr
      simp only [Sat, show ¬ (18 = 23) by omega, show ¬ (18 = 22) by omega, show ¬ (18 = 21 ∨ 18 = 20) by omega,
        show ¬ (18 = 19) by omega, if_false, if_true] at hsub
      rw [unaryAux]
      simp only [prefixOpOf_tok op hp, hsub g (by omega)]
      cases hu : op.isUpdate with
      | false => simp
      | true => simp [hwf hu]
    | true =>
      have hu : op.isUpdate = true := by cases op <;> simp_all [UnOp.isPostfix, UnOp.isUpdate]
      obtain ⟨hh, hwv⟩ := simpleTarget_home (m := m) v (hwf hu)
      simp only [wrapOf, hp, if_true, decide_eq_false_iff_not] at hw
      simp only [home, hp, if_true] at hcr ⊢
      simp only [print_unary, hp, if_true, paren, show decide (L ≥ 19) = false by simpa using hw, List.append_assoc,
        List.singleton_append]
      simp only [Sat, show ¬ (19 = 23) by omega, show ¬ (19 = 22) by omega, show ¬ (19 = 21 ∨ 19 = 20) by omega,
        if_false, if_true]
      have hsub := (hv f 18 false false io).1 (.p op.tok :: rest) 20 (by omega) (by omega) (Or.inr (by have := hh 18; omega))
        (by simp only [budget, hwv]; simp; omega) (by intro _ h; omega)
        (by cases op <;> simp_all [UnOp.isPostfix, UnOp.tok, contRank, contRankP])
      simp only [Sat, show ¬ (20 = 23) by omega, show ¬ (20 = 22) by omega, show (20 = 21 ∨ 20 = 20) by omega,
        if_false, if_true] at hsub
      simp only [postfixExpr, hsub]
      cases op <;> simp_all [UnOp.isPostfix, UnOp.tok]
  · intro h; cases hp : op.isPostfix <;> simp [home, hp] at h
  · intro h6 h16; cases hp : op.isPostfix <;> simp [home, hp] at h16
  · intro _ h; cases hp : op.isPostfix <;> simp [home, hp] at h
  · intro _ h; cases hp : op.isPostfix <;> simp [home, hp] at h

theorem home_or_and {L : Nat} (e : Expr) (nt : Bool) (h : home m L e nt = 7 ∨ home m L e nt = 8) : isOrAndS e = true := by
  cases e with
  | unary op v => cases op <;> simp [home, UnOp.isPostfix] at h
  | binary op l r => cases op <;> simp_all [home, BinOp.stratum, isOrAndS]
  | dot e n => cases nt <;> simp [home] at h
  | index e i => cases nt <;> simp [home] at h
  | new f as => simp only [home] at h; split at h <;> omega
  | _ => simp [home] at h

theorem wrapOf_binary_high (e : Expr) (fi nt : Bool) (h : isOrAndS e = true) : wrapOf e 18 fi nt = true := by
  cases e with
  | binary op l r => cases op <;> simp_all [isOrAndS, wrapOf, binWrap, BinOp.stratum]
  | _ => simp [isOrAndS] at h

/-- the left operand of a left-associative operator: parenthesised, a chain of the same stratum, or a higher stratum -/
theorem fitsL (op : BinOp) (l : Expr) (fi : Bool) (ha : op.assoc = .left) (hc : op ≠ .comma) :
    wrapOf l (leftLevel op l) fi false = true ∨ op.stratum = home m (leftLevel op l) l false ∨ subRank op.stratum ≤ home m (leftLevel op l) l false := by
  by_cases hn : op = .nullish
  · subst hn
    simp only [leftLevel, if_true, BinOp.stratum, subRank]
    cases ho : isOrAndS l with
    | true => left; simpa using wrapOf_binary_high l fi false ho
    | false =>
      simp only [Bool.false_eq_true, if_false]
      rcases fits_level (m := m) l 5 fi false (by omega) with h | h
      · exact Or.inl h
      · right
        by_cases h78 : home m 5 l false = 7 ∨ home m 5 l false = 8
        · rw [home_or_and l false h78] at ho; cases ho
        · simp; omega
  · have hp : op ≠ .pow := by intro h; subst h; simp [BinOp.assoc] at ha
    have hs : 7 ≤ op.stratum ∧ op.stratum ≤ 16 := by cases op <;> simp_all [BinOp.stratum, BinOp.assoc]
    simp only [leftLevel, hn, hp, if_false, ha, show ¬ (Assoc.left = Assoc.right) by decide]
    rcases fits_level (m := m) l (op.stratum - 1) fi false (by omega) with h | h
    · exact Or.inl h
    · right
      simp only [subRank, show ¬ (op.stratum = 1) by omega, show ¬ (op.stratum = 6) by omega, if_false]
      omega

/-- the right operand of a left-associative operator: parenthesised or a higher stratum -/
theorem fitsR (op : BinOp) (r : Expr) (fi : Bool) (ha : op.assoc = .left) (hc : op ≠ .comma) :
    wrapOf r (rightLevel op r) fi false = true ∨ subRank op.stratum ≤ home m (rightLevel op r) r false := by
  by_cases hn : op = .nullish
  · subst hn
    simp only [rightLevel, if_true, BinOp.stratum, subRank]
    cases ho : isOrAndS r with
    | true => left; simpa using wrapOf_binary_high r fi false ho
    | false =>
      simp only [Bool.false_eq_true, if_false]
      rcases fits_level (m := m) r 6 fi false (by omega) with h | h
      · exact Or.inl h
      · right
        by_cases h78 : home m 6 r false = 7 ∨ home m 6 r false = 8
        · rw [home_or_and r false h78] at ho; cases ho
        · simp; omega
  · have hs : 7 ≤ op.stratum ∧ op.stratum ≤ 16 := by cases op <;> simp_all [BinOp.stratum, BinOp.assoc]
    simp only [rightLevel, hn, if_false, ha, hc, ne_eq, not_false_eq_true, and_self, if_true]
    rcases fits_level (m := m) r op.stratum fi false (by omega) with h | h
    · exact Or.inl h
    · right
      simp only [subRank, show ¬ (op.stratum = 1) by omega, show ¬ (op.stratum = 6) by omega, if_false]
      omega



theorem Sat_of_chain (f : Nat) (io : Bool) (n s : Nat) (h6 : 6 ≤ s) (h16 : s ≤ 16) (ts : List Tok) (e : Expr)
    (rest : List Tok) (h : chain (subP f io s) (opsOfRank s) io (f + 1) ts = some (e, rest))
    (hcr : contRank io rest < s) : Sat (assignment f) (f + 1) io n s ts e rest := by
  have hs : s = 6 ∨ s = 7 ∨ s = 8 ∨ (9 ≤ s ∧ s ≤ 16) := by omega
  rcases hs with rfl | rfl | rfl | hs
  · have := shortCircuit_of_coalesce (assignment f) (f + 1) io ts e rest (by simpa [subP, opsOfRank] using h)
      (by omega) (by omega) (by omega)
    simpa [Sat] using this
  · simpa [Sat, subP, opsOfRank] using h
  · simpa [Sat, subP, opsOfRank, logicalAnd] using h
  · obtain ⟨i, rfl⟩ : ∃ i, s = 9 + i := ⟨s - 9, by omega⟩
    rw [Sat_strata _ _ _ _ i (by omega), strata_drop i (by omega), parseStrata]
    have e2 : 9 + i - 8 = i + 1 := by omega
    simpa only [subP, e2, show ¬ (9 + i = 1) by omega, show ¬ (9 + i = 7) by omega,
      show ¬ (9 + i = 6 ∨ 9 + i = 8) by omega, if_false] using h

theorem budget_child (c : Expr) (w : Bool) (f m : Nat) (h : 2 * (c.size + m) ≤ f + 1) (hm : 1 ≤ m) : budget c w f := by
  simp only [budget]; split <;> omega

theorem Core_binary_chain (op : BinOp) (l r : Expr) (ha : op.assoc = .left) (hc : op ≠ .comma) (hl : RT m l) (hr : RT m r) :
    Core m (.binary op l r) := by
  intro f L fi nt io hw hb
  have hsl := Expr.size_pos l
  have hsr := Expr.size_pos r
  simp only [Expr.size] at hb
  simp only [wrapOf] at hw
  have hs : 6 ≤ op.stratum ∧ op.stratum ≤ 16 := by cases op <;> simp_all [BinOp.stratum, BinOp.assoc]
  have hin : op = .in_ → fi = false := by
    intro h; subst h; have := hw; simp [binWrap, BinOp.stratum] at this; exact this.2
  have key : (op.stratum ≤ 13 → io = false → fi = true) →
      CLP (subP f io op.stratum) (opsOfRank op.stratum) io op.stratum (.binary op l r)
        (print m (.binary op l r) L fi nt) (Expr.binary op l r).size := by
    intro hio
    have hin' : op = .in_ → io = true := by
      intro h
      have h13 : op.stratum ≤ 13 := by subst h; simp [BinOp.stratum]
      cases hio' : io with
      | true => rfl
      | false => have := hio h13 hio'; rw [hin h] at this; cases this
    simp only [print_binary, hw, paren, Bool.not_false, Bool.and_true, Bool.false_eq_true, if_false, Expr.size]
    apply CLP_weaken _ _ _ _ _ _ (l.size + 1) _ (by omega)
    apply CLP_step
    · exact (hl f (leftLevel op l) fi false io).2.2.1 op.stratum hs.1 hs.2 (fitsL op l fi ha hc)
        (budget_child l _ f (r.size + 1) (by omega) (by omega)) (fun _ => hio)
    · intro rest hcr
      obtain ⟨hsub, hsub2⟩ := subRank_bounds op.stratum hs.1 hs.2
      apply subP_of_Sat f io (r.size + 1) op.stratum hs.1 hs.2 _ r rest _ (by omega)
      exact (hr f (rightLevel op r) fi false io).1 rest (subRank op.stratum) (by omega) (by omega) (fitsR op r fi ha hc)
        (budget_child r _ f (l.size + 1) (by omega) (by omega)) (fun _ h13 => hio (by omega)) (by omega)
    · exact lookupOp_tok io op ha hin'
    · intro ts; rw [contRank_tok io op ts hin']; omega
  refine ⟨?_, ?_, ?_, ?_, ?_⟩
  · intro _ rest hio hcr
    simp only [home] at hio hcr ⊢
    apply Sat_of_chain f io _ op.stratum hs.1 hs.2 _ _ rest _ hcr
    exact chain_of_CLP _ _ io op.stratum _ _ _ (f + 1) (key hio) (by simp only [Expr.size]; omega) rest (by omega)
      (stop_of_contRank io op.stratum rest (by omega) (by omega))
  · intro h; simp only [home] at h; omega
  · intro _ _ hio; simp only [home] at hio ⊢; exact key hio
  · intro _ h; simp only [home] at h; omega
  · intro _ h; simp only [home] at h; omega

theorem home_not_comma {L : Nat} (e : Expr) (nt : Bool) (h : e.isComma = false) : 4 ≤ home m L e nt := by
  rcases home_cases (m := m) (L := L) e nt with h1 | h4
  · cases e with
    | unary op v => cases op <;> simp [home, UnOp.isPostfix] at h1
    | binary op l r => cases op <;> simp_all [home, BinOp.stratum, Expr.isComma]
    | dot e n => cases nt <;> simp [home] at h1
    | index e i => cases nt <;> simp [home] at h1
    | new f as => simp only [home] at h1; split at h1 <;> omega
    | _ => simp [home] at h1
  · exact h4

theorem Core_binary_comma (l r : Expr) (hrc : r.isComma = false) (hl : RT m l) (hr : RT m r) :
    Core m (.binary .comma l r) := by
  intro f L fi nt io hw hb
  have hsl := Expr.size_pos l
  have hsr := Expr.size_pos r
  simp only [Expr.size] at hb
  simp only [wrapOf] at hw
  refine ⟨?_, ?_, ?_, ?_, ?_⟩
  · intro h; simp [home, BinOp.stratum] at h
  · intro _ hb2 hio
    simp only [Expr.size] at hb2
    simp only [print_binary, hw, paren, Bool.not_false, Bool.and_true, Bool.false_eq_true, if_false, Expr.size]
    have hll : leftLevel .comma l = 0 := by simp [leftLevel, BinOp.assoc, BinOp.stratum]
    have hrl : rightLevel .comma r = 0 := by simp [rightLevel, BinOp.stratum]
    rw [hll, hrl]
    apply CLP_weaken _ _ _ _ _ _ (l.size + 1) _ (by omega)
    apply CLP_step
    · exact (hl f 0 fi false io).2.1 (by split <;> omega) (fun _ => hio)
    · intro rest hcr
      exact RT_assign r hr f 0 fi false io rest (Or.inr (home_not_comma r false hrc)) (by split <;> omega)
        (fun _ => hio) (by omega)
    · rfl
    · intro ts; simp [contRank, contRankP, BinOp.tok]
  · intro h; simp [home, BinOp.stratum] at h
  · intro _ h; simp [home, BinOp.stratum] at h
  · intro _ h; simp [home, BinOp.stratum] at h

theorem Sat_5 (A : Bool → Parser) (F : Nat) (io : Bool) (n : Nat) (ts : List Tok) (e : Expr) (rest : List Tok) :
    Sat A F io n 5 ts e rest = (conditional A F io ts = some (e, rest)) := by simp [Sat]
theorem Sat_6 (A : Bool → Parser) (F : Nat) (io : Bool) (n : Nat) (ts : List Tok) (e : Expr) (rest : List Tok) :
    Sat A F io n 6 ts e rest = (shortCircuit A F io ts = some (e, rest)) := by simp [Sat]
theorem Sat_17 (A : Bool → Parser) (F : Nat) (io : Bool) (n : Nat) (ts : List Tok) (e : Expr) (rest : List Tok) :
    Sat A F io n 17 ts e rest = (∀ g, n ≤ g → expAux A F g ts = some (e, rest)) := by simp [Sat]
theorem Sat_18 (A : Bool → Parser) (F : Nat) (io : Bool) (n : Nat) (ts : List Tok) (e : Expr) (rest : List Tok) :
    Sat A F io n 18 ts e rest = (∀ g, n ≤ g → unaryAux A F g ts = some (e, rest)) := by simp [Sat]
theorem Sat_21 (A : Bool → Parser) (F : Nat) (io : Bool) (n : Nat) (ts : List Tok) (e : Expr) (rest : List Tok) :
    Sat A F io n 21 ts e rest = (lhs A F ts = some (e, rest)) := by simp [Sat]
theorem Sat_22 (A : Bool → Parser) (F : Nat) (io : Bool) (n : Nat) (ts : List Tok) (e : Expr) (rest : List Tok) :
    Sat A F io n 22 ts e rest = (∀ g, n ≤ g → memberExprP A F g ts = some (e, rest)) := by simp [Sat]

theorem powLeft_fits (l : Expr) (fi : Bool) :
    wrapOf l (if powLeftS l then 21 else 17) fi false = true ∨ 18 ≤ home m (if powLeftS l then 21 else 17) l false := by
  cases hp : powLeftS l with
  | false => simpa using fits_level l 17 fi false (by omega)
  | true =>
    cases l with
    | unary op v => left; cases op <;> simp [wrapOf, UnOp.isPostfix]
    | num n => right; simp [home]
    | _ => simp [powLeftS] at hp

theorem Core_binary_pow (l r : Expr) (hl : RT m l) (hr : RT m r) : Core m (.binary .pow l r) := by
  intro f L fi nt io hw hb
  have hsl := Expr.size_pos l
  have hsr := Expr.size_pos r
  simp only [Expr.size] at hb
  simp only [wrapOf] at hw
  refine ⟨?_, ?_, ?_, ?_, ?_⟩
  · intro _ rest _ hcr
    simp only [home, BinOp.stratum] at hcr ⊢
    rw [Sat_17]
    intro g hg
    simp only [Expr.size] at hg
    obtain ⟨g, rfl⟩ : ∃ g', g = g' + 1 := ⟨g - 1, by omega⟩
    have hll : leftLevel .pow l = if powLeftS l then 21 else 17 := by simp [leftLevel]
    have hrl : rightLevel .pow r = 16 := by simp [rightLevel, BinOp.assoc, BinOp.stratum]
    simp only [print_binary, hw, paren, Bool.not_false, Bool.and_true, Bool.false_eq_true, if_false, hll, hrl,
      List.append_assoc, List.cons_append, BinOp.tok]
    have h1 := (hl f (if powLeftS l then 21 else 17) fi false io).1 (.p .starstar :: (print m r 16 fi false ++ rest)) 18
      (by omega) (by omega) (powLeft_fits l fi) (budget_child l _ f (r.size + 1) (by omega) (by omega))
      (by intro _ h; omega) (by simp [contRank, contRankP])
    rw [Sat_18] at h1
    have h2 := (hr f 16 fi false io).1 rest 17 (by omega) (by omega) (fits_level r 16 fi false (by omega))
      (budget_child r _ f (l.size + 1) (by omega) (by omega)) (by intro _ h; omega) hcr
    rw [Sat_17] at h2
    rw [expAux]
    simp only [powLeft_head l fi, Bool.false_eq_true, if_false, h1 (f + 1) (by omega), h2 g (by omega)]
  · intro h; simp [home, BinOp.stratum] at h
  · intro _ h; simp [home, BinOp.stratum] at h
  · intro _ h; simp [home, BinOp.stratum] at h
  · intro _ h; simp [home, BinOp.stratum] at h

theorem assignOpOf_tok (op : BinOp) (h : op.stratum = 4) : assignOpOf (.p op.tok) = some op := by
  cases op <;> simp_all [BinOp.stratum, BinOp.tok, assignOpOf]

theorem Core_binary_assign (op : BinOp) (l r : Expr) (h4 : op.stratum = 4) (hls : l.simpleTarget = true)
    (hl : RT m l) (hr : RT m r) : Core m (.binary op l r) := by
  intro f L fi nt io hw hb
  have hsl := Expr.size_pos l
  have hsr := Expr.size_pos r
  simp only [Expr.size] at hb
  simp only [wrapOf] at hw
  have ha : op.assoc = .right := by cases op <;> simp_all [BinOp.stratum, BinOp.assoc]
  have hne : op ≠ .nullish ∧ op ≠ .pow := by constructor <;> (intro h; subst h; simp [BinOp.stratum] at h4)
  refine ⟨?_, ?_, ?_, ?_, ?_⟩
  · intro _ rest hio hcr
    simp only [home, h4] at hio hcr ⊢
    rw [Sat_4]
    have hll : leftLevel op l = 4 := by simp [leftLevel, hne.1, hne.2, ha, h4]
    have hrl : rightLevel op r = 3 := by simp [rightLevel, hne.1, ha, h4]
    simp only [print_binary, hw, paren, Bool.not_false, Bool.and_true, Bool.false_eq_true, if_false, hll, hrl,
      List.append_assoc, List.cons_append]
    obtain ⟨hh, hwl⟩ := simpleTarget_home (m := m) l hls
    have h1 := (hl f 4 fi false io).1 (.p op.tok :: (print m r 3 fi false ++ rest)) 5 (by omega) (by omega)
      (Or.inr (by have := hh 4; omega)) (budget_child l _ f (r.size + 1) (by omega) (by omega)) (fun _ _ => hio (by omega))
      (by rw [contRank_tok io op _ (by intro h; subst h; simp [BinOp.stratum] at h4)]; omega)
    rw [Sat_5] at h1
    have h2 := RT_assign r hr f 3 fi false io rest (fits_level r 3 fi false (by omega)) (by split <;> omega)
      (fun _ => hio (by omega)) hcr
    simp only [assignmentWith, h1, assignOpOf_tok op h4, hls, if_true, h2]
  · intro h; simp [home, h4] at h
  · intro h; simp [home, h4] at h
  · intro _ h; simp [home, h4] at h
  · intro _ h; simp [home, h4] at h

theorem Core_cond (t y n : Expr) (ht : RT m t) (hy : RT m y) (hn : RT m n) : Core m (.cond t y n) := by
  intro f L fi nt io hw hb
  have hst := Expr.size_pos t
  have hsy := Expr.size_pos y
  have hsn := Expr.size_pos n
  simp only [Expr.size] at hb
  simp only [wrapOf] at hw
  refine ⟨?_, ?_, ?_, ?_, ?_⟩
  · intro _ rest hio hcr
    simp only [home] at hio hcr ⊢
    rw [Sat_4]
    simp only [print_cond, hw, paren, Bool.not_false, Bool.and_true, Bool.false_eq_true, if_false,
      List.append_assoc, List.cons_append]
    have h1 := (ht f 5 fi false io).1 (.p .question :: (print m y 3 false false ++ .p .colon :: (print m n 3 fi false ++ rest))) 6
      (by omega) (by omega) (fits_level t 5 fi false (by omega)) (budget_child t _ f (y.size + n.size + 1) (by omega) (by omega))
      (fun _ _ => hio (by omega)) (by simp [contRank, contRankP])
    rw [Sat_6] at h1
    have h2 := RT_assign y hy f 3 false false true (.p .colon :: (print m n 3 fi false ++ rest))
      (fits_level y 3 false false (by omega)) (by split <;> omega) (by simp) (by simp [contRank, contRankP])
    have h3 := RT_assign n hn f 3 fi false io rest (fits_level n 3 fi false (by omega)) (by split <;> omega)
      (fun _ => hio (by omega)) hcr
    have h5 : conditional (assignment f) (f + 1) io
        (print m t 5 fi false ++ .p .question :: (print m y 3 false false ++ .p .colon :: (print m n 3 fi false ++ rest)))
        = some (.cond t y n, rest) := by
      simp only [conditional, h1, h2, h3]
    exact step_5_4 (assignment f) (f + 1) io _ _ rest h5 (by omega)
  · intro h; simp [home] at h
  · intro h; simp [home] at h
  · intro _ h; simp [home] at h
  · intro _ h; simp [home] at h



/-- at level 19 everything is parenthesised or a LeftHandSideExpression -/
theorem fits_lhs (e : Expr) (fi : Bool) : wrapOf e 19 fi false = true ∨ 21 ≤ home m 19 e false := by
  rcases fits_level (m := m) e 19 fi false (by omega) with h | h
  · exact Or.inl h
  · right
    cases e with
    | unary op v => cases op <;> simp [home, UnOp.isPostfix] at h
    | binary op l r => cases op <;> simp [home, BinOp.stratum] at h
    | cond t y n => simp [home] at h
    | new f as => simp [home, newParens]
    | _ => simp [home]

theorem Core_dot (e : Expr) (name : Nat) (he : RT m e) : Core m (.dot e name) := by
  intro f L fi nt io hw hb
  have hse := Expr.size_pos e
  simp only [Expr.size] at hb
  have hH : nt = false → HLP (assignment f) (f + 1) (.dot e name) (print m (.dot e name) L fi nt) (Expr.dot e name).size := by
    intro hnt; subst hnt
    rw [print_dot]
    exact HLP_dot _ _ _ _ _ _ ((he f 19 false false io).2.2.2.1 rfl (fits_lhs e false) (budget_child e _ f 1 (by omega) (by omega)))
  have hM : nt = true → MLP (assignment f) (f + 1) (.dot e name) (print m (.dot e name) L fi nt) (Expr.dot e name).size := by
    intro hnt; subst hnt
    rw [print_dot]
    exact MLP_dot _ _ _ _ _ _ ((he f 19 false true io).2.2.2.2 rfl (fits_member e 19 false (by omega) (by omega))
      (budget_child e _ f 1 (by omega) (by omega)))
  refine ⟨?_, ?_, ?_, fun hnt _ => hH hnt, fun hnt _ => hM hnt⟩
  · intro _ rest _ hcr
    cases nt with
    | false =>
      simp only [home, Bool.false_eq_true, if_false] at hcr ⊢
      rw [Sat_21]
      exact lhs_of_HLP _ _ io _ _ _ (hH rfl) (by simp only [Expr.size]; omega) rest (by omega)
    | true =>
      simp only [home, if_true] at hcr ⊢
      rw [Sat_22]
      intro g hg
      exact memberExprP_of_MLP _ _ io _ _ _ (hM rfl) (by simp only [Expr.size]; omega) rest (by omega) g (by omega)
  · intro h; cases nt <;> simp [home] at h
  · intro _ h; cases nt <;> simp [home] at h

theorem Core_index (e i : Expr) (he : RT m e) (hi : RT m i) : Core m (.index e i) := by
  intro f L fi nt io hw hb
  have hse := Expr.size_pos e
  have hsi := Expr.size_pos i
  simp only [Expr.size] at hb
  have hidx : ∀ rest, expressionWith (assignment f) (f + 1) true (print m i 0 false false ++ .p .rbrack :: rest)
      = some (i, .p .rbrack :: rest) := by
    intro rest
    exact RT_expr i hi f 0 false false true (.p .rbrack :: rest) (by rw [wrapOf_level0]; simp; omega) (by simp)
      (by simp [contRank, contRankP])
  have hH : nt = false → HLP (assignment f) (f + 1) (.index e i) (print m (.index e i) L fi nt) (Expr.index e i).size := by
    intro hnt; subst hnt
    rw [print_index]
    apply HLP_weaken _ _ _ _ (e.size + 1) _ (by simp only [Expr.size]; omega)
    exact HLP_index _ _ _ _ _ _ _ ((he f 19 false false io).2.2.2.1 rfl (fits_lhs e false)
      (budget_child e _ f (i.size + 1) (by omega) (by omega))) hidx
  have hM : nt = true → MLP (assignment f) (f + 1) (.index e i) (print m (.index e i) L fi nt) (Expr.index e i).size := by
    intro hnt; subst hnt
    rw [print_index]
    apply MLP_weaken _ _ _ _ (e.size + 1) _ (by simp only [Expr.size]; omega)
    exact MLP_index _ _ _ _ _ _ _ ((he f 19 false true io).2.2.2.2 rfl (fits_member e 19 false (by omega) (by omega))
      (budget_child e _ f (i.size + 1) (by omega) (by omega))) hidx
  refine ⟨?_, ?_, ?_, fun hnt _ => hH hnt, fun hnt _ => hM hnt⟩
  · intro _ rest _ hcr
    cases nt with
    | false =>
      simp only [home, Bool.false_eq_true, if_false] at hcr ⊢
      rw [Sat_21]
      exact lhs_of_HLP _ _ io _ _ _ (hH rfl) (by simp only [Expr.size]; omega) rest (by omega)
    | true =>
      simp only [home, if_true] at hcr ⊢
      rw [Sat_22]
      intro g hg
      exact memberExprP_of_MLP _ _ io _ _ _ (hM rfl) (by simp only [Expr.size]; omega) rest (by omega) g (by omega)
  · intro h; cases nt <;> simp [home] at h
  · intro _ h; cases nt <;> simp [home] at h

theorem Core_call (fn : Expr) (as : Args) (hf : RT m fn) (has : RTA m as) : Core m (.call fn as) := by
  intro f L fi nt io hw hb
  have hsf := Expr.size_pos fn
  simp only [Expr.size] at hb
  simp only [wrapOf, Bool.or_eq_false_iff] at hw
  obtain ⟨hwL, hnt⟩ := hw
  subst hnt
  have hH : HLP (assignment f) (f + 1) (.call fn as) (print m (.call fn as) L fi false) (Expr.call fn as).size := by
    simp only [print_call, hwL, Bool.or_false, paren, Bool.false_eq_true, if_false]
    apply HLP_weaken _ _ _ _ (fn.size + 1) _ (by simp only [Expr.size]; omega)
    exact HLP_call _ _ _ _ _ _ _ ((hf f 19 false false io).2.2.2.1 rfl (fits_lhs fn false)
      (budget_child fn _ f (as.size + 1) (by omega) (by omega))) (fun rest => has f rest (by omega))
  refine ⟨?_, ?_, ?_, fun _ _ => hH, ?_⟩
  · intro _ rest _ hcr
    simp only [home] at hcr ⊢
    rw [Sat_21]
    exact lhs_of_HLP _ _ io _ _ _ hH (by simp only [Expr.size]; omega) rest (by omega)
  · intro h; simp [home] at h
  · intro _ h; simp [home] at h
  · intro h; cases h

theorem Sat_20 (A : Bool → Parser) (F : Nat) (io : Bool) (n : Nat) (ts : List Tok) (e : Expr) (rest : List Tok) :
    Sat A F io n 20 ts e rest = (lhs A F ts = some (e, rest)) := by simp [Sat]

theorem Core_new (fn : Expr) (as : Args) (hf : RT m fn) (has : RTA m as) : Core m (.new fn as) := by
  intro f L fi nt io hw hb
  have hsf := Expr.size_pos fn
  simp only [Expr.size] at hb
  simp only [wrapOf] at hw
  have hfM := (hf f 20 false true io).2.2.2.2 rfl (fits_member fn 20 false (by omega) (by omega))
    (budget_child fn _ f (as.size + 1) (by omega) (by omega))
  cases hp : newParens m as L with
  | true =>
    have hhead : ∀ g0 rest, (Expr.new fn as).size ≤ g0 →
        memberHead (assignment f) (f + 1) g0 (print m (.new fn as) L fi nt ++ rest) = some (.new fn as, rest) := by
      intro g0 rest hg
      simp only [Expr.size] at hg
      simp only [print_new, hw, hp, paren, Bool.false_eq_true, if_false, if_true]
      exact memberHead_new _ _ io fn as _ _ fn.size hfM (by omega) (fun rest => has f rest (by omega)) g0 rest (by omega)
    have hM : MLP (assignment f) (f + 1) (.new fn as) (print m (.new fn as) L fi nt) (Expr.new fn as).size :=
      MLP_base _ _ _ _ _ hhead
    refine ⟨?_, ?_, ?_, fun _ _ => HLP_base _ _ _ _ _ hhead, fun _ _ => hM⟩
    · intro _ rest _ hcr
      simp only [home, hp, if_true] at hcr ⊢
      rw [Sat_22]
      intro g hg
      exact memberExprP_of_MLP _ _ io _ _ _ hM (by simp only [Expr.size]; omega) rest (by omega) g (by omega)
    · intro h; simp [home, hp] at h
    · intro _ h; simp [home, hp] at h
  | false =>
    have hnil : as = .nil := by
      cases as with
      | nil => rfl
      | cons a r => simp [newParens, Args.isNil] at hp
    subst hnil
    refine ⟨?_, ?_, ?_, ?_, ?_⟩
    · intro _ rest _ hcr
      simp only [home, hp, Bool.false_eq_true, if_false] at hcr ⊢
      rw [Sat_20]
      simp only [print_new, hw, hp, paren, Bool.false_eq_true, if_false, List.append_nil]
      have := memberHead_new_bare (assignment f) (f + 1) io fn (print m fn 20 false true) fn.size hfM (by omega)
        (f + 1) rest (by omega) (by omega)
      simp only [lhs, this]
      exact callLoop_stop _ _ _ io _ rest (by omega) (by omega)
    · intro h; simp [home, hp] at h
    · intro _ h; simp [home, hp] at h
    · intro _ h; simp [home, hp] at h
    · intro _ h; simp [home, hp] at h

/-! ### argument lists -/

def ArgsAll (P : Expr → Prop) : Args → Prop
  | .nil => True
  | .cons a rest => P a ∧ ArgsAll P rest

theorem printArgs_head (a : Expr) (as : Args) :
    ∃ t ts, printArgs m (.cons a as) = t :: ts ∧ t ≠ .p .rparen := by
  obtain ⟨t, ts', he, h1, _⟩ := print_head a 1 false false
  cases as with
  | nil => exact ⟨t, ts', by rw [printArgs_one, he], h1⟩
  | cons b rest => exact ⟨t, ts' ++ .p .comma :: printArgs m (.cons b rest), by rw [printArgs_cons, he]; simp, h1⟩

theorem RT_arg (a : Expr) (ha : RT m a) (f : Nat) (rest : List Tok) (hb : 2 * a.size + 1 ≤ f)
    (hcr : contRank true rest < 4) :
    assignment f true (print m a 1 false false ++ rest) = some (a, rest) := by
  apply RT_assign a ha f 1 false false true rest _ (by split <;> omega) (by simp) hcr
  rcases fits_level (m := m) a 1 false false (by omega) with h | h
  · exact Or.inl h
  · right; rcases home_cases (m := m) (L := 1) a false with h1 | h4 <;> omega

theorem argsLoop_ok : (as : Args) → (a : Expr) → ArgsAll (RT m) (.cons a as) → ∀ (f g : Nat) (rest : List Tok),
    2 * (Args.cons a as).size ≤ f → (Args.cons a as).size ≤ g →
    argsLoop (assignment f) g (printArgs m (.cons a as) ++ .p .rparen :: rest) = some (.cons a as, rest)
  | .nil, a, hall, f, g, rest, hb, hg => by
    simp only [Args.size] at hb hg
    obtain ⟨g, rfl⟩ : ∃ g', g = g' + 1 := ⟨g - 1, by omega⟩
    rw [printArgs_one]
    exact argsLoop_one _ g a _ rest (RT_arg a hall.1 f _ (by omega) (by simp [contRank, contRankP]))
  | .cons b more, a, hall, f, g, rest, hb, hg => by
    simp only [Args.size] at hb hg
    obtain ⟨g, rfl⟩ : ∃ g', g = g' + 1 := ⟨g - 1, by omega⟩
    obtain ⟨t, ts, he, hne⟩ := printArgs_head b more
    have ih := argsLoop_ok more b hall.2 f g rest (by simp only [Args.size]; omega) (by simp only [Args.size]; omega)
    rw [printArgs_cons, List.append_assoc, List.cons_append]
    rw [he] at ih ⊢
    simp only [List.cons_append] at ih ⊢
    exact argsLoop_cons _ g a (.cons b more) _ _ rest t
      (RT_arg a hall.1 f _ (by omega) (by simp [contRank, contRankP])) hne ih

theorem RTA_of_all (as : Args) (hall : ArgsAll (RT m) as) : RTA m as := by
  intro f rest hb
  cases as with
  | nil => simp [printArgs_nil, arguments]
  | cons a more =>
    obtain ⟨t, ts, he, hne⟩ := printArgs_head a more
    have := argsLoop_ok more a hall f (f + 1) rest hb (by omega)
    rw [he] at this ⊢
    simp only [List.cons_append] at this ⊢
    rw [arguments]
    · exact this
    · intro ts' h
      simp only [List.cons.injEq] at h
      exact hne h.1

/-! ### the induction -/

theorem Core_binary (op : BinOp) (l r : Expr) (hl : RT m l) (hr : RT m r)
    (h4 : op.stratum = 4 → l.simpleTarget = true) (h1 : op.stratum = 1 → r.isComma = false) :
    Core m (.binary op l r) := by
  by_cases hs4 : op.stratum = 4
  · exact Core_binary_assign op l r hs4 (h4 hs4) hl hr
  · by_cases hs1 : op.stratum = 1
    · have : op = .comma := by cases op <;> simp_all [BinOp.stratum]
      subst this
      exact Core_binary_comma l r (h1 hs1) hl hr
    · by_cases hp : op = .pow
      · subst hp; exact Core_binary_pow l r hl hr
      · have ha : op.assoc = .left := by cases op <;> simp_all [BinOp.stratum, BinOp.assoc]
        have hc : op ≠ .comma := by intro h; subst h; simp [BinOp.stratum] at hs1
        exact Core_binary_chain op l r ha hc hl hr

mutual
theorem RT_all : (e : Expr) → e.wellFormed = true → RT m e
  | .ident n, _ => RT_of_Core _ (Core_ident n)
  | .num n, _ => RT_of_Core _ (Core_num n)
  | .unary op v, h => by
    simp only [Expr.wellFormed, Bool.and_eq_true, Bool.or_eq_true, Bool.not_eq_eq_eq_not, Bool.not_true] at h
    refine RT_of_Core _ (Core_unary op v (RT_all v h.1) (fun hu => ?_))
    rcases h.2 with h2 | h2
    · rw [hu] at h2; cases h2
    · exact h2
  | .binary op l r, h => by
    simp only [Expr.wellFormed, Bool.and_eq_true, Bool.or_eq_true, bne_iff_ne, ne_eq, Bool.not_eq_eq_eq_not,
      Bool.not_true, Bool.and_eq_false_imp, beq_iff_eq] at h
    refine RT_of_Core _ (Core_binary op l r (RT_all l h.1.1.1) (RT_all r h.1.1.2) (fun h4 => ?_) (fun h1 => h.2 h1))
    rcases h.1.2 with h2 | h2
    · exact absurd h4 h2
    · exact h2
  | .cond t y n, h => by
    simp only [Expr.wellFormed, Bool.and_eq_true] at h
    exact RT_of_Core _ (Core_cond t y n (RT_all t h.1.1) (RT_all y h.1.2) (RT_all n h.2))
  | .dot e n, h => by
    simp only [Expr.wellFormed] at h
    exact RT_of_Core _ (Core_dot e n (RT_all e h))
  | .index e i, h => by
    simp only [Expr.wellFormed, Bool.and_eq_true] at h
    exact RT_of_Core _ (Core_index e i (RT_all e h.1) (RT_all i h.2))
  | .call f as, h => by
    simp only [Expr.wellFormed, Bool.and_eq_true] at h
    exact RT_of_Core _ (Core_call f as (RT_all f h.1) (RTA_of_all as (RT_args as h.2)))
  | .new f as, h => by
    simp only [Expr.wellFormed, Bool.and_eq_true] at h
    exact RT_of_Core _ (Core_new f as (RT_all f h.1) (RTA_of_all as (RT_args as h.2)))
theorem RT_args : (as : Args) → as.wellFormed = true → ArgsAll (RT m) as
  | .nil, _ => trivial
  | .cons a rest, h => by
    simp only [Args.wellFormed, Bool.and_eq_true] at h
    exact ⟨RT_all a h.1, RT_args rest h.2⟩
end



theorem paren_length (w : Bool) (ts : List Tok) : ts.length ≤ (paren w ts).length := by
  cases w <;> simp [paren] <;> omega

mutual
theorem size_le_length : (e : Expr) → (L : Nat) → (fi nt : Bool) → e.size ≤ (print m e L fi nt).length
  | .ident n, L, fi, nt => by simp [print_ident, Expr.size]
  | .num n, L, fi, nt => by simp [print_num, Expr.size]
  | .unary op v, L, fi, nt => by
    rw [print_unary]
    refine Nat.le_trans ?_ (paren_length _ _)
    have h1 := size_le_length v 18 false false
    have h2 := size_le_length v 17 false false
    cases op.isPostfix <;> simp [Expr.size] <;> omega
  | .binary op l r, L, fi, nt => by
    rw [print_binary]
    refine Nat.le_trans ?_ (paren_length _ _)
    have h1 := size_le_length l (leftLevel op l) (fi && !binWrap op L fi) false
    have h2 := size_le_length r (rightLevel op r) (fi && !binWrap op L fi) false
    simp [Expr.size]; omega
  | .cond t y n, L, fi, nt => by
    rw [print_cond]
    refine Nat.le_trans ?_ (paren_length _ _)
    generalize (fi && !decide (L ≥ 5)) = fi'
    have h1 := size_le_length t 5 fi' false
    have h2 := size_le_length y 3 false false
    have h3 := size_le_length n 3 fi' false
    simp [Expr.size]; omega
  | .dot e n, L, fi, nt => by
    rw [print_dot]
    have h1 := size_le_length e 19 false nt
    simp [Expr.size]; omega
  | .index e i, L, fi, nt => by
    rw [print_index]
    have h1 := size_le_length e 19 false nt
    have h2 := size_le_length i 0 false false
    simp [Expr.size]; omega
  | .call f as, L, fi, nt => by
    rw [print_call]
    refine Nat.le_trans ?_ (paren_length _ _)
    have h1 := size_le_length f 19 false false
    have h2 := argsSize_le_length as
    simp [Expr.size]; omega
  | .new f as, L, fi, nt => by
    rw [print_new]
    refine Nat.le_trans ?_ (paren_length _ _)
    have h1 := size_le_length f 20 false true
    have h2 := argsSize_le_length as
    cases hp : newParens m as L with
    | true => simp [Expr.size]; omega
    | false =>
      have hnil : as = .nil := by
        cases as with
        | nil => rfl
        | cons a r => simp [newParens, Args.isNil] at hp
      subst hnil
      simp [Expr.size, Args.size]; omega
theorem argsSize_le_length : (as : Args) → as.size ≤ (printArgs m as).length + 1
  | .nil => by simp [Args.size]
  | .cons a .nil => by
    have h1 := size_le_length a 1 false false
    rw [printArgs_one]; simp [Args.size]; omega
  | .cons a (.cons b rest) => by
    have h1 := size_le_length a 1 false false
    have h2 := argsSize_le_length (.cons b rest)
    rw [printArgs_cons]; simp [Args.size] at h2 ⊢; omega
end

/-- the round trip, for every nesting depth -/
theorem parse_print_aux (e : Expr) (hwf : e.wellFormed = true) (level : Nat) (forbidIn : Bool) (inOk : Bool)
    (hio : inOk = false → forbidIn = true) : parse inOk (print m e level forbidIn false) = some e := by
  have hlen := size_le_length (m := m) e level forbidIn false
  have h := RT_expr (m := m) e (RT_all e hwf) (2 * (print m e level forbidIn false).length + 2) level forbidIn false inOk []
    (by split <;> omega) (fun _ => hio) (by simp [contRank])
  simp only [List.append_nil] at h
  simp only [parse, expression, h]


end EsbuildModel.PrecPrint
