import EsbuildModel.Lemmas.CommentIndent
/-!
The column the backward loop counts, for the prefixes the printer produces: nothing, or complete lines followed by
an indentation of spaces / tabs (more generally: ASCII bytes other than CR and LF).
-/
namespace EsbuildModel.CommentIndent
open EsbuildModel.Wtf8
open EsbuildModel.Spec.CommentIndent

theorem decodeLastRune_ascii (p : List Nat) (x : Nat) (hx : x < 128) : decodeLastRune (p ++ [x]) = .ok (x, 1) := by
  unfold decodeLastRune
  have h0 : ¬ (((p ++ [x]).length : Int) = 0) := by simp; omega
  have hg : getAt (p ++ [x]) (((p ++ [x]).length : Int) - 1) = .ok x := by
    have : (((p ++ [x]).length : Int) - 1) = ((p.length : Nat) : Int) := by simp
    rw [this]
    exact getAt_nat _ _ _ (by simp)
  simp only [h0, if_false, hg]
  have : x < 0x80 := hx
  simp [this]

/-- plain bytes between the previous line and the comment count one column each -/
theorem seekBack_ascii_suffix (pre : List Nat) : ∀ (ind : List Nat) (fuel n : Nat),
    (∀ x ∈ ind, x < 128 ∧ x ≠ 10 ∧ x ≠ 13) → ind.length ≤ fuel →
    seekBack fuel (pre ++ ind.reverse) n = seekBack (fuel - ind.length) pre (n + ind.length)
  | [], fuel, n, _, _ => by simp
  | x :: ind, 0, n, _, hf => by simp at hf
  | x :: ind, fuel + 1, n, hx, hf => by
    have hx0 := hx x (by simp)
    have hlen : ¬ (pre ++ (x :: ind).reverse).length = 0 := by simp
    have hd : decodeLastRune (pre ++ (x :: ind).reverse) = .ok (x, 1) := by
      have : pre ++ (x :: ind).reverse = (pre ++ ind.reverse) ++ [x] := by simp
      rw [this]; exact decodeLastRune_ascii _ x hx0.1
    have ht : isTermRune x = false := by
      simp [isTermRune]; omega
    simp only [seekBack, hlen, if_false, hd, ht]
    have hsz : 1 ≤ (pre ++ (x :: ind).reverse).length := by simp; omega
    have hcut : (List.take ((pre ++ (x :: ind).reverse).length - 1) (pre ++ (x :: ind).reverse)) = pre ++ ind.reverse := by
      have : pre ++ (x :: ind).reverse = (pre ++ ind.reverse) ++ [x] := by simp
      rw [this]
      have hl : (pre ++ ind.reverse ++ [x]).length - 1 = (pre ++ ind.reverse).length := by simp
      rw [hl, List.take_left']
      rfl
    simp only [Nat.one_ne_zero, if_false, hsz, if_true, Bool.false_eq_true,
      sliceN_ok _ 0 ((pre ++ (x :: ind).reverse).length - 1) (Nat.zero_le _) (Nat.sub_le _ _), List.drop_zero, hcut]
    rw [seekBack_ascii_suffix pre ind fuel (n + 1) (fun y hy => hx y (List.mem_cons_of_mem _ hy))
      (by simp at hf; omega)]
    simp only [List.length_cons]
    congr 1 <;> omega

theorem seekBack_nil (fuel n : Nat) : seekBack (fuel + 1) [] n = .ok n := by simp [seekBack]

theorem seekBack_after_term (fuel n : Nat) (pre : List Nat) (t : Nat) (ht : t = 10 ∨ t = 13) :
    seekBack (fuel + 1) (pre ++ [t]) n = .ok n := by
  have hd : decodeLastRune (pre ++ [t]) = .ok (t, 1) := decodeLastRune_ascii pre t (by omega)
  have hterm : isTermRune t = true := by rcases ht with rfl | rfl <;> rfl
  simp [seekBack, hd, hterm]

/-- at the start of the file, after `ind` (ASCII, no CR / LF) the column is `ind.length` -/
theorem column_start (ind : List Nat) (h : ∀ x ∈ ind, x < 128 ∧ x ≠ 10 ∧ x ≠ 13) : column ind = ind.length := by
  have hs := seekBack_column ind
  have := seekBack_ascii_suffix [] ind.reverse (ind.length + 1) 0 (by simpa using h) (by simp)
  simp only [List.nil_append, List.reverse_reverse, List.length_reverse, Nat.zero_add] at this
  rw [this, show ind.length + 1 - ind.length = 0 + 1 by omega, seekBack_nil] at hs
  injection hs with hs; exact hs.symm

/-- after a line that ends in LF or CR, and `ind` (ASCII, no CR / LF), the column is `ind.length` -/
theorem column_after_line (pre ind : List Nat) (t : Nat) (ht : t = 10 ∨ t = 13)
    (h : ∀ x ∈ ind, x < 128 ∧ x ≠ 10 ∧ x ≠ 13) : column (pre ++ [t] ++ ind) = ind.length := by
  have hs := seekBack_column (pre ++ [t] ++ ind)
  have := seekBack_ascii_suffix (pre ++ [t]) ind.reverse ((pre ++ [t] ++ ind).length + 1) 0 (by simpa using h)
    (by simp; omega)
  simp only [List.reverse_reverse, List.length_reverse, Nat.zero_add] at this
  rw [this, show (pre ++ [t] ++ ind).length + 1 - ind.length = (pre.length + 1) + 1 by simp; omega,
    seekBack_after_term _ _ pre t ht] at hs
  injection hs with hs; exact hs.symm

end EsbuildModel.CommentIndent
