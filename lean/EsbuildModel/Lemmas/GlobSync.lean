import EsbuildModel.Lemmas.GlobUtf8
/-
Go's UTF-8 decoding of ARBITRARY byte strings around ASCII bytes: an ASCII byte is never part of a multi-byte
sequence, so decoding re-synchronises there (`goRunes_sync`). Used to show that the regexp text written for any byte
pattern — well-formed or not — decodes to the text of a token list (`runesOf_tokens`).
-/
namespace EsbuildModel.Glob
open EsbuildModel.Spec.MiniRegex
open EsbuildModel.Wtf8 (goDecodeRune isCont acceptLo acceptHi runeError)

theorem isCont_ascii (a : Nat) (h : a < 128) : isCont a = false := by
  simp [isCont]; omega

theorem acceptLo_ge (s0 : Nat) : 128 ≤ acceptLo s0 := by
  rw [Wtf8.acceptLo_eq]
  split
  · omega
  · split <;> omega

theorem acceptHi_le (s0 : Nat) : acceptHi s0 ≤ 191 := by
  rw [Wtf8.acceptHi_eq]
  split
  · omega
  · split <;> omega

theorem acceptLo_224 : acceptLo 224 = 160 := rfl
theorem acceptLo_240 : acceptLo 240 = 144 := rfl

theorem isCont_ge (b : Nat) (h : isCont b = true) : 128 ≤ b ∧ b ≤ 191 := by
  simpa [isCont] using h

/-- what follows an ASCII byte does not matter, and the ASCII byte itself ends every sequence -/
theorem goDecodeRune_ascii_suffix (s0 : Nat) (t : List Nat) (a : Nat) (rest : List Nat) (ha : a < 128) :
    goDecodeRune s0 (t ++ a :: rest) = goDecodeRune s0 t := by
  have hc := isCont_ascii a ha
  have hlo : ¬ (acceptLo s0 ≤ a) := by have := acceptLo_ge s0; omega
  unfold goDecodeRune
  rcases t with _ | ⟨x, _ | ⟨y, _ | ⟨z, t⟩⟩⟩
  · cases rest with
    | nil => simp [hc]
    | cons r1 rest =>
      cases rest with
      | nil => simp [hc, hlo]
      | cons r2 rest => simp [hc, hlo]
  · cases rest with
    | nil => simp [hc]
    | cons r1 rest => simp [hc]
  · simp [hc]
  · simp

/-- width and value of one decoding step -/
theorem goDecodeRune_bounds (s0 : Nat) (t : List Nat) :
    1 ≤ (goDecodeRune s0 t).2 ∧ (goDecodeRune s0 t).2 - 1 ≤ t.length ∧
      (128 ≤ s0 → 128 ≤ (goDecodeRune s0 t).1) := by
  unfold goDecodeRune
  split
  · simp
  · split
    · rename_i h2
      cases t with
      | nil => simp [runeError]
      | cons s1 t =>
        simp only
        split
        · rename_i hc
          have := isCont_ge s1 hc
          refine ⟨by simp, by simp, fun _ => ?_⟩
          simp only [Wtf8.dec2]; omega
        · simp [runeError]
    · split
      · rename_i h3
        rcases t with _ | ⟨s1, _ | ⟨s2, t⟩⟩
        · simp [runeError]
        · simp [runeError]
        · simp only
          split
          · rename_i hc
            have hl := acceptLo_ge s0
            have hh := acceptHi_le s0
            have h224 : s0 = 224 → acceptLo s0 = 160 := fun h => by rw [h]; rfl
            refine ⟨by simp, by simp, fun _ => ?_⟩
            simp only [Wtf8.dec3]
            have hc2 := isCont_ge s2 hc.2.2
            by_cases hs : s0 = 224
            · have := h224 hs; omega
            · omega
          · simp [runeError]
      · split
        · rename_i h4
          rcases t with _ | ⟨s1, _ | ⟨s2, _ | ⟨s3, t⟩⟩⟩
          · simp [runeError]
          · simp [runeError]
          · simp [runeError]
          · simp only
            split
            · rename_i hc
              have hl := acceptLo_ge s0
              have hh := acceptHi_le s0
              have h240 : s0 = 240 → acceptLo s0 = 144 := fun h => by rw [h]; rfl
              refine ⟨by simp, by simp, fun _ => ?_⟩
              simp only [Wtf8.dec4]
              by_cases hs : s0 = 240
              · have := h240 hs; omega
              · omega
            · simp [runeError]
        · simp [runeError]

theorem goRunes_ascii_cons (a : Nat) (rest : List Nat) (ha : a < 128) : goRunes (a :: rest) = (a, 1) :: goRunes rest := by
  rw [goRunes_cons]
  have : goDecodeRune a rest = (a, 1) := by unfold goDecodeRune; simp [ha]
  rw [this]; rfl

theorem goRunes_ascii_append (l rest : List Nat) (h : ∀ c ∈ l, c < 128) :
    goRunes (l ++ rest) = l.map (fun c => (c, 1)) ++ goRunes rest := by
  induction l with
  | nil => rfl
  | cons c l ih =>
    rw [List.cons_append, goRunes_ascii_cons _ _ (h c (by simp)), ih (fun x hx => h x (List.mem_cons_of_mem _ hx))]
    rfl

/-- decoding re-synchronises at an ASCII byte -/
theorem goRunes_sync : ∀ n (l : List Nat), l.length ≤ n → (∀ c ∈ l, 128 ≤ c) → ∀ a rest, a < 128 →
    goRunes (l ++ a :: rest) = goRunes l ++ goRunes (a :: rest) := by
  intro n
  induction n with
  | zero =>
    intro l hl _ a rest _
    have : l = [] := List.length_eq_zero_iff.mp (by omega)
    subst this; rfl
  | succ n ih =>
    intro l hl hh a rest ha
    cases l with
    | nil => rfl
    | cons s0 t =>
      rw [List.cons_append, goRunes_cons, goRunes_cons, goDecodeRune_ascii_suffix s0 t a rest ha]
      have hb := goDecodeRune_bounds s0 t
      rw [List.drop_append_of_le_length hb.2.1]
      rw [ih (t.drop ((goDecodeRune s0 t).2 - 1)) (by simp at hl ⊢; omega)
        (fun c hc => hh c (List.mem_cons_of_mem _ (List.mem_of_mem_drop hc))) a rest ha]
      rfl

/-- a run of bytes ≥ 0x80 decodes to code points ≥ 0x80 (U+FFFD for the ill-formed ones) -/
theorem goRunes_high : ∀ n (l : List Nat), l.length ≤ n → (∀ c ∈ l, 128 ≤ c) → ∀ cw ∈ goRunes l, 128 ≤ cw.1 := by
  intro n
  induction n with
  | zero =>
    intro l hl _ cw hcw
    have : l = [] := List.length_eq_zero_iff.mp (by omega)
    subst this; simp [goRunes_nil] at hcw
  | succ n ih =>
    intro l hl hh cw hcw
    cases l with
    | nil => simp [goRunes_nil] at hcw
    | cons s0 t =>
      rw [goRunes_cons] at hcw
      have hb := goDecodeRune_bounds s0 t
      rcases List.mem_cons.mp hcw with rfl | hcw
      · exact hb.2.2 (hh s0 (by simp))
      · exact ih _ (by simp at hl ⊢; omega) (fun c hc => hh c (List.mem_cons_of_mem _ (List.mem_of_mem_drop hc))) cw hcw

theorem runesOf_high (l : List Nat) (h : ∀ c ∈ l, 128 ≤ c) : ∀ r ∈ runesOf l, 128 ≤ r := by
  intro r hr
  unfold runesOf at hr
  rw [List.mem_map] at hr
  obtain ⟨cw, hcw, rfl⟩ := hr
  exact goRunes_high l.length l (Nat.le_refl _) h cw hcw

theorem runesOf_nil : runesOf [] = [] := rfl

theorem runesOf_sync (l : List Nat) (h : ∀ c ∈ l, 128 ≤ c) (a : Nat) (rest : List Nat) (ha : a < 128) :
    runesOf (l ++ a :: rest) = runesOf l ++ runesOf (a :: rest) := by
  unfold runesOf
  rw [goRunes_sync l.length l (Nat.le_refl _) h a rest ha, List.map_append]

theorem runesOf_ascii_append (l rest : List Nat) (h : ∀ c ∈ l, c < 128) : runesOf (l ++ rest) = l ++ runesOf rest := by
  unfold runesOf
  rw [goRunes_ascii_append l rest h, List.map_append, List.map_map]
  congr 1
  conv => rhs; rw [← List.map_id l]
  rfl

theorem runesOf_ne_nil (l : List Nat) (h : l ≠ []) : runesOf l ≠ [] := by
  cases l with
  | nil => exact absurd rfl h
  | cons s0 t => unfold runesOf; rw [goRunes_cons]; simp

/-! ## the text of ANY token list (literal bytes, well-formed or not) decodes to the text of a token list -/

/-- the tokens the regexp parser sees: runs of literal bytes ≥ 0x80 become literals of the code points Go decodes -/
def decodeGo (pending : List Nat) : List CTok → List CTok
  | [] => (runesOf pending).map .lit
  | .lit c :: ts =>
    if 128 ≤ c then decodeGo (pending ++ [c]) ts
    else (runesOf pending).map .lit ++ .lit c :: decodeGo [] ts
  | .one :: ts => (runesOf pending).map .lit ++ .one :: decodeGo [] ts
  | .star :: ts => (runesOf pending).map .lit ++ .star :: decodeGo [] ts
  | .gstar :: ts => (runesOf pending).map .lit ++ .gstar :: decodeGo [] ts

theorem flatMap_lits_high (rs : List Nat) (h : ∀ r ∈ rs, 128 ≤ r) : (rs.map CTok.lit).flatMap tokText = rs := by
  induction rs with
  | nil => rfl
  | cons r rs ih =>
    rw [List.map_cons, List.flatMap_cons, ih (fun x hx => h x (List.mem_cons_of_mem _ hx))]
    simp [tokText, isMeta_high r (h r (by simp))]

/-- is this the text of a token that starts (and consists of) ASCII bytes -/
def asciiTok : CTok → Bool
  | .lit c => decide (c < 128)
  | _ => true

theorem tokText_ascii (t : CTok) (h : asciiTok t = true) : (∀ x ∈ tokText t, x < 128) ∧ tokText t ≠ [] := by
  cases t with
  | lit c =>
    have hc : c < 128 := by simpa [asciiTok] using h
    simp only [tokText]
    split
    · exact ⟨by intro x hx; simp at hx; omega, by simp⟩
    · exact ⟨by intro x hx; simp at hx; omega, by simp⟩
  | one => exact ⟨by intro x hx; simp [tokText] at hx; omega, by simp [tokText]⟩
  | star => exact ⟨fun x hx => starText_ascii x (by simpa [tokText] using hx), by simp [tokText, starText]⟩
  | gstar => exact ⟨fun x hx => gsText_ascii x (by simpa [tokText] using hx), by simp [tokText, gsText]⟩

/-- pending high bytes, then an ASCII token text, then anything -/
theorem runesOf_pending_ascii (pending : List Nat) (hp : ∀ c ∈ pending, 128 ≤ c) (t : CTok) (ht : asciiTok t = true)
    (R : List Nat) : runesOf (pending ++ (tokText t ++ R)) = runesOf pending ++ (tokText t ++ runesOf R) := by
  obtain ⟨hasc, hne⟩ := tokText_ascii t ht
  cases htt : tokText t with
  | nil => exact absurd htt hne
  | cons x xs =>
    rw [htt] at hasc
    rw [List.cons_append, runesOf_sync pending hp x _ (hasc x (by simp))]
    congr 1
    have := runesOf_ascii_append (x :: xs) R hasc
    simpa using this

theorem runesOf_tokens_pending (ts : List CTok) : ∀ pending, (∀ c ∈ pending, 128 ≤ c) →
    runesOf (pending ++ (ts.flatMap tokText ++ [36])) = (decodeGo pending ts).flatMap tokText ++ [36] := by
  induction ts with
  | nil =>
    intro pending hp
    simp only [List.flatMap_nil, List.nil_append, decodeGo]
    rw [runesOf_sync pending hp 36 [] (by omega), flatMap_lits_high _ (runesOf_high pending hp)]
    rfl
  | cons t ts ih =>
    intro pending hp
    have hstep : ∀ t', asciiTok t' = true →
        runesOf (pending ++ ((t' :: ts).flatMap tokText ++ [36]))
          = ((runesOf pending).map CTok.lit ++ t' :: decodeGo [] ts).flatMap tokText ++ [36] := by
      intro t' ht'
      rw [List.flatMap_cons, List.append_assoc, runesOf_pending_ascii pending hp t' ht']
      have := ih [] (by simp)
      rw [List.nil_append] at this
      rw [this, List.flatMap_append, flatMap_lits_high _ (runesOf_high pending hp), List.flatMap_cons]
      simp
    cases t with
    | lit c =>
      by_cases hc : 128 ≤ c
      · simp only [decodeGo, hc, if_true, List.flatMap_cons]
        have htc : tokText (CTok.lit c) = [c] := by simp [tokText, isMeta_high c hc]
        rw [htc]
        have := ih (pending ++ [c]) (by
          intro x hx
          rcases List.mem_append.mp hx with hx | hx
          · exact hp x hx
          · simp at hx; omega)
        rw [← this]
        simp
      · simp only [decodeGo, hc, if_false]
        exact hstep _ (by simp [asciiTok]; omega)
    | one => exact hstep _ rfl
    | star => exact hstep _ rfl
    | gstar => exact hstep _ rfl

/-- the code-point level text a regexp text stands for, and hence what `regexp.Compile` answers, for ANY tokens -/
theorem compile_tokens_any (ts : List CTok) :
    compile ([94] ++ ts.flatMap tokText ++ [36])
      = if validUTF8 ([94] ++ ts.flatMap tokText ++ [36]) then .ok (reOf (decodeGo [] ts)) else .invalidUTF8 := by
  unfold compile
  split
  · have h1 : runesOf ([94] ++ ts.flatMap tokText ++ [36]) = [94] ++ (decodeGo [] ts).flatMap tokText ++ [36] := by
      have := runesOf_ascii_append [94] (ts.flatMap tokText ++ [36]) (by simp)
      rw [List.append_assoc, this]
      have h2 := runesOf_tokens_pending ts [] (by simp)
      rw [List.nil_append] at h2
      rw [h2]; simp
    rw [h1, parse_tokens]
  · rfl

/-! ## … and for the tokens of a pattern these are the tokens of the decoded pattern -/

open EsbuildModel.Spec.Glob (Tok tokOf)

theorem decodeGo_ascii_head (t : CTok) (ts : List CTok) (h : asciiTok t = true) :
    decodeGo [] (t :: ts) = t :: decodeGo [] ts := by
  cases t with
  | lit c =>
    have hc : ¬ 128 ≤ c := by simp [asciiTok] at h; omega
    simp [decodeGo, hc, runesOf_nil]
  | one => simp [decodeGo, runesOf_nil]
  | star => simp [decodeGo, runesOf_nil]
  | gstar => simp [decodeGo, runesOf_nil]

theorem decodeGo_high_lits (l : List Nat) (h : ∀ c ∈ l, 128 ≤ c) (ts : List CTok) : ∀ pending,
    decodeGo pending (l.map CTok.lit ++ ts) = decodeGo (pending ++ l) ts := by
  induction l with
  | nil => intro pending; simp
  | cons c l ih =>
    intro pending
    have hc := h c (by simp)
    rw [List.map_cons, List.cons_append, decodeGo]
    simp only [hc, if_true]
    rw [ih (fun x hx => h x (List.mem_cons_of_mem _ hx))]
    simp

def noHighHead : List CTok → Bool
  | [] => true
  | t :: _ => asciiTok t

theorem decodeGo_flush (pending : List Nat) (ts : List CTok) (h : noHighHead ts = true) :
    decodeGo pending ts = (runesOf pending).map CTok.lit ++ decodeGo [] ts := by
  cases ts with
  | nil => simp [decodeGo, runesOf_nil]
  | cons t ts =>
    rw [decodeGo_ascii_head t ts h]
    cases t with
    | lit c =>
      have hc : ¬ 128 ≤ c := by simp [noHighHead, asciiTok] at h; omega
      simp [decodeGo, hc]
    | one => simp [decodeGo]
    | star => simp [decodeGo]
    | gstar => simp [decodeGo]

theorem asciiTok_tokOf (a : Nat) (h : a < 128) : asciiTok (ofSpecTok (tokOf a)) = true := by
  unfold tokOf; split
  · rfl
  · simp [ofSpecTok, asciiTok, h]

/-- the first token after pending stars, at the end, or at an ASCII byte is not a literal byte ≥ 0x80 -/
theorem noHighHead_lex (p : List Nat) : ∀ b n, (0 < n ∨ p = [] ∨ ∃ a q, p = a :: q ∧ a < 128) →
    noHighHead ((EsbuildModel.Spec.Glob.lex b n p).map ofSpecTok) = true := by
  induction p with
  | nil =>
    intro b n _
    cases n with
    | zero => rw [lex_nil0]; rfl
    | succ n => rw [lex_pending_nil]; split <;> rfl
  | cons c p ih =>
    intro b n h
    rw [EsbuildModel.Spec.Glob.lex]
    split
    · exact ih b (n + 1) (Or.inl (by omega))
    · rename_i hc42
      split
      · rename_i hn
        rcases h with h | h | ⟨a, q, hp, ha⟩
        · omega
        · cases h
        · injection hp with h1 _
          subst h1
          simp only [List.map_cons, noHighHead]
          exact asciiTok_tokOf c ha
      · split <;> rfl

theorem lex_high_run (l : List Nat) (hne : l ≠ []) (h : ∀ c ∈ l, 128 ≤ c) (b : Bool) (n : Nat) (rest : List Nat) :
    EsbuildModel.Spec.Glob.lex b n (l ++ rest)
      = (if n = 0 then [] else [Tok.star]) ++ l.map Tok.lit ++ EsbuildModel.Spec.Glob.lex false 0 rest := by
  cases l with
  | nil => exact absurd rfl hne
  | cons c l =>
    have hc := h c (by simp)
    rw [List.cons_append, EsbuildModel.Spec.Glob.lex]
    simp only [show c ≠ 42 by omega, if_false, show c ≠ 47 by omega, decide_false, Bool.and_false, Bool.false_eq_true]
    rw [lex_high_bytes l (fun x hx => h x (List.mem_cons_of_mem _ hx))]
    have htok : tokOf c = Tok.lit c := by simp [tokOf, show c ≠ 63 by omega]
    rw [htok]
    split <;> simp

theorem runesOf_ascii_cons (a : Nat) (rest : List Nat) (ha : a < 128) : runesOf (a :: rest) = a :: runesOf rest := by
  have := runesOf_ascii_append [a] rest (by simp; omega)
  simpa using this

/-- decoding the token text of a byte pattern gives the tokens of the decoded pattern -/
theorem decodeGo_lex : ∀ k (p : List Nat), p.length ≤ k → ∀ b n,
    decodeGo [] ((EsbuildModel.Spec.Glob.lex b n p).map ofSpecTok)
      = (EsbuildModel.Spec.Glob.lex b n (runesOf p)).map ofSpecTok := by
  intro k
  induction k with
  | zero =>
    intro p hp b n
    have : p = [] := List.length_eq_zero_iff.mp (by omega)
    subst this
    rw [runesOf_nil]
    cases n with
    | zero => rw [lex_nil0]; rfl
    | succ n => rw [lex_pending_nil]; split <;> rfl
  | succ k ih =>
    intro p hp b n
    cases p with
    | nil => exact ih [] (by simp) b n
    | cons s0 p' =>
      by_cases hs : s0 < 128
      · -- an ASCII byte: one step of the lexer on both sides
        rw [runesOf_ascii_cons s0 p' hs]
        rw [EsbuildModel.Spec.Glob.lex, EsbuildModel.Spec.Glob.lex.eq_def b n (s0 :: runesOf p')]
        simp only
        have hp' : p'.length ≤ k := by simp at hp; omega
        have htok := asciiTok_tokOf s0 hs
        split
        · exact ih p' hp' _ _
        · split
          · rw [List.map_cons, List.map_cons, decodeGo_ascii_head _ _ htok, ih p' hp']
          · split
            · rw [List.map_cons, List.map_cons, decodeGo_ascii_head _ _ rfl, ih p' hp']
            · rw [List.map_cons, List.map_cons, List.map_cons, List.map_cons, decodeGo_ascii_head _ _ rfl,
                decodeGo_ascii_head _ _ htok, ih p' hp']
      · -- a run of bytes ≥ 0x80
        have hsplit := List.takeWhile_append_dropWhile (p := (128 ≤ ·)) (l := s0 :: p')
        generalize hl : (s0 :: p').takeWhile (128 ≤ ·) = l at hsplit
        generalize hq : (s0 :: p').dropWhile (128 ≤ ·) = q at hsplit
        have hlhigh : ∀ c ∈ l, 128 ≤ c := by
          intro c hc; rw [← hl] at hc
          have := mem_takeWhile_imp _ _ _ hc
          simpa using this
        have hlne : l ≠ [] := by
          rw [← hl, List.takeWhile_cons]; simp [show 128 ≤ s0 by omega]
        have hqhead : q = [] ∨ ∃ a q', q = a :: q' ∧ a < 128 := by
          cases hqq : q with
          | nil => exact Or.inl rfl
          | cons a q' =>
            right
            have := List.head_dropWhile_not (128 ≤ ·) (l := s0 :: p') (by rw [hq, hqq]; simp)
            simp only [hq, hqq, List.head_cons, decide_eq_false_iff_not] at this
            exact ⟨a, q', rfl, by omega⟩
        have hqlen : q.length ≤ k := by
          have h1 := congrArg List.length hsplit
          simp only [List.length_append, List.length_cons] at h1 hp
          have : 0 < l.length := List.length_pos_iff.mpr hlne
          omega
        have hrunes : runesOf (s0 :: p') = runesOf l ++ runesOf q := by
          rw [← hsplit]
          rcases hqhead with rfl | ⟨a, q', rfl, ha⟩
          · simp [runesOf_nil]
          · exact runesOf_sync l hlhigh a q' ha
        rw [hrunes, ← hsplit]
        rw [lex_high_run l hlne hlhigh b n q,
          lex_high_run (runesOf l) (runesOf_ne_nil l hlne) (runesOf_high l hlhigh) b n (runesOf q)]
        have hflush := decodeGo_flush l ((EsbuildModel.Spec.Glob.lex false 0 q).map ofSpecTok)
          (noHighHead_lex q false 0 (Or.inr hqhead))
        have hmaplit : ∀ xs : List Nat, (xs.map Tok.lit).map ofSpecTok = xs.map CTok.lit := by
          intro xs; rw [List.map_map]; rfl
        by_cases hn : n = 0
        · simp only [hn, if_true, List.nil_append, List.map_append, hmaplit]
          rw [decodeGo_high_lits l hlhigh, List.nil_append, hflush, ih q hqlen]
        · simp only [hn, if_false, List.map_append, List.map_cons, hmaplit, List.cons_append,
            List.nil_append, ofSpecTok]
          rw [decodeGo_ascii_head _ _ rfl, decodeGo_high_lits l hlhigh, List.nil_append, hflush, ih q hqlen]

/-- **all byte patterns**: `regexp.Compile` of the text written for `glob` either fails (text not valid UTF-8) or
yields the regexp of the tokens of the DECODED pattern (ill-formed bytes read as U+FFFD, as Go reads strings) -/
theorem compile_globstar_any (glob : List Nat) :
    ∃ re, globstarToEscapedRegexp glob = .ok (re, hasWild glob) ∧
      compile re = if validUTF8 re then .ok (reOf (codeToks (runesOf glob))) else .invalidUTF8 := by
  refine ⟨_, globstar_eq glob, ?_⟩
  rw [compile_tokens_any]
  have : decodeGo [] (codeToks glob) = codeToks (runesOf glob) := decodeGo_lex glob.length glob (Nat.le_refl _) true 0
  rw [this]

end EsbuildModel.Glob
