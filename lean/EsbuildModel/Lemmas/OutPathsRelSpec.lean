import EsbuildModel.Lemmas.OutPathsPrel
/-
`fs.Rel` against its documented contract ("Join(basepath, Rel(basepath, targpath)) is equivalent to
targpath itself") and against `Spec.OutPath.relative`.
-/
namespace EsbuildModel.OutPaths
open EsbuildModel.Spec.OutPath

theorem step_dd (P : AbsPath) : step P dd = P.dropLast := by
  simp [step, dd]

theorem resolve_ups (k : Nat) : ∀ (P : AbsPath), resolve P (List.replicate k dd) = P.take (P.length - k) := by
  induction k with
  | zero => intro P; simp [resolve]
  | succ k ih =>
    intro P
    rw [List.replicate_succ]
    simp only [resolve, List.foldl_cons]
    rw [step_dd]
    have := ih P.dropLast
    simp only [resolve] at this
    rw [this, List.dropLast_eq_take, List.take_take, List.length_take]
    congr 1
    omega

theorem upDown_eq_relative (B T : AbsPath) :
    upDown B T = List.replicate (relative B T).1 dd ++ (relative B T).2 := by
  unfold upDown relative
  induction B generalizing T with
  | nil => cases T <;> simp [stripCommon, lca2]
  | cons b B ih =>
    cases T with
    | nil => simp [stripCommon, lca2]
    | cons t T =>
      by_cases h : b = t
      · subst h
        have := ih T
        simp only [stripCommon, lca2, if_true, List.length_cons, List.drop_succ_cons] at this ⊢
        rw [this]
        congr 2
        omega
      · simp [stripCommon, lca2, h]

/-- joining the result of `Rel` onto the base gives the target -/
theorem join_rel {b t : Str} (hb : isAbs b = true) (ht : isAbs t = true) :
    ∃ r, fsRel b t = some r ∧ denote (b ++ '/' :: r) = denote t ∧
      (denote t ≠ denote b →
        r = joinSlash (List.replicate (relative (denote b) (denote t)).1 dd ++ (relative (denote b) (denote t)).2)) := by
  have hB := denote_valid b
  have hT := denote_valid t
  unfold fsRel
  rw [rel_abs hb ht]
  by_cases heq : denote t = denote b
  · refine ⟨['.'], by simp [heq], ?_, fun h => absurd heq h⟩
    rw [denote_append_slash, heq]
    simp [components, resolve, step]
  · refine ⟨joinSlash (upDown (denote b) (denote t)), by simp [heq], ?_, fun _ => by rw [upDown_eq_relative]⟩
    rw [denote_append_slash, components_eq_splitSlash]
    obtain ⟨C, h1, h2⟩ := stripCommon_eq (denote b) (denote t)
    have hm := @stripCommon_mem (denote b) (denote t)
    have hne : upDown (denote b) (denote t) ≠ [] := by
      unfold upDown
      intro e
      have e1 := List.append_eq_nil_iff.mp e
      have hB' : (stripCommon (denote b) (denote t)).1 = [] := by
        have := e1.1
        cases hh : (stripCommon (denote b) (denote t)).1 with
        | nil => rfl
        | cons x xs => rw [hh] at this; simp [List.replicate_succ] at this
      apply heq
      rw [h2, e1.2, h1, hB']
    have hel : ∀ x ∈ upDown (denote b) (denote t), '/' ∉ x := by
      intro x hx
      unfold upDown at hx
      rcases List.mem_append.mp hx with hx | hx
      · rw [List.eq_of_mem_replicate hx]; simp [dd]
      · exact (hT x (hm.2 x hx)).2.1
    rw [splitSlash_joinSlash hne hel]
    unfold upDown
    rw [resolve_append, resolve_ups]
    have hT' : ∀ x ∈ (stripCommon (denote b) (denote t)).2, ValidName x := fun x hx => hT x (hm.2 x hx)
    rw [resolve_validNames _ hT']
    have hlen : (denote b).length - (stripCommon (denote b) (denote t)).1.length = C.length := by
      have := congrArg List.length h1
      simp only [List.length_append] at this
      omega
    rw [hlen]
    generalize stripCommon (denote b) (denote t) = S at *
    rw [h2]
    congr 1
    rw [h1]
    exact List.take_left' rfl

theorem stripCommon_append (B Z : List Str) : stripCommon B (B ++ Z) = ([], Z) := by
  induction B with
  | nil => cases Z <;> rfl
  | cons b B ih => simp [stripCommon, ih]

/-- a custom output path made of real names is taken as it is: `[dir]` = its directory, `[name]` = its last
name (no extension is removed) -/
theorem pathRelativeToOutbase_custom {keyText outbase : Str} (hb : isAbs outbase = true)
    (hk : isAbs keyText = true) (avoidIndex : Bool) {Z : List Str} (hZ : ∀ z ∈ Z, ValidName z) (hne : Z ≠ [])
    (h1 : '\\' ∉ outbase) (h2 : '\\' ∉ keyText) (h3 : ∀ z ∈ Z, '\\' ∉ z) :
    pathRelativeToOutbase keyText true outbase avoidIndex (joinSlash Z) =
      (render Z.dropLast, Z.getLast hne) := by
  have hjne : joinSlash Z ≠ [] := fun e => hne ((joinSlash_eq_nil (fun z hz => ValidName.elem (hZ z hz))).mp e)
  have hns : '\\' ∉ joinSlash Z := by
    intro hm
    have hsub : ∀ (L : List Str), '\\' ∈ joinSlash L → ∃ z ∈ L, '\\' ∈ z := by
      intro L
      induction L with
      | nil => simp [joinSlash_nil]
      | cons x L ih =>
        cases L with
        | nil => rw [joinSlash_singleton]; intro h; exact ⟨x, by simp, h⟩
        | cons y L =>
          rw [joinSlash_cons_cons]
          intro h
          rcases List.mem_append.mp h with h | h
          · exact ⟨x, by simp, h⟩
          · rcases List.mem_cons.mp h with h | h
            · exact absurd h (by decide)
            · obtain ⟨z, hz, hzz⟩ := ih h
              exact ⟨z, List.mem_cons_of_mem _ hz, hzz⟩
    obtain ⟨z, hz, hzz⟩ := hsub Z hm
    exact h3 z hz hzz
  have hnabs : isAbs (joinSlash Z) = false := by
    obtain ⟨z, Z', rfl⟩ : ∃ z Z', Z = z :: Z' := by
      cases Z with
      | nil => exact absurd rfl hne
      | cons z Z' => exact ⟨z, Z', rfl⟩
    have hz := hZ z (by simp)
    obtain ⟨c, z', rfl⟩ : ∃ c z', z = c :: z' := by
      cases z with
      | nil => exact absurd rfl hz.1
      | cons c z' => exact ⟨c, z', rfl⟩
    have hc : c ≠ '/' := fun e => hz.2.1 (by simp [e])
    cases Z' with
    | nil =>
      rw [joinSlash_singleton]
      unfold isAbs
      split
      · rename_i heq; injection heq with e1 _; exact absurd e1 hc
      · rfl
    | cons y Y =>
      rw [joinSlash_cons_cons]
      unfold isAbs
      split
      · rename_i heq; simp only [List.cons_append] at heq; injection heq with e1 _; exact absurd e1 hc
      · rfl
  rw [pathRelativeToOutbase_eq hb hk avoidIndex _ h1 h2 hns]
  have hp : prelAbsPath keyText outbase avoidIndex (joinSlash Z) = render (denote outbase ++ Z) := by
    unfold prelAbsPath
    rw [if_pos hjne, hnabs]
    simp only [Bool.false_eq_true, if_false]
    rw [join_abs hb, components_eq_splitSlash, splitSlash_joinSlash hne (fun z hz => (hZ z hz).2.1),
      resolve_validNames _ hZ]
  have hv : ∀ x ∈ denote outbase ++ Z, ValidName x := by
    intro x hx
    rcases List.mem_append.mp hx with hx | hx
    · exact denote_valid _ x hx
    · exact hZ x hx
  rw [hp, denote_render hv]
  simp only [hjne, if_false]
  unfold dirNames lastName
  rw [stripCommon_append]
  simp [hne, List.getLast?_eq_some_getLast hne]

end EsbuildModel.OutPaths
