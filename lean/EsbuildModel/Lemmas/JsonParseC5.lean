import EsbuildModel.Lemmas.JsonParseC4
/-
Completeness of the parser: helper steps of the loops (closing token, punctuation after a separator).
-/
namespace EsbuildModel.Json
open EsbuildModel.Spec.Json EsbuildModel.Spec.NumLit

/-- `Next` from a state whose remaining input is a separator followed by a punctuation character -/
theorem punct_next (fl : Flavor) (P : Params) (L1 : Lx) (s : List SepItem) (c : Char) (t : Tok) (r : List Cp)
    (hrest : L1.rest = cps (Sep.render s) ++ cpOf c :: r) (hcl : L1.log.Clean) (hend : 0 < L1.end_)
    (hok : Sep.ok (dialectOf fl) false false s = true)
    (h : (c = '[' ∧ t = .openBracket) ∨ (c = ']' ∧ t = .closeBracket) ∨ (c = '{' ∧ t = .openBrace) ∨
      (c = '}' ∧ t = .closeBrace) ∨ (c = ',' ∧ t = .comma) ∨ (c = ':' ∧ t = .colon)) :
    ∃ Lc, next fl P L1 = .ok Lc ∧ Lc.tok = t ∧ Lc.rest = r ∧ Lc.log.Clean ∧ 0 < Lc.end_ := by
  have he : (L1.end_ == 0) = false := by simp; omega
  have hstop : SepStop (cpOf c :: r) := by
    apply sepStop_of_punct
    rcases h with ⟨rfl, _⟩ | ⟨rfl, _⟩ | ⟨rfl, _⟩ | ⟨rfl, _⟩ | ⟨rfl, _⟩ | ⟨rfl, _⟩ <;> simp
  obtain ⟨log', h1, h2⟩ := next_at fl P L1 s (cpOf c :: r) false hrest (by rw [he]; exact hok) hcl (by simp) hstop
  rw [lexAt_punct fl P L1 _ c t r h] at h2
  refine ⟨_, h2, rfl, rfl, h1, ?_⟩
  have := cpOf_w_pos c
  simp only [Lx.at]; omega

theorem arr_close (o : Opts) (P : Params) (n : Nat) (Lc : Lx) (items : List Ast) (single : Bool)
    (ht : Lc.tok = .closeBracket) :
    arrLoop o P (n + 1) Lc items single =
      (next o.flavor P Lc).bind (fun L' => .ok (.arr items (if Lc.nl then false else single), L')) := by
  rw [arrLoop_succ, if_pos ht]
  simp only [closeStep, expect, ht, ne_eq, not_true_eq_false, if_false, R.bind_assoc, R.bind_ok]

theorem obj_close (o : Opts) (P : Params) (n : Nat) (Lc : Lx) (props : List (List Nat × Bool × Ast))
    (seen : List (List Nat)) (single : Bool) (ht : Lc.tok = .closeBrace) :
    objLoop o P (n + 1) Lc props seen single =
      (next o.flavor P Lc).bind (fun L' => .ok (.obj props (if Lc.nl then false else single), L')) := by
  rw [objLoop_succ, if_pos ht]
  simp only [closeStep, expect, ht, ne_eq, not_true_eq_false, if_false, R.bind_assoc, R.bind_ok]

/-- the first character of a value stops the white space scanner and cannot be mistaken for a closing token -/
theorem val_head_stop (fl : Flavor) (v : Val) (hok : v.ok (dialectOf fl) = true) (x : List Cp) :
    SepStop (cps v.render ++ x) := by
  cases v with
  | null => exact sepStop_of_punct (c := 'n') (by simp)
  | tt => exact sepStop_of_punct (c := 't') (by simp)
  | ff => exact sepStop_of_punct (c := 'f') (by simp)
  | str cs => exact sepStop_of_punct (c := '"') (by simp)
  | arr0 s => exact sepStop_of_punct (c := '[') (by simp)
  | arr es => exact sepStop_of_punct (c := '[') (by simp)
  | obj0 s => exact sepStop_of_punct (c := '{') (by simp)
  | obj ms => exact sepStop_of_punct (c := '{') (by simp)
  | num jn =>
    obtain ⟨hv, hb, hnd, hbad, hgap, hneg, hjson⟩ := jnum_facts fl jn hok
    obtain ⟨c, t, hr, hc⟩ := lit_head hv hb
    cases hn : jn.neg with
    | false =>
      have hg := hneg hn
      have : (Val.num jn).render = c :: t := by simp [Val.render, JNum.render, hn, hg, hr]
      rw [this]
      rcases hc with hc | hc
      · exact sepStop_of_digit hc
      · exact sepStop_of_punct (by simp [hc])
    | true =>
      intro c' r' heq
      have : cps (Val.num jn).render ++ x = cpOf '-' :: (cps (Sep.render jn.gap ++ jn.lit.render) ++ x) := by
        simp [Val.render, JNum.render, hn]
      rw [this] at heq
      simp only [List.cons.injEq] at heq
      obtain ⟨rfl, rfl⟩ := heq
      refine ⟨by decide, by decide, by decide, by decide, by decide, by decide, fun _ => ?_⟩
      by_cases hg : jn.gap = []
      · rw [hg, hr]
        rcases hc with hc | hc
        · have : 48 ≤ c.toNat ∧ c.toNat ≤ 57 := by simpa [isDigit] using hc
          simp only [Sep.render_nil, List.nil_append, cps_cons, List.cons_append, headIs, cpOf_c,
            beq_eq_false_iff_ne, ne_eq]
          rintro rfl; revert this; decide
        · subst hc; rfl
      · obtain ⟨c2, t2, h1, h2⟩ := sep_head hgap hg
        rw [h1]
        have := ws_not_minus h2
        simp only [Bool.or_eq_false_iff] at this
        simpa [headIs] using this.2

end EsbuildModel.Json
