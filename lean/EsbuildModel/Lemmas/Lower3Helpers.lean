import EsbuildModel.Lemmas.Lower3Copy
/-!
The runtime helpers against the specification, in a quiet world:
`__spreadValues(t, v)` = CopyDataProperties(t, v, []), and `__objRest(v, keys)` = CopyDataProperties({}, v, keys)
unless the source run stops at an own enumerable "__proto__" (`Hz.protoKey`).
-/
namespace EsbuildModel.Lower3

theorem defNormalProp_eq : defNormalProp = Rec.createData := rfl

/-- the keys `for (k in o)` visits and that pass the hasOwnProperty test = the own enumerable string keys -/
theorem forIn_filter_aux (w : World) (o : Nat) (tr : Trace) (p : Key → Bool) (L : List String)
    (hL : ∀ k ∈ L, k ∈ w.strKeys o tr) :
    ((L.filter fun k => w.enumerable o (.str k) tr).map Key.str).filter (fun k => isOwn w o k tr && p k) =
      (L.map Key.str).filter (fun k => p k && ownEnum w o k tr) := by
  induction L with
  | nil => rfl
  | cons k r ih =>
    have hk : k ∈ w.strKeys o tr := hL k (List.mem_cons_self ..)
    have ih' := ih (fun k' hk' => hL k' (List.mem_cons_of_mem _ hk'))
    simp only [List.map_cons]
    cases he : w.enumerable o (.str k) tr with
    | true =>
      rw [List.filter_cons_of_pos (by simpa using he)]
      simp only [List.map_cons]
      cases hp : p (.str k) with
      | true =>
        rw [List.filter_cons_of_pos (by simp [isOwn, hk, hp]), List.filter_cons_of_pos (by simp [ownEnum, isOwn, hk, hp, he]), ih']
      | false =>
        rw [List.filter_cons_of_neg (by simp [hp]), List.filter_cons_of_neg (by simp [hp]), ih']
    | false =>
      rw [List.filter_cons_of_neg (by simp [he]), List.filter_cons_of_neg (by simp [ownEnum, he]), ih']

theorem forIn_filter (w : World) (o : Nat) (tr : Trace) (p : Key → Bool) :
    (forInKeys w o tr).filter (fun k => isOwn w o k tr && p k) =
      ((w.strKeys o tr).map Key.str).filter (fun k => p k && ownEnum w o k tr) :=
  forIn_filter_aux w o tr p _ (fun _ hk => hk)

theorem toVal_beq (a b : Key) : (a.toVal == b.toVal) = (a == b) := by
  rw [Bool.eq_iff_iff]
  simp only [beq_iff_eq]
  cases a <;> cases b <;> simp [Key.toVal]

theorem contains_toVal (excl : List Key) (k : Key) : (excl.map Key.toVal).contains k.toVal = excl.contains k := by
  induction excl with
  | nil => rfl
  | cons e r ih => simp only [List.map_cons, List.contains_cons, ih, toVal_beq]

/-- the loop of both helpers over an object of the world, against one loop over all keys -/
theorem world_loops (w : World) (hq : Quiet w) (o : Nat) (p : Key → Bool) (stop : Key → Option Hz)
    (put1 put2 : Rec → Key → Val → Rec) (hp : ∀ k, stop k = none → ∀ t v, put2 t k v = put1 t k v) (t : Rec) (h : H) :
    RelH
      (bindR (copyWorld w o (fun k tr => isOwn w o k tr && p k) (fun _ => none) put2 (forInKeys w o h.tr) t h) fun t1 h1 =>
        copyWorld w o (fun k tr => p k && ownEnum w o k tr) (fun _ => none) put2 ((w.symKeys o h1.tr).map .sym) t1 h1)
      (copyWorld w o (fun k tr => p k && ownEnum w o k tr) stop put1
        ((w.strKeys o h.tr).map .str ++ (w.symKeys o h.tr).map .sym) t h) := by
  have hg1 : ∀ k tr tr', SameShape w tr tr' → (isOwn w o k tr' && p k) = (isOwn w o k tr && p k) :=
    fun k tr tr' hs => by rw [isOwn_shape hs]
  have hg2 : ∀ k tr tr', SameShape w tr tr' → (p k && ownEnum w o k tr') = (p k && ownEnum w o k tr) :=
    fun k tr tr' hs => by rw [ownEnum_shape hs]
  -- the specification side: one constant guard, two lists
  rw [(copyWorld_quiet w hq o _ stop put1 hg2 h.tr _ t h (SameShape.refl w h.tr)).1, copyWorld_filter, List.filter_append,
    copyWorld_append]
  -- the first loop of the helper
  obtain ⟨e1, s1⟩ := copyWorld_quiet w hq o _ (fun _ => none) put2 hg1 h.tr (forInKeys w o h.tr) t h (SameShape.refl w h.tr)
  rw [e1] at s1 ⊢
  rw [copyWorld_filter, forIn_filter] at s1 ⊢
  refine RelH.bind' (copyWorld_rel w o _ stop put1 put2 hp _ t h) (fun t1 h1 he => ?_)
  rw [he] at s1
  simp only at s1
  -- the second loop: the symbol keys are listed after the first loop, the shape is still the same
  rw [(s1 o).2.1, (copyWorld_quiet w hq o _ (fun _ => none) put2 hg2 h.tr _ t1 h1 s1).1, copyWorld_filter]
  exact copyWorld_rel w o _ stop put1 put2 hp _ t1 h1

theorem stop_spread : (fun k : Key => if (true && false && k == Key.str "__proto__") = true then some Hz.protoKey else none) =
    fun _ => none := by
  funext k; simp

theorem strEntries_falsy (v : Val) (h : falsy v = true) : v.strEntries = [] ∧ v.symEntries = [] := by
  cases v <;> simp [falsy] at h <;> simp [Val.strEntries, Val.symEntries]
  subst h
  rfl

/-- `__spreadValues(t, v)` does what CopyDataProperties(t, v, []) does -/
theorem spreadValuesH_spec (w : World) (hq : Quiet w) (t : Rec) (sv : Val) (h : H) :
    RelH (spreadValuesH w t.toVal sv h)
      (bindR (copyDataProps w true false sv [] t h) fun t' h' => ((.ok t'.toVal : Res), h')) := by
  unfold spreadValuesH copyDataProps
  simp only [Rec.asRec_toVal, List.contains_nil, Bool.not_false, Bool.true_and, defNormalProp_eq]
  by_cases hf : falsy sv = true
  · obtain ⟨e1, e2⟩ := strEntries_falsy sv hf
    have hno : ∀ o, sv ≠ .obj o := by intro o e; subst e; simp [falsy] at hf
    simp only [hf, if_true, Rec.toVal, Rec.empty, Val.strEntries, Val.symEntries, List.map_nil, copyEntries, bindR_ok]
    cases sv with
    | obj o => exact absurd rfl (hno o)
    | _ => simp only [Val.entries, e1, e2, List.append_nil, copyEntries, bindR_ok]; exact Or.inr rfl
  · simp only [hf, if_false, Bool.false_eq_true]
    cases sv with
    | obj o =>
      simp only
      have := world_loops w hq o (fun _ => true) (fun _ => none) Rec.createData Rec.createData (fun _ _ _ _ => rfl) t h
      simp only [Bool.and_true, Bool.true_and] at this
      rw [← bindR_assoc]
      exact RelH.bind this (fun _ _ => Or.inr rfl)
    | _ =>
      simp only [Val.entries, copyEntries_append, bindR_assoc]
      exact Or.inr rfl

/-- the stop condition of CopyDataProperties for a rest element -/
def stopRest : Key → Option Hz := fun k => if (true && true && k == Key.str "__proto__") = true then some Hz.protoKey else none

theorem objRestSet_eq (k : Key) (hs : stopRest k = none) (t : Rec) (v : Val) : objRestSet t k v = t.createData k v := by
  have : k ≠ .str "__proto__" := by
    intro e
    subst e
    simp [stopRest] at hs
  simp [objRestSet, this, Rec.createData]

/-- `__objRest(v, keys)` does what CopyDataProperties({}, v, keys) does, for a value that is not undefined or
null, unless the source has an own enumerable "__proto__" that is not excluded -/
theorem objRestH_spec (w : World) (hq : Quiet w) (sv : Val) (hn : sv.nullish = false) (excl : List Key) (h : H) :
    RelH (objRestH w sv (excl.map Key.toVal) h)
      (bindR (copyDataProps w true true sv excl Rec.empty h) fun t' h' => ((.ok t'.toVal : Res), h')) := by
  unfold objRestH copyDataProps
  simp only [contains_toVal]
  cases sv with
  | obj o =>
    simp only
    have := world_loops w hq o (fun k => !excl.contains k) stopRest Rec.createData objRestSet objRestSet_eq Rec.empty h
    rw [← bindR_assoc]
    refine RelH.bind ?_ (fun _ _ => Or.inr rfl)
    have e : (fun (k : Key) (tr : Trace) => isOwn w o k tr && !excl.contains k) =
        (fun (k : Key) (tr : Trace) => isOwn w o k tr && (fun k => !excl.contains k) k) := rfl
    rw [e]
    exact this
  | undef => simp [Val.nullish] at hn
  | null => simp [Val.nullish] at hn
  | _ =>
    simp only [Val.nullish, Bool.false_eq_true, if_false, Val.entries, copyEntries_append, bindR_assoc]
    refine RelH.bind (copyEntries_rel w _ _ _ stopRest _ _ (fun _ => rfl) objRestSet_eq _ _ _) (fun t1 h1 => ?_)
    exact RelH.bind (copyEntries_rel w _ _ _ stopRest _ _ (fun _ => rfl) objRestSet_eq _ _ _) (fun _ _ => Or.inr rfl)

end EsbuildModel.Lower3
