import EsbuildModel.Lemmas.JsonSoundTok3
/-
Soundness of the parser (either flavour), preparations: `Next` inverted, the remainder of `elements` /
`members` after an element.
-/
namespace EsbuildModel.Json
open EsbuildModel.Spec.Json

/-- **`Next` inverted**: what was skipped is a separator of the dialect, and the token describes
what follows it -/
theorem next_sound {P : Params} {Rd : Rat → F64} (hP : ParamsOK P Rd) {fl : Flavor} {L1 L' : Lx}
    (h : next fl P L1 = .ok L') (hcl : L1.log.Clean) (hne : L'.log.hasErrors = false) (hw : PosW L1.rest) :
    ∃ (s : List SepItem) (inp : List Cp), chars L1.rest = Sep.render s ++ chars inp ∧
      Sep.ok (dialectOf fl) inp.isEmpty (L1.end_ == 0) s = true ∧ PosW inp ∧ TokFacts fl Rd inp L' ∧
      (L'.tok ≠ .other → L'.log.Clean ∧ L'.nl = ((L1.end_ == 0) || sepNl s) ∧ Suf L'.rest inp ∧
        (L'.tok ≠ .eof → 0 < L'.end_)) := by
  unfold next at h
  split at h
  · rename_i sk rest hs
    have hne1 := noErr_of_le (lexAt_log_le fl P L1 sk rest L' h) hne
    obtain ⟨k1, s, k2, k3, k4⟩ := skipSep_sound fl _ .top L1.rest _ sk rest (Nat.le_refl _) hs hcl hne1
    obtain ⟨p, hp⟩ := (skipSep_suf fl .top L1.rest _ sk rest hs).1
    have hwr : PosW rest := hw.suf ⟨p, hp⟩
    obtain ⟨t1, t2⟩ := lexAt_sound hP h k1 hne hwr
    refine ⟨s, rest, k2, k3, hwr, t1, fun ho => ?_⟩
    obtain ⟨a1, a2, a3, a4⟩ := t2 ho
    exact ⟨by rw [a1]; exact k1, by rw [a2]; exact k4, a3, a4⟩
  · cases h
  · cases h

/-- the state in which `parseExpr` leaves the lexer after a value: the result of `Next` from just behind the value -/
def After (fl : Flavor) (P : Params) (rest : List Cp) (L' : Lx) : Prop :=
  ∃ L1, next fl P L1 = .ok L' ∧ L1.rest = rest ∧ L1.log.Clean ∧ 0 < L1.end_ ∧ PosW rest

/-- the rest of `elements` after an element: the end (with an optional trailing comma) or `,` element … -/
inductive ETail where
  | done (tr : Option (List SepItem))
  | more (s1 : List SepItem) (v : Val) (s2 : List SepItem) (t : ETail)

def ETail.render : ETail → List Char
  | .done tr => trailingRender tr
  | .more s1 v s2 t => ',' :: (Sep.render s1 ++ (v.render ++ (Sep.render s2 ++ t.render)))

def ETail.ok (d : Dialect) : ETail → Bool
  | .done tr => trailingOk d tr
  | .more s1 v s2 t => Sep.ok d false false s1 && v.ok d && Sep.ok d false false s2 && t.ok d

def mkElems (s1 : List SepItem) (v : Val) (s2 : List SepItem) : ETail → Elems
  | .done tr => .last s1 v s2 tr
  | .more s1' v' s2' t => .cons s1 v s2 (mkElems s1' v' s2' t)

theorem mkElems_render (s1 : List SepItem) (v : Val) (s2 : List SepItem) (t : ETail) :
    (mkElems s1 v s2 t).render = Sep.render s1 ++ (v.render ++ (Sep.render s2 ++ t.render)) := by
  induction t generalizing s1 v s2 with
  | done tr => rfl
  | more s1' v' s2' t ih => simp [mkElems, Elems.render, ETail.render, ih]

theorem mkElems_ok (d : Dialect) (s1 : List SepItem) (v : Val) (s2 : List SepItem) (t : ETail) :
    (mkElems s1 v s2 t).ok d = (Sep.ok d false false s1 && v.ok d && Sep.ok d false false s2 && t.ok d) := by
  induction t generalizing s1 v s2 with
  | done tr => rfl
  | more s1' v' s2' t ih => simp [mkElems, Elems.ok, ETail.ok, ih, Bool.and_assoc]

/-- the expressions of the elements in an `ETail` -/
def RepT (Rd : Rat → F64) (objExt : Bool) : ETail → List Ast → Prop
  | .done _, l => l = []
  | .more _ v _ t, l => ∃ a r, l = a :: r ∧ RepV Rd objExt v a ∧ RepT Rd objExt t r

theorem mkElems_rep (Rd : Rat → F64) (objExt : Bool) (s1 : List SepItem) (v : Val) (s2 : List SepItem) (t : ETail)
    (a : Ast) (l : List Ast) (hv : RepV Rd objExt v a) (ht : RepT Rd objExt t l) :
    RepE Rd objExt (mkElems s1 v s2 t) (a :: l) := by
  induction t generalizing s1 v s2 a l with
  | done tr => simp only [RepT] at ht; subst ht; exact ⟨a, rfl, hv⟩
  | more s1' v' s2' t ih =>
    obtain ⟨a', r, rfl, hv', hr⟩ := ht
    exact ⟨a, a' :: r, rfl, hv, ih s1' v' s2' a' r hv' hr⟩

/-- the rest of `members` after a member -/
inductive MTail where
  | done (tr : Option (List SepItem))
  | more (s1 : List SepItem) (k : List SChar) (s2 s3 : List SepItem) (v : Val) (s4 : List SepItem) (t : MTail)

def MTail.render : MTail → List Char
  | .done tr => trailingRender tr
  | .more s1 k s2 s3 v s4 t =>
    ',' :: (Sep.render s1 ++ (strTok k ++ (Sep.render s2 ++ (':' :: (Sep.render s3 ++ (v.render ++ (Sep.render s4 ++ t.render)))))))

def MTail.ok (d : Dialect) : MTail → Bool
  | .done tr => trailingOk d tr
  | .more s1 k s2 s3 v s4 t =>
    Sep.ok d false false s1 && strOk d k && Sep.ok d false false s2 && Sep.ok d false false s3 && v.ok d &&
      Sep.ok d false false s4 && t.ok d

def mkMembers (s1 : List SepItem) (k : List SChar) (s2 s3 : List SepItem) (v : Val) (s4 : List SepItem) : MTail → Members
  | .done tr => .last s1 k s2 s3 v s4 tr
  | .more s1' k' s2' s3' v' s4' t => .cons s1 k s2 s3 v s4 (mkMembers s1' k' s2' s3' v' s4' t)

theorem mkMembers_render (s1 : List SepItem) (k : List SChar) (s2 s3 : List SepItem) (v : Val) (s4 : List SepItem) (t : MTail) :
    (mkMembers s1 k s2 s3 v s4 t).render =
      Sep.render s1 ++ (strTok k ++ (Sep.render s2 ++ (':' :: (Sep.render s3 ++ (v.render ++ (Sep.render s4 ++ t.render)))))) := by
  induction t generalizing s1 k s2 s3 v s4 with
  | done tr => rfl
  | more s1' k' s2' s3' v' s4' t ih => simp [mkMembers, Members.render, MTail.render, ih]

theorem mkMembers_ok (d : Dialect) (s1 : List SepItem) (k : List SChar) (s2 s3 : List SepItem) (v : Val) (s4 : List SepItem)
    (t : MTail) : (mkMembers s1 k s2 s3 v s4 t).ok d =
      (Sep.ok d false false s1 && strOk d k && Sep.ok d false false s2 && Sep.ok d false false s3 && v.ok d &&
        Sep.ok d false false s4 && t.ok d) := by
  induction t generalizing s1 k s2 s3 v s4 with
  | done tr => rfl
  | more s1' k' s2' s3' v' s4' t ih => simp [mkMembers, Members.ok, MTail.ok, ih, Bool.and_assoc]

def RepMT (Rd : Rat → F64) (objExt : Bool) : MTail → List (List Nat × Bool × Ast) → Prop
  | .done _, l => l = []
  | .more _ k _ _ v _ t, l => ∃ a r, l = propOf objExt k a :: r ∧ RepV Rd objExt v a ∧ RepMT Rd objExt t r

theorem mkMembers_rep (Rd : Rat → F64) (objExt : Bool) (s1 : List SepItem) (k : List SChar) (s2 s3 : List SepItem) (v : Val)
    (s4 : List SepItem) (t : MTail) (a : Ast) (l : List (List Nat × Bool × Ast)) (hv : RepV Rd objExt v a)
    (ht : RepMT Rd objExt t l) : RepM Rd objExt (mkMembers s1 k s2 s3 v s4 t) (propOf objExt k a :: l) := by
  induction t generalizing s1 k s2 s3 v s4 a l with
  | done tr => simp only [RepMT] at ht; subst ht; exact ⟨a, rfl, hv⟩
  | more s1' k' s2' s3' v' s4' t ih =>
    obtain ⟨a', r, rfl, hv', hr⟩ := ht
    exact ⟨a, propOf objExt k' a' :: r, rfl, hv, ih s1' k' s2' s3' v' s4' a' r hv' hr⟩

end EsbuildModel.Json
