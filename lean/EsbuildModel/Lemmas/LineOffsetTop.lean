import EsbuildModel.Lemmas.LineOffsetSplit
/-!
Byte-string level corollaries used by `Props/C07LineOffset.lean`.
-/
namespace EsbuildModel.LineOffset
open EsbuildModel.Spec.Unicode EsbuildModel.Spec.TextPosition

/-- the tables of a byte string, with everything known about them -/
theorem tables_lines (bs : List Nat) :
    Lines 0 (decode bs) (tablesOf bs) ∧ Sorted (tablesOf bs) := by
  obtain ⟨ts, hts⟩ := lines_exist (decode bs) 0
  have e := tablesOf_lines bs ts hts
  rw [e]
  exact ⟨hts, hts.sorted (decode_valid bs)⟩

theorem lookup_nat (bs : List Nat) (n : Nat) :
    lookup (tablesOf bs) (n : Int) = (lookupN (tablesOf bs) n).map (fun p => (p.1, (p.2 : Int))) :=
  lookup_eq_lookupN _ (tables_lines bs).2 n

theorem lookupN_boundary (bs : List Nat) (k : Nat) (hk : k ≤ (decode bs).length) :
    lookupN (tablesOf bs) (bytes ((decode bs).take k)) = some ((pos (decode bs) k).line, (pos (decode bs) k).col) := by
  have := lookup_boundary (tables_lines bs).1 (decode_valid bs) k hk
  rwa [Nat.zero_add] at this

theorem lookupN_interior (bs : List Nat) (k : Nat) (hk : k < (decode bs).length) (d : Nat) (hd : 0 < d)
    (hdw : d < (decode bs)[k].width) :
    lookupN (tablesOf bs) (bytes ((decode bs).take k) + d) =
      if (decode bs)[k].cp = 0x2028 ∨ (decode bs)[k].cp = 0x2029 then none
      else some ((pos (decode bs) (k + 1)).line, (pos (decode bs) (k + 1)).col) := by
  have := lookup_interior (tables_lines bs).1 (decode_valid bs) k hk d hd hdw
  rwa [Nat.zero_add] at this

theorem position_boundary (bs : List Nat) (k : Nat) (hk : k ≤ (decode bs).length) :
    position bs (bytes ((decode bs).take k)) = some (pos (decode bs) k) := by
  unfold position
  simp only
  rw [indexOfOffset_boundary _ (decode_valid bs) k hk]
  rfl

theorem position_some (bs : List Nat) (i : Nat) (p : Pos) (h : position bs i = some p) :
    ∃ k, k ≤ (decode bs).length ∧ bytes ((decode bs).take k) = i ∧ p = pos (decode bs) k := by
  unfold position at h
  simp only at h
  cases hi : indexOfOffset (decode bs) i with
  | none => rw [hi] at h; simp at h
  | some k =>
    rw [hi] at h
    obtain ⟨hk, hb⟩ := indexOfOffset_some _ _ _ hi
    refine ⟨k, hk, hb, ?_⟩
    simp only [Option.map_some, Option.some.injEq] at h
    exact h.symm

theorem lineEnds_eq (chs : List Ch) : lineEnds chs = (pos chs chs.length).line := by
  unfold pos posOfIndex
  simp only
  have hlen : (marks (chs.map (·.cp))).length = chs.length := by
    induction chs with
    | nil => rfl
    | cons c r ih => rw [marks_map_cons]; simp [ih]
  rw [List.take_of_length_le (by omega)]
  induction chs with
  | nil => rfl
  | cons c r ih =>
    rw [marks_map_cons, lineEnds, List.countP_cons]
    have hr : (marks (r.map (·.cp))).length = r.length := by
      rw [marks_map_cons] at hlen; simpa using hlen
    rw [ih hr]
    simp only
    cases ends c r <;> simp <;> omega

/-- a successful lookup inside the text yields the specified position of the first boundary at or behind the
offset -/
theorem lookupN_some_index (bs : List Nat) (i : Nat) (hi : i ≤ bs.length) (a : Nat × Nat)
    (h : lookupN (tablesOf bs) i = some a) :
    ∃ m, m ≤ (decode bs).length ∧ a = ((pos (decode bs) m).line, (pos (decode bs) m).col) ∧
      i ≤ bytes ((decode bs).take m) ∧ (m = 0 ∨ bytes ((decode bs).take (m - 1)) < i) := by
  have hv := decode_valid bs
  rcases offset_cases (decode bs) hv i (by rw [decode_bytes]; exact hi) with ⟨k, hk, e⟩ | ⟨k, hk, d, hd, hdw, e⟩
  · subst e
    rw [lookupN_boundary bs k hk] at h
    refine ⟨k, hk, (Option.some.inj h).symm, Nat.le_refl _, ?_⟩
    by_cases h0 : k = 0
    · exact Or.inl h0
    · exact Or.inr (bytes_take_lt _ hv (k - 1) k (by omega) hk)
  · subst e
    rw [lookupN_interior bs k hk d hd hdw] at h
    split at h
    · simp at h
    · refine ⟨k + 1, hk, (Option.some.inj h).symm, ?_, Or.inr ?_⟩
      · rw [bytes_take_succ _ k hk]; omega
      · simp only [Nat.add_sub_cancel]; omega

end EsbuildModel.LineOffset
