import EsbuildModel.Lemmas.JsxTextLines
/-!
# JSX text: the token scanners, the white-space classes, the name table
-/
set_option linter.unusedSimpArgs false
namespace EsbuildModel.JsxText
open EsbuildModel.Spec.JsxText
open EsbuildModel.Spec.Unicode (utf16)

/-! ### the white-space class and the name table of the code -/

/-- `js_ast.IsWhitespace` is exactly ECMA-262 WhiteSpace (TAB, VT, FF, ZWNBSP, category Zs) -/
theorem isWhitespace_eq_ecma (c : Nat) : isWhitespace c = isEcmaWhiteSpace c := by
  have h : isWhitespace c = true ↔ isEcmaWhiteSpace c = true := by
    simp only [isWhitespace, isEcmaWhiteSpace, isSpaceSeparator, List.contains_eq_mem, List.mem_cons,
      List.mem_nil_iff, or_false, decide_eq_true_eq, Bool.or_eq_true, beq_iff_eq, Bool.and_eq_true]
    omega
  cases h1 : isWhitespace c <;> cases h2 : isEcmaWhiteSpace c <;> simp_all

theorem isWhitespace_funext : isWhitespace = isEcmaWhiteSpace := funext isWhitespace_eq_ecma

theorem jsxEntityTable_all : jsxEntityTable.all (fun p => decide (p.2 ≤ 0x10FFFF)) = true := by
  set_option maxRecDepth 20000 in decide

theorem jsxEntityTable_ok : ∀ p ∈ jsxEntityTable, p.2 ≤ 0x10FFFF := by
  intro p hp
  have := List.all_eq_true.1 jsxEntityTable_all p hp
  simpa using this

theorem jsxEntity_ok : NamesOK jsxEntity := by
  intro n v h
  unfold jsxEntity at h
  simp only [Option.map_eq_some_iff] at h
  obtain ⟨p, hp, rfl⟩ := h
  exact jsxEntityTable_ok p (List.mem_of_find?_eq_some hp)

/-! ### the result depends on the white-space class only through the characters of the text -/

theorem trimEnd_congr (ws1 ws2 : Nat → Bool) : ∀ (l : Text), (∀ c ∈ l, ws1 c = ws2 c) →
    trimEnd ws1 l = trimEnd ws2 l := by
  intro l
  induction l with
  | nil => intro _; rfl
  | cons c l ih =>
    intro h
    have hc := h c (by simp)
    have hl := ih (fun x hx => h x (List.mem_cons_of_mem _ hx))
    unfold trimEnd
    rw [hl, hc]

theorem trimStart_congr (ws1 ws2 : Nat → Bool) : ∀ (l : Text), (∀ c ∈ l, ws1 c = ws2 c) →
    trimStart ws1 l = trimStart ws2 l := by
  intro l
  induction l with
  | nil => intro _; rfl
  | cons c l ih =>
    intro h
    have hc := h c (by simp)
    have hl := ih (fun x hx => h x (List.mem_cons_of_mem _ hx))
    simp only [trimStart, List.dropWhile_cons, hc] at hl ⊢
    rw [hl]

theorem mem_trimStart (ws : Nat → Bool) (l : Text) (c : Nat) (h : c ∈ trimStart ws l) : c ∈ l :=
  (List.dropWhile_sublist ws).subset h

theorem trimFollowing_congr (ws1 ws2 : Nat → Bool) : ∀ (L : List Text),
    (∀ l ∈ L, ∀ c ∈ l, ws1 c = ws2 c) → trimFollowing ws1 L = trimFollowing ws2 L := by
  intro L
  induction L with
  | nil => intro _; rfl
  | cons l L ih =>
    intro h
    have hl : ∀ c ∈ l, ws1 c = ws2 c := h l (by simp)
    have hL := ih (fun x hx => h x (List.mem_cons_of_mem _ hx))
    cases L with
    | nil => simp [trimFollowing, trimStart_congr ws1 ws2 l hl]
    | cons m M =>
      have h1 := trimStart_congr ws1 ws2 l hl
      have h2 := trimEnd_congr ws1 ws2 (trimStart ws1 l) (fun c hc => hl c (mem_trimStart ws1 l c hc))
      simp only [trimFollowing] at hL ⊢
      rw [h2, h1, hL]

theorem mem_splitLines : ∀ (t : Text) (l : Text), l ∈ splitLines t → ∀ c ∈ l, c ∈ t := by
  intro t
  induction t with
  | nil => intro l h c hc; simp [splitLines] at h; subst h; simp at hc
  | cons x xs ih =>
    intro l h c hc
    unfold splitLines at h
    split at h
    · simp at h
      rcases h with rfl | h
      · simp at hc
      · exact List.mem_cons_of_mem _ (ih l h c hc)
    · split at h
      · rename_i l0 ls heq
        simp at h
        rcases h with rfl | h
        · simp at hc
          rcases hc with rfl | hc
          · simp
          · exact List.mem_cons_of_mem _ (ih l0 (by rw [heq]; simp) c hc)
        · exact List.mem_cons_of_mem _ (ih l (by rw [heq]; simp [h]) c hc)
      · simp at h
        subst h
        simp at hc
        subst hc
        simp

theorem jsxTextValue_congr (ws1 ws2 : Nat → Bool) (names : Text → Option Nat) (text : Text)
    (h : ∀ c ∈ text, ws1 c = ws2 c) : jsxTextValue ws1 names text = jsxTextValue ws2 names text := by
  unfold jsxTextValue jsxTextValueWith
  have hL : ∀ l ∈ splitLines text, ∀ c ∈ l, ws1 c = ws2 c :=
    fun l hl c hc => h c (mem_splitLines text l hl c hc)
  have : trimLines ws1 (splitLines text) = trimLines ws2 (splitLines text) := by
    generalize splitLines text = L at hL
    cases L with
    | nil => rfl
    | cons l L =>
      cases L with
      | nil => rfl
      | cons m M =>
        simp only [trimLines]
        rw [trimEnd_congr ws1 ws2 l (hL l (by simp)),
          trimFollowing_congr ws1 ws2 (m :: M) (fun x hx => hL x (List.mem_cons_of_mem _ hx))]
  rw [this]

/-! ### plain text: nothing to fix -/

theorem flatMap_utf16_bmp : ∀ (t : Text), (∀ c ∈ t, c ≤ 0xFFFF) → t.flatMap utf16 = t := by
  intro t
  induction t with
  | nil => intro _; rfl
  | cons c t ih =>
    intro h
    have hc : c ≤ 0xFFFF := h c (by simp)
    simp [utf16, hc, ih (fun x hx => h x (List.mem_cons_of_mem _ hx))]

/-- a one-line text without `&` denotes itself, whatever the white-space class (no trimming on a single line) -/
theorem jsxTextValue_single_line (ws : Nat → Bool) (names : Text → Option Nat) (text : Text)
    (hnl : ∀ c ∈ text, isLineTerminator c = false) :
    jsxTextValue ws names text = decodeEntities names text := by
  unfold jsxTextValue jsxTextValueWith
  rw [splitLines_no_nl text hnl]
  by_cases he : text = []
  · subst he; rfl
  · have hemp : text.isEmpty = false := by cases text <;> simp_all
    simp [trimLines, hemp, joinSpace]

theorem jsxTextValue_plain (ws : Nat → Bool) (names : Text → Option Nat) (text : Text)
    (h : ∀ c ∈ text, c ≠ 38 ∧ isLineTerminator c = false ∧ c ≤ 0xFFFF) :
    jsxTextValue ws names text = text := by
  rw [jsxTextValue_single_line ws names text (fun c hc => (h c hc).2.1),
    decodeEntities_no_amp names text (fun hm => (h 38 hm).1 rfl),
    flatMap_utf16_bmp text (fun c hc => (h c hc).2.2)]

/-! ### `NextJSXElementChild`: where the text token ends, and the fast path -/

/-- `{` and `<` end a text token -/
def isTextEnd (c : Nat) : Bool := c == 123 || c == 60

theorem scanChildText_fst : ∀ (src : Text), (scanChildText src).1 = src.takeWhile (fun c => !isTextEnd c) := by
  intro src
  induction src with
  | nil => rfl
  | cons c rest ih =>
    unfold scanChildText
    by_cases h : c = 123 ∨ c = 60
    · have : isTextEnd c = true := by
        rcases h with h | h <;> simp [isTextEnd, h]
      simp [h, List.takeWhile_cons, this]
    · have : isTextEnd c = false := by
        simp only [not_or] at h
        simp [isTextEnd, h.1, h.2]
      simp [h, List.takeWhile_cons, this, ih]

theorem scanChildText_snd_false : ∀ (src : Text), (scanChildText src).2 = false →
    ∀ c ∈ (scanChildText src).1, c ≠ 38 ∧ isNewline c = false ∧ c < 0x80 := by
  intro src
  induction src with
  | nil => intro _ c hc; simp [scanChildText] at hc
  | cons x rest ih =>
    intro h c hc
    unfold scanChildText at h hc
    by_cases hx : x = 123 ∨ x = 60
    · simp [hx] at hc
    · simp only [hx, if_false, Bool.or_eq_false_iff, beq_eq_false_iff_ne, decide_eq_false_iff_not] at h hc
      simp only [List.mem_cons] at hc
      rcases hc with rfl | hc
      · exact ⟨h.1.1.1, h.1.1.2, by omega⟩
      · exact ih h.2 c hc

/-- the slow path is taken whenever there is something to fix: the fast path copies a text that denotes itself -/
theorem fast_path_sound (ws : Nat → Bool) (names : Text → Option Nat) (src : Text)
    (h : (scanChildText src).2 = false) :
    jsxTextValue ws names (scanChildText src).1 = (scanChildText src).1 := by
  apply jsxTextValue_plain
  intro c hc
  obtain ⟨h1, h2, h3⟩ := scanChildText_snd_false src h c hc
  exact ⟨h1, by rw [← isNewline_eq]; exact h2, by omega⟩

/-! ### JSX attribute strings -/

/-- the scanner returns exactly the characters up to the first occurrence of the quote -/
theorem scanAttr_spec (quote : Nat) (hq1 : quote ≠ 38) (hq2 : quote ≠ 92) : ∀ (text rest : Text), quote ∉ text →
    ∃ needs, scanAttr quote (text ++ quote :: rest) = some (text, needs, rest) ∧
      (needs = false → ∀ c ∈ text, c ≠ 38 ∧ c < 0x80) := by
  intro text
  induction text with
  | nil =>
    intro rest _
    refine ⟨false, ?_, by simp⟩
    simp [scanAttr, hq1, hq2]
  | cons c t ih =>
    intro rest hnot
    simp only [List.mem_cons, not_or] at hnot
    obtain ⟨needs, hs, hn⟩ := ih rest hnot.2
    have hcq : c ≠ quote := fun e => hnot.1 e.symm
    simp only [List.cons_append]
    unfold scanAttr
    by_cases h38 : c = 38
    · refine ⟨true, ?_, by simp⟩
      simp [h38, hs]
    · by_cases h92 : c = 92
      · refine ⟨needs, ?_, ?_⟩
        · simp [h92, hs]
        · intro e x hx
          simp only [List.mem_cons] at hx
          rcases hx with rfl | hx
          · exact ⟨h38, by omega⟩
          · exact hn e x hx
      · refine ⟨decide (c ≥ 0x80) || needs, ?_, ?_⟩
        · simp [h38, h92, hcq, hs]
        · intro e x hx
          simp only [Bool.or_eq_false_iff, decide_eq_false_iff_not] at e
          simp only [List.mem_cons] at hx
          rcases hx with rfl | hx
          · exact ⟨h38, by omega⟩
          · exact hn e.2 x hx

theorem scanAttr_eof (quote : Nat) : ∀ (text : Text), quote ∉ text → scanAttr quote text = none := by
  intro text
  induction text with
  | nil => intro _; rfl
  | cons c t ih =>
    intro hnot
    simp only [List.mem_cons, not_or] at hnot
    have hcq : c ≠ quote := fun e => hnot.1 e.symm
    unfold scanAttr
    simp [ih hnot.2, hcq]

/-! ### white space only -/

theorem splitLines_no_lt : ∀ (t : Text) (l : Text), l ∈ splitLines t → ∀ c ∈ l, isLineTerminator c = false := by
  intro t
  induction t with
  | nil => intro l h c hc; simp [splitLines] at h; subst h; simp at hc
  | cons x xs ih =>
    intro l h c hc
    unfold splitLines at h
    split at h
    · simp at h
      rcases h with rfl | h
      · simp at hc
      · exact ih l h c hc
    · rename_i hx
      split at h
      · rename_i l0 ls heq
        simp at h
        rcases h with rfl | h
        · simp at hc
          rcases hc with rfl | hc
          · simpa using hx
          · exact ih l0 (by rw [heq]; simp) c hc
        · exact ih l (by rw [heq]; simp [h]) c hc
      · simp at h
        subst h
        simp at hc
        subst hc
        simpa using hx

theorem trimFollowing_all_ws (ws : Nat → Bool) : ∀ (L : List Text), (∀ l ∈ L, l.all ws = true) →
    ∀ x ∈ trimFollowing ws L, x = [] := by
  intro L
  induction L with
  | nil => intro _ x hx; simp [trimFollowing] at hx
  | cons l L ih =>
    intro h x hx
    have hl := h l (by simp)
    have hL := ih (fun y hy => h y (List.mem_cons_of_mem _ hy))
    cases L with
    | nil =>
      simp [trimFollowing] at hx
      rw [hx, trimStart_all ws l hl]
    | cons m M =>
      simp only [trimFollowing, List.mem_cons] at hx hL
      rcases hx with rfl | hx
      · rw [trimStart_all ws l hl]; rfl
      · exact hL x hx

/-- a text of white space and line terminators with at least one line terminator denotes nothing -/
theorem jsxTextValueWith_ws_newline (ws : Nat → Bool) (dec : Text → List Nat) (text : Text)
    (hall : ∀ c ∈ text, ws c = true ∨ isLineTerminator c = true)
    (hnl : ∃ c ∈ text, isLineTerminator c = true) : jsxTextValueWith ws dec text = [] := by
  have hlines : ∀ l ∈ splitLines text, l.all ws = true := by
    intro l hl
    rw [List.all_eq_true]
    intro c hc
    rcases hall c (mem_splitLines text l hl c hc) with h | h
    · exact h
    · rw [splitLines_no_lt text l hl c hc] at h; simp at h
  obtain ⟨line, hline, hcase⟩ := break_line text
  rcases hcase with rfl | ⟨nl, rest', hnl', rfl⟩
  · obtain ⟨c, hc, hcl⟩ := hnl
    rw [hline c hc] at hcl; simp at hcl
  · unfold jsxTextValueWith
    rw [splitLines_append_nl line nl rest' hline hnl'] at hlines ⊢
    rw [trimLines_cons _ _ _ (splitLines_ne_nil rest')]
    have h1 : trimEnd ws line = [] := (trimEnd_eq_nil_iff ws line).2 (hlines line (by simp))
    have h2 := trimFollowing_all_ws ws (splitLines rest') (fun l hl => hlines l (List.mem_cons_of_mem _ hl))
    have : (trimEnd ws line :: trimFollowing ws (splitLines rest')).filter (fun l => !l.isEmpty) = [] := by
      rw [List.filter_eq_nil_iff]
      intro x hx
      simp only [List.mem_cons] at hx
      rcases hx with rfl | hx
      · simp [h1]
      · simp [h2 x hx]
    rw [this]
    rfl

theorem jsxTextValueWith_single_line (ws : Nat → Bool) (dec : Text → List Nat) (text : Text)
    (hnl : ∀ c ∈ text, isLineTerminator c = false) (h0 : dec [] = []) :
    jsxTextValueWith ws dec text = dec text := by
  unfold jsxTextValueWith
  rw [splitLines_no_nl text hnl]
  by_cases he : text = []
  · subst he; simp [trimLines, joinSpace, h0]
  · have hemp : text.isEmpty = false := by cases text <;> simp_all
    simp [trimLines, hemp, joinSpace]

/-! ### other small facts used by the property theorems -/

theorem ecma_ws_facts (c : Nat) (h : isEcmaWhiteSpace c = true) :
    c ≠ 38 ∧ isLineTerminator c = false ∧ c ≤ 0xFFFF := by
  have hlt : isLineTerminator c = false ∨ isLineTerminator c = true := by cases isLineTerminator c <;> simp
  simp only [isEcmaWhiteSpace, isSpaceSeparator, isLineTerminator, Bool.or_eq_true, beq_iff_eq, Bool.and_eq_true,
    decide_eq_true_eq, Bool.or_eq_false_iff, beq_eq_false_iff_ne] at h hlt ⊢
  omega

end EsbuildModel.JsxText
