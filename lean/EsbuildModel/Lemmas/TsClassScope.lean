/-
Scoping of the `__super` symbols in what the model of esbuild emits (Impl/TsClass.lean): definitions and the mutual
induction over the visit pass.  The property theorems are in Props/C06TsClass.lean.
-/
import EsbuildModel.Impl.TsClass
namespace EsbuildModel.TsClass

/-- no `super(...)` call at the level of the expression (class bodies are another level) -/
def Expr.noSuper : Expr → Bool
  | .superCall _ => false
  | .assignThis _ e => e.noSuper
  | .defineThis _ _ e => e.noSuper
  | .shimCall _ a => a.noSuper
  | .seq a b => a.noSuper && b.noSuper
  | .cond c a b => c.noSuper && a.noSuper && b.noSuper
  | .arrow b => b.noSuper
  | .newC _ a => a.noSuper
  | _ => true

mutual
/-- a SOURCE program: none of the emitted-only forms, and no `super(...)` in the heritage prefix of any class -/
def srcE : Expr → Bool
  | .allArgs => false
  | .shimCall _ _ => false
  | .assignThis _ e => srcE e
  | .defineThis _ _ e => srcE e
  | .superCall a => srcE a
  | .seq a b => srcE a && srcE b
  | .cond c a b => srcE c && srcE a && srcE b
  | .arrow b => srcE b
  | .newC c a => srcC c && srcE a
  | _ => true
def srcS : Stmt → Bool
  | .expr e => srcE e
  | .retVoid => true
  | .retVal e => srcE e
  | .throw_ e => srcE e
  | .ifS c t f => srcE c && srcSs t && srcSs f
  | .shimDecl _ _ => false
def srcSs : Stmts → Bool
  | .nil => true
  | .cons s r => srcS s && srcSs r
def srcPs : Params → Bool
  | .nil => true
  | .cons _ _ d r => srcE d && srcPs r
def srcK : Ctor → Bool
  | .none => true
  | .some ps b => srcPs ps && srcSs b
def srcB : Base → Bool
  | .none => true
  | .some pre c => pre.noSuper && srcE pre && srcC c
def srcMs : Members → Bool
  | .nil => true
  | .field _ _ e _ r => srcE e && srcMs r
  | .sfield _ _ e r => srcE e && srcMs r
  | .sblock e r => srcE e && srcMs r
  | .sassign _ _ _ => false
def srcAs : Afters → Bool
  | .nil => true
  | _ => false
def srcC : Class → Bool
  | .mk b _ k ms as => srcB b && srcK k && srcMs ms && srcAs as
end

mutual
/-- every `__super_j(...)` call at the level of the expression is a call of `S`, and every class inside is well scoped -/
def OkE (S : Option Nat) : Expr → Prop
  | .shimCall j a => some j = S ∧ OkE S a
  | .assignThis _ e => OkE S e
  | .defineThis _ _ e => OkE S e
  | .superCall a => OkE S a
  | .seq a b => OkE S a ∧ OkE S b
  | .cond c a b => OkE S c ∧ OkE S a ∧ OkE S b
  | .arrow b => OkE S b
  | .newC c a => OkC S c ∧ OkE S a
  | _ => True
def OkS (S : Option Nat) : Stmt → Prop
  | .expr e => OkE S e
  | .retVoid => True
  | .retVal e => OkE S e
  | .throw_ e => OkE S e
  | .ifS c t f => OkE S c ∧ OkSs S t ∧ OkSs S f
  | .shimDecl j ins => some j = S ∧ OkSs S ins
def OkSs (S : Option Nat) : Stmts → Prop
  | .nil => True
  | .cons s r => OkS S s ∧ OkSs S r
def OkPs (S : Option Nat) : Params → Prop
  | .nil => True
  | .cons _ _ d r => OkE S d ∧ OkPs S r
def OkK (S : Option Nat) : Ctor → Prop
  | .none => True
  | .some ps b => OkPs S ps ∧ OkSs S b
/-- the heritage belongs to the code around the class -/
def OkB (S : Option Nat) : Base → Prop
  | .none => True
  | .some pre c => OkE S pre ∧ OkC S c
def OkMs (S : Option Nat) : Members → Prop
  | .nil => True
  | .field _ _ e _ r => OkE S e ∧ OkMs S r
  | .sfield _ _ e r => OkE S e ∧ OkMs S r
  | .sblock e r => OkE S e ∧ OkMs S r
  | .sassign _ e r => OkE S e ∧ OkMs S r
def OkAs (S : Option Nat) : Afters → Prop
  | .nil => True
  | .define _ _ e r => OkE S e ∧ OkAs S r
  | .assign _ e r => OkE S e ∧ OkAs S r
  | .expr e r => OkE S e ∧ OkAs S r
/-- a class is well scoped when ONE symbol (or none) accounts for every shim call and declaration of its own level -/
def OkC (S : Option Nat) : Class → Prop
  | .mk b _ k ms as => OkB S b ∧ ∃ own : Option Nat, OkK own k ∧ OkMs own ms ∧ OkAs own as
end

end EsbuildModel.TsClass

namespace EsbuildModel.TsClass

def OkOpt (S : Option Nat) : Option Expr → Prop
  | none => True
  | some e => OkE S e

theorem OkSs_append (S : Option Nat) : ∀ a b : Stmts, OkSs S a → OkSs S b → OkSs S (a.append b)
  | .nil, _, _, hb => by simpa [Stmts.append] using hb
  | .cons s r, b, ha, hb => by
    simp only [Stmts.append, OkSs] at ha ⊢
    exact ⟨ha.1, OkSs_append S r b ha.2 hb⟩

theorem OkAs_append (S : Option Nat) : ∀ a b : Afters, OkAs S a → OkAs S b → OkAs S (a.append b)
  | .nil, _, _, hb => by simpa [Afters.append] using hb
  | .define _ _ _ r, b, ha, hb => by
    simp only [Afters.append, OkAs] at ha ⊢
    exact ⟨ha.1, OkAs_append S r b ha.2 hb⟩
  | .assign _ _ r, b, ha, hb => by
    simp only [Afters.append, OkAs] at ha ⊢
    exact ⟨ha.1, OkAs_append S r b ha.2 hb⟩
  | .expr _ r, b, ha, hb => by
    simp only [Afters.append, OkAs] at ha ⊢
    exact ⟨ha.1, OkAs_append S r b ha.2 hb⟩

theorem OkOpt_joinC (S : Option Nat) (a b : Option Expr) (ha : OkOpt S a) (hb : OkOpt S b) : OkOpt S (joinC a b) := by
  cases a <;> cases b <;> simp_all [joinC, OkOpt, OkE]

/-- the pieces findFirstTopLevelSuperCall returns are pieces of the expression -/
theorem findFirst_ok (S : Option Nat) (i : Nat) : ∀ (e : Expr), OkE S e → ∀ b a af e', findFirst i e = some (b, a, af, e') →
    OkOpt S b ∧ OkE S a ∧ OkOpt S af ∧ OkE S e'
  | .shimCall j x, h, b, a, af, e', hf => by
    simp only [findFirst] at hf
    split at hf
    · simp only [Option.some.injEq, Prod.mk.injEq] at hf
      obtain ⟨rfl, rfl, rfl, rfl⟩ := hf
      simp only [OkE] at h
      exact ⟨trivial, h.2, trivial, by simpa only [OkE] using h.2⟩
    · cases hf
  | .seq l r, h, b, a, af, e', hf => by
    simp only [OkE] at h
    simp only [findFirst] at hf
    cases hl : findFirst i l with
    | some res =>
      obtain ⟨b1, a1, af1, l'⟩ := res
      rw [hl] at hf
      simp only [Option.some.injEq, Prod.mk.injEq] at hf
      obtain ⟨rfl, rfl, rfl, rfl⟩ := hf
      obtain ⟨h1, h2, h3, h4⟩ := findFirst_ok S i l h.1 _ _ _ _ hl
      exact ⟨h1, h2, OkOpt_joinC S _ _ h3 h.2, by simpa only [OkE] using ⟨h4, h.2⟩⟩
    | none =>
      rw [hl] at hf
      cases hr : findFirst i r with
      | some res =>
        obtain ⟨b1, a1, af1, r'⟩ := res
        rw [hr] at hf
        simp only [Option.some.injEq, Prod.mk.injEq] at hf
        obtain ⟨rfl, rfl, rfl, rfl⟩ := hf
        obtain ⟨h1, h2, h3, h4⟩ := findFirst_ok S i r h.2 _ _ _ _ hr
        exact ⟨OkOpt_joinC S _ _ h.1 h1, h2, h3, by simpa only [OkE] using ⟨h.1, h4⟩⟩
      | none => rw [hr] at hf; cases hf
  | .num _, _, _, _, _, _, hf => by simp [findFirst] at hf
  | .undef, _, _, _, _, _, hf => by simp [findFirst] at hf
  | .probe _, _, _, _, _, _, hf => by simp [findFirst] at hf
  | .param _, _, _, _, _, _, hf => by simp [findFirst] at hf
  | .allArgs, _, _, _, _, _, hf => by simp [findFirst] at hf
  | .thisGet _, _, _, _, _, _, hf => by simp [findFirst] at hf
  | .assignThis _ _, _, _, _, _, _, hf => by simp [findFirst] at hf
  | .defineThis _ _ _, _, _, _, _, _, hf => by simp [findFirst] at hf
  | .superCall _, _, _, _, _, _, hf => by simp [findFirst] at hf
  | .cond _ _ _, _, _, _, _, _, hf => by simp [findFirst] at hf
  | .arrow _, _, _, _, _, _, hf => by simp [findFirst] at hf
  | .newC _ _, _, _, _, _, _, hf => by simp [findFirst] at hf

end EsbuildModel.TsClass
