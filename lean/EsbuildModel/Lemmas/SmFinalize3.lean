import EsbuildModel.Lemmas.SmFinalize2
/-!
# Helper lemmas for `Props/C07Join.lean` — part 13: which column shift `Finalize` applies, said without the loop

For shifts sorted by their `before` position and segments sorted by generated position, the loop's bookkeeping
(`finEvs`) moves the segment at `(line, col)` by the delta of the LAST shift that lies strictly before `(line, col)`,
provided that shift is on the same line (`deltaAt`).
-/
namespace EsbuildModel.SmJoin
open Spec.SourceMapV3 (Ev Orig Seg segsOf)

/-- `a` strictly before `b` -/
def Offset.lt (a b : Offset) : Prop := a.lines < b.lines ∨ (a.lines = b.lines ∧ a.columns < b.columns)

theorem comesBefore_iff (a b : Offset) : a.comesBefore b = true ↔ Offset.lt a b := by
  simp [Offset.comesBefore, Offset.lt]

theorem comesBefore_false_iff (a b : Offset) : a.comesBefore b = false ↔ ¬ Offset.lt a b := by
  rw [← comesBefore_iff]; simp

/-- shifts in the order of their `before` positions (equal positions allowed) -/
def ShiftsSorted (T : List SMShift) : Prop := T.Pairwise (fun a b => ¬ Offset.lt b.before a.before)

/-- the column shift for a segment at `(line, col)`: that of the last shift strictly before it, if on its line -/
def deltaAt (T : List SMShift) (line col : Int) : Int :=
  match (T.filter (fun s => s.before.comesBefore ⟨line, col⟩)).getLast? with
  | some k => if k.after.lines = line then k.after.columns - k.before.columns else 0
  | none => 0

def shiftCols (f : Int → Int → Int) (line : Int) : List Ev → List Ev
  | [] => []
  | .nl :: es => .nl :: shiftCols f (line + 1) es
  | .seg c o :: es => .seg (c + f line c) o :: shiftCols f line es

/-- contribution of the shift in force (`none`: nothing crossed yet) on line `L` -/
def contrib (k : Option SMShift) (L : Int) : Int :=
  match k with
  | some k => if k.after.lines = L then k.after.columns - k.before.columns else 0
  | none => 0

/-- what `popShifts` does to `a :: R`: it moves over the longest prefix `Q` of `R` of shifts before `g` -/
theorem popShifts_spec (g : Offset) (a : SMShift) (R : List SMShift) (b : Bool) :
    ∃ Q R', R = Q ++ R' ∧ (∀ q ∈ Q, Offset.lt q.before g) ∧
      (∀ h, R'.head? = some h → ¬ Offset.lt h.before g) ∧
      popShifts g (a :: R) b = ((a :: Q).getLast (by simp) :: R', b || !Q.isEmpty) := by
  induction R generalizing a b with
  | nil => exact ⟨[], [], rfl, by simp, by simp, by simp [popShifts]⟩
  | cons s1 rest ih =>
    by_cases hc : s1.before.comesBefore g = true
    · obtain ⟨Q, R', h1, h2, h3, h4⟩ := ih s1 true
      refine ⟨s1 :: Q, R', by simp [h1], ?_, h3, ?_⟩
      · intro q hq
        simp only [List.mem_cons] at hq
        rcases hq with rfl | hq
        · exact (comesBefore_iff _ _).1 hc
        · exact h2 q hq
      · unfold popShifts
        simp only [hc, ↓reduceIte, h4]
        simp [List.getLast_cons]
    · refine ⟨[], s1 :: rest, rfl, by simp, ?_, ?_⟩
      · intro h hh
        simp only [List.head?_cons, Option.some.injEq] at hh
        subst hh
        rw [← comesBefore_iff]; exact hc
      · unfold popShifts
        simp [hc]

theorem Offset.lt_of_le_of_lt {h r g : Offset} (h1 : ¬ Offset.lt r h) (h2 : Offset.lt r g) : Offset.lt h g := by
  unfold Offset.lt at *; omega

theorem getLast?_append_ne {α : Type} (P Q : List α) (hQ : Q ≠ []) : (P ++ Q).getLast? = Q.getLast? := by
  rw [List.getLast?_append]
  cases hq : Q.getLast? with
  | none => simp [List.getLast?_eq_none_iff] at hq; exact absurd hq hQ
  | some k => rfl

/-- the filter of `deltaAt` keeps exactly `P ++ Q` -/
theorem filter_split (g : Offset) (P Q R' : List SMShift)
    (hP : ∀ p ∈ P, Offset.lt p.before g) (hQ : ∀ q ∈ Q, Offset.lt q.before g)
    (hR : ∀ r ∈ R', ¬ Offset.lt r.before g) :
    ((P ++ (Q ++ R')).filter (fun s => s.before.comesBefore g)) = P ++ Q := by
  rw [List.filter_append, List.filter_append]
  have h1 : P.filter (fun s => s.before.comesBefore g) = P :=
    List.filter_eq_self.2 (fun p hp => (comesBefore_iff _ _).2 (hP p hp))
  have h2 : Q.filter (fun s => s.before.comesBefore g) = Q :=
    List.filter_eq_self.2 (fun q hq => (comesBefore_iff _ _).2 (hQ q hq))
  have h3 : R'.filter (fun s => s.before.comesBefore g) = [] :=
    List.filter_eq_nil_iff.2 (fun r hr => by rw [comesBefore_iff]; exact hR r hr)
  rw [h1, h2, h3]; simp

theorem finEvs_decl_gen (evs : List Ev) (P R : List SMShift) (a : SMShift) (L lo prevΔ : Int)
    (hsorted : ShiftsSorted (P ++ R)) (hlines : ∀ s ∈ P ++ R, s.before.lines = s.after.lines)
    (hP : ∀ p ∈ P, Offset.lt p.before ⟨L, lo⟩)
    (ha : ∀ k, P.getLast? = some k → a = k)
    (hΔ : prevΔ = contrib P.getLast? L)
    (hmono : Mono lo evs) :
    finEvs L prevΔ (a :: R) evs = shiftCols (deltaAt (P ++ R)) L evs := by
  induction evs generalizing P R a L lo prevΔ with
  | nil => rfl
  | cons e es ih =>
    cases e with
    | nl =>
      simp only [finEvs, shiftCols]
      congr 1
      apply ih P R a (L + 1) 0 0 hsorted hlines
      · intro p hp
        have := hP p hp
        unfold Offset.lt at *; simp only at *; omega
      · exact ha
      · unfold contrib
        cases hk : P.getLast? with
        | none => rfl
        | some k =>
          have hkP : k ∈ P := List.mem_of_getLast? hk
          have h1 := hP k hkP
          have h2 := hlines k (by simp [hkP])
          have : ¬ k.after.lines = L + 1 := by
            unfold Offset.lt at h1; simp only at h1; omega
          simp [this]
      · exact hmono
    | seg c o =>
      obtain ⟨hlo, hm⟩ := hmono
      obtain ⟨Q, R', h1, h2, h3, h4⟩ := popShifts_spec ⟨L, c⟩ a R false
      have hPc : ∀ p ∈ P, Offset.lt p.before ⟨L, c⟩ := by
        intro p hp
        have := hP p hp
        unfold Offset.lt at *; simp only at *; omega
      -- nothing of R' lies before the segment
      have hR' : ∀ r ∈ R', ¬ Offset.lt r.before ⟨L, c⟩ := by
        cases R' with
        | nil => simp
        | cons h t =>
          have hh := h3 h rfl
          intro r hr
          simp only [List.mem_cons] at hr
          rcases hr with rfl | hr
          · exact hh
          · intro hlt
            have hs : ShiftsSorted (P ++ (Q ++ (h :: t))) := by rw [← h1]; exact hsorted
            have hs2 : ShiftsSorted (h :: t) := by
              unfold ShiftsSorted at *
              exact (List.pairwise_append.1 (List.pairwise_append.1 hs).2.1).2.1
            have := (List.pairwise_cons.1 hs2).1 r hr
            exact hh (Offset.lt_of_le_of_lt this hlt)
      have hfilter := filter_split ⟨L, c⟩ P Q R' hPc h2 hR'
      -- the shift applied, operationally and declaratively
      have hkey : shiftFor L prevΔ (popShifts ⟨L, c⟩ (a :: R) false) = contrib (P ++ Q).getLast? L ∧
          deltaAt (P ++ R) L c = contrib (P ++ Q).getLast? L := by
        constructor
        · rw [h4]
          cases Q with
          | nil => simp [shiftFor, hΔ]
          | cons q qs =>
            have hne : (q :: qs) ≠ [] := by simp
            rw [getLast?_append_ne P _ hne]
            have hlast : (a :: q :: qs).getLast (by simp) = (q :: qs).getLast hne := by
              simp [List.getLast_cons]
            have hl? : (q :: qs).getLast? = some ((q :: qs).getLast hne) := List.getLast?_eq_some_getLast hne
            rw [hl?]
            simp only [shiftFor, Bool.false_or, List.isEmpty_cons, Bool.not_false, ↓reduceIte, hlast, contrib]
            by_cases hl : ((q :: qs).getLast hne).after.lines = L
            · simp [hl]
            · simp only [hl, ↓reduceIte]
              -- a shift in force on this line would force the new one onto this line too
              rw [hΔ]; unfold contrib
              cases hk : P.getLast? with
              | none => rfl
              | some k =>
                by_cases hkl : k.after.lines = L
                · exfalso
                  have hkP : k ∈ P := List.mem_of_getLast? hk
                  have hk'Q : (q :: qs).getLast hne ∈ (q :: qs) := List.getLast_mem hne
                  have hs : ShiftsSorted (P ++ ((q :: qs) ++ R')) := by rw [← h1]; exact hsorted
                  have hle : ¬ Offset.lt ((q :: qs).getLast hne).before k.before := by
                    unfold ShiftsSorted at hs
                    exact (List.pairwise_append.1 hs).2.2 k hkP _ (List.mem_append_left _ hk'Q)
                  have hlt := h2 _ hk'Q
                  have e1 := hlines k (by simp [hkP])
                  have e2 := hlines ((q :: qs).getLast hne)
                    (by rw [h1]; exact List.mem_append_right _ (List.mem_append_left _ hk'Q))
                  unfold Offset.lt at hle hlt; simp only at hle hlt
                  omega
                · simp [hkl]
        · unfold deltaAt
          rw [h1, hfilter]
          rfl
      simp only [finEvs, shiftCols, hkey.1, hkey.2]
      congr 1
      rw [h4]
      have hassoc : P ++ R = (P ++ Q) ++ R' := by rw [h1]; simp
      rw [hassoc]
      apply ih (P ++ Q) R' _ L c _ (by rw [← hassoc]; exact hsorted) (by rw [← hassoc]; exact hlines)
      · intro p hp
        simp only [List.mem_append] at hp
        rcases hp with hp | hp
        · exact hPc p hp
        · exact h2 p hp
      · intro k hk
        cases Q with
        | nil =>
          simp only [List.append_nil] at hk
          simp [ha k hk]
        | cons q qs =>
          have hne : (q :: qs) ≠ [] := by simp
          rw [getLast?_append_ne P _ hne, List.getLast?_eq_some_getLast hne] at hk
          simp only [Option.some.injEq] at hk
          rw [← hk]; simp [List.getLast_cons]
      · rfl
      · exact hm

/-- **Which shift `Finalize` applies.** -/
theorem finEvs_decl (s0 : SMShift) (T : List SMShift) (hsorted : ShiftsSorted T)
    (hlines : ∀ s ∈ T, s.before.lines = s.after.lines) (evs : List Ev) (hmono : Mono 0 evs) :
    finEvs 0 0 (s0 :: T) evs = shiftCols (deltaAt T) 0 evs := by
  have := finEvs_decl_gen evs [] T s0 0 0 0 (by simpa using hsorted) (by simpa using hlines) (by simp) (by simp)
    rfl hmono
  simpa using this

/-- a segment with its generated column moved by `f line col` -/
def moveCol (f : Int → Int → Int) (s : Seg) : Seg := { s with genCol := s.genCol + f s.genLine s.genCol }

theorem segsOf_shiftCols (f : Int → Int → Int) (evs : List Ev) (L : Nat) :
    segsOf L (shiftCols f L evs) = (segsOf L evs).map (moveCol f) := by
  induction evs generalizing L with
  | nil => rfl
  | cons e es ih =>
    cases e with
    | nl =>
      simp only [shiftCols, segsOf]
      have := ih (L + 1)
      simpa using this
    | seg c o => simp only [shiftCols, segsOf, List.map_cons, ih L]; rfl

/-- whatever the shifts, `finEvs` changes nothing but generated columns -/
theorem finEvs_shape (evs : List Ev) (L prevΔ : Int) (shifts : List SMShift) (n : Nat) :
    (segsOf n (finEvs L prevΔ shifts evs)).map (fun s => (s.genLine, s.orig)) =
      (segsOf n evs).map (fun s => (s.genLine, s.orig)) := by
  induction evs generalizing L prevΔ shifts n with
  | nil => rfl
  | cons e es ih =>
    cases e with
    | nl => simp only [finEvs, segsOf]; exact ih _ _ _ _
    | seg c o => simp only [finEvs, segsOf, List.map_cons, ih]

end EsbuildModel.SmJoin
