import EsbuildModel.Lemmas.OutPathsFinal
/-
Joining the final relative path onto the output directory; which final relative paths have no ".."
component.
-/
namespace EsbuildModel.OutPaths
open EsbuildModel.Spec.OutPath

/-- a relative path without ".." components, joined onto an absolute directory, stays inside it -/
theorem finalAbsPath_inside {outdir rel : Str} (ho : isAbs outdir = true) (hr : NoDotDot rel) :
    finalAbsPath outdir rel = render (denote (finalAbsPath outdir rel)) ∧
    Inside (denote outdir) (denote (finalAbsPath outdir rel)) := by
  unfold finalAbsPath
  rw [join_abs ho]
  have hv : ∀ y ∈ resolve (denote outdir) (components rel), ValidName y := by
    apply resolve_valid _ (denote_valid _)
    intro e he
    rw [components_eq_splitSlash] at he
    exact noslash_of_mem_splitSlash he
  rw [denote_render hv]
  refine ⟨rfl, ?_⟩
  apply resolve_noDotDot_prefix
  intro c hc
  rw [components_eq_splitSlash] at hc
  intro e
  exact hr (by subst e; exact hc)

/-- what `isValidExtension` (pkg/api) checks, and – what it does not check – no separator inside -/
def ValidExt (e : Str) : Prop := e.length ≥ 2 ∧ e.head? = some '.' ∧ e.getLast? ≠ some '.' ∧ '/' ∉ e

instance (e : Str) : Decidable (ValidExt e) := by unfold ValidExt; infer_instance

theorem ValidExt.last {e : Str} (h : ValidExt e) : ∃ c, e.getLast? = some c ∧ c ≠ '.' := by
  cases hl : e.getLast? with
  | none =>
    have : e = [] := by simpa [List.getLast?_eq_none_iff] using hl
    have := h.1; simp_all
  | some c => exact ⟨c, rfl, fun hc => h.2.2.1 (by rw [hl, hc])⟩

theorem safe_ext {e : Str} (h : ValidExt e) : Safe e := by
  obtain ⟨c, h1, h2⟩ := h.last
  exact safe_of_last_ne_dot h.2.2.2 h1 h2

theorem safe_trimDot {e : Str} (h : ValidExt e) : Safe (trimDot e) := by
  obtain ⟨c, h1, h2⟩ := h.last
  rcases e with _ | ⟨a, _ | ⟨b, e'⟩⟩
  · have := h.1; simp at this
  · have := h.1; simp at this
  · have ha : a = '.' := by simpa using h.2.1
    subst ha
    have : trimDot ('.' :: b :: e') = b :: e' := rfl
    rw [this]
    have hns : '/' ∉ b :: e' := fun hm => h.2.2.2 (List.mem_cons_of_mem _ hm)
    have hl : (b :: e').getLast? = some c := by
      rw [← h1]; simp [List.getLast?_cons_cons]
    exact safe_of_last_ne_dot hns hl h2

/-- `[name]` directly followed by the extension: safe whatever the name is -/
theorem safe_name_ext {n e : Str} (hn : '/' ∉ n) (he : ValidExt e) : Safe (n ++ e) := by
  obtain ⟨c, h1, h2⟩ := he.last
  have hne : e ≠ [] := by intro h; simp [h] at h1
  apply safe_of_last_ne_dot (c := c)
  · intro hm
    rcases List.mem_append.mp hm with hm | hm
    · exact hn hm
    · exact he.2.2.2 hm
  · rw [getLast?_append_ne_nil n hne, h1]
  · exact h2

theorem safe_valueOf {d n hs e : Str} (hd : Safe d) (hn : Safe n) (hh : Safe hs) (he : Safe e)
    (ph : Placeholder) : Safe (valueOf d n hs e ph) := by
  cases ph <;> simp only [valueOf] <;> first | assumption | exact safe_nil

/-- expanding a template without dots with safe values gives safe text -/
theorem safe_expandFrom {d n hs e : Str} (hd : Safe d) (hn : Safe n) (hh : Safe hs) (he : Safe e)
    (u : Str) (hu : '.' ∉ u) (k : Nat) : Safe (expandFrom d n hs e k u) := by
  induction u generalizing k with
  | nil => rw [expandFrom_nil]; exact safe_nil
  | cons c u ih =>
    have hu' : '.' ∉ u := fun hm => hu (List.mem_cons_of_mem _ hm)
    cases k with
    | succ k => exact ih hu' k
    | zero =>
      cases hm : matchPlaceholder (c :: u) with
      | some pk =>
        obtain ⟨ph, j⟩ := pk
        rw [expandFrom_match_some d n hs e hm]
        exact safe_append (safe_valueOf hd hn hh he ph) (ih hu' _)
      | none =>
        rw [expandFrom_match_none d n hs e hm]
        have : c :: expandFrom d n hs e 0 u = [c] ++ expandFrom d n hs e 0 u := rfl
        rw [this]
        exact safe_append (safe_char (fun hc => hu (by simp [hc]))) (ih hu' 0)

/-- the final relative path for the default entry template -/
theorem finalRelPath_default (d n e h : Str) :
    finalRelPath (finalTemplate defaultEntryTemplate d n e) h = '.' :: '/' :: (d ++ '/' :: (n ++ e)) := by
  rw [finalRelPath_eq]
  simp [defaultEntryTemplate, renderWith, partText, allValues, Placeholders.get, lit, phText]

theorem noDotDot_default {d n e : Str} (hd : Safe d) (hn : '/' ∉ n) (he : ValidExt e) (h : Str) :
    NoDotDot (finalRelPath (finalTemplate defaultEntryTemplate d n e) h) := by
  rw [finalRelPath_default, noDotDot_dotSlash]
  have h1 : Safe ('/' :: (n ++ e)) := safe_slash_cons (noDotDot_of_safe (safe_name_ext hn he))
  exact noDotDot_of_safe (safe_append hd h1)

/-- the final relative path for a parsed template -/
theorem finalRelPath_parsed {s : Str} (hne : s ≠ []) (ho : ¬ EndsOpen s) (d n e h : Str) :
    finalRelPath (finalTemplate (validatePathTemplate s) d n e) h =
      '.' :: '/' :: (expand d n h (trimDot e) (replaceBackslash s) ++ e) := by
  rw [finalRelPath_eq, renderWith_append]
  unfold validatePathTemplate
  simp only [hne, if_false]
  have hopen : ¬ EndsOpen (lit "./" ++ replaceBackslash s) := by
    intro hopen
    apply ho
    unfold EndsOpen at hopen ⊢
    have hne' : replaceBackslash s ≠ [] := by unfold replaceBackslash; simpa using hne
    rw [getLast?_append_ne_nil _ hne', getLast?_replaceBackslash] at hopen
    cases hl : s.getLast? with
    | none => rw [hl] at hopen; simp at hopen
    | some c =>
      rw [hl] at hopen
      simp only [Option.map_some, Option.some.injEq] at hopen
      by_cases hb : c = '\\'
      · simp [hb] at hopen
      · simp only [hb, if_false] at hopen
        rw [hopen]
  rw [renderWith_parseLoop d n h (trimDot e) _ _ [] (Nat.le_refl _) hopen (fun e' => by simp [lit] at e')]
  have h1 : matchPlaceholder ('.' :: '/' :: replaceBackslash s) = none := matchPlaceholder_ne_bracket (by decide) _
  have h2 : matchPlaceholder ('/' :: replaceBackslash s) = none := matchPlaceholder_ne_bracket (by decide) _
  have : lit "./" ++ replaceBackslash s = '.' :: '/' :: replaceBackslash s := rfl
  rw [this, expandFrom_match_none _ _ _ _ h1, expandFrom_match_none _ _ _ _ h2]
  simp [renderWith, partText, Placeholders.get, phText, expand]

theorem noDotDot_parsed {s : Str} (hne : s ≠ []) (ho : ¬ EndsOpen s) (hdot : '.' ∉ s)
    {d n e h : Str} (hd : Safe d) (hn : Safe n) (hh : Safe h) (he : ValidExt e) :
    NoDotDot (finalRelPath (finalTemplate (validatePathTemplate s) d n e) h) := by
  rw [finalRelPath_parsed hne ho, noDotDot_dotSlash]
  have hdot' : '.' ∉ replaceBackslash s := by
    unfold replaceBackslash
    intro hm
    obtain ⟨c, hc, hcc⟩ := List.mem_map.mp hm
    by_cases hb : c = '\\'
    · simp [hb] at hcc
    · simp only [hb, if_false] at hcc
      exact hdot (by rw [← hcc]; exact hc)
  exact noDotDot_of_safe (safe_append (safe_expandFrom hd hn hh (safe_trimDot he) _ hdot' 0) (safe_ext he))

end EsbuildModel.OutPaths
