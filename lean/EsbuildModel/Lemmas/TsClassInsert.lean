/-
The statement loop of insertStmtsAfterSuperCall: when it finds the call and when it does not.
-/
import EsbuildModel.Impl.TsClass
namespace EsbuildModel.TsClass

/-- no statement of the list is one the loop stops at or changes -/
def AllSkip (i : Nat) : Stmts → Prop
  | .nil => True
  | .cons s r => tryStmt i s = .skip ∧ AllSkip i r

theorem scan_append_skip (i : Nat) (ins rest : Stmts) : ∀ pre : Stmts, AllSkip i pre →
    scan i ins (pre.append rest) = ((scan i ins rest).1.map (pre.append ·), pre.append (scan i ins rest).2)
  | .nil, _ => by
    simp only [Stmts.append]
    cases h : (scan i ins rest).1 <;> simp [h, Stmts.append]
    · exact Prod.ext h rfl
    · exact Prod.ext h rfl
  | .cons s r, h => by
    simp only [AllSkip] at h
    have ih := scan_append_skip i ins rest r h.2
    simp only [Stmts.append, scan, h.1, ih]
    cases (scan i ins rest).1 <;> simp [Stmts.append]

theorem scan_all_skip (i : Nat) (ins : Stmts) : ∀ body : Stmts, AllSkip i body → scan i ins body = (none, body)
  | .nil, _ => by simp [scan]
  | .cons s r, h => by
    simp only [AllSkip] at h
    simp [scan, h.1, scan_all_skip i ins r h.2]

theorem Stmts.append_assoc : ∀ a b c : Stmts, (a.append b).append c = a.append (b.append c)
  | .nil, _, _ => by simp [Stmts.append]
  | .cons s r, b, c => by simp [Stmts.append, Stmts.append_assoc r b c]

end EsbuildModel.TsClass
