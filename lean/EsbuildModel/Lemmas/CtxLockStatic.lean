/-
Static analysis of the compiled context programs, checked by evaluation (`decide`): which mutex a thread holds at
each program point, that locks are never nested, and that the only wait under a mutex is Serve's hack.waitGroup.Wait().
-/
import EsbuildModel.Impl.CtxLockSem
namespace EsbuildModel.CtxLock
open EsbuildModel.Gen.CtxLock (Mu Wg Fld Fn Cnd Tok)

/-- held mutex after executing an instruction with `h` held; none = the discipline "at most one mutex, unlock only
what is held" is violated -/
def heldAfter (h : Option MuRef) : Instr → Option (Option MuRef)
  | .lock m => if h = none then some (some m) else none
  | .unlock m => if h = some m then some none else none
  | _ => some h

/-- successors inside the same thread -/
def succs (pc : Nat) : Instr → List Nat
  | .br _ t => [pc + 1, t]
  | .goto t => [t]
  | .halt => []
  | _ => [pc + 1]

/-- the mutex held at each program point (outer none = unreachable point, e.g. the jump behind a `return`).
This table is a CERTIFICATE: it was computed once by a forward pass over `codeGen` (regenerate it with
tools in the header of Props/C20Lock.lean when the programs change); `allPointsOK_true` below checks, by evaluation,
that it is closed under the control flow of the code from the entry points, so nothing about how it was
obtained is trusted. -/
def heldTab : List (Option (Option MuRef)) := [
  some none, some (some (.ctx)), some (some (.ctx)), some none, some none, none, some (some (.ctx)), some (some (.ctx)),
  some (some (.ctx)), some none, some none, some none, none, some (some (.ctx)), some (some (.ctx)), some (some (.ctx)),
  some (some (.ctx)), some (some (.ctx)), some (some (.ctx)), some none, some none, some none, some none, some none,
  some none, some none, some none, some (some (.handler .lh)), some (some (.handler .lh)), some (some (.handler .lh)), some (some (.handler .lh)), some (some (.handler .lh)),
  some (some (.handler .lh)), some (some (.handler .lh)), some none, some none, some none, some (some (.watcher .lw)), some none, some none,
  some (some (.ctx)), some (some (.ctx)), some (some (.ctx)), some none, some none, some none, some none, some (some (.ctx)),
  some (some (.ctx)), some (some (.ctx)), some (some (.ctx)), some none, some none, some none, some none, some none,
  some none, some none, some (some (.ctx)), some (some (.ctx)), some none, none, some (some (.ctx)), some (some (.ctx)),
  some none, some none, some none, some none, some none, some none, some (some (.ctx)), some (some (.ctx)),
  some none, none, some (some (.ctx)), some (some (.ctx)), some (some (.ctx)), some (some (.ctx)), some none, some none,
  some none, some none, some none, some none, some none, some none, some none, some none,
  some (some (.handler .sh)), some (some (.handler .sh)), some (some (.handler .sh)), some (some (.handler .sh)), some (some (.handler .sh)), some (some (.handler .sh)), some none, some none,
  some none, some none, some none, some none, some none, some none, some none, some none,
  some none, some (some (.ctx)), some (some (.ctx)), some (some (.ctx)), none, some (some (.ctx)), some (some (.ctx)), some (some (.ctx)),
  none, some (some (.ctx)), some (some (.ctx)), some (some (.ctx)), some (some (.ctx)), some (some (.ctx)), some none, some none,
  some none, some (some (.watcher .sw)), some (some (.watcher .sw)), some (some (.watcher .sw)), some (some (.watcher .sw)), some none, some none, some none,
  some none, some none, some (some (.ctx)), some (some (.ctx)), some none, some none, none, some (some (.ctx)),
  some (some (.ctx)), some (some (.ctx)), some none, some none, some none, none, some (some (.ctx)), some (some (.ctx)),
  some (some (.ctx)), some (some (.ctx)), some (some (.ctx)), some (some (.ctx)), some none, some none, some none, some none,
  some none, some none, some none, some none, some (some (.handler .lh)), some (some (.handler .lh)), some (some (.handler .lh)), some (some (.handler .lh)),
  some (some (.handler .lh)), some (some (.handler .lh)), some (some (.handler .lh)), some none, some none, some none, some (some (.watcher .lw)), some none,
  some none, some (some (.ctx)), some (some (.ctx)), some (some (.ctx)), some none, some none, some none, some none,
  some (some (.ctx)), some (some (.ctx)), some (some (.ctx)), some (some (.ctx)), some none, some none, some none, some none,
  some none, some none, some (some (.watcher .sw)), some none, some none, some none, some none, some (some (.ctx)),
  some (some (.ctx)), some none, some (some (.ctx)), some (some (.ctx)), some none, some none, some none, some none,
  some (some (.ctx)), some (some (.ctx)), some none, some none, none, some (some (.ctx)), some (some (.ctx)), some (some (.ctx)),
  some none, some none, some none, none, some (some (.ctx)), some (some (.ctx)), some (some (.ctx)), some (some (.ctx)),
  some (some (.ctx)), some (some (.ctx)), some none, some none, some none, some none, some none, some none,
  some none, some none, some (some (.handler .lh)), some (some (.handler .lh)), some (some (.handler .lh)), some (some (.handler .lh)), some (some (.handler .lh)), some (some (.handler .lh)),
  some (some (.handler .lh)), some none, some none, some none, some (some (.watcher .lw)), some none, some none, some (some (.ctx)),
  some (some (.ctx)), some (some (.ctx)), some none, some none, some none, some none, some (some (.ctx)), some (some (.ctx)),
  some (some (.ctx)), some (some (.ctx)), some none, some none, some none, some none, some none, some none,
  some (some (.ctx)), some (some (.ctx)), some (some (.ctx)), some none, some none, some (some (.ctx)), some (some (.ctx)), some (some (.ctx)),
  none, some (some (.ctx)), some (some (.ctx)), some (some (.ctx)), none, some (some (.ctx)), some (some (.ctx)), some (some (.ctx)),
  some (some (.ctx)), some (some (.ctx)), some (some (.ctx)), some (some (.ctx)), some (some (.ctx)), some none, some none, some none,
  some (some (.hack .sh)), some (some (.hack .sh)), some (some (.hack .sh)), some (some (.hack .sh)), some (some (.hack .sh)), some none, some none, some none,
  some none, some none, some none, some none, some none, none, some none, some (some (.ctx)),
  some (some (.ctx)), some (some (.ctx)), some none, some none, some none, none, some (some (.ctx)), some (some (.ctx)),
  some (some (.ctx)), some none, some none, none, some (some (.ctx)), some none, some (some (.ctx)), some (some (.ctx)),
  some none, some none, none, some (some (.ctx)), some (some (.ctx)), some (some (.ctx)), some none, some none,
  some none, none, some (some (.ctx)), some (some (.ctx)), some (some (.ctx)), some (some (.ctx)), some (some (.ctx)), some (some (.ctx)),
  some none, some none, some none, some none, some none, some none, some none, some none,
  some (some (.handler .lh)), some (some (.handler .lh)), some (some (.handler .lh)), some (some (.handler .lh)), some (some (.handler .lh)), some (some (.handler .lh)), some (some (.handler .lh)), some none,
  some none, some none, some (some (.watcher .lw)), some none, some none, some (some (.ctx)), some (some (.ctx)), some (some (.ctx)),
  some none, some none, some none, some none, some (some (.ctx)), some (some (.ctx)), some (some (.ctx)), some (some (.ctx)),
  some none, some none, some none, some none, some none, some none, some none, some none,
  some none, some none, some none, some none, some none, some none, some (some (.hack .sh)), some (some (.hack .sh)),
  some (some (.hack .sh)), some (some (.hack .sh)), some (some (.hack .sh)), some none, some none, some none, some none, some none,
  some none, some none, some none, none, some none, some (some (.ctx)), some (some (.ctx)), some (some (.ctx)),
  some none, some none, some none, none, some (some (.ctx)), some (some (.ctx)), some (some (.ctx)), some none,
  some none, none, some (some (.ctx)), some none, some (some (.ctx)), some (some (.ctx)), some none, some none,
  none, some (some (.ctx)), some (some (.ctx)), some (some (.ctx)), some none, some none, some none, none,
  some (some (.ctx)), some (some (.ctx)), some (some (.ctx)), some (some (.ctx)), some (some (.ctx)), some (some (.ctx)), some none, some none,
  some none, some none, some none, some none, some none, some none, some (some (.handler .lh)), some (some (.handler .lh)),
  some (some (.handler .lh)), some (some (.handler .lh)), some (some (.handler .lh)), some (some (.handler .lh)), some (some (.handler .lh)), some none, some none, some none,
  some (some (.watcher .lw)), some none, some none, some (some (.ctx)), some (some (.ctx)), some (some (.ctx)), some none, some none,
  some none, some none, some (some (.ctx)), some (some (.ctx)), some (some (.ctx)), some (some (.ctx)), some none, some none,
  some none, some none, some none, some none, some none, some none, some none, some none,
  some none, some none, some none, some (some (.hack .sh)), some (some (.hack .sh)), some (some (.hack .sh)), some (some (.hack .sh)), some (some (.hack .sh)),
  some (some (.hack .sh)), some none, some none, some none, some (some (.ctx)), some (some (.ctx)), some (some (.ctx)), some (some (.ctx)),
  none, some (some (.ctx)), some (some (.ctx)), some (some (.ctx)), some (some (.ctx)), some none, some none, some none,
  some none, none, some none, some (some (.ctx)), some (some (.ctx)), some (some (.ctx)), some none, some none,
  some none, none, some (some (.ctx)), some (some (.ctx)), some (some (.ctx)), some none, some none, none,
  some (some (.ctx)), some none, some (some (.ctx)), some (some (.ctx)), some none, some none, none, some (some (.ctx)),
  some (some (.ctx)), some (some (.ctx)), some none, some none, some none, none, some (some (.ctx)), some (some (.ctx)),
  some (some (.ctx)), some (some (.ctx)), some (some (.ctx)), some (some (.ctx)), some none, some none, some none, some none,
  some none, some none, some none, some none, some (some (.handler .lh)), some (some (.handler .lh)), some (some (.handler .lh)), some (some (.handler .lh)),
  some (some (.handler .lh)), some (some (.handler .lh)), some (some (.handler .lh)), some none, some none, some none, some (some (.watcher .lw)), some none,
  some none, some (some (.ctx)), some (some (.ctx)), some (some (.ctx)), some none, some none, some none, some none,
  some (some (.ctx)), some (some (.ctx)), some (some (.ctx)), some (some (.ctx)), some none, some none, some none, some none,
  some none, some none, some none, some none, some (some (.ctx)), some (some (.ctx)), some (some (.ctx)), some none]

def entries : List Nat := [Method.entry .rebuild, Method.entry .cancel, Method.entry .dispose, Method.entry .watch, Method.entry .serve]

def heldAt (pc : Nat) : Option (Option MuRef) := (heldTab[pc]?).getD none

/-- registers written by an operation -/
def Act.writesW : Act → Option WReg
  | .readWatcher => some .lw | .loadCtxWatcher => some .sw | _ => none
def Act.writesH : Act → Option HReg
  | .readHandler => some .lh | .newHandler => some .sh | .loadCtxHandler => some .sh | _ => none

def MuRef.usesW : MuRef → Option WReg
  | .watcher r => some r | _ => none
def MuRef.usesH : MuRef → Option HReg
  | .handler r => some r | .hack r => some r | _ => none

/-- the per-point conditions: the table is closed under the program's control flow, spawned goroutines and finished
threads hold nothing, a register that names the held mutex is not overwritten, locks are not nested, and a wait happens
with no mutex held — except `hack.waitGroup.Wait()` inside Serve, which runs under ctx.mutex -/
def pointOK (pc : Nat) (i : Instr) : Bool :=
  match heldAt pc with
  | some h =>
    (match heldAfter h i with
     | some h' => (succs pc i).all fun q => heldAt q == some h'
     | none => false) &&
    (match i with
     | .spawn t => heldAt t == some none
     | .halt => h == none
     | .lock _ => h == none
     | .wait g => h == none || (g == .hack .sh && h == some .ctx)
     | .act a =>
       (match h with
        | some m => (a.writesW == none || a.writesW != m.usesW) && (a.writesH == none || a.writesH != m.usesH)
        | none => true)
     | _ => true)
  | none => true

/-- all points of a code list starting at address `pc` -/
def pointsOK : Nat → List Instr → Bool
  | _, [] => true
  | pc, i :: is => pointOK pc i && pointsOK (pc + 1) is

def allPointsOK : Bool :=
  pointsOK 0 codeGen && (entries.all fun q => heldAt q == some none) && heldTab.length == codeGen.length

set_option maxRecDepth 100000 in
theorem allPointsOK_true : allPointsOK = true := by decide +kernel

end EsbuildModel.CtxLock
