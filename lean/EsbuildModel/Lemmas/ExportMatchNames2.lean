import EsbuildModel.Lemmas.ExportMatchNames
/-! `keys_iff_exported`: the keys of `ResolvedExports[m]` are the names GetExportedNames lists for `m`. -/
namespace EsbuildModel.ExportMatch
open EsbuildModel.Spec EsbuildModel.Spec.EsModules

theorem ownOf_toSpec {t : Table} (hesm : EsmOnly t) {m : Nat} {f : File} (hf : t[m]? = some f) (a : Name) :
    a ∈ ownOf (toSpec t) m ↔ ∃ e ∈ f.exports, e.alias = a := by
  have hfm := List.mem_of_getElem? hf
  unfold ownOf toSpec
  rw [List.getElem?_map, hf]
  simp only [Option.map_some, ownNames, toRecord, List.mem_append, List.mem_map, List.mem_filterMap]
  constructor
  · rintro (⟨x, ⟨e, he, hx⟩, rfl⟩ | ⟨x, ⟨e, he, hx⟩, rfl⟩)
    · unfold localOf at hx
      split at hx
      · cases hx
      · cases hx; exact ⟨e, he, rfl⟩
    · unfold indirectOf at hx
      split at hx
      · simp only [Option.map_eq_some_iff] at hx
        obtain ⟨tg, _, rfl⟩ := hx
        exact ⟨e, he, rfl⟩
      · cases hx
  · rintro ⟨e, he, rfl⟩
    cases hi : findImport f e.ref with
    | none => exact Or.inl ⟨⟨e.alias, e.ref⟩, ⟨e, he, by simp [localOf, hi]⟩, rfl⟩
    | some ni =>
      cases htg : ni.target with
      | none => exact absurd htg (hesm.targets f hfm ni (findImport_mem hi).1)
      | some tg => exact Or.inr ⟨⟨e.alias, tg, importNameOf ni⟩, ⟨e, he, by simp [indirectOf, hi, htg]⟩, rfl⟩

theorem starSucc_toSpec {t : Table} {m : Nat} {f : File} (hf : t[m]? = some f) :
    starSucc (toSpec t) m = f.stars.filterMap id := by
  unfold starSucc toSpec
  rw [List.getElem?_map, hf]
  rfl

theorem starEdge_starSucc {t : Table} {x o : Nat} (h : StarEdge t x o) : o ∈ starSucc (toSpec t) x := by
  obtain ⟨f, _, hf, hmem, _⟩ := h
  rw [starSucc_toSpec hf]
  exact List.mem_filterMap.2 ⟨some o, hmem, rfl⟩

theorem starSucc_starEdge {t : Table} (hwf : WF t) (hesm : EsmOnly t) {x o : Nat} (hx : x < t.length)
    (h : o ∈ starSucc (toSpec t) x) : StarEdge t x o := by
  have hf : t[x]? = some t[x] := List.getElem?_eq_getElem hx
  rw [starSucc_toSpec hf] at h
  obtain ⟨s, hs, hso⟩ := List.mem_filterMap.1 h
  simp at hso; subst hso
  have hfm := List.getElem_mem hx
  have holt : o < t.length := hwf.stars _ hfm o hs
  refine ⟨_, t[o], hf, hs, List.getElem?_eq_getElem holt, ?_⟩
  rw [hesm.kind _ (List.getElem_mem holt)]
  simp

theorem Finds.starReach {t : Table} {a : Name} {S : List Nat} {x : Nat} {d : ImportData} (h : Finds t a S x d) :
    StarReach (toSpec t) x d.src := by
  induction h with
  | here _ hedge hf => rw [hf.1]; exact .step (.refl _) (starEdge_starSucc hedge)
  | deeper _ hedge _ ih => exact StarReach.head (starEdge_starSucc hedge) ih

/-- a walk of files that all lack the name -/
inductive LW (t : Table) (a : Name) : Nat → Nat → Prop
  | refl {x : Nat} : Lacks t a x → LW t a x x
  | head {x y z : Nat} : Lacks t a x → StarEdge t x y → LW t a y z → LW t a x z

theorem LW.end_lacks {t : Table} {a : Name} {x z : Nat} (h : LW t a x z) : Lacks t a z := by
  induction h with
  | refl h => exact h
  | head _ _ _ ih => exact ih

theorem LW.snoc {t : Table} {a : Name} {x y z : Nat} (h : LW t a x y) (hedge : StarEdge t y z) (hz : Lacks t a z) :
    LW t a x z := by
  induction h with
  | refl hl => exact .head hl hedge (.refl hz)
  | head hl he _ ih => exact .head hl he (ih hedge)

theorem LW.toPW {t : Table} {a : Name} {x y o : Nat} (h : LW t a x y) (hedge : StarEdge t y o) (ho : Has t a o) :
    PW t a [] x o := by
  induction h with
  | refl hl => exact .cons (by simp) hl hedge (.done ho)
  | head hl he _ ih => exact .cons (by simp) hl he (ih hedge)

/-- along a star path from a file that lacks the name to a file that has it, there is a FIRST file that has it -/
theorem starReach_pw {t : Table} (hwf : WF t) (hesm : EsmOnly t) {a : Name} {x s : Nat} (hx : Lacks t a x)
    (h : StarReach (toSpec t) x s) : (∃ o, PW t a [] x o) ∨ LW t a x s := by
  induction h with
  | refl => exact Or.inr (.refl hx)
  | @step b c _ hc ih =>
    rcases ih with ih | ih
    · exact Or.inl ih
    · have hblt : b < t.length := by
        obtain ⟨f, hf, _⟩ := ih.end_lacks
        exact (List.getElem?_eq_some_iff.1 hf).1
      have hedge := starSucc_starEdge hwf hesm hblt hc
      have hclt : c < t.length := by
        obtain ⟨_, fo, _, _, hfo, _⟩ := hedge
        exact (List.getElem?_eq_some_iff.1 hfo).1
      rcases lacks_or_has (t := t) (a := a) hclt with hl | hh
      · exact Or.inr (ih.snoc hedge hl)
      · exact Or.inl ⟨c, ih.toPW hedge hh⟩

/-- **The keys of `ResolvedExports` are the exported names.** -/
theorem keys_iff_exported {t : Table} (hwf : WF t) (hesm : EsmOnly t) {m : Nat} (hm : m < t.length) {res : Resolved}
    (hres : resolvedExports t m = some res) :
    ∃ names, getExportedNames (toSpec t) m = some names ∧ ∀ a, (res.lookup a).isSome ↔ a ∈ names := by
  obtain ⟨names, hnames, hchar⟩ :=
    getExportedNames_spec (toSpec_wellFormed hwf) (m := m) (by rw [toSpec_length]; exact hm)
  refine ⟨names, hnames, ?_⟩
  intro a
  rw [hchar]
  have hf : t[m]? = some t[m] := List.getElem?_eq_getElem hm
  cases he : entry t[m] a with
  | some e =>
    rw [resolvedExports_own hf hres he]
    simp only [Option.isSome_some, true_iff]
    left
    exact (ownOf_toSpec hesm hf a).2 ⟨e, (entry_some he).1, (entry_some he).2⟩
  | none =>
    have hlacks : Lacks t a m := ⟨_, hf, he⟩
    obtain ⟨hext, hcomp⟩ := resolvedExports_star hf hres he
    constructor
    · intro hsome
      cases hl : res.lookup a with
      | none => rw [hl] at hsome; cases hsome
      | some ex =>
        rw [hl] at hext
        have hfinds := hext.1
        obtain ⟨fo, e, hfo, hemem, hea, _, _⟩ := hfinds.entry
        right
        exact ⟨hfinds.ne_default, _, hfinds.starReach, (ownOf_toSpec hesm hfo a).2 ⟨e, hemem, hea⟩⟩
    · rintro (hown | ⟨hd, s, hs, hown⟩)
      · obtain ⟨e, hemem, hea⟩ := (ownOf_toSpec hesm hf a).1 hown
        exact absurd hea (entry_none he e hemem)
      · -- the first file on the star path that exports the name is found by the traversal
        have hslt : s < t.length := by
          cases hg : t[s]? with
          | some _ => exact (List.getElem?_eq_some_iff.1 hg).1
          | none =>
            exfalso
            have : ownOf (toSpec t) s = [] := by
              unfold ownOf toSpec; rw [List.getElem?_map, hg]; rfl
            rw [this] at hown; cases hown
        have hsf : t[s]? = some t[s] := List.getElem?_eq_getElem hslt
        obtain ⟨e, hemem, hea⟩ := (ownOf_toSpec hesm hsf a).1 hown
        have hhas : Has t a s := ⟨_, e, hsf, entry_unique (hwf.aliases _ (List.getElem_mem hslt)) hemem hea⟩
        have hpw : ∃ o, PW t a [] m o := by
          rcases starReach_pw hwf hesm hlacks hs with h | h
          · exact h
          · -- the walk ends at `s`, which has the name: impossible for a walk of files that lack it
            exfalso
            exact lacks_not_has h.end_lacks hhas
        obtain ⟨o, hpw⟩ := hpw
        have hsp := PW.simple t.length [] m o List.nodup_nil (by simp) (by simp) hpw
        obtain ⟨d, _, hfd⟩ := hsp.finds hd hlacks (by simp)
        obtain ⟨ex, hex, _⟩ := hcomp d hfd
        rw [hex]; rfl

end EsbuildModel.ExportMatch
