import EsbuildModel.Lemmas.JsonNum
/-
Numbers, continued: the JSON check of the lexer passes on RFC 8259 digits; `lexNumber` / `lexAt` on a number token.
-/
namespace EsbuildModel.Json
open EsbuildModel.Spec.Json EsbuildModel.Spec.NumLit EsbuildModel.Spec.Num EsbuildModel.LexNum

theorem digit_facts {c : Char} (h : Spec.Num.isDigit c = true) : c ≠ '.' ∧ c ≠ '_' ∧ isDigit c = true := by
  refine ⟨?_, ?_, h⟩ <;> (rintro rfl; revert h; decide)

theorem dropWhile_digits {i : List Char} (hi : AllDigits i) (t : List Char) :
    (i ++ t).dropWhile (· != '.') = t.dropWhile (· != '.') := by
  induction i with
  | nil => rfl
  | cons a i ih =>
    have := (digit_facts (hi a (by simp))).1
    have hb : (a != '.') = true := by simp [this]
    rw [List.cons_append, List.dropWhile_cons, hb, if_pos rfl]
    exact ih (fun x hx => hi x (List.mem_cons_of_mem _ hx))

theorem any_us_digits {i : List Char} (hi : AllDigits i) : i.any (· == '_') = false := by
  simp only [List.any_eq_false, beq_iff_eq]
  intro x hx; exact (digit_facts (hi x hx)).2.1

theorem expSText_facts (e : Option ExpS) (he : rfcExp e = true) :
    (expSText e).any (· == '_') = false ∧ (expSText e).dropWhile (· != '.') = [] ∧
    (∀ c r, expSText e = c :: r → c = 'e' ∨ c = 'E') := by
  cases e with
  | none => simp [expSText]
  | some x =>
    simp only [rfcExp, Bool.and_eq_true] at he
    have hd := (allDigits_iff _).1 he.2
    have h1 := any_us_digits hd
    have h2 : x.digits.dropWhile (· != '.') = [] := by
      have := dropWhile_digits hd []
      simpa using this
    refine ⟨?_, ?_, ?_⟩
    · cases hu : x.upper <;> cases hs : x.sign <;> simp [expSText, Sign.text, h1, hu, hs]
    · cases hu : x.upper <;> cases hs : x.sign <;> simp [expSText, Sign.text, h2, hu, hs]
    · intro c r h
      cases hu : x.upper <;> simp [expSText, hu] at h
      · exact Or.inl h.1.symm
      · exact Or.inr h.1.symm

/-- the check at the end of `parseNumericLiteralOrDot` lets every RFC 8259 number through (and the `08` forms) -/
theorem jsonNumBad_rfc {i : List Char} {f : Option (List Char)} {e : Option ExpS} (hid : AllDigits i) (hne : i ≠ [])
    (hi : rfcInt i = true ∨ zero89Int i = true) (hf : rfcFrac f = true) (he : rfcExp e = true) :
    jsonNumBad (Lit.dec i f e).render = false := by
  obtain ⟨e1, e2, e3⟩ := expSText_facts e he
  cases i with
  | nil => exact absurd rfl hne
  | cons a t =>
    have ha := digit_facts (hid a (by simp))
    have htd : AllDigits t := fun x hx => hid x (List.mem_cons_of_mem _ hx)
    -- the tail: fraction and exponent
    have hfr : (fracText f ++ expSText e).any (· == '_') = false ∧
        (match (fracText f ++ expSText e).dropWhile (· != '.') with
          | _ :: d :: _ => !isDigit d
          | [_] => true
          | [] => false) = false ∧
        (∀ c r, fracText f ++ expSText e = c :: r → c = '.' ∨ c = 'e' ∨ c = 'E') := by
      cases f with
      | none =>
        simp only [fracText, List.nil_append, e1, e2, true_and]
        intro c r h; exact Or.inr (e3 c r h)
      | some g =>
        simp only [rfcFrac, Bool.and_eq_true, Bool.not_eq_true', List.isEmpty_eq_false_iff] at hf
        have hg := (allDigits_iff _).1 hf.2
        cases g with
        | nil => exact absurd rfl hf.1
        | cons d g =>
          have hd := digit_facts (hg d (by simp))
          refine ⟨?_, ?_, ?_⟩
          · have := any_us_digits hg
            simp only [List.any_cons, Bool.or_eq_false_iff] at this
            simp [fracText, this.1, this.2, e1]
          · simp [fracText, hd.2.2]
          · intro c r h; simp [fracText] at h; exact Or.inl h.1.symm
    obtain ⟨f1, f2, f3⟩ := hfr
    simp only [Lit.render, List.cons_append, jsonNumBad, Bool.or_eq_false_iff, beq_eq_false_iff_ne, ne_eq]
    refine ⟨⟨⟨ha.1, ?_⟩, ?_⟩, ?_⟩
    · -- base
      by_cases h0 : a = '0'
      · subst h0
        rcases hi with hi | hi
        · cases t with
          | nil =>
            simp only [List.nil_append]
            cases hfe : fracText f ++ expSText e with
            | nil => simp
            | cons c r =>
              rcases f3 c r hfe with rfl | rfl | rfl <;> simp [isOct]
          | cons b t => simp [rfcInt] at hi
        · cases t with
          | nil => simp [zero89Int] at hi
          | cons b t =>
            simp only [zero89Int, Bool.and_eq_true, beq_iff_eq, Bool.or_eq_true] at hi
            rcases hi.1.2 with rfl | rfl <;> simp [isOct]
      · simp [h0]
    · simp only [List.any_cons, List.any_append, Bool.or_eq_false_iff, beq_eq_false_iff_ne, ne_eq]
      simp only [List.any_append, Bool.or_eq_false_iff] at f1
      exact ⟨ha.2.1, any_us_digits htd, f1⟩
    · have := dropWhile_digits hid (fracText f ++ expSText e)
      simp only [List.cons_append] at this
      rw [this]
      exact f2

theorem lit_dec_head {i : List Char} {f : Option (List Char)} {e : Option ExpS} (hid : AllDigits i) (hne : i ≠ []) :
    ∃ c t, (Lit.dec i f e).render = c :: t ∧ isDigit c = true := by
  cases i with
  | nil => exact absurd rfl hne
  | cons a t => exact ⟨a, _, rfl, hid a (by simp)⟩

theorem follow_followOK {P : Params} {R : Rat → F64} (hP : ParamsOK P R) {rest : List Cp} (h : Follow rest) :
    FollowOK P.num (chars rest) := by
  intro c r hc
  cases rest with
  | nil => cases hc
  | cons x xs =>
    simp only [chars_cons, List.cons.injEq] at hc
    obtain ⟨rfl, rfl⟩ := hc
    obtain ⟨_, h2, _, h4, h5⟩ := delim_not_idCont hP (h x xs rfl)
    exact ⟨h2, h4, h5⟩

/-- **`lexNumber` on the digits of a number** (no sign): one TNumericLiteral with the correctly rounded value -/
theorem lexNumber_complete {P : Params} {R : Rat → F64} (hP : ParamsOK P R) (fl : Flavor) (L : Lx) (sk : Sk) (l : Lit)
    (rest : List Cp) (hv : l.valid = true) (hb : l.isBig = false) (hnd : legacyIntWithTail l = false)
    (hbad : fl = .json → jsonNumBad l.render = false) (hf : Follow rest) :
    lexNumber fl P L sk (cps l.render ++ rest) =
      .ok { L.at sk .num rest (sk.pos + l.render.length) with number := R l.mv } := by
  have := lexNum_complete hP.num l (chars rest) hv hb (follow_followOK hP hf) hnd
  simp only [lexNumber, chars_append, chars_cps, this, List.take_left']
  have hd : (cps l.render ++ rest).drop l.render.length = rest := by
    have h : l.render.length = (cps l.render).length := by simp
    rw [h]; exact List.drop_left' rfl
  rw [hd]
  split
  · rename_i h; exact absurd (hbad h.1) (by simp [h.2])
  · rfl

end EsbuildModel.Json
