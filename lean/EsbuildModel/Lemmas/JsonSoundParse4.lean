import EsbuildModel.Lemmas.JsonSoundParse3
/-
Soundness of the parser (either flavour): the key of a member.
-/
namespace EsbuildModel.Json
open EsbuildModel.Spec.Json EsbuildModel.Spec.NumLit

theorem expect_ok {fl : Flavor} {P : Params} {L L' : Lx} {t : Tok} (h : expect fl P L t = .ok L') :
    L.tok = t ∧ next fl P L = .ok L' := by
  unfold expect at h
  split at h
  · cases h
  · rename_i ht; exact ⟨by simpa using ht, h⟩

theorem stringLiteral_tok {fl : Flavor} {L L1 : Lx} {u : List Nat} (h : stringLiteral fl L = .ok (u, L1)) :
    L1.tok = L.tok ∧ L1.log = L.log := by
  unfold stringLiteral at h
  split at h
  · cases h; exact ⟨rfl, rfl⟩
  · split at h
    · cases h
    · cases h
    · cases h; exact ⟨rfl, rfl⟩

section
variable {P : Params} {Rd : Rat → F64} (hP : ParamsOK P Rd) (o : Opts) {fl : Flavor} (hfl : o.flavor = fl)
include hP hfl

theorem keyStep_sound {L L4 : Lx} {inp : List Cp} {key : List Nat} {seen seen' : List (List Nat)} (hat : AtTok fl Rd L inp)
    (h : keyStep o P L seen = .ok (key, seen', L4)) (hne : L4.log.hasErrors = false) :
    ∃ (cs : List SChar) (s2 s3 : List SepItem) (inpv : List Cp),
      chars inp = strTok cs ++ (Sep.render s2 ++ (':' :: (Sep.render s3 ++ chars inpv))) ∧
      strOk (dialectOf fl) cs = true ∧ key = strUnits cs ∧ Sep.ok (dialectOf fl) false false s2 = true ∧
      Sep.ok (dialectOf fl) inpv.isEmpty false s3 = true ∧ AtTok fl Rd L4 inpv := by
  unfold keyStep at h
  rw [hfl] at h
  obtain ⟨⟨key', L1⟩, hs, h⟩ := R.bind_eq_ok h
  try simp only at h
  obtain ⟨L2, he2, h⟩ := R.bind_eq_ok h
  try simp only at h
  obtain ⟨L4', he4, h⟩ := R.bind_eq_ok h
  simp only [R.ok.injEq, Prod.mk.injEq] at h
  obtain ⟨rfl, _, rfl⟩ := h
  obtain ⟨t1, n1⟩ := expect_ok he2
  obtain ⟨t3, n3⟩ := expect_ok he4
  obtain ⟨st1, st2⟩ := stringLiteral_tok hs
  have htok : L.tok = .str := by rw [← st1]; exact t1
  -- the key
  have hf := hat.1
  simp only [TokFacts, htok] at hf
  obtain ⟨cs, c1, c2, c3, c4⟩ := hf key' L1 hs
  obtain ⟨a1, a2, a3⟩ := hat.2.2 (by rw [htok]; simp)
  have hafter : After fl P L.rest L2 :=
    ⟨L1, n1, Lx.view_rest c4, by rw [Lx.view_log c4]; exact a1, by rw [Lx.view_end c4]; exact a3 (by rw [htok]; simp),
      hat.2.1.suf a2⟩
  -- the colon
  have hL3 : ∀ (L3 : Lx), L3.rest = L2.rest → L3.tok = L2.tok → L3.end_ = L2.end_ → L2.log.le L3.log →
      (L2.log.Clean → L3.log.Clean) → expect fl P L3 .colon = .ok L4' →
      ∃ (s2 s3 : List SepItem) (inpv : List Cp), chars L.rest = Sep.render s2 ++ (':' :: (Sep.render s3 ++ chars inpv)) ∧
        Sep.ok (dialectOf fl) false false s2 = true ∧ Sep.ok (dialectOf fl) inpv.isEmpty false s3 = true ∧ AtTok fl Rd L4' inpv := by
    intro L3 e1 e2 e3 hle hcl3 he
    obtain ⟨u3, m3⟩ := expect_ok he
    have hne2 : L2.log.hasErrors = false := noErr_of_le (Log.le_trans hle (next_log_le fl P L3 L4' m3)) hne
    obtain ⟨s2, inpc, k1, k2, k3⟩ := after_tok hP hafter hne2
    have ht2 : L2.tok = .colon := by rw [← e2]; exact u3
    have hf2 := k3.1
    simp only [TokFacts, ht2] at hf2
    obtain ⟨b1, b2, b3⟩ := k3.2.2 (by rw [ht2]; simp)
    have hafter3 : After fl P L2.rest L4' :=
      ⟨L3, m3, e1, hcl3 b1, by rw [e3]; exact b3 (by rw [ht2]; simp), k3.2.1.suf b2⟩
    obtain ⟨s3, inpv, m1, m2, m3'⟩ := after_tok hP hafter3 hne
    refine ⟨s2, s3, inpv, ?_, sepok_final k2 (nonempty_of_chars hf2), m2, m3'⟩
    rw [k1, hf2, m1]
  have := hL3 _ (by split <;> rfl) (by split <;> rfl) (by split <;> rfl)
    (by split
        · exact Log.le_warn _ _
        · exact Log.le_refl _)
    (by intro hc
        split
        · exact Log.clean_warn hc _
        · exact hc) he4
  obtain ⟨s2, s3, inpv, q1, q2, q3, q4⟩ := this
  exact ⟨cs, s2, s3, inpv, by rw [c2, q1], c1, c3, q2, q3, q4⟩

end
end EsbuildModel.Json
