import EsbuildModel.Lemmas.Pieces
import EsbuildModel.Lemmas.IsoHashStream
/-!
The pre-image of the isolated hash as an ENCODING of a tuple
(file entries, template parts, public path, piece data, source-map pieces, legal comments),
and when that encoding is injective.
-/
namespace EsbuildModel.IsoHash
open EsbuildModel.Pieces

/-- what is written for one part range -/
structure FileEntry where
  ns : List Nat
  path : List Nat     -- pretty path for namespace "file", key text otherwise
  pBegin : Nat
  pEnd : Nat
deriving Repr, DecidableEq

/-- everything `generateIsolatedHash` mixes into the hash -/
structure Tuple where
  files : List FileEntry          -- one per part range of a JS chunk, none for a CSS chunk
  tmpl : List (List Nat)          -- `finalTemplate[i].Data`
  pub : List Nat                  -- public path ("" = not written)
  data : List (List Nat)          -- `piece.data` of every piece, or the joiner's bytes as one item
  sm : SMPieces
  smMode : Option Nat             -- `c.options.SourceMap`, written only when the map has content
  legal : List Nat                -- external legal comments ("" = not written)
  legalMode : Option Nat          -- `c.options.LegalComments`, written only behind the legal comments
deriving Repr, DecidableEq

/-- an item that is only written when it is not empty -/
def optItem (b : List Nat) : List (List Nat) := if b = [] then [] else [b]

def encFile (f : FileEntry) : List Nat :=
  lenPrefixed f.ns ++ (lenPrefixed f.path ++ (le32 f.pBegin ++ le32 f.pEnd))

/-- the length-prefixed items that follow the file entries, up to the source-map suffix -/
def items (t : Tuple) : List (List Nat) :=
  t.tmpl ++ (optItem t.pub ++ (t.data ++ [t.sm.pfx, t.sm.mappings, t.sm.sfx]))

/-- a `hashWriteUint32` that is only done under a condition -/
def modeBytes : Option Nat → List Nat
  | none => []
  | some m => le32 m

/-- what follows the source-map suffix: the source-map mode, the legal comments, their mode -/
def tailBytes (t : Tuple) : List Nat :=
  modeBytes t.smMode ++ (Pieces.preimage (optItem t.legal) ++ modeBytes t.legalMode)

/-- the byte string that represents a tuple -/
def encode (t : Tuple) : List Nat :=
  t.files.flatMap encFile ++ (Pieces.preimage (items t) ++ tailBytes t)

/-- the optional fields are present exactly when the code writes them -/
structure Tuple.WF (t : Tuple) : Prop where
  sm : t.smMode.isSome = t.sm.hasContent
  legal : t.legalMode.isSome = true ↔ t.legal ≠ []

def entryOf (files : List FileInfo) (pr : PartRange) : Option FileEntry :=
  match files[pr.sourceIndex]? with
  | none => none
  | some file =>
    some { ns := file.ns, path := if file.ns = nsFile then file.prettyRel else file.keyText,
           pBegin := pr.partIndexBegin, pEnd := pr.partIndexEnd }

def entriesOf (files : List FileInfo) : List PartRange → Option (List FileEntry)
  | [] => some []
  | pr :: rest =>
    match entryOf files pr with
    | none => none
    | some e =>
      match entriesOf files rest with
      | none => none
      | some es => some (e :: es)

def outData : Out → List (List Nat)
  | .pieces ps => ps.map (·.data)
  | .joiner b => [b]

def fileEntries (ctx : Ctx) (c : Chunk) : Option (List FileEntry) :=
  match c.repr with
  | .js parts => entriesOf ctx.files parts
  | .css => some []

/-- the tuple of a chunk (`none`: a part range points outside `c.graph.Files`, the Go code panics) -/
def tupleOf (ctx : Ctx) (c : Chunk) : Option Tuple :=
  match fileEntries ctx c with
  | none => none
  | some es =>
    some { files := es, tmpl := c.finalTemplate, pub := ctx.publicPath, data := outData c.out,
           sm := c.outputSourceMap,
           smMode := if c.outputSourceMap.hasContent then some ctx.sourceMapMode else none,
           legal := c.externalLegalComments,
           legalMode := if c.externalLegalComments = [] then none else some ctx.legalMode }

theorem tupleOf_wf (ctx : Ctx) (c : Chunk) (t : Tuple) (h : tupleOf ctx c = some t) : t.WF := by
  unfold tupleOf at h
  cases he : fileEntries ctx c <;> rw [he] at h <;> simp only [reduceCtorEq, Option.some.injEq] at h
  subst h
  constructor
  · simp only; split <;> simp_all
  · simp only; split <;> simp_all

-- ---------------------------------------------------------------- preimage = encode ∘ tupleOf
theorem flatten_wLP (b : List Nat) : (wLP b).flatten = lenPrefixed b := by
  simp [wLP, wU32, lenPrefixed]

theorem flatten_flatMap_wLP (l : List (List Nat)) : (l.flatMap wLP).flatten = Pieces.preimage l := by
  induction l with
  | nil => rfl
  | cons x xs ih =>
    simp only [List.flatMap_cons, List.flatten_append, ih, flatten_wLP, Pieces.preimage]

theorem preimage_append (a b : List (List Nat)) :
    Pieces.preimage (a ++ b) = Pieces.preimage a ++ Pieces.preimage b := by
  simp [Pieces.preimage]

theorem preimage_single (x : List Nat) : Pieces.preimage [x] = lenPrefixed x := by
  simp [Pieces.preimage]

theorem partWrites_entry (files : List FileInfo) (pr : PartRange) :
    (partWrites files pr).map List.flatten = (entryOf files pr).map encFile := by
  unfold partWrites entryOf
  cases files[pr.sourceIndex]? with
  | none => rfl
  | some f =>
    simp only [Option.map_some, List.flatten_append, flatten_wLP, encFile, wU32, List.flatten_cons,
      List.flatten_nil, List.append_nil, List.append_assoc]

theorem partsWrites_entries (files : List FileInfo) (parts : List PartRange) :
    (partsWrites files parts).map List.flatten
      = (entriesOf files parts).map (fun (es : List FileEntry) => es.flatMap encFile) := by
  induction parts with
  | nil => rfl
  | cons pr rest ih =>
    have h1 := partWrites_entry files pr
    unfold partsWrites entriesOf
    cases hp : partWrites files pr <;> cases he : entryOf files pr <;> simp [hp, he] at h1 ⊢
    cases hr : partsWrites files rest <;> cases hs : entriesOf files rest <;> simp [hr, hs] at ih ⊢
    rw [h1, ih]

theorem outWrites_flatten (o : Out) : (outWrites o).flatten = Pieces.preimage (outData o) := by
  cases o with
  | pieces ps =>
    simp only [outData, outWrites]
    rw [← flatten_flatMap_wLP, List.flatMap_map]
  | joiner b => simp [outData, outWrites, flatten_wLP, preimage_single]

theorem fileWrites_entries (ctx : Ctx) (c : Chunk) :
    (fileWrites ctx c).map List.flatten
      = (fileEntries ctx c).map (fun (es : List FileEntry) => es.flatMap encFile) := by
  unfold fileWrites fileEntries
  cases c.repr with
  | js parts => exact partsWrites_entries ctx.files parts
  | css => rfl

theorem optItem_pub (b : List Nat) :
    (if b ≠ [] then wLP b else []).flatten = Pieces.preimage (optItem b) := by
  unfold optItem
  by_cases h : b = [] <;> simp [h, flatten_wLP, Pieces.preimage]

theorem smMode_flatten (sm : SMPieces) (m : Nat) :
    (if sm.hasContent = true then wU32 m else []).flatten
      = modeBytes (if sm.hasContent = true then some m else none) := by
  split <;> simp [wU32, modeBytes]

theorem legal_flatten (b : List Nat) (l : Nat) :
    (if b.length > 0 then wLP b ++ wU32 l else []).flatten
      = Pieces.preimage (optItem b) ++ modeBytes (if b = [] then none else some l) := by
  unfold optItem
  by_cases h : b = []
  · simp [h, Pieces.preimage, modeBytes]
  · have : b.length > 0 := List.length_pos_iff.2 h
    simp [h, this, flatten_wLP, Pieces.preimage, modeBytes, wU32]

/-- the bytes fed to the hash are the encoding of the chunk's tuple -/
theorem preimage_eq_encode (ctx : Ctx) (c : Chunk) :
    preimage ctx c = (tupleOf ctx c).map encode := by
  have hfiles := fileWrites_entries ctx c
  unfold preimage writes tupleOf
  cases hw : fileWrites ctx c with
  | none =>
    cases he : fileEntries ctx c with
    | none => rfl
    | some es => rw [hw, he] at hfiles; simp at hfiles
  | some fw =>
    cases he : fileEntries ctx c with
    | none => rw [hw, he] at hfiles; simp at hfiles
    | some es =>
      rw [hw, he] at hfiles
      simp only [Option.map_some, Option.some.injEq] at hfiles ⊢
      simp only [encode, items, tailBytes, List.flatten_append, hfiles, flatten_flatMap_wLP, flatten_wLP,
        outWrites_flatten, optItem_pub, smMode_flatten, legal_flatten, preimage_append, List.append_assoc]
      simp [Pieces.preimage]

end EsbuildModel.IsoHash
