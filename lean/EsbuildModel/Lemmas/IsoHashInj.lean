import EsbuildModel.Lemmas.IsoHash
/-! Injectivity of the tuple encoding (under the shape hypotheses that the code leaves unwritten). -/
namespace EsbuildModel.IsoHash
open EsbuildModel.Pieces

/-- every length written fits the uint32 prefix, every part index is a uint32 -/
structure Fits (t : Tuple) : Prop where
  files : ∀ f ∈ t.files, f.ns.length < 4294967296 ∧ f.path.length < 4294967296 ∧
            f.pBegin < 4294967296 ∧ f.pEnd < 4294967296
  items : ∀ x ∈ items t, x.length < 4294967296

/-- `{`: the first byte of every source map esbuild generates -/
def lbrace : Nat := 123

/-- the three source-map pieces are all empty (no source map), or the prefix starts with `{`
(`generateSourceMapForChunk` begins with `{\n  "version": 3`) and the mappings (base64 VLQ digits, `,`
and `;`) do not -/
def SMShape (sm : SMPieces) : Prop :=
  (sm.pfx = [] ∧ sm.mappings = [] ∧ sm.sfx = []) ∨
  (sm.pfx.head? = some lbrace ∧ sm.mappings.head? ≠ some lbrace)

theorem lenPrefixed_append_inj (x y r s : List Nat) (hx : x.length < 4294967296) (hy : y.length < 4294967296)
    (h : lenPrefixed x ++ r = lenPrefixed y ++ s) : x = y ∧ r = s := by
  simp only [lenPrefixed, List.append_assoc] at h
  have h1 := List.append_inj h (by simp [le32_length])
  have hl : x.length = y.length := by
    have := le32_inj _ _ (Nat.mod_lt _ (by decide)) (Nat.mod_lt _ (by decide)) h1.1
    rw [Nat.mod_eq_of_lt hx, Nat.mod_eq_of_lt hy] at this
    exact this
  exact List.append_inj h1.2 hl

theorem le32_append_inj (a b : Nat) (r s : List Nat) (ha : a < 4294967296) (hb : b < 4294967296)
    (h : le32 a ++ r = le32 b ++ s) : a = b ∧ r = s := by
  have h1 := List.append_inj h (by simp [le32_length])
  exact ⟨le32_inj a b ha hb h1.1, h1.2⟩

theorem encFile_append_inj (f g : FileEntry) (r s : List Nat)
    (hf : f.ns.length < 4294967296 ∧ f.path.length < 4294967296 ∧ f.pBegin < 4294967296 ∧ f.pEnd < 4294967296)
    (hg : g.ns.length < 4294967296 ∧ g.path.length < 4294967296 ∧ g.pBegin < 4294967296 ∧ g.pEnd < 4294967296)
    (h : encFile f ++ r = encFile g ++ s) : f = g ∧ r = s := by
  simp only [encFile, List.append_assoc] at h
  obtain ⟨h1, h⟩ := lenPrefixed_append_inj _ _ _ _ hf.1 hg.1 h
  obtain ⟨h2, h⟩ := lenPrefixed_append_inj _ _ _ _ hf.2.1 hg.2.1 h
  obtain ⟨h3, h⟩ := le32_append_inj _ _ _ _ hf.2.2.1 hg.2.2.1 h
  obtain ⟨h4, h⟩ := le32_append_inj _ _ _ _ hf.2.2.2 hg.2.2.2 h
  refine ⟨?_, h⟩
  cases f; cases g; simp_all

/-- a file entry followed by anything never looks like an item list whose first item is not the
entry's namespace -/
theorem encFile_vs_items (g : FileEntry) (s : List Nat) (I : List (List Nat))
    (hg : g.ns.length < 4294967296) (hI : ∀ x ∈ I, x.length < 4294967296)
    (hne : I ≠ []) (hfresh : I.head? ≠ some g.ns) :
    Pieces.preimage I ≠ encFile g ++ s := by
  intro h
  cases I with
  | nil => exact hne rfl
  | cons i I' =>
    rw [Pieces.preimage_cons] at h
    have h' : lenPrefixed i ++ Pieces.preimage I' = lenPrefixed g.ns ++ (lenPrefixed g.path ++ (le32 g.pBegin ++ le32 g.pEnd) ++ s) := by
      simp only [encFile, lenPrefixed, List.append_assoc] at h ⊢
      exact h
    have := (lenPrefixed_append_inj _ _ _ _ (hI i (by simp)) hg h').1
    exact hfresh (by simp [this])

/-- step 1: the file entries and the item list can be read back -/
theorem files_items_inj (F : List FileEntry) : ∀ (G : List FileEntry) (I J : List (List Nat)),
    (∀ f ∈ F, f.ns.length < 4294967296 ∧ f.path.length < 4294967296 ∧ f.pBegin < 4294967296 ∧ f.pEnd < 4294967296) →
    (∀ f ∈ G, f.ns.length < 4294967296 ∧ f.path.length < 4294967296 ∧ f.pBegin < 4294967296 ∧ f.pEnd < 4294967296) →
    (∀ x ∈ I, x.length < 4294967296) → (∀ x ∈ J, x.length < 4294967296) →
    I ≠ [] → J ≠ [] →
    (∀ f ∈ G, I.head? ≠ some f.ns) → (∀ f ∈ F, J.head? ≠ some f.ns) →
    F.flatMap encFile ++ Pieces.preimage I = G.flatMap encFile ++ Pieces.preimage J →
    F = G ∧ I = J := by
  induction F with
  | nil =>
    intro G I J _ hG hI hJ hIne _ hfG _ h
    cases G with
    | nil => exact ⟨rfl, preimage_injective I J hI hJ (by simpa using h)⟩
    | cons g G' =>
      exfalso
      simp only [List.flatMap_nil, List.nil_append, List.flatMap_cons, List.append_assoc] at h
      exact encFile_vs_items g _ I (hG g (by simp)).1 hI hIne (hfG g (by simp)) h
  | cons f F' ih =>
    intro G I J hF hG hI hJ hIne hJne hfG hfF h
    cases G with
    | nil =>
      exfalso
      simp only [List.flatMap_nil, List.nil_append, List.flatMap_cons, List.append_assoc] at h
      exact encFile_vs_items f _ J (hF f (by simp)).1 hJ hJne (hfF f (by simp)) h.symm
    | cons g G' =>
      simp only [List.flatMap_cons, List.append_assoc] at h
      obtain ⟨hfg, hrest⟩ := encFile_append_inj f g _ _ (hF f (by simp)) (hG g (by simp)) h
      obtain ⟨h1, h2⟩ := ih G' I J (fun x hx => hF x (by simp [hx])) (fun x hx => hG x (by simp [hx]))
        hI hJ hIne hJne (fun x hx => hfG x (by simp [hx])) (fun x hx => hfF x (by simp [hx])) hrest
      exact ⟨by rw [hfg, h1], h2⟩

theorem optItem_inj (p q : List Nat) (r s : List (List Nat)) (hpq : p = [] ↔ q = [])
    (h : optItem p ++ r = optItem q ++ s) : p = q ∧ r = s := by
  unfold optItem at h
  by_cases hp : p = []
  · have hq := hpq.1 hp
    simp only [hp, hq, if_true, List.nil_append] at h
    exact ⟨by rw [hp, hq], h⟩
  · have hq : q ≠ [] := fun hq => hp (hpq.2 hq)
    simp only [hp, hq, if_false, List.cons_append, List.nil_append, List.cons.injEq] at h
    exact h

/-- the mixed case of `tail_inj`: one side wrote legal comments, the other did not -/
theorem tail_mixed_absurd (D D' : List (List Nat)) (sm sm' : SMPieces) (L' : List Nat)
    (hs : SMShape sm) (hs' : SMShape sm') (hL' : L' ≠ [])
    (h : D ++ [sm.pfx, sm.mappings, sm.sfx] = D' ++ [sm'.pfx, sm'.mappings, sm'.sfx, L']) : False := by
  have h2 : D ++ [sm.pfx, sm.mappings, sm.sfx] = (D' ++ [sm'.pfx]) ++ [sm'.mappings, sm'.sfx, L'] := by
    rw [h]; simp
  have h3 := (List.append_inj' h2 (by simp)).2
  simp only [List.cons.injEq, and_true] at h3
  obtain ⟨ha, _, hc⟩ := h3
  -- sm.sfx = L' ≠ [] so sm is a real source map; its prefix starts with `{`; that prefix is sm'.mappings
  rcases hs with ⟨_, _, h0⟩ | ⟨hp, _⟩
  · exact hL' (by rw [← hc, h0])
  · rcases hs' with ⟨_, hm0, _⟩ | ⟨_, hm⟩
    · rw [ha, hm0] at hp; simp at hp
    · exact hm (by rw [← ha]; exact hp)

/-- step 2b: the pieces' data, the source-map pieces and the legal comments can be read back from the
END of the item list, although neither the number of pieces nor the presence of the comments is written -/
theorem tail_inj (D D' : List (List Nat)) (sm sm' : SMPieces) (L L' : List Nat)
    (hs : SMShape sm) (hs' : SMShape sm')
    (h : D ++ ([sm.pfx, sm.mappings, sm.sfx] ++ optItem L) = D' ++ ([sm'.pfx, sm'.mappings, sm'.sfx] ++ optItem L')) :
    D = D' ∧ sm = sm' ∧ L = L' := by
  unfold optItem at h
  by_cases hL : L = [] <;> by_cases hL' : L' = []
  · simp only [hL, hL', if_true, List.append_nil] at h
    obtain ⟨h1, h2⟩ := List.append_inj' h (by simp)
    simp only [List.cons.injEq, and_true] at h2
    refine ⟨h1, ?_, by rw [hL, hL']⟩
    cases sm; cases sm'; simp_all
  · exfalso
    simp only [hL, hL', if_true, if_false, List.append_nil, List.cons_append, List.nil_append] at h
    exact tail_mixed_absurd D D' sm sm' L' hs hs' hL' h
  · exfalso
    simp only [hL, hL', if_true, if_false, List.append_nil, List.cons_append, List.nil_append] at h
    exact tail_mixed_absurd D' D sm' sm L hs' hs hL h.symm
  · simp only [hL, hL', if_false, List.cons_append, List.nil_append] at h
    obtain ⟨h1, h2⟩ := List.append_inj' h (by simp)
    simp only [List.cons.injEq, and_true] at h2
    refine ⟨h1, ?_, h2.2.2.2⟩
    cases sm; cases sm'; simp_all

/-- step 2: the item list determines the fields when the number of template parts and the presence of
the public path are known -/
theorem items_inj (a b : Tuple) (hT : a.tmpl.length = b.tmpl.length) (hP : a.pub = [] ↔ b.pub = [])
    (hs : SMShape a.sm) (hs' : SMShape b.sm) (h : items a = items b) :
    a.tmpl = b.tmpl ∧ a.pub = b.pub ∧ a.data = b.data ∧ a.sm = b.sm ∧ a.legal = b.legal := by
  unfold items at h
  obtain ⟨h1, h⟩ := List.append_inj h hT
  obtain ⟨h2, h⟩ := optItem_inj _ _ _ _ hP h
  obtain ⟨h3, h4, h5⟩ := tail_inj _ _ _ _ _ _ hs hs' h
  exact ⟨h1, h2, h3, h4, h5⟩

theorem items_ne_nil (t : Tuple) : items t ≠ [] := by
  unfold items
  intro h
  have := congrArg List.length h
  simp at this

/-- the first item after the file entries is the first template part when there is one -/
theorem items_head (t : Tuple) (h : t.tmpl ≠ []) : (items t).head? = t.tmpl.head? := by
  unfold items
  cases ht : t.tmpl with
  | nil => exact absurd ht h
  | cons x xs => rfl

end EsbuildModel.IsoHash
