import EsbuildModel.Lemmas.IsoHash
/-! Injectivity of the tuple encoding (under the shape hypotheses that the code leaves unwritten). -/
namespace EsbuildModel.IsoHash
open EsbuildModel.Pieces

/-- every length written fits the uint32 prefix, every part index is a uint32 -/
structure Fits (t : Tuple) : Prop where
  files : ∀ f ∈ t.files, f.ns.length < 4294967296 ∧ f.path.length < 4294967296 ∧
            f.pBegin < 4294967296 ∧ f.pEnd < 4294967296
  items : ∀ x ∈ items t, x.length < 4294967296
  legal : t.legal.length < 4294967296
  smMode : ∀ m, t.smMode = some m → m < 4294967296
  legalMode : ∀ m, t.legalMode = some m → m < 4294967296

/-- `{`: the first byte of every source map esbuild generates -/
def lbrace : Nat := 123

/-- the three source-map pieces are all empty (no source map), or the prefix starts with `{`
(`generateSourceMapForChunk` begins with `{\n  "version": 3`) and the mappings (base64 VLQ digits, `,`
and `;`) do not -/
def SMShape (sm : SMPieces) : Prop :=
  (sm.pfx = [] ∧ sm.mappings = [] ∧ sm.sfx = []) ∨
  (sm.pfx.head? = some lbrace ∧ sm.mappings.head? ≠ some lbrace)

theorem lenPrefixed_append_inj (x y r s : List Nat) (hx : x.length < 4294967296) (hy : y.length < 4294967296)
    (h : lenPrefixed x ++ r = lenPrefixed y ++ s) : x = y ∧ r = s := by
  simp only [lenPrefixed, List.append_assoc] at h
  have h1 := List.append_inj h (by simp [le32_length])
  have hl : x.length = y.length := by
    have := le32_inj _ _ (Nat.mod_lt _ (by decide)) (Nat.mod_lt _ (by decide)) h1.1
    rw [Nat.mod_eq_of_lt hx, Nat.mod_eq_of_lt hy] at this
    exact this
  exact List.append_inj h1.2 hl

theorem le32_append_inj (a b : Nat) (r s : List Nat) (ha : a < 4294967296) (hb : b < 4294967296)
    (h : le32 a ++ r = le32 b ++ s) : a = b ∧ r = s := by
  have h1 := List.append_inj h (by simp [le32_length])
  exact ⟨le32_inj a b ha hb h1.1, h1.2⟩

theorem encFile_append_inj (f g : FileEntry) (r s : List Nat)
    (hf : f.ns.length < 4294967296 ∧ f.path.length < 4294967296 ∧ f.pBegin < 4294967296 ∧ f.pEnd < 4294967296)
    (hg : g.ns.length < 4294967296 ∧ g.path.length < 4294967296 ∧ g.pBegin < 4294967296 ∧ g.pEnd < 4294967296)
    (h : encFile f ++ r = encFile g ++ s) : f = g ∧ r = s := by
  simp only [encFile, List.append_assoc] at h
  obtain ⟨h1, h⟩ := lenPrefixed_append_inj _ _ _ _ hf.1 hg.1 h
  obtain ⟨h2, h⟩ := lenPrefixed_append_inj _ _ _ _ hf.2.1 hg.2.1 h
  obtain ⟨h3, h⟩ := le32_append_inj _ _ _ _ hf.2.2.1 hg.2.2.1 h
  obtain ⟨h4, h⟩ := le32_append_inj _ _ _ _ hf.2.2.2 hg.2.2.2 h
  refine ⟨?_, h⟩
  cases f; cases g; simp_all

/-- a file entry followed by anything never looks like an item list whose first item is not the
entry's namespace -/
theorem encFile_vs_items (g : FileEntry) (r s : List Nat) (I : List (List Nat))
    (hg : g.ns.length < 4294967296) (hI : ∀ x ∈ I, x.length < 4294967296)
    (hne : I ≠ []) (hfresh : I.head? ≠ some g.ns) :
    Pieces.preimage I ++ r ≠ encFile g ++ s := by
  intro h
  cases I with
  | nil => exact hne rfl
  | cons i I' =>
    rw [Pieces.preimage_cons] at h
    have h' : lenPrefixed i ++ (Pieces.preimage I' ++ r)
        = lenPrefixed g.ns ++ (lenPrefixed g.path ++ (le32 g.pBegin ++ le32 g.pEnd) ++ s) := by
      simp only [encFile, lenPrefixed, List.append_assoc] at h ⊢
      exact h
    have := (lenPrefixed_append_inj _ _ _ _ (hI i (by simp)) hg h').1
    exact hfresh (by simp [this])

/-- step 1: the file entries can be read back; what follows them is left over -/
theorem files_inj (F : List FileEntry) : ∀ (G : List FileEntry) (I J : List (List Nat)) (r s : List Nat),
    (∀ f ∈ F, f.ns.length < 4294967296 ∧ f.path.length < 4294967296 ∧ f.pBegin < 4294967296 ∧ f.pEnd < 4294967296) →
    (∀ f ∈ G, f.ns.length < 4294967296 ∧ f.path.length < 4294967296 ∧ f.pBegin < 4294967296 ∧ f.pEnd < 4294967296) →
    (∀ x ∈ I, x.length < 4294967296) → (∀ x ∈ J, x.length < 4294967296) →
    I ≠ [] → J ≠ [] →
    (∀ f ∈ G, I.head? ≠ some f.ns) → (∀ f ∈ F, J.head? ≠ some f.ns) →
    F.flatMap encFile ++ (Pieces.preimage I ++ r) = G.flatMap encFile ++ (Pieces.preimage J ++ s) →
    F = G ∧ Pieces.preimage I ++ r = Pieces.preimage J ++ s := by
  induction F with
  | nil =>
    intro G I J r s _ hG hI hJ hIne _ hfG _ h
    cases G with
    | nil => exact ⟨rfl, by simpa using h⟩
    | cons g G' =>
      exfalso
      simp only [List.flatMap_nil, List.nil_append, List.flatMap_cons, List.append_assoc] at h
      exact encFile_vs_items g r _ I (hG g (by simp)).1 hI hIne (hfG g (by simp)) h
  | cons f F' ih =>
    intro G I J r s hF hG hI hJ hIne hJne hfG hfF h
    cases G with
    | nil =>
      exfalso
      simp only [List.flatMap_nil, List.nil_append, List.flatMap_cons, List.append_assoc] at h
      exact encFile_vs_items f s _ J (hF f (by simp)).1 hJ hJne (hfF f (by simp)) h.symm
    | cons g G' =>
      simp only [List.flatMap_cons, List.append_assoc] at h
      obtain ⟨hfg, hrest⟩ := encFile_append_inj f g _ _ (hF f (by simp)) (hG g (by simp)) h
      obtain ⟨h1, h2⟩ := ih G' I J r s (fun x hx => hF x (by simp [hx])) (fun x hx => hG x (by simp [hx]))
        hI hJ hIne hJne (fun x hx => hfG x (by simp [hx])) (fun x hx => hfF x (by simp [hx])) hrest
      exact ⟨by rw [hfg, h1], h2⟩

/-- item lists of the same length can be peeled off the front -/
theorem preimage_peel (X : List (List Nat)) : ∀ (Y : List (List Nat)) (r s : List Nat),
    X.length = Y.length → (∀ x ∈ X, x.length < 4294967296) → (∀ x ∈ Y, x.length < 4294967296) →
    Pieces.preimage X ++ r = Pieces.preimage Y ++ s → X = Y ∧ r = s := by
  induction X with
  | nil =>
    intro Y r s hl _ _ h
    have : Y = [] := List.eq_nil_of_length_eq_zero (by simpa using hl.symm)
    subst this
    exact ⟨rfl, by simpa [Pieces.preimage] using h⟩
  | cons x X ih =>
    intro Y r s hl hX hY h
    cases Y with
    | nil => simp at hl
    | cons y Y =>
      rw [Pieces.preimage_cons, Pieces.preimage_cons] at h
      simp only [List.append_assoc] at h
      have h' : lenPrefixed x ++ (Pieces.preimage X ++ r) = lenPrefixed y ++ (Pieces.preimage Y ++ s) := by
        simpa [lenPrefixed] using h
      obtain ⟨hxy, hrest⟩ := lenPrefixed_append_inj _ _ _ _ (hX x (by simp)) (hY y (by simp)) h'
      obtain ⟨h1, h2⟩ := ih Y r s (by simpa using hl) (fun z hz => hX z (by simp [hz]))
        (fun z hz => hY z (by simp [hz])) hrest
      exact ⟨by rw [hxy, h1], h2⟩

/-- two item lists followed by arbitrary bytes: one list is a prefix of the other -/
theorem preimage_prefix (X : List (List Nat)) : ∀ (Y : List (List Nat)) (r s : List Nat),
    (∀ x ∈ X, x.length < 4294967296) → (∀ x ∈ Y, x.length < 4294967296) →
    Pieces.preimage X ++ r = Pieces.preimage Y ++ s →
    (∃ K, X = Y ++ K ∧ Pieces.preimage K ++ r = s) ∨ (∃ K, Y = X ++ K ∧ r = Pieces.preimage K ++ s) := by
  induction X with
  | nil =>
    intro Y r s _ _ h
    exact Or.inr ⟨Y, by simp, by simpa [Pieces.preimage] using h⟩
  | cons x X ih =>
    intro Y r s hX hY h
    cases Y with
    | nil => exact Or.inl ⟨x :: X, by simp, by simpa [Pieces.preimage] using h⟩
    | cons y Y =>
      rw [Pieces.preimage_cons, Pieces.preimage_cons] at h
      simp only [List.append_assoc] at h
      have h' : lenPrefixed x ++ (Pieces.preimage X ++ r) = lenPrefixed y ++ (Pieces.preimage Y ++ s) := by
        simpa [lenPrefixed] using h
      obtain ⟨hxy, hrest⟩ := lenPrefixed_append_inj _ _ _ _ (hX x (by simp)) (hY y (by simp)) h'
      rcases ih Y r s (fun z hz => hX z (by simp [hz])) (fun z hz => hY z (by simp [hz])) hrest with
        ⟨K, hK, hr⟩ | ⟨K, hK, hr⟩
      · exact Or.inl ⟨K, by rw [hxy, hK]; rfl, hr⟩
      · exact Or.inr ⟨K, by rw [hxy, hK]; rfl, hr⟩

theorem optItem_length (p q : List Nat) (hpq : p = [] ↔ q = []) : (optItem p).length = (optItem q).length := by
  unfold optItem
  by_cases hp : p = []
  · simp [hp, hpq.1 hp]
  · have : q ≠ [] := fun hq => hp (hpq.2 hq)
    simp [hp, this]

theorem optItem_eq (p q : List Nat) (h : optItem p = optItem q) : p = q := by
  unfold optItem at h
  by_cases hp : p = [] <;> by_cases hq : q = [] <;> simp_all

theorem items_ne_nil (t : Tuple) : items t ≠ [] := by
  unfold items
  intro h
  have := congrArg List.length h
  simp at this

/-- the first item after the file entries is the first template part when there is one -/
theorem items_head (t : Tuple) (h : t.tmpl ≠ []) : (items t).head? = t.tmpl.head? := by
  unfold items
  cases ht : t.tmpl with
  | nil => exact absurd ht h
  | cons x xs => rfl

end EsbuildModel.IsoHash
