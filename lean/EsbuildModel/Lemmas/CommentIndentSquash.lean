import EsbuildModel.Lemmas.CommentIndentLines
/-!
Why the re-indented text of a comment is still ONE comment: the result arises from the text by keeping bytes and by
replacing non-empty runs of bytes other than `*` and `/` (a terminator sequence plus the indentation cut off the next
line) by one LF.  Such a rewriting (`Squash`) can neither create nor destroy an occurrence of `*/`, nor move one to or
from the end.
-/
namespace EsbuildModel.CommentIndent
open EsbuildModel.Spec.CommentIndent

/-- no `*`, no `/` -/
def Plain (j : List Nat) : Prop := ∀ x ∈ j, x ≠ 42 ∧ x ≠ 47

inductive Squash : List Nat → List Nat → Prop
  | nil : Squash [] []
  | keep (b : Nat) {t r : List Nat} : Squash t r → Squash (b :: t) (b :: r)
  | gap (j : List Nat) {t r : List Nat} : j ≠ [] → Plain j → Squash t r → Squash (j ++ t) (10 :: r)

theorem Squash.refl : ∀ l : List Nat, Squash l l
  | [] => .nil
  | b :: l => .keep b (Squash.refl l)

theorem Squash.prefix : ∀ (x : List Nat) {t r : List Nat}, Squash t r → Squash (x ++ t) (x ++ r)
  | [], _, _, h => h
  | b :: x, _, _, h => .keep b (Squash.prefix x h)

theorem Squash.nil_left {r : List Nat} (h : Squash [] r) : r = [] := by
  generalize hs : ([] : List Nat) = s at h
  cases h with
  | nil => rfl
  | keep b _ => cases hs
  | gap j hj _ _ =>
    cases j with
    | nil => exact absurd rfl hj
    | cons _ _ => cases hs

/-- a `*` or `/` at the front is kept -/
theorem Squash.head {b : Nat} {t r : List Nat} (h : Squash (b :: t) r) (hb : b = 42 ∨ b = 47) :
    ∃ r', r = b :: r' ∧ Squash t r' := by
  generalize hs : b :: t = s at h
  cases h with
  | nil => cases hs
  | keep b' h' => cases hs; exact ⟨_, rfl, h'⟩
  | gap j hj hp _ =>
    cases j with
    | nil => exact absurd rfl hj
    | cons x j' =>
      simp only [List.cons_append, List.cons.injEq] at hs
      have := hp x (by simp)
      omega

/-- a byte other than LF at the front of the result was kept -/
theorem Squash.head_result {c : Nat} {t r : List Nat} (h : Squash t (c :: r)) (hc : c ≠ 10) :
    ∃ t', t = c :: t' ∧ Squash t' r := by
  generalize hs : c :: r = s at h
  cases h with
  | nil => cases hs
  | keep b' h' => cases hs; exact ⟨_, rfl, h'⟩
  | gap j _ _ _ => simp only [List.cons.injEq] at hs; omega

/-- an occurrence of `*/` in the result comes from one in the text, with related remainders -/
theorem Squash.infix {t r : List Nat} (h : Squash t r) : ∀ (a b : List Nat), r = a ++ [42, 47] ++ b →
    ∃ a' b', t = a' ++ [42, 47] ++ b' ∧ Squash b' b := by
  induction h with
  | nil => intro a b h; simp at h
  | keep x h' ih =>
    intro a b hr
    cases a with
    | nil =>
      simp only [List.nil_append, List.cons_append, List.cons.injEq] at hr
      obtain ⟨rfl, rfl⟩ := hr
      obtain ⟨t', rfl, hsq⟩ := Squash.head_result h' (by omega)
      exact ⟨[], t', rfl, hsq⟩
    | cons y a2 =>
      simp only [List.cons_append, List.cons.injEq] at hr
      obtain ⟨rfl, hr1⟩ := hr
      obtain ⟨a', b', rfl, hsq⟩ := ih a2 b (by simpa using hr1)
      exact ⟨x :: a', b', by simp, hsq⟩
  | gap j hj hp h' ih =>
    intro a b hr
    cases a with
    | nil => simp at hr
    | cons y a2 =>
      simp only [List.cons_append, List.cons.injEq] at hr
      obtain ⟨_, hr1⟩ := hr
      obtain ⟨a', b', rfl, hsq⟩ := ih a2 b (by simpa using hr1)
      exact ⟨j ++ a', b', by simp, hsq⟩

/-- `*/` at the end of the text is `*/` at the end of the result -/
theorem Squash.tail {t0 r : List Nat} (h : Squash t0 r) : ∀ t, t0 = t ++ [42, 47] →
    ∃ r', r = r' ++ [42, 47] ∧ Squash t r' := by
  induction h with
  | nil => intro t h; simp at h
  | keep x h' ih =>
    intro t ht
    cases t with
    | nil =>
      simp only [List.nil_append, List.cons.injEq] at ht
      obtain ⟨rfl, rfl⟩ := ht
      obtain ⟨r', rfl, hsq⟩ := Squash.head h' (Or.inr rfl)
      have := Squash.nil_left hsq
      subst this
      exact ⟨[], rfl, .nil⟩
    | cons y t2 =>
      simp only [List.cons_append, List.cons.injEq] at ht
      obtain ⟨rfl, rfl⟩ := ht
      obtain ⟨r', rfl, hsq⟩ := ih t2 rfl
      exact ⟨x :: r', rfl, .keep x hsq⟩
  | gap j hj hp h' ih =>
    intro t ht
    rename_i t1 r1
    rcases List.append_eq_append_iff.mp ht with ⟨a', rfl, ht1⟩ | ⟨c', hjc, hc⟩
    · obtain ⟨r', rfl, hsq⟩ := ih a' ht1
      exact ⟨10 :: r', rfl, .gap j hj hp hsq⟩
    · cases c' with
      | nil =>
        simp only [List.append_nil, List.nil_append] at hjc hc
        subst hjc
        obtain ⟨r', rfl, hsq⟩ := ih [] (by simpa using hc.symm)
        exact ⟨10 :: r', rfl, by simpa using Squash.gap j hj hp hsq⟩
      | cons x c'' =>
        simp only [List.cons_append, List.cons.injEq] at hc
        have := hp x (by rw [hjc]; simp)
        omega


/-! ### the routine's result is a squashing of the text -/

theorem isTermSeq_plain (t : List Nat) (h : IsTermSeq t) : t ≠ [] ∧ Plain t := by
  rcases h with rfl | rfl | rfl | rfl | rfl <;> refine ⟨by simp, ?_⟩ <;> intro x hx <;> simp at hx <;> omega

theorem ws_plain (j : List Nat) (h : ∀ x ∈ j, isWs x = true) : Plain j := by
  intro x hx
  have := h x hx
  simp [isWs] at this
  omega

theorem Plain.append {a b : List Nat} (ha : Plain a) (hb : Plain b) : Plain (a ++ b) := by
  intro x hx
  rcases List.mem_append.mp hx with h | h
  · exact ha x h
  · exact hb x h

/-- later lines: a (non-empty, plain) junk prefix, then the text `s` whose lines all lose `k` white-space bytes -/
theorem squash_later (k : Nat) : ∀ (s j : List Nat), j ≠ [] → Plain j →
    (∀ l ∈ Spec.CommentIndent.splitLines s, k ≤ wsLen l) →
    Squash (j ++ s) ((Spec.CommentIndent.splitLines s).flatMap (fun x => 10 :: x.drop k)) := by
  intro s j hj hp hk
  obtain ⟨m, _, hcase⟩ := split_decomp s
  rcases hcase with ⟨hs, hl⟩ | ⟨t, s', hs, htt, hl⟩
  · rw [hl] at hk ⊢
    have hkm := hk m (by simp)
    simp only [List.flatMap_cons, List.flatMap_nil, List.append_nil]
    have : j ++ s = (j ++ m.take k) ++ m.drop k := by rw [hs]; simp
    rw [this]
    exact .gap _ (by simp [hj]) (hp.append (ws_plain _ (take_le_wsLen_ws m k hkm))) (Squash.refl _)
  · rw [hl] at hk ⊢
    have hkm := hk m (by simp)
    have hlt : s'.length < s.length := by
      have := (isTermSeq_plain t htt).1
      rw [hs]; simp only [List.length_append]
      cases t with
      | nil => exact absurd rfl this
      | cons _ _ => simp; omega
    have ih := squash_later k s' t (isTermSeq_plain t htt).1 (isTermSeq_plain t htt).2
      (fun l hl' => hk l (List.mem_cons_of_mem _ hl'))
    simp only [List.flatMap_cons]
    have : j ++ s = (j ++ m.take k) ++ (m.drop k ++ (t ++ s')) := by
      rw [hs]; simp only [List.append_assoc]; rw [← List.append_assoc (List.take k m), List.take_append_drop]
    rw [this]
    have h2 : 10 :: List.drop k m ++ List.flatMap (fun x => 10 :: List.drop k x) (Spec.CommentIndent.splitLines s')
        = 10 :: (List.drop k m ++ List.flatMap (fun x => 10 :: List.drop k x) (Spec.CommentIndent.splitLines s')) := rfl
    rw [h2]
    exact .gap _ (by simp [hj]) (hp.append (ws_plain _ (take_le_wsLen_ws m k hkm))) (Squash.prefix _ ih)
termination_by s => s.length

/-- the text and what the routine makes of it -/
theorem squash_dedent (text first : List Nat) (later : List (List Nat)) (k : Nat)
    (hsp : Spec.CommentIndent.splitLines text = first :: later) (hk : ∀ l ∈ later, k ≤ wsLen l) :
    Squash text (joinLF (first :: later.map (List.drop k))) := by
  obtain ⟨m, _, hcase⟩ := split_decomp text
  rcases hcase with ⟨hs, hl⟩ | ⟨t, s', hs, htt, hl⟩
  · rw [hsp] at hl
    injection hl with h1 h2
    subst h1; subst h2
    rw [hs]; simpa [joinLF] using Squash.refl first
  · rw [hsp] at hl
    injection hl with h1 h2
    subst h1
    have := squash_later k s' t (isTermSeq_plain t htt).1 (isTermSeq_plain t htt).2 (by rw [← h2]; exact hk)
    rw [← h2] at this
    rw [hs]
    simp only [joinLF, List.flatMap_map, List.append_assoc]
    exact Squash.prefix _ this

/-- squashing a complete comment gives a complete comment: it still starts with `/*`, ends with `*/`, and `*/` occurs
nowhere earlier -/
theorem isComment_of_squash (text r : List Nat) (hc : IsComment text) (hsq : Squash text r) : IsComment r := by
  obtain ⟨body, rfl, hno⟩ := hc
  simp only [List.cons_append, List.nil_append] at hsq
  obtain ⟨r1, rfl, h1⟩ := Squash.head hsq (Or.inr rfl)
  obtain ⟨r2, rfl, h2⟩ := Squash.head h1 (Or.inl rfl)
  obtain ⟨body', rfl, h3⟩ := Squash.tail h2 body rfl
  refine ⟨body', by simp, ?_⟩
  rintro ⟨a, b, hab⟩
  -- an early `*/` in the result would come from an early `*/` in the text
  have hocc : body' ++ [42, 47] = a ++ [42, 47] ++ (b ++ [47]) := by
    have : body' ++ [42, 47] = (body' ++ [42]) ++ [47] := by simp
    rw [this, ← hab]; simp
  obtain ⟨a', b', ht, hb'⟩ := Squash.infix h2 a (b ++ [47]) hocc
  cases hbl : b'.reverse with
  | nil =>
    have : b' = [] := by simpa using hbl
    subst this
    have := Squash.nil_left hb'
    simp at this
  | cons z w =>
    have hb2 : b' = w.reverse ++ [z] := by
      have := congrArg List.reverse hbl
      simpa using this
    rw [hb2] at ht
    have hsplit : body ++ [42] ++ [47] = (a' ++ [42, 47] ++ w.reverse) ++ [z] := by
      simpa using ht
    have hinj := List.append_inj' hsplit rfl
    exact hno ⟨a', w.reverse, hinj.1.symm⟩

end EsbuildModel.CommentIndent
