import EsbuildModel.Lemmas.CssSpecSim7
/-!
Bridge from what `Tokenize` returns (`implView`: kinds, `Token.DecodedText`, `UnitOffset`, `IsID`) to the view of the
specification's token that the simulation relates it to (`outSpecView`).
-/
namespace EsbuildModel.CssLex
open EsbuildModel.Spec
open EsbuildModel.Spec.Unicode (IsScalar)

/-- two views agree; the value of a URL token is not compared here (see `Props/C16CssSyntax.lean`) -/
def ViewMatch (iv sv : View) : Prop :=
  iv.kind = sv.kind ∧ iv.unit = sv.unit ∧ iv.isID = sv.isID ∧ (iv.kind ≠ .TURL → iv.value = sv.value)

theorem take_of_append {α} (X r : List α) : (X ++ r).take ((X ++ r).length - r.length) = X := by
  simp

/-- the code points of `decodeEscapesInToken` on the bytes of a name the lexer saw -/
theorem name_text (s : List Ch) (ht : Tame s) :
    cpsOf (decodeAll (decodeEscapes (rawOf (nameChars s)))) = (nameCps s).1 := by
  have happ := nameChars_append s
  have hdec : IsDec (nameChars s ++ (nameCps s).2) := by rw [happ]; exact ht.dec
  rw [decodeEscapes_cps _ _ hdec]
  have := decCps_name s [] List.nil_prefix (fun c hc => ht.noNul c (by rw [← happ]; simp [hc]))
  simpa [decCps] using this

/-- `implView` of the token `next()` builds from the result of the `switch` -/
def lexedImplView (c : Ch) (t : List Ch) (l : Lexed) : View :=
  implView ⟨l.kind, c :: t, l.rest, l.unitS, l.isID, false, 0, [], none⟩

theorem implView_congr (o o' : NextOut) (h1 : o.kind = o'.kind) (h2 : o.startS = o'.startS) (h3 : o.rest = o'.rest)
    (h4 : o.unitS = o'.unitS) (h5 : o.isID = o'.isID) : implView o = implView o' := by
  unfold implView NextOut.chars; rw [h1, h2, h3, h4, h5]

theorem chars_eq (o : NextOut) (X : List Ch) (h : o.startS = X ++ o.rest) : o.chars = X := by
  unfold NextOut.chars; rw [h]; exact take_of_append X o.rest

theorem ViewMatch.rfl' (v : View) : ViewMatch v v := ⟨rfl, rfl, rfl, fun _ => rfl⟩

theorem bridge_string (c : Ch) (t : List Ch) (ht : Tame (c :: t)) (hq : c.cp = 34 ∨ c.cp = 39)
    (hl : lexOther c t = .ofPair (stringLoop c.cp t)) :
    ViewMatch (lexedImplView c t (lexOther c t)) (otherView c t) := by
  unfold lexedImplView otherView
  rw [hl]
  simp only [Lexed.ofPair]
  rcases stringLoop_kind c.cp t with hk | hk
  · -- terminated
    obtain ⟨cq, hcq, hsplit⟩ := strChars_split c.cp t hk
    have hchars : (c :: t).take ((c :: t).length - (stringLoop c.cp t).2.length) = c :: (strChars c.cp t ++ [cq]) := by
      have : c :: t = (c :: (strChars c.cp t ++ [cq])) ++ (stringLoop c.cp t).2 := by
        conv => lhs; rw [hsplit]
        simp
      conv => lhs; rw [this]
      exact take_of_append _ _
    have hwc := (ht.dec.wf).head
    have hcraw : c.raw = [c.cp] := hwc.raw_of_ascii (by omega)
    have hwq : WfCh cq := ht.dec.wf cq (by rw [hsplit]; simp)
    have hqraw : cq.raw = [cq.cp] := hwq.raw_of_ascii (by omega)
    have hdec : IsDec (strChars c.cp t ++ cq :: (stringLoop c.cp t).2) := by rw [← hsplit]; exact ht.dec.tail
    have hval := decodeEscapes_cps _ _ hdec
    rw [decCps_strChars c.cp hq t (fun x hx => ht.noNul x (List.mem_cons_of_mem _ hx)) hk] at hval
    simp only [hk, implView, NextOut.chars, hchars]
    have hraw : rawOf (c :: (strChars c.cp t ++ [cq])) = c.cp :: (rawOf (strChars c.cp t) ++ [cq.cp]) := by
      simp [rawOf_cons, rawOf_append, hcraw, hqraw, rawOf_nil]
    rw [hraw]
    have hdt : decodedText .TString (c.cp :: (rawOf (strChars c.cp t) ++ [cq.cp])) =
        some (decodeEscapes (rawOf (strChars c.cp t))) := by
      simp only [decodedText]
      rw [slice_inner]
      simp
    rw [hdt]
    simp only [textCps, hval]
    exact ViewMatch.rfl' _
  · simp only [hk, implView, isDelimKind]
    exact ViewMatch.rfl' _

theorem take_split {α} (s X r : List α) (h : s = X ++ r) : s.take (s.length - r.length) = X := by
  rw [h]; exact take_of_append X r

/-- the three ways `consumeIdentLike` ends -/
theorem identLike_cases (s : List Ch) :
    (consumeIdentLike s = (.TIdent, (nameCps s).2)) ∨
    (∃ p t', (nameCps s).2 = p :: t' ∧ p.cp = 40 ∧ consumeIdentLike s = (.TFunction, t')) ∨
    ((consumeIdentLike s).1 = .TURL ∨ (consumeIdentLike s).1 = .TBadURL) := by
  unfold consumeIdentLike
  rw [consumeName_rest]
  cases hr : (nameCps s).2 with
  | nil => left; rfl
  | cons p t' =>
    simp only
    by_cases hp : (p.cp == 40) = true
    · simp only [hp, if_true]
      by_cases hu : isUrlName (consumeName s).1 = true
      · simp only [hu, if_true]
        by_cases hq : (!headIs (fun x => x == 34 || x == 39) (skipWhile isWhitespace t')) = true
        · simp only [hq, if_true]
          right; right
          exact consumeURL_kind _
        · simp only [hq, Bool.false_eq_true, if_false]
          right; left; exact ⟨p, t', rfl, by simpa using hp, rfl⟩
      · simp only [hu, Bool.false_eq_true, if_false]
        right; left; exact ⟨p, t', rfl, by simpa using hp, rfl⟩
    · simp only [hp, Bool.false_eq_true, if_false]
      left; trivial

theorem bridge_identLike (c : Ch) (t : List Ch) (ht : Tame (c :: t))
    (hl : lexOther c t = .ofPair (consumeIdentLike (c :: t))) :
    ViewMatch (lexedImplView c t (lexOther c t)) (otherView c t) := by
  have hname := name_text (c :: t) ht
  have happ := nameChars_append (c :: t)
  unfold lexedImplView otherView
  rw [hl]
  simp only [Lexed.ofPair]
  rcases identLike_cases (c :: t) with hA | ⟨p, t', hr, hp, hB⟩ | hC
  · rw [hA]
    have hch : (c :: t).take ((c :: t).length - (nameCps (c :: t)).2.length) = nameChars (c :: t) :=
      take_split _ _ _ happ.symm
    simp only [implView, NextOut.chars, hch, decodedText, textCps, hname, identLikeVal, hA]
    exact ViewMatch.rfl' _
  · rw [hB]
    have hch : (c :: t).take ((c :: t).length - t'.length) = nameChars (c :: t) ++ [p] :=
      take_split _ _ _ (by
        have : c :: t = nameChars (c :: t) ++ p :: t' := by rw [← hr]; exact happ.symm
        rw [List.append_assoc]; exact this)
    have hpraw : p.raw = [40] := by
      have : WfCh p := ht.dec.wf p (by rw [← happ, hr]; simp)
      rw [this.raw_of_ascii (by omega), hp]
    have hraw : rawOf (nameChars (c :: t) ++ [p]) = rawOf (nameChars (c :: t)) ++ [40] := by
      simp [rawOf_append, rawOf_cons, rawOf_nil, hpraw]
    have hdt : decodedText .TFunction (rawOf (nameChars (c :: t)) ++ [40]) =
        some (decodeEscapes (rawOf (nameChars (c :: t)))) := by
      simp only [decodedText]
      rw [slice_dropLast]
      simp
    simp only [implView, NextOut.chars, hch, hraw, hdt, textCps, hname, identLikeVal, hB]
    exact ViewMatch.rfl' _
  · rcases hC with hC | hC
    · simp only [hC, implView]
      exact ⟨rfl, rfl, rfl, fun h => absurd rfl h⟩
    · simp only [hC, implView, isDelimKind, identLikeVal]
      exact ViewMatch.rfl' _

/-- `#name` and `@name`: the text after the first byte -/
theorem bridge_prefixed (k : T) (hk : k = .THash ∨ k = .TAtKeyword) (c : Ch) (t : List Ch) (ht : Tame (c :: t))
    (hc : c.cp < 128) (isID : Bool) (u : List Ch) :
    implView ⟨k, c :: t, (consumeName t).2, u, isID, false, 0, [], none⟩ = ⟨k, (nameCps t).1, [], isID⟩ := by
  have hname := name_text t ht.tail
  have happ := nameChars_append t
  have hch : (c :: t).take ((c :: t).length - (consumeName t).2.length) = c :: nameChars t :=
    take_split _ _ _ (by rw [consumeName_rest, List.cons_append, happ])
  have hcraw : c.raw = [c.cp] := (ht.dec.wf).head.raw_of_ascii hc
  have hraw : rawOf (c :: nameChars t) = c.cp :: rawOf (nameChars t) := by simp [rawOf_cons, hcraw]
  have hdt : ∀ k', (k' = T.THash ∨ k' = T.TAtKeyword) →
      decodedText k' (c.cp :: rawOf (nameChars t)) = some (decodeEscapes (rawOf (nameChars t))) := by
    intro k' hk'
    rcases hk' with rfl | rfl <;> (simp only [decodedText]; rw [slice_drop1]; rfl)
  rcases hk with rfl | rfl
  · simp only [implView, NextOut.chars, hch, hraw, textCps]
    rw [hdt .THash (Or.inl rfl)]; simp only [hname]
  · simp only [implView, NextOut.chars, hch, hraw, textCps]
    rw [hdt .TAtKeyword (Or.inr rfl)]; simp only [hname]

theorem bridge_numeric (c : Ch) (t : List Ch) (ht : Tame (c :: t))
    (hl : lexOther c t = .ofNumeric (consumeNumeric (c :: t))) :
    ViewMatch (lexedImplView c t (lexOther c t)) (otherView c t) := by
  have happ := numChars_append (c :: t)
  unfold lexedImplView otherView
  rw [hl]
  simp only [Lexed.ofNumeric]
  have hdef : consumeNumeric (c :: t) = consumeNumeric (c :: t) := rfl
  conv at hdef => rhs; unfold consumeNumeric
  by_cases hws : wouldStartIdentifier (skipNumber (c :: t)) = true
  · simp only [hws, if_true] at hdef
    rw [hdef]
    simp only
    have htu : Tame (skipNumber (c :: t)) := ht.suffix (skipNumber_suffix _)
    have hname := name_text (skipNumber (c :: t)) htu
    have happ2 := nameChars_append (skipNumber (c :: t))
    have hnum : (c :: t).take ((c :: t).length - (skipNumber (c :: t)).length) = numChars (c :: t) :=
      take_split _ _ _ happ.symm
    have hunit : (skipNumber (c :: t)).take ((skipNumber (c :: t)).length - (consumeName (skipNumber (c :: t))).2.length)
        = nameChars (skipNumber (c :: t)) := take_split _ _ _ (by rw [consumeName_rest]; exact happ2.symm)
    simp only [implView, hnum, hunit, hname]
    exact ViewMatch.rfl' _
  · simp only [hws, Bool.false_eq_true, if_false] at hdef
    cases hs : skipNumber (c :: t) with
    | nil =>
      rw [hs] at hdef happ
      rw [hdef]
      simp only [List.append_nil] at happ
      simp only [implView, NextOut.chars, List.length_nil, Nat.sub_zero, List.take_length, happ]
      rw [← happ]
      exact ViewMatch.rfl' _
    | cons d u =>
      rw [hs] at hdef happ
      simp only at hdef
      by_cases h37 : (d.cp == 37) = true
      · simp only [h37, if_true] at hdef
        rw [hdef]
        have hch : (c :: t).take ((c :: t).length - u.length) = numChars (c :: t) ++ [d] :=
          take_split _ _ _ (by rw [List.append_assoc]; exact happ.symm)
        simp only [implView, NextOut.chars, hch]
        have : (numChars (c :: t) ++ [d]).take ((numChars (c :: t) ++ [d]).length - 1) = numChars (c :: t) := by simp
        rw [this]
        exact ViewMatch.rfl' _
      · simp only [h37, Bool.false_eq_true, if_false] at hdef
        rw [hdef]
        have hch : (c :: t).take ((c :: t).length - (d :: u).length) = numChars (c :: t) :=
          take_split _ _ _ happ.symm
        simp only [implView, NextOut.chars, hch]
        exact ViewMatch.rfl' _

/-- kinds that carry no value other than (for delimiters) their code point -/
def plainKind (k : T) : Bool :=
  !(k matches .TString | .THash | .TAtKeyword | .TIdent | .TFunction | .TURL | .TNumber | .TPercentage | .TDimension)

/-- the shapes of the result of the `switch` -/
inductive LexForm (c : Ch) (t : List Ch) : Prop
  | string : (c.cp = 34 ∨ c.cp = 39) → lexOther c t = .ofPair (stringLoop c.cp t) → LexForm c t
  | hash : c.cp = 35 → lexOther c t = ⟨.THash, (consumeName t).2, t, wouldStartIdentifier t⟩ → LexForm c t
  | at : c.cp = 64 → lexOther c t = .simple .TAtKeyword (consumeName t).2 → LexForm c t
  | numeric : lexOther c t = .ofNumeric (consumeNumeric (c :: t)) → LexForm c t
  | identLike : lexOther c t = .ofPair (consumeIdentLike (c :: t)) → LexForm c t
  | simple (k : T) (r : List Ch) : lexOther c t = .simple k r → plainKind k = true → (isDelimKind k = true → r = t) →
      LexForm c t

theorem singleTable_plain : ∀ p ∈ singleCharTable, plainKind p.2 = true := by decide

theorem lexOther_form (c : Ch) (t : List Ch) : LexForm c t := by
  by_cases h1 : (c.cp == 34 || c.cp == 39) = true
  · exact .string (by simpa using h1) (by unfold lexOther; simp only [h1, if_true, consumeString])
  have h1' : (c.cp == 34 || c.cp == 39) = false := by simpa using h1
  by_cases h2 : (c.cp == 35) = true
  · by_cases hc : (headIs isNameContinue t || isValidEscape t) = true
    · exact .hash (by simpa using h2) (by unfold lexOther; simp only [h1', h2, hc, if_true, Bool.false_eq_true, if_false])
    · exact .simple .TDelim t (by unfold lexOther; simp only [h1', h2, hc, if_true, Bool.false_eq_true, if_false]) rfl
        (fun _ => rfl)
  have h2' : (c.cp == 35) = false := by simpa using h2
  by_cases h3 : (c.cp == 43) = true
  · by_cases hc : wouldStartNumber (c :: t) = true
    · exact .numeric (by unfold lexOther; simp only [h1', h2', h3, hc, if_true, Bool.false_eq_true, if_false])
    · exact .simple .TDelimPlus t (by unfold lexOther; simp only [h1', h2', h3, hc, if_true, Bool.false_eq_true, if_false])
        rfl (fun _ => rfl)
  have h3' : (c.cp == 43) = false := by simpa using h3
  by_cases h4 : (c.cp == 46) = true
  · by_cases hc : wouldStartNumber (c :: t) = true
    · exact .numeric (by unfold lexOther; simp only [h1', h2', h3', h4, hc, if_true, Bool.false_eq_true, if_false])
    · exact .simple .TDelimDot t (by unfold lexOther; simp only [h1', h2', h3', h4, hc, if_true, Bool.false_eq_true, if_false])
        rfl (fun _ => rfl)
  have h4' : (c.cp == 46) = false := by simpa using h4
  by_cases h5 : (c.cp == 45) = true
  · by_cases hc : wouldStartNumber (c :: t) = true
    · exact .numeric (by unfold lexOther; simp only [h1', h2', h3', h4', h5, hc, if_true, Bool.false_eq_true, if_false])
    · have hc' : wouldStartNumber (c :: t) = false := by simpa using hc
      clear hc
      by_cases hid : wouldStartIdentifier (c :: t) = true
      · match t with
        | [] =>
          apply LexForm.identLike
          unfold lexOther; simp only [h1', h2', h3', h4', h5, hc', hid, if_true, Bool.false_eq_true, if_false]
        | [_] =>
          apply LexForm.identLike
          unfold lexOther; simp only [h1', h2', h3', h4', h5, hc', hid, if_true, Bool.false_eq_true, if_false]
        | d :: e :: u =>
          by_cases hcdc : (d.cp == 45 && e.cp == 62) = true
          · refine LexForm.simple .TCDC u ?_ rfl (fun h => by simp [isDelimKind] at h)
            unfold lexOther; simp only [h1', h2', h3', h4', h5, hc', hcdc, if_true, Bool.false_eq_true, if_false]
          · apply LexForm.identLike
            unfold lexOther; simp only [h1', h2', h3', h4', h5, hc', hcdc, hid, if_true, Bool.false_eq_true, if_false]
      · match t with
        | [] =>
          refine LexForm.simple .TDelimMinus [] ?_ rfl (fun _ => rfl)
          unfold lexOther; simp only [h1', h2', h3', h4', h5, hc', hid, if_true, Bool.false_eq_true, if_false]
        | [x] =>
          refine LexForm.simple .TDelimMinus [x] ?_ rfl (fun _ => rfl)
          unfold lexOther; simp only [h1', h2', h3', h4', h5, hc', hid, if_true, Bool.false_eq_true, if_false]
        | d :: e :: u =>
          by_cases hcdc : (d.cp == 45 && e.cp == 62) = true
          · refine LexForm.simple .TCDC u ?_ rfl (fun h => by simp [isDelimKind] at h)
            unfold lexOther; simp only [h1', h2', h3', h4', h5, hc', hcdc, if_true, Bool.false_eq_true, if_false]
          · refine LexForm.simple .TDelimMinus (d :: e :: u) ?_ rfl (fun _ => rfl)
            unfold lexOther; simp only [h1', h2', h3', h4', h5, hc', hcdc, hid, if_true, Bool.false_eq_true, if_false]
  have h5' : (c.cp == 45) = false := by simpa using h5
  by_cases h6 : (c.cp == 60) = true
  · match t with
    | [] =>
      refine LexForm.simple .TDelimLessThan [] ?_ rfl (fun _ => rfl)
      unfold lexOther; simp only [h1', h2', h3', h4', h5', h6,  if_true, Bool.false_eq_true, if_false]
    | [x] =>
      refine LexForm.simple .TDelimLessThan [x] ?_ rfl (fun _ => rfl)
      unfold lexOther; simp only [h1', h2', h3', h4', h5', h6,  if_true, Bool.false_eq_true, if_false]
    | [x, y] =>
      refine LexForm.simple .TDelimLessThan [x, y] ?_ rfl (fun _ => rfl)
      unfold lexOther; simp only [h1', h2', h3', h4', h5', h6,  if_true, Bool.false_eq_true, if_false]
    | d :: e :: f :: u =>
      by_cases hcdo : (d.cp == 33 && e.cp == 45 && f.cp == 45) = true
      · refine LexForm.simple .TCDO u ?_ rfl (fun h => by simp [isDelimKind] at h)
        unfold lexOther; simp only [h1', h2', h3', h4', h5', h6, hcdo, if_true, Bool.false_eq_true, if_false]
      · refine LexForm.simple .TDelimLessThan _ ?_ rfl (fun _ => rfl)
        unfold lexOther; simp only [h1', h2', h3', h4', h5', h6, hcdo, if_true, Bool.false_eq_true, if_false]
  have h6' : (c.cp == 60) = false := by simpa using h6
  by_cases h7 : (c.cp == 64) = true
  · by_cases hc : wouldStartIdentifier t = true
    · exact .at (by simpa using h7)
        (by unfold lexOther; simp only [h1', h2', h3', h4', h5', h6', h7, hc, if_true, Bool.false_eq_true, if_false])
    · refine LexForm.simple .TDelim t ?_ rfl (fun _ => rfl)
      unfold lexOther; simp only [h1', h2', h3', h4', h5', h6', h7, hc, if_true, Bool.false_eq_true, if_false]
  have h7' : (c.cp == 64) = false := by simpa using h7
  by_cases h8 : (c.cp == 92) = true
  · by_cases hc : isValidEscape (c :: t) = true
    · exact .identLike
        (by unfold lexOther; simp only [h1', h2', h3', h4', h5', h6', h7', h8, hc, if_true, Bool.false_eq_true, if_false])
    · refine LexForm.simple .TDelim t ?_ rfl (fun _ => rfl)
      unfold lexOther; simp only [h1', h2', h3', h4', h5', h6', h7', h8, hc, if_true, Bool.false_eq_true, if_false]
  have h8' : (c.cp == 92) = false := by simpa using h8
  by_cases h9 : isDigit c.cp = true
  · exact .numeric
      (by unfold lexOther; simp only [h1', h2', h3', h4', h5', h6', h7', h8', h9, if_true, Bool.false_eq_true, if_false])
  cases hk : singleCharKind c.cp with
  | some k =>
    have hm := lookupT_mem c.cp k _ hk
    exact .simple k t
      (by unfold lexOther; simp only [h1', h2', h3', h4', h5', h6', h7', h8', h9, hk, Bool.false_eq_true, if_false])
      (singleTable_plain _ hm) (fun _ => rfl)
  | none =>
    by_cases hns : isNameStart c.cp = true
    · exact .identLike
        (by unfold lexOther; simp only [h1', h2', h3', h4', h5', h6', h7', h8', h9, hk, hns, if_true, Bool.false_eq_true,
              if_false])
    · refine LexForm.simple .TDelim t ?_ rfl (fun _ => rfl)
      unfold lexOther; simp only [h1', h2', h3', h4', h5', h6', h7', h8', h9, hk, hns, Bool.false_eq_true, if_false]

theorem bridge_simple (c : Ch) (t : List Ch) (k : T) (r : List Ch) (hl : lexOther c t = .simple k r)
    (hp : plainKind k = true) (hr : isDelimKind k = true → r = t) :
    ViewMatch (lexedImplView c t (lexOther c t)) (otherView c t) := by
  unfold lexedImplView otherView
  rw [hl]
  simp only [Lexed.simple]
  by_cases hd : isDelimKind k = true
  · have hrt := hr hd
    subst hrt
    have hch : (c :: r).take ((c :: r).length - r.length) = [c] := take_split _ [c] r rfl
    cases k <;> simp [plainKind] at hp <;> simp [isDelimKind] at hd <;>
      simp [implView, isDelimKind, NextOut.chars, hch, cpsOf, ViewMatch]
  · cases k <;> simp [plainKind] at hp <;> simp [isDelimKind] at hd <;> simp [implView, isDelimKind, ViewMatch]

/-- the view of what `Tokenize` returns for one token agrees with the view of the specification's token -/
theorem bridge_other (c : Ch) (t : List Ch) (ht : Tame (c :: t)) :
    ViewMatch (lexedImplView c t (lexOther c t)) (otherView c t) := by
  rcases lexOther_form c t with ⟨hq, hl⟩ | ⟨hc, hl⟩ | ⟨hc, hl⟩ | hl | hl | ⟨k, r, hl, hp, hr⟩
  · exact bridge_string c t ht hq hl
  · unfold lexedImplView otherView
    rw [hl]
    simp only
    rw [bridge_prefixed .THash (Or.inl rfl) c t ht (by omega)]
    exact ViewMatch.rfl' _
  · unfold lexedImplView otherView
    rw [hl]
    simp only [Lexed.simple]
    rw [bridge_prefixed .TAtKeyword (Or.inr rfl) c t ht (by omega)]
    exact ViewMatch.rfl' _
  · exact bridge_numeric c t ht hl
  · exact bridge_identLike c t ht hl
  · exact bridge_simple c t k r hl hp hr

theorem bridge_next (oldRem : Nat) (s : List Ch) (ht : Tame s) (hk : (next oldRem s).kind ≠ .TEndOfFile) :
    ViewMatch (implView (next oldRem s)) (outSpecView (next oldRem s)) := by
  have hslash : ∀ (c : Ch) (t : List Ch) (o : NextOut), c.cp = 47 → o.kind = .TDelimSlash → o.startS = c :: t →
      o.rest = t → ViewMatch (implView o) (outSpecView o) := by
    intro c t o hc hk hs hr
    have hch : o.chars = [c] := chars_eq o [c] (by rw [hs, hr]; rfl)
    unfold implView outSpecView
    rw [hk, hs, hch]
    simp [isDelimKind, cpsOf, hc, isWhitespace, ViewMatch]
  fun_induction next oldRem s with
  | case1 => simp at hk
  | case2 c hc => exact hslash c [] _ (by simpa using hc) rfl rfl rfl
  | case3 c hc d u hd ih =>
    have htr : Tame (consumeComment (c :: d :: u) u).rest := ht.tail.tail.suffix (consumeComment_suffix _ _)
    have := ih htr (by simpa [NextOut.withComment] using hk)
    rw [implView_congr ((next oldRem (consumeComment (c :: d :: u) u).rest).withComment (consumeComment (c :: d :: u) u))
      (next oldRem (consumeComment (c :: d :: u) u).rest) rfl rfl rfl rfl rfl]
    have e : outSpecView ((next oldRem (consumeComment (c :: d :: u) u).rest).withComment (consumeComment (c :: d :: u) u))
        = outSpecView (next oldRem (consumeComment (c :: d :: u) u).rest) := rfl
    rw [e]; exact this
  | case4 c hc d u hd1 hd2 hle => exact hslash c (d :: u) _ (by simpa using hc) rfl rfl rfl
  | case5 c hc d u hd1 hd2 hle => exact hslash c (d :: u) _ (by simpa using hc) rfl rfl rfl
  | case6 c hc d u hd1 hd2 => exact hslash c (d :: u) _ (by simpa using hc) rfl rfl rfl
  | case7 c t hc hw =>
    unfold implView outSpecView
    simp [isDelimKind, hw, ViewMatch]
  | case8 c t hc hw =>
    have hw' : isWhitespace c.cp = false := by simpa using hw
    have hc' : (c.cp == 47) = false := by simpa using hc
    have := bridge_other c t ht
    unfold lexedImplView at this
    rw [implView_congr ⟨(lexOther c t).kind, c :: t, (lexOther c t).rest, (lexOther c t).unitS, (lexOther c t).isID,
      false, oldRem, [], none⟩ ⟨(lexOther c t).kind, c :: t, (lexOther c t).rest, (lexOther c t).unitS, (lexOther c t).isID,
      false, 0, [], none⟩ rfl rfl rfl rfl rfl]
    have e : outSpecView ⟨(lexOther c t).kind, c :: t, (lexOther c t).rest, (lexOther c t).unitS, (lexOther c t).isID,
        false, oldRem, [], none⟩ = otherView c t := by
      simp [outSpecView, hw', hc']
    rw [e]; exact this

theorem next_rest_tame (oldRem : Nat) (s : List Ch) (ht : Tame s) : Tame (next oldRem s).rest := by
  obtain ⟨⟨gapc, hg, _, _⟩, hrest, _⟩ := next_shape oldRem s ht.dec.wf
  exact ht.suffix (hrest.trans ⟨gapc, hg.symm⟩)

/-- two lists agree element by element -/
inductive AllMatch : List View → List View → Prop
  | nil : AllMatch [] []
  | cons (a b : View) (as bs : List View) : ViewMatch a b → AllMatch as bs → AllMatch (a :: as) (b :: bs)

/-- every token `Tokenize` returns agrees with the specification's token it is related to -/
theorem bridge_lexAll (oldRem : Nat) (s : List Ch) (ht : Tame s) :
    AllMatch (((lexAll oldRem s).filter (·.kind ≠ .TEndOfFile)).map implView)
      (((lexAll oldRem s).filter (·.kind ≠ .TEndOfFile)).map outSpecView) := by
  fun_induction lexAll oldRem s with
  | case1 oldRem s hk => simp [hk]; exact AllMatch.nil
  | case2 oldRem s hk ih =>
    simp only [hk, List.filter_cons, ne_eq, not_false_eq_true, decide_true, if_true, List.map_cons]
    exact AllMatch.cons _ _ _ _ (bridge_next oldRem s ht hk) (ih (next_rest_tame oldRem s ht))

end EsbuildModel.CssLex
