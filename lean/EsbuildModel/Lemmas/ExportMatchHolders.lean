import EsbuildModel.Lemmas.ExportMatchStar2
import EsbuildModel.Lemmas.ExportMatchView
/-!
`ResolvedExports` of a file, one name at a time (`resolvedExports_own`, `resolvedExports_star`), and the bridge
between what `addExportsForExportStar` finds (`Finds`, simple paths with the shadowing rule) and the request graph
of the specification (arbitrary paths through star requests): `finds_reach` and `reaches_finds`.
-/
namespace EsbuildModel.ExportMatch
open EsbuildModel.Spec EsbuildModel.Spec.EsModules

/-! ### ResolvedExports of one file -/

theorem ownResolved_lookup (m : Nat) (f : File) (a : Name) :
    (ownResolved m f).lookup a = (entry f a).map (fun e => ⟨m, e.ref, e.loc, []⟩) := by
  unfold ownResolved entry
  induction f.exports with
  | nil => rfl
  | cons e es ih =>
    simp only [List.map_cons, List.lookup, List.find?]
    by_cases h : e.alias = a
    · subst h; simp
    · have h' : (a == e.alias) = false := by simpa using fun h' => h h'.symm
      simp [h, h', ih]

theorem shadowed_false {t : Table} {a : Name} : ∀ {stack : List Nat}, shadowed t stack a = some false →
    ∀ p ∈ stack, ∃ fp, t[p]? = some fp ∧ entry fp a = none := by
  intro stack
  induction stack with
  | nil => intro _ p hp; cases hp
  | cons q qs ih =>
    intro h p hp
    simp only [shadowed] at h
    split at h
    · cases h
    · rename_i fq hq
      split at h
      · cases h
      · rename_i hh
        rcases List.mem_cons.1 hp with rfl | hp
        · refine ⟨fq, hq, ?_⟩
          cases he : entry fq a with
          | none => rfl
          | some e => exact absurd (hasExport_iff.2 (by simp [he])) hh
        · exact ih h p hp

theorem shadowed_of_clear {t : Table} {a : Name} : ∀ {stack : List Nat},
    (∀ p ∈ stack, ∃ fp, t[p]? = some fp ∧ entry fp a = none) → shadowed t stack a = some false := by
  intro stack
  induction stack with
  | nil => intro _; rfl
  | cons q qs ih =>
    intro h
    obtain ⟨fq, hq, he⟩ := h q (by simp)
    simp only [shadowed, hq]
    have : hasExport fq a = false := by
      cases hh : hasExport fq a with
      | false => rfl
      | true => have := hasExport_iff.1 hh; rw [he] at this; cases this
    simp only [this]
    exact ih (fun p hp => h p (by simp [hp]))

/-- nothing is found below a file that exports the name itself, or whose stack does -/
theorem Finds.clear {t : Table} {a : Name} {S : List Nat} {x : Nat} {d : ImportData} (h : Finds t a S x d) :
    ∀ p ∈ S ++ [x], ∃ fp, t[p]? = some fp ∧ entry fp a = none := by
  induction h with
  | here _ _ hf => exact shadowed_false hf.2.2.1
  | deeper _ _ _ ih => exact fun p hp => ih p (List.mem_append_left _ hp)

theorem Finds.ne_default {t : Table} {a : Name} {S : List Nat} {x : Nat} {d : ImportData} (h : Finds t a S x d) :
    a ≠ "default" := by
  induction h with
  | here _ _ hf => exact hf.2.1
  | deeper _ _ _ ih => exact ih

/-- the found export is the entry of its file for the name -/
theorem Finds.entry {t : Table} {a : Name} {S : List Nat} {x : Nat} {d : ImportData} (h : Finds t a S x d) :
    ∃ fo e, t[d.src]? = some fo ∧ e ∈ fo.exports ∧ e.alias = a ∧ e.ref = d.ref ∧ e.loc = d.loc := by
  induction h with
  | here _ _ hf =>
    obtain ⟨hs, _, _, fo, e, h1, h2⟩ := hf
    exact ⟨fo, e, hs ▸ h1, h2⟩
  | deeper _ _ _ ih => exact ih

theorem resolvedExports_some {t : Table} (hwf : WF t) {m : Nat} (hm : m < t.length) :
    ∃ res, resolvedExports t m = some res := by
  unfold resolvedExports
  rw [List.getElem?_eq_getElem hm]
  simp only
  split
  · exact ⟨_, rfl⟩
  · exact addStar_some (fun f hf o ho => hwf.stars f hf o ho) _ _ _ _ hm List.nodup_nil (by simp) (by simp)

theorem resolvedExports_callSpec {t : Table} {m : Nat} {f : File} {res : Resolved} (hf : t[m]? = some f)
    (h : resolvedExports t m = some res) (a : Name) : CallSpec t a [] m (ownResolved m f) res := by
  unfold resolvedExports at h
  rw [hf] at h
  simp only at h
  split at h
  · rename_i hemp
    cases h
    refine ⟨ExtO.rfl' _, fun d hd => ?_⟩
    have hnil : f.stars = [] := by simpa using hemp
    cases hd with
    | here _ hedge =>
      obtain ⟨f', _, hf', hmem, _⟩ := hedge
      rw [hf] at hf'; cases hf'
      rw [hnil] at hmem; cases hmem
    | deeper _ hedge =>
      obtain ⟨f', _, hf', hmem, _⟩ := hedge
      rw [hf] at hf'; cases hf'
      rw [hnil] at hmem; cases hmem
  · exact addStar_spec a _ _ _ _ _ h

/-- an own export shadows every star export of the same name -/
theorem resolvedExports_own {t : Table} {m : Nat} {f : File} {res : Resolved} (hf : t[m]? = some f)
    (h : resolvedExports t m = some res) {a : Name} {e : NamedExport} (he : entry f a = some e) :
    res.lookup a = some ⟨m, e.ref, e.loc, []⟩ := by
  obtain ⟨x1, _⟩ := resolvedExports_callSpec hf h a
  rw [ownResolved_lookup, he] at x1
  simp only [Option.map_some] at x1
  cases hl : res.lookup a with
  | none => rw [hl] at x1; exact absurd x1 id
  | some ex' =>
    rw [hl] at x1
    obtain ⟨h1, h2, h3, new, h4, h5⟩ := x1
    have hnew : new = [] := by
      cases new with
      | nil => rfl
      | cons d ds =>
        obtain ⟨fp, hfp, hnone⟩ := (h5 d (by simp)).clear m (by simp)
        rw [hf] at hfp; cases hfp
        rw [he] at hnone; cases hnone
    subst hnew
    cases ex'
    simp_all

/-- a name the file does not export itself: the entry consists exactly of what the star traversal finds -/
theorem resolvedExports_star {t : Table} {m : Nat} {f : File} {res : Resolved} (hf : t[m]? = some f)
    (h : resolvedExports t m = some res) {a : Name} (he : entry f a = none) :
    ExtO (Finds t a [] m) none (res.lookup a) ∧ ∀ d, Finds t a [] m d → RecO d.src (res.lookup a) := by
  have := resolvedExports_callSpec hf h a
  rw [CallSpec, ownResolved_lookup, he] at this
  exact this

end EsbuildModel.ExportMatch
