import EsbuildModel.Lemmas.CssLexSuffix
import EsbuildModel.Lemmas.CssLexDecode
/-!
Shape of one call of `next()`: the state it is given is `gap ++ token ++ rest` where `gap` is a run of comments
(the only input `next()` passes over without putting it into a token), and of the whole run of `Tokenize`.
-/
namespace EsbuildModel.CssLex

/-! ### what a comment is, on bytes (CSS Syntax 3 §4.3.2: from `/*` to the first `*/`) -/

/-- the text after `/*` up to and including the FIRST `*/` -/
inductive ClosedBody : List Nat → Prop
  | close : ClosedBody [42, 47]
  | skip (b : Nat) (r : List Nat) : ¬ (b = 42 ∧ r.head? = some 47) → ClosedBody r → ClosedBody (b :: r)

/-- a text that contains no `*/` (at no position is a `*` followed by a `/`) -/
inductive OpenBody : List Nat → Prop
  | nil : OpenBody []
  | skip (b : Nat) (r : List Nat) : ¬ (b = 42 ∧ r.head? = some 47) → OpenBody r → OpenBody (b :: r)

/-- a run of complete comments -/
inductive Gap : List Nat → Prop
  | nil : Gap []
  | comment (body rest : List Nat) : ClosedBody body → Gap rest → Gap (47 :: 42 :: (body ++ rest))

/-- a run of comments at the end of the input: the last one may be unterminated -/
inductive GapEnd : List Nat → Prop
  | closed (l : List Nat) : Gap l → GapEnd l
  | unterminated (g body : List Nat) : Gap g → OpenBody body → GapEnd (g ++ 47 :: 42 :: body)

theorem ClosedBody.ne_nil {l : List Nat} (h : ClosedBody l) : l ≠ [] := by cases h <;> simp

theorem closedBody_prepend_high (bs r : List Nat) (hb : ∀ b ∈ bs, 128 ≤ b) (h : ClosedBody r) : ClosedBody (bs ++ r) := by
  induction bs with
  | nil => exact h
  | cons b bs ih =>
    have hb' := hb b (by simp)
    exact ClosedBody.skip b _ (by omega) (ih (fun x hx => hb x (List.mem_cons_of_mem _ hx)))

theorem Gap.append {a b : List Nat} (ha : Gap a) (hb : Gap b) : Gap (a ++ b) := by
  induction ha with
  | nil => exact hb
  | comment body rest hbody _ ih =>
    have := Gap.comment body (rest ++ b) hbody ih
    simpa [List.append_assoc] using this

theorem GapEnd.prepend {a b : List Nat} (ha : Gap a) (hb : GapEnd b) : GapEnd (a ++ b) := by
  cases hb with
  | closed l h => exact GapEnd.closed _ (ha.append h)
  | unterminated g body hg hbody =>
    have := GapEnd.unterminated (a ++ g) body (ha.append hg) hbody
    simpa [List.append_assoc] using this

/-- the comment loop passes over a closed comment body, or over a text without `*/` -/
theorem commentLoop_some (s : List Ch) (hw : WfS s) (star rest : List Ch) (h : commentLoop s = some (star, rest)) :
    ∃ chars, s = chars ++ rest ∧ ClosedBody (rawOf chars) := by
  fun_induction commentLoop s with
  | case1 => simp at h
  | case2 => simp at h
  | case3 c d u hc =>
    simp only [Option.some.injEq, Prod.mk.injEq] at h
    simp only [Bool.and_eq_true, beq_iff_eq] at hc
    refine ⟨[c, d], by simp [h.2], ?_⟩
    have h1 := (hw.head).raw_of_ascii (by omega)
    have h2 := (hw.tail.head).raw_of_ascii (by omega)
    simp only [rawOf, List.flatMap_cons, List.flatMap_nil, h1, h2, hc.1, hc.2]
    exact ClosedBody.close
  | case4 c d u hc ih =>
    obtain ⟨chars, hs, hb⟩ := ih hw.tail h
    refine ⟨c :: chars, by simp [hs], ?_⟩
    simp only [rawOf, List.flatMap_cons]
    rcases hw.head with ⟨h1, h2⟩ | ⟨h1, h2, h3⟩
    · rw [h2]
      refine ClosedBody.skip _ _ ?_ hb
      rintro ⟨hc1, hc2⟩
      -- the first rune of `chars` is `d`
      cases chars with
      | nil => exact absurd rfl hb.ne_nil
      | cons d' cs =>
        simp only [List.cons_append, List.cons.injEq] at hs
        obtain ⟨rfl, _⟩ := hs
        simp only [rawOf, List.flatMap_cons] at hc2
        have hd : d.raw.head? = some 47 := by
          cases hr : d.raw with
          | nil =>
            rcases hw.tail.head with ⟨_, e⟩ | ⟨_, e, _⟩
            · rw [e] at hr; simp at hr
            · exact absurd hr e
          | cons x xs => rw [hr] at hc2; simpa using hc2
        have := (hw.tail.head).raw_head 47 hd (by omega)
        simp [hc1, this.1] at hc
    · exact closedBody_prepend_high _ _ h3 hb

theorem openBody_prepend_high (bs r : List Nat) (hb : ∀ b ∈ bs, 128 ≤ b) (h : OpenBody r) : OpenBody (bs ++ r) := by
  induction bs with
  | nil => exact h
  | cons b bs ih =>
    have hb' := hb b (by simp)
    exact OpenBody.skip b _ (by omega) (ih (fun x hx => hb x (List.mem_cons_of_mem _ hx)))

theorem commentLoop_none (s : List Ch) (hw : WfS s) (h : commentLoop s = none) : OpenBody (rawOf s) := by
  fun_induction commentLoop s with
  | case1 => exact OpenBody.nil
  | case2 c =>
    simp only [rawOf, List.flatMap_cons, List.flatMap_nil, List.append_nil]
    rcases hw.head with ⟨h1, h2⟩ | ⟨h1, h2, h3⟩
    · rw [h2]; exact OpenBody.skip _ _ (by simp) OpenBody.nil
    · have := openBody_prepend_high c.raw [] h3 OpenBody.nil
      simpa using this
  | case3 c d u hc => simp at h
  | case4 c d u hc ih =>
    have ih' := ih hw.tail h
    simp only [rawOf, List.flatMap_cons] at ih' ⊢
    rcases hw.head with ⟨h1, h2⟩ | ⟨h1, h2, h3⟩
    · rw [h2]
      refine OpenBody.skip _ _ ?_ ih'
      rintro ⟨hc1, hc2⟩
      have hd : d.raw.head? = some 47 := by
        cases hr : d.raw with
        | nil => exact absurd hr (hw.tail.head).raw_ne_nil
        | cons x xs => rw [hr] at hc2; simpa using hc2
      have := (hw.tail.head).raw_head 47 hd (by omega)
      simp [hc1, this.1] at hc
    · exact openBody_prepend_high _ _ h3 ih'


theorem consumeComment_rest_none (st body : List Ch) (h : commentLoop body = none) : (consumeComment st body).rest = [] := by
  simp [consumeComment, h]

theorem consumeComment_rest_some (st body star rest : List Ch) (h : commentLoop body = some (star, rest)) :
    (consumeComment st body).rest = rest := by
  simp [consumeComment, h]

theorem commentLoop_suffix (s star rest : List Ch) (h : commentLoop s = some (star, rest)) : rest <:+ s := by
  fun_induction commentLoop s with
  | case1 => simp at h
  | case2 => simp at h
  | case3 c d u hc =>
    simp only [Option.some.injEq, Prod.mk.injEq] at h
    rw [← h.2]; exact suf_of_tail (suf_tail d u)
  | case4 c d u hc ih => exact suf_of_tail (ih h)

theorem consumeComment_suffix (st body : List Ch) : (consumeComment st body).rest <:+ body := by
  cases h : commentLoop body with
  | none => rw [consumeComment_rest_none _ _ h]; exact List.nil_suffix
  | some p =>
    obtain ⟨star, rest⟩ := p
    rw [consumeComment_rest_some _ _ _ _ h]
    exact commentLoop_suffix _ _ _ h

theorem wsLoop_suffix (s : List Ch) : (wsLoop s).1 <:+ s := by
  fun_induction wsLoop s with
  | case1 => exact List.suffix_refl _
  | case2 c t h ih => exact suf_of_tail ih
  | case3 c t h1 h2 ih => exact suf_of_tail (ih.trans ((consumeComment_suffix _ _).trans (step_suffix _)))
  | case4 => exact List.suffix_refl _

theorem lexOther_suffix (c : Ch) (t : List Ch) : (lexOther c t).rest <:+ c :: t ∧ (lexOther c t).unitS <:+ c :: t ∧
    (lexOther c t).rest <:+ (lexOther c t).unitS := by
  have hnum : (Lexed.ofNumeric (consumeNumeric (c :: t))).rest <:+ c :: t ∧ (Lexed.ofNumeric (consumeNumeric (c :: t))).unitS <:+ c :: t ∧
      (Lexed.ofNumeric (consumeNumeric (c :: t))).rest <:+ (Lexed.ofNumeric (consumeNumeric (c :: t))).unitS :=
    consumeNumeric_suffix _
  have hid : (Lexed.ofPair (consumeIdentLike (c :: t))).rest <:+ c :: t ∧ (Lexed.ofPair (consumeIdentLike (c :: t))).unitS <:+ c :: t ∧
      (Lexed.ofPair (consumeIdentLike (c :: t))).rest <:+ (Lexed.ofPair (consumeIdentLike (c :: t))).unitS :=
    ⟨consumeIdentLike_suffix _, consumeIdentLike_suffix _, List.suffix_refl _⟩
  have hstr : (Lexed.ofPair (consumeString (c :: t))).rest <:+ c :: t ∧ (Lexed.ofPair (consumeString (c :: t))).unitS <:+ c :: t ∧
      (Lexed.ofPair (consumeString (c :: t))).rest <:+ (Lexed.ofPair (consumeString (c :: t))).unitS :=
    ⟨consumeString_suffix _, consumeString_suffix _, List.suffix_refl _⟩
  have hsimple : ∀ k (r : List Ch), r <:+ t → (Lexed.simple k r).rest <:+ c :: t ∧ (Lexed.simple k r).unitS <:+ c :: t ∧
      (Lexed.simple k r).rest <:+ (Lexed.simple k r).unitS :=
    fun k r hr => ⟨suf_of_tail hr, suf_of_tail hr, List.suffix_refl _⟩
  have hname : (consumeName t).2 <:+ t := consumeName_suffix t
  unfold lexOther
  repeat' split
  all_goals first
    | exact hnum | exact hid | exact hstr
    | exact hsimple _ _ (List.suffix_refl _)
    | exact hsimple _ _ hname
    | exact ⟨suf_of_tail hname, suf_tail c t, hname⟩
    | exact hsimple _ _ (suf_of_tail (suf_tail _ _))
    | exact hsimple _ _ (suf_of_tail (suf_of_tail (suf_tail _ _)))

/-- what one call of `next()` does with the state `s`: `s = gap ++ token ++ rest`, where `gap` is a run of
comments (at the end of the input the last one may be unterminated) -/
structure NextShape (s : List Ch) (o : NextOut) : Prop where
  gap : ∃ gapc, s = gapc ++ o.startS ∧
    (o.kind ≠ .TEndOfFile → Gap (rawOf gapc)) ∧ (o.kind = .TEndOfFile → GapEnd (rawOf gapc) ∧ o.startS = [])
  rest : o.rest <:+ o.startS
  unit : o.unitS <:+ o.startS ∧ o.rest <:+ o.unitS

theorem nextShape_nogap (s : List Ch) (o : NextOut) (hs : o.startS = s) (hk : o.kind ≠ .TEndOfFile)
    (hr : o.rest <:+ s) (hu : o.unitS <:+ s ∧ o.rest <:+ o.unitS) : NextShape s o :=
  ⟨⟨[], by simp [hs], fun _ => Gap.nil, fun h => absurd h hk⟩, hs ▸ hr, hs ▸ hu⟩

theorem next_shape (oldRem : Nat) (s : List Ch) (hw : WfS s) : NextShape s (next oldRem s) := by
  fun_induction next oldRem s with
  | case1 =>
    exact ⟨⟨[], rfl, fun h => absurd rfl h, fun _ => ⟨GapEnd.closed _ Gap.nil, rfl⟩⟩, List.suffix_refl _,
      List.suffix_refl _, List.suffix_refl _⟩
  | case2 c h =>
    exact nextShape_nogap _ _ rfl (by simp) List.nil_suffix ⟨List.nil_suffix, List.suffix_refl _⟩
  | case3 c h d u hd ih =>
    simp only [beq_iff_eq] at h hd
    have hc1 := (hw.head).raw_of_ascii (by omega)
    have hd1 := (hw.tail.head).raw_of_ascii (by omega)
    have hwu : WfS u := hw.tail.tail
    cases hl : commentLoop u with
    | none =>
      have hr := consumeComment_rest_none (c :: d :: u) u hl
      rw [hr]
      have hn : next oldRem [] = ⟨.TEndOfFile, [], [], [], false, false, oldRem, [], none⟩ := by simp [next]
      rw [hn]
      refine ⟨⟨c :: d :: u, by simp [NextOut.withComment], fun hk => absurd rfl hk, fun _ => ⟨?_, rfl⟩⟩,
        List.suffix_refl _, List.suffix_refl _, List.suffix_refl _⟩
      have := GapEnd.unterminated [] (rawOf u) Gap.nil (commentLoop_none u hwu hl)
      simpa [rawOf_cons, hc1, hd1, h, hd] using this
    | some p =>
      obtain ⟨star, rest⟩ := p
      have hr := consumeComment_rest_some (c :: d :: u) u star rest hl
      rw [hr] at ih ⊢
      obtain ⟨chars, hu, hcb⟩ := commentLoop_some u hwu star rest hl
      have hwr : WfS rest := hwu.suffix (hu ▸ List.suffix_append _ _)
      obtain ⟨⟨gapc, hg1, hg2, hg3⟩, hrest, hunit⟩ := ih hwr
      have hgap : Gap (rawOf (c :: d :: chars)) := by
        have := Gap.comment (rawOf chars) [] hcb Gap.nil
        simpa [rawOf_cons, hc1, hd1, h, hd] using this
      refine ⟨⟨c :: d :: chars ++ gapc, ?_, ?_, ?_⟩, hrest, hunit⟩
      · simp only [NextOut.withComment]
        rw [hu]
        conv => lhs; rw [hg1]
        simp
      · intro hk
        rw [rawOf_append]
        exact hgap.append (hg2 hk)
      · intro hk
        rw [rawOf_append]
        exact ⟨GapEnd.prepend hgap (hg3 hk).1, (hg3 hk).2⟩
  | case4 c h d u hd1 hd2 hle =>
    exact nextShape_nogap _ _ rfl (by simp) (suf_tail _ _) ⟨suf_tail _ _, List.suffix_refl _⟩
  | case5 c h d u hd1 hd2 hle =>
    exact nextShape_nogap _ _ rfl (by simp) (suf_tail _ _) ⟨suf_tail _ _, List.suffix_refl _⟩
  | case6 c h d u hd1 hd2 =>
    exact nextShape_nogap _ _ rfl (by simp) (suf_tail _ _) ⟨suf_tail _ _, List.suffix_refl _⟩
  | case7 c t h hws =>
    exact nextShape_nogap _ _ rfl (by simp) (suf_of_tail (wsLoop_suffix t)) ⟨suf_of_tail (wsLoop_suffix t), List.suffix_refl _⟩
  | case8 c t h hws =>
    have := lexOther_suffix c t
    exact nextShape_nogap _ _ rfl (lexOther_kind_ne_eof c t) this.1 ⟨this.2.1, this.2.2⟩

end EsbuildModel.CssLex
