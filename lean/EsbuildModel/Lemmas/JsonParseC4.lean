import EsbuildModel.Lemmas.JsonParseC3
/-
Completeness of the parser: numbers (sign, what the dialect allows after it, digits).
-/
namespace EsbuildModel.Json
open EsbuildModel.Spec.Json EsbuildModel.Spec.NumLit

theorem lit_head {l : Lit} (hv : l.valid = true) (hb : l.isBig = false) :
    ∃ c t, l.render = c :: t ∧ (isDigit c = true ∨ c = '.') := by
  have hint : ∀ i : List Char, decIntOk i = true → ∃ c t, i = c :: t ∧ isDigit c = true := by
    intro i hi
    cases i with
    | nil => simp [decIntOk, plainDecInt, nonOctalDec] at hi
    | cons c t =>
      refine ⟨c, t, rfl, ?_⟩
      simp only [decIntOk, Bool.or_eq_true] at hi
      rcases hi with hi | hi
      · simp only [plainDecInt] at hi
        split at hi
        · rename_i h0; rw [h0]; decide
        · simp only [sepDigits, Bool.and_eq_true] at hi; exact hi.1
      · simp only [nonOctalDec, Bool.and_eq_true, beq_iff_eq] at hi
        rw [hi.1.1.1]; decide
  cases l with
  | dec i f e =>
    cases i with
    | nil =>
      cases f with
      | none => simp [Lit.valid] at hv
      | some g => exact ⟨'.', g ++ expSText e, by simp [Lit.render, Spec.Num.fracText], Or.inr rfl⟩
    | cons a t =>
      have hd : decIntOk (a :: t) = true := by
        cases f <;> simp only [Lit.valid, Bool.and_eq_true] at hv
        · exact hv.1
        · exact hv.1.1
      obtain ⟨c, t', h1, h2⟩ := hint _ hd
      cases h1
      exact ⟨a, t ++ (Spec.Num.fracText f ++ expSText e), by simp [Lit.render], Or.inl h2⟩
  | legacyOctal ds => exact ⟨'0', ds, rfl, Or.inl (by decide)⟩
  | nonDec r u ds => exact ⟨'0', _, rfl, Or.inl (by decide)⟩
  | bigDec ds => cases hb
  | bigNonDec r u ds => cases hb

theorem lexAt_dot (fl : Flavor) (P : Params) (L : Lx) (sk : Sk) (c : Cp) (r : List Cp) (h : c.c = '.') :
    lexAt fl P L sk (c :: r) = lexNumber fl P L sk (c :: r) := by
  simp only [lexAt, h]
  simp only [Char.reduceEq, if_false, false_or, true_or, if_true]

theorem lexAt_num_head (fl : Flavor) (P : Params) (L : Lx) (sk : Sk) (c : Char) (r : List Cp)
    (h : isDigit c = true ∨ c = '.') : lexAt fl P L sk (cpOf c :: r) = lexNumber fl P L sk (cpOf c :: r) := by
  rcases h with h | h
  · exact lexAt_digit fl P L sk _ r h
  · exact lexAt_dot fl P L sk _ r h

theorem jnum_facts (fl : Flavor) (n : JNum) (h : n.ok (dialectOf fl) = true) :
    n.lit.valid = true ∧ n.lit.isBig = false ∧ legacyIntWithTail n.lit = false ∧
    (fl = .json → jsonNumBad n.lit.render = false) ∧ Sep.ok (dialectOf fl) false false n.gap = true ∧
    (n.neg = false → n.gap = []) ∧ (fl = .json → n.gap = []) := by
  simp only [JNum.ok, Bool.or_eq_true, Bool.and_eq_true, List.isEmpty_iff, Bool.not_eq_true'] at h
  rcases h with ⟨h1, h2⟩ | ⟨⟨⟨⟨h0, h1⟩, h2⟩, h3⟩, h4⟩
  · obtain ⟨a1, a2, a3, i, f, e, hl, b1, b2, b3, b4, b5⟩ := rfcLit_facts h1
    refine ⟨a1, a2, a3, fun _ => ?_, by rw [h2]; rfl, fun _ => h2, fun _ => h2⟩
    rw [hl]; exact jsonNumBad_rfc b1 b2 b3 b4 b5
  · have hts : fl = .tsconfig := by
      cases fl
      · cases h0
      · rfl
    subst hts
    refine ⟨h1, h2, h3, ?_, ?_, ?_, ?_⟩
    · intro h; cases h
    rotate_left 2
    · intro h; cases h
    · rcases h4 with h4 | h4
      · rw [h4]; rfl
      · exact h4.2
    · intro hn
      rcases h4 with h4 | h4
      · exact h4
      · rw [hn] at h4; cases h4.1

theorem ws_not_minus {fl : Flavor} {c : Char} (h : isRfcWs c = true ∨ (dialectOf fl).extraWs c = true ∨ c = '/' ∨ c = '<') :
    (c == '=' || c == '-') = false := by
  rcases h with h | h | h | h
  · simp only [isRfcWs, Bool.or_eq_true, beq_iff_eq] at h
    rcases h with ((h | h) | h) | h <;> (subst h; decide)
  · rw [dialect_extraWs] at h
    simp only [Bool.or_eq_false_iff, beq_eq_false_iff_ne, ne_eq]
    constructor <;> (rintro rfl; revert h; decide)
  · subst h; decide
  · subst h; decide

section
variable {P : Params} {Rd : Rat → F64} (hP : ParamsOK P Rd) (o : Opts)
include hP

theorem num_done (n : Nat) (jn : JNum) (L0 : Lx) (sk : Sk) (rest : List Cp)
    (hok : jn.ok (dialectOf o.flavor) = true) (hf : Follow rest) (hcl : sk.log.Clean) :
    ValDone Rd o P (n + 1) (.num jn) L0 sk rest := by
  obtain ⟨hv, hb, hnd, hbad, hgap, hneg, hjson⟩ := jnum_facts o.flavor jn hok
  obtain ⟨c, t, hr, hc⟩ := lit_head hv hb
  have hlen : 0 < jn.lit.render.length := by rw [hr]; simp
  cases hn : jn.neg with
  | false =>
    have hg := hneg hn
    have hrender : (Val.num jn).render = jn.lit.render := by
      simp [Val.render, JNum.render, hn, hg]
    have hlex : lexAt o.flavor P L0 sk (cps (Val.num jn).render ++ rest) =
        .ok { L0.at sk .num rest (sk.pos + jn.lit.render.length) with number := Rd jn.lit.mv } := by
      rw [hrender, ← lexNumber_complete hP o.flavor L0 sk jn.lit rest hv hb hnd hbad hf]
      rw [hr]
      exact lexAt_num_head o.flavor P L0 sk c _ hc
    refine ⟨_, .num (Rd jn.lit.mv), { L0.at sk .num rest (sk.pos + jn.lit.render.length) with number := Rd jn.lit.mv },
      hlex, by simp [Lx.at], by simp [Lx.at], rfl, ?_, rfl, hcl, ?_, ?_⟩
    · simp [parseExpr, Lx.at]
    · simp only [Lx.at]; omega
    · simp [RepV, JNum.value, hn]
  | true =>
    -- the sign
    have hhead : ∃ c' t', Sep.render jn.gap ++ jn.lit.render = c' :: t' ∧ (c' == '=' || c' == '-') = false ∧
        (o.flavor = .json → (c' == '.' || isDigit c') = true) := by
      by_cases hg : jn.gap = []
      · refine ⟨c, t, by rw [hg, hr]; rfl, ?_, fun _ => ?_⟩
        · rcases hc with hc | hc
          · have : 48 ≤ c.toNat ∧ c.toNat ≤ 57 := by simpa [isDigit] using hc
            simp only [Bool.or_eq_false_iff, beq_eq_false_iff_ne, ne_eq]
            constructor <;> (rintro rfl; revert this; decide)
          · subst hc; decide
        · rcases hc with hc | hc
          · simp [hc]
          · simp [hc]
      · obtain ⟨c', t', h1, h2⟩ := sep_head hgap hg
        refine ⟨c', t' ++ jn.lit.render, by rw [h1]; rfl, ws_not_minus h2, fun hj => absurd (hjson hj) hg⟩
    obtain ⟨c', t', hh1, hh2, hh3⟩ := hhead
    have hrender : cps (Val.num jn).render ++ rest =
        cpOf '-' :: (cps (Sep.render jn.gap) ++ (cps jn.lit.render ++ rest)) := by
      simp [Val.render, JNum.render, hn]
    have hr2 : cps (Sep.render jn.gap) ++ (cps jn.lit.render ++ rest) = cpOf c' :: (cps t' ++ rest) := by
      rw [← List.append_assoc, ← cps_append, hh1]; rfl
    have hlex : lexAt o.flavor P L0 sk (cps (Val.num jn).render ++ rest) =
        .ok (L0.at sk .minus (cps (Sep.render jn.gap) ++ (cps jn.lit.render ++ rest)) (sk.pos + (cpOf '-').w)) := by
      rw [hrender]
      apply lexAt_minus
      · rw [hr2]; simpa [headIs] using hh2
      · intro hj; rw [hr2]; simpa [headIs] using hh3 hj
    -- the digits
    have hpos : 0 < (cpOf '-').w := cpOf_w_pos '-'
    have hstop : SepStop (cps jn.lit.render ++ rest) := by
      rw [hr]
      rcases hc with hc | hc
      · exact sepStop_of_digit hc
      · exact sepStop_of_punct (by simp [hc])
    obtain ⟨log', hcl', hnext⟩ := next_at o.flavor P
      (L0.at sk .minus (cps (Sep.render jn.gap) ++ (cps jn.lit.render ++ rest)) (sk.pos + (cpOf '-').w))
      jn.gap (cps jn.lit.render ++ rest) false rfl
      (by
        have : (sk.pos + (cpOf '-').w == 0) = false := by simp; omega
        simp only [Lx.at, this]; exact hgap)
      hcl (by simp) hstop
    have hnum := lexNumber_complete hP o.flavor
      (L0.at sk .minus (cps (Sep.render jn.gap) ++ (cps jn.lit.render ++ rest)) (sk.pos + (cpOf '-').w))
      ⟨sk.pos + (cpOf '-').w + widths (cps (Sep.render jn.gap)), (sk.pos + (cpOf '-').w == 0) || sepNl jn.gap, log'⟩
      jn.lit rest hv hb hnd hbad hf
    have hnx : next o.flavor P
        (L0.at sk .minus (cps (Sep.render jn.gap) ++ (cps jn.lit.render ++ rest)) (sk.pos + (cpOf '-').w)) =
        .ok { (L0.at sk .minus (cps (Sep.render jn.gap) ++ (cps jn.lit.render ++ rest)) (sk.pos + (cpOf '-').w)).at
          ⟨sk.pos + (cpOf '-').w + widths (cps (Sep.render jn.gap)), (sk.pos + (cpOf '-').w == 0) || sepNl jn.gap, log'⟩
          .num rest (sk.pos + (cpOf '-').w + widths (cps (Sep.render jn.gap)) + jn.lit.render.length)
            with number := Rd jn.lit.mv } := by
      rw [hnext, ← hnum, hr]
      exact lexAt_num_head o.flavor P _ _ c _ hc
    obtain ⟨Lnum, e1, e2, e3, e4, e5, e6⟩ : ∃ Lnum : Lx, next o.flavor P
        (L0.at sk .minus (cps (Sep.render jn.gap) ++ (cps jn.lit.render ++ rest)) (sk.pos + (cpOf '-').w)) = .ok Lnum ∧
        Lnum.rest = rest ∧ Lnum.log = log' ∧ Lnum.tok = .num ∧ Lnum.number = Rd jn.lit.mv ∧ 0 < Lnum.end_ :=
      ⟨_, hnx, rfl, rfl, rfl, rfl, by simp only [Lx.at]; omega⟩
    refine ⟨_, .num (F64.neg (Rd jn.lit.mv)), Lnum, hlex, by simp [Lx.at], by simp [Lx.at], rfl, ?_, e2, ?_, e6, ?_⟩
    · simp only [parseExpr, Lx.at] at e1 ⊢
      rw [e1]
      simp only [R.bind_ok, expect, e4, e5, ne_eq, not_true_eq_false, if_false]
    · rw [e3]; exact hcl'
    · simp [RepV, JNum.value, hn]

end
end EsbuildModel.Json
