import EsbuildModel.Lemmas.GoSortMerge
/-!
`sort.Stable`, part 2d: `symMerge(data, a, m, b)` merges two sorted runs — for every `Less` that is a total preorder.
-/
namespace EsbuildModel.GoSort
set_option linter.unusedSectionVars false
variable {α : Type} [Inhabited α]

/-- case `m-a == 1`: `f a` is inserted in front of position `i` of the sorted run `[a+1, b)` -/
theorem up_sorted (lt : α → α → Bool) (hlt : TotalPreorder lt) (f : Nat → α) (a b i : Nat) (hi1 : a + 1 ≤ i) (hi2 : i ≤ b)
    (s2 : SortedOn lt f (a + 1) b)
    (hl : i = a + 1 ∨ lt (f (i - 1)) (f a) = true) (hr : i = b ∨ lt (f i) (f a) = false) :
    SortedOn lt (upF f a (i - 1 - a)) a b ∧ EqOut f (upF f a (i - 1 - a)) a b ∧ Sub f (upF f a (i - 1 - a)) a b := by
  have u1 : ∀ k, a ≤ k → k < i - 1 → upF f a (i - 1 - a) k = f (k + 1) := by
    intro k k1 k2; simp only [upF]; idx
  have u2 : upF f a (i - 1 - a) (i - 1) = f a := by simp only [upF]; idx
  have u3 : ∀ k, i ≤ k → upF f a (i - 1 - a) k = f k := by
    intro k k1; simp only [upF]; idx
  have u0 : ∀ k, k < a → upF f a (i - 1 - a) k = f k := by
    intro k k1; simp only [upF]; idx
  refine ⟨?_, ?_, ?_⟩
  · intro p q p1 p2 p3
    by_cases hp : p < i - 1
    · rw [u1 p p1 hp]
      by_cases hq : q < i - 1
      · rw [u1 q (by omega) hq]; exact s2 _ _ (by omega) (by omega) (by omega)
      · by_cases hq2 : q = i - 1
        · rw [hq2, u2]
          rcases hl with hl | hl
          · omega
          · exact hlt.trans _ _ _ (s2 (p + 1) (i - 1) (by omega) (by omega) (by omega)) hl
        · rw [u3 q (by omega)]; exact s2 _ _ (by omega) (by omega) p3
    · by_cases hp2 : p = i - 1
      · rw [hp2, u2]
        by_cases hq2 : q = i - 1
        · rw [hq2, u2]; exact hlt.refl _
        · rw [u3 q (by omega)]
          rcases hr with hr | hr
          · omega
          · exact hlt.trans _ _ _ (hlt.of_not hr) (s2 i q (by omega) (by omega) p3)
      · rw [u3 p (by omega), u3 q (by omega)]; exact s2 p q (by omega) p2 p3
  · intro k hk
    rcases hk with hk | hk
    · exact u0 k hk
    · exact u3 k (by omega)
  · intro k k1 k2
    by_cases hp : k < i - 1
    · exact ⟨k + 1, by omega, by omega, u1 k k1 hp⟩
    · by_cases hp2 : k = i - 1
      · exact ⟨a, by omega, by omega, by rw [hp2, u2]⟩
      · exact ⟨k, k1, k2, u3 k (by omega)⟩

/-- case `b-m == 1`: `f m` is inserted at position `i` of the sorted run `[a, m)` -/
theorem down_sorted (lt : α → α → Bool) (hlt : TotalPreorder lt) (f : Nat → α) (a m i : Nat) (hi1 : a ≤ i) (hi2 : i ≤ m)
    (s1 : SortedOn lt f a m)
    (hl : i = a ∨ lt (f m) (f (i - 1)) = false) (hr : i = m ∨ lt (f m) (f i) = true) :
    SortedOn lt (downF f m (m - i)) a (m + 1) ∧ EqOut f (downF f m (m - i)) a (m + 1) ∧
      Sub f (downF f m (m - i)) a (m + 1) := by
  have e : m - (m - i) = i := by omega
  have u1 : ∀ k, i < k → k ≤ m → downF f m (m - i) k = f (k - 1) := by
    intro k k1 k2; simp only [downF]; idx
  have u2 : downF f m (m - i) i = f m := by simp only [downF]; idx
  have u3 : ∀ k, k < i → downF f m (m - i) k = f k := by
    intro k k1; simp only [downF]; idx
  have u4 : ∀ k, m < k → downF f m (m - i) k = f k := by
    intro k k1; simp only [downF]; idx
  refine ⟨?_, ?_, ?_⟩
  · intro p q p1 p2 p3
    by_cases hp : p < i
    · rw [u3 p hp]
      by_cases hq : q < i
      · rw [u3 q hq]; exact s1 p q p1 p2 (by omega)
      · by_cases hq2 : q = i
        · rw [hq2, u2]
          rcases hl with hl | hl
          · omega
          · exact hlt.trans _ _ _ (s1 p (i - 1) p1 (by omega) (by omega)) (hlt.of_not hl)
        · rw [u1 q (by omega) (by omega)]; exact s1 p (q - 1) p1 (by omega) (by omega)
    · by_cases hp2 : p = i
      · rw [hp2, u2]
        by_cases hq2 : q = i
        · rw [hq2, u2]; exact hlt.refl _
        · rw [u1 q (by omega) (by omega)]
          rcases hr with hr | hr
          · omega
          · exact hlt.trans _ _ _ hr (s1 i (q - 1) hi1 (by omega) (by omega))
      · rw [u1 p (by omega) (by omega), u1 q (by omega) (by omega)]
        exact s1 (p - 1) (q - 1) (by omega) (by omega) (by omega)
  · intro k hk
    rcases hk with hk | hk
    · exact u3 k (by omega)
    · exact u4 k (by omega)
  · intro k k1 k2
    by_cases hp : k < i
    · exact ⟨k, k1, k2, u3 k hp⟩
    · by_cases hp2 : k = i
      · exact ⟨m, by omega, by omega, by rw [hp2, u2]⟩
      · exact ⟨k - 1, by omega, by omega, u1 k (by omega) (by omega)⟩

/-- the end of `symMerge` on functions: two recursive results glued together -/
theorem merge_finish (lt : α → α → Bool) (g g1 g2 : Nat → α) (a mid b : Nat) (hamid : a ≤ mid) (hmidb : mid ≤ b)
    (hc : ∀ x y, a ≤ x → x < mid → mid ≤ y → y < b → lt (g x) (g y) = true)
    (s1 : SortedOn lt g1 a mid) (e1 : EqOut g g1 a mid) (b1 : Sub g g1 a mid)
    (s2 : SortedOn lt g2 mid b) (e2 : EqOut g1 g2 mid b) (b2 : Sub g1 g2 mid b) :
    SortedOn lt g2 a b ∧ EqOut g g2 a b ∧ Sub g g2 a b := by
  refine ⟨?_, ?_, ?_⟩
  · apply sorted_join lt g2 a mid b
    · exact s1.congr (fun k k1 k2 => e2 k (by omega))
    · exact s2
    · intro x y x1 x2 y1 y2
      rw [e2 x (by omega)]
      obtain ⟨x', a1, a2, ex⟩ := b1 x x1 x2
      obtain ⟨y', c1, c2, ey⟩ := b2 y y1 y2
      rw [ex, ey, e1 y' (by omega)]
      exact hc x' y' a1 a2 c1 c2
  · exact (e1.widen (Nat.le_refl _) hmidb).trans (e2.widen hamid (Nat.le_refl _))
  · exact (b1.widen e1 (Nat.le_refl _) hmidb).trans (b2.widen e2 hamid (Nat.le_refl _))


/-- what `symMerge` guarantees -/
def Merged (lt : α → α → Bool) (d d' : Array α) (a b : Nat) : Prop :=
  d'.size = d.size ∧ SortedOn lt (view d') a b ∧ EqOut (view d) (view d') a b ∧ Sub (view d) (view d') a b

/-- the general case after the binary search, given the recursive calls behave (`ih`) -/
theorem symMerge_general (lt : α → α → Bool) (hlt : TotalPreorder lt) (fuel : Nat)
    (ih : ∀ (d : Array α) (a m b : Nat), a < m → m < b → b ≤ d.size → b - a ≤ fuel →
      SortedOn lt (view d) a m → SortedOn lt (view d) m b → ∃ d', symMerge lt fuel d a m b = some d' ∧ Merged lt d d' a b)
    (d : Array α) (a m b mid start end_ : Nat) (ham : a < m) (hmb : m < b) (hb : b ≤ d.size) (hf : b - a ≤ fuel + 1)
    (hmid1 : a < mid) (hmid2 : mid < b)
    (h1 : a ≤ start) (h2 : start ≤ m) (h3 : m ≤ end_) (h4 : end_ ≤ b) (h5 : end_ - m = mid - start) (h6 : start ≤ mid)
    (s1 : SortedOn lt (view d) a m) (s2 : SortedOn lt (view d) m b)
    (hl : start = a ∨ end_ = b ∨ lt (view d end_) (view d (start - 1)) = false)
    (hr : start = m ∨ end_ = m ∨ lt (view d (end_ - 1)) (view d start) = true) :
    ∃ d', (match (if start < m ∧ m < end_ then rotate d start m end_ else some d) with
        | none => none
        | some d =>
          match (if a < start ∧ start < mid then symMerge lt fuel d a start mid else some d) with
          | none => none
          | some d => if mid < end_ ∧ end_ < b then symMerge lt fuel d mid end_ b else some d) = some d' ∧
      Merged lt d d' a b := by
  obtain ⟨l1, l2, l3, l4, lc⟩ := merge_layout lt hlt (view d) a m b mid start end_ h1 h2 h3 h4 h5 h6 s1 s2 hl hr
  -- the rotation
  have hrot : ∃ d1, (if start < m ∧ m < end_ then rotate d start m end_ else some d) = some d1 ∧ d1.size = d.size ∧
      view d1 = rotF (view d) start m end_ := by
    by_cases hc : start < m ∧ m < end_
    · simp only [hc, and_self, if_true]
      exact rotate_view d start m end_ hc.1 hc.2 (by omega)
    · simp only [hc, if_false]
      refine ⟨d, rfl, rfl, ?_⟩
      have : start = m ∨ end_ = m := by omega
      rcases this with h | h
      · subst h; rw [rotF_id_left]
      · subst h; rw [rotF_id_right]
  obtain ⟨d1, hd1, hs1, hv1⟩ := hrot
  rw [hd1]
  simp only
  have hfr := rotF_frame (view d) start m end_ h2 h3
  rw [← hv1] at l1 l2 l3 l4 lc hfr
  -- first recursive call
  have hrec1 : ∃ d2, (if a < start ∧ start < mid then symMerge lt fuel d1 a start mid else some d1) = some d2 ∧
      Merged lt d1 d2 a mid := by
    by_cases hc : a < start ∧ start < mid
    · simp only [hc, and_self, if_true]
      exact ih d1 a start mid hc.1 hc.2 (by omega) (by omega) l1 l2
    · simp only [hc, if_false]
      refine ⟨d1, rfl, rfl, ?_, EqOut.refl _ _ _, Sub.refl _ _ _⟩
      have : start = a ∨ start = mid := by omega
      rcases this with h | h
      · rw [← h]; exact l2
      · rw [← h]; exact l1
  obtain ⟨d2, hd2, hs2, hsorted2, heq2, hsub2⟩ := hrec1
  rw [hd2]
  simp only
  -- second recursive call: its input runs are those of d1 (d2 differs from d1 only below mid)
  have l3' : SortedOn lt (view d2) mid end_ := l3.congr (fun k k1 k2 => heq2 k (by omega))
  have l4' : SortedOn lt (view d2) end_ b := l4.congr (fun k k1 k2 => heq2 k (by omega))
  have hrec2 : ∃ d3, (if mid < end_ ∧ end_ < b then symMerge lt fuel d2 mid end_ b else some d2) = some d3 ∧
      Merged lt d2 d3 mid b := by
    by_cases hc : mid < end_ ∧ end_ < b
    · simp only [hc, and_self, if_true]
      exact ih d2 mid end_ b hc.1 hc.2 (by omega) (by omega) l3' l4'
    · simp only [hc, if_false]
      refine ⟨d2, rfl, rfl, ?_, EqOut.refl _ _ _, Sub.refl _ _ _⟩
      have : end_ = mid ∨ end_ = b := by omega
      rcases this with h | h
      · rw [← h]; exact l4'
      · rw [← h]; exact l3'
  obtain ⟨d3, hd3, hs3, hsorted3, heq3, hsub3⟩ := hrec2
  refine ⟨d3, hd3, by omega, ?_⟩
  obtain ⟨f1, f2, f3⟩ := merge_finish lt (view d1) (view d2) (view d3) a mid b (by omega) (by omega) lc hsorted2 heq2 hsub2
    hsorted3 heq3 hsub3
  exact ⟨f1, (hfr.1.widen h1 h4).trans f2, (hfr.2.widen hfr.1 h1 h4).trans f3⟩


/-- `symMerge(data, a, m, b)`: two adjacent sorted runs become one sorted run; nothing outside `[a, b)` moves and the
run keeps its elements — for every total preorder `Less`. -/
theorem symMerge_sorted (lt : α → α → Bool) (hlt : TotalPreorder lt) : ∀ (fuel : Nat) (d : Array α) (a m b : Nat),
    a < m → m < b → b ≤ d.size → b - a ≤ fuel → SortedOn lt (view d) a m → SortedOn lt (view d) m b →
    ∃ d', symMerge lt fuel d a m b = some d' ∧ Merged lt d d' a b := by
  intro fuel
  induction fuel with
  | zero => intro d a m b h1 h2 _ h; omega
  | succ fuel ih =>
    intro d a m b ham hmb hb hf s1 s2
    unfold symMerge
    by_cases c1 : m - a = 1
    · simp only [c1, if_true]
      have hm : m = a + 1 := by omega
      obtain ⟨i, hi, hi1, hi2, hl, hr⟩ := searchA_spec lt d a (by omega) m b (b - m + 1) m b hb (by omega) (by omega)
        (Nat.le_refl _) (Nat.le_refl _) (Or.inl rfl) (Or.inl rfl)
      rw [hi]
      simp only
      obtain ⟨d', hd', hs', hv'⟩ := bubbleUp_view (i - 1 - a) a d (by omega)
      refine ⟨d', hd', hs', ?_⟩
      rw [hv']
      subst hm
      exact up_sorted lt hlt (view d) a b i hi1 hi2 s2 hl hr
    · simp only [c1, if_false]
      by_cases c2 : b - m = 1
      · simp only [c2, if_true]
        have hbm : b = m + 1 := by omega
        obtain ⟨i, hi, hi1, hi2, hl, hr⟩ := searchB_spec lt d m (by omega) a m (m - a + 1) a m (by omega) (by omega) (by omega)
          (Nat.le_refl _) (Nat.le_refl _) (Or.inl rfl) (Or.inl rfl)
        rw [hi]
        simp only
        obtain ⟨d', hd', hs', hv'⟩ := bubbleDown_view (m - i) m d (by omega) (by omega)
        refine ⟨d', hd', hs', ?_⟩
        rw [hv']
        subst hbm
        exact down_sorted lt hlt (view d) a m i hi1 hi2 s1 hl hr
      · simp only [c2, if_false]
        have hmid1 : a < (a + b) / 2 := by omega
        have hmid2 : (a + b) / 2 < b := by omega
        by_cases hm : m > (a + b) / 2
        · simp only [hm, if_true]
          rw [sub?_some ((a + b) / 2 + m) b (by omega), sub?_some ((a + b) / 2 + m) 1 (by omega)]
          simp only
          obtain ⟨start, hs, hs1, hs2, hl, hr⟩ := searchC_spec lt d ((a + b) / 2 + m - 1) ((a + b) / 2 + m - b) ((a + b) / 2)
            (fun c hc1 hc2 => by omega) ((a + b) / 2 - ((a + b) / 2 + m - b) + 1) ((a + b) / 2 + m - b) ((a + b) / 2)
            (by omega) (by omega) (Nat.le_refl _) (Nat.le_refl _) (Or.inl rfl) (Or.inl rfl)
          rw [hs]
          simp only
          rw [sub?_some _ start (by omega)]
          simp only
          refine symMerge_general lt hlt fuel ih d a m b ((a + b) / 2) start ((a + b) / 2 + m - start) ham hmb hb hf hmid1 hmid2
            (by omega) (by omega) (by omega) (by omega) (by omega) (by omega) s1 s2 ?_ ?_
          · by_cases hs0 : start = (a + b) / 2 + m - b
            · right; left; omega
            · rcases hl with hl | hl
              · exact absurd hl hs0
              · right; right
                rw [show (a + b) / 2 + m - 1 - (start - 1) = (a + b) / 2 + m - start by omega] at hl
                exact hl
          · rcases hr with hr | hr
            · right; left; omega
            · right; right
              rw [show (a + b) / 2 + m - 1 - start = (a + b) / 2 + m - start - 1 by omega] at hr
              exact hr
        · simp only [hm, if_false]
          rw [sub?_some ((a + b) / 2 + m) 1 (by omega)]
          simp only
          obtain ⟨start, hs, hs1, hs2, hl, hr⟩ := searchC_spec lt d ((a + b) / 2 + m - 1) a m
            (fun c hc1 hc2 => by omega) (m - a + 1) a m
            (by omega) (by omega) (Nat.le_refl _) (Nat.le_refl _) (Or.inl rfl) (Or.inl rfl)
          rw [hs]
          simp only
          rw [sub?_some _ start (by omega)]
          simp only
          refine symMerge_general lt hlt fuel ih d a m b ((a + b) / 2) start ((a + b) / 2 + m - start) ham hmb hb hf hmid1 hmid2
            (by omega) (by omega) (by omega) (by omega) (by omega) (by omega) s1 s2 ?_ ?_
          · by_cases hs0 : start = a
            · left; exact hs0
            · rcases hl with hl | hl
              · exact absurd hl hs0
              · right; right
                rw [show (a + b) / 2 + m - 1 - (start - 1) = (a + b) / 2 + m - start by omega] at hl
                exact hl
          · rcases hr with hr | hr
            · left; exact hr
            · right; right
              rw [show (a + b) / 2 + m - 1 - start = (a + b) / 2 + m - start - 1 by omega] at hr
              exact hr

end EsbuildModel.GoSort
