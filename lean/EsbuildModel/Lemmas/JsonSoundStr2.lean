import EsbuildModel.Lemmas.JsonSoundStr
/-
Soundness for strings, part 2 (strict JSON flavour): what `tryToDecodeEscapeSequences` decodes without complaint
is a string body of the dialect, and it decodes it to the body's code units.
-/
namespace EsbuildModel.Json
open EsbuildModel.Spec.Json

theorem Dec.cons_ok_inv {d : Dec} {pre us : List Nat} (h : d.cons pre = .ok us) : ∃ t, d = .ok t ∧ us = pre ++ t := by
  cases d with
  | ok t => simp only [Dec.cons, Dec.ok.injEq] at h; exact ⟨t, rfl, h.symm⟩
  | fail e => cases h
  | oor a => cases h

theorem scanClean_bs {d : Char} {t : List Char} (h : ScanClean .json ('\\' :: d :: t)) : ScanClean .json t := by
  cases h with
  | plain _ _ h1 => exact absurd rfl h1
  | esc _ _ _ h2 => exact h2
  | crlf _ h1 => exact absurd rfl h1
  | cr _ h1 => exact absurd rfl h1

theorem scanClean_plain {c : Char} {t : List Char} (h : ScanClean .json (c :: t)) (hc : c ≠ '\\') :
    c ≠ '"' ∧ c.toNat ≥ 0x20 ∧ ScanClean .json t := by
  cases h with
  | plain _ _ h1 h2 h3 h4 h5 h6 =>
    refine ⟨h4, ?_, h6⟩
    rcases h5 with h5 | h5
    · omega
    · simp only [true_and, Nat.not_lt] at h5; exact h5
  | esc _ _ _ _ => exact absurd rfl hc
  | crlf _ _ => exact absurd rfl hc
  | cr _ _ => exact absurd rfl hc

/-- the conclusion of soundness in mode `m` -/
def DecPost (m : DMode) (l : List Cp) (us : List Nat) : Prop :=
  match m with
  | .normal => ScanClean .json (chars l) →
      ∃ cs, strOk (dialectOf .json) cs = true ∧ chars l = strRender cs ∧ us = strUnits cs
  | .brace _ _ _ _ => True

theorem dec_esc_case (c d : Cp) (r : List Cp) (us : List Nat) (u : Nat) (d' : Dec) (hc : c.c = '\\')
    (h : d'.cons [u] = .ok us) (ih : ∀ us', d' = .ok us' → DecPost .normal r us')
    (hok : (SChar.esc d.c).ok (dialectOf .json) none = true) (hu : (SChar.esc d.c).units = [u]) :
    DecPost .normal (c :: d :: r) us := by
  intro hsc
  simp only [chars_cons, hc] at hsc
  obtain ⟨t, ht, rfl⟩ := Dec.cons_ok_inv h
  obtain ⟨cs, k1, k2, k3⟩ := ih t ht (scanClean_bs hsc)
  refine ⟨.esc d.c :: cs, ?_, ?_, ?_⟩
  · simp only [strOk, k1, Bool.and_true]
    simpa [SChar.ok] using hok
  · simp [SChar.render, hc, k2]
  · simp [hu, k3]

theorem isHexDigit_of_hexVal {c : Char} {d : Nat} (h : hexVal c = some d) : isHexDigit c = true ∧ hexD c = d := by
  rw [hexVal_eq] at h
  simp [isHexDigit, hexD, h]

theorem hex_plain {c : Char} (h : isHexDigit c = true) : c ≠ '\\' := by
  rintro rfl; revert h; decide

theorem decodeEsc_sound_json (m : DMode) (l : List Cp) (p : Nat) :
    ∀ us, decodeEsc .json m l p = .ok us → DecPost m l us := by
  fun_induction decodeEsc .json m l p <;> intro us h
  all_goals try (cases h; done)
  all_goals try (exfalso; simp at *; done)
  all_goals try trivial
  case case1 =>
    cases h
    intro _
    exact ⟨[], rfl, rfl, rfl⟩
  case case8 c _ hcr d t _ ih =>
    intro hsc
    simp only [chars_cons, hcr] at hsc
    cases hsc with
    | plain _ _ _ h2 => exact absurd rfl h2
  case case10 c r _ hcr _ ih =>
    intro hsc
    simp only [chars_cons, hcr] at hsc
    cases hsc with
    | plain _ _ _ h2 => exact absurd rfl h2
  case case11 c r _ hcr hbs ih =>
    intro hsc
    obtain ⟨h1, h2, h3⟩ := scanClean_plain hsc hbs
    obtain ⟨t, ht, rfl⟩ := Dec.cons_ok_inv h
    obtain ⟨cs, k1, k2, k3⟩ := ih t ht h3
    refine ⟨.lit c.c :: cs, ?_, ?_, ?_⟩
    · simp only [strOk, k1, Bool.and_true, SChar.ok, Bool.and_eq_true, bne_iff_ne, ne_eq]
      exact ⟨⟨h1, hbs⟩, by simpa [dialectOf, esbuildStrict, rfc8259] using h2⟩
    · simp [SChar.render, k2]
    · simp [SChar.units, k3, unitsOf_eq _ (char_le c.c)]
  case case14 c _ hcr hbs _ d r _ _ hd ih =>
    exact dec_esc_case c d r us 8 _ (by simpa using hbs) h ih (by simp [SChar.ok, hd, rfcEscape]) (by simp [SChar.units, hd, rfcEscape, Spec.Unicode.utf16])
  case case15 c _ hcr hbs _ d r _ _ _ hd ih =>
    exact dec_esc_case c d r us 12 _ (by simpa using hbs) h ih (by simp [SChar.ok, hd, rfcEscape]) (by simp [SChar.units, hd, rfcEscape, Spec.Unicode.utf16])
  case case16 c _ hcr hbs _ d r _ _ _ _ hd ih =>
    exact dec_esc_case c d r us 10 _ (by simpa using hbs) h ih (by simp [SChar.ok, hd, rfcEscape]) (by simp [SChar.units, hd, rfcEscape, Spec.Unicode.utf16])
  case case17 c _ hcr hbs _ d r _ _ _ _ _ hd ih =>
    exact dec_esc_case c d r us 13 _ (by simpa using hbs) h ih (by simp [SChar.ok, hd, rfcEscape]) (by simp [SChar.units, hd, rfcEscape, Spec.Unicode.utf16])
  case case18 c _ hcr hbs _ d r _ _ _ _ _ _ hd ih =>
    exact dec_esc_case c d r us 9 _ (by simpa using hbs) h ih (by simp [SChar.ok, hd, rfcEscape]) (by simp [SChar.units, hd, rfcEscape, Spec.Unicode.utf16])
  case case21 c _ hcr hbs _ d r _ _ _ _ _ _ _ _ hd ih =>
    refine dec_esc_case c d r us d.c.toNat _ (by simpa using hbs) h ih ?_ ?_
    · rcases hd with hd | hd <;> simp [SChar.ok, hd, dialectOf, esbuildStrict]
    · rcases hd with hd | hd <;> simp [SChar.units, hd, rfcEscape, Spec.Unicode.utf16]
  case case44 c _ hcr hbs _ u _ _ _ _ _ _ _ _ _ _ hu a hbr d1 e1 b d2 e2 c' d3 e3 d r d4 e4 ih2 ih1 =>
    intro hsc
    have hbs' : c.c = '\\' := by simpa using hbs
    simp only [chars_cons, hbs', hu] at hsc
    obtain ⟨x1, y1⟩ := isHexDigit_of_hexVal e1
    obtain ⟨x2, y2⟩ := isHexDigit_of_hexVal e2
    obtain ⟨x3, y3⟩ := isHexDigit_of_hexVal e3
    obtain ⟨x4, y4⟩ := isHexDigit_of_hexVal e4
    have s1 := scanClean_bs hsc
    have s2 := (scanClean_plain s1 (hex_plain x1)).2.2
    have s3 := (scanClean_plain s2 (hex_plain x2)).2.2
    have s4 := (scanClean_plain s3 (hex_plain x3)).2.2
    have s5 := (scanClean_plain s4 (hex_plain x4)).2.2
    obtain ⟨t, ht, rfl⟩ := Dec.cons_ok_inv h
    obtain ⟨cs, k1, k2, k3⟩ := ih1 t ht s5
    refine ⟨.u a.c b.c c'.c d.c :: cs, ?_, ?_, ?_⟩
    · simp [strOk, k1, SChar.ok, x1, x2, x3, x4]
    · simp [SChar.render, hbs', hu, k2]
    · have l1 := hexD_lt a.c; have l2 := hexD_lt b.c; have l3 := hexD_lt c'.c; have l4 := hexD_lt d.c
      simp only [strUnits_cons, SChar.units, y1, y2, y3, y4, k3]
      rw [unitsOf_small _ (by omega)]
  case case52 c _ hcr hbs _ d r _ _ _ _ _ _ _ _ _ _ _ _ _ hq ih =>
    have hq' : d.c = '"' ∨ d.c = '\\' ∨ d.c = '/' := by
      by_cases h1 : d.c = '"'
      · exact Or.inl h1
      · by_cases h2 : d.c = '\\'
        · exact Or.inr (Or.inl h2)
        · by_cases h3 : d.c = '/'
          · exact Or.inr (Or.inr h3)
          · exact absurd ⟨rfl, fun h => h.elim h1 (fun h => h.elim h2 h3)⟩ hq
    refine dec_esc_case c d r us d.c.toNat _ (by simpa using hbs) ?_ ih ?_ ?_
    · rcases hq' with hd | hd | hd <;> simpa [hd, unitsOf, Wtf8.pushUTF16] using h
    · rcases hq' with hd | hd | hd <;> simp [SChar.ok, hd, rfcEscape]
    · rcases hq' with hd | hd | hd <;> simp [SChar.units, hd, rfcEscape, Spec.Unicode.utf16]

end EsbuildModel.Json
