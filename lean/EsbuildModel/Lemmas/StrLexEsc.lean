import EsbuildModel.Lemmas.StrLexBasic
/-! What `escape` / `step` do on the text derived by each alternative of the grammar (completeness direction, item by item). -/
namespace EsbuildModel.StrLex
open EsbuildModel.Spec.StrLit
open EsbuildModel.Spec.JsString (hexVal? utf16)

theorem singleEscape_cases {c : Nat} (h : (singleEscape? c).isSome = true) :
    c = 98 ∨ c = 116 ∨ c = 110 ∨ c = 118 ∨ c = 102 ∨ c = 114 ∨ c = 34 ∨ c = 39 ∨ c = 92 := by
  unfold singleEscape? at h
  repeat' split at h
  all_goals first | omega | simp at h

theorem nonEscape_facts {c : Nat} (h : isNonEscapeCharacter c = true) :
    c ≤ 1114111 ∧ c ≠ 98 ∧ c ≠ 116 ∧ c ≠ 110 ∧ c ≠ 118 ∧ c ≠ 102 ∧ c ≠ 114 ∧ c ≠ 34 ∧ c ≠ 39 ∧ c ≠ 92 ∧
    ¬ (48 ≤ c ∧ c ≤ 57) ∧ c ≠ 120 ∧ c ≠ 117 ∧ c ≠ 10 ∧ c ≠ 13 ∧ c ≠ 8232 ∧ c ≠ 8233 := by
  refine ⟨?_, ?_, ?_, ?_, ?_, ?_, ?_, ?_, ?_, ?_, ?_, ?_, ?_, ?_, ?_, ?_, ?_⟩
  · simp [isNonEscapeCharacter, isSourceChar] at h; omega
  all_goals first
    | (rintro rfl; exact absurd h (by decide))
    | (intro hd
       have : isDecimalDigit c = true := by simp [isDecimalDigit]; omega
       simp [isNonEscapeCharacter, isEscapeCharacter, this] at h)

theorem escape_single (rep : Bool) (c : Nat) (rest : List Nat) (h : (singleEscape? c).isSome = true) :
    escape rep (c :: rest) = .emit [(singleEscape? c).getD 0] 2 false := by
  rcases singleEscape_cases h with rfl | rfl | rfl | rfl | rfl | rfl | rfl | rfl | rfl <;>
    simp [escape, singleEscape?, isOct, encodeRune]

theorem escape_nonEsc (rep : Bool) (c : Nat) (rest : List Nat) (h : isNonEscapeCharacter c = true) :
    escape rep (c :: rest) = .emit (utf16 c) 2 false := by
  obtain ⟨h0, h1, h2, h3, h4, h5, h6, h7, h8, h9, h10, h11, h12, h13, h14, h15, h16⟩ := nonEscape_facts h
  have ho : isOct c = false := by simp [isOct]; omega
  have h89 : ¬ (c = 56 ∨ c = 57) := by omega
  have hlt : ¬ (c = 10 ∨ c = 8232 ∨ c = 8233) := by omega
  simp [escape, h1, h2, h3, h4, h5, h6, ho, h89, h11, h12, h14, hlt, encodeRune_eq c h0]

theorem octal_nul (rest : List Nat) (h : lookNot isDecimalDigit rest.head? = true) :
    octal 0 rest = .emit [0] 2 false := by
  cases rest with
  | nil => simp [octal]
  | cons c r =>
    simp [lookNot, isDecimalDigit] at h
    have ho : isOct c = false := by simp [isOct]; omega
    have h89 : ¬ (c = 56 ∨ c = 57) := by omega
    simp [octal, ho, h89]

theorem escape_cesc (rep : Bool) (e : CEsc) (rest : List Nat) (hwf : e.wf = true) (hlook : e.look rest.head? = true) :
    escape rep (e.render ++ rest) = .emit e.sv (e.render.length + 1) false := by
  cases e with
  | single c => exact escape_single rep c rest hwf
  | nonEsc c => exact escape_nonEsc rep c rest hwf
  | nul =>
    have := octal_nul rest hlook
    simp [CEsc.render, escape, isOct, this, CEsc.sv, legacyGate]
  | hex a b =>
    simp only [CEsc.wf, Bool.and_eq_true] at hwf
    obtain ⟨x, hx, _⟩ := (isHexDigit_iff a).1 hwf.1
    obtain ⟨y, hy, _⟩ := (isHexDigit_iff b).1 hwf.2
    have hx' := hx; have hy' := hy
    rw [hexVal_eq] at hx' hy'
    simp [CEsc.render, escape, isOct, hex2, hx, hy, CEsc.sv, digitsMV, hx', hy']
  | u4 a b c d =>
    simp only [CEsc.wf, Bool.and_eq_true] at hwf
    obtain ⟨x, hx, _⟩ := (isHexDigit_iff a).1 hwf.1.1.1
    obtain ⟨y, hy, _⟩ := (isHexDigit_iff b).1 hwf.1.1.2
    obtain ⟨z, hz, _⟩ := (isHexDigit_iff c).1 hwf.1.2
    obtain ⟨w, hw, _⟩ := (isHexDigit_iff d).1 hwf.2
    have hx' := hx; have hy' := hy; have hz' := hz; have hw' := hw
    rw [hexVal_eq] at hx' hy' hz' hw'
    have ha : a ≠ 123 := by have := hexVal_range hx; omega
    simp [CEsc.render, escape, isOct, unicode, ha, hex4, hx, hy, hz, hw, CEsc.sv, digitsMV, hx', hy', hz', hw']
  | uBrace ds =>
    simp only [CEsc.wf, Bool.and_eq_true, Bool.not_eq_true', List.all_eq_true, decide_eq_true_eq] at hwf
    obtain ⟨⟨hne, hall⟩, hmv⟩ := hwf
    have hrun := braceLoop_digits ds hall (125 :: rest) 0 true false 3
    rw [digitsMV_eq] at hmv
    obtain ⟨i1, i2⟩ := brace_in_range 0 false ds hmv
    have hne' : ds.isEmpty = false := hne
    rw [i1, i2, hne', braceLoop] at hrun
    simp only [Bool.and_false, if_true, Bool.false_eq_true, if_false] at hrun
    simp only [CEsc.render, List.cons_append, List.append_assoc, escape, isOct, unicode]
    simp [hrun, CEsc.sv, digitsMV_eq, encodeRune_eq _ hmv]
    omega

theorem isOctalDigit_iff (c : Nat) : isOctalDigit c = true ↔ 48 ≤ c ∧ c ≤ 55 := by simp [isOctalDigit]
theorem isOct_eq (c : Nat) : isOct c = isOctalDigit c := rfl

theorem hexVal?_digit (c : Nat) (h : 48 ≤ c ∧ c ≤ 57) : hexVal? c = some (c - 48) := by simp [hexVal?, h]

theorem escape_octal (o : LegacyOctal) (rest : List Nat) (hwf : o.wf = true) (hlook : o.look rest.head? = true) :
    escape true (o.render ++ rest) = .emit [digitsMV 8 o.render] (o.render.length + 1) true := by
  cases o with
  | zero89 =>
    cases rest with
    | nil => simp [LegacyOctal.look, lookIn] at hlook
    | cons c r =>
      simp only [LegacyOctal.look, lookIn, List.head?_cons, Bool.or_eq_true, decide_eq_true_eq] at hlook
      have ho : isOct c = false := by simp [isOct]; omega
      have h48 : isOct 48 = true := by decide
      simp [LegacyOctal.render, escape, legacyGate, h48, octal, ho, hlook, digitsMV, hexVal?]
  | one a =>
    simp only [LegacyOctal.wf, Bool.and_eq_true, decide_eq_true_eq] at hwf
    have ha : isOct a = true := by simp [isOct]; omega
    have hv := hexVal?_digit a (by omega)
    have hne : a - 48 ≠ 0 := by omega
    have : ¬ a = 98 ∧ ¬ a = 102 ∧ ¬ a = 110 ∧ ¬ a = 114 ∧ ¬ a = 116 ∧ ¬ a = 118 := by omega
    cases rest with
    | nil => simp [LegacyOctal.render, escape, legacyGate, ha, octal, digitsMV, hv, hne, this]
    | cons c r =>
      simp only [LegacyOctal.look, lookNot, List.head?_cons, Bool.not_eq_true'] at hlook
      have ho : isOct c = false := hlook
      by_cases h89 : c = 56 ∨ c = 57 <;>
        simp [LegacyOctal.render, escape, legacyGate, ha, octal, ho, h89, digitsMV, hv, hne, this]
  | two03 a b =>
    simp only [LegacyOctal.wf, Bool.and_eq_true, decide_eq_true_eq, isOctalDigit_iff] at hwf
    have ha : isOct a = true := by simp [isOct]; omega
    have hb : isOct b = true := by simp [isOct]; omega
    have hva := hexVal?_digit a (by omega)
    have hvb := hexVal?_digit b (by omega)
    have : ¬ a = 98 ∧ ¬ a = 102 ∧ ¬ a = 110 ∧ ¬ a = 114 ∧ ¬ a = 116 ∧ ¬ a = 118 := by omega
    cases rest with
    | nil => simp [LegacyOctal.render, escape, legacyGate, ha, hb, octal, digitsMV, hva, hvb, this]
    | cons c r =>
      simp only [LegacyOctal.look, lookNot, List.head?_cons, Bool.not_eq_true'] at hlook
      have ho : isOct c = false := hlook
      simp [LegacyOctal.render, escape, legacyGate, ha, hb, octal, ho, digitsMV, hva, hvb, this]
  | two47 a b =>
    simp only [LegacyOctal.wf, Bool.and_eq_true, decide_eq_true_eq, isOctalDigit_iff] at hwf
    have ha : isOct a = true := by simp [isOct]; omega
    have hb : isOct b = true := by simp [isOct]; omega
    have hva := hexVal?_digit a (by omega)
    have hvb := hexVal?_digit b (by omega)
    have : ¬ a = 98 ∧ ¬ a = 102 ∧ ¬ a = 110 ∧ ¬ a = 114 ∧ ¬ a = 116 ∧ ¬ a = 118 := by omega
    cases rest with
    | nil => simp [LegacyOctal.render, escape, legacyGate, ha, hb, octal, digitsMV, hva, hvb, this]
    | cons c r =>
      by_cases ho : isOct c = true
      · have hc : 48 ≤ c ∧ c ≤ 55 := by simpa [isOct] using ho
        have hbig : ¬ ((a - 48) * 8 + (b - 48)) * 8 + (c - 48) < 256 := by omega
        simp [LegacyOctal.render, escape, legacyGate, ha, hb, octal, ho, hbig, digitsMV, hva, hvb, this]
      · simp [LegacyOctal.render, escape, legacyGate, ha, hb, octal, ho, digitsMV, hva, hvb, this]
  | three a b c =>
    simp only [LegacyOctal.wf, Bool.and_eq_true, decide_eq_true_eq, isOctalDigit_iff] at hwf
    have ha : isOct a = true := by simp [isOct]; omega
    have hb : isOct b = true := by simp [isOct]; omega
    have hc : isOct c = true := by simp [isOct]; omega
    have hva := hexVal?_digit a (by omega)
    have hvb := hexVal?_digit b (by omega)
    have hvc := hexVal?_digit c (by omega)
    have : ¬ a = 98 ∧ ¬ a = 102 ∧ ¬ a = 110 ∧ ¬ a = 114 ∧ ¬ a = 116 ∧ ¬ a = 118 := by omega
    have hsmall : ((a - 48) * 8 + (b - 48)) * 8 + (c - 48) < 256 := by omega
    simp [LegacyOctal.render, escape, legacyGate, ha, hb, hc, octal, hsmall, digitsMV, hva, hvb, hvc, this]

theorem legacyGate_true (s : Step) : legacyGate true s = s := by
  cases s with
  | emit u k lg => cases lg <;> rfl
  | fail o => rfl
  | range n => rfl

theorem escape_nonOctal (c : Nat) (rest : List Nat) (h : c = 56 ∨ c = 57) :
    escape true (c :: rest) = .emit [c] 2 true := by
  rcases h with rfl | rfl <;> simp [escape, isOct]

theorem escape_nonOctal_false (c : Nat) (rest : List Nat) (h : c = 56 ∨ c = 57) :
    escape false (c :: rest) = .fail 0 := by
  rcases h with rfl | rfl <;> simp [escape, isOct]

theorem escape_cont (rep : Bool) (l : LTS) (rest : List Nat) (hlook : l.look rest.head? = true) :
    escape rep (l.render ++ rest) = .emit [] (l.render.length + 1) false := by
  cases l with
  | lf => simp [LTS.render, escape, isOct]
  | ls => simp [LTS.render, escape, isOct]
  | ps => simp [LTS.render, escape, isOct]
  | crlf => simp [LTS.render, escape, isOct]
  | cr =>
    cases rest with
    | nil => simp [LTS.render, escape, isOct]
    | cons c r =>
      have : c ≠ 10 := by simpa [LTS.look, lookNot] using hlook
      simp [LTS.render, escape, isOct]
      split
      · rename_i heq; simp at heq; exact absurd heq.1 this
      · rfl

end EsbuildModel.StrLex
