import EsbuildModel.Impl.CssNumber
import EsbuildModel.Lemmas.NumText
/-!
Lemmas about the model `Impl/CssNumber.lean` (`mangleNumber`, `shiftDot`, `mangleDimension`) against the CSS
number value of `Spec/JsNumber.lean`.
-/
namespace EsbuildModel.CssNumber
open EsbuildModel.NumText EsbuildModel.Spec.Num

/-- the optional sign of a CSS number text: `none` = no sign byte, `some false` = '+', `some true` = '-' -/
def sgnText : Option Bool → List Char
  | none => []
  | some false => ['+']
  | some true => ['-']

def applySign (s : Option Bool) (v : Rat) : Rat := if s = some true then -v else v

theorem render_head (p : DecParts) (hw : p.WF) (hv : p.cssValid = true) :
    ∃ c r, p.render = c :: r ∧ c ≠ '-' ∧ c ≠ '+' := by
  obtain ⟨I, fo, eo⟩ := p
  cases I with
  | nil =>
    cases fo with
    | none => simp [DecParts.cssValid] at hv
    | some f => exact ⟨'.', f ++ expText eo, by simp [DecParts.render, fracText], by decide, by decide⟩
  | cons c I' =>
    have hc := hw.int c List.mem_cons_self
    exact ⟨c, I' ++ (fracText fo ++ expText eo), by simp [DecParts.render], isDigit_ne_minus hc, isDigit_ne_plus hc⟩

theorem cssSign_render (s : Option Bool) (p : DecParts) (hw : p.WF) (hv : p.cssValid = true) :
    cssSign (sgnText s ++ p.render) = (s == some true, p.render) := by
  cases s with
  | none =>
    obtain ⟨c, r, h, h1, h2⟩ := render_head p hw hv
    simp [sgnText, h, cssSign, h1, h2]
  | some b => cases b <;> simp [sgnText, cssSign]

theorem cssValue_render (s : Option Bool) (p : DecParts) (hw : p.WF) (hv : p.cssValid = true) :
    cssValue (sgnText s ++ p.render) = some (applySign s p.mv) := by
  unfold cssValue
  rw [cssSign_render s p hw hv]
  simp only [parseDec_render p hw, hv, if_true, applySign]
  cases s with
  | none => simp
  | some b => cases b <;> simp

theorem cssValue_sound {t : List Char} {v : Rat} (h : cssValue t = some v) :
    ∃ (s : Option Bool) (p : DecParts), t = sgnText s ++ p.render ∧ p.WF ∧ p.cssValid = true ∧ v = applySign s p.mv := by
  unfold cssValue at h
  cases hp : parseDec (cssSign t).2 with
  | none => rw [hp] at h; cases h
  | some p =>
    rw [hp] at h
    simp only at h
    split at h
    · rename_i hv
      obtain ⟨hr, hw⟩ := parseDec_sound hp
      simp only [Option.some.injEq] at h
      cases t with
      | nil =>
        refine ⟨none, p, ?_, hw, hv, ?_⟩
        · simpa [cssSign, sgnText] using hr
        · simp [cssSign] at h; simp [applySign, h]
      | cons c r =>
        by_cases hm : c = '-'
        · subst hm
          refine ⟨some true, p, ?_, hw, hv, ?_⟩
          · simp only [cssSign, if_true] at hr; simp [sgnText, hr]
          · simp [cssSign] at h; simp [applySign, h]
        · by_cases hpl : c = '+'
          · subst hpl
            refine ⟨some false, p, ?_, hw, hv, ?_⟩
            · simp [cssSign] at hr; simp [sgnText, hr]
            · simp [cssSign] at h; simp [applySign, h]
          · refine ⟨none, p, ?_, hw, hv, ?_⟩
            · simp only [cssSign, if_neg hm, if_neg hpl] at hr; simp [sgnText, hr]
            · simp only [cssSign, if_neg hm, if_neg hpl] at h; simp at h; simp [applySign, h]
    · cases h
open EsbuildModel.NumText EsbuildModel.Spec.Num

/-! ### mangleNumber -/

theorem dropZerosRev_zeros_append (k : Nat) (l : List Char) : dropZerosRev (List.replicate k '0' ++ l) = dropZerosRev l := by
  induction k with
  | zero => simp
  | succ k ih => simp [List.replicate_succ, dropZerosRev, ih]

theorem dropZerosRev_of_head {l : List Char} (h : l.head? ≠ some '0') : dropZerosRev l = l := by
  cases l with
  | nil => rfl
  | cons c l =>
    have : c ≠ '0' := by intro hc; apply h; simp [hc]
    simp [dropZerosRev, this]

theorem dropTrailingZeros_append_zeros {a : List Char} (k : Nat) (h : a.getLast? ≠ some '0') :
    dropTrailingZeros (a ++ List.replicate k '0') = a := by
  unfold dropTrailingZeros
  rw [List.reverse_append, List.reverse_replicate, dropZerosRev_zeros_append,
    dropZerosRev_of_head (by simpa [List.head?_reverse] using h), List.reverse_reverse]

theorem dropTrailingZeros_of_last {a : List Char} (h : a.getLast? ≠ some '0') : dropTrailingZeros a = a := by
  simpa using dropTrailingZeros_append_zeros 0 h

theorem removeLeadingZero_spec (s : Option Bool) {I : List Char} (hI : AllDigits I) {c : Char} (hc : isDigit c = true)
    (T : List Char) :
    removeLeadingZero (sgnText s ++ I ++ '.' :: c :: T)
      = sgnText s ++ (if I = ['0'] then [] else I) ++ '.' :: c :: T := by
  have hc' : isDig c = true := hc
  cases I with
  | nil =>
    cases s with
    | none => cases T <;> (simp [sgnText, removeLeadingZero] <;> try (split <;> rfl))
    | some b => cases b <;> cases T <;> (simp [sgnText, removeLeadingZero] <;> try (split <;> rfl))
  | cons d I' =>
    have hd := hI d List.mem_cons_self
    have hdp := isDigit_ne_plus hd
    have hdm := isDigit_ne_minus hd
    have hdd := isDigit_ne_dot hd
    cases I' with
    | nil =>
      by_cases h0 : d = '0'
      · subst h0
        cases s with
        | none => (simp [sgnText, removeLeadingZero, hc'] <;> try (split <;> rfl))
        | some b => cases b <;> (simp [sgnText, removeLeadingZero, hc'] <;> try (split <;> rfl))
      · cases s with
        | none => cases T <;> (simp [sgnText, removeLeadingZero, h0, hdp, hdm] <;> try (split <;> rfl))
        | some b => cases b <;> (simp [sgnText, removeLeadingZero, h0] <;> try (split <;> rfl))
    | cons d2 I'' =>
      have hd2 := hI d2 (by simp)
      have hd2d := isDigit_ne_dot hd2
      cases s with
      | none =>
        cases I'' <;> (simp [sgnText, removeLeadingZero, hd2d, hdp, hdm] <;> try (split <;> rfl))
      | some b => cases b <;> (simp [sgnText, removeLeadingZero, hd2d] <;> try (split <;> rfl))
open EsbuildModel.NumText EsbuildModel.Spec.Num

theorem noE_sgnText (s : Option Bool) : ∀ c ∈ sgnText s, ¬ (c = 'e' ∨ c = 'E') := by
  cases s with
  | none => simp [sgnText]
  | some b => cases b <;> simp [sgnText] <;> decide

theorem noE_digits {D : List Char} (hD : AllDigits D) : ∀ c ∈ D, ¬ (c = 'e' ∨ c = 'E') := by
  intro c hc h
  have := hD c hc
  rcases h with rfl | rfl <;> revert this <;> decide
open EsbuildModel.NumText EsbuildModel.Spec.Num

/-- `strings.ContainsAny(t, "eE")` on a rendered number text: exactly when there is an exponent part -/
theorem hasE_render (s : Option Bool) (p : DecParts) (hw : p.WF) :
    (sgnText s ++ p.render).any (fun c => decide (c = 'e' ∨ c = 'E')) = p.exp.isSome := by
  obtain ⟨I, fo, eo⟩ := p
  cases eo with
  | some x =>
    simp only [Option.isSome_some]
    rw [List.any_eq_true]
    refine ⟨if x.upper then 'E' else 'e', ?_, by cases x.upper <;> simp⟩
    simp [DecParts.render, expText]
  | none =>
    simp only [Option.isSome_none]
    rw [List.any_eq_false]
    intro c hc
    simp only [DecParts.render, expText, List.append_nil, List.mem_append] at hc
    simp only [decide_eq_true_eq]
    rcases hc with hc | hc | hc
    · exact noE_sgnText s c hc
    · exact noE_digits hw.int c hc
    · cases fo with
      | none => simp [fracText] at hc
      | some f =>
        simp only [fracText, List.mem_cons] at hc
        rcases hc with rfl | hc
        · decide
        · exact noE_digits (hw.frac f rfl) c hc

theorem dot_not_mem_sgnText (s : Option Bool) : '.' ∉ sgnText s := by
  cases s with
  | none => simp [sgnText]
  | some b => cases b <;> simp [sgnText]

theorem dot_not_mem_expText (eo : Option ExpPart) (h : ∀ x, eo = some x → AllDigits x.digits ∧ x.digits ≠ []) :
    '.' ∉ expText eo := by
  cases eo with
  | none => simp [expText]
  | some x =>
    have hd := not_mem_of_allDigits (h x rfl).1 (c := '.') (by decide)
    cases hu : x.upper <;> cases hs : x.sign <;> simp [expText, Sign.text, hu, hs, hd]

theorem sgnI_bare (s : Option Bool) {I : List Char} (hI : AllDigits I) :
    (sgnText s ++ I = [] ∨ sgnText s ++ I = ['+'] ∨ sgnText s ++ I = ['-']) ↔ I = [] := by
  cases I with
  | nil =>
    cases s with
    | none => simp [sgnText]
    | some b => cases b <;> simp [sgnText]
  | cons d I' =>
    have hd := hI d List.mem_cons_self
    have hdp := isDigit_ne_plus hd
    have hdm := isDigit_ne_minus hd
    cases s with
    | none => cases I' <;> simp [sgnText, hdp, hdm]
    | some b => cases b <;> simp [sgnText]

theorem expText_getLast {x : ExpPart} (hne : x.digits ≠ []) :
    (expText (some x)).getLast? = x.digits.getLast? := by
  have : ∀ (a : List Char), (a ++ x.digits).getLast? = x.digits.getLast? := by
    intro a
    rw [List.getLast?_append]
    cases h : x.digits.getLast? with
    | none => simp at h; exact absurd h hne
    | some c => simp
  have h2 := this ((if x.upper then 'E' else 'e') :: x.sign.text)
  simpa [expText] using h2

/-- `mangleNumber` on a well-formed number text in terms of its pieces (any sign, fraction, exponent). -/
theorem mangleNumber_value (s : Option Bool) (p : DecParts) (hw : p.WF) (hv : p.cssValid = true) :
    cssValue (mangleNumber (sgnText s ++ p.render)).1 = some (applySign s p.mv) := by
  obtain ⟨I, fo, eo⟩ := p
  have hhasE := hasE_render s ⟨I, fo, eo⟩ hw
  obtain ⟨hI, hF, hE⟩ := hw
  simp only at hI hF hE hhasE
  cases fo with
  | none =>
    have hnodot : '.' ∉ sgnText s ++ (⟨I, none, eo⟩ : DecParts).render := by
      simp only [DecParts.render, fracText, List.nil_append, List.mem_append, not_or]
      exact ⟨dot_not_mem_sgnText s, not_mem_of_allDigits hI (by decide), dot_not_mem_expText eo hE⟩
    unfold mangleNumber
    simp only [indexOf_none hnodot]
    exact cssValue_render s _ ⟨hI, hF, hE⟩ hv
  | some F =>
    have hFd := hF F rfl
    have hFne : F ≠ [] := by simpa [DecParts.cssValid] using hv
    have hnodot : '.' ∉ sgnText s ++ I := by
      simp only [List.mem_append, not_or]
      exact ⟨dot_not_mem_sgnText s, not_mem_of_allDigits hI (by decide)⟩
    -- the text after trailing-zero removal: `Pre.F'E` with F = F' ++ zeros
    have key : ∃ F' k, F = F' ++ List.replicate k '0' ∧
        (if (sgnText s ++ (⟨I, some F, eo⟩ : DecParts).render).any (fun c => decide (c = 'e' ∨ c = 'E')) = true
          then sgnText s ++ (⟨I, some F, eo⟩ : DecParts).render
          else dropTrailingZeros (sgnText s ++ (⟨I, some F, eo⟩ : DecParts).render))
          = (sgnText s ++ I) ++ '.' :: (F' ++ expText eo) ∧ (F' = [] → eo = none) := by
      cases eo with
      | none =>
        obtain ⟨F', k, hFk, hlast⟩ := exists_zeros_suffix F
        refine ⟨F', k, hFk, ?_, fun _ => rfl⟩
        rw [hhasE]
        simp only [Option.isSome_none, Bool.false_eq_true, if_false]
        have : sgnText s ++ (⟨I, some F, none⟩ : DecParts).render
            = ((sgnText s ++ I) ++ '.' :: F') ++ List.replicate k '0' := by
          simp [DecParts.render, fracText, expText, hFk]
        rw [this, dropTrailingZeros_append_zeros]
        · simp [expText]
        · rw [List.getLast?_append, List.getLast?_cons]
          cases h : F'.getLast? with
          | none => simp
          | some c => rw [h] at hlast; simpa using hlast
      | some x =>
        refine ⟨F, 0, by simp, ?_, fun h => absurd h hFne⟩
        rw [hhasE]
        simp [DecParts.render, fracText]
    obtain ⟨F', k, hFk, hdrop, hF'⟩ := key
    have hF'd : AllDigits F' := by rw [hFk, allDigits_append] at hFd; exact hFd.1
    have hidx : indexOf '.' (sgnText s ++ (⟨I, some F, eo⟩ : DecParts).render) = some (sgnText s ++ I).length := by
      have := indexOf_append (F ++ expText eo) hnodot
      simpa [DecParts.render, fracText] using this
    unfold mangleNumber
    simp only [hidx, hdrop]
    cases F' with
    | nil =>
      have heo := hF' rfl
      subst heo
      simp only [expText, List.append_nil, List.length_append, List.length_cons, List.length_nil, Nat.zero_add,
        if_true]
      have htake : List.take ((sgnText s).length + I.length) (sgnText s ++ I ++ ['.']) = sgnText s ++ I := by
        rw [← List.length_append]; exact take_len _ _
      rw [htake]
      have hk : F = List.replicate k '0' := by simpa using hFk
      have hmv : (⟨I, some F, none⟩ : DecParts).mv = dec (digitsMV I) 0 := by
        rw [mv_eq_dec]
        simp only [Option.getD_some, expVal, hk, digitsMV_append_zeros, List.length_replicate, dec_shift]
        congr 1; omega
      rw [hmv]
      by_cases hI0 : I = []
      · rw [if_pos ((sgnI_bare s hI).mpr hI0)]
        subst hI0
        have := cssValue_render s ⟨['0'], none, none⟩ ⟨by intro c hc; simp at hc; rw [hc]; decide, by simp, by simp⟩
          (by simp [DecParts.cssValid])
        simp only [DecParts.render, fracText, expText, List.append_nil] at this
        rw [List.append_nil, this, mv_eq_dec]
        simp [expVal, digitsMV_zero_cons]
      · rw [if_neg (fun h => hI0 ((sgnI_bare s hI).mp h))]
        have := cssValue_render s ⟨I, none, none⟩ ⟨hI, by simp, by simp⟩
          (by simp [DecParts.cssValid, hI0])
        simp only [DecParts.render, fracText, expText, List.append_nil] at this
        rw [this, mv_eq_dec]
        simp [expVal]
    | cons c T =>
      have hc := hF'd c List.mem_cons_self
      have hlen : ¬ ((sgnText s ++ I).length + 1 = (sgnText s ++ I ++ '.' :: (c :: T ++ expText eo)).length) := by
        simp only [List.length_append, List.length_cons]; omega
      simp only [hlen, if_false]
      rw [show sgnText s ++ I ++ '.' :: (c :: T ++ expText eo) = sgnText s ++ I ++ '.' :: c :: (T ++ expText eo) by simp,
        removeLeadingZero_spec s hI hc]
      have hq : (⟨if I = ['0'] then [] else I, some (c :: T), eo⟩ : DecParts).WF := by
        refine ⟨?_, ?_, hE⟩
        · simp only; split
          · exact allDigits_nil
          · exact hI
        · intro f hf; simp only [Option.some.injEq] at hf; subst hf; exact hF'd
      have := cssValue_render s ⟨if I = ['0'] then [] else I, some (c :: T), eo⟩ hq (by simp [DecParts.cssValid])
      simp only [DecParts.render, fracText] at this
      rw [show sgnText s ++ (if I = ['0'] then [] else I) ++ '.' :: c :: (T ++ expText eo)
        = sgnText s ++ ((if I = ['0'] then [] else I) ++ ('.' :: (c :: T) ++ expText eo)) by simp, this]
      congr 2
      rw [mv_eq_dec, mv_eq_dec]
      simp only [Option.getD_some, hFk]
      have hI' : digitsMV ((if I = ['0'] then [] else I) ++ (c :: T)) = digitsMV (I ++ (c :: T)) := by
        split
        · rename_i h; rw [h]; simp [digitsMV_zero_cons]
        · rfl
      rw [hI', ← List.append_assoc, digitsMV_append_zeros, dec_shift]
      congr 1
      simp only [List.length_append, List.length_replicate]
      omega
open EsbuildModel.NumText EsbuildModel.Spec.Num

/-! ### shiftDot -/

/-- value of the digit string `D` with the decimal point after `d` digits (d may be negative or beyond the end) -/
def dval (D : List Char) (d : Int) : Rat := dec (digitsMV D) (d - (D.length : Int))

theorem dec_add (m : Nat) (e k : Int) : dec m (e + k) = dec m e * (10 : Rat) ^ k := by
  unfold dec
  rw [Rat.zpow_add ten_ne_zero, Rat.mul_assoc]

theorem dec_eq_zero {m : Nat} {e : Int} : dec m e = 0 ↔ m = 0 := by
  unfold dec
  have hp : (0 : Rat) < (10 : Rat) ^ e := Rat.zpow_pos (by decide)
  constructor
  · intro h
    by_cases hm : m = 0
    · exact hm
    · exfalso
      have hmpos : (0 : Rat) < (m : Rat) := Rat.natCast_pos.mpr (by omega)
      have := Rat.mul_pos hmpos hp
      rw [h] at this
      exact absurd this (by decide)
  · intro h; rw [h]; simp

theorem stripLeading_spec {D : List Char} (hD : AllDigits D) (d : Int) :
    AllDigits (stripLeading D d).1 ∧ dval (stripLeading D d).1 (stripLeading D d).2 = dval D d := by
  induction D generalizing d with
  | nil => simp [stripLeading, allDigits_nil]
  | cons c D ih =>
    rw [allDigits_cons] at hD
    simp only [stripLeading]
    split
    · rename_i h
      obtain ⟨h1, h2⟩ := ih hD.2 (d - 1)
      refine ⟨h1, ?_⟩
      rw [h2, h.2]
      unfold dval
      rw [digitsMV_zero_cons]
      congr 1
      simp only [List.length_cons]; omega
    · exact ⟨allDigits_cons.mpr hD, rfl⟩

theorem stripTrailingRev_spec {R : List Char} (hR : AllDigits R) (d : Int) :
    AllDigits (stripTrailingRev R d) ∧ dval (stripTrailingRev R d).reverse d = dval R.reverse d := by
  induction R with
  | nil => simp [stripTrailingRev, allDigits_nil]
  | cons c R ih =>
    rw [allDigits_cons] at hR
    simp only [stripTrailingRev]
    split
    · rename_i h
      obtain ⟨h1, h2⟩ := ih hR.2
      refine ⟨h1, ?_⟩
      rw [h2, h.2]
      unfold dval
      rw [List.reverse_cons, show ['0'] = List.replicate 1 '0' from rfl, digitsMV_append_zeros, dec_shift]
      congr 1
      simp only [List.length_append, List.length_reverse, List.length_replicate]; omega
    · exact ⟨allDigits_cons.mpr hR, rfl⟩

theorem stripLeading_fst_length_le (D : List Char) (d : Int) : (stripLeading D d).1.length ≤ D.length := by
  induction D generalizing d with
  | nil => simp [stripLeading]
  | cons c D ih =>
    simp only [stripLeading]
    split
    · have := ih (d - 1); simp only [List.length_cons]; omega
    · exact Nat.le_refl _

theorem applySign_mul (s : Option Bool) (v x : Rat) : applySign s (v * x) = applySign s v * x := by
  unfold applySign
  split
  · exact (Rat.neg_mul v x).symm
  · rfl

/-- the pieces of a number text without exponent: sign, digits before the dot, optional fraction -/
theorem shiftDot_prefix (s : Option Bool) {I : List Char} (fo : Option (List Char)) (hI : AllDigits I)
    (hF : ∀ f, fo = some f → AllDigits f) (hv : (⟨I, fo, none⟩ : DecParts).cssValid = true) (k : Int) :
    shiftDot (sgnText s ++ (⟨I, fo, none⟩ : DecParts).render) k =
      (let D := I ++ fo.getD []
       let d : Int := (I.length : Int) + k
       let D1 := (stripLeading D d).1
       let d1 := (stripLeading D d).2
       let D2 := (stripTrailingRev D1.reverse d1).reverse
       if d1 ≥ (D2.length : Int) then
         if d1 = 0 then some (sgnText s ++ ['0'])
         else some (sgnText s ++ D2 ++ List.replicate (d1 - (D2.length : Int)).toNat '0')
       else
         let D3 := if d1 < 0 then List.replicate (-d1).toNat '0' ++ D2 else D2
         let d3 := if d1 < 0 then 0 else d1.toNat
         some (sgnText s ++ D3.take d3 ++ '.' :: D3.drop d3)) := by
  have hFd : AllDigits (fo.getD []) := by
    cases fo with
    | none => exact allDigits_nil
    | some f => exact hF f rfl
  have hrender : (⟨I, fo, none⟩ : DecParts).render = I ++ fracText fo := by simp [DecParts.render, expText]
  -- no exponent byte
  have hany : (sgnText s ++ (⟨I, fo, none⟩ : DecParts).render).any (fun c => decide (c = 'e' ∨ c = 'E')) = false := by
    rw [List.any_eq_false]
    intro c hc
    simp only [hrender, List.mem_append] at hc
    simp only [decide_eq_true_eq]
    rcases hc with hc | hc | hc
    · exact noE_sgnText s c hc
    · exact noE_digits hI c hc
    · cases fo with
      | none => simp [fracText] at hc
      | some f =>
        simp only [fracText, List.mem_cons] at hc
        rcases hc with rfl | hc
        · decide
        · exact noE_digits (hF f rfl) c hc
  -- the sign
  obtain ⟨c0, r0, hhead, hm, hp⟩ := render_head ⟨I, fo, none⟩ ⟨hI, hF, by simp⟩ hv
  have hsign : leadingSign (sgnText s ++ (⟨I, fo, none⟩ : DecParts).render) = sgnText s := by
    cases s with
    | none => simp [sgnText, hhead, hm, hp, leadingSign]
    | some b => cases b <;> simp [sgnText, leadingSign]
  have hdrop : (sgnText s ++ (⟨I, fo, none⟩ : DecParts).render).drop (sgnText s).length = I ++ fracText fo := by
    rw [drop_len, hrender]
  -- the dot
  have hdot : dotPos (I ++ fracText fo) = I.length ∧ removeDot (I ++ fracText fo) = I ++ fo.getD [] := by
    have hnd : '.' ∉ I := not_mem_of_allDigits hI (by decide)
    unfold dotPos removeDot
    cases fo with
    | none =>
      have : '.' ∉ I ++ fracText none := by simpa [fracText] using hnd
      rw [indexOf_none this]
      simp [fracText]
    | some f =>
      simp only [fracText]
      rw [indexOf_append f hnd]
      simp only [Option.getD_some]
      refine ⟨trivial, ?_⟩
      rw [take_len, drop_len_add]
      rfl
  unfold shiftDot
  simp only [hany, Bool.false_eq_true, if_false, hsign, hdrop, hdot.1, hdot.2]
open EsbuildModel.NumText EsbuildModel.Spec.Num

/-- `shiftDot` multiplies the value by `10^k`, for every number text without exponent (zero included) and every k. -/
theorem shiftDot_value (s : Option Bool) {I : List Char} (fo : Option (List Char)) (hI : AllDigits I)
    (hF : ∀ f, fo = some f → AllDigits f) (hv : (⟨I, fo, none⟩ : DecParts).cssValid = true) (k : Int) :
    ∃ out, shiftDot (sgnText s ++ (⟨I, fo, none⟩ : DecParts).render) k = some out ∧
      cssValue out = some (applySign s (⟨I, fo, none⟩ : DecParts).mv * (10 : Rat) ^ k) := by
  have hFd : AllDigits (fo.getD []) := by
    cases fo with
    | none => exact allDigits_nil
    | some f => exact hF f rfl
  rw [shiftDot_prefix s fo hI hF hv k]
  simp only
  have hD : AllDigits (I ++ fo.getD []) := allDigits_append.mpr ⟨hI, hFd⟩
  generalize hDdef : I ++ fo.getD [] = D at hD
  -- the target value in terms of `dval`
  have htarget : applySign s (⟨I, fo, none⟩ : DecParts).mv * (10 : Rat) ^ k
      = applySign s (dval D ((I.length : Int) + k)) := by
    rw [← applySign_mul, mv_eq_dec]
    simp only [expVal, hDdef]
    rw [← dec_add]
    unfold dval
    congr 2
    rw [← hDdef]
    simp only [List.length_append]; omega
  rw [htarget]
  obtain ⟨hD1, hv1⟩ := stripLeading_spec hD ((I.length : Int) + k)
  generalize (stripLeading D ((I.length : Int) + k)).1 = D1 at hD1 hv1
  generalize (stripLeading D ((I.length : Int) + k)).2 = d1 at hv1
  have hD1r : AllDigits D1.reverse := by intro c hc; exact hD1 c (List.mem_reverse.mp hc)
  obtain ⟨hR2, hv2⟩ := stripTrailingRev_spec hD1r d1
  rw [List.reverse_reverse] at hv2
  generalize hD2def : (stripTrailingRev D1.reverse d1).reverse = D2 at hv2
  have hD2 : AllDigits D2 := by
    rw [← hD2def]; intro c hc; exact hR2 c (List.mem_reverse.mp hc)
  rw [← hv1, ← hv2]
  split
  · rename_i hge
    -- no fractional component
    split
    · rename_i hd0
      -- all digits were zeros and have been removed
      refine ⟨_, rfl, ?_⟩
      have hD2nil : D2 = [] := by
        have : D2.length = 0 := by omega
        exact List.length_eq_zero_iff.mp this
      have hq : (⟨['0'], none, none⟩ : DecParts).WF :=
        ⟨by intro c hc; simp at hc; rw [hc]; decide, by simp, by simp⟩
      have := cssValue_render s _ hq (by simp [DecParts.cssValid])
      simp only [DecParts.render, fracText, expText, List.append_nil] at this
      rw [this, mv_eq_dec, hD2nil, hd0]
      simp only [Option.getD_none, List.append_nil, List.length_nil, expVal, digitsMV_zero_cons]
      unfold dval
      rfl
    · rename_i hd0
      refine ⟨_, rfl, ?_⟩
      have hne : D2 ++ List.replicate (d1 - (D2.length : Int)).toNat '0' ≠ [] := by
        intro h
        have := congrArg List.length h
        simp only [List.length_append, List.length_replicate, List.length_nil] at this
        omega
      have hq : (⟨D2 ++ List.replicate (d1 - (D2.length : Int)).toNat '0', none, none⟩ : DecParts).WF :=
        ⟨allDigits_append.mpr ⟨hD2, allDigits_replicate_zero _⟩, by simp, by simp⟩
      have := cssValue_render s _ hq (by simp only [DecParts.cssValid]; simpa using hne)
      simp only [DecParts.render, fracText, expText, List.append_nil] at this
      rw [List.append_assoc, this, mv_eq_dec]
      simp only [Option.getD_none, List.append_nil, List.length_nil, expVal]
      rw [digitsMV_append_zeros, dec_shift]
      unfold dval
      congr 3
      omega
  · rename_i hlt
    refine ⟨_, rfl, ?_⟩
    -- the padded digits and the final dot position
    generalize hD3def : (if d1 < 0 then List.replicate (-d1).toNat '0' ++ D2 else D2) = D3
    generalize hd3def : (if d1 < 0 then 0 else d1.toNat) = d3
    have hD3 : AllDigits D3 := by
      rw [← hD3def]; split
      · exact allDigits_append.mpr ⟨allDigits_replicate_zero _, hD2⟩
      · exact hD2
    have hd3lt : d3 < D3.length := by
      rw [← hD3def, ← hd3def]
      split
      · simp only [List.length_append, List.length_replicate]
        omega
      · omega
    have hval3 : dval D3 (d3 : Int) = dval D2 d1 := by
      rw [← hD3def, ← hd3def]
      unfold dval
      split
      · rw [digitsMV_zeros_append]
        congr 1
        simp only [List.length_append, List.length_replicate]; omega
      · congr 1; omega
    have htd : AllDigits (D3.take d3) ∧ AllDigits (D3.drop d3) := by
      have := hD3
      rw [← List.take_append_drop d3 D3, allDigits_append] at this
      exact this
    have hdropne : D3.drop d3 ≠ [] := by
      intro h
      have := congrArg List.length h
      simp only [List.length_drop, List.length_nil] at this
      omega
    have hq : (⟨D3.take d3, some (D3.drop d3), none⟩ : DecParts).WF := by
      refine ⟨htd.1, ?_, by simp⟩
      intro f hf; simp only [Option.some.injEq] at hf; subst hf; exact htd.2
    have := cssValue_render s _ hq (by simp [DecParts.cssValid, hdropne])
    simp only [DecParts.render, fracText, expText, List.append_nil] at this
    rw [List.append_assoc, this, mv_eq_dec]
    simp only [Option.getD_some, expVal, List.take_append_drop]
    rw [← hval3]
    unfold dval
    simp only [List.length_drop]
    have he : (0 : Int) - ((D3.length - d3 : Nat) : Int) = (d3 : Int) - (D3.length : Int) := by omega
    rw [he]
open EsbuildModel.NumText EsbuildModel.Spec.Num

theorem equalFold_excl {unit : List Char} (h : equalFoldMs unit = true) : equalFoldS unit = false := by
  unfold equalFoldMs at h
  unfold equalFoldS
  split at h
  · rfl
  · cases h

/-- case analysis of `mangleDimension` in terms of the two `shiftDot` calls -/
theorem mangleDimension_cases {value unit value' unit' : List Char}
    (hm : mangleDimension value unit = some (value', unit')) :
    (equalFoldMs unit = true ∧ unit' = ['s'] ∧ shiftDot value (-3) = some value' ∧ value'.length + 1 < value.length + 2) ∨
    (equalFoldS unit = true ∧ unit' = ['m', 's'] ∧ shiftDot value 3 = some value' ∧ value'.length + 2 < value.length + 1) := by
  unfold mangleDimension at hm
  by_cases hms : equalFoldMs unit = true
  · have hns := equalFold_excl hms
    simp only [hms, hns, if_true, Bool.false_eq_true, if_false] at hm
    cases h1 : shiftDot value (-3) with
    | none => rw [h1] at hm; simp at hm
    | some o1 =>
      rw [h1] at hm
      simp only at hm
      by_cases hlt : o1.length + 1 < value.length + 2
      · simp only [hlt, if_true, Option.some.injEq, Prod.mk.injEq] at hm
        obtain ⟨rfl, rfl⟩ := hm
        exact Or.inl ⟨hms, rfl, rfl, hlt⟩
      · simp [hlt] at hm
  · simp only [hms, Bool.false_eq_true, if_false] at hm
    by_cases hs : equalFoldS unit = true
    · simp only [hs, if_true] at hm
      cases h2 : shiftDot value 3 with
      | none => rw [h2] at hm; simp at hm
      | some o2 =>
        rw [h2] at hm
        simp only at hm
        by_cases hlt : o2.length + 2 < value.length + 1
        · simp only [hlt, if_true, Option.some.injEq, Prod.mk.injEq] at hm
          obtain ⟨rfl, rfl⟩ := hm
          exact Or.inr ⟨hs, rfl, rfl, hlt⟩
        · simp [hlt] at hm
    · simp [hs] at hm

end EsbuildModel.CssNumber
