import EsbuildModel.Lemmas.StdioRoundtrip
/-!
A truncated packet is never accepted: on a proper prefix of an encoding the decoder ends in `ok == false` or in a
panic, never with a value.
-/
namespace EsbuildModel.Stdio

def NotOk {α : Type} (r : Res α) : Prop := ∀ a rest, r ≠ .ok a rest

theorem NotOk.fail {α : Type} : NotOk (.fail : Res α) := by intro a rest h; cases h
theorem NotOk.panic {α : Type} : NotOk (.panic : Res α) := by intro a rest h; cases h
theorem NotOk.outOfFuel {α : Type} : NotOk (.outOfFuel : Res α) := by intro a rest h; cases h

theorem prefix_split {t u a b : Bytes} (h : t ++ u = a ++ b) :
    (∃ a', a' ≠ [] ∧ t ++ a' = a) ∨ (∃ c', t = a ++ c' ∧ c' ++ u = b) := by
  rcases List.append_eq_append_iff.mp h with ⟨a', ha, hu⟩ | ⟨c', ht, hb⟩
  · cases a' with
    | nil => right; exact ⟨[], by simpa using ha.symm, by simpa using hu⟩
    | cons x xs => left; exact ⟨x :: xs, by simp, ha.symm⟩
  · right; exact ⟨c', ht, hb.symm⟩

theorem readUint32_short {t : Bytes} (h : t.length < 4) : readUint32 t = none := by
  match t, h with
  | [], _ => rfl
  | [_], _ => rfl
  | [_, _], _ => rfl
  | [_, _, _], _ => rfl
  | _ :: _ :: _ :: _ :: _, h => simp at h; omega

/-- reading a word from a prefix of `u32le n ++ rest`: too short, or the word and a prefix of `rest` -/
theorem readUint32_prefix {t u rest : Bytes} {n : Nat} (h : t ++ u = u32le n ++ rest) :
    readUint32 t = none ∨ ∃ t', t = u32le n ++ t' ∧ t' ++ u = rest := by
  rcases prefix_split h with ⟨a', ha, hta⟩ | ⟨c', ht, hc⟩
  · left
    apply readUint32_short
    have := congrArg List.length hta
    simp only [List.length_append, u32le_length] at this
    have : a'.length ≠ 0 := by cases a' <;> simp_all
    omega
  · right; exact ⟨c', ht, hc⟩

theorem readLPS_prefix_none {t u s : Bytes} (h : t ++ u = u32le s.length ++ s) (hu : u ≠ [])
    (hs : s.length < 4294967296) : readLPS t = none := by
  rcases readUint32_prefix h with hn | ⟨t', ht, htu⟩
  · simp [readLPS, hn]
  · subst ht
    have hlen : t'.length < s.length := by
      have := congrArg List.length htu
      simp only [List.length_append] at this
      have : u.length ≠ 0 := by cases u <;> simp_all
      omega
    simp only [readLPS, readUint32_u32le _ _ hs]
    rw [if_neg (by omega)]

mutual
theorem visit_trunc : ∀ (v : Val) (fuel : Nat) (t u : Bytes), MapsSorted v → (encV v).length < 4294967296 →
    2 * (encV v).length ≤ fuel → t ++ u = encV v → u ≠ [] → NotOk (visit fuel t)
  | v, fuel, [], u, _, _, hf, _, _ => by
    have := encV_length_pos v
    obtain ⟨f, rfl⟩ : ∃ f, fuel = f + 1 := ⟨fuel - 1, by omega⟩
    exact NotOk.panic
  | .nil, fuel, k :: t, u, _, _, hf, h, hu => by
    simp only [encV, List.cons_append, List.cons.injEq, List.append_eq_nil_iff] at h
    exact absurd h.2.2 hu
  | .bool b, fuel, k :: t, u, _, _, hf, h, hu => by
    simp only [encV, List.length_cons, List.length_nil] at hf
    obtain ⟨f, rfl⟩ : ∃ f, fuel = f + 1 := ⟨fuel - 1, by omega⟩
    simp only [encV, List.cons_append, List.cons.injEq] at h
    obtain ⟨rfl, h⟩ := h
    cases t with
    | nil => simp only [visit]; exact NotOk.panic
    | cons x t =>
      simp only [List.cons_append, List.cons.injEq, List.append_eq_nil_iff] at h
      exact absurd h.2.2 hu
  | .int n, fuel, k :: t, u, _, _, hf, h, hu => by
    simp only [encV, List.length_cons, u32le_length] at hf
    obtain ⟨f, rfl⟩ : ∃ f, fuel = f + 1 := ⟨fuel - 1, by omega⟩
    simp only [encV, List.cons_append, List.cons.injEq] at h
    obtain ⟨rfl, h⟩ := h
    have hshort : t.length < 4 := by
      have := congrArg List.length h
      simp only [List.length_append, u32le_length] at this
      have : u.length ≠ 0 := by cases u <;> simp_all
      omega
    simp only [visit, readUint32_short hshort]
    exact NotOk.fail
  | .str s, fuel, k :: t, u, _, hl, hf, h, hu => by
    simp only [encV, List.length_cons, List.length_append, u32le_length] at hf hl
    obtain ⟨f, rfl⟩ : ∃ f, fuel = f + 1 := ⟨fuel - 1, by omega⟩
    simp only [encV, List.cons_append, List.cons.injEq] at h
    obtain ⟨rfl, h⟩ := h
    simp only [visit, readLPS_prefix_none h hu (by omega)]
    exact NotOk.fail
  | .bytes s, fuel, k :: t, u, _, hl, hf, h, hu => by
    simp only [encV, List.length_cons, List.length_append, u32le_length] at hf hl
    obtain ⟨f, rfl⟩ : ∃ f, fuel = f + 1 := ⟨fuel - 1, by omega⟩
    simp only [encV, List.cons_append, List.cons.injEq] at h
    obtain ⟨rfl, h⟩ := h
    simp only [visit, readLPS_prefix_none h hu (by omega)]
    exact NotOk.fail
  | .arr xs, fuel, k :: t, u, hs, hl, hf, h, hu => by
    simp only [encV, List.length_cons, List.length_append, u32le_length] at hf hl
    obtain ⟨f, rfl⟩ : ∃ f, fuel = f + 1 := ⟨fuel - 1, by omega⟩
    simp only [encV, List.cons_append, List.cons.injEq] at h
    obtain ⟨rfl, h⟩ := h
    simp only [MapsSorted] at hs
    have hn : xs.length < 4294967296 := by have := length_le_encList xs; omega
    rcases readUint32_prefix h with hnone | ⟨t', rfl, htu⟩
    · simp only [visit, hnone]; exact NotOk.fail
    · simp only [visit, readUint32_u32le _ _ hn]
      have := visitArr_trunc xs f t' u hs (by omega) (by omega) htu hu
      split
      · rename_i heq; exact absurd heq (this _ _)
      · exact NotOk.fail
      · exact NotOk.panic
      · exact NotOk.outOfFuel
  | .map kvs, fuel, k :: t, u, hs, hl, hf, h, hu => by
    simp only [MapsSorted] at hs
    have hsort : sortKV (encPairs kvs) = encPairs kvs :=
      sortKV_of_sorted _ (keysSorted_congr kvs _ (encPairs_keys kvs) hs.1)
    simp only [encV, hsort, List.length_cons, List.length_append, u32le_length] at hf hl
    obtain ⟨f, rfl⟩ : ∃ f, fuel = f + 1 := ⟨fuel - 1, by omega⟩
    simp only [encV, hsort, List.cons_append, List.cons.injEq] at h
    obtain ⟨rfl, h⟩ := h
    have hn : kvs.length < 4294967296 := by
      have := length_le_catKV (encPairs kvs); rw [encPairs_length] at this; omega
    rcases readUint32_prefix h with hnone | ⟨t', rfl, htu⟩
    · simp only [visit, hnone]; exact NotOk.fail
    · simp only [visit, readUint32_u32le _ _ hn]
      have := visitMap_trunc kvs f t' u hs.2 (by omega) (by omega) htu hu
      split
      · rename_i heq; exact absurd heq (this _ _)
      · exact NotOk.fail
      · exact NotOk.panic
      · exact NotOk.outOfFuel
theorem visitArr_trunc : ∀ (xs : List Val) (fuel : Nat) (t u : Bytes), AllSorted xs →
    (encList xs).length < 4294967296 → 2 * (encList xs).length + 1 ≤ fuel →
    t ++ u = encList xs → u ≠ [] → NotOk (visitArr fuel xs.length t)
  | [], fuel, t, u, _, _, _, h, hu => by
    simp only [encList, List.append_eq_nil_iff] at h
    exact absurd h.2 hu
  | x :: xs, fuel, t, u, hs, hl, hf, h, hu => by
    simp only [AllSorted] at hs
    simp only [encList, List.length_append] at hf hl
    have := encV_length_pos x
    obtain ⟨f, rfl⟩ : ∃ f, fuel = f + 1 := ⟨fuel - 1, by omega⟩
    simp only [encList] at h
    simp only [List.length_cons, visitArr]
    rcases prefix_split h with ⟨a', ha, hta⟩ | ⟨c', rfl, hc⟩
    · have := visit_trunc x f t a' hs.1 (by omega) (by omega) hta ha
      split
      · rename_i heq; exact absurd heq (this _ _)
      · exact NotOk.fail
      · exact NotOk.panic
      · exact NotOk.outOfFuel
    · rw [visit_encV x f c' hs.1 (by omega) (by omega)]
      simp only
      have := visitArr_trunc xs f c' u hs.2 (by omega) (by omega) hc hu
      split
      · rename_i heq; exact absurd heq (this _ _)
      · exact NotOk.fail
      · exact NotOk.panic
      · exact NotOk.outOfFuel
theorem visitMap_trunc : ∀ (kvs : List (Bytes × Val)) (fuel : Nat) (t u : Bytes), AllSortedKV kvs →
    (catKV (encPairs kvs)).length < 4294967296 → 2 * (catKV (encPairs kvs)).length + 1 ≤ fuel →
    t ++ u = catKV (encPairs kvs) → u ≠ [] → NotOk (visitMap fuel kvs.length t)
  | [], fuel, t, u, _, _, _, h, hu => by
    simp only [encPairs, catKV, List.append_eq_nil_iff] at h
    exact absurd h.2 hu
  | (k, v) :: kvs, fuel, t, u, hs, hl, hf, h, hu => by
    simp only [AllSortedKV] at hs
    simp only [encPairs, catKV, List.length_append, u32le_length] at hf hl
    have := encV_length_pos v
    obtain ⟨f, rfl⟩ : ∃ f, fuel = f + 1 := ⟨fuel - 1, by omega⟩
    have hk : k.length < 4294967296 := by omega
    simp only [encPairs, catKV, List.append_assoc] at h
    simp only [List.length_cons, visitMap]
    rw [← List.append_assoc (u32le k.length) k] at h
    rcases prefix_split h with ⟨a', ha, hta⟩ | ⟨c', rfl, hc⟩
    · rw [readLPS_prefix_none hta ha hk]
      exact NotOk.fail
    · rw [List.append_assoc, readLPS_u32le _ _ hk]
      simp only
      rcases prefix_split hc with ⟨a'', ha', hta'⟩ | ⟨c'', rfl, hc'⟩
      · have := visit_trunc v f c' a'' hs.1 (by omega) (by omega) hta' ha'
        split
        · rename_i heq; exact absurd heq (this _ _)
        · exact NotOk.fail
        · exact NotOk.panic
        · exact NotOk.outOfFuel
      · rw [visit_encV v f c'' hs.1 (by omega) (by omega)]
        simp only
        have := visitMap_trunc kvs f c'' u hs.2 (by omega) (by omega) hc' hu
        split
        · rename_i heq; exact absurd heq (this _ _)
        · exact NotOk.fail
        · exact NotOk.panic
        · exact NotOk.outOfFuel
end

end EsbuildModel.Stdio
