import EsbuildModel.Lemmas.Wtf8Bits
/-!
Lemmas about `Impl/Wtf8.lean`: totality and width bounds of `DecodeWTF8Rune`, arithmetic forms of the encoder and the
decoder, decoding what the encoder wrote.
-/
namespace EsbuildModel.Wtf8
set_option linter.unusedSimpArgs false

/-- number of bytes the lead byte announces (1 for ASCII and for bytes that cannot start a sequence) -/
def seqLen (s0 : Nat) : Nat :=
  if s0 < 0x80 then 1
  else if s0 &&& 0xE0 = 0xC0 then 2 else if s0 &&& 0xF0 = 0xE0 then 3 else if s0 &&& 0xF8 = 0xF0 then 4 else 1

/-- `DecodeWTF8Rune` on ANY byte list: never indexes out of range; the width is at most 4 and at most the length;
the width is 0 exactly when the input is empty, so it is at least 1 on every non-empty input; an input that ends
inside the sequence its first byte announces decodes as `(U+FFFD, 1)`. -/
theorem decodeWTF8Rune_total (s : List Nat) :
    ∃ r w, decodeWTF8Rune s = some (r, w) ∧ w ≤ s.length ∧ w ≤ 4 ∧ (w = 0 ↔ s = []) ∧ (s ≠ [] → 1 ≤ w) ∧
      (w = 0 → r = runeError) ∧
      (∀ s0 rest, s = s0 :: rest → s.length < seqLen s0 → r = runeError ∧ w = 1) := by
  cases s with
  | nil =>
    exact ⟨runeError, 0, by simp [decodeWTF8Rune], by simp, by omega, by simp, by simp, fun _ => rfl,
      fun s0 rest h => by cases h⟩
  | cons s0 rest =>
    -- every non-truncated outcome: width ≥ 1, and the "truncated" clause is vacuous
    have fin : ∀ (r w : Nat), 1 ≤ w → w ≤ (s0 :: rest).length → w ≤ 4 → ¬ ((s0 :: rest).length < seqLen s0) →
        w ≤ (s0 :: rest).length ∧ w ≤ 4 ∧ (w = 0 ↔ (s0 :: rest) = []) ∧ ((s0 :: rest) ≠ [] → 1 ≤ w) ∧
          (w = 0 → r = runeError) ∧
          (∀ a t, s0 :: rest = a :: t → (s0 :: rest).length < seqLen a → r = runeError ∧ w = 1) := by
      intro r w h1 h2 h3 hnt
      refine ⟨h2, h3, ⟨fun h => by omega, fun h => by cases h⟩, fun _ => h1, fun h => by omega, ?_⟩
      intro a t hat hlt
      cases hat
      exact absurd hlt hnt
    unfold decodeWTF8Rune
    simp only [List.length_cons, show ¬ (rest.length + 1 < 1) by omega, if_false, List.getElem?_cons_zero]
    by_cases h80 : s0 < 0x80
    · simp only [h80, if_true]
      exact ⟨s0, 1, rfl, fin s0 1 (by omega) (by simp) (by omega) (by simp [seqLen, h80])⟩
    · simp only [h80, if_false]
      have hseq : seqLen s0 = (if s0 &&& 0xE0 = 0xC0 then 2 else if s0 &&& 0xF0 = 0xE0 then 3
          else if s0 &&& 0xF8 = 0xF0 then 4 else 1) := by simp [seqLen, h80]
      generalize hsz : (if s0 &&& 0xE0 = 0xC0 then 2 else if s0 &&& 0xF0 = 0xE0 then 3
          else if s0 &&& 0xF8 = 0xF0 then 4 else 0 : Nat) = sz
      have hszcases : (sz = 0 ∧ seqLen s0 = 1) ∨ (sz = 2 ∧ seqLen s0 = 2) ∨ (sz = 3 ∧ seqLen s0 = 3) ∨ (sz = 4 ∧ seqLen s0 = 4) := by
        rw [hseq, ← hsz]
        split
        · simp
        · split
          · simp
          · split <;> simp
      by_cases hz : sz = 0
      · simp only [hz, if_true]
        have : seqLen s0 = 1 := by rcases hszcases with h | h | h | h <;> omega
        exact ⟨runeError, 1, rfl, fin _ 1 (by omega) (by simp) (by omega) (by simp [this])⟩
      · simp only [hz, if_false]
        have hseqsz : seqLen s0 = sz := by rcases hszcases with h | h | h | h <;> omega
        by_cases hn : rest.length + 1 < sz
        · simp only [hn, if_true]
          refine ⟨runeError, 1, rfl, by simp, by omega, ⟨fun h => by omega, fun h => by cases h⟩, fun _ => by omega,
            fun h => by omega, fun _ _ _ _ => ⟨rfl, rfl⟩⟩
        · simp only [hn, if_false]
          have hnt : ¬ ((s0 :: rest).length < seqLen s0) := by rw [hseqsz]; simpa using hn
          have hsz2 : 2 ≤ sz := by rcases hszcases with h | h | h | h <;> omega
          cases rest with
          | nil => simp at hn; omega
          | cons s1 rest1 =>
            simp only [List.getElem?_cons_succ, List.getElem?_cons_zero]
            split
            · exact ⟨_, 1, rfl, fin _ 1 (by omega) (by simp) (by omega) hnt⟩
            · by_cases h2 : sz = 2
              · simp only [h2, if_true]
                split
                · exact ⟨_, 1, rfl, fin _ 1 (by omega) (by simp) (by omega) hnt⟩
                · exact ⟨_, 2, rfl, fin _ 2 (by omega) (by simp) (by omega) hnt⟩
              · simp only [h2, if_false]
                cases rest1 with
                | nil => simp at hn; omega
                | cons s2 rest2 =>
                  simp only [List.getElem?_cons_succ, List.getElem?_cons_zero]
                  split
                  · exact ⟨_, 1, rfl, fin _ 1 (by omega) (by simp) (by omega) hnt⟩
                  · by_cases h3 : sz = 3
                    · simp only [h3, if_true]
                      split
                      · exact ⟨_, 1, rfl, fin _ 1 (by omega) (by simp) (by omega) hnt⟩
                      · exact ⟨_, 3, rfl, fin _ 3 (by omega) (by simp) (by omega) hnt⟩
                    · simp only [h3, if_false]
                      cases rest2 with
                      | nil =>
                        have : sz = 4 := by rcases hszcases with h | h | h | h <;> omega
                        simp [this] at hn
                      | cons s3 rest3 =>
                        simp only [List.getElem?_cons_zero]
                        split
                        · exact ⟨_, 1, rfl, fin _ 1 (by omega) (by simp) (by omega) hnt⟩
                        · split
                          · exact ⟨_, 1, rfl, fin _ 1 (by omega) (by simp) (by omega) hnt⟩
                          · exact ⟨_, 4, rfl, fin _ 4 (by omega) (by simp) (by omega) hnt⟩

/-! ### the encoder in arithmetic form -/

/-- generalized UTF-8 (WTF-8) of a code point, written with `/` and `%` -/
def encA (i : Nat) : List Nat :=
  if i ≤ 127 then [i]
  else if i ≤ 2047 then [192 + i / 64, 128 + i % 64]
  else if i ≤ 65535 then [224 + i / 4096, 128 + i / 64 % 64, 128 + i % 64]
  else [240 + i / 262144, 128 + i / 4096 % 64, 128 + i / 64 % 64, 128 + i % 64]

theorem cont_byte (x : Nat) : 0x80 ||| (x % 256 &&& 0x3F) = 128 + x % 64 := by
  rw [show (0x3F : Nat) = 63 from rfl, and63, show (0x80 : Nat) = 128 from rfl, or128 _ (by omega)]
  omega

theorem enc_eq (i : Nat) (h : i ≤ 0x10FFFF) : enc i = some (encA i) := by
  unfold enc encodeWTF8Rune encA
  have hi : ((i : Int) % 4294967296).toNat = i := by omega
  simp only [hi, maxRune]
  by_cases h1 : i ≤ 0x7F
  · have : i ≤ 127 := h1
    simp only [h1, this, if_true]
    simp
    omega
  · have h1' : ¬ i ≤ 127 := h1
    simp only [h1, h1', if_false]
    by_cases h2 : i ≤ 0x7FF
    · have : i ≤ 2047 := h2
      simp only [h2, this, if_true]
      have b0 : 0xC0 ||| (i >>> 6) % 256 = 192 + i / 64 := by
        rw [shr6, show (0xC0 : Nat) = 192 from rfl, Nat.mod_eq_of_lt (by omega), or192 _ (by omega)]
      simp [b0, cont_byte]
    · have h2' : ¬ i ≤ 2047 := h2
      simp only [h2, h2', if_false]
      by_cases h3 : i ≤ 0xFFFF
      · have : i ≤ 65535 := h3
        have hmax : ¬ i > 0x10FFFF := by omega
        simp only [h3, this, hmax, false_or, if_true, if_false]
        have b0 : 0xE0 ||| (i >>> 12) % 256 = 224 + i / 4096 := by
          rw [shr12, show (0xE0 : Nat) = 224 from rfl, Nat.mod_eq_of_lt (by omega), or224 _ (by omega)]
        have b1 : 0x80 ||| ((i >>> 6) % 256 &&& 0x3F) = 128 + i / 64 % 64 := by rw [shr6, cont_byte]
        simp [b0, b1, cont_byte]
      · have h3' : ¬ i ≤ 65535 := h3
        have hmax : ¬ i > 0x10FFFF := by omega
        simp only [h3, h3', hmax, or_self, if_false]
        have b0 : 0xF0 ||| (i >>> 18) % 256 = 240 + i / 262144 := by
          rw [shr18, show (0xF0 : Nat) = 240 from rfl, Nat.mod_eq_of_lt (by omega), or240 _ (by omega)]
        have b1 : 0x80 ||| ((i >>> 12) % 256 &&& 0x3F) = 128 + i / 4096 % 64 := by rw [shr12, cont_byte]
        have b2 : 0x80 ||| ((i >>> 6) % 256 &&& 0x3F) = 128 + i / 64 % 64 := by rw [shr6, cont_byte]
        simp [b0, b1, b2, cont_byte]

theorem encA_length (i : Nat) : 1 ≤ (encA i).length ∧ (encA i).length ≤ 4 := by
  unfold encA; split
  · simp
  · split
    · simp
    · split <;> simp


/-! ### decoding what the encoder wrote -/

set_option maxRecDepth 8192 in
theorem sz2 : ∀ b, b < 256 → 192 ≤ b → b < 224 →
    (if b &&& 0xE0 = 0xC0 then 2 else if b &&& 0xF0 = 0xE0 then 3 else if b &&& 0xF8 = 0xF0 then 4 else 0 : Nat) = 2 := by
  decide
set_option maxRecDepth 8192 in
theorem sz3 : ∀ b, b < 256 → 224 ≤ b → b < 240 →
    (if b &&& 0xE0 = 0xC0 then 2 else if b &&& 0xF0 = 0xE0 then 3 else if b &&& 0xF8 = 0xF0 then 4 else 0 : Nat) = 3 := by
  decide
set_option maxRecDepth 8192 in
theorem sz4 : ∀ b, b < 256 → 240 ≤ b → b < 248 →
    (if b &&& 0xE0 = 0xC0 then 2 else if b &&& 0xF0 = 0xE0 then 3 else if b &&& 0xF8 = 0xF0 then 4 else 0 : Nat) = 4 := by
  decide

theorem is_cont (x : Nat) : ¬ ((128 + x % 64) &&& 0xC0 ≠ 0x80) := by
  have := (mask_80 (128 + x % 64) (by omega)).mpr ⟨by omega, by omega⟩
  simp [this]

/-- `DecodeWTF8Rune(encode(i) ++ rest) = (i, len(encode(i)))` for every code point, surrogates included -/
theorem dec_encA (i : Nat) (h : i ≤ 0x10FFFF) (rest : List Nat) :
    decodeWTF8Rune (encA i ++ rest) = some (i, (encA i).length) := by
  unfold encA
  by_cases h1 : i ≤ 127
  · simp only [h1, if_true]
    unfold decodeWTF8Rune
    have : i < 0x80 := by omega
    simp [this]
  · simp only [h1, if_false]
    by_cases h2 : i ≤ 2047
    · simp only [h2, if_true]
      unfold decodeWTF8Rune
      have hs0 : ¬ 192 + i / 64 < 0x80 := by omega
      have hsz := sz2 (192 + i / 64) (by omega) (by omega) (by omega)
      simp only [List.cons_append, List.nil_append, List.length_cons, List.getElem?_cons_zero, List.getElem?_cons_succ, hs0,
        hsz, is_cont, dec2, if_false, if_true]
      have hn : ¬ rest.length + 1 + 1 < 1 := by omega
      have hn2 : ¬ rest.length + 1 + 1 < 2 := by omega
      have hcp : (192 + i / 64) % 32 * 64 + (128 + i % 64) % 64 = i := by omega
      have hge : ¬ i < 0x80 := by omega
      simp only [hn, hn2, if_false, hcp, hge] <;> simp
    · simp only [h2, if_false]
      by_cases h3 : i ≤ 65535
      · simp only [h3, if_true]
        unfold decodeWTF8Rune
        have hs0 : ¬ 224 + i / 4096 < 0x80 := by omega
        have hsz := sz3 (224 + i / 4096) (by omega) (by omega) (by omega)
        simp only [List.cons_append, List.nil_append, List.length_cons, List.getElem?_cons_zero, List.getElem?_cons_succ, hs0,
          hsz, is_cont, dec3, if_false, if_true]
        have hn : ¬ rest.length + 1 + 1 + 1 < 1 := by omega
        have hn2 : ¬ rest.length + 1 + 1 + 1 < 3 := by omega
        have hcp : (224 + i / 4096) % 16 * 4096 + (128 + i / 64 % 64) % 64 * 64 + (128 + i % 64) % 64 = i := by omega
        have hge : ¬ i < 0x0800 := by omega
        simp only [hn, hn2, if_false, hcp, hge] <;> simp
      · simp only [h3, if_false]
        unfold decodeWTF8Rune
        have hs0 : ¬ 240 + i / 262144 < 0x80 := by omega
        have hsz := sz4 (240 + i / 262144) (by omega) (by omega) (by omega)
        simp only [List.cons_append, List.nil_append, List.length_cons, List.getElem?_cons_zero, List.getElem?_cons_succ, hs0,
          hsz, is_cont, dec4, if_false, if_true]
        have hn : ¬ rest.length + 1 + 1 + 1 + 1 < 1 := by omega
        have hn2 : ¬ rest.length + 1 + 1 + 1 + 1 < 4 := by omega
        have hcp : (240 + i / 262144) % 8 * 262144 + (128 + i / 4096 % 64) % 64 * 4096 + (128 + i / 64 % 64) % 64 * 64
            + (128 + i % 64) % 64 = i := by omega
        have hge : ¬ (i < 0x010000 ∨ i > 0x10FFFF) := by omega
        simp only [hn, hn2, if_false, hcp, hge] <;> simp

end EsbuildModel.Wtf8
