import EsbuildModel.Lemmas.CssBoxSide2
/-
`mangleSide` as a whole: invariant and cascade.
-/
namespace EsbuildModel.CssBox
open EsbuildModel.Spec.BoxCascade

section
variable {V : Type} {B : Browser Tok V} {F : Family} {ds : List CssBox.Decl}

theorem compactRules_TInv (hB : CssFacts B F) {box : Tracker} {rules : List (Option CssBox.Decl)} (mw : Bool)
    (h : TInv B F ds box rules) :
    TInv B F ds (compactRules box { rules := rules, panic := false } mw).1
      (compactRules box { rules := rules, panic := false } mw).2.rules ∧
    ∀ s imp, LS B F (compactRules box { rules := rules, panic := false } mw).2.rules s imp = LS B F rules s imp := by
  rw [compactRules_list box rules mw (fun s hs => (h.pres s hs).1)]
  split
  · rename_i hf
    exact compact_TInv hB mw h hf
  · exact ⟨h, fun _ _ => rfl⟩

theorem TInv.reset {box : Tracker} {rules : List (Option CssBox.Decl)} (h : TInv B F ds box rules)
    (rules' : List (Option CssBox.Decl)) : TInv B F ds { box with sides := {} } rules' :=
  TInv.empty B F ds box rules' h.kt h.aa box.important

theorem mangleSide_TInv (hB : CssFacts B F) {box : Tracker} {rules : List (Option CssBox.Decl)} (h : TInv B F ds box rules)
    (d : CssBox.Decl) (x : Side) (hk : d.key = .box F (.side x)) (hown : Own ds F rules.length) (mw : Bool) :
    TInv B F ds (mangleSide box { rules := rules ++ [some d], panic := false } d mw x).1
      (mangleSide box { rules := rules ++ [some d], panic := false } d mw x).2.rules ∧
    ∀ s imp, LS B F (mangleSide box { rules := rules ++ [some d], panic := false } d mw x).2.rules s imp =
      (cD B F s imp d).or (LS B F rules s imp) := by
  obtain ⟨h1, himp⟩ := sync_TInv h d
  have hreset : TInv B F ds { syncImportant box d with sides := {} } (rules ++ [some d]) ∧
      ∀ s imp, LS B F (rules ++ [some d]) s imp = (cD B F s imp d).or (LS B F rules s imp) :=
    ⟨h1.reset _, fun s imp => LS_concat B F rules (some d) s imp⟩
  by_cases hacc : ∃ t, d.value = [t] ∧
      (t.kind.isNumeric || (t.kind == .ident && (syncImportant box d).allowAuto && lowerAscii t.text == b "auto")) = true
  · obtain ⟨t, hv, hc⟩ := hacc
    have ht : TrackerAccepts F t := by
      rw [h1.aa] at hc
      simp only [Bool.or_eq_true, Bool.and_eq_true, beq_iff_eq] at hc
      rcases hc with hc | hc
      · exact Or.inl hc
      · exact Or.inr ⟨hc.1.2, hc.1.1, hc.2⟩
    rw [mangleSide_accepted box rules d mw x t hv hc (fun hp => by have := (h1.pres x hp).1; omega), h1.aa]
    obtain ⟨h2, h3⟩ := side_update hB h1 d x t himp hk hv ht hown
    obtain ⟨h4, h5⟩ := compactRules_TInv hB mw h2
    exact ⟨h4, fun s imp => by rw [h5, h3]⟩
  · have : mangleSide box { rules := rules ++ [some d], panic := false } d mw x =
        ({ syncImportant box d with sides := {} }, { rules := rules ++ [some d], panic := false }) := by
      unfold CssBox.mangleSide
      simp only
      split
      · rename_i t hv
        split
        · rename_i hc
          exact absurd ⟨t, hv, hc⟩ hacc
        · rfl
      · rfl
    rw [this]
    exact hreset

end
end EsbuildModel.CssBox
