import EsbuildModel.Lemmas.CssBoxSides3
/-
The loop invariant of `processDeclarations` for the cascade of one family `F` (all three trackers run; the other two
only touch slots that contribute nothing to `F`).
-/
namespace EsbuildModel.CssBox
open EsbuildModel.Spec.BoxCascade

theorem Tracked.unique {f g : Family} {k : Key} (h1 : Tracked f k) (h2 : Tracked g k) : f = g := by
  rcases h1 with rfl | ⟨s, rfl⟩ <;> rcases h2 with h | ⟨s', h⟩ <;> cases h <;> rfl

theorem propOf_of_tracked_ne {f F : Family} {k : Key} (h : Tracked f k) (hne : f ≠ F) : propOf F k = none := by
  rcases h with rfl | ⟨s, rfl⟩ <;> simp [propOf, hne]

section
variable {V : Type} (B : Browser Tok V) (F : Family) (ds : List CssBox.Decl)

/-- the loop invariant after `n` declarations -/
structure MInv (n : Nat) (st : St) : Prop where
  nopanic : st.rs.panic = false
  len : st.rs.rules.length = n
  kt : ∀ f, (st.get f).keyText = famName f
  own : ∀ f s, ((st.get f).sides.get s).present = true →
    ((st.get f).sides.get s).ruleIndex < n ∧ Own ds f ((st.get f).sides.get s).ruleIndex
  tinv : TInv B F ds (st.get F) st.rs.rules
  nonF : ∀ i s imp, ¬ Own ds F i → cAt B F st.rs.rules s imp i = none
  sem : ∀ s imp, lastSome (cD B F s imp) (ds.take n) = LS B F st.rs.rules s imp

variable {B F ds}

theorem MInv.bound {n : Nat} {st : St} (h : MInv B F ds n st) : Bound st :=
  ⟨h.nopanic, fun f s hs => by rw [h.len]; exact (h.own f s hs).1⟩

theorem take_succ_of_get {n : Nat} {d : CssBox.Decl} (hd : ds[n]? = some d) : ds.take (n + 1) = ds.take n ++ [d] := by
  rw [List.take_add_one, hd]; rfl

/-- a step whose tracker belongs to another family, or that only appends an untracked declaration -/
theorem MInv.other {n : Nat} {st st' : St} (h : MInv B F ds n st) (d : CssBox.Decl) (hd : ds[n]? = some d)
    (hcd : ∀ s imp, cD B F s imp d = none)
    (hF : st'.get F = st.get F) (hkt : ∀ f, (st'.get f).keyText = famName f)
    (hpanic : st'.rs.panic = false) (hlen : st'.rs.rules.length = n + 1)
    (hown : ∀ f s, ((st'.get f).sides.get s).present = true →
      ((st'.get f).sides.get s).ruleIndex < n + 1 ∧ Own ds f ((st'.get f).sides.get s).ruleIndex)
    (hc : ∀ i s imp, cAt B F st'.rs.rules s imp i = if i < n then cAt B F st.rs.rules s imp i else none) :
    MInv B F ds (n + 1) st' := by
  refine ⟨hpanic, hlen, hkt, hown, ?_, ?_, ?_⟩
  · rw [hF]
    apply TInv.congr B F ds h.tinv (by rw [h.len, hlen]; omega)
    · intro i s imp hi; rw [hc, if_pos (by rw [← h.len]; exact hi)]
    · intro i s imp hi; rw [hc, if_neg (by rw [← h.len]; omega)]
  · intro i s imp hno
    rw [hc]
    split
    · exact h.nonF i s imp hno
    · rfl
  · intro s imp
    rw [take_succ_of_get hd, lastSome_concat, hcd, h.sem]
    have : LS B F st'.rs.rules s imp = LS B F (st.rs.rules ++ [none]) s imp := by
      apply LS_congr B F _ _ s imp (by simp [hlen, h.len])
      intro i
      rw [hc]
      by_cases hi : i < n
      · rw [if_pos hi, cAt_append_left B F _ _ s imp i (by rw [h.len]; exact hi)]
      · rw [if_neg hi]
        by_cases hi' : i = n
        · rw [hi', ← h.len, cAt_concat_last]; rfl
        · rw [cAt_ge B F _ s imp i (by simp [h.len]; omega)]
    rw [this, LS_concat]
    rfl


theorem cAt_eq_of_getElem? (l l' : List (Option CssBox.Decl)) (i : Nat) (h : l[i]? = l'[i]?) (s : Side) (imp : Bool) :
    cAt B F l s imp i = cAt B F l' s imp i := by
  unfold cAt; rw [h]

/-- a step of the tracker of family `f` on a declaration it looks at -/
theorem MInv.tracked {n : Nat} {st st' : St} (h : MInv B F ds n st) (d : CssBox.Decl) (hd : ds[n]? = some d)
    (f : Family) (htr : Tracked f d.key)
    (heff : Eff (st.get f) d n (st.rs.rules ++ [some d]) (st'.get f) st'.rs)
    (hne : ∀ f', f' ≠ f → st'.get f' = st.get f')
    (hF : f = F → TInv B F ds (st'.get F) st'.rs.rules ∧
      ∀ s imp, LS B F st'.rs.rules s imp = (cD B F s imp d).or (LS B F st.rs.rules s imp)) :
    MInv B F ds (n + 1) st' := by
  have hlen : st'.rs.rules.length = n + 1 := by rw [heff.len]; simp [h.len]
  have hownn : Own ds f n := ⟨d, hd, htr⟩
  have hkt : ∀ f', (st'.get f').keyText = famName f' := by
    intro f'
    by_cases hf : f' = f
    · rw [hf, heff.cfg.1]; exact h.kt f
    · rw [hne f' hf]; exact h.kt f'
  have hown : ∀ f' s, ((st'.get f').sides.get s).present = true →
      ((st'.get f').sides.get s).ruleIndex < n + 1 ∧ Own ds f' ((st'.get f').sides.get s).ruleIndex := by
    intro f' s hs
    by_cases hf : f' = f
    · subst hf
      rcases heff.sides s hs with e | ⟨s0, hs0, e⟩
      · rw [e]; exact ⟨Nat.lt_succ_self _, hownn⟩
      · rw [← e]; have := h.own f' s0 hs0; exact ⟨by omega, this.2⟩
    · rw [hne f' hf] at hs ⊢; have := h.own f' s hs; exact ⟨by omega, this.2⟩
  -- a touched slot belongs to `f`
  have htouch : ∀ i, Touch (st.get f) n i → Own ds f i := by
    intro i hi
    rcases hi with rfl | ⟨s0, hs0, rfl⟩
    · exact hownn
    · exact (h.own f s0 hs0).2
  by_cases hfF : f = F
  · subst hfF
    obtain ⟨h1, h2⟩ := hF rfl
    refine ⟨heff.nopanic, hlen, hkt, hown, h1, ?_, ?_⟩
    · intro i s imp hno
      rcases heff.rules i with e | ⟨ht, _⟩
      · rw [cAt_eq_of_getElem? _ _ i e]
        by_cases hi : i < n
        · rw [cAt_append_left B f _ _ s imp i (by rw [h.len]; exact hi)]; exact h.nonF i s imp hno
        · by_cases hi' : i = n
          · rw [hi'] at hno; exact absurd hownn hno
          · exact cAt_ge B f _ s imp i (by simp [h.len]; omega)
      · exact absurd (htouch i ht) hno
    · intro s imp
      rw [take_succ_of_get hd, lastSome_concat, h.sem, h2]
  · have hpF : propOf F d.key = none := propOf_of_tracked_ne htr hfF
    apply h.other d hd (fun s imp => cD_none s imp d hpF) (hne F (fun e => hfF e.symm)) hkt heff.nopanic hlen hown
    intro i s imp
    rcases heff.rules i with e | ⟨ht, hnc⟩
    · rw [cAt_eq_of_getElem? _ _ i e]
      by_cases hi : i < n
      · rw [if_pos hi, cAt_append_left B F _ _ s imp i (by rw [h.len]; exact hi)]
      · rw [if_neg hi]
        by_cases hi' : i = n
        · rw [hi', ← h.len, cAt_concat_last]; exact cD_none s imp d hpF
        · exact cAt_ge B F _ s imp i (by simp [h.len]; omega)
    · have hnew : cAt B F st'.rs.rules s imp i = none := by
        unfold cAt
        rcases hnc with e | ⟨e', he', hk'⟩
        · rw [e]; rfl
        · rw [he']
          show cD B F s imp e' = none
          apply cD_none
          apply propOf_of_tracked_ne (f := f) _ hfF
          rcases hk' with hk' | hk'
          · left; unfold Decl.key; rw [hk', h.kt f]; exact keyOfText_famName f
          · unfold Decl.key; rw [hk']; exact htr
      rw [hnew]
      split
      · have hno : ¬ Own ds F i := by
          intro ⟨d', hd', ht'⟩
          obtain ⟨d'', hd'', ht''⟩ := htouch i ht
          rw [hd'] at hd''; cases hd''
          exact hfF (ht''.unique ht')
        exact (h.nonF i s imp hno).symm
      · rfl

end
end EsbuildModel.CssBox
