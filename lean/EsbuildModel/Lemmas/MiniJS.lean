/-
Lemmas/MiniJS — basic facts about the evaluator of Spec/MiniJS: sequencing, what boolean contexts observe,
congruences, the algebraic laws of `&&`, `||`, `??`, `,` and `?:` that the rewrites rely on.
-/
import EsbuildModel.Impl.MiniJS
namespace EsbuildModel.MiniJS

@[simp] theorem bind_val {α β : Type} (v : α) (tr : Trace) (k : α → Trace → Res β × Trace) :
    bind (.val v, tr) k = k v tr := rfl
@[simp] theorem bind_throw {α β : Type} (e : Exn) (tr : Trace) (k : α → Trace → Res β × Trace) :
    bind ((.throw e : Res α), tr) k = (.throw e, tr) := rfl

theorem bind_assoc {α β γ : Type} (r : Res α × Trace) (k : α → Trace → Res β × Trace)
    (k2 : β → Trace → Res γ × Trace) :
    bind (bind r k) k2 = bind r (fun v tr => bind (k v tr) k2) := by
  obtain ⟨r, tr⟩ := r
  cases r <;> rfl

theorem bind_congr {α β : Type} (r : Res α × Trace) (k k2 : α → Trace → Res β × Trace)
    (h : ∀ v tr, k v tr = k2 v tr) : bind r k = bind r k2 := by
  obtain ⟨r, tr⟩ := r
  cases r <;> simp [h]

theorem bind_pure {α : Type} (r : Res α × Trace) : bind r (fun v tr => (.val v, tr)) = r := by
  obtain ⟨r, tr⟩ := r
  cases r <;> rfl

/-- case analysis on an evaluation result -/
theorem res_cases {α : Type} (r : Res α × Trace) :
    (∃ v tr, r = (.val v, tr)) ∨ (∃ e tr, r = (.throw e, tr)) := by
  obtain ⟨r, tr⟩ := r
  cases r
  · exact .inl ⟨_, _, rfl⟩
  · exact .inr ⟨_, _, rfl⟩

-- ---------------------------------------------------------------- observational equivalences

/-- same value or exception and same trace, from every state -/
def EvalEq (w : World) (a b : Expr) : Prop := ∀ tr, eval w a tr = eval w b tr

/-- same truthiness or exception and same trace, from every state -/
def BoolEq (w : World) (a b : Expr) : Prop := ∀ tr, evalBool w a tr = evalBool w b tr

/-- same completion (normal / which exception) and same trace, from every state -/
def UnusedEq (w : World) (a b : Expr) : Prop := ∀ tr, evalUnused w a tr = evalUnused w b tr

theorem EvalEq.refl (w : World) (a : Expr) : EvalEq w a a := fun _ => rfl
theorem EvalEq.symm {w : World} {a b : Expr} (h : EvalEq w a b) : EvalEq w b a := fun tr => (h tr).symm
theorem EvalEq.trans {w : World} {a b c : Expr} (h : EvalEq w a b) (h2 : EvalEq w b c) : EvalEq w a c :=
  fun tr => (h tr).trans (h2 tr)

theorem BoolEq.refl (w : World) (a : Expr) : BoolEq w a a := fun _ => rfl
theorem BoolEq.symm {w : World} {a b : Expr} (h : BoolEq w a b) : BoolEq w b a := fun tr => (h tr).symm
theorem BoolEq.trans {w : World} {a b c : Expr} (h : BoolEq w a b) (h2 : BoolEq w b c) : BoolEq w a c :=
  fun tr => (h tr).trans (h2 tr)

theorem EvalEq.toBool {w : World} {a b : Expr} (h : EvalEq w a b) : BoolEq w a b := by
  intro tr; simp only [evalBool, h tr]

theorem EvalEq.toUnused {w : World} {a b : Expr} (h : EvalEq w a b) : UnusedEq w a b := by
  intro tr; simp only [evalUnused, h tr]

theorem BoolEq.toUnused {w : World} {a b : Expr} (h : BoolEq w a b) : UnusedEq w a b := by
  intro tr
  have := h tr
  simp only [evalBool, Prod.mk.injEq] at this
  simp only [evalUnused, Prod.mk.injEq]
  refine ⟨?_, this.2⟩
  have h1 := this.1
  revert h1
  cases (eval w a tr).1 <;> cases (eval w b tr).1 <;> simp [truthRes, unitRes]

-- ---------------------------------------------------------------- what a boolean context sees

/-- evaluation in a boolean context, as a computation returning the truthiness -/
theorem evalBool_eq (w : World) (e : Expr) (tr : Trace) :
    evalBool w e tr = bind (eval w e tr) fun v tr1 => (.val (toBoolean v), tr1) := by
  simp only [evalBool]
  rcases res_cases (eval w e tr) with ⟨v, tr1, h⟩ | ⟨x, tr1, h⟩ <;> simp [h, truthRes]

theorem eval_cond (w : World) (c y n : Expr) (tr : Trace) :
    eval w (.cond c y n) tr =
      bind (evalBool w c tr) fun t tr1 => if t then eval w y tr1 else eval w n tr1 := by
  simp only [eval, evalBool_eq, bind_assoc, bind_val]

theorem evalBool_cond (w : World) (c y n : Expr) (tr : Trace) :
    evalBool w (.cond c y n) tr =
      bind (evalBool w c tr) fun t tr1 => if t then evalBool w y tr1 else evalBool w n tr1 := by
  rw [evalBool_eq, eval_cond, bind_assoc]
  apply bind_congr; intro t tr1
  cases t <;> simp [evalBool_eq]

theorem evalBool_not (w : World) (a : Expr) (tr : Trace) :
    evalBool w (.unary .not a) tr = bind (evalBool w a tr) fun t tr1 => (.val (!t), tr1) := by
  simp only [evalBool_eq, eval, typeofIdent?, bind_assoc, bind_val, applyUnary, toBoolean]

theorem evalBool_and (w : World) (a b : Expr) (tr : Trace) :
    evalBool w (.binary .and a b) tr =
      bind (evalBool w a tr) fun t tr1 => if t then evalBool w b tr1 else (.val false, tr1) := by
  simp only [evalBool_eq, eval, bind_assoc, bind_val]
  apply bind_congr; intro va tr1
  cases h : toBoolean va <;> simp [BinOp.short, h, applyBinary, bind_pure]

theorem evalBool_or (w : World) (a b : Expr) (tr : Trace) :
    evalBool w (.binary .or a b) tr =
      bind (evalBool w a tr) fun t tr1 => if t then (.val true, tr1) else evalBool w b tr1 := by
  simp only [evalBool_eq, eval, bind_assoc, bind_val]
  apply bind_congr; intro va tr1
  cases h : toBoolean va <;> simp [BinOp.short, h, applyBinary, bind_pure]

theorem eval_comma (w : World) (a b : Expr) (tr : Trace) :
    eval w (.binary .comma a b) tr = bind (eval w a tr) fun _ tr1 => eval w b tr1 := by
  simp only [eval, BinOp.short]
  apply bind_congr; intro va tr1
  simp only [applyBinary, bind_pure]

theorem evalBool_comma (w : World) (a b : Expr) (tr : Trace) :
    evalBool w (.binary .comma a b) tr = bind (eval w a tr) fun _ tr1 => evalBool w b tr1 := by
  simp only [evalBool_eq, eval_comma, bind_assoc]

theorem eval_and (w : World) (a b : Expr) (tr : Trace) :
    eval w (.binary .and a b) tr =
      bind (eval w a tr) fun va tr1 => if toBoolean va then eval w b tr1 else (.val va, tr1) := by
  simp only [eval]
  apply bind_congr; intro va tr1
  cases h : toBoolean va <;> simp [BinOp.short, h, applyBinary, bind_pure]

theorem eval_or (w : World) (a b : Expr) (tr : Trace) :
    eval w (.binary .or a b) tr =
      bind (eval w a tr) fun va tr1 => if toBoolean va then (.val va, tr1) else eval w b tr1 := by
  simp only [eval]
  apply bind_congr; intro va tr1
  cases h : toBoolean va <;> simp [BinOp.short, h, applyBinary, bind_pure]

theorem eval_nullish (w : World) (a b : Expr) (tr : Trace) :
    eval w (.binary .nullish a b) tr =
      bind (eval w a tr) fun va tr1 => if va.nullish then eval w b tr1 else (.val va, tr1) := by
  simp only [eval]
  apply bind_congr; intro va tr1
  cases h : va.nullish <;> simp [BinOp.short, h, applyBinary, bind_pure]

theorem eval_not (w : World) (a : Expr) (tr : Trace) :
    eval w (.unary .not a) tr = bind (evalBool w a tr) fun t tr1 => (.val (.bool (!t)), tr1) := by
  simp only [evalBool_eq, eval, typeofIdent?, bind_assoc, bind_val]
  apply bind_congr; intro v tr1
  simp only [applyUnary]

-- ---------------------------------------------------------------- congruences

theorem BoolEq.cond {w : World} {c c2 : Expr} (h : BoolEq w c c2) (y n : Expr) :
    EvalEq w (.cond c y n) (.cond c2 y n) := by
  intro tr; simp only [eval_cond, h tr]

theorem BoolEq.not {w : World} {a a2 : Expr} (h : BoolEq w a a2) :
    EvalEq w (.unary .not a) (.unary .not a2) := by
  intro tr; simp only [eval_not, h tr]

theorem BoolEq.condB {w : World} {c c2 y y2 n n2 : Expr} (hc : BoolEq w c c2) (hy : BoolEq w y y2)
    (hn : BoolEq w n n2) : BoolEq w (.cond c y n) (.cond c2 y2 n2) := by
  intro tr
  simp only [evalBool_cond, hc tr]
  apply bind_congr; intro t tr1
  cases t <;> simp [hy tr1, hn tr1]

theorem BoolEq.and {w : World} {a a2 b b2 : Expr} (ha : BoolEq w a a2) (hb : BoolEq w b b2) :
    BoolEq w (.binary .and a b) (.binary .and a2 b2) := by
  intro tr
  simp only [evalBool_and, ha tr]
  apply bind_congr; intro t tr1
  cases t <;> simp [hb tr1]

theorem BoolEq.or {w : World} {a a2 b b2 : Expr} (ha : BoolEq w a a2) (hb : BoolEq w b b2) :
    BoolEq w (.binary .or a b) (.binary .or a2 b2) := by
  intro tr
  simp only [evalBool_or, ha tr]
  apply bind_congr; intro t tr1
  cases t <;> simp [hb tr1]

theorem EvalEq.condAll {w : World} {c c2 y y2 n n2 : Expr} (hc : BoolEq w c c2) (hy : EvalEq w y y2)
    (hn : EvalEq w n n2) : EvalEq w (.cond c y n) (.cond c2 y2 n2) := by
  intro tr
  simp only [eval_cond, hc tr]
  apply bind_congr; intro t tr1
  cases t <;> simp [hy tr1, hn tr1]

/-- a binary operator other than nothing: both operands may be replaced by equivalent ones -/
theorem EvalEq.binary {w : World} (op : BinOp) {a a2 b b2 : Expr} (ha : EvalEq w a a2) (hb : EvalEq w b b2) :
    EvalEq w (.binary op a b) (.binary op a2 b2) := by
  intro tr
  simp only [eval, ha tr]
  apply bind_congr; intro va tr1
  simp only [hb tr1]

theorem EvalEq.unaryNot {w : World} {a a2 : Expr} (h : EvalEq w a a2) :
    EvalEq w (.unary .not a) (.unary .not a2) := h.toBool.not

end EsbuildModel.MiniJS
