import EsbuildModel.Impl.ChunkHash
import EsbuildModel.Lemmas.Split
namespace EsbuildModel.ChunkHash
open EsbuildModel.Pieces EsbuildModel.Split

/-- every cross-chunk import names an existing chunk (otherwise the Go code indexes out of range) -/
def WF (cs : List Chunk) : Prop := ∀ c ∈ cs, ∀ j ∈ c.imports, j < cs.length

def succs (cs : List Chunk) (x : Nat) : List Nat :=
  match cs[x]? with | some c => c.imports | none => []

/-- `Reach cs a b`: chunk `b` is imported by chunk `a` directly or transitively (or is `a`) -/
inductive Reach (cs : List Chunk) : Nat → Nat → Prop
  | refl (a : Nat) : Reach cs a a
  | step {a b c : Nat} : Reach cs a b → c ∈ succs cs b → Reach cs a c

theorem succs_lt {cs : List Chunk} (h : WF cs) {x j : Nat} (hj : j ∈ succs cs x) : j < cs.length := by
  unfold succs at hj
  split at hj
  · rename_i c hc
    exact h c (List.mem_of_getElem? hc) j hj
  · simp at hj

/-- what one (successful) traversal step guarantees about the state -/
structure Post (cs : List Chunk) (st st' : St) : Prop where
  inv : Inv cs.length st'.visited
  mono : ∀ x ∈ st.visited, x ∈ st'.visited
  ord : ∃ new, st'.order = st.order ++ new ∧ new.Nodup ∧
        (∀ x, x ∈ new ↔ (x ∈ st'.visited ∧ x ∉ st.visited))
  closed : ∀ x ∈ st'.visited, x ∉ st.visited → ∀ j ∈ succs cs x, j ∈ st'.visited

theorem Post.rfl' {cs : List Chunk} {st : St} (h : Inv cs.length st.visited) : Post cs st st :=
  ⟨h, fun _ hx => hx, ⟨[], by simp, List.nodup_nil, by simp⟩, fun x hx hn => absurd hx hn⟩

theorem Post.trans {cs : List Chunk} {a b c : St} (h1 : Post cs a b) (h2 : Post cs b c) : Post cs a c := by
  obtain ⟨n1, e1, nd1, m1⟩ := h1.ord
  obtain ⟨n2, e2, nd2, m2⟩ := h2.ord
  refine ⟨h2.inv, fun x hx => h2.mono x (h1.mono x hx), ⟨n1 ++ n2, ?_, ?_, ?_⟩, ?_⟩
  · rw [e2, e1, List.append_assoc]
  · rw [List.nodup_append]
    refine ⟨nd1, nd2, ?_⟩
    intro x hx1 y hy2 hxy
    subst hxy
    exact ((m2 x).1 hy2).2 ((m1 x).1 hx1).1
  · intro x
    rw [List.mem_append, m1, m2]
    constructor
    · rintro (⟨hb, ha⟩ | ⟨hc, hb⟩)
      · exact ⟨h2.mono x hb, ha⟩
      · exact ⟨hc, fun ha => hb (h1.mono x ha)⟩
    · rintro ⟨hc, ha⟩
      by_cases hb : x ∈ b.visited
      · exact Or.inl ⟨hb, ha⟩
      · exact Or.inr ⟨hc, hb⟩
  · intro x hc ha j hj
    by_cases hb : x ∈ b.visited
    · exact h2.mono j (h1.closed x hb ha j hj)
    · exact h2.closed x hc hb j hj

/-- the loop over the imports, given that the step function behaves -/
theorem visitList_post {cs : List Chunk} {fuel : Nat} (f : Nat → St → Option St)
    (hf : ∀ j st, Inv cs.length st.visited → j < cs.length → cs.length < fuel + st.visited.length →
      ∃ st', f j st = some st' ∧ Post cs st st' ∧ j ∈ st'.visited) :
    ∀ (js : List Nat) (st : St), (∀ j ∈ js, j < cs.length) → Inv cs.length st.visited →
      cs.length < fuel + st.visited.length →
      ∃ st', visitList f js st = some st' ∧ Post cs st st' ∧ ∀ j ∈ js, j ∈ st'.visited := by
  intro js
  induction js with
  | nil => intro st _ hi _; exact ⟨st, rfl, Post.rfl' hi, by simp⟩
  | cons j js ih =>
    intro st hjs hi hfuel
    obtain ⟨st1, e1, p1, hj1⟩ := hf j st hi (hjs j (by simp)) hfuel
    have hlen : st.visited.length ≤ st1.visited.length := by
      have hsub : ∀ x ∈ st.visited, x ∈ st1.visited := p1.mono
      exact List.Nodup.length_le_of_subset hi.1 hsub
    obtain ⟨st2, e2, p2, hj2⟩ := ih st1 (fun x hx => hjs x (by simp [hx])) p1.inv (by omega)
    refine ⟨st2, ?_, p1.trans p2, ?_⟩
    · simp [visitList, e1, e2]
    · intro x hx
      rcases List.mem_cons.1 hx with rfl | hx
      · exact p2.mono _ hj1
      · exact hj2 x hx

theorem visit_post {cs : List Chunk} (hwf : WF cs) :
    ∀ (fuel i : Nat) (st : St), Inv cs.length st.visited → i < cs.length →
      cs.length < fuel + st.visited.length →
      ∃ st', visit cs fuel i st = some st' ∧ Post cs st st' ∧ i ∈ st'.visited := by
  intro fuel
  induction fuel with
  | zero =>
    intro i st hi _ hfuel
    have := inv_length_le hi
    omega
  | succ fuel ih =>
    intro i st hi hlt hfuel
    unfold visit
    by_cases hc : st.visited.contains i = true
    · simp only [hc, if_true]
      exact ⟨st, rfl, Post.rfl' hi, by simpa using hc⟩
    · have hni : i ∉ st.visited := by simpa using hc
      simp only [hc]
      have hget : cs[i]? = some cs[i] := List.getElem?_eq_getElem hlt
      rw [hget]
      simp only [Bool.false_eq_true, if_false]
      let st0 : St := { st with visited := i :: st.visited }
      have hi0 : Inv cs.length st0.visited := by
        refine ⟨List.nodup_cons.2 ⟨hni, hi.1⟩, ?_⟩
        intro x hx
        rcases List.mem_cons.1 hx with rfl | hx
        · exact hlt
        · exact hi.2 x hx
      have himp : ∀ j ∈ cs[i].imports, j < cs.length := hwf cs[i] (List.getElem_mem hlt)
      obtain ⟨st', e', p', hall⟩ := visitList_post (cs := cs) (fuel := fuel) (visit cs fuel) ih
        cs[i].imports st0 himp hi0 (by simp [st0]; omega)
      refine ⟨{ st' with order := st'.order ++ [i] }, ?_, ?_, ?_⟩
      · show (match visitList (visit cs fuel) cs[i].imports st0 with
              | none => none
              | some st' => some { st' with order := st'.order ++ [i] }) = _
        rw [e']
      · obtain ⟨new, eo, nd, m⟩ := p'.ord
        have hiv' : i ∈ st'.visited := p'.mono i (by simp [st0])
        refine ⟨p'.inv, fun x hx => p'.mono x (by simp [st0, hx]), ⟨new ++ [i], ?_, ?_, ?_⟩, ?_⟩
        · show st'.order ++ [i] = st.order ++ (new ++ [i])
          rw [eo, List.append_assoc]
        · rw [List.nodup_append]
          refine ⟨nd, by simp, ?_⟩
          intro x hx y hy hxy
          simp at hy
          subst hxy; subst hy
          exact ((m _).1 hx).2 (by simp [st0])
        · intro x
          simp only [List.mem_append, List.mem_singleton, m]
          constructor
          · rintro (⟨hv, hn⟩ | rfl)
            · exact ⟨hv, fun h => hn (by simp [st0, h])⟩
            · exact ⟨hiv', hni⟩
          · rintro ⟨hv, hn⟩
            by_cases hxi : x = i
            · exact Or.inr hxi
            · exact Or.inl ⟨hv, by simp [st0, hxi, hn]⟩
        · intro x hv hn j hj
          by_cases hxi : x = i
          · subst hxi
            have : succs cs x = cs[x].imports := by simp [succs, hget]
            rw [this] at hj
            exact hall j hj
          · exact p'.closed x hv (by simp [st0, hxi, hn]) j hj
      · exact p'.mono i (by simp [st0])

/-- the traversal only looks at the import lists -/
theorem visit_congr {cs cs' : List Chunk} (h : cs.map (·.imports) = cs'.map (·.imports)) :
    ∀ (fuel i : Nat) (st : St), visit cs fuel i st = visit cs' fuel i st := by
  intro fuel
  induction fuel with
  | zero => intro i st; rfl
  | succ fuel ih =>
    intro i st
    have hfun : visit cs fuel = visit cs' fuel := by funext i st; exact ih i st
    have hget : (cs[i]?).map (·.imports) = (cs'[i]?).map (·.imports) := by
      have := congrArg (fun l => l[i]?) h
      simpa using this
    unfold visit
    split
    · rfl
    · rw [hfun]
      cases h1 : cs[i]? <;> cases h2 : cs'[i]? <;> simp [h1, h2] at hget ⊢
      rw [hget]

/-- concatenations of pointwise equally long blocks over the same index list are equal only if every
block is equal -/
theorem flatMap_eq_of_length {α : Type} (f g : α → List Nat) (l : List α)
    (hlen : ∀ x ∈ l, (f x).length = (g x).length) (h : l.flatMap f = l.flatMap g) :
    ∀ x ∈ l, f x = g x := by
  induction l with
  | nil => simp
  | cons a l ih =>
    simp only [List.flatMap_cons] at h
    have := List.append_inj h (hlen a (by simp))
    intro x hx
    rcases List.mem_cons.1 hx with rfl | hx
    · exact this.1
    · exact ih (fun y hy => hlen y (by simp [hy])) this.2 x hx

end EsbuildModel.ChunkHash
