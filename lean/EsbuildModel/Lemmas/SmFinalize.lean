import EsbuildModel.Lemmas.SmJoinChunk
/-!
# Helper lemmas for `Props/C07Join.lean` — part 11: `SourceMapPieces.Finalize`

`Finalize` re-reads the joined `mappings` bytes; on bytes written by the sequential encoder it writes the
sequential encoding of the same segments with shifted generated columns (`finEvs`).
-/
namespace EsbuildModel.SmJoin
open Vlq
open Spec.SourceMapV3 (Ev Orig Seg segsOf)

/-! ## the sequential encoding with the commas AFTER the segments (the way `Finalize` reads it) -/

def startsWithSeg : List Ev → Bool
  | .seg _ _ :: _ => true
  | _ => false

/-- the comma that separates a segment from a following segment -/
def commaAfter (es : List Ev) : Bytes := if startsWithSeg es then [44] else []

/-- bytes of the numbers of one segment after the generated column -/
def restFields (p : State) (o : Option Orig) : Bytes :=
  match o with
  | none => []
  | some o =>
    enc (o.src - p.srcIdx) ++ (enc (o.line - p.origLine) ++ (enc (o.col - p.origCol) ++
      (match o.name with
       | some n => enc (n - p.origName)
       | none => [])))

def encT (p : State) : List Ev → Bytes
  | [] => []
  | .nl :: es => 59 :: encT { p with genLine := p.genLine + 1, genCol := 0 } es
  | .seg c o :: es =>
    enc (c - p.genCol) ++ (restFields p o ++ (commaAfter es ++ encT (nextOf p (curOf p c o)) es))

theorem encOne_seg_bytes (p : State) (l : Nat) (c : Int) (o : Option Orig) :
    (encOne p l (.seg c o)).bytes = commaOf l ++ (enc (c - p.genCol) ++ restFields p o) := by
  cases o with
  | none => simp [encOne, amb_bytes, fieldsOf, curOf, restFields]
  | some o =>
    obtain ⟨a, ln, cl, n⟩ := o
    cases n <;> simp [encOne, amb_bytes, fieldsOf, curOf, restFields]

theorem encEvs_eq_encT (evs : List Ev) (p : State) (l : Nat) :
    (encEvs p l evs).bytes = (if startsWithSeg evs then commaOf l else []) ++ encT p evs := by
  induction evs generalizing p l with
  | nil => simp [encEvs, encT, startsWithSeg]
  | cons e es ih =>
    cases e with
    | nl =>
      simp only [encEvs, ih, startsWithSeg, encT]
      have : commaOf (encOne p l Ev.nl).last = [] := commaOf_noComma (by simp [encOne, NoComma])
      rw [this]
      simp [encOne]
      split <;> rfl
    | seg c o =>
      simp only [encEvs, ih, startsWithSeg, encT, encOne_seg_bytes, ↓reduceIte, commaAfter]
      have hl : commaOf (encOne p l (.seg c o)).last = [44] := by
        have : ¬ NoComma (encOne p l (.seg c o)).last := by
          rw [encOne_last_noComma]; simp
        simp [commaOf, this]
      have hst : (encOne p l (.seg c o)).st = nextOf p (curOf p c o) := rfl
      rw [hl, hst]
      simp [List.append_assoc]

theorem encEvs_zero_eq_encT (evs : List Ev) : (encEvs {} 34 evs).bytes = encT {} evs := by
  rw [encEvs_eq_encT]
  have : commaOf 34 = [] := commaOf_noComma (by simp [NoComma])
  simp [this]

/-! ## reading one segment -/

theorem toDigit_sep : toDigit Gen.base64 44 = 64 ∧ toDigit Gen.base64 59 = 64 := by decide

/-- `DecodeVLQ` on a separator does not move -/
theorem decodeVLQ_sep (A : Bytes) (b : Nat) (B : Bytes) (hb : b = 44 ∨ b = 59) (n : Nat) (hn : n = A.length) :
    decodeVLQ (A ++ b :: B) n = some (0, n) := by
  subst hn
  have hd : toDigit Gen.base64 b = 64 := by rcases hb with rfl | rfl <;> simp [toDigit_sep]
  unfold decodeVLQ decodeBytes
  simp [decode, scan, hd, fromVlq]

/-- what follows a segment: nothing, a comma and more, or a semicolon and more -/
inductive TailShape : Bytes → Prop
  | nil : TailShape []
  | comma (tl : Bytes) : TailShape (44 :: tl)
  | semi (tl : Bytes) : TailShape (59 :: tl)

def commaLen (T : Bytes) : Nat := if T.head? = some 44 then 1 else 0

theorem skipRest_none (A T : Bytes) (hT : TailShape T) (n : Nat) (hn : n = A.length) :
    skipRest (A ++ T) n = some (n + commaLen T) := by
  subst hn
  cases hT with
  | nil => simp [skipRest, commaLen]
  | comma tl =>
    have h := decodeVLQ_sep A 44 tl (.inl rfl) A.length rfl
    simp [skipRest, h, commaLen]
  | semi tl =>
    have h := decodeVLQ_sep A 59 tl (.inr rfl) A.length rfl
    simp [skipRest, h, commaLen]

theorem getElem?_at (A : Bytes) (T : Bytes) : (A ++ T)[A.length]? = T.head? := by
  rw [List.getElem?_append_right (Nat.le_refl _)]
  cases T <;> simp

theorem skipRest_src (A T : Bytes) (hT : TailShape T) (a l o : Int) (n : Nat) (hn : n = A.length) :
    skipRest (A ++ (enc a ++ (enc l ++ (enc o ++ T)))) n =
      some (n + ((enc a).length + ((enc l).length + (enc o).length)) + commaLen T) := by
  subst hn
  have h1 := decodeVLQ_at A a (enc l ++ (enc o ++ T)) A.length rfl
  have h2 := decodeVLQ_at (A ++ enc a) l (enc o ++ T) (A.length + (enc a).length) (by simp)
  have h3 := decodeVLQ_at (A ++ enc a ++ enc l) o T (A.length + (enc a).length + (enc l).length) (by simp; omega)
  simp only [List.append_assoc] at h2 h3
  obtain ⟨b, tl, hb, _⟩ := enc_cons a
  have hlt : A.length < (A ++ (enc a ++ (enc l ++ (enc o ++ T)))).length := by simp [hb]
  have hget : (A ++ (enc a ++ (enc l ++ (enc o ++ T))))[A.length + (enc a).length + (enc l).length + (enc o).length]?
      = T.head? := by
    have := getElem?_at (A ++ enc a ++ enc l ++ enc o) T
    simpa [List.append_assoc, Nat.add_assoc] using this
  unfold skipRest
  simp only [hlt, ↓reduceIte, h1, h2, h3]
  cases hT with
  | nil =>
    simp [commaLen, Nat.add_assoc]
  | comma tl =>
    have h4 := decodeVLQ_sep (A ++ enc a ++ enc l ++ enc o) 44 tl (.inl rfl)
      (A.length + (enc a).length + (enc l).length + (enc o).length) (by simp; omega)
    simp only [List.append_assoc] at h4
    simp only [List.head?_cons] at hget
    simp [h4, hget, commaLen]
    omega
  | semi tl =>
    have h4 := decodeVLQ_sep (A ++ enc a ++ enc l ++ enc o) 59 tl (.inr rfl)
      (A.length + (enc a).length + (enc l).length + (enc o).length) (by simp; omega)
    simp only [List.append_assoc] at h4
    simp only [List.head?_cons] at hget
    simp [h4, hget, commaLen]
    omega

theorem skipRest_named (A T : Bytes) (a l o nm : Int) (n : Nat) (hn : n = A.length) :
    skipRest (A ++ (enc a ++ (enc l ++ (enc o ++ (enc nm ++ T))))) n =
      some (n + ((enc a).length + ((enc l).length + ((enc o).length + (enc nm).length))) + commaLen T) := by
  subst hn
  have h1 := decodeVLQ_at A a (enc l ++ (enc o ++ (enc nm ++ T))) A.length rfl
  have h2 := decodeVLQ_at (A ++ enc a) l (enc o ++ (enc nm ++ T)) (A.length + (enc a).length) (by simp)
  have h3 := decodeVLQ_at (A ++ enc a ++ enc l) o (enc nm ++ T) (A.length + (enc a).length + (enc l).length)
    (by simp; omega)
  have h4 := decodeVLQ_at (A ++ enc a ++ enc l ++ enc o) nm T
    (A.length + (enc a).length + (enc l).length + (enc o).length) (by simp; omega)
  simp only [List.append_assoc] at h2 h3 h4
  obtain ⟨b, tl, hb, _⟩ := enc_cons a
  obtain ⟨b', tl', hb', _⟩ := enc_cons nm
  have hlt : A.length < (A ++ (enc a ++ (enc l ++ (enc o ++ (enc nm ++ T))))).length := by simp [hb]
  have hlt3 : A.length + (enc a).length + (enc l).length + (enc o).length <
      (A ++ (enc a ++ (enc l ++ (enc o ++ (enc nm ++ T))))).length := by simp [hb']; omega
  have hget : (A ++ (enc a ++ (enc l ++ (enc o ++ (enc nm ++ T)))))[A.length + (enc a).length + (enc l).length +
      (enc o).length + (enc nm).length]? = T.head? := by
    have := getElem?_at (A ++ enc a ++ enc l ++ enc o ++ enc nm) T
    simpa [List.append_assoc, Nat.add_assoc] using this
  unfold skipRest
  simp only [hlt, ↓reduceIte, h1, h2, h3, hlt3, h4, hget]
  unfold commaLen
  split <;> simp [Nat.add_assoc]

theorem tailShape_enc (es : List Ev) (p : State) : TailShape (commaAfter es ++ encT p es) := by
  cases es with
  | nil => exact .nil
  | cons e es =>
    cases e with
    | nl => exact .semi _
    | seg c o => exact .comma _

theorem commaLen_tail (es : List Ev) (p : State) :
    commaLen (commaAfter es ++ encT p es) = (commaAfter es).length := by
  cases es with
  | nil => rfl
  | cons e es => cases e <;> simp [commaLen, commaAfter, startsWithSeg, encT]

/-- after the generated column of a segment, `Finalize` skips exactly the rest of the segment and the comma -/
theorem skipRest_seg (A : Bytes) (p p' : State) (o : Option Orig) (es : List Ev) (n : Nat) (hn : n = A.length) :
    skipRest (A ++ (restFields p o ++ (commaAfter es ++ encT p' es))) n =
      some (n + (restFields p o).length + (commaAfter es).length) := by
  have hT := tailShape_enc es p'
  rw [← commaLen_tail es p']
  cases o with
  | none => simpa [restFields] using skipRest_none A _ hT n hn
  | some o =>
    obtain ⟨a, ln, cl, nm⟩ := o
    cases nm with
    | none =>
      have := skipRest_src A _ hT (a - p.srcIdx) (ln - p.origLine) (cl - p.origCol) n hn
      simpa [restFields, List.append_assoc] using this
    | some nm =>
      have := skipRest_named A (commaAfter es ++ encT p' es) (a - p.srcIdx) (ln - p.origLine) (cl - p.origCol)
        (nm - p.origName) n hn
      simpa [restFields, List.append_assoc] using this

end EsbuildModel.SmJoin
