/-
Scoping of the `__super` symbols, continued: the statement loop of insertStmtsAfterSuperCall, processProperties and
lowerClass keep every piece at the level it came from.
-/
import EsbuildModel.Lemmas.TsClassScope
namespace EsbuildModel.TsClass

def OkTry (S : Option Nat) : Try → Prop
  | .accept b a af => OkOpt S b ∧ OkE S a ∧ (match af with | none => True | some s => OkS S s)
  | .reject s => OkS S s
  | .skip => True

theorem tryStmt_ok (S : Option Nat) (i : Nat) (st : Stmt) (h : OkS S st) : OkTry S (tryStmt i st) := by
  cases st with
  | expr e =>
    simp only [tryStmt]
    cases hf : findFirst i e with
    | none => trivial
    | some res =>
      obtain ⟨b, a, af, e'⟩ := res
      obtain ⟨h1, h2, h3, _⟩ := findFirst_ok S i e (by simpa only [OkS] using h) _ _ _ _ hf
      cases af <;> simp_all [OkTry, OkOpt, OkS]
  | retVal e =>
    simp only [tryStmt]
    cases hf : findFirst i e with
    | none => trivial
    | some res =>
      obtain ⟨b, a, af, e'⟩ := res
      obtain ⟨h1, h2, h3, h4⟩ := findFirst_ok S i e (by simpa only [OkS] using h) _ _ _ _ hf
      cases af <;> simp_all [OkTry, OkOpt, OkS]
  | throw_ e =>
    simp only [tryStmt]
    cases hf : findFirst i e with
    | none => trivial
    | some res =>
      obtain ⟨b, a, af, e'⟩ := res
      obtain ⟨h1, h2, h3, h4⟩ := findFirst_ok S i e (by simpa only [OkS] using h) _ _ _ _ hf
      cases af <;> simp_all [OkTry, OkOpt, OkS]
  | ifS c t f =>
    simp only [tryStmt]
    simp only [OkS] at h
    cases hf : findFirst i c with
    | none => trivial
    | some res =>
      obtain ⟨b, a, af, e'⟩ := res
      obtain ⟨h1, h2, h3, h4⟩ := findFirst_ok S i c h.1 _ _ _ _ hf
      cases af <;> simp_all [OkTry, OkOpt, OkS]
  | retVoid => trivial
  | shimDecl _ _ => trivial

theorem optStmt_ok (S : Option Nat) (o : Option Stmt) (r : Stmts) (ho : match o with | none => True | some s => OkS S s)
    (hr : OkSs S r) : OkSs S (optStmt o r) := by
  cases o with
  | none => simpa [optStmt] using hr
  | some s => simpa [optStmt, OkSs] using ⟨ho, hr⟩

theorem scan_ok (S : Option Nat) (i : Nat) (ins : Stmts) (hi : OkSs S ins) : ∀ body : Stmts, OkSs S body →
    (∀ out, (scan i ins body).1 = some out → OkSs S out) ∧ OkSs S (scan i ins body).2
  | .nil, _ => by simp [scan, OkSs]
  | .cons st r, h => by
    simp only [OkSs] at h
    have ht := tryStmt_ok S i st h.1
    have ih := scan_ok S i ins hi r h.2
    simp only [scan]
    cases hts : tryStmt i st with
    | accept b a af =>
      rw [hts] at ht
      simp only [OkTry] at ht
      refine ⟨fun out ho => ?_, by simpa only [OkSs] using h⟩
      simp only [Option.some.injEq] at ho
      subst ho
      apply optStmt_ok
      · cases b <;> simp_all [OkOpt, OkS]
      · simp only [OkSs, OkS, OkE]
        exact ⟨ht.2.1, OkSs_append S _ _ hi (optStmt_ok S af r ht.2.2 h.2)⟩
    | reject st' =>
      rw [hts] at ht
      simp only [OkTry] at ht
      refine ⟨fun out ho => ?_, by simpa only [OkSs] using ⟨ht, ih.2⟩⟩
      cases hs : (scan i ins r).1 with
      | none => simp [hs] at ho
      | some o' =>
        simp only [hs, Option.map_some, Option.some.injEq] at ho
        subst ho
        simpa only [OkSs] using ⟨ht, ih.1 o' hs⟩
    | skip =>
      refine ⟨fun out ho => ?_, by simpa only [OkSs] using ⟨h.1, ih.2⟩⟩
      cases hs : (scan i ins r).1 with
      | none => simp [hs] at ho
      | some o' =>
        simp only [hs, Option.map_some, Option.some.injEq] at ho
        subst ho
        simpa only [OkSs] using ⟨h.1, ih.1 o' hs⟩

theorem insertAfterSuper_ok (S : Option Nat) (body ins : Stmts) (myId : Option Nat) (uses : Nat)
    (hb : OkSs S body) (hi : OkSs S ins) (hm : myId = none ∨ myId = S) :
    OkSs S (insertAfterSuper body ins myId uses) := by
  unfold insertAfterSuper
  cases myId with
  | none => exact OkSs_append S _ _ hi hb
  | some i =>
    have hS : some i = S := by cases hm with
      | inl h => cases h
      | inr h => exact h
    simp only
    split
    · exact OkSs_append S _ _ hi hb
    · split
      · have hsc := scan_ok S i ins hi body hb
        split
        · rename_i out _ heq
          exact hsc.1 out (by rw [heq])
        · rename_i body' heq
          have : (scan i ins body).2 = body' := by rw [heq]
          simpa only [OkSs, OkS] using ⟨⟨hS, hi⟩, this ▸ hsc.2⟩
      · simpa only [OkSs, OkS] using ⟨⟨hS, hi⟩, hb⟩

theorem ppStmts_ok (S : Option Nat) (o : Mode) : ∀ (ps : Params) (i : Nat), OkSs S (ppStmts o ps i)
  | .nil, _ => by simp [ppStmts, OkSs]
  | .cons isProp _ _ r, i => by
    have ih := ppStmts_ok S o r (i + 1)
    simp only [ppStmts]
    split
    · split <;> split <;> simp_all [OkSs, OkS, OkE]
    · exact ih

theorem ppFields_ok (S : Option Nat) (o : Mode) : ∀ (ps : Params) (i : Nat) (tl : Members), OkMs S tl → OkMs S (ppFields o ps i tl)
  | .nil, _, _, h => by simpa [ppFields] using h
  | .cons isProp _ _ r, i, tl, h => by
    have ih := ppFields_ok S o r (i + 1) tl h
    simp only [ppFields]
    split
    · simpa only [OkMs, OkE, true_and] using ih
    · exact ih

theorem strip_ok (S : Option Nat) : ∀ ps : Params, OkPs S ps → OkPs S ps.strip
  | .nil, _ => by simp [Params.strip, OkPs]
  | .cons _ _ _ r, h => by
    simp only [OkPs] at h
    simpa only [Params.strip, OkPs] using ⟨h.1, strip_ok S r h.2⟩

theorem processMembers_ok (S : Option Nat) (o : Mode) (info : Info) : ∀ ms : Members, OkMs S ms →
    OkMs S (processMembers o info ms).kept ∧ OkSs S (processMembers o info ms).inst ∧ OkAs S (processMembers o info ms).afters
  | .nil, _ => by simp [processMembers, OkMs, OkSs, OkAs]
  | .field x hasInit init declare r, h => by
    simp only [OkMs] at h
    obtain ⟨i1, i2, i3⟩ := processMembers_ok S o info r h.2
    simp only [processMembers]
    split
    · split
      · exact ⟨i1, i2, i3⟩
      · split
        · exact ⟨i1, by simpa only [OkSs, OkS, OkE] using ⟨h.1, i2⟩, i3⟩
        · exact ⟨i1, by simpa only [OkSs, OkS, OkE] using ⟨h.1, i2⟩, i3⟩
    · exact ⟨by simpa only [OkMs] using ⟨h.1, i1⟩, i2, i3⟩
  | .sfield x hasInit init r, h => by
    simp only [OkMs] at h
    obtain ⟨i1, i2, i3⟩ := processMembers_ok S o info r h.2
    simp only [processMembers]
    split
    · split
      · exact ⟨i1, i2, i3⟩
      · split
        · exact ⟨i1, i2, by simpa only [OkAs] using ⟨h.1, i3⟩⟩
        · exact ⟨i1, i2, by simpa only [OkAs] using ⟨h.1, i3⟩⟩
    · split
      · split
        · exact ⟨i1, i2, i3⟩
        · exact ⟨by simpa only [OkMs] using ⟨h.1, i1⟩, i2, i3⟩
      · exact ⟨by simpa only [OkMs] using ⟨h.1, i1⟩, i2, i3⟩
  | .sblock e r, h => by
    simp only [OkMs] at h
    obtain ⟨i1, i2, i3⟩ := processMembers_ok S o info r h.2
    simp only [processMembers]
    split
    · exact ⟨i1, i2, by simpa only [OkAs] using ⟨h.1, i3⟩⟩
    · exact ⟨by simpa only [OkMs] using ⟨h.1, i1⟩, i2, i3⟩
  | .sassign x e r, h => by
    simp only [OkMs] at h
    obtain ⟨i1, i2, i3⟩ := processMembers_ok S o info r h.2
    simp only [processMembers]
    split
    · exact ⟨i1, i2, by simpa only [OkAs] using ⟨h.1, i3⟩⟩
    · exact ⟨by simpa only [OkMs] using ⟨h.1, i1⟩, i2, i3⟩

end EsbuildModel.TsClass
