import EsbuildModel.Impl.ToInt32
namespace EsbuildModel.ToInt32
open F64

theorem wrap32_eq (x : Int) : wrap32 x = (let r := x % 4294967296; if r ≥ 2147483648 then r - 4294967296 else r) := by
  unfold wrap32; simp only; split <;> omega

theorem impl_eq_spec (g : Int) (f : F64) : impl g f = spec f := by
  cases f with
  | nan => rfl
  | inf n => rfl
  | fin neg m e =>
    simp only [impl, spec]
    have hmod : (if e ≥ 0 then (m * 2 ^ e.toNat) % 4294967296
        else (m % (2 ^ (-e).toNat * 4294967296)) / 2 ^ (-e).toNat) = truncAbs m e % 4294967296 := by
      unfold truncAbs
      split
      · rfl
      · exact Nat.mod_mul_right_div_self _ _ _
    rw [hmod]
    generalize truncAbs m e = t
    generalize isIntegral m e = isI
    simp only [wrap32_eq]
    cases neg <;> cases isI <;> simp <;> (repeat' split) <;> omega

theorem implU_eq_specU (g : Int) (f : F64) : implU g f = specU f := by
  unfold implU; rw [impl_eq_spec]
  cases f with
  | nan => rfl
  | inf n => rfl
  | fin neg m e =>
    simp only [spec, specU]
    split <;> omega
end EsbuildModel.ToInt32
