import EsbuildModel.Lemmas.OutPathsRel
/-
`rel` on two absolute paths: `..` once per name of the base below the common ancestor, then the names of
the target below it.
-/
namespace EsbuildModel.OutPaths
open EsbuildModel.Spec.OutPath

theorem joinSlash_append {A B : List Str} (hA : A ≠ []) (hB : B ≠ []) :
    joinSlash (A ++ B) = joinSlash A ++ '/' :: joinSlash B := by
  induction A with
  | nil => exact absurd rfl hA
  | cons a A ih =>
    cases A with
    | nil =>
      rw [joinSlash_singleton]
      exact joinSlash_cons_of_ne hB a
    | cons a' A =>
      rw [List.cons_append, joinSlash_cons_of_ne (by simp), ih (by simp), joinSlash_cons_cons]
      simp

theorem count_slash_joinSlash {X : List Str} (hX : ∀ x ∈ X, '/' ∉ x) :
    (joinSlash X).count '/' = X.length - 1 := by
  induction X with
  | nil => simp [joinSlash_nil]
  | cons x X ih =>
    have hx : x.count '/' = 0 := List.count_eq_zero.mpr (hX x (by simp))
    cases X with
    | nil => simp [joinSlash_singleton, hx]
    | cons y X =>
      rw [joinSlash_cons_cons, List.count_append, List.count_cons_self, hx,
        ih (fun z hz => hX z (by simp [hz]))]
      simp

def dd : Str := ['.', '.']

theorem ups_eq (n : Nat) :
    dd ++ (List.replicate n ['/', '.', '.']).flatten = joinSlash (List.replicate (n + 1) dd) := by
  induction n with
  | zero => simp [joinSlash_singleton]
  | succ n ih =>
    rw [List.replicate_succ (n := n + 1), joinSlash_cons_of_ne (by simp), ← ih]
    simp [dd, List.replicate_succ]

/-- the names of the relative path from `B` to `T` -/
def upDown (B T : List Str) : List Str :=
  List.replicate (stripCommon B T).1.length dd ++ (stripCommon B T).2

theorem render_injective {P Q : AbsPath} (hP : ∀ x ∈ P, ValidName x) (hQ : ∀ x ∈ Q, ValidName x)
    (h : render P = render Q) : P = Q := by
  rw [← denote_render hP, ← denote_render hQ, h]

theorem stripCommon_mem {B T : List Str} :
    (∀ x ∈ (stripCommon B T).1, x ∈ B) ∧ (∀ x ∈ (stripCommon B T).2, x ∈ T) := by
  obtain ⟨C, h1, h2⟩ := stripCommon_eq B T
  constructor
  · intro x hx; rw [h1]; simp [hx]
  · intro x hx; rw [h2]; simp [hx]

theorem relLoop_rooted (B T : List Str) :
    relLoop ('/' :: joinSlash B) ('/' :: joinSlash T) = relLoop (joinSlash B) (joinSlash T) := by
  rw [relLoop]
  have h1 := tw_slash (joinSlash B)
  have h2 := tw_slash (joinSlash T)
  simp only [h1.1, h2.1, h1.2, h2.2]
  simp

/-- `rel` of two absolute paths -/
theorem rel_abs {b t : Str} (hb : isAbs b = true) (ht : isAbs t = true) :
    rel b t = if denote t = denote b then .ok ['.'] else .ok (joinSlash (upDown (denote b) (denote t))) := by
  have hB := denote_valid b
  have hT := denote_valid t
  unfold rel
  simp only [clean_abs hb, clean_abs ht]
  by_cases heq : denote t = denote b
  · simp [heq]
  · have hne : render (denote t) ≠ render (denote b) := fun e => heq (render_injective hT hB e)
    simp only [hne, heq, if_false]
    have hnd : render (denote b) ≠ ['.'] := by rw [render_eq]; simp
    simp only [hnd, if_false]
    have ha1 : isAbs (render (denote b)) = true := by rw [render_eq]; rfl
    have ha2 : isAbs (render (denote t)) = true := by rw [render_eq]; rfl
    simp only [ha1, ha2, ne_eq, not_true_eq_false, if_false]
    rw [render_eq, render_eq, relLoop_rooted,
      relLoop_join _ _ (fun x hx => ValidName.elem (hB x hx)) (fun x hx => ValidName.elem (hT x hx))]
    have hsc : stripCommon (denote b) (denote t) ≠ ([], []) := fun e => heq (stripCommon_nil_nil e).symm
    simp only [hsc, if_false]
    have hm := @stripCommon_mem (denote b) (denote t)
    generalize hBT : stripCommon (denote b) (denote t) = BT at hsc hm
    obtain ⟨B', T'⟩ := BT
    simp only at hm ⊢
    have hB' : ∀ x ∈ B', ValidName x := fun x hx => hB x (hm.1 x hx)
    have hT' : ∀ x ∈ T', ValidName x := fun x hx => hT x (hm.2 x hx)
    have hhead : (B'.head?).getD [] ≠ ['.', '.'] := by
      cases B' with
      | nil => simp
      | cons x _ => simpa using (hB' x (by simp)).2.2.2
    simp only [hhead, if_false]
    have hjB : joinSlash B' = [] ↔ B' = [] := joinSlash_eq_nil (fun x hx => ValidName.elem (hB' x hx))
    have hjT : joinSlash T' = [] ↔ T' = [] := joinSlash_eq_nil (fun x hx => ValidName.elem (hT' x hx))
    unfold upDown
    rw [hBT]
    simp only
    cases B' with
    | nil =>
      simp [joinSlash_nil]
    | cons x B'' =>
      have hne' : joinSlash (x :: B'') ≠ [] := fun e => by simpa using hjB.mp e
      simp only [ne_eq, hne', not_false_eq_true, if_true]
      rw [count_slash_joinSlash (fun z hz => (hB' z hz).2.1)]
      simp only [List.length_cons, Nat.add_sub_cancel]
      have hu := ups_eq B''.length
      simp only [dd] at hu
      rw [hu]
      cases T' with
      | nil => simp [joinSlash_nil, dd]
      | cons y T'' =>
        have hne2 : joinSlash (y :: T'') ≠ [] := fun e => by simpa using hjT.mp e
        simp only [ne_eq, hne2, not_false_eq_true, if_true]
        rw [joinSlash_append (by simp) (by simp)]
        rfl

end EsbuildModel.OutPaths
