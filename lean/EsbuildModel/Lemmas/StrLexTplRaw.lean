import EsbuildModel.Lemmas.StrLexTplApi
/-! Templates: CR/CRLF normalisation of the raw text, seen on derivations. -/
namespace EsbuildModel.StrLex
open EsbuildModel.Spec.StrLit
open EsbuildModel.Spec.JsString (hexVal? utf16)

def normLTS : LTS → LTS
  | .cr => .lf
  | .crlf => .lf
  | l => l

/-- the derivation of the normalised text: every <CR> / <CR><LF> LineTerminatorSequence replaced by <LF> -/
def normChar : TplChar → TplChar
  | .cont l => .cont (normLTS l)
  | .lineTerm l => .lineTerm (normLTS l)
  | x => x

theorem normalizeCR_cons_ne (c : Nat) (r : List Nat) (h : c ≠ 13) : normalizeCR (c :: r) = c :: normalizeCR r := by
  rw [normalizeCR.eq_def]; simp [h]

theorem normalizeCR_crlf (r : List Nat) : normalizeCR (13 :: 10 :: r) = 10 :: normalizeCR r := by
  rw [normalizeCR.eq_def]; simp

theorem normalizeCR_cr (r : List Nat) (h : r.head? ≠ some 10) : normalizeCR (13 :: r) = 10 :: normalizeCR r := by
  cases r with
  | nil => rw [normalizeCR.eq_def]; simp [normalizeCR]
  | cons a r' =>
    have : a ≠ 10 := by simpa using h
    rw [normalizeCR.eq_def]; simp [this]

theorem normalizeCR_append (xs rest : List Nat) (h : ∀ c ∈ xs, c ≠ 13) : normalizeCR (xs ++ rest) = xs ++ normalizeCR rest := by
  induction xs with
  | nil => rfl
  | cons c r ih =>
    rw [List.cons_append, normalizeCR_cons_ne _ _ (h c (by simp)), ih (fun x hx => h x (by simp [hx]))]; rfl

theorem normalizeCR_id (xs : List Nat) (h : ∀ c ∈ xs, c ≠ 13) : normalizeCR xs = xs := by
  have := normalizeCR_append xs [] h
  simpa [normalizeCR] using this

theorem inert_ne_13 {c : Nat} (h : Inert c) : c ≠ 13 := h.2.1

theorem normalizeCR_item (x : TplChar) (rest : List Nat) (hok : x.ok rest.head? = true) :
    normalizeCR (x.render ++ rest) = (normChar x).render ++ normalizeCR rest := by
  cases x with
  | dollar => exact normalizeCR_append [36] rest (by simp)
  | esc e =>
    simp only [TplChar.ok, Bool.and_eq_true] at hok
    obtain ⟨c2, xs, hr, hc2, hin⟩ := CEsc.shape hok.1
    apply normalizeCR_append
    intro c hc
    simp only [TplChar.render, hr, List.mem_cons] at hc
    rcases hc with rfl | rfl | hc
    · omega
    · exact hc2
    · exact inert_ne_13 (hin c hc)
  | notEsc n =>
    simp only [TplChar.ok, Bool.and_eq_true] at hok
    obtain ⟨c2, xs, hr, hc2, hin⟩ := NotEsc.shape hok.1
    apply normalizeCR_append
    intro c hc
    simp only [TplChar.render, hr, List.mem_cons] at hc
    rcases hc with rfl | rfl | hc
    · omega
    · exact hc2
    · exact inert_ne_13 (hin c hc)
  | cont l =>
    cases l with
    | lf => exact normalizeCR_append [92, 10] rest (by simp)
    | ls => exact normalizeCR_append [92, 8232] rest (by simp)
    | ps => exact normalizeCR_append [92, 8233] rest (by simp)
    | crlf =>
      show normalizeCR (92 :: 13 :: 10 :: rest) = 92 :: 10 :: normalizeCR rest
      rw [normalizeCR_cons_ne _ _ (by omega), normalizeCR_crlf]
    | cr =>
      show normalizeCR (92 :: 13 :: rest) = 92 :: 10 :: normalizeCR rest
      have : rest.head? ≠ some 10 := by
        cases rest with
        | nil => simp
        | cons a r => simpa [TplChar.ok, LTS.look, lookNot] using hok
      rw [normalizeCR_cons_ne _ _ (by omega), normalizeCR_cr _ this]
  | lineTerm l =>
    cases l with
    | lf => exact normalizeCR_append [10] rest (by simp)
    | ls => exact normalizeCR_append [8232] rest (by simp)
    | ps => exact normalizeCR_append [8233] rest (by simp)
    | crlf => exact normalizeCR_crlf rest
    | cr =>
      have : rest.head? ≠ some 10 := by
        cases rest with
        | nil => simp
        | cons a r => simpa [TplChar.ok, LTS.look, lookNot] using hok
      exact normalizeCR_cr _ this
  | plain c =>
    simp only [TplChar.ok, Bool.and_eq_true, bne_iff_ne, ne_eq, Bool.not_eq_true', isLineTerminator, Bool.or_eq_false_iff,
      decide_eq_false_iff_not] at hok
    exact normalizeCR_append [c] rest (by simp; exact hok.2.1.1.2)

theorem normalizeCR_tpl (close : List Nat) (q0 : Nat) (hc : close.head? = some q0) (h0 : q0 = 96 ∨ q0 = 36)
    (ds : List TplChar) (hok : tplOK close ds = true) : normalizeCR (renderTpl ds) = renderTpl (ds.map normChar) := by
  induction ds with
  | nil => rfl
  | cons x xs ih =>
    simp only [tplOK, Bool.and_eq_true] at hok
    rw [TplChar.ok_local x _ close q0 hc h0] at hok
    simp only [renderTpl, List.map_cons]
    rw [normalizeCR_item x _ hok.1, ih hok.2]

/-- the next character after normalisation -/
def n13 : Option Nat → Option Nat
  | some 13 => some 10
  | o => o

theorem normChar_ok (x : TplChar) (nx : Option Nat) (h : x.ok nx = true) : (normChar x).ok (n13 nx) = true := by
  have hn : ∀ p : Nat → Bool, p 13 = p 10 → lookNot p (n13 nx) = lookNot p nx := by
    intro p hp
    unfold n13
    split
    · simp [lookNot, hp]
    · rfl
  cases x with
  | dollar => simpa [normChar, TplChar.ok, hn (fun x => decide (x = 123)) (by decide)] using h
  | esc e => cases e <;> simpa [normChar, TplChar.ok, CEsc.look, hn isDecimalDigit (by decide)] using h
  | notEsc n =>
    cases n <;> simp only [normChar, TplChar.ok, NotEsc.look, hn isHexDigit (by decide),
      hn (fun x => decide (x = 123)) (by decide), hn (fun x => decide (x = 125)) (by decide)] at h ⊢ <;> exact h
  | cont l => cases l <;> simp [normChar, normLTS, TplChar.ok, LTS.look]
  | lineTerm l => cases l <;> simp [normChar, normLTS, TplChar.ok, LTS.look]
  | plain c => simpa [normChar, TplChar.ok] using h

theorem head_normChar (x : TplChar) (nx : Option Nat) (h : x.ok nx = true) :
    (normChar x).render.head? = n13 x.render.head? := by
  cases x with
  | dollar => rfl
  | esc e => rfl
  | notEsc n => rfl
  | cont l => rfl
  | lineTerm l => cases l <;> rfl
  | plain c =>
    simp only [TplChar.ok, Bool.and_eq_true, bne_iff_ne, ne_eq, Bool.not_eq_true', isLineTerminator, Bool.or_eq_false_iff,
      decide_eq_false_iff_not] at h
    have : c ≠ 13 := h.2.1.1.2
    simp [normChar, TplChar.render, n13]
    split
    · rename_i heq; simp at heq; exact absurd heq this
    · rfl

theorem TplChar.render_ne_nil (x : TplChar) : x.render ≠ [] := by
  cases x with
  | lineTerm l => cases l <;> simp [TplChar.render, LTS.render]
  | _ => simp [TplChar.render]

theorem head?_append_ne_nil {l l' : List Nat} (h : l ≠ []) : (l ++ l').head? = l.head? := by
  cases l with
  | nil => exact absurd rfl h
  | cons a r => rfl

theorem head_norm_tpl (close : List Nat) (hc13 : close.head? ≠ some 13) (ds : List TplChar) (hok : tplOK close ds = true) :
    (renderTpl (ds.map normChar) ++ close).head? = n13 (renderTpl ds ++ close).head? := by
  cases ds with
  | nil =>
    simp only [List.map_nil, renderTpl, List.nil_append]
    unfold n13
    split
    · rename_i heq; exact absurd heq hc13
    · rfl
  | cons x xs =>
    simp only [tplOK, Bool.and_eq_true] at hok
    simp only [List.map_cons, renderTpl, List.append_assoc]
    have h1 := TplChar.render_ne_nil x
    have h2 := TplChar.render_ne_nil (normChar x)
    rw [head?_append_ne_nil h2, head?_append_ne_nil h1]
    exact head_normChar x _ hok.1

theorem norm_tpl_ok (close : List Nat) (hc13 : close.head? ≠ some 13) (ds : List TplChar) (hok : tplOK close ds = true) :
    tplOK close (ds.map normChar) = true := by
  induction ds with
  | nil => rfl
  | cons x xs ih =>
    have hok' := hok
    simp only [tplOK, Bool.and_eq_true] at hok'
    simp only [List.map_cons, tplOK, Bool.and_eq_true]
    refine ⟨?_, ih hok'.2⟩
    rw [head_norm_tpl close hc13 xs hok'.2]
    exact normChar_ok x _ hok'.1

theorem norm_tpl_tv (ds : List TplChar) : tvChars (ds.map normChar) = tvChars ds := by
  induction ds with
  | nil => rfl
  | cons x xs ih =>
    have : (normChar x).tv = x.tv := by
      cases x with
      | lineTerm l => cases l <;> rfl
      | _ => rfl
    simp only [List.map_cons, tvChars, this, ih]

theorem norm_tpl_trv (ds : List TplChar) : (renderTpl (ds.map normChar)).flatMap utf16 = trvChars ds := by
  induction ds with
  | nil => rfl
  | cons x xs ih =>
    have : (normChar x).render.flatMap utf16 = x.trv := by
      cases x with
      | lineTerm l => cases l <;> simp [normChar, normLTS, TplChar.render, TplChar.trv, LTS.render, LTS.trv, utf16]
      | cont l => cases l <;> simp [normChar, normLTS, TplChar.render, TplChar.trv, LTS.render, LTS.trv, utf16]
      | dollar => simp [normChar, TplChar.render, TplChar.trv, utf16]
      | esc e => simp [normChar, TplChar.render, TplChar.trv, utf16]
      | notEsc n => simp [normChar, TplChar.render, TplChar.trv, utf16]
      | plain c => simp [normChar, TplChar.render, TplChar.trv]
    simp only [List.map_cons, renderTpl, List.flatMap_append, this, ih, trvChars]

/-! ### `reportErrors = false` never reports "out of range" -/

theorem hex2_not_range (r : List Nat) (len : Nat) : hex2 r ≠ .range len := by
  unfold hex2
  repeat' split
  all_goals simp

theorem hex4_not_range (r : List Nat) (len : Nat) : hex4 r ≠ .range len := by
  unfold hex4
  repeat' split
  all_goals simp

theorem octal_not_range (d : Nat) (r : List Nat) (len : Nat) : octal d r ≠ .range len := by
  obtain ⟨u, k, lg, h, _⟩ := octal_emits d r
  rw [h]; simp

theorem unicode_range {rep : Bool} {r : List Nat} {len : Nat} (h : unicode rep r = .range len) : rep = true := by
  unfold unicode at h
  split at h
  · split at h
    · cases h
    · split at h
      · split at h
        · assumption
        · cases h
      · cases h
  · exact absurd h (hex4_not_range r len)

theorem legacyGate_not_range (rep : Bool) (s : Step) (len : Nat) (h : s ≠ .range len) : legacyGate rep s ≠ .range len := by
  cases s with
  | emit u k lg => cases lg <;> cases rep <;> simp [legacyGate]
  | fail o => simp [legacyGate]
  | range n => simpa [legacyGate] using h

theorem escape_range {rep : Bool} {t : List Nat} {len : Nat} (h : escape rep t = .range len) : rep = true := by
  cases t with
  | nil => simp [escape] at h
  | cons c2 r =>
    by_cases h117 : c2 = 117
    · subst h117
      have : escape rep (117 :: r) = unicode rep r := by simp [escape, isOct]
      rw [this] at h
      exact unicode_range h
    · exfalso
      by_cases hs : (singleEscape? c2).isSome = true
      · rw [escape_single rep c2 r hs] at h; cases h
      have n98 : c2 ≠ 98 := by rintro rfl; exact hs (by decide)
      have n102 : c2 ≠ 102 := by rintro rfl; exact hs (by decide)
      have n110 : c2 ≠ 110 := by rintro rfl; exact hs (by decide)
      have n114 : c2 ≠ 114 := by rintro rfl; exact hs (by decide)
      have n116 : c2 ≠ 116 := by rintro rfl; exact hs (by decide)
      have n118 : c2 ≠ 118 := by rintro rfl; exact hs (by decide)
      by_cases ho : isOct c2 = true
      · have : escape rep (c2 :: r) = legacyGate rep (octal (c2 - 48) r) := by
          simp [escape, n98, n102, n110, n114, n116, n118, ho]
        rw [this] at h; exact legacyGate_not_range _ _ _ (octal_not_range _ _ _) h
      by_cases h89 : c2 = 56 ∨ c2 = 57
      · cases rep with
        | true => rw [escape_nonOctal c2 r h89] at h; cases h
        | false => rw [escape_nonOctal_false c2 r h89] at h; cases h
      by_cases h120 : c2 = 120
      · subst h120
        have : escape rep (120 :: r) = hex2 r := by simp [escape, isOct]
        rw [this] at h; exact hex2_not_range _ _ h
      simp only [escape, n98, n102, n110, n114, n116, n118, ho, h89, h120, h117, if_false, Bool.false_eq_true] at h
      repeat' split at h
      all_goals cases h

theorem step_range {rep : Bool} {c : Nat} {t : List Nat} {len : Nat} (h : step rep c t = .range len) : rep = true := by
  unfold step at h
  split at h
  · split at h <;> cases h
  · split at h
    · exact escape_range h
    · cases h

theorem decode_false_no_range (text : List Nat) (skip i p n : Nat) : decodeLoop false text skip i ≠ .range p n := by
  induction text generalizing skip i p n with
  | nil => simp [decodeLoop]
  | cons c t ih =>
    cases skip with
    | succ k => simp only [decodeLoop]; exact ih k (i + 1) p n
    | zero =>
      simp only [decodeLoop]
      cases hs : step false c t with
      | emit units used lg =>
        simp only
        intro hh
        cases hd : decodeLoop false t (used - 1) (i + 1) with
        | ok a b => rw [hd] at hh; cases hh
        | fail a b => rw [hd] at hh; cases hh
        | range a b => exact ih _ _ _ _ hd
      | fail off => simp
      | range len => have := step_range hs; cases this


/-! ### `reportErrors = false` never touches LegacyOctalLoc -/

theorem hex2_lg {r u k lg} (h : hex2 r = .emit u k lg) : lg = false := by
  unfold hex2 at h
  repeat' split at h
  all_goals first | (cases h; done) | (cases h; rfl)

theorem hex4_lg {r u k lg} (h : hex4 r = .emit u k lg) : lg = false := by
  unfold hex4 at h
  repeat' split at h
  all_goals first | (cases h; done) | (cases h; rfl)

theorem unicode_false_lg {r u k lg} (h : unicode false r = .emit u k lg) : lg = false := by
  unfold unicode at h
  split at h
  · split at h
    · cases h
    · split at h
      · simp at h
      · simp only [Step.emit.injEq] at h; exact h.2.2.symm
  · exact hex4_lg h

theorem legacyGate_false_lg {s : Step} {u k lg} (h : legacyGate false s = .emit u k lg) : lg = false := by
  cases s with
  | emit u' k' lg' =>
    cases lg' with
    | true => simp [legacyGate] at h
    | false => simp only [legacyGate, Step.emit.injEq] at h; exact h.2.2.symm
  | fail o => cases h
  | range n => cases h

theorem escape_false_lg {t : List Nat} {u : List Nat} {k : Nat} {lg : Bool} (h : escape false t = .emit u k lg) : lg = false := by
  cases t with
  | nil => simp only [escape, Step.emit.injEq] at h; exact h.2.2.symm
  | cons c2 r =>
    by_cases hs : (singleEscape? c2).isSome = true
    · rw [escape_single false c2 r hs] at h; simp only [Step.emit.injEq] at h; exact h.2.2.symm
    have n98 : c2 ≠ 98 := by rintro rfl; exact hs (by decide)
    have n102 : c2 ≠ 102 := by rintro rfl; exact hs (by decide)
    have n110 : c2 ≠ 110 := by rintro rfl; exact hs (by decide)
    have n114 : c2 ≠ 114 := by rintro rfl; exact hs (by decide)
    have n116 : c2 ≠ 116 := by rintro rfl; exact hs (by decide)
    have n118 : c2 ≠ 118 := by rintro rfl; exact hs (by decide)
    by_cases ho : isOct c2 = true
    · have : escape false (c2 :: r) = legacyGate false (octal (c2 - 48) r) := by
        simp [escape, n98, n102, n110, n114, n116, n118, ho]
      rw [this] at h; exact legacyGate_false_lg h
    by_cases h89 : c2 = 56 ∨ c2 = 57
    · rw [escape_nonOctal_false c2 r h89] at h; cases h
    by_cases h120 : c2 = 120
    · subst h120
      have : escape false (120 :: r) = hex2 r := by simp [escape, isOct]
      rw [this] at h; exact hex2_lg h
    by_cases h117 : c2 = 117
    · subst h117
      have : escape false (117 :: r) = unicode false r := by simp [escape, isOct]
      rw [this] at h; exact unicode_false_lg h
    simp only [escape, n98, n102, n110, n114, n116, n118, ho, h89, h120, h117, if_false, Bool.false_eq_true] at h
    repeat' split at h
    all_goals (simp only [Step.emit.injEq] at h; exact h.2.2.symm)

theorem step_false_lg {c : Nat} {t u : List Nat} {k : Nat} {lg : Bool} (h : step false c t = .emit u k lg) : lg = false := by
  unfold step at h
  split at h
  · split at h <;> (simp only [Step.emit.injEq] at h; exact h.2.2.symm)
  · split at h
    · exact escape_false_lg h
    · simp only [Step.emit.injEq] at h; exact h.2.2.symm

/-- the value a decoding leaves in LegacyOctalLoc -/
def Dec.leg : Dec → Option Nat
  | .ok _ l => l
  | .fail _ l => l
  | .range _ _ => none

theorem decode_false_leg (text : List Nat) (skip i : Nat) : (decodeLoop false text skip i).leg = none := by
  induction text generalizing skip i with
  | nil => simp [decodeLoop, Dec.leg]
  | cons c t ih =>
    cases skip with
    | succ k => simp only [decodeLoop]; exact ih k (i + 1)
    | zero =>
      simp only [decodeLoop]
      cases hs : step false c t with
      | emit units used lg =>
        have := step_false_lg hs
        subst this
        have hrec := ih (used - 1) (i + 1)
        cases hd : decodeLoop false t (used - 1) (i + 1) with
        | ok a b => rw [hd] at hrec; simp [Dec.leg] at hrec; simp [hd, Dec.prepend, Dec.leg, hrec]
        | fail a b => rw [hd] at hrec; simp [Dec.leg] at hrec; simp [hd, Dec.prepend, Dec.leg, hrec]
        | range a b => simp [hd, Dec.prepend, Dec.leg]
      | fail off => simp [Dec.leg]
      | range len => simp [Dec.leg]

/-! ### the two entry points on a rendered derivation -/

theorem contains_13_normalize (body : List Nat) : (if body.contains 13 then normalizeCR body else body) = normalizeCR body := by
  split
  · rfl
  · rename_i h
    symm
    apply normalizeCR_id
    intro c hc h13
    subst h13
    exact h (List.contains_iff_mem.2 hc) 

theorem tplTok_len (d : TplTok) :
    (Tok.mk (kindOf d.kind) (renderTpl d.chars) d.kind.closing.length (slowBody (renderTpl d.chars))).len = d.render.length := by
  simp only [Tok.len, TplTok.render, List.length_append]
  cases d.kind <;> simp [TplKind.opening] <;> omega

/-- `CookedAndRawTemplateContents` on any valid template token -/
theorem lexRaw_tpl (d : TplTok) (rest : List Nat) (hv : d.valid = true) :
    lexRaw (rescanOf d.kind) (d.render ++ rest)
      = .tok (kindOf d.kind) d.render.length d.tv (renderTpl (d.chars.map normChar)) none := by
  obtain ⟨q0, hc, h0⟩ := closing_head_tpl d.kind
  have hc13 : d.kind.closing.head? ≠ some 13 := by rw [hc]; rcases h0 with rfl | rfl <;> simp
  have hnorm := normalizeCR_tpl d.kind.closing q0 hc h0 d.chars hv
  have hok' := norm_tpl_ok d.kind.closing hc13 d.chars hv
  have hkind : (kindOf d.kind = Kind.str) = False := by cases d.kind <;> simp [kindOf]
  have hraw : (if (renderTpl d.chars).contains 13 = true then normalizeCR (renderTpl d.chars) else renderTpl d.chars)
      = renderTpl (d.chars.map normChar) := by rw [contains_13_normalize, hnorm]
  simp only [lexRaw, lexToken_tpl d rest hv, hkind, if_false, Tok.cookedAndRaw, hraw, decode, tplTok_len]
  have hleg := decode_false_leg (renderTpl (d.chars.map normChar)) 0 0
  cases htv : d.tv with
  | some v =>
    rw [decode_tpl_some false d.kind.closing q0 hc h0 _ hok' v (by rw [norm_tpl_tv]; exact htv) 0]
    rfl
  | none =>
    obtain ⟨p, l', hf⟩ := decode_tpl_none_false d.kind.closing q0 hc h0 _ hok' (by rw [norm_tpl_tv]; exact htv) 0
    rw [hf] at hleg ⊢
    simp only [Dec.leg] at hleg
    subst hleg
    rfl

/-- `StringLiteral()` on any valid template token (what the parser calls for untagged templates) -/
theorem lexValue_tpl (d : TplTok) (rest : List Nat) (hv : d.valid = true) :
    (∀ v, d.tv = some v → lexValue (rescanOf d.kind) (d.render ++ rest) = .tok (kindOf d.kind) d.render.length (some v) [] none) ∧
    (d.tv = none → ∀ k n c r, lexValue (rescanOf d.kind) (d.render ++ rest) ≠ .tok k n c r none) := by
  obtain ⟨q0, hc, h0⟩ := closing_head_tpl d.kind
  constructor
  · intro v htv
    simp only [lexValue, lexToken_tpl d rest hv, Tok.stringLiteral, tplTok_len]
    cases hs : slowBody (renderTpl d.chars) with
    | false =>
      have := fast_tpl d.kind.closing d.chars hv hs
      rw [show tvChars d.chars = d.tv from rfl, htv] at this
      simp only [Bool.false_eq_true, if_false]
      rw [Option.some.inj this]
    | true =>
      simp only [if_true, decode]
      rw [decode_tpl_some true d.kind.closing q0 hc h0 d.chars hv v htv 0]
      rfl
  · intro htv k n c r
    simp only [lexValue, lexToken_tpl d rest hv, Tok.stringLiteral, tplTok_len]
    cases hs : slowBody (renderTpl d.chars) with
    | false =>
      have := fast_tpl d.kind.closing d.chars hv hs
      rw [show tvChars d.chars = d.tv from rfl, htv] at this
      cases this
    | true =>
      simp only [if_true, decode]
      have hne := decode_tpl_none_true d.kind.closing q0 hc h0 d.chars hv htv 0
      cases hd : decodeLoop true (renderTpl d.chars) 0 0 with
      | range p n' => simp
      | fail p l => simp
      | ok units l =>
        cases l with
        | none => exact absurd hd (hne units)
        | some pos => simp

end EsbuildModel.StrLex
