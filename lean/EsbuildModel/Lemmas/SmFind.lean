import EsbuildModel.Impl.SmParse
/-!
`SourceMap.Find` (model in `Impl/SmParse.lean`): the binary search never indexes out of range, ends, and what it
returns is an element of `Mappings` on the requested line.
-/
namespace EsbuildModel.SmParse

theorem findLoop_some (ms : Array Mapping) (line col : Int) : ∀ (fuel : Nat) (count index : Int),
    0 ≤ count → 0 ≤ index → index + count ≤ ms.size → count < fuel →
    ∃ r, findLoop ms line col fuel count index = some r ∧ 0 ≤ r ∧ r ≤ ms.size := by
  intro fuel
  induction fuel with
  | zero => intro count index h0 _ _ h; omega
  | succ fuel ih =>
    intro count index hc hi hs hf
    unfold findLoop
    split
    · next hpos =>
      simp only
      have hlt : (index + count / 2).toNat < ms.size := by omega
      split
      · omega
      · rw [Array.getElem?_eq_getElem hlt]
        simp only
        split
        · exact ih _ _ (by omega) (by omega) (by omega) (by omega)
        · exact ih _ _ (by omega) hi (by omega) (by omega)
    · exact ⟨index, rfl, hi, by omega⟩

/-- `Find` never panics; a returned pointer is `&Mappings[k]` with `k` in range and on the requested line. -/
theorem find_safe (ms : Array Mapping) (line col : Int) :
    ∃ r, find ms line col = some r ∧ ∀ k, r = some k → ∃ h : k < ms.size, ms[k].genLine = line := by
  unfold find
  obtain ⟨index, h, h0, h1⟩ := findLoop_some ms line col (ms.size + 1) ms.size 0 (by omega) (by omega) (by omega) (by omega)
  rw [h]
  simp only
  split
  · next hpos =>
    have hlt : (index - 1).toNat < ms.size := by omega
    rw [Array.getElem?_eq_getElem hlt]
    simp only
    split
    · next hl => exact ⟨_, rfl, fun k hk => by cases hk; exact ⟨hlt, hl⟩⟩
    · exact ⟨_, rfl, fun k hk => by cases hk⟩
  · exact ⟨_, rfl, fun k hk => by cases hk⟩

end EsbuildModel.SmParse
