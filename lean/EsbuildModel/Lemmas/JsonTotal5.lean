import EsbuildModel.Lemmas.JsonTotal4
import EsbuildModel.Lemmas.JsonFuel
/-
Totality of the parser model: with fuel `2·μ + 1` (μ = what is left to read) `parseExpr` never runs out of fuel, and
every successful call consumes at least one token.
-/
namespace EsbuildModel.Json

/-- a computation does not crash and its results satisfy `Q` -/
def Safe {α : Type} (r : R α) (Q : α → Prop) : Prop := r ≠ .crash ∧ ∀ a, r = .ok a → Q a

theorem Safe.bind {α β : Type} {r : R α} {f : α → R β} {Qa : α → Prop} {Qb : β → Prop} (h1 : Safe r Qa)
    (h2 : ∀ a, Qa a → Safe (f a) Qb) : Safe (r.bind f) Qb := by
  cases r with
  | ok a => exact h2 a (h1.2 a rfl)
  | panic l => exact ⟨by simp, by intro b h; cases h⟩
  | crash => exact absurd rfl h1.1

theorem Safe.ok {α : Type} {a : α} {Q : α → Prop} (h : Q a) : Safe (R.ok a) Q :=
  ⟨by simp, by intro b hb; cases hb; exact h⟩

theorem Safe.panic {α : Type} {l : Log} {Q : α → Prop} : Safe (R.panic l : R α) Q :=
  ⟨by simp, by intro b hb; cases hb⟩

theorem Safe.mono {α : Type} {r : R α} {Q Q' : α → Prop} (h : Safe r Q) (hq : ∀ a, Q a → Q' a) : Safe r Q' :=
  ⟨h.1, fun a ha => hq a (h.2 a ha)⟩

section
variable {P : Params} {Rd : Rat → F64} (hP : ParamsOK P Rd) (o : Opts)
include hP

theorem next_safe (L : Lx) : Safe (next o.flavor P L) (fun L' => mu L' ≤ L.rest.length) := next_total hP o.flavor L

omit hP in
theorem mu_pos {L : Lx} (h : L.tok ≠ .eof) : mu L = L.rest.length + 1 := by simp [mu, h]
omit hP in
theorem rest_le_mu (L : Lx) : L.rest.length ≤ mu L := by simp [mu]

theorem expect_safe (L : Lx) (t : Tok) (ht : t ≠ .eof) :
    Safe (expect o.flavor P L t) (fun L' => L.tok = t ∧ mu L' + 1 ≤ mu L) := by
  unfold expect
  split
  · exact Safe.panic
  · rename_i h
    have h : L.tok = t := by simpa using h
    refine (next_safe hP o L).mono (fun L' hl => ⟨h, ?_⟩)
    rw [mu_pos (L := L) (by rw [h]; exact ht)]; omega

omit hP in
theorem stringLiteral_safe (fl : Flavor) (L : Lx) :
    Safe (stringLiteral fl L) (fun p => p.2.rest = L.rest ∧ p.2.tok = L.tok) := by
  unfold stringLiteral
  split
  · exact Safe.ok ⟨rfl, rfl⟩
  · split
    · exact Safe.panic
    · exact Safe.panic
    · exact Safe.ok ⟨rfl, rfl⟩

theorem closeStep_safe (L : Lx) (t : Tok) (single : Bool) (ht : t ≠ .eof) :
    Safe (closeStep o P L t single) (fun p => mu p.2 + 1 ≤ mu L) := by
  unfold closeStep
  exact (expect_safe hP o L t ht).bind (fun L1 h1 => Safe.ok h1.2)

theorem sepStep_safe (L : Lx) (close : Tok) (nonEmpty single : Bool) (hc : close ≠ .eof) :
    Safe (sepStep o P L close nonEmpty single) (fun r => match r with
      | .go _ L1 => (nonEmpty = false ∧ L1 = L) ∨ mu L1 + 1 ≤ mu L
      | .brk _ L1 => L1.tok = close ∧ mu L1 + 1 ≤ mu L) := by
  unfold sepStep
  split
  · rename_i h
    exact Safe.ok (Or.inl ⟨by simpa using h, rfl⟩)
  · unfold maybeTrailingComma
    simp only [R.bind_assoc]
    refine (expect_safe hP o L .comma (by simp)).bind (fun L1 h1 => ?_)
    split
    · rename_i hcl
      split
      · exact Safe.ok ⟨hcl, by simpa [mu] using h1.2⟩
      · exact Safe.ok ⟨hcl, h1.2⟩
    · exact Safe.ok (Or.inr h1.2)

theorem keyStep_safe (L : Lx) (seen : List (List Nat)) :
    Safe (keyStep o P L seen) (fun ks => mu ks.2.2 + 2 ≤ mu L) := by
  unfold keyStep
  refine (stringLiteral_safe o.flavor L).bind (fun p hp => ?_)
  obtain ⟨key, L1⟩ := p
  simp only at hp ⊢
  refine (expect_safe hP o L1 .str (by simp)).bind (fun L2 h2 => ?_)
  have hmu1 : mu L1 = mu L := by simp [mu, hp.1, hp.2]
  split
  · refine (expect_safe hP o _ .colon (by simp)).bind (fun L4 h4 => Safe.ok ?_)
    have : mu { L2 with log := L2.log.warn L1.start } = mu L2 := rfl
    simp only at h4 ⊢
    omega
  · refine (expect_safe hP o _ .colon (by simp)).bind (fun L4 h4 => Safe.ok ?_)
    simp only at h4 ⊢
    omega

/-- the three statements at fuel `n` -/
def TotalAt (o : Opts) (P : Params) (n : Nat) : Prop :=
  (∀ L, 2 * mu L + 1 ≤ n → Safe (parseExpr o P n L) (fun p => mu p.2 + 1 ≤ mu L)) ∧
  (∀ L items single, 2 * mu L + 2 ≤ n → Safe (arrLoop o P n L items single) (fun p => mu p.2 + 1 ≤ mu L)) ∧
  (∀ L props seen single, 2 * mu L + 2 ≤ n →
    Safe (objLoop o P n L props seen single) (fun p => mu p.2 + 1 ≤ mu L))

theorem total_step : ∀ n, TotalAt o P n := by
  intro n
  induction n with
  | zero =>
    refine ⟨fun L h => ?_, fun L items single h => ?_, fun L props seen single h => ?_⟩ <;> omega
  | succ n ih =>
    obtain ⟨ih1, ih2, ih3⟩ := ih
    refine ⟨fun L h => ?_, fun L items single h => ?_, fun L props seen single h => ?_⟩
    · rw [parseExpr_succ]
      have hleaf : ∀ a : Ast, L.tok ≠ .eof →
          Safe ((next o.flavor P L).bind fun L1 => .ok (a, L1)) (fun p => mu p.2 + 1 ≤ mu L) := by
        intro a ht
        refine (next_safe hP o L).bind (fun L1 h1 => Safe.ok ?_)
        rw [mu_pos ht]; simp only; omega
      cases ht : L.tok <;> simp only
      case tTrue => exact hleaf _ (by rw [ht]; simp)
      case tFalse => exact hleaf _ (by rw [ht]; simp)
      case tNull => exact hleaf _ (by rw [ht]; simp)
      case num => exact hleaf _ (by rw [ht]; simp)
      case str =>
        refine (stringLiteral_safe o.flavor L).bind (fun p hp => ?_)
        obtain ⟨u, L1⟩ := p
        simp only at hp ⊢
        refine (next_safe hP o L1).bind (fun L2 h2 => Safe.ok ?_)
        rw [mu_pos (L := L) (by rw [ht]; simp), ← hp.1]; simp only; omega
      case minus =>
        refine (next_safe hP o L).bind (fun L1 h1 => ?_)
        refine (expect_safe hP o L1 .num (by simp)).bind (fun L2 h2 => Safe.ok ?_)
        have := rest_le_mu L
        simp only; omega
      case openBracket =>
        refine (next_safe hP o L).bind (fun L1 h1 => ?_)
        have hm := mu_pos (L := L) (by rw [ht]; simp)
        refine (ih2 L1 [] _ (by omega)).mono (fun p hp => ?_)
        omega
      case openBrace =>
        refine (next_safe hP o L).bind (fun L1 h1 => ?_)
        have hm := mu_pos (L := L) (by rw [ht]; simp)
        refine (ih3 L1 [] [] _ (by omega)).mono (fun p hp => ?_)
        omega
      all_goals exact Safe.panic
    · rw [arrLoop_succ]
      split
      · exact (closeStep_safe hP o L .closeBracket single (by simp)).bind (fun p hp => Safe.ok hp)
      · refine (sepStep_safe hP o L .closeBracket _ single (by simp)).bind (fun r hr => ?_)
        cases r with
        | brk s L1 =>
          simp only at hr ⊢
          refine (closeStep_safe hP o L1 .closeBracket s (by simp)).bind (fun p hp => Safe.ok ?_)
          simp only; omega
        | go s L1 =>
          simp only at hr ⊢
          have hle : mu L1 ≤ mu L := by
            rcases hr with ⟨_, rfl⟩ | hr
            · exact Nat.le_refl _
            · omega
          refine (ih1 L1 (by omega)).bind (fun p hp => ?_)
          refine (ih2 p.2 _ s (by omega)).mono (fun q hq => ?_)
          omega
    · rw [objLoop_succ]
      split
      · exact (closeStep_safe hP o L .closeBrace single (by simp)).bind (fun p hp => Safe.ok hp)
      · refine (sepStep_safe hP o L .closeBrace _ single (by simp)).bind (fun r hr => ?_)
        cases r with
        | brk s L1 =>
          simp only at hr ⊢
          refine (closeStep_safe hP o L1 .closeBrace s (by simp)).bind (fun p hp => Safe.ok ?_)
          simp only; omega
        | go s L1 =>
          simp only at hr ⊢
          have hle : mu L1 ≤ mu L := by
            rcases hr with ⟨_, rfl⟩ | hr
            · exact Nat.le_refl _
            · omega
          refine (keyStep_safe hP o L1 seen).bind (fun ks hk => ?_)
          refine (ih1 ks.2.2 (by omega)).bind (fun p hp => ?_)
          refine (ih3 p.2 _ _ s (by omega)).mono (fun q hq => ?_)
          omega

end
end EsbuildModel.Json
