import EsbuildModel.Lemmas.StmtMangle
/-!
Lemmas/StmtMangleIf — mangleIf as a whole (constant tests, dead branches, appendIfOrLabelBodyPreservingScope).
-/
namespace EsbuildModel.MiniJS

theorem restore_nil (outer inner : Env) : restore outer inner [] = inner := by
  funext x; simp [restore]

theorem inScope_nil (env : Env) (r : Out) : inScope [] env r = r := by
  rcases r with _ | ⟨c, st⟩
  · rfl
  · simp [inScope, restore_nil]

theorem noScope_of_not_care : ∀ ss : List Stmt, stmtsCareAboutScope ss = false → scopeNames ss = [] ∧ fnDecls ss = []
  | [], _ => by simp [scopeNames, lexNames, fnNames, fnDecls]
  | s :: ss, h => by
    simp only [stmtsCareAboutScope, Bool.or_eq_false_iff] at h
    have ih := noScope_of_not_care ss h.2
    simp only [scopeNames, fnNames, List.append_eq_nil_iff, List.map_eq_nil_iff] at ih
    cases s <;> simp_all [stmtCaresAboutScope, scopeNames, lexNames, fnNames, fnDecls]

/-- a block that declares nothing lexically is its statement list -/
theorem execS_block_flat (w : World) (again : List Nat → Stmt → St → Out) (labs : List Nat) (ss : List Stmt)
    (h : stmtsCareAboutScope ss = false) (st : St) : execS w again labs (.block ss) st = execL w again ss st := by
  obtain ⟨h1, h2⟩ := noScope_of_not_care ss h
  simp only [execS, h1, h2, inScope_nil, bindFns]

theorem appendBody_sound (w : World) (again : List Nat → Stmt → St → Out) (acc : List Stmt) (body : Stmt)
    (hb : stmtCaresAboutScope body = false) (st : St) :
    execL w again (appendBody acc body).reverse st = seqOut (execL w again acc.reverse st) (execS w again [] body) := by
  have plain : execL w again (body :: acc).reverse st = seqOut (execL w again acc.reverse st) (execS w again [] body) :=
    execL_stack w again acc body st
  cases body with
  | block ss =>
    simp only [appendBody]
    split
    · rename_i h
      have h' : stmtsCareAboutScope ss = false := by simpa using h
      rw [List.reverse_append, List.reverse_reverse, execL_append]
      congr 1; funext st1; exact (execS_block_flat w again [] ss h' st1).symm
    · exact plain
  | decl k ds => simp only [appendBody, hb]; exact plain
  | func f fid => simp [stmtCaresAboutScope] at hb
  | _ => simp only [appendBody, stmtCaresAboutScope]; exact plain

/-- the test of a dropped branch, kept for its effects -/
theorem keepTestEffects_sound (w : World) (again : List Nat → Stmt → St → Out) (cfg : Cfg) (H : BoundOK w cfg.ub)
    (acc : List Stmt) (test : Expr) (hwf : test.wf = true) (hok : (toBooleanWithSideEffects test).ok = true) (st : St) :
    execL w again (keepTestEffects cfg acc (toBooleanWithSideEffects test) test).reverse st =
      seqOut (execL w again acc.reverse st) (execS w again [] (.expr test)) := by
  simp only [keepTestEffects]
  split
  · -- could have side effects: SimplifyUnusedExpr
    exact (by
      have := pushExpr_sound w again cfg H acc test hwf st
      simp only [pushExpr] at this
      cases hr : simplifyUnusedExpr cfg.ub test with
      | some e => simpa [hr] using this
      | none =>
        simp only [hr] at this ⊢
        have he : execS w again [] .empty = fun st1 => some (.normal, st1) := by
          funext st1; exact execS_empty w again [] st1
        rw [← this, execL_stack, he, seqOut_id])
  · rename_i hse
    have hse' : (toBooleanWithSideEffects test).noSE = true := by simpa using hse
    have : execS w again [] (.expr test) = fun st1 => some (.normal, st1) := by
      funext st1
      apply execS_expr_nop
      apply nop_of_pure
      intro tr
      exact (tbwse_sound (wOf w st1) test hok).2 hse' hwf tr
    rw [this, seqOut_id]

/-- every normal evaluation of `e` gives a value whose ToBoolean is `b` -/
def AlwaysBool (w : World) (e : Expr) (b : Bool) : Prop := ∀ tr v tr', eval w e tr = (.val v, tr') → toBoolean v = b

theorem if_const (w : World) (again : List Nat → Stmt → St → Out) (labs : List Nat) (test : Expr) (yes : Stmt)
    (no : Option Stmt) (b : Bool) (st : St) (h : AlwaysBool (wOf w st) test b) :
    execS w again labs (.ifS test yes no) st =
      stBind st (evalUnused (wOf w st) test st.tr) fun _ st1 =>
        if b then execS w again [] yes st1 else execOpt w again no st1 := by
  rw [execS_if, evalBool_eq, evalUnused_eq, stBind_bind, stBind_bind]
  rcases res_cases (eval (wOf w st) test st.tr) with ⟨v, tr1, hv⟩ | ⟨x, tr1, hv⟩
  · rw [hv]; simp only [stBind, h st.tr v tr1 hv]
  · rw [hv]; rfl

theorem alwaysBool_of_tbwse (w : World) (e : Expr) (hok : (toBooleanWithSideEffects e).ok = true) :
    AlwaysBool w e (toBooleanWithSideEffects e).value := (tbwse_sound w e hok).1

theorem alwaysBool_num (w : World) (b : Bool) : AlwaysBool w (numOfBool b) b := by
  intro tr v tr' h
  cases b <;> simp [numOfBool, eval] at h <;> obtain ⟨h1, _⟩ := h <;> subst h1 <;> decide

/-- the test that mangleIf leaves in a kept `if` with a constant test -/
theorem foldedTest (w : World) (e : Expr) (hwf : e.wf = true) (hok : (toBooleanWithSideEffects e).ok = true) :
    let e2 := if (toBooleanWithSideEffects e).noSE then numOfBool (toBooleanWithSideEffects e).value else e
    AlwaysBool w e2 (toBooleanWithSideEffects e).value ∧ UnusedEq w e2 e ∧ e2.wf = true := by
  intro e2
  by_cases hse : (toBooleanWithSideEffects e).noSE = true
  · have he2 : e2 = numOfBool (toBooleanWithSideEffects e).value := by simp [e2, hse]
    rw [he2]
    refine ⟨alwaysBool_num w _, ?_, by simp [numOfBool, Expr.wf]⟩
    intro tr
    have hp : Pure w e := fun tr => (tbwse_sound w e hok).2 hse hwf tr
    rw [nop_of_pure w e hp tr]
    simp [numOfBool, evalUnused, eval, unitRes]
  · have he2 : e2 = e := by simp [e2, hse]
    rw [he2]
    exact ⟨alwaysBool_of_tbwse w e hok, UnusedEq.refl w e, hwf⟩

def isExprStmt : Stmt → Bool
  | .expr _ => true
  | _ => false

theorem keepDead_notExpr (s : Stmt) (h : (keepDead s).1 = true) : isExprStmt (keepDead s).2 = false := by
  cases s with
  | ifS c y n => simp only [keepDead]; split <;> rfl
  | forS init t u b => cases init <;> simp only [keepDead] <;> (try split) <;> rfl
  | expr e => simp [keepDead] at h
  | _ => simp [keepDead, isExprStmt]

theorem condWf_of_no (cfg : Cfg) (test : Expr) (yes n : Stmt) (h : isExprStmt n = false) :
    condWf cfg test yes (some n) = true := by
  cases n <;> simp [isExprStmt] at h <;> simp only [condWf] <;> split <;> simp_all

theorem condWf_of_yes (cfg : Cfg) (test : Expr) (yes : Stmt) (no : Option Stmt) (h : isExprStmt yes = false) :
    condWf cfg test yes no = true := by
  cases yes <;> simp [isExprStmt] at h <;> simp only [condWf]

theorem condWf_of_keptNo (cfg : Cfg) (test : Expr) (yes : Stmt) (no : Option Stmt) (h : (keepDeadOpt no).1 = true) :
    condWf cfg test yes (keepDeadOpt no).2 = true := by
  cases no with
  | none => simp [keepDeadOpt] at h
  | some s =>
    simp only [keepDeadOpt] at h ⊢
    exact condWf_of_no cfg test yes _ (keepDead_notExpr s h)

theorem condWf_of_keptYes (cfg : Cfg) (test : Expr) (yes : Stmt) (no : Option Stmt) (h : (keepDead yes).1 = true) :
    condWf cfg test (keepDead yes).2 no = true :=
  condWf_of_yes cfg test _ no (keepDead_notExpr yes h)

def optCares : Option Stmt → Bool
  | none => false
  | some s => stmtCaresAboutScope s

theorem seq_expr_unused (w : World) (again : List Nat → Stmt → St → Out) (a : Expr) (st : St) (k : St → Out) :
    seqOut (execS w again [] (.expr a) st) k = stBind st (evalUnused (wOf w st) a st.tr) fun _ st1 => k st1 := by
  rw [execS_expr, stBind_seq]
  apply stBind_congr; intro v tr; rfl

/-- mangleIf(stmts, loc, &SIf{test, yes, no}): appended to `acc` it means what `if (test) yes else no` means after
`acc` -/
theorem mangleIf_sound (w : World) (again : List Nat → Stmt → St → Out) (cfg : Cfg) (H : BoundOK w cfg.ub)
    (acc : List Stmt) (test : Expr) (yes : Stmt) (no : Option Stmt)
    (hwf : (Stmt.ifS test yes no).wf = true) (hc : condWf cfg test yes no = true)
    (hy : stmtCaresAboutScope yes = false) (hn : optCares no = false) (st : St) :
    execL w again (mangleIf cfg acc test yes no).reverse st =
      seqOut (execL w again acc.reverse st) (execS w again [] (.ifS test yes no)) := by
  have hwf0 := hwf
  simp only [Stmt.wf, Bool.and_eq_true] at hwf
  obtain ⟨⟨hwt, hwy⟩, hwn⟩ := hwf
  unfold mangleIf
  simp only
  by_cases hok : (toBooleanWithSideEffects test).ok = true
  · simp only [hok, if_true]
    have hfold := fun (w' : World) => foldedTest w' test hwt hok
    by_cases hv : (toBooleanWithSideEffects test).value = true
    · simp only [hv, if_true]
      simp only [hv] at hfold
      split
      · -- the else branch is dropped
        rw [appendBody_sound w again _ yes hy st, keepTestEffects_sound w again cfg H acc test hwt hok st, seqOut_assoc]
        congr 1; funext st1
        rw [seq_expr_unused, if_const w again [] test yes no true st1 (hv ▸ alwaysBool_of_tbwse _ test hok)]
        rfl
      · -- the else branch has to stay
        rename_i hk
        have hk' : (keepDeadOpt no).1 = true := by simpa using hk
        rw [mangleIfShape_sound w again cfg H acc _ yes _ ?_ (condWf_of_keptNo cfg _ yes no hk') st]
        · congr 1; funext st1
          obtain ⟨h1, h2, _⟩ := hfold (wOf w st1)
          rw [if_const w again [] _ yes _ true st1 h1,
            if_const w again [] test yes no true st1 (hv ▸ alwaysBool_of_tbwse _ test hok), h2 st1.tr]
          simp
        · simp only [Stmt.wf, Bool.and_eq_true]
          exact ⟨⟨(hfold w).2.2, hwy⟩, keepDeadOpt_wf no hwn⟩
    · have hv' : (toBooleanWithSideEffects test).value = false := by simpa using hv
      simp only [hv', Bool.false_eq_true, if_false]
      simp only [hv'] at hfold
      split
      · -- the then branch is dropped
        cases no with
        | none =>
          simp only
          rw [keepTestEffects_sound w again cfg H acc test hwt hok st]
          congr 1; funext st1
          rw [if_const w again [] test yes none false st1 (hv' ▸ alwaysBool_of_tbwse _ test hok), execS_expr]
          apply stBind_congr; intro v tr; simp [done, execOpt]
        | some n =>
          simp only
          have hn' : stmtCaresAboutScope n = false := by simpa [optCares] using hn
          rw [appendBody_sound w again _ n hn' st, keepTestEffects_sound w again cfg H acc test hwt hok st, seqOut_assoc]
          congr 1; funext st1
          rw [seq_expr_unused, if_const w again [] test yes (some n) false st1 (hv' ▸ alwaysBool_of_tbwse _ test hok)]
          rfl
      · -- the then branch has to stay
        rename_i hk
        have hk' : (keepDead yes).1 = true := by simpa using hk
        rw [mangleIfShape_sound w again cfg H acc _ _ no ?_ (condWf_of_keptYes cfg _ yes no hk') st]
        · congr 1; funext st1
          obtain ⟨h1, h2, _⟩ := hfold (wOf w st1)
          rw [if_const w again [] _ _ no false st1 h1,
            if_const w again [] test yes no false st1 (hv' ▸ alwaysBool_of_tbwse _ test hok), h2 st1.tr]
          simp
        · simp only [Stmt.wf, Bool.and_eq_true]
          exact ⟨⟨(hfold w).2.2, keepDead_wf yes hwy⟩, hwn⟩
  · simp only [hok, Bool.false_eq_true, if_false]
    exact mangleIfShape_sound w again cfg H acc test yes no hwf0 hc st

end EsbuildModel.MiniJS
