import EsbuildModel.Lemmas.CssImportVisit
import EsbuildModel.Lemmas.CssImportHoist
import EsbuildModel.Lemmas.CssImportLayerLoop
/-!
Assembly of the phases of `findOrder`.
-/
namespace EsbuildModel.CssImport
open EsbuildModel.Spec.CssCascade

/-- the import tree of one file (the chain starts empty; `number of files + 1` levels are always enough) -/
def importTree (g : Graph) (e : Nat) : Sheet := unfold g (g.length + 1) [] e

/-- the style sheet of an entry point: for a CSS entry point the file itself, for a JavaScript entry point the
"virtual CSS file that only contains @import statements" of the CSS files in JavaScript order -/
def entrySheet (g : Graph) : List Nat → Sheet
  | [] => .nil
  | e :: es => .import none (importTree g e) (entrySheet g es)

theorem entrySheet_noAnon {g : Graph} (hg : GraphNoAnon g) (eps : List Nat) : SheetNoAnon (entrySheet g eps) := by
  induction eps with
  | nil => trivial
  | cons e es ih => exact ⟨(fun c hc => by cases hc), unfold_noAnon hg _ _ _, ih⟩

theorem flattenN_entrySheet (g : Graph) (decl : Nat → Decl) (ext : Nat → List Item) (eps : List Nat) :
    flattenN decl ext (entrySheet g eps) = eps.flatMap (fun e => flattenN decl ext (unfold g (g.length + 1) [] e)) := by
  induction eps with
  | nil => rfl
  | cons e es ih => simp [entrySheet, flattenN, wrapOptN, importTree, ih]

theorem dedupe_mem (g : Graph) (es : List Entry) :
    ∀ x ∈ (dedupe g es).1, ∃ e ∈ es, x.conds = e.conds ∧ (x = e ∨ x.kind = .layers) := by
  induction es with
  | nil => intro x hx; simp [dedupe] at hx
  | cons e es ih =>
    intro x hx
    have hcases : (dedupe g (e :: es)).1 = e :: (dedupe g es).1 ∨
        ∃ e', e'.conds = e.conds ∧ e'.kind = .layers ∧ (dedupe g (e :: es)).1 = e' :: (dedupe g es).1 := by
      simp only [dedupe]
      cases e.kind with
      | layers => exact Or.inl rfl
      | file =>
        simp only
        split
        · exact Or.inr ⟨{ e with kind := .layers, layers := postOf g e.src }, rfl, rfl, rfl⟩
        · exact Or.inl rfl
      | ext =>
        simp only
        split
        · exact Or.inr ⟨{ e with kind := .layers }, rfl, rfl, rfl⟩
        · exact Or.inl rfl
    rcases hcases with h | ⟨e', hc, hk, h⟩
    · rw [h] at hx
      rcases List.mem_cons.1 hx with rfl | hx
      · exact ⟨x, List.mem_cons_self .., rfl, Or.inl rfl⟩
      · obtain ⟨y, hy, h1, h2⟩ := ih x hx
        exact ⟨y, List.mem_cons_of_mem _ hy, h1, h2⟩
    · rw [h] at hx
      rcases List.mem_cons.1 hx with rfl | hx
      · exact ⟨e, List.mem_cons_self .., hc, Or.inr hk⟩
      · obtain ⟨y, hy, h1, h2⟩ := ih x hx
        exact ⟨y, List.mem_cons_of_mem _ hy, h1, h2⟩

/-- the hypotheses about the redundancy hits of the two de-duplication passes, on the lists they run on -/
def SafeBundle (g : Graph) (decl : Nat → Decl) (ext : Nat → List Item) (eps : List Nat) : Prop :=
  ∀ o0, visitAll g eps = some o0 →
    (hoist o0).Pairwise (SafePair g decl ext) ∧ SafeLayers g (dedupe g (hoist o0)).1

theorem findOrder_spec (g : Graph) (decl : Nat → Decl) (ext : Nat → List Item) (eps : List Nat)
    (hwf : GraphWF g) (hna : GraphNoAnon g) (heps : ∀ e ∈ eps, e < g.length) (hext : ExtNoLayers ext)
    (hsafe : SafeBundle g decl ext eps) :
    ∃ o0 out, visitAll g eps = some o0 ∧ findOrder g eps = some out ∧
      NoAnonEntries o0 ∧ NoAnonEntries out ∧
      CtxSame (semN g decl ext o0) (flatten decl ext [] 0 (entrySheet g eps)) ∧
      CtxSame (semN g decl ext out) (semN g decl ext (hoist o0)) := by
  obtain ⟨o0, ho0⟩ := visitAll_some hwf eps heps
  have hok := visitAll_entries (graphSat_of_noAnon hna) eps o0 ho0
  have hna0 : NoAnonEntries o0 := fun e he => (hok e he).1
  have hclean0 : ExtEntriesClean o0 := fun e he => (hok e he).2.1
  obtain ⟨hs1, hs2⟩ := hsafe o0 ho0
  -- phase 0
  have h0 : CtxSame (semN g decl ext o0) (flatten decl ext [] 0 (entrySheet g eps)) := by
    rw [flatten_eq_flattenN decl ext _ (entrySheet_noAnon hna eps), flattenN_entrySheet]
    exact (visitAll_dupEq g decl ext eps o0 ho0).ctxSame
  -- phase 1 keeps the entries
  have hnaH : NoAnonEntries (hoist o0) := fun e he => hna0 e (mem_hoist o0 e he)
  have hcleanH : ExtEntriesClean (hoist o0) := fun e he => hclean0 e (mem_hoist o0 e he)
  -- phase 2
  have h2 := (dedupe_inv g decl ext hext (hoist o0) hs1 hcleanH).1
  have hnaD : NoAnonEntries (dedupe g (hoist o0)).1 := by
    intro x hx
    obtain ⟨e, he, hc, _⟩ := dedupe_mem g (hoist o0) x hx
    rw [hc]; exact hnaH e he
  have hcleanD : ExtEntriesClean (dedupe g (hoist o0)).1 := by
    intro x hx hk
    obtain ⟨e, he, _, h⟩ := dedupe_mem g (hoist o0) x hx
    rcases h with rfl | h
    · exact hcleanH x he hk
    · rw [h] at hk; cases hk
  -- phase 3
  obtain ⟨o3, ho3, h3, hna3⟩ := layerPass_spec g decl ext hext _ hnaD hcleanD hs2
  -- phase 4
  have h4 := (mergeLayers_dupEq g decl ext o3).ctxSame
  refine ⟨o0, mergeLayers o3, ho0, ?_, hna0, mergeLayers_noAnon hna3, h0, (h4.trans h3).trans h2⟩
  simp [findOrder, ho0, ho3]

-- ------------------------------------------------------------------ a simple sufficient condition

/-- no `@import` rule of the graph has a `layer` / `layer(…)` keyword (media and supports conditions only) -/
def GraphNoCondLayers (g : Graph) : Prop := GraphSat (fun c => c.layer = none) g

theorem graphNoAnon_of_noCondLayers {g : Graph} (h : GraphNoCondLayers g) : GraphNoAnon g := by
  intro f hf im him c hc
  rw [h f hf im him c hc]
  exact fun h' => by cases h'

theorem pairwise_of_forall_mem {α : Type} {R : α → α → Prop} {l : List α} (h : ∀ a ∈ l, ∀ b ∈ l, R a b) :
    l.Pairwise R := by
  induction l with
  | nil => exact List.Pairwise.nil
  | cons x xs ih =>
    rw [List.pairwise_cons]
    exact ⟨fun b hb => h x (List.mem_cons_self ..) b (List.mem_cons_of_mem _ hb),
      ih (fun a ha b hb => h a (List.mem_cons_of_mem _ ha) b (List.mem_cons_of_mem _ hb))⟩

theorem extraNoLayer_of_noLayers {e : List Cond} (h : ∀ c ∈ e, c.layer = none) (l : List Cond) :
    extraNoLayer e l = true := by
  unfold extraNoLayer
  rw [List.all_eq_true]
  intro c hc
  simp [h c (List.mem_of_mem_drop hc)]

theorem safeBundle_of_noCondLayers {g : Graph} (h : GraphNoCondLayers g) (decl : Nat → Decl)
    (ext : Nat → List Item) (eps : List Nat) : SafeBundle g decl ext eps := by
  intro o0 ho0
  have hok := visitAll_entries h eps o0 ho0
  have hnl : ∀ e ∈ hoist o0, ∀ c ∈ e.conds, c.layer = none := fun e he => (hok e (mem_hoist o0 e he)).1
  constructor
  · apply pairwise_of_forall_mem
    intro a ha b _ _ _
    exact Or.inl (extraNoLayer_of_noLayers (hnl a ha) _)
  · apply pairwise_of_forall_mem
    intro a _ b hb _ _
    apply extraNoLayer_of_noLayers
    rw [List.mem_filterMap] at hb
    obtain ⟨x, hx, hs⟩ := hb
    obtain ⟨e, he, hc, _⟩ := dedupe_mem g (hoist o0) x hx
    have hxn : ∀ c ∈ x.conds, c.layer = none := by rw [hc]; exact hnl e he
    have hna : NoAnon x.conds := fun c hc' => by rw [hxn c hc']; exact fun h' => by cases h'
    obtain ⟨_, _, _, hsub⟩ := simp3_some g decl ext hna hs
    exact fun c hc' => hxn c (hsub c hc')

-- ------------------------------------------------------------------ a decidable sufficient condition

def pairwiseB {α : Type} (r : α → α → Bool) : List α → Bool
  | [] => true
  | x :: xs => xs.all (r x) && pairwiseB r xs

theorem pairwise_of_pairwiseB {α : Type} {r : α → α → Bool} {l : List α} (h : pairwiseB r l = true) :
    l.Pairwise (fun a b => r a b = true) := by
  induction l with
  | nil => exact List.Pairwise.nil
  | cons x xs ih =>
    simp only [pairwiseB, Bool.and_eq_true, List.all_eq_true] at h
    rw [List.pairwise_cons]
    exact ⟨h.1, ih h.2⟩

/-- every redundancy hit of the two passes has no further `layer` condition on the dropped side -/
def safeBundleB (g : Graph) (eps : List Nat) : Bool :=
  match visitAll g eps with
  | none => true
  | some o0 =>
    pairwiseB (fun a b => !(sameKey a b && isRedundant a.conds b.conds) || extraNoLayer a.conds b.conds) (hoist o0) &&
    pairwiseB (fun a b => !(keyOf g a == keyOf g b && isRedundant b.conds a.conds) || extraNoLayer b.conds a.conds)
      ((dedupe g (hoist o0)).1.filterMap simp3)

theorem safeBundle_of_check {g : Graph} {eps : List Nat} (h : safeBundleB g eps = true) (decl : Nat → Decl)
    (ext : Nat → List Item) : SafeBundle g decl ext eps := by
  intro o0 ho0
  simp only [safeBundleB, ho0, Bool.and_eq_true] at h
  constructor
  · refine (pairwise_of_pairwiseB h.1).imp ?_
    intro a b hab hk hr
    left
    simp only [hk, hr, Bool.and_self, Bool.not_true, Bool.false_or] at hab
    exact hab
  · refine (pairwise_of_pairwiseB h.2).imp ?_
    intro a b hab hk hr
    simp only [hk, beq_self_eq_true, hr, Bool.and_self, Bool.not_true, Bool.false_or] at hab
    exact hab

-- ------------------------------------------------------------------ decidable forms of the graph hypotheses

def graphWFB (g : Graph) : Bool :=
  g.all fun f => f.imports.all fun im => match im.target with | .file j => decide (j < g.length) | .ext _ => true

theorem graphWF_of_check {g : Graph} (h : graphWFB g = true) : GraphWF g := by
  intro f hf im him j hj
  simp only [graphWFB, List.all_eq_true] at h
  have := h f hf im him
  simpa [hj] using this

def graphSatB (p : Cond → Bool) (g : Graph) : Bool :=
  g.all fun f => f.imports.all fun im => match im.cond with | some c => p c | none => true

theorem graphSat_of_check {P : Cond → Prop} {p : Cond → Bool} (hp : ∀ c, p c = true → P c) {g : Graph}
    (h : graphSatB p g = true) : GraphSat P g := by
  intro f hf im him c hc
  simp only [graphSatB, List.all_eq_true] at h
  have := h f hf im him
  rw [hc] at this
  exact hp c this

theorem graphNoAnon_of_check {g : Graph} (h : graphSatB (fun c => c.layer != some LayerTok.anon) g = true) :
    GraphNoAnon g := by
  have := graphSat_of_check (P := fun c => c.layer ≠ some LayerTok.anon) (by intro c hc; simpa using hc) h
  exact fun f hf im him c hc => this f hf im him c hc

theorem graphNoCondLayers_of_check {g : Graph} (h : graphSatB (fun c => c.layer.isNone) g = true) :
    GraphNoCondLayers g :=
  graphSat_of_check (P := fun c => c.layer = none) (by intro c hc; simpa using hc) h

end EsbuildModel.CssImport
