/-
Line protocol of the kernels `objrest` (structure of the lowered statement) and `objrestsem` (behaviour in a
deterministic test world, compared with Node) for Impl/Lower3.lean.

Source statements arrive in prefix form, tokens separated by single spaces:
  expressions  `v1` `undef` `null` `n5` `S:abc` | `c2 A` (f2(A)) | `O PROPS .` (object literal) | `A PAT R` (PAT = R)
               | `Q A B` (A, B)
  properties   `D KEY V` (KEY: V) | `G3 KEY` (get KEY() {g3}) | `T3 KEY` (set KEY(v) {g3}) | `P V` (__proto__: V) | `X E` (...E)
  keys         `ks:name` | `kn:12` | `kc E` ([E])
  patterns     `v1` | `{ PPROPS . r3` / `{ PPROPS . -` (with / without rest element);  PPROP = `p KEY PAT -` | `p KEY PAT = E`
  statements   `E A` (expression statement) | `L PAT E … ;` (declaration list)
-/
import EsbuildModel.Impl.Lower3
namespace EsbuildModel.Lower3

def tmpIndex (k : Nat) (m : List Nat) : Nat × List Nat :=
  match m.idxOf? k with
  | some i => (i, m)
  | none => (m.length, m ++ [k])

def showLit : Val → String
  | .undef => "undef"
  | .null => "null"
  | .num n => s!"(num {n})"
  | .str s => s!"(str {s})"
  | _ => "(OTHER-LITERAL)"

def showCK (c : CK) (m : List Nat) : String × List Nat :=
  match c with
  | .str s => (s!"(str {s})", m)
  | .num n => (s!"(add (num {n}) (str ))", m)
  | .ident x => (s!"(restKey (id v{x}))", m)
  | .temp k => let (i, m1) := tmpIndex k m; (s!"(restKey (tmp {i}))", m1)

def showCKs : List CK → List Nat → String × List Nat
  | [], m => ("", m)
  | c :: cs, m => let (a, m1) := showCK c m; let (b, m2) := showCKs cs m1; (" " ++ a ++ b, m2)

def showKK (k : KK) (ke : String) : String :=
  match k with
  | .str s => s!"(str {s})"
  | .num n => s!"(num {n})"
  | .comp => ke

mutual
/-- temporaries are renumbered in order of first appearance so that only the structure is compared -/
def showE : E → List Nat → String × List Nat
  | .id x, m => (s!"(id v{x})", m)
  | .lit v, m => (showLit v, m)
  | .call f a, m => let (sa, m1) := showE a m; (s!"(call (id f{f}) {sa})", m1)
  | .obj ps, m => let (sp, m1) := showPL ps m; (s!"(obj{sp})", m1)
  | .asg p rhs, m => let (sp, m1) := showPat p m; let (sr, m2) := showE rhs m1; (s!"(assign {sp} {sr})", m2)
  | .seq a b, m => let (sa, m1) := showE a m; let (sb, m2) := showE b m1; (s!"(seq {sa} {sb})", m2)
  | .tmp k, m => let (i, m1) := tmpIndex k m; (s!"(tmp {i})", m1)
  | .spreadValues a b, m => let (sa, m1) := showE a m; let (sb, m2) := showE b m1; (s!"(spreadValues {sa} {sb})", m2)
  | .spreadProps a b, m => let (sa, m1) := showE a m; let (sb, m2) := showE b m1; (s!"(spreadProps {sa} {sb})", m2)
  | .objRest src keys, m => let (ss, m1) := showE src m; let (sk, m2) := showCKs keys m1; (s!"(objRest {ss} (arr{sk}))", m2)
def showPL : PL → List Nat → String × List Nat
  | .nil, m => ("", m)
  | .data k ke v r, m =>
    let (sk, m1) := showE ke m
    let m1 := if k = .comp then m1 else m
    let (sv, m2) := showE v m1
    let (sr, m3) := showPL r m2
    (s!" (data {showKK k sk} {sv})" ++ sr, m3)
  | .getter k ke g r, m =>
    let (sk, m1) := showE ke m
    let m1 := if k = .comp then m1 else m
    let (sr, m2) := showPL r m1
    (s!" (get {showKK k sk} g{g})" ++ sr, m2)
  | .setter k ke g r, m =>
    let (sk, m1) := showE ke m
    let m1 := if k = .comp then m1 else m
    let (sr, m2) := showPL r m1
    (s!" (set {showKK k sk} g{g})" ++ sr, m2)
  | .proto v r, m =>
    let (sv, m1) := showE v m
    let (sr, m2) := showPL r m1
    (s!" (data (str __proto__) {sv})" ++ sr, m2)
  | .spread e r, m =>
    let (se, m1) := showE e m
    let (sr, m2) := showPL r m1
    (s!" (spread {se})" ++ sr, m2)
def showPat : Pat → List Nat → String × List Nat
  | .var x, m => (s!"(id v{x})", m)
  | .tmp k, m => let (i, m1) := tmpIndex k m; (s!"(tmp {i})", m1)
  | .obj ps rest, m =>
    let (sp, m1) := showPPL ps m
    match rest with
    | none => (s!"(pat{sp})", m1)
    | some r => (s!"(pat{sp} (rest (id v{r})))", m1)
def showPPL : PPL → List Nat → String × List Nat
  | .nil, m => ("", m)
  | .prop k ke t hd d tl, m =>
    let (sk, m1) := showE ke m
    let m1 := if k = .comp then m1 else m
    let (st, m2) := showPat t m1
    let (sd, m3) := showE d m2
    let m3 := if hd then m3 else m2
    let (sr, m4) := showPPL tl m3
    ((if hd then s!" (prop {showKK k sk} {st} {sd})" else s!" (prop {showKK k sk} {st})") ++ sr, m4)
end

def showAL : List (Pat × E) → List Nat → String × List Nat
  | [], m => ("", m)
  | (p, e) :: r, m =>
    let (sp, m1) := showPat p m; let (se, m2) := showE e m1; let (sr, m3) := showAL r m2
    (s!" ({sp} {se})" ++ sr, m3)

def showStmt : Stmt → String
  | .expr e => s!"(expr {(showE e []).1})"
  | .decl ds => s!"(decl{(showAL ds []).1})"

-- ---------------------------------------------------------------- parsing

def parseKK (tok : String) : Option KK :=
  match tok.toList with
  | 'k' :: 's' :: ':' :: cs => some (.str (String.ofList cs))
  | 'k' :: 'n' :: ':' :: cs => (String.ofList cs).toNat?.map .num
  | ['k', 'c'] => some .comp
  | _ => none

abbrev Toks := List String

mutual
def parseE : Nat → Toks → Option (E × Toks)
  | 0, _ => none
  | _ + 1, [] => none
  | fuel + 1, tok :: rest =>
    match tok with
    | "undef" => some (.lit .undef, rest)
    | "null" => some (.lit .null, rest)
    | "O" => (parsePL fuel rest).map fun (ps, r) => (.obj ps, r)
    | "A" =>
      match parsePat fuel rest with
      | some (p, r) => (parseE fuel r).map fun (e, r2) => (.asg p e, r2)
      | none => none
    | "Q" =>
      match parseE fuel rest with
      | some (a, r) => (parseE fuel r).map fun (b, r2) => (.seq a b, r2)
      | none => none
    | t =>
      match t.toList with
      | 'S' :: ':' :: cs => some (.lit (.str (String.ofList cs)), rest)
      | 'v' :: cs => (String.ofList cs).toNat?.map fun x => (.id x, rest)
      | 'n' :: cs => (String.ofList cs).toInt?.map fun x => (.lit (.num x), rest)
      | 'c' :: cs =>
        match (String.ofList cs).toNat?, parseE fuel rest with
        | some f, some (a, r) => some (.call f a, r)
        | _, _ => none
      | _ => none
def parseKey : Nat → Toks → Option (KK × E × Toks)
  | 0, _ => none
  | _ + 1, [] => none
  | fuel + 1, tok :: rest =>
    match parseKK tok with
    | some .comp => (parseE fuel rest).map fun (e, r) => (.comp, e, r)
    | some k => some (k, .lit .undef, rest)
    | none => none
def parsePL : Nat → Toks → Option (PL × Toks)
  | 0, _ => none
  | _ + 1, [] => none
  | fuel + 1, tok :: rest =>
    match tok with
    | "." => some (.nil, rest)
    | "D" =>
      match parseKey fuel rest with
      | some (k, ke, r) =>
        match parseE fuel r with
        | some (v, r2) => (parsePL fuel r2).map fun (ps, r3) => (.data k ke v ps, r3)
        | none => none
      | none => none
    | "P" =>
      match parseE fuel rest with
      | some (v, r) => (parsePL fuel r).map fun (ps, r2) => (.proto v ps, r2)
      | none => none
    | "X" =>
      match parseE fuel rest with
      | some (v, r) => (parsePL fuel r).map fun (ps, r2) => (.spread v ps, r2)
      | none => none
    | t =>
      match t.toList with
      | 'G' :: cs =>
        match (String.ofList cs).toNat?, parseKey fuel rest with
        | some g, some (k, ke, r) => (parsePL fuel r).map fun (ps, r2) => (.getter k ke g ps, r2)
        | _, _ => none
      | 'T' :: cs =>
        match (String.ofList cs).toNat?, parseKey fuel rest with
        | some g, some (k, ke, r) => (parsePL fuel r).map fun (ps, r2) => (.setter k ke g ps, r2)
        | _, _ => none
      | _ => none
def parsePat : Nat → Toks → Option (Pat × Toks)
  | 0, _ => none
  | _ + 1, [] => none
  | fuel + 1, tok :: rest =>
    match tok with
    | "{" =>
      match parsePPL fuel rest with
      | some (ps, rt :: r) =>
        if rt = "-" then some (.obj ps none, r)
        else match rt.toList with
          | 'r' :: cs => (String.ofList cs).toNat?.map fun x => (.obj ps (some x), r)
          | _ => none
      | _ => none
    | t =>
      match t.toList with
      | 'v' :: cs => (String.ofList cs).toNat?.map fun x => (.var x, rest)
      | _ => none
def parsePPL : Nat → Toks → Option (PPL × Toks)
  | 0, _ => none
  | _ + 1, [] => none
  | fuel + 1, tok :: rest =>
    match tok with
    | "." => some (.nil, rest)
    | "p" =>
      match parseKey fuel rest with
      | some (k, ke, r) =>
        match parsePat fuel r with
        | some (t, "-" :: r2) => (parsePPL fuel r2).map fun (tl, r3) => (.prop k ke t false (.lit .undef) tl, r3)
        | some (t, "=" :: r2) =>
          match parseE fuel r2 with
          | some (d, r3) => (parsePPL fuel r3).map fun (tl, r4) => (.prop k ke t true d tl, r4)
          | none => none
        | _ => none
      | none => none
    | _ => none
end

def parseDecls : Nat → Toks → Option (List (Pat × E))
  | 0, _ => none
  | _ + 1, [";"] => some []
  | fuel + 1, toks =>
    match parsePat 400 toks with
    | some (p, r) =>
      match parseE 400 r with
      | some (e, r2) => (parseDecls fuel r2).map fun ds => (p, e) :: ds
      | none => none
    | none => none

def parseStmt (toks : Toks) : Option Stmt :=
  match toks with
  | "E" :: r =>
    match parseE 400 r with
    | some (e, []) => some (.expr e)
    | _ => none
  | "L" :: r => (parseDecls 100 r).map .decl
  | _ => none

def driver (args : List String) : String :=
  match args with
  | [src] =>
    match parseStmt (src.splitOn " ") with
    | some st => showStmt (lowerS st)
    | none => "bad-op"
  | _ => "bad-op"

-- ---------------------------------------------------------------- a concrete world for testing the evaluators against Node
/-
Kernel `objrestsem`: the source statement is executed with `execStmt` (guard off: the language as it is) and its
lowering with `execStmt` too, in a deterministic pseudo-random world that the harness re-implements in JavaScript
(ordinary objects whose properties are getters that log; functions f0..f2; getters W.getter(n, this) in literals;
Symbol.toPrimitive), and result, trace and final variables are compared with what Node 20 reports for the source
text and for the text esbuild emits (--supported:object-rest-spread=false).
-/

def mix (a b : Nat) : Nat := (a * 1000003 + b * 7919 + 12345) % 1000000007

def pickVal (c : Nat) : Val :=
  match c % 16 with
  | 0 => .undef
  | 1 => .null
  | 2 => .num 0
  | 3 => .num 7
  | 4 => .str ""
  | 5 => .str "a"
  | 6 => .str "b"
  | 7 => .str "c"
  | 8 => .str "xy"
  | 9 => .sym ((c / 16) % 3)
  | 10 => .obj (10 + (c / 16) % 3)
  | 11 => .obj (13 + (c / 16) % 3)
  | 12 => .obj (10 + (c / 16) % 6)
  | 13 => .str "d"
  | 14 => .str "x1"
  | _ => .undef

def worldNames : List String := ["a", "b", "c", "d", "x1", "__proto__"]

/-- the own string keys of world object i: a rotation of the names, each kept with probability 1/2
("__proto__": 1/8) -/
def testStrKeys (seed i : Nat) : List String :=
  let c := mix seed (500 + i)
  let rot := c % 6
  let names := worldNames.drop rot ++ worldNames.take rot
  (names.zipIdx.filter fun (nm, j) =>
    if nm == "__proto__" then (c / 64) % 8 == 0 else (c / (6 * 2 ^ j)) % 2 == 0).map (·.1)

def testSymKeys (seed i : Nat) : List Nat :=
  let c := mix seed (600 + i)
  ([0, 1, 2].filter fun j => (c / 2 ^ j) % 2 == 0)

def testEnumerable (seed i : Nat) (k : Key) : Bool :=
  match k with
  | .str s => (mix seed (700 + 10 * i + s.length + (s.toList.headD 'a').toNat)) % 5 != 0
  | .sym j => (mix seed (800 + 10 * i + j)) % 4 != 0

/-- events that JavaScript code can observe -/
def isReal : Ev → Bool
  | .toPrim _ (.rcd _ _ _) => false
  | _ => true

def testDecide (c : Nat) (env : Env) : HRes × Env :=
  (if c % 13 == 0 then .throw (.num 99) else .ret (pickVal (c / 13)),
   if (c / 3) % 6 == 0 then upd env ((c / 18) % 4) (pickVal (c / 72)) else env)

def testWorld (seed : Nat) : World :=
  { host := fun ev tr env =>
      let n := (tr.filter isReal).length
      match ev with
      | .call f _ => testDecide (mix seed (mix n (100 + f))) env
      | .get o k =>
        let r := testDecide (mix seed (mix n (1 + o))) env
        -- an own "__proto__" property never holds an object
        if k = .str "__proto__" then (match r.1 with | .ret (.obj _) => (.ret .null, r.2) | _ => r) else r
      | .getter g _ => testDecide (mix seed (mix n (40 + g))) env
      | .toPrim hint (.obj i) => testDecide (mix seed (mix n (200 + i + (if hint = .default then 50 else 0)))) env
      | .toPrim _ _ => (.ret (.str "[object Object]"), env),
    -- objects 14 and 15 change while they are read: the first read of a property of object 15 deletes its last
    -- string key; the first read of a property of object 14 gives it the symbol key Y2 (if it did not have it)
    -- (enumerability never changes: V8's for-in treats the Proxy objects of the harness differently from ordinary
    -- objects in that respect; `for (k in o)` on an ordinary object decides enumerability when the loop starts,
    -- checked by hand on Node 20)
    strKeys := fun i tr =>
      let ks := testStrKeys seed i
      if i = 15 && tr.any (fun ev => match ev with | .get 15 _ => true | _ => false) then ks.dropLast else ks,
    symKeys := fun i tr =>
      let ys := testSymKeys seed i
      if i = 14 && !ys.contains 2 && tr.any (fun ev => match ev with | .get 14 _ => true | _ => false) then ys ++ [2] else ys,
    enumerable := fun i k _ => testEnumerable seed i k }

/-- v1 and v3 start as objects of the world, v0 and v2 as anything -/
def testEnv (seed : Nat) : Env := fun x =>
  if x % 2 == 1 then .obj (10 + (mix seed (900 + x)) % 6) else pickVal (mix seed (900 + x))

/-- a canonical array index -/
def isIndex (s : String) : Option Nat :=
  match s.toNat? with
  | some i => if toString i == s && i < 4294967295 then some i else none
  | none => none

def insertIdx (p : Nat × String) : List (Nat × String) → List (Nat × String)
  | [] => [p]
  | q :: r => if p.1 < q.1 then p :: q :: r else q :: insertIdx p r

mutual
def semVal : Val → String
  | .undef => "u"
  | .null => "n"
  | .num n => s!"N{n}"
  | .str s => "S<" ++ s ++ ">"
  | .sym i => s!"Y{i}"
  | .obj i => s!"O{i}"
  | .rcd p ss ys =>
    let sp := match p with
      | .undef => "d"
      | .null => "n"
      | p => semVal p
    -- JavaScript lists array-index keys first, in ascending order; the model keeps creation order (see the
    -- ASSUMPTION in Spec/ObjectOps.lean), so the printed form is made canonical here
    let all := semStrs ss
    let idx := (all.filterMap fun (k, t) => (isIndex k).map fun i => (i, t)).foldl (fun acc p => insertIdx p acc) []
    let other := (all.filter fun (k, _) => (isIndex k).isNone).map (·.2)
    "{" ++ sp ++ "|" ++ ",".intercalate (idx.map (·.2) ++ other) ++ "|" ++ ",".intercalate (semSyms ys) ++ "}"
def semStrs : List (String × Slot Val) → List (String × String)
  | [] => []
  | (k, sl) :: r => (k, k ++ ":" ++ semSlot sl) :: semStrs r
def semSyms : List (Nat × Slot Val) → List String
  | [] => []
  | (k, sl) :: r => (s!"Y{k}:" ++ semSlot sl) :: semSyms r
def semSlot : Slot Val → String
  | .data v => "D" ++ semVal v
  | .acc g s =>
    "A(" ++ (match g with | some g => toString g | none => "-") ++ "," ++ (match s with | some g => toString g | none => "-") ++ ")"
end

def semKey : Key → String
  | .str s => s
  | .sym j => s!"Y{j}"

def semEv : Ev → String
  | .call f a => s!"call:{f}:{semVal a}"
  | .get o k => s!"get:O{o}:{semKey k}"
  | .getter g this => s!"getter:{g}:{semVal this}"
  | .toPrim hint o => (if hint = .string then "prim:S:" else "prim:D:") ++ semVal o

def semRes : Res → String
  | .ok _ => "V"
  | .err .typeError => "E:TypeError"
  | .err (.host v) => "E:throw:" ++ semVal v
  | .err (.outside _) => "E:OUTSIDE"
  | .err .illFormed => "E:ILLFORMED"

/-- result | observable trace | final v0..v3 -/
def semShow (r : Res) (h : H) : String :=
  semRes r ++ "|" ++ ";".intercalate ((h.tr.filter isReal).map semEv) ++ "|" ++
    ",".intercalate ((List.range 4).map fun x => semVal (h.env x))

def semDriver (args : List String) : String :=
  match args with
  | [seedS, src] =>
    match seedS.toNat?, parseStmt (src.splitOn " ") with
    | some seed, some st =>
      let w := testWorld seed
      let s0 : TState := ⟨⟨[], testEnv seed⟩, fun _ => .undef⟩
      let rs := execStmt w false st s0
      let rt := execStmt w false (lowerS st) s0
      semShow rs.1 rs.2.h ++ " ## " ++ semShow rt.1 rt.2.h
    | _, _ => "bad-op"
  | _ => "bad-op"

/-- the test world without the two objects that change while they are read (it satisfies `Quiet`) -/
def quietWorld (seed : Nat) : World :=
  { testWorld seed with
    strKeys := fun i _ => testStrKeys seed i,
    symKeys := fun i _ => testSymKeys seed i }

def showHz : Hz → String
  | .objectKey => "objectKey"
  | .protoKey => "protoKey"
  | .nullRest => "nullRest"
  | .keyReread => "keyReread"
  | .protoAfterSpread => "protoAfterSpread"
  | .accessorSplit => "accessorSplit"

/-- a test of the STATEMENT of the theorems of Props/C05ObjRest.lean on one case (not used by any check; handy
when the model changes): in the quiet world, either the guarded source run stops at one of the recorded
situations, or source and lowered statement agree on result, trace and variables -/
def chkDriver (args : List String) : String :=
  match args with
  | [seedS, src] =>
    match seedS.toNat?, parseStmt (src.splitOn " ") with
    | some seed, some st =>
      let w := quietWorld seed
      let s0 : TState := ⟨⟨[], testEnv seed⟩, fun _ => .undef⟩
      let rs := execStmt w true st s0
      let rt := execStmt w true (lowerS st) s0
      match rs.1 with
      | .err (.outside z) => "HAZARD:" ++ showHz z
      | _ => if semShow rs.1 rs.2.h == semShow rt.1 rt.2.h then "SAME" else "VIOLATION " ++ semShow rs.1 rs.2.h ++ " ## " ++ semShow rt.1 rt.2.h
    | _, _ => "bad-op"
  | _ => "bad-op"

end EsbuildModel.Lower3
