/-
Impl/StmtMangleDriver — wire format (prefix tokens separated by " ") for the statement language and the line
protocol of kernel `stmtmangle`:

  fn <ubMask> <nullishOK> <program>      →  visitFnBody on the statement list, printed in the same format

Statement tokens (expressions as in Impl/MiniJS `showE`):
  E | X e | D:<k>:<n> d… | I0 e s | I1 e s s | B:<n> s… | R0 | R1 e | T e | K:- | K:<l> | C:- | C:<l> | L:<l> s
  | F init test update s | W e s | O s e | f:<name>:<fid>
  d ::= v:<name> | w:<name> e      init ::= i- | iX e | iD:<k>:<n> d…     test/update ::= o- | o+ e
-/
import EsbuildModel.Impl.StmtMangle
namespace EsbuildModel.MiniJS

def showKind : DeclKind → String
  | .var => "var" | .letK => "let" | .const => "const"

def parseKind : String → Option DeclKind
  | "var" => some .var | "let" => some .letK | "const" => some .const
  | _ => none

def showDecls : List Decl → String
  | [] => ""
  | d :: ds =>
    (match d.init with
     | none => " v:" ++ toString d.name
     | some e => " w:" ++ toString d.name ++ " " ++ showE e) ++ showDecls ds

def showOptE : Option Expr → String
  | none => "o-"
  | some e => "o+ " ++ showE e

def showLab : Option Nat → String
  | none => "-"
  | some l => toString l

def showInit : ForInit → String
  | .none => "i-"
  | .expr e => "iX " ++ showE e
  | .decl k ds => "iD:" ++ showKind k ++ ":" ++ toString ds.length ++ showDecls ds

mutual
def showS : Stmt → String
  | .empty => "E"
  | .expr e => "X " ++ showE e
  | .decl k ds => "D:" ++ showKind k ++ ":" ++ toString ds.length ++ showDecls ds
  | .ifS c y none => "I0 " ++ showE c ++ " " ++ showS y
  | .ifS c y (some n) => "I1 " ++ showE c ++ " " ++ showS y ++ " " ++ showS n
  | .block ss => "B:" ++ toString ss.length ++ showL ss
  | .ret none => "R0"
  | .ret (some e) => "R1 " ++ showE e
  | .throw e => "T " ++ showE e
  | .brk l => "K:" ++ showLab l
  | .cont l => "C:" ++ showLab l
  | .label l s => "L:" ++ toString l ++ " " ++ showS s
  | .forS i t u b => "F " ++ showInit i ++ " " ++ showOptE t ++ " " ++ showOptE u ++ " " ++ showS b
  | .whileS c b => "W " ++ showE c ++ " " ++ showS b
  | .doWhile b c => "O " ++ showS b ++ " " ++ showE c
  | .func f fid => "f:" ++ toString f ++ ":" ++ toString fid
def showL : List Stmt → String
  | [] => ""
  | s :: ss => " " ++ showS s ++ showL ss
end

def showProgram (ss : List Stmt) : String := "B:" ++ toString ss.length ++ showL ss

def parseDecls : Nat → Nat → List String → Option (List Decl × List String)
  | 0, _, _ => none
  | _ + 1, 0, toks => some ([], toks)
  | _ + 1, _ + 1, [] => none
  | fuel + 1, k + 1, tok :: rest =>
    match tok.splitOn ":" with
    | ["v", a] =>
      match a.toNat?, parseDecls fuel k rest with
      | some x, some (ds, r) => some (⟨x, none⟩ :: ds, r)
      | _, _ => none
    | ["w", a] =>
      match a.toNat?, parseE fuel rest with
      | some x, some (e, r) =>
        match parseDecls fuel k r with
        | some (ds, r2) => some (⟨x, some e⟩ :: ds, r2)
        | none => none
      | _, _ => none
    | _ => none

def parseOptE (fuel : Nat) : List String → Option (Option Expr × List String)
  | "o-" :: rest => some (none, rest)
  | "o+" :: rest => (parseE fuel rest).map fun (e, r) => (some e, r)
  | _ => none

def parseLab (s : String) : Option (Option Nat) :=
  if s = "-" then some none else s.toNat?.map some

def parseInit (fuel : Nat) : List String → Option (ForInit × List String)
  | [] => none
  | tok :: rest =>
    match tok.splitOn ":" with
    | ["i-"] => some (.none, rest)
    | ["iX"] => (parseE fuel rest).map fun (e, r) => (.expr e, r)
    | ["iD", k, n] =>
      match parseKind k, n.toNat? with
      | some k, some n => (parseDecls fuel n rest).map fun (ds, r) => (.decl k ds, r)
      | _, _ => none
    | _ => none

mutual
def parseS : Nat → List String → Option (Stmt × List String)
  | 0, _ => none
  | _ + 1, [] => none
  | fuel + 1, tok :: rest =>
    match tok.splitOn ":" with
    | ["E"] => some (.empty, rest)
    | ["X"] => (parseE fuel rest).map fun (e, r) => (.expr e, r)
    | ["D", k, n] =>
      match parseKind k, n.toNat? with
      | some k, some n => (parseDecls fuel n rest).map fun (ds, r) => (.decl k ds, r)
      | _, _ => none
    | ["I0"] =>
      match parseE fuel rest with
      | some (c, r) => (parseS fuel r).map fun (y, r2) => (.ifS c y none, r2)
      | none => none
    | ["I1"] =>
      match parseE fuel rest with
      | some (c, r) =>
        match parseS fuel r with
        | some (y, r2) => (parseS fuel r2).map fun (n, r3) => (.ifS c y (some n), r3)
        | none => none
      | none => none
    | ["B", n] =>
      match n.toNat? with
      | some n => (parseSL fuel n rest).map fun (ss, r) => (.block ss, r)
      | none => none
    | ["R0"] => some (.ret none, rest)
    | ["R1"] => (parseE fuel rest).map fun (e, r) => (.ret (some e), r)
    | ["T"] => (parseE fuel rest).map fun (e, r) => (.throw e, r)
    | ["K", l] => (parseLab l).map fun l => (.brk l, rest)
    | ["C", l] => (parseLab l).map fun l => (.cont l, rest)
    | ["L", l] =>
      match l.toNat? with
      | some l => (parseS fuel rest).map fun (s, r) => (.label l s, r)
      | none => none
    | ["F"] =>
      match parseInit fuel rest with
      | some (i, r) =>
        match parseOptE fuel r with
        | some (t, r2) =>
          match parseOptE fuel r2 with
          | some (u, r3) => (parseS fuel r3).map fun (b, r4) => (.forS i t u b, r4)
          | none => none
        | none => none
      | none => none
    | ["W"] =>
      match parseE fuel rest with
      | some (c, r) => (parseS fuel r).map fun (b, r2) => (.whileS c b, r2)
      | none => none
    | ["O"] =>
      match parseS fuel rest with
      | some (b, r) => (parseE fuel r).map fun (c, r2) => (.doWhile b c, r2)
      | none => none
    | ["f", a, b] =>
      match a.toNat?, b.toNat? with
      | some a, some b => some (.func a b, rest)
      | _, _ => none
    | _ => none
def parseSL : Nat → Nat → List String → Option (List Stmt × List String)
  | 0, _, _ => none
  | _ + 1, 0, toks => some ([], toks)
  | fuel + 1, k + 1, toks =>
    match parseS fuel toks with
    | some (s, r) => (parseSL fuel k r).map fun (ss, r2) => (s :: ss, r2)
    | none => none
end

def parseProgram (s : String) : Option (List Stmt) :=
  let toks := s.splitOn " "
  match parseS (2 * toks.length + 2) toks with
  | some (.block ss, []) => some ss
  | _ => none

def stmtMangleDriver (args : List String) : String :=
  match args with
  | ["fn", m, nl, prog] =>
    match m.toNat?, nl.toNat?, parseProgram prog with
    | some m, some nl, some ss => showProgram (visitFnBody ⟨ubOfMask m, nl == 1⟩ ss)
    | _, _, _ => "bad-op"
  | ["mangle", m, nl, k, prog] =>
    match m.toNat?, nl.toNat?, k.toNat?, parseProgram prog with
    | some m, some nl, some k, some ss =>
      showProgram (mangleStmts ⟨ubOfMask m, nl == 1⟩ (if k = 1 then .loopBody else if k = 2 then .fnBody else .normal) ss)
    | _, _, _, _ => "bad-op"
  | _ => "bad-op"

end EsbuildModel.MiniJS
