import EsbuildModel.Impl.OutPathsDriver
import EsbuildModel.Impl.IsoHash
/-
Model of how esbuild NAMES the files emitted by the "file" and "copy" loaders (property C18: a hashed
output name identifies its bytes) and of the string their importers receive.

  * `internal/bundler/bundler.go`, `scanner.processScannedFiles`: the block "If this file is from the
    "file" or "copy" loaders, generate an additional file" (template choice `AssetPathTemplate` /
    `EntryPathTemplate`, `entryPointSourceIndexToMetaIndex` (the LAST entry point of a source wins),
    `config.HasPlaceholder(template, HashPlaceholder)`, `xxhash.New(); h.Write(bytes); HashForFileName(h.Sum(nil))`,
    the `useOutputFile` branch, `PathRelativeToOutbase`, `TemplateToString(SubstituteTemplate(…)) + ext`,
    `AbsPath: s.fs.Join(AbsOutputDir, relPath)`);  `parseFile`: `uniqueKeyPath := uniqueKey + IgnoredSuffix`.
  * `internal/linker/linker.go`: `substituteFinalPaths` case `outputPieceAssetIndex`
    (`relPath, _ := c.fs.Rel(AbsOutputDir, AdditionalFiles[0].AbsPath)`, `ReplaceAll(relPath, "\\", "/")`,
    `modifyPath(relPath)` = `pathBetweenChunks(c.fs.Dir(chunk.finalRelPath), relPath)`), `pathBetweenChunks`,
    `joinWithPublicPath`;  `appendIsolatedHashesForImportedChunks` mixes the same `relPath` into the final hash
    of the chunk that refers to the asset (`Impl/ChunkHash.lean` models that traversal).
  * `internal/bundler/bundler.go` `Compile`: two output files with one path (`OutPaths.dedupe`).

The path functions, `PathRelativeToOutbase`, the templates and the output paths of entry points are the models
of `Impl/OutPaths*.lean`; the digest and `HashForFileName` are those of `Impl/IsoHash.lean`.
Strings are byte strings (`OutPaths.Str`); file contents are lists of bytes (`Nat` < 256).
-/
namespace EsbuildModel.AssetHash
open EsbuildModel.OutPaths

/-- `h := xxhash.New(); h.Write(bytes); hash = HashForFileName(h.Sum(nil))`; `none` = the slice expression
`[:8]` of `HashForFileName` panics (shown impossible in the lemmas: a digest has 8 bytes). -/
def contentHash (bytes : List Nat) : Option Str :=
  (IsoHash.hashForFileName (IsoHash.Digest.new.write bytes).sum).map (·.map Char.ofNat)

inductive Loader where
  | file | copy
  deriving DecidableEq, Repr

/-- an input file whose `UniqueKeyForAdditionalFile` is set -/
structure Asset where
  /-- `Source.KeyPath.Text` (namespace "file") -/
  keyText : Str
  /-- `Source.KeyPath.IgnoredSuffix` (the `?query` / `#fragment` the resolver split off the import path) -/
  suffix : Str := []
  loader : Loader
  /-- `Source.Contents` -/
  bytes : List Nat
  deriving DecidableEq, Repr

/-- the fields of `config.Options` the block reads -/
structure Opts where
  outdir : Str          -- AbsOutputDir
  outbase : Str         -- AbsOutputBase (as left by addEntryPoints)
  outfile : Str := []   -- AbsOutputFile ("" = not given)
  entryT : List Part    -- EntryPathTemplate
  assetT : List Part    -- AssetPathTemplate
  publicPath : Str := []

/-- the locals `template`, `customFilePath`, `useOutputFile`, `isEntryPoint` after the `if Loader == LoaderCopy` -/
structure Naming where
  template : List Part
  custom : Str
  useOutputFile : Bool
  isEntryPoint : Bool
  deriving DecidableEq, Repr

/-- `entryOut` is the result of the lookup `entryPointSourceIndexToMetaIndex[sourceIndex]`: the `OutputPath` of
the entry point this source is, if it is one.  "With the "file" loader the JS stub is the entry point, but
with the "copy" loader the file is the entry point itself." -/
def naming (o : Opts) (a : Asset) (entryOut : Option Str) : Naming :=
  match a.loader, entryOut with
  | .copy, some out => ⟨o.entryT, out, o.outfile ≠ [], true⟩
  | _, _ => ⟨o.assetT, [], false, false⟩

/-- "Add a hash to the file name": computed only when the template THAT WAS CHOSEN has `[hash]`;
otherwise the empty string.  `none` = panic. -/
def hashFor (template : List Part) (bytes : List Nat) : Option Str :=
  if hasPlaceholder template .hash then contentHash bytes else some []

/-- the locals `dir`, `base`, `ext` -/
def dirBaseExt (o : Opts) (a : Asset) (n : Naming) : Str × Str × Str :=
  if n.useOutputFile then
    -- "If the output path was configured explicitly, use it verbatim"
    let b := base o.outfile
    (['/'], stripExt b, ext b)
  else
    let (d, b) := pathRelativeToOutbase a.keyText true o.outbase false n.custom
    (d, b, (pidbe a.keyText).2.2)

/-- the four values handed to `SubstituteTemplate` (all four pointers are non-nil) -/
def values (d b h e : Str) : Placeholders :=
  { dir := some d, name := some b, hash := some h, ext := some (trimDot e) }

/-- the local `relPath` of the block -/
def relPath (o : Opts) (a : Asset) (entryOut : Option Str) : Option Str :=
  let n := naming o a entryOut
  match hashFor n.template a.bytes with
  | none => none
  | some h =>
    let (d, b, e) := dirBaseExt o a n
    some (templateToString (substituteTemplate n.template (values d b h e)) ++ e)

/-- `AdditionalFiles[0]`: `AbsPath: s.fs.Join(AbsOutputDir, relPath)`, `Contents: bytes`, `CanBeMerged: true` -/
def outFile (o : Opts) (a : Asset) (entryOut : Option Str) : Option OutFile :=
  (relPath o a entryOut).map fun r => ⟨join [o.outdir, r], a.bytes, true⟩

-- ---------------------------------------------------------------- the importer's side (linker)

/-- the `for` loop of `joinWithPublicPath`: "Strip any amount of further no-op slashes" -/
def stripNoop : Str → Str
  | '/' :: r => stripNoop r
  | '.' :: '/' :: r => stripNoop r
  | s => s

/-- `if strings.HasPrefix(relPath, "./") { relPath = relPath[2:]; for … }` -/
def stripLead : Str → Str
  | '.' :: '/' :: r => stripNoop r
  | r => r

/-- `joinWithPublicPath` -/
def joinWithPublicPath (publicPath rel : Str) : Str :=
  let rel := stripLead rel
  let publicPath := if publicPath = [] then ['.'] else publicPath
  let slash : Str := if publicPath.getLast? = some '/' then [] else ['/']
  publicPath ++ slash ++ rel

/-- `pathBetweenChunks`; `none` = the error "Cannot traverse from directory … to chunk …" (the Go function
then returns "") -/
def pathBetweenChunks (publicPath fromRelDir toRelPath : Str) : Option Str :=
  if publicPath ≠ [] then some (joinWithPublicPath publicPath toRelPath)
  else
    match fsRel fromRelDir toRelPath with
    | none => none
    | some r =>
      let r := replaceBackslash r
      some (if (lit "./").isPrefixOf r ∨ (lit "../").isPrefixOf r then r else lit "./" ++ r)

/-- `substituteFinalPaths`, case `outputPieceAssetIndex`: the path relative to the output directory that is
handed to `modifyPath` (and mixed into the final hash of the referring chunk).  `relPath, _ := c.fs.Rel(…)`
ignores a failure: the Go value is then "". -/
def relFromOutdir (outdir assetAbs : Str) : Str :=
  replaceBackslash (match fsRel outdir assetAbs with
    | some r => r
    | none => [])

/-- the text that replaces the unique key of the asset in a chunk whose `finalRelPath` is `chunkRel`, followed
by the `IgnoredSuffix` that was printed behind the key: the string an importer receives
(`import x from "./a.png"` under the "file" loader, the rewritten import path / `url()` under "copy") -/
def importerString (publicPath outdir chunkRel assetAbs suffix : Str) : Option Str :=
  (pathBetweenChunks publicPath (dir chunkRel) (relFromOutdir outdir assetAbs)).map (· ++ suffix)

end EsbuildModel.AssetHash
