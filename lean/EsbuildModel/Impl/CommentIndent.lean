import EsbuildModel.Impl.Wtf8
import EsbuildModel.Util.Wire
/-
Model of `(*Source).CommentTextWithoutIndent(r Range) string` of `internal/logger/logger.go`: the routine that
re-indents a multi-line comment (`/*! … */`, `@license`, `@preserve`, comments kept in expressions) before it
is stored in the AST.  Callers: `js_parser.go` (`parseStmtsUpTo`, `saveExprCommentsHere`) with the ranges the
JS lexer recorded, `css_lexer.go` (`consumeToEndOfMultiLineComment`) with `startRange.Loc … commentEnd`.

Bytes are naturals (`List Nat`, as in `Impl/Wtf8.lean`; the theorems hold for every list, so in particular for
the lists of numbers below 256).  `r.Loc.Start` and `r.Len` are `int32` (`Int` here, `r.End()` wraps);
every local `int` of the routine (`start`, `i`, `indent`, `lineIndent`) is only ever assigned a sum of
non-negative values and is a `Nat`.

Go's `for i, c := range text` is the language's UTF-8 decoding `Wtf8.goDecodeRune` (ill-formed or truncated
sequence = U+FFFD, width 1); `utf8.DecodeLastRuneInString` is transcribed below from `unicode/utf8`.
EVERY slice and index expression is guarded: out of range = `Res.panic`.  A loop that Go would never leave
(the backward loop if the decoder ever returned width 0 on a non-empty string) = `Res.hang`.
-/
namespace EsbuildModel.CommentIndent
open EsbuildModel.Wtf8 (goDecodeRune runeError)

inductive Res (α : Type) where
  | ok (a : α)
  | panic
  | hang
deriving DecidableEq, Repr

/-- `s[a:b]` with `int` operands -/
def slice (s : List Nat) (a b : Int) : Res (List Nat) :=
  if 0 ≤ a ∧ a ≤ b ∧ b ≤ s.length then .ok ((s.take b.toNat).drop a.toNat) else .panic

/-- `s[a:b]` with operands known to be non-negative -/
def sliceN (s : List Nat) (a b : Nat) : Res (List Nat) :=
  if a ≤ b ∧ b ≤ s.length then .ok ((s.take b).drop a) else .panic

/-- `s[i]` -/
def getAt (s : List Nat) (i : Int) : Res Nat :=
  if 0 ≤ i then
    match s[i.toNat]? with
    | some b => .ok b
    | none => .panic
  else .panic

/-- `int32(x)` -/
def wrap32 (x : Int) : Int := (x + 2147483648) % 4294967296 - 2147483648

/-! ### `utf8.DecodeLastRuneInString` -/

/-- `utf8.RuneStart(b)`: `b&0xC0 != 0x80` -/
def runeStart (b : Nat) : Bool := b &&& 0xC0 != 0x80

/-- `for start--; start >= lim; start-- { if RuneStart(s[start]) { break } }`, entered with the decremented
`start`; `n` = number of indices still to be tested (`start - lim + 1`); the result is `start` after the loop -/
def scanBack (s : List Nat) : Nat → Int → Res Int
  | 0, start => .ok start
  | n + 1, start =>
    match getAt s start with
    | .ok b => if runeStart b then .ok start else scanBack s n (start - 1)
    | .panic => .panic
    | .hang => .hang

/-- `utf8.DecodeLastRuneInString(s)`: `(rune, size)` -/
def decodeLastRune (s : List Nat) : Res (Nat × Nat) :=
  let end_ : Int := s.length
  if end_ = 0 then .ok (runeError, 0) else
  match getAt s (end_ - 1) with
  | .panic => .panic
  | .hang => .hang
  | .ok r =>
  if r < 0x80 then .ok (r, 1) else
  let lim : Int := if end_ - 4 < 0 then 0 else end_ - 4
  match scanBack s (end_ - 2 - lim + 1).toNat (end_ - 2) with
  | .panic => .panic
  | .hang => .hang
  | .ok start =>
  let start : Int := if start < 0 then 0 else start
  match slice s start end_ with
  | .panic => .panic
  | .hang => .hang
  | .ok [] => .ok (runeError, 0)
  | .ok (s0 :: rest) =>
    let rs := goDecodeRune s0 rest
    if start + rs.2 ≠ end_ then .ok (runeError, 1) else .ok rs

/-! ### the routine -/

/-- `case '\r', '\n', '\u2028', '\u2029':` -/
def isTermRune (c : Nat) : Bool := c == 13 || c == 10 || c == 0x2028 || c == 0x2029

/-- "Figure out the initial indent": the loop `for len(prefix) > 0 { c, size := DecodeLastRuneInString(prefix); … }`.
`fuel` bounds the iterations (`len(prefix) + 1` is enough since every iteration removes `size ≥ 1` bytes;
a `size` of 0 would make the Go loop spin for ever: `hang`). -/
def seekBack : Nat → List Nat → Nat → Res Nat
  | 0, _, _ => .hang
  | fuel + 1, pre, indent =>
    if pre.length = 0 then .ok indent else
    match decodeLastRune pre with
    | .panic => .panic
    | .hang => .hang
    | .ok (c, size) =>
      if isTermRune c then .ok indent else
      if size = 0 then .hang else
      -- prefix = prefix[:len(prefix)-size]
      if size ≤ pre.length then
        match sliceN pre 0 (pre.length - size) with
        | .ok pre' => seekBack fuel pre' (indent + 1)
        | .panic => .panic
        | .hang => .hang
      else .panic

/-- the local variables `start` and `lines` of "Split the comment into lines" -/
structure SplitSt where
  start : Nat
  lines : List (List Nat)
deriving DecidableEq, Repr

/-- the body of `for i, c := range text { switch c { … } }` -/
def splitStep (text : List Nat) (st : SplitSt) (i c : Nat) : Res SplitSt :=
  if c = 13 ∨ c = 10 then
    -- if start <= i { lines = append(lines, text[start:i]) }
    let appended : Res (List (List Nat)) :=
      if st.start ≤ i then
        match sliceN text st.start i with
        | .ok l => .ok (st.lines ++ [l])
        | .panic => .panic
        | .hang => .hang
      else .ok st.lines
    match appended with
    | .panic => .panic
    | .hang => .hang
    | .ok lines =>
      let start := i + 1
      -- if c == '\r' && start < len(text) && text[start] == '\n' { start++ }
      if c = 13 ∧ start < text.length then
        match getAt text start with
        | .ok b => if b = 10 then .ok ⟨start + 1, lines⟩ else .ok ⟨start, lines⟩
        | .panic => .panic
        | .hang => .hang
      else .ok ⟨start, lines⟩
  else if c = 0x2028 ∨ c = 0x2029 then
    -- lines = append(lines, text[start:i]); start = i + 3
    match sliceN text st.start i with
    | .ok l => .ok ⟨i + 3, st.lines ++ [l]⟩
    | .panic => .panic
    | .hang => .hang
  else .ok st

/-- `for i, c := range text`: `rem = text[i:]`, `skip` bytes of the current rune are still to be passed over -/
def splitLoop (text : List Nat) : Nat → Nat → List Nat → SplitSt → Res SplitSt
  | _, _, [], st => .ok st
  | k + 1, i, _ :: rest, st => splitLoop text k (i + 1) rest st
  | 0, i, b :: rest, st =>
    match splitStep text st i (goDecodeRune b rest).1 with
    | .ok st' => splitLoop text ((goDecodeRune b rest).2 - 1) (i + 1) rest st'
    | .panic => .panic
    | .hang => .hang

/-- "Split the comment into lines", including the final `lines = append(lines, text[start:])` -/
def splitLines (text : List Nat) : Res (List (List Nat)) :=
  match splitLoop text 0 0 text ⟨0, []⟩ with
  | .panic => .panic
  | .hang => .hang
  | .ok st =>
    match sliceN text st.start text.length with
    | .ok l => .ok (st.lines ++ [l])
    | .panic => .panic
    | .hang => .hang

/-- `for _, c := range line { if c != ' ' && c != '\t' { break }; lineIndent++ }` -/
def lineIndentLoop : Nat → List Nat → Nat → Nat
  | _, [], n => n
  | k + 1, _ :: rest, n => lineIndentLoop k rest n
  | 0, b :: rest, n =>
    if (goDecodeRune b rest).1 ≠ 32 ∧ (goDecodeRune b rest).1 ≠ 9 then n
    else lineIndentLoop ((goDecodeRune b rest).2 - 1) rest (n + 1)

def lineIndent (line : List Nat) : Nat := lineIndentLoop 0 line 0

/-- "Find the minimum indent over all lines after the first line" (`later = lines[1:]`) -/
def minIndent (indent : Nat) : List (List Nat) → Nat
  | [] => indent
  | line :: rest => minIndent (if indent > lineIndent line then lineIndent line else indent) rest

/-- "Trim the indent off of all lines after the first line": `lines[i] = line[indent:]` for `i > 0` -/
def trimAll (indent : Nat) : List (List Nat) → Res (List (List Nat))
  | [] => .ok []
  | line :: rest =>
    match sliceN line indent line.length with
    | .panic => .panic
    | .hang => .hang
    | .ok l =>
      match trimAll indent rest with
      | .ok ls => .ok (l :: ls)
      | .panic => .panic
      | .hang => .hang

/-- `strings.Join(lines, "\n")` -/
def joinLines : List (List Nat) → List Nat
  | [] => []
  | l :: ls => l ++ ls.flatMap (fun m => 10 :: m)

/-- `(*Source).CommentTextWithoutIndent(Range{Loc{start}, len})` on `Source{Contents: contents}` -/
def commentTextWithoutIndent (contents : List Nat) (start len : Int) : Res (List Nat) :=
  -- text := s.Contents[r.Loc.Start:r.End()]
  match slice contents start (wrap32 (start + len)) with
  | .panic => .panic
  | .hang => .hang
  | .ok text =>
  -- if len(text) < 2 || !strings.HasPrefix(text, "/*") { return text }
  if text.length < 2 ∨ text.take 2 ≠ [0x2F, 0x2A] then .ok text else
  -- prefix := s.Contents[:r.Loc.Start]
  match slice contents 0 start with
  | .panic => .panic
  | .hang => .hang
  | .ok pre =>
  match seekBack (pre.length + 1) pre 0 with
  | .panic => .panic
  | .hang => .hang
  | .ok indent =>
  match splitLines text with
  | .panic => .panic
  | .hang => .hang
  | .ok [] => .panic -- lines[1:]
  | .ok (first :: later) =>
    match trimAll (minIndent indent later) later with
    | .panic => .panic
    | .hang => .hang
    | .ok later' => .ok (joinLines (first :: later'))

/-! ### line protocol -/

def showRes : Res (List Nat) → String
  | .ok b => Wire.hexUnits 2 b
  | .panic => "PANIC"
  | .hang => "HANG"

/-- `commentindent <run|js|css> <contents hex> <start> <len>` -/
def driver (args : List String) : String :=
  match args with
  | [op, hx, s, n] =>
    if op = "run" ∨ op = "js" ∨ op = "css" then
      match Wire.parseHexUnits 2 hx, Wire.parseInt s, Wire.parseInt n with
      | some c, some s, some n =>
        if -2147483648 ≤ s ∧ s < 2147483648 ∧ -2147483648 ≤ n ∧ n < 2147483648 then
          showRes (commentTextWithoutIndent c s n)
        else "bad-op"
      | _, _, _ => "bad-op"
    else "bad-op"
  | _ => "bad-op"

end EsbuildModel.CommentIndent
