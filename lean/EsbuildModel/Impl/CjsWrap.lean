/-
Model of the wrapping decisions of esbuild's linker (internal/linker/linker.go):

* the entry-point loop at the start of `Link` (lazy-export entry points become CommonJS when the output
  format has no ESM syntax; `ForceIncludeExportsForEntryPoint`),
* `scanImportsAndExports` step 1 (which files must be CommonJS / must be wrapped because of the way they are
  imported, and the "no implicit CommonJS wrapper" rule),
* step 2 (`recursivelyWrapDependencies`, `hasDynamicExportsDueToExportStar`, the "importing a CommonJS file
  wraps it" rule), and the `NeedsExportsVariable` assignment of step 4.

The table holds the reachable JavaScript files only (every other file is skipped by the code).  Loops are
structural recursion; the two recursive Go functions get a fuel argument (`none` when it runs out, which
`Lemmas/CjsWrap*.lean` shows never happens with the fuel `scan` supplies); indexing `c.graph.Files[...]` or
`repr.AST.ImportRecords[...]` out of range is a Go panic and is `none` here too (printed as PANIC).
Mutation of `repr.Meta` / `repr.AST.ExportsKind` is a returned table.
-/
namespace EsbuildModel.CjsWrap

/-- js_ast.ExportsKind: ExportsNone, ExportsCommonJS, ExportsESM, ExportsESMWithDynamicFallback -/
inductive Kind | none | cjs | esm | dyn
deriving Repr, DecidableEq, Inhabited

/-- graph.WrapKind -/
inductive Wrap | none | cjs | esm
deriving Repr, DecidableEq, Inhabited

/-- ast.ImportKind as far as step 1 distinguishes it (`other`: entry point, require.resolve, CSS kinds) -/
inductive RecKind | stmt | require | dynamic | other
deriving Repr, DecidableEq, Inhabited

/-- config.Format -/
inductive Format | preserve | iife | cjs | esm
deriving Repr, DecidableEq, Inhabited

/-- config.Mode -/
inductive Mode | passThrough | convertFormat | bundle
deriving Repr, DecidableEq, Inhabited

structure Opts where
  format : Format
  mode : Mode
  splitting : Bool     -- options.CodeSplitting
  globalName : Bool    -- len(options.GlobalName) > 0
deriving Repr, DecidableEq

/-- Format.KeepESMImportExportSyntax -/
def Opts.keepESM (o : Opts) : Bool := o.format == .preserve || o.format == .esm

/-- one ast.ImportRecord -/
structure Rec where
  kind : RecKind
  target : Option Nat   -- record.SourceIndex when valid (position in the table)
  star : Bool           -- ast.ContainsImportStar
  dflt : Bool           -- ast.ContainsDefaultAlias
deriving Repr, DecidableEq

structure File where
  -- read only
  isRuntime : Bool      -- sourceIndex == runtime.SourceIndex
  entry : Bool          -- file.IsEntryPoint()
  lazyExport : Bool     -- AST.HasLazyExport
  exportKw : Bool       -- AST.ExportKeyword.Len > 0
  recs : List Rec       -- AST.ImportRecords
  stars : List Nat      -- AST.ExportStarImportRecords
  -- written by the linker
  kind : Kind           -- AST.ExportsKind
  wrap : Wrap           -- Meta.Wrap
  didWrap : Bool        -- Meta.DidWrapDependencies
  force : Bool          -- Meta.ForceIncludeExportsForEntryPoint
  needsExportsVar : Bool -- Meta.NeedsExportsVariable
deriving Repr, DecidableEq

abbrev Files := List File

/-- `for _, x := range xs { st = f(st, x) }` where the body may panic -/
def forM {α : Type} (f : Files → α → Option Files) : List α → Files → Option Files
  | [], fs => some fs
  | x :: xs, fs =>
    match f fs x with
    | none => none
    | some fs' => forM f xs fs'

/-! ### `Link`: the loop over the user-specified entry points -/

def entryFile (o : Opts) (f : File) : File :=
  let f1 := if f.lazyExport && (o.mode == .passThrough || (o.mode == .convertFormat && !o.keepESM))
            then { f with kind := .cjs } else f
  if f1.exportKw && (o.format == .cjs || (o.format == .iife && o.globalName))
  then { f1 with force := true } else f1

def entryOne (o : Opts) (fs : Files) (e : Nat) : Option Files :=
  match fs[e]? with
  | none => none
  | some f => some (fs.set e (entryFile o f))

/-! ### step 1 -/

/-- `ImportRequire`, and `ImportDynamic` without code splitting -/
def lazyTarget (t : File) : File :=
  if t.kind == .esm then { t with wrap := .esm } else { t with wrap := .cjs, kind := .cjs }

def step1Target (o : Opts) (r : Rec) (t : File) : File :=
  match r.kind with
  | .stmt =>
    if (r.star || r.dflt) && t.kind == .none && !t.lazyExport then { t with wrap := .cjs, kind := .cjs } else t
  | .require => lazyTarget t
  | .dynamic => if !o.splitting then lazyTarget t else t
  | .other => t

def step1Rec (o : Opts) (fs : Files) (r : Rec) : Option Files :=
  match r.target with
  | none => some fs
  | some t =>
    match fs[t]? with
    | none => none
    | some tf => some (fs.set t (step1Target o r tf))

/-- "If the output format doesn't have an implicit CommonJS wrapper, any file that uses CommonJS features
will need to be wrapped" -/
def step1Own (o : Opts) (f : File) : File :=
  if f.kind == .cjs && (!f.entry || o.format == .iife || o.format == .esm) then { f with wrap := .cjs } else f

def step1File (o : Opts) (fs : Files) (i : Nat) : Option Files :=
  match fs[i]? with
  | none => none
  | some f =>
    match forM (step1Rec o) f.recs fs with
    | none => none
    | some fs1 =>
      match fs1[i]? with
      | none => none
      | some f' => some (fs1.set i (step1Own o f'))

def step1 (o : Opts) (order : List Nat) (fs : Files) : Option Files := forM (step1File o) order fs

/-! ### step 2 -/

/-- the body of `recursivelyWrapDependencies` between the `DidWrapDependencies` test and the loop -/
def markWrapped (f : File) : File :=
  let f1 := { f with didWrap := true }
  if f.isRuntime then f1
  else if f.wrap == .none then
    (if f.kind == .cjs then { f1 with wrap := .cjs } else { f1 with wrap := .esm })
  else f1

def targets (rs : List Rec) : List Nat := rs.filterMap (·.target)

/-- `recursivelyWrapDependencies(sourceIndex)` -/
def wrapDeps : Nat → Files → Nat → Option Files
  | 0, _, _ => none
  | fuel + 1, fs, i =>
    match fs[i]? with
    | none => none
    | some f =>
      if f.didWrap then some fs
      else if f.isRuntime then some (fs.set i (markWrapped f))
      else forM (wrapDeps fuel) (targets f.recs) (fs.set i (markWrapped f))

/-- `repr.AST.ExportsKind = k` through the pointer `repr` of file `i` obtained at the start of the Go function (the
index was found in the table there and tables never change length, so the first branch is never taken) -/
def setKind (fs : Files) (i : Nat) (k : Kind) : Files :=
  match fs[i]? with
  | none => fs
  | some f => fs.set i { f with kind := k }

/-- result of `hasDynamicExportsDueToExportStar`: the returned bool, the table, the `visited` map -/
structure DynRes where
  res : Bool
  fs : Files
  vis : List Nat
deriving Repr

/-- the loop `for _, importRecordIndex := range repr.AST.ExportStarImportRecords` of file `i`
(`f` = its read-only fields), `call` = the recursive call -/
def starLoop (o : Opts) (call : Files → List Nat → Nat → Option DynRes) (i : Nat) (f : File) :
    List Nat → Files → List Nat → Option DynRes
  | [], fs, vis => some ⟨false, fs, vis⟩
  | s :: ss, fs, vis =>
    match f.recs[s]? with
    | none => none
    | some r =>
      match r.target with
      | none =>
        if !f.entry || !o.keepESM then some ⟨true, setKind fs i .dyn, vis⟩
        else starLoop o call i f ss fs vis
      | some t =>
        if t != i then
          match call fs vis t with
          | none => none
          | some ⟨true, fs', vis'⟩ => some ⟨true, setKind fs' i .dyn, vis'⟩
          | some ⟨false, fs', vis'⟩ => starLoop o call i f ss fs' vis'
        else starLoop o call i f ss fs vis

/-- `hasDynamicExportsDueToExportStar(sourceIndex, visited)` -/
def hasDyn (o : Opts) : Nat → Files → List Nat → Nat → Option DynRes
  | 0, _, _, _ => none
  | fuel + 1, fs, vis, i =>
    match fs[i]? with
    | none => none
    | some f =>
      if f.kind == .cjs || f.kind == .dyn then some ⟨true, fs, vis⟩
      else if vis.contains i then some ⟨false, fs, vis⟩
      else starLoop o (hasDyn o fuel) i f f.stars fs (i :: vis)

/-- "Any file that imports a CommonJS-style file will cause that file to need to be wrapped" -/
def wrapCjsTarget (fuel : Nat) (fs : Files) (r : Rec) : Option Files :=
  match r.target with
  | none => some fs
  | some t =>
    match fs[t]? with
    | none => none
    | some tf => if tf.kind == .cjs then wrapDeps fuel fs t else some fs

def step2File (o : Opts) (fuel : Nat) (fs : Files) (i : Nat) : Option Files :=
  match fs[i]? with
  | none => none
  | some f =>
    match (if f.wrap != .none then wrapDeps fuel fs i else some fs) with
    | none => none
    | some fs1 =>
      match (if !f.stars.isEmpty then (hasDyn o fuel fs1 [] i).map (·.fs) else some fs1) with
      | none => none
      | some fs2 => forM (wrapCjsTarget fuel) f.recs fs2

def step2 (o : Opts) (order : List Nat) (fs : Files) : Option Files :=
  forM (step2File o (fs.length + 1)) order fs

/-! ### step 4: `NeedsExportsVariable` -/

def step4Own (o : Opts) (f : File) : File :=
  if f.entry && f.kind == .cjs && f.wrap == .none && (o.format == .preserve || o.format == .cjs) then f
  else if f.force || f.kind != .cjs then { f with needsExportsVar := true } else f

def step4File (o : Opts) (fs : Files) (i : Nat) : Option Files :=
  match fs[i]? with
  | none => none
  | some f => some (fs.set i (step4Own o f))

def step4 (o : Opts) (order : List Nat) (fs : Files) : Option Files := forM (step4File o) order fs

/-- steps 1 and 2 of `scanImportsAndExports` -/
def scan (o : Opts) (order : List Nat) (fs : Files) : Option Files :=
  (step1 o order fs).bind (step2 o order)

/-- everything: the entry-point loop of `Link`, then steps 1, 2 and the flag of step 4 -/
def link (o : Opts) (entries order : List Nat) (fs : Files) : Option Files :=
  ((forM (entryOne o) entries fs).bind (scan o order)).bind (step4 o order)

end EsbuildModel.CjsWrap
