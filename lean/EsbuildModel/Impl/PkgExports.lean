import EsbuildModel.Util.Wire
import EsbuildModel.Spec.NodeExports
/-
Model of esbuild's implementation of the package.json "exports" / "imports" algorithm
(/repo/internal/resolver/package_json.go), transcribed from the Go code line by line:

  parseImportsExportsMap (only: which objects become pjInvalid, which keys are expansion keys, their order)
  expansionKeysArray.Less + sort.Stable
  esmPackageExportsResolve, esmPackageImportsResolve, esmPackageImportsExportsResolve,
  esmPackageTargetResolve, findInvalidSegment, pjStatus
  path.Join / path.Clean of the Go standard library (as used by esmPackageTargetResolve)

plus, only for the end-to-end correspondence kernel (`render`, not used by any theorem): the slash test of
esmHandlePostConditions, the condition sets built by resolver.NewResolver, and how
finalizeImportsExportsResult reports a status when the package directory holds at most one probe file.

The data type of the package.json value (`Target`) and `Str` are shared with Spec/NodeExports.lean; no
function of the specification is used here.
-/
namespace EsbuildModel.PkgExports
open EsbuildModel.NodeExports (Str Target)

/-- `pjStatus` (same order as the Go constants) plus PANIC for a Go run-time panic -/
inductive Status where
  | undefined
  | undefinedNoConditionsMatch
  | null
  | exact
  | exactEndsWithStar
  | inexact
  | packageResolve
  | invalidModuleSpecifier
  | invalidPackageConfiguration
  | invalidPackageTarget
  | packagePathNotExported
  | packageImportNotDefined
  | moduleNotFound
  | moduleNotFoundMissingExtension
  | unsupportedDirectoryImport
  | unsupportedDirectoryImportMissingIndex
  | panic
  deriving DecidableEq, Repr, Inhabited

/-- `status.isUndefined()` -/
def Status.isUndefined (s : Status) : Bool := s = .undefined || s = .undefinedNoConditionsMatch

/-! ## Go string helpers -/

/-- `strings.HasPrefix(s, p)` -/
def hasPrefix (s p : Str) : Bool := p.isPrefixOf s
/-- `strings.HasSuffix(s, p)` -/
def hasSuffix (s p : Str) : Bool := p.isSuffixOf s

/-- `strings.IndexByte(s, c)`; `none` = -1 -/
def indexByte (s : Str) (c : Char) : Option Nat :=
  match s with
  | [] => none
  | d :: ds => if d = c then some 0 else (indexByte ds c).map (· + 1)

/-- `s[lo:hi]` with Go's bounds check (`none` = run-time panic) -/
def slice (s : Str) (lo hi : Int) : Option Str :=
  if 0 ≤ lo ∧ lo ≤ hi ∧ hi ≤ (s.length : Int) then some ((s.take hi.toNat).drop lo.toNat) else none

/-- `strings.ReplaceAll(s, "*", by)` -/
def replaceAllStar (s by_ : Str) : Str :=
  match s with
  | [] => []
  | c :: cs => if c = '*' then by_ ++ replaceAllStar cs by_ else c :: replaceAllStar cs by_

/-- split at every character satisfying `p` (like `strings.Split` for a one-byte separator set) -/
def splitAt (p : Char → Bool) : Str → List Str
  | [] => [[]]
  | c :: cs =>
    if p c then [] :: splitAt p cs
    else
      match splitAt p cs with
      | [] => [[c]]
      | s :: ss => (c :: s) :: ss

def joinSlash : List Str → Str
  | [] => []
  | [s] => s
  | s :: ss => s ++ '/' :: joinSlash ss

/-! ## path.Clean / path.Join (Go standard library, package "path") -/

/-- the segment loop of `path.Clean`: `out` = segments written so far -/
def cleanSegs (rooted : Bool) (out : List Str) : List Str → List Str
  | [] => out
  | s :: rest =>
    if s = [] || s = ['.'] then cleanSegs rooted out rest            -- empty or "." element: skip
    else if s = ['.', '.'] then
      match out.getLast? with
      | some l =>
        if l = ['.', '.'] then cleanSegs rooted (out ++ [s]) rest    -- cannot backtrack over ".."
        else cleanSegs rooted out.dropLast rest                      -- can backtrack
      | none =>
        if rooted then cleanSegs rooted out rest                     -- "/.." = "/"
        else cleanSegs rooted (out ++ [s]) rest                      -- cannot backtrack, append ".."
    else cleanSegs rooted (out ++ [s]) rest

def goClean (p : Str) : Str :=
  if p = [] then ['.']
  else
    let rooted := p.head? = some '/'
    let segs := cleanSegs rooted [] (splitAt (· = '/') p)
    if rooted then '/' :: joinSlash segs
    else if segs = [] then ['.'] else joinSlash segs

/-- `path.Join(a, b)`: empty elements are ignored, the rest is joined with "/" and cleaned -/
def goJoin (a b : Str) : Str :=
  if a = [] then (if b = [] then [] else goClean b)
  else if b = [] then goClean a
  else goClean (a ++ '/' :: b)

/-! ## parseImportsExportsMap -/

def startsWithDot (k : Str) : Bool := hasPrefix k ['.']

/-- the parser returns `pjInvalid` for an object as soon as a key disagrees with the FIRST key about
starting with "." -/
def isMixed (l : List (Str × Target)) : Bool :=
  match l with
  | [] => false
  | (k0, _) :: rest => rest.any fun p => startsWithDot p.1 != startsWithDot k0

/-- `entry.keysStartWithDot()` : `len(mapData) > 0 && HasPrefix(mapData[0].key, ".")` -/
def keysStartWithDot (l : List (Str × Target)) : Bool :=
  match l with
  | [] => false
  | (k0, _) :: _ => startsWithDot k0

inductive Kind where
  | null | string | array | object | invalid
  deriving DecidableEq, Repr

/-- `pjEntry.kind` as the parser sets it -/
def kindOf : Target → Kind
  | .null => .null
  | .str _ => .string
  | .arr _ => .array
  | .obj l => if isMixed l then .invalid else .object
  | .other => .invalid

/-- `entry.valueForKey(key)` : first entry with that key -/
def valueForKey (l : List (Str × Target)) (key : Str) : Option Target :=
  match l with
  | [] => none
  | (k, v) :: rest => if k = key then some v else valueForKey rest key

/-- `expansionKeysArray.Less` -/
def less (keyA keyB : Str) : Bool :=
  let starA := indexByte keyA '*'
  let starB := indexByte keyB '*'
  let baseLengthA := match starA with | some i => i | none => keyA.length
  let baseLengthB := match starB with | some i => i | none => keyB.length
  if baseLengthA > baseLengthB then true
  else if baseLengthB > baseLengthA then false
  else if starA.isNone then false
  else if starB.isNone then true
  else if keyA.length > keyB.length then true
  else if keyB.length > keyA.length then false
  else false

/-- `sort.Stable(expansionKeys)`: the stable sort, as a stable insertion sort (entries of the tail are
sorted first, then the head is put in front of the first entry that is not strictly before it) -/
def insertEntry (e : Str × Target) : List (Str × Target) → List (Str × Target)
  | [] => [e]
  | x :: xs => if less x.1 e.1 then x :: insertEntry e xs else e :: x :: xs

def sortEntries : List (Str × Target) → List (Str × Target)
  | [] => []
  | e :: es => insertEntry e (sortEntries es)

/-- `if strings.HasSuffix(key, "/") || strings.IndexByte(key, '*') >= 0 { expansionKeys = append(…) }` -/
def isExpansionKey (key : Str) : Bool := hasSuffix key ['/'] || (indexByte key '*').isSome

def expansionKeysOf (l : List (Str × Target)) : List (Str × Target) :=
  sortEntries (l.filter fun p => isExpansionKey p.1)

/-! ## findInvalidSegment -/

def isSep (c : Char) : Bool := c = '/' || c = '\\'

def nodeModules : Str := ['n','o','d','e','_','m','o','d','u','l','e','s']

def badSegment (seg : Str) : Bool := seg = ['.'] || seg = ['.', '.'] || seg = nodeModules

/-- everything up to the first "/" or "\" is skipped; then the first segment equal to ".", ".." or
"node_modules" is returned (`none` = "") -/
def findInvalidSegment (path : Str) : Option Str :=
  ((splitAt isSep path).drop 1).find? badSegment

/-! ## esmPackageTargetResolve -/

def defaultKey : Str := ['d','e','f','a','u','l','t']

mutual
def targetResolve (packageURL subpath : Str) (pattern internal : Bool) (conditions : List Str) :
    Target → Str × Status
  | .str target =>
    -- If pattern is false, subpath has non-zero length and target does not end with "/", throw an Invalid Module Specifier error.
    if !pattern && subpath != [] && !hasSuffix target ['/'] then (target, .invalidModuleSpecifier)
    -- If target does not start with "./", then...
    else if !hasPrefix target ['.', '/'] then
      if internal && !hasPrefix target ['.', '.', '/'] && !hasPrefix target ['/'] then
        if pattern then (replaceAllStar target subpath, .packageResolve)
        else (target ++ subpath, .packageResolve)
      else (target, .invalidPackageTarget)
    else if (findInvalidSegment target).isSome then (target, .invalidPackageTarget)
    else
      let resolvedTarget := goJoin packageURL target
      -- findInvalidSegment("./" + subpath): unlike for the target, this includes the first segment of subpath
      if (findInvalidSegment ('.' :: '/' :: subpath)).isSome then (subpath, .invalidModuleSpecifier)
      else if pattern then
        let result := replaceAllStar resolvedTarget subpath
        let status :=
          if hasSuffix resolvedTarget ['*'] && indexByte resolvedTarget '*' = some (resolvedTarget.length - 1)
          then Status.exactEndsWithStar else Status.exact
        (result, status)
      else (goJoin resolvedTarget subpath, .exact)
  | .obj mapData =>
    if isMixed mapData then ([], .invalidPackageTarget)     -- kind == pjInvalid: falls through the switch
    else
      match conditionLoop packageURL subpath pattern internal conditions mapData with
      | some r => r
      | none =>
        -- ALGORITHM DEVIATION: Provide a friendly error message if no conditions matched
        if !mapData.isEmpty && !keysStartWithDot mapData then ([], .undefinedNoConditionsMatch)
        else ([], .undefined)
  | .arr arrData =>
    if arrData.isEmpty then ([], .null)
    else arrayLoop packageURL subpath pattern internal conditions .undefined arrData
  | .null => ([], .null)
  | .other => ([], .invalidPackageTarget)                   -- kind == pjInvalid

/-- `for _, p := range target.mapData` ; `none` = the loop ran to its end -/
def conditionLoop (packageURL subpath : Str) (pattern internal : Bool) (conditions : List Str) :
    List (Str × Target) → Option (Str × Status)
  | [] => none
  | (key, value) :: rest =>
    if key = ['d', 'e', 'f', 'a', 'u', 'l', 't'] || conditions.contains key then   -- p.key == "default" || conditions[p.key]
      let r := targetResolve packageURL subpath pattern internal conditions value
      if r.2.isUndefined then conditionLoop packageURL subpath pattern internal conditions rest
      else some r
    else conditionLoop packageURL subpath pattern internal conditions rest

/-- `for _, targetValue := range target.arrData` -/
def arrayLoop (packageURL subpath : Str) (pattern internal : Bool) (conditions : List Str)
    (lastException : Status) : List Target → Str × Status
  | [] => ([], lastException)
  | targetValue :: rest =>
    let r := targetResolve packageURL subpath pattern internal conditions targetValue
    if r.2 = .invalidPackageTarget || r.2 = .null then
      arrayLoop packageURL subpath pattern internal conditions r.2 rest
    else if r.2.isUndefined then
      arrayLoop packageURL subpath pattern internal conditions lastException rest
    else r
end

/-! ## esmPackageImportsExportsResolve -/

/-- `for _, expansion := range matchObj.expansionKeys` -/
def expansionLoop (packageURL matchKey : Str) (isImports : Bool) (conditions : List Str) :
    List (Str × Target) → Str × Status
  | [] => ([], .null)
  | (key, value) :: rest =>
    match indexByte key '*' with
    | some star =>
      let patternBase := key.take star
      if hasPrefix matchKey patternBase then
        let patternTrailer := key.drop (star + 1)
        if patternTrailer = [] || (hasSuffix matchKey patternTrailer && matchKey.length ≥ key.length) then
          -- subpath := matchKey[len(patternBase) : len(matchKey)-len(patternTrailer)]
          match slice matchKey patternBase.length ((matchKey.length : Int) - patternTrailer.length) with
          | some subpath => targetResolve packageURL subpath true isImports conditions value
          | none => ([], .panic)
        else expansionLoop packageURL matchKey isImports conditions rest
      else expansionLoop packageURL matchKey isImports conditions rest
    | none =>
      if hasPrefix matchKey key then
        let subpath := matchKey.drop key.length
        let r := targetResolve packageURL subpath false isImports conditions value
        if r.2 = .exact || r.2 = .exactEndsWithStar then (r.1, .inexact) else r
      else expansionLoop packageURL matchKey isImports conditions rest

def importsExportsResolve (matchKey : Str) (matchObj : List (Str × Target)) (packageURL : Str)
    (isImports : Bool) (conditions : List Str) : Str × Status :=
  match (if !hasSuffix matchKey ['/'] && (indexByte matchKey '*').isNone
         then valueForKey matchObj matchKey else none) with
  | some target => targetResolve packageURL [] false isImports conditions target
  | none => expansionLoop packageURL matchKey isImports conditions (expansionKeysOf matchObj)

/-! ## esmPackageExportsResolve / esmPackageImportsResolve -/

def exportsResolve (packageURL subpath : Str) (exports : Target) (conditions : List Str) : Str × Status :=
  if kindOf exports = .invalid then ([], .invalidPackageConfiguration)
  else if subpath = ['.'] then
    let mainExport : Target :=
      match exports with
      | .str _ => exports
      | .arr _ => exports
      | .obj l =>
        if !keysStartWithDot l then exports
        else match valueForKey l ['.'] with
          | some dot => dot
          | none => .null
      | _ => .null
    if kindOf mainExport != .null then
      let r := targetResolve packageURL [] false false conditions mainExport
      if r.2 != .null && r.2 != .undefined then r else ([], .packagePathNotExported)
    else ([], .packagePathNotExported)
  else
    match exports with
    | .obj l =>
      if keysStartWithDot l then
        let r := importsExportsResolve subpath l packageURL false conditions
        if r.2 != .null && r.2 != .undefined then r else ([], .packagePathNotExported)
      else ([], .packagePathNotExported)
    | _ => ([], .packagePathNotExported)

def importsResolve (specifier : Str) (imports : Target) (conditions : List Str) : Str × Status :=
  -- ALGORITHM DEVIATION: Provide a friendly error message if "imports" is not an object
  if kindOf imports != .object then ([], .invalidPackageConfiguration)
  else
    match imports with
    | .obj l =>
      let r := importsExportsResolve specifier l ['/'] true conditions
      if r.2 != .null && r.2 != .undefined then r else (specifier, .packageImportNotDefined)
    | _ => ([], .invalidPackageConfiguration)

/-! ## end-to-end observation (kernel only; no theorem talks about what follows) -/

/-- esmHandlePostConditions, for results without "%": a result ending in "/" or "\" is a directory import -/
def postConditions (r : Str × Status) : Str × Status :=
  if r.2 = .exact || r.2 = .exactEndsWithStar || r.2 = .inexact then
    if hasSuffix r.1 ['/'] || hasSuffix r.1 ['\\'] then (r.1, .unsupportedDirectoryImport) else r
  else r

/-- the condition sets of resolver.NewResolver: "default", the custom ones, the platform, import/require by kind -/
def effectiveConditions (platformNode : Bool) (custom : List Str) (kind : Nat) : List Str :=
  let base := defaultKey :: (custom ++ [if platformNode then "node".toList else "browser".toList])
  match kind with
  | 0 => "import".toList :: base      -- ImportStmt, ImportDynamic, (exports only) ImportEntryPoint
  | 1 => "require".toList :: base     -- ImportRequire, ImportRequireResolve
  | _ => base

open Wire in
def hexStr (s : Str) : String := hexUnits 2 (s.map Char.toNat)

def dotted (p : Str) : Str := if hasPrefix p ['/'] then '.' :: p else p

/-- the mock file system of the kernel: a list of absolute file paths; a directory exists iff a file lies below it -/
def isFile (files : List Str) (p : Str) : Bool := files.contains p
def isDir (files : List Str) (p : Str) : Bool :=
  let pre := if p = ['/'] then p else p ++ ['/']
  files.any fun f => hasPrefix f pre

/-- `path.Dir` of a cleaned absolute path -/
def dirOf (p : Str) : Str :=
  match (splitAt (· = '/') p).dropLast with
  | [] => ['/']
  | [[]] => ['/']
  | segs => joinSlash segs

def showFound (pkgDir abs : Str) : String :=
  if hasPrefix abs (pkgDir ++ ['/']) then s!"ok {hexStr (abs.drop pkgDir.length)}" else s!"other {hexStr abs}"

/-- what the kernel observes (finalizeImportsExportsResult on the mock file system; `kind` 2 = CSS import) -/
def render (pkgDir : Str) (files : List Str) (kind : Nat) (r0 : Str × Status) : String :=
  let r := postConditions r0
  let abs := goJoin pkgDir r.1
  match r.2 with
  | .exact | .exactEndsWithStar =>
    if isFile files abs then showFound pkgDir abs
    else if abs != ['/'] && isDir files abs then s!"dirimport {hexStr (dotted r.1)}"
    else s!"notfound {hexStr (dotted r.1)}"
  | .inexact =>
    if isFile files abs then showFound pkgDir abs
    else if kind != 2 && isFile files (abs ++ ".js".toList) then showFound pkgDir (abs ++ ".js".toList)
    else if kind != 2 && isDir files abs && isFile files (goJoin abs "index.js".toList) then showFound pkgDir (goJoin abs "index.js".toList)
    else s!"notfound {hexStr (dotted r.1)}"
  | .packageResolve => s!"remap {hexStr r.1}"
  | .invalidModuleSpecifier => s!"invspec {hexStr (dotted r.1)}"
  | .invalidPackageConfiguration => "invconfig"
  | .invalidPackageTarget => if r.1 = [] then "invconfig" else s!"invtarget {hexStr (dotted r.1)}"
  | .packagePathNotExported => "notexported"
  | .packageImportNotDefined => s!"importnotdefined {hexStr r.1}"
  | .unsupportedDirectoryImport => s!"dirimport {hexStr (dotted r.1)}"
  | .undefinedNoConditionsMatch => "nocond"
  | .panic => "PANIC"
  | _ => "internal"

/-! ## wire format of a `Target` tree: tokens separated by blanks
`S<hex>` string, `N` null, `X` other, `A<n>` + n trees, `O<n>` + n × (`K<hex>` tree) -/

open Wire in
def parseStr (hex : String) : Option Str :=
  (parseHexUnits 2 hex).map fun l => l.map Char.ofNat

def parseTree : Nat → List String → Option (Target × List String)
  | 0, _ => none
  | fuel + 1, tok :: rest =>
    match tok.toList with
    | 'S' :: h => (parseStr (String.ofList h)).map fun s => (Target.str s, rest)
    | ['N'] => some (.null, rest)
    | ['X'] => some (.other, rest)
    | 'A' :: n =>
      match (String.ofList n).toNat? with
      | some n =>
        let rec items (k : Nat) (toks : List String) (acc : List Target) : Option (List Target × List String) :=
          match k with
          | 0 => some (acc.reverse, toks)
          | k + 1 =>
            match parseTree fuel toks with
            | some (t, toks') => items k toks' (t :: acc)
            | none => none
        (items n rest []).map fun (l, toks) => (Target.arr l, toks)
      | none => none
    | 'O' :: n =>
      match (String.ofList n).toNat? with
      | some n =>
        let rec props (k : Nat) (toks : List String) (acc : List (Str × Target)) :
            Option (List (Str × Target) × List String) :=
          match k with
          | 0 => some (acc.reverse, toks)
          | k + 1 =>
            match toks with
            | key :: toks1 =>
              match key.toList with
              | 'K' :: h =>
                match parseStr (String.ofList h), parseTree fuel toks1 with
                | some ks, some (t, toks') => props k toks' ((ks, t) :: acc)
                | _, _ => none
              | _ => none
            | [] => none
        (props n rest []).map fun (l, toks) => (Target.obj l, toks)
      | none => none
    | _ => none
  | _ + 1, [] => none

def parseTarget (s : String) : Option Target :=
  let toks := s.splitOn " "
  match parseTree (toks.length + 1) toks with
  | some (t, []) => some t
  | _ => none

def parseStrList (s : String) : Option (List Str) :=
  if s = "." then some [] else (s.splitOn " ").mapM parseStr

def showErr : NodeExports.Err → String
  | .invalidTarget => "invalidTarget"
  | .invalidSpecifier => "invalidSpecifier"
  | .invalidConfig => "invalidConfig"
  | .notExported => "notExported"
  | .importNotDefined => "importNotDefined"

def showOutcome : NodeExports.Outcome → String
  | .resolved p => s!"resolved {hexStr p}"
  | .package s => s!"package {hexStr s}"
  | .error e => s!"error {showErr e}"

/-- esbuild's status translated into Node's vocabulary (`isImports` decides what "nothing matched" means) -/
def classify (isImports : Bool) (r : Str × Status) : NodeExports.Outcome :=
  match r.2 with
  | .exact | .exactEndsWithStar | .inexact => .resolved r.1
  | .packageResolve => .package r.1
  | .invalidModuleSpecifier => .error .invalidSpecifier
  | .invalidPackageConfiguration => .error .invalidConfig
  | .invalidPackageTarget => .error .invalidTarget
  | .packageImportNotDefined => .error .importNotDefined
  | _ => .error (if isImports then .importNotDefined else .notExported)

/-- line protocol
  `e2e  <E|I> <hex package dir> <hex file list> <platform n|b> <kind> <custom conditions> <hex subpath/specifier> <tree>`  → what the kernel observes
  `spec <strict 0|1> <E|I> <conditions> <hex subpath/specifier> <tree>`                         → the Node specification
  `both <strict 0|1> <E|I> <conditions> <hex subpath/specifier> <tree>`                         → model (classified) and spec -/
def driver (args : List String) : String :=
  match args with
  | ["e2e", ei, pkgDir, files, platform, kind, custom, key, tree] =>
    match parseStr pkgDir, parseStrList files, kind.toNat?, parseStrList custom, parseStr key, parseTarget tree with
    | some pkgDir, some files, some kind, some custom, some key, some t =>
      if key.contains '%' then "bad-op" else
      let conds := effectiveConditions (platform = "n") custom kind
      if ei = "E" then render pkgDir files kind (exportsResolve ['/'] key t conds)
      else if ei = "I" then
        (if key = ['#'] then "hash" else render pkgDir files kind (importsResolve key t conds))
      else "bad-op"
    | _, _, _, _, _, _ => "bad-op"
  | [op, strict, ei, conds, key, tree] =>
    match parseStrList conds, parseStr key, parseTarget tree with
    | some conds, some key, some t =>
      let strict := strict = "1"
      let spec :=
        if ei = "E" then NodeExports.packageExportsResolve strict ['/'] key t conds
        else NodeExports.packageImportsResolve strict ['/'] key (some t) conds
      let model :=
        if ei = "E" then classify false (exportsResolve ['/'] key t conds)
        else classify true (importsResolve key t conds)
      if ei ≠ "E" ∧ ei ≠ "I" then "bad-op"
      else if op = "spec" then showOutcome spec
      else if op = "both" then s!"{showOutcome model} | {showOutcome spec}"
      else "bad-op"
    | _, _, _ => "bad-op"
  | _ => "bad-op"

end EsbuildModel.PkgExports
