/-
Models for C08 (builds are deterministic).

1. `less`: internal/logger/logger.go SortableMsgs.Less, the comparator that api_impl.go uses with
   sort.Stable to order the diagnostics a build returns.  Strings (absolute path, relative path, text) are
   represented by their rank in Go's string order (the harness ranks them with sort.Strings), so every
   comparison is a comparison of naturals; Go's `<` on strings being a strict total order is assumed.
   `sortMsgs` is a stable merge sort with that comparator, like sort.Stable.

2. `Ser`: internal/helpers/serializer.go — Enter(i) blocks until Leave(i-1) has been called.  Each of the n
   workers is at one of three points: 0 = has not entered, 1 = inside its serialised section, 2 = has left.
-/
import EsbuildModel.Util.Wire
namespace EsbuildModel.Det

structure Loc where
  abs : Nat
  rel : Nat
  line : Nat
  col : Nat
deriving DecidableEq, Repr

structure Msg where
  loc : Option Loc
  kind : Nat
  text : Nat
  id : Nat          -- arrival index; not looked at by the comparator
deriving DecidableEq, Repr

def lessKT (a b : Msg) : Bool :=
  if a.kind ≠ b.kind then a.kind < b.kind else a.text < b.text

def less (a b : Msg) : Bool :=
  match a.loc, b.loc with
  | none, none => lessKT a b
  | none, some _ => true
  | some _, none => false
  | some x, some y =>
    if x.abs ≠ y.abs ∨ x.rel ≠ y.rel then x.abs < y.abs || (x.abs == y.abs && x.rel < y.rel)
    else if x.line ≠ y.line then x.line < y.line
    else if x.col ≠ y.col then x.col < y.col
    else lessKT a b

/-- `sort.Stable(SortableMsgs(msgs))` -/
def sortMsgs (l : List Msg) : List Msg := l.mergeSort (fun a b => !less b a)

/-- everything the comparator looks at -/
def key (m : Msg) : Option Loc × Nat × Nat := (m.loc, m.kind, m.text)

-- ---------------------------------------------------------------- serializer

/-- program counters of the n workers -/
abbrev Ser := List Nat

def Ser.init (n : Nat) : Ser := List.replicate n 0

/-- worker i may take its next step: entering needs worker i-1 to have left -/
def Ser.enabled (s : Ser) (i : Nat) : Bool :=
  match s[i]? with
  | some 0 => i == 0 || s[i - 1]? == some 2
  | some 1 => true
  | _ => false

def Ser.step (s : Ser) (i : Nat) : Ser :=
  if s.enabled i then s.set i (s.getD i 0 + 1) else s

/-- run a schedule (a list of worker indices; disabled picks are no-ops, i.e. the worker stays blocked)
and log the order in which workers enter their section -/
def Ser.run : Ser → List Nat → List Nat → Ser × List Nat
  | s, [], log => (s, log.reverse)
  | s, i :: sched, log =>
    if s.enabled i && s[i]? == some 0 then Ser.run (s.step i) sched (i :: log)
    else Ser.run (s.step i) sched log

-- ---------------------------------------------------------------- wire

/-- msgs: "abs,rel,line,col,kind,text;..." with abs = "n" meaning no location -/
def parseMsg (id : Nat) (s : String) : Option Msg :=
  match s.splitOn "," with
  | ["n", k, t] => do
    let k ← k.toNat?; let t ← t.toNat?
    pure { loc := none, kind := k, text := t, id }
  | [a, r, l, c, k, t] => do
    let a ← a.toNat?; let r ← r.toNat?; let l ← l.toNat?; let c ← c.toNat?
    let k ← k.toNat?; let t ← t.toNat?
    pure { loc := some { abs := a, rel := r, line := l, col := c }, kind := k, text := t, id }
  | _ => none

def parseMsgs (s : String) : Option (List Msg) :=
  if s = "-" then some [] else
  let rec go (items : List String) (id : Nat) : Option (List Msg) :=
    match items with
    | [] => some []
    | x :: xs => do
      let m ← parseMsg id x
      let rest ← go xs (id + 1)
      pure (m :: rest)
  go (s.splitOn ";") 0

def driver (args : List String) : String :=
  match args with
  | ["msgsort", ms] =>
    match parseMsgs ms with
    | some l => Wire.showNatList ((sortMsgs l).map (·.id))
    | none => "bad-op"
  | ["serializer", n, sched] =>
    match n.toNat?, Wire.parseNatList sched with
    | some n, some sched =>
      let (s, log) := Ser.run (Ser.init n) sched []
      Wire.showNatList log ++ " " ++ Wire.showNatList s
    | _, _ => "bad-op"
  | _ => "bad-op"

end EsbuildModel.Det
