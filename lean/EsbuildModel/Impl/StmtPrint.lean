/-
Model of the statement level of esbuild's printer (internal/js_printer/js_printer.go): `printStmt` for SExpr, SEmpty,
SBlock, SIf (`printIf`, `wrapToAvoidAmbiguousElse`), SFor / SForIn / SForOf / SWhile (`printForLoopInit`, `printDecls`),
SDoWhile, SLabel, SReturn, SThrow, SBreak, SContinue, SLocal (`printDeclStmt`), SExportDefault with an expression;
`printBody`, `printBlock`, `printSemicolonAfterStatement` / `printSemicolonIfNeeded` / `needsSemicolon`, the top-level
loop of `Print`; and of `printExpr` the start markers `stmtStart`, `exportDefaultStart`, `forOfInitStart`
(cases EIdentifier, EIndex `wrapLet`, EObject, EFunction, EClass, the "destructuring assignment" wrap of EBinary) on top of
the parenthesisation model `PrecPrint.print`.

Output: tokens and line breaks (`Piece`). Options: default, or MinifyWhitespace (= `m`). Blanks and indentation are not
modelled (inside expressions under MinifyWhitespace they are `PrecSpace.lean`). `needsSemicolon` is returned, not
mutated: it is false whenever `printStmt` is entered (every caller flushes it or has just printed `)` / `else` / `do` / `:`).
The start markers are byte offsets in Go (`p.stmtStart == len(p.js)`): "nothing was printed since the marker was set";
here a `Start` value is handed to the sub-expression that is printed first and dropped as soon as a token is emitted.

Atoms (see Spec/StmtGrammar.lean): identifier 0 is named `let`, 1 `async`, 2 is `EObject{}`, 3 `EFunction{}`, 4 `EClass{}`,
5 an async `EFunction{}`; 6… are ordinary names. Outside the model: IsSingleLine* flags (all false), comments, LineLimit,
MinifySyntax (`simplifyUnusedExpr`), directives, arrow bodies (`arrowExprStart`), declarations `function` / `class`,
destructuring bindings, `with`, `switch`, `try`, labels named by atoms.
-/
import EsbuildModel.Impl.PrecPrint
import EsbuildModel.Spec.StmtGrammar

namespace EsbuildModel.StmtPrint
open EsbuildModel.JsExpr EsbuildModel.PrecPrint EsbuildModel.JsStmt

/-- which of the start markers equal `len(p.js)` -/
structure Start where
  stmt : Bool
  exportDefault : Bool
  forInit : Bool
  deriving DecidableEq, Repr

def Start.no : Start := ⟨false, false, false⟩
def Start.atStmt : Start := ⟨true, false, false⟩
def Start.atExportDefault : Start := ⟨false, true, false⟩
def Start.atForInit : Start := ⟨false, false, true⟩

/-- after `(` has been printed no marker equals the position any more -/
def Start.after (wrap : Bool) (s : Start) : Start := if wrap then .no else s

/-- `e.Target.Data.(*js_ast.EIdentifier)` named `let` -/
def isLetIdent : Expr → Bool
  | .ident n => n == aLet
  | _ => false

/-- `e.Left.Data.(*js_ast.EObject)` -/
def isObjAtom : Expr → Bool
  | .ident n => n == aObj
  | _ => false

/-- the leaf cases EIdentifier / EObject / EFunction / EClass -/
def leafWrap (n : Nat) (start : Start) (ofFlag : Bool) : Bool :=
  if n == aObj then start.stmt
  else if n == aFn || n == aCls || n == aAsyncFn then start.stmt || start.exportDefault
  else start.forInit && (n == aLet || (ofFlag && n == aAsync))

mutual
/-- `printExpr(expr, level, flags)` with the start markers; `ofFlag` is `isFollowedByOf && !isInsideForAwait`, which
only the root of a for-of initialiser receives -/
def printE (m : Bool) : Expr → (level : Nat) → (forbidIn isNewTarget : Bool) → Start → (ofFlag : Bool) → List Tok
  | .ident n, _, _, _, start, ofFlag => paren (leafWrap n start ofFlag) [.ident n]
  | .num n, _, _, _, _, _ => [.num n]
  | .unary op v, level, _, _, start, _ =>
    let entry := unEntry op
    let wrap := decide (level ≥ entry.level)
    paren wrap
      (if isPrefix entry.code then Tok.ofText entry.text :: printE m v (lvl "LPrefix" - 1) false false .no false
       else printE m v (lvl "LPostfix" - 1) false false (start.after wrap) false ++ [Tok.ofText entry.text])
  | .binary op l r, level, forbidIn, _, start, _ =>
    let (wrap0, leftLevel, rightLevel) := binaryLevels op l r level forbidIn
    -- "Destructuring assignments must be parenthesized": any binary whose left operand is an object literal,
    -- except the comma operator (fix d18681d: there the object literal wraps itself, so that the output does
    -- not depend on how the comma expression is nested)
    let wrap := wrap0 || (start.stmt && isObjAtom l && op != .comma)
    let fi := forbidIn && !wrap
    paren wrap (printE m l leftLevel fi false (start.after wrap) false ++
      Tok.ofText (binEntry op).text :: printE m r rightLevel fi false .no false)
  | .cond t y n, level, forbidIn, _, start, _ =>
    let wrap := decide (level ≥ lvl "LConditional")
    let fi := forbidIn && !wrap
    paren wrap (printE m t (lvl "LConditional") fi false (start.after wrap) false ++ Tok.p .question ::
      (printE m y (lvl "LYield") false false .no false ++ Tok.p .colon :: printE m n (lvl "LYield") fi false .no false))
  | .dot e name, _, _, isNewTarget, start, _ =>
    printE m e (lvl "LPostfix") false isNewTarget start false ++ [Tok.p .dot, Tok.ident name]
  | .index e i, _, _, isNewTarget, start, _ =>
    -- "An expression statement must not start with `let [`"
    let wrapLet := isLetIdent e && start.stmt
    paren wrapLet (printE m e (lvl "LPostfix") false isNewTarget (start.after wrapLet) false) ++
      Tok.p .lbrack :: (printE m i (lvl "LLowest") false false .no false ++ [Tok.p .rbrack])
  | .call f args, level, _, isNewTarget, start, _ =>
    let wrap := decide (level ≥ lvl "LNew") || isNewTarget
    paren wrap (printE m f (lvl "LPostfix") false false (start.after wrap) false ++
      Tok.p .lparen :: (printArgsE m args ++ [Tok.p .rparen]))
  | .new f args, level, _, _, _, _ =>
    let wrap := decide (level ≥ lvl "LCall")
    let parens := !m || !args.isNil || decide (level ≥ lvl "LPostfix")
    paren wrap (Tok.p .kNew :: (printE m f (lvl "LNew") false true .no false ++
      (if parens then Tok.p .lparen :: (printArgsE m args ++ [Tok.p .rparen]) else [])))
def printArgsE (m : Bool) : Args → List Tok
  | .nil => []
  | .cons a .nil => printE m a (lvl "LComma") false false .no false
  | .cons a rest => printE m a (lvl "LComma") false false .no false ++ Tok.p .comma :: printArgsE m rest
end

/-- a piece of output: a token or a line break -/
inductive Piece
  | t (tok : Tok)
  | nl
  deriving DecidableEq, Repr, Inhabited

def toks : List Piece → List Tok
  | [] => []
  | .t a :: r => a :: toks r
  | .nl :: r => toks r

def ex (ts : List Tok) : List Piece := ts.map .t
def w (s : String) : Piece := .t (T s)

/-- `printNewline` -/
def newline (m : Bool) : List Piece := if m then [] else [.nl]
/-- `printSemicolonAfterStatement`: the pieces and the new value of `needsSemicolon` -/
def semiAfter (m : Bool) : List Piece × Bool := if m then ([], true) else ([w ";", .nl], false)
/-- `printSemicolonIfNeeded` -/
def flush (needs : Bool) : List Piece := if needs then [w ";"] else []

/-- `printDecls(keyword, decls, flags)` after the keyword -/
def declsE (m : Bool) (fi : Bool) : List Decl → List Tok
  | [] => []
  | [(n, none)] => [.ident n]
  | [(n, some e)] => .ident n :: .p .assign :: printE m e (lvl "LComma") fi false .no false
  | (n, none) :: rest => .ident n :: .p .comma :: declsE m fi rest
  | (n, some e) :: rest => .ident n :: .p .assign :: (printE m e (lvl "LComma") fi false .no false ++ .p .comma :: declsE m fi rest)

def optE (m : Bool) : Option Expr → List Tok
  | none => []
  | some e => printE m e (lvl "LLowest") false false .no false

/-- `printForLoopInit(init, flags)` for SFor -/
def forInitE (m : Bool) : ForInit → List Tok
  | .none => []
  | .expr e => printE m e (lvl "LLowest") true false .atForInit false
  | .decl k ds => k.tok :: declsE m true ds

/-- `printForLoopInit(init, flags)` for SForIn / SForOf -/
def forHeadE (m : Bool) (ofFlag : Bool) : ForHead → List Tok
  | .expr e => printE m e (lvl "LLowest") true false .atForInit ofFlag
  | .decl k n => k.tok :: declsE m true [(n, none)]

/-- the head of SFor / SForIn / SForOf / SWhile up to and including `)` -/
def loopHeadE (m : Bool) : LoopHead → List Tok
  | .for_ i t u => T "for" :: .p .lparen :: (forInitE m i ++ T ";" :: (optE m t ++ T ";" :: (optE m u ++ [.p .rparen])))
  | .forIn h v => T "for" :: .p .lparen :: (forHeadE m false h ++ .p .kIn :: (printE m v (lvl "LLowest") false false .no false ++ [.p .rparen]))
  | .forOf aw h v =>
    T "for" :: ((if aw then [T "await"] else []) ++ .p .lparen :: (forHeadE m (!aw) h ++ T "of" ::
      (printE m v (lvl "LComma") false false .no false ++ [.p .rparen])))
  | .while_ t => T "while" :: .p .lparen :: (printE m t (lvl "LLowest") false false .no false ++ [.p .rparen])

/-- `wrapToAvoidAmbiguousElse` -/
def wrapToAvoidAmbiguousElse : Stmt → Bool
  | .ifThen _ _ => true
  | .ifElse _ _ n => wrapToAvoidAmbiguousElse n
  | .loop _ b => wrapToAvoidAmbiguousElse b
  | .label _ b => wrapToAvoidAmbiguousElse b
  | _ => false

def isBlock : Stmt → Bool
  | .block _ => true
  | _ => false

def isIf : Stmt → Bool
  | .ifThen _ _ | .ifElse _ _ _ => true
  | _ => false

def lp : Piece := .t (.p .lparen)
def rp : Piece := .t (.p .rparen)

/-- `if (test)` -/
def ifHead (m : Bool) (t : Expr) : List Piece :=
  w "if" :: lp :: (ex (printE m t (lvl "LLowest") false false .no false) ++ [rp])

/-- `printBody(body)` given what `printStmt(body)` prints: a block is printed as `printStmt` prints it (`printSpace`,
`printBlock`, `printNewline`), anything else after a line break -/
def bodyP (m : Bool) (b : Stmt) (sb : List Piece × Bool) : List Piece × Bool :=
  if isBlock b then sb else (newline m ++ sb.1, sb.2)

/-- the yes-branch of `printIf`; `blk` is `printBlock` of the branch when it is a block -/
def yesP (m : Bool) (hasNo : Bool) (y : Stmt) (blk : List Piece) (sy : List Piece × Bool) : List Piece × Bool :=
  if isBlock y then (blk ++ (if hasNo then [] else newline m), false)
  else if wrapToAvoidAmbiguousElse y then
    (w "{" :: (newline m ++ sy.1 ++ [w "}"] ++ (if hasNo then [] else newline m)), false)
  else (newline m ++ sy.1, sy.2)

/-- the else-branch of `printIf` after the word `else`: a block, `printIf` again, or `printBody` -/
def elseP (m : Bool) (n : Stmt) (sn : List Piece × Bool) : List Piece × Bool :=
  if isBlock n || isIf n then sn else (newline m ++ sn.1, sn.2)

mutual
/-- `printStmt`: the pieces, and `needsSemicolon` afterwards -/
def stmt (m : Bool) : Stmt → List Piece × Bool
  | .expr e => (ex (printE m e (lvl "LLowest") false false .atStmt false) ++ (semiAfter m).1, (semiAfter m).2)
  | .empty => (w ";" :: newline m, false)
  | .block b => (blockP m b ++ newline m, false)
  | .ifThen t y =>
    let r := yesP m false y (match y with | .block b => blockP m b | _ => []) (stmt m y)
    (ifHead m t ++ r.1, r.2)
  | .ifElse t y n =>
    let r := yesP m true y (match y with | .block b => blockP m b | _ => []) (stmt m y)
    let q := elseP m n (stmt m n)
    (ifHead m t ++ (r.1 ++ (flush r.2 ++ w "else" :: q.1)), q.2)
  | .loop h b =>
    let r := bodyP m b (stmt m b)
    (ex (loopHeadE m h) ++ r.1, r.2)
  | .doWhile b t =>
    let body := match b with
      | .block bs => blockP m bs
      | b => newline m ++ (stmt m b).1 ++ flush (stmt m b).2
    (w "do" :: (body ++ w "while" :: lp :: (ex (printE m t (lvl "LLowest") false false .no false) ++ rp :: (semiAfter m).1)),
      (semiAfter m).2)
  | .label n b =>
    let r := bodyP m b (stmt m b)
    (.t (.ident n) :: .t (.p .colon) :: r.1, r.2)
  | .ret none => (w "return" :: (semiAfter m).1, (semiAfter m).2)
  | .ret (some e) => (w "return" :: (ex (printE m e (lvl "LLowest") false false .no false) ++ (semiAfter m).1), (semiAfter m).2)
  | .throw_ e => (w "throw" :: (ex (printE m e (lvl "LLowest") false false .no false) ++ (semiAfter m).1), (semiAfter m).2)
  | .brk none => (w "break" :: (semiAfter m).1, (semiAfter m).2)
  | .brk (some l) => (w "break" :: .t (.ident l) :: (semiAfter m).1, (semiAfter m).2)
  | .cont none => (w "continue" :: (semiAfter m).1, (semiAfter m).2)
  | .cont (some l) => (w "continue" :: .t (.ident l) :: (semiAfter m).1, (semiAfter m).2)
  | .local_ k ds => (ex (k.tok :: declsE m false ds) ++ (semiAfter m).1, (semiAfter m).2)
  | .exportDefault e =>
    (w "export" :: w "default" :: (ex (printE m e (lvl "LComma") false false .atExportDefault false) ++ (semiAfter m).1),
      (semiAfter m).2)
/-- the statement loop of `printBlock`: `printSemicolonIfNeeded(); printStmt(stmt)` -/
def stmtsFrom (m : Bool) (needs : Bool) : Stmts → List Piece × Bool
  | .nil => ([], needs)
  | .cons s rest =>
    let a := stmt m s
    let r := stmtsFrom m a.2 rest
    (flush needs ++ (a.1 ++ r.1), r.2)
/-- `printBlock`: the pending semicolon of the last statement is dropped (`p.needsSemicolon = false`) -/
def blockP (m : Bool) (b : Stmts) : List Piece :=
  w "{" :: (newline m ++ ((stmtsFrom m false b).1 ++ [w "}"]))
end

/-- the loop of `Print`: `printStmt(stmt); printSemicolonIfNeeded()` -/
def program (m : Bool) : Stmts → List Piece
  | .nil => []
  | .cons s rest => (stmt m s).1 ++ (flush (stmt m s).2 ++ program m rest)

end EsbuildModel.StmtPrint
