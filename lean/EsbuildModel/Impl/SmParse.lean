import EsbuildModel.Impl.VlqBytes
import EsbuildModel.Impl.GoSort
/-
Model of `js_parser.ParseSourceMap` (internal/js_parser/sourcemap_parser.go) from the point where the JSON
has been taken apart: for every section (a plain source map is one section with offset 0,0) the `mappings`
decoding loop over UTF-16 units, the bookkeeping of the aggregated `sources` / `sourcesContent` / `names`
lengths, the `needSort` decision and `sort.Stable(mappings)` (model: `Impl/GoSort.lean`), and
`sourcemap.SourceMap.Find` (internal/sourcemap/sourcemap.go), the consumer of the parsed list.

Go's `int32` variables are integers kept in range by `wrap32` after every addition (two's complement wrap).
`mappingsRaw[current]` is `units[current]?`, `mappingsRaw[current:]` is checked against the length, a negative
`make` length is checked: `panic` in all three cases.  The loop carries fuel `len+1`; `hang` = out of fuel.
-/
namespace EsbuildModel.SmParse
open Vlq

/-- two's complement wrap of an integer into int32 -/
def wrap32 (x : Int) : Int := (x + 2147483648) % 4294967296 - 2147483648

/-- `sourcemap.Mapping`; `name` = `OriginalName` (`none`: invalid `ast.Index32`) -/
structure Mapping where
  genLine : Int
  genCol : Int
  srcIdx : Int
  origLine : Int
  origCol : Int
  name : Option Nat
deriving DecidableEq, Repr

/-- `errorText` -/
inductive Err where
  | missingGenCol | invalidGenCol (v : Int)
  | missingSrc | invalidSrc (v : Int)
  | missingOrigLine | invalidOrigLine (v : Int)
  | missingOrigCol | invalidOrigCol (v : Int)
  | invalidName (v : Int)
  | invalidChar
deriving DecidableEq, Repr

/-- what is fixed while one section's `mappings` are decoded -/
structure Consts where
  units : List Nat        -- mappingsRaw
  lineOffset : Int
  columnOffset : Int
  sourceOffset : Int      -- int32(len(sources))
  nameOffset : Int        -- int32(len(names))
  sourcesLen : Nat
  namesLen : Nat

/-- the loop variables -/
structure Loop where
  current : Nat
  genLine : Int
  genCol : Int
  srcIdx : Int
  origLine : Int
  origCol : Int
  origName : Int
  needSort : Bool
  out : List Mapping
deriving Repr

inductive Step where
  | next (s : Loop)                       -- `continue` / end of the loop body
  | done (s : Loop)                       -- `break` without error
  | fail (s : Loop) (e : Err) (len : Nat) -- `break` with `errorText`, `errorLen`
  | panic

/-- `sourcemap.DecodeVLQUTF16(mappingsRaw[current:])`: outer `none` = slice bounds out of range,
inner `none` = `ok == false` (the returned length is 0 then) -/
def decAt (units : List Nat) (current : Nat) : Option (Option (Int × Nat)) :=
  if current > units.length then none else some (decodeUTF16 Gen.base64 (units.drop current))

/-- `ast.MakeIndex32(uint32(originalName))` -/
def index32 (v : Int) : Option Nat :=
  let u := (v % 4294967296).toNat
  if u = 4294967295 then none else some u

/-- "Handle the next character" and `mappings = append(mappings, …)` -/
def finish (c : Consts) (s : Loop) (name : Option Nat) : Step :=
  let after : Option (Option Loop) :=
    if s.current < c.units.length then
      match c.units[s.current]? with
      | none => none
      | some ch =>
        if ch = 44 then some (some { s with current := s.current + 1 })
        else if ch ≠ 59 then some none
        else some (some s)
    else some (some s)
  match after with
  | none => .panic
  | some none => .fail s .invalidChar 1
  | some (some s) =>
    .next { s with out := s.out ++ [{ genLine := s.genLine, genCol := s.genCol, srcIdx := s.srcIdx,
                                      origLine := s.origLine, origCol := s.origCol, name := name }] }

/-- "Read the original name" -/
def stepName (c : Consts) (s : Loop) : Step :=
  match decAt c.units s.current with
  | none => .panic
  | some none => finish c s none
  | some (some (delta, i)) =>
    let origName := wrap32 (s.origName + delta)
    let s := { s with origName := origName }
    if origName < c.nameOffset ∨ origName ≥ wrap32 (c.nameOffset + wrap32 c.namesLen) then
      .fail s (.invalidName origName) i
    else finish c { s with current := s.current + i } (index32 origName)

/-- "Read the original source" … "Read the original column" -/
def stepSource (c : Consts) (s : Loop) : Step :=
  match decAt c.units s.current with
  | none => .panic
  | some none => .fail s .missingSrc 0
  | some (some (delta, i)) =>
  let srcIdx := wrap32 (s.srcIdx + delta)
  let s := { s with srcIdx := srcIdx }
  if srcIdx < c.sourceOffset ∨ srcIdx ≥ wrap32 (c.sourceOffset + wrap32 c.sourcesLen) then
    .fail s (.invalidSrc srcIdx) i
  else
  let s := { s with current := s.current + i }
  -- Read the original line
  match decAt c.units s.current with
  | none => .panic
  | some none => .fail s .missingOrigLine 0
  | some (some (delta, i)) =>
  let origLine := wrap32 (s.origLine + delta)
  let s := { s with origLine := origLine }
  if origLine < 0 then .fail s (.invalidOrigLine origLine) i else
  let s := { s with current := s.current + i }
  -- Read the original column
  match decAt c.units s.current with
  | none => .panic
  | some none => .fail s .missingOrigCol 0
  | some (some (delta, i)) =>
  let origCol := wrap32 (s.origCol + delta)
  let s := { s with origCol := origCol }
  if origCol < 0 then .fail s (.invalidOrigCol origCol) i else
  stepName c { s with current := s.current + i }

/-- one round of `for current < mappingsLen` (the caller has tested `current < mappingsLen`) -/
def step (c : Consts) (s : Loop) : Step :=
  match c.units[s.current]? with
  | none => .panic
  | some u =>
  -- Handle a line break
  if u = 59 then
    .next { s with genLine := wrap32 (s.genLine + 1), genCol := 0, current := s.current + 1 }
  else
  -- Read the generated column
  match decAt c.units s.current with
  | none => .panic
  | some none => .fail s .missingGenCol 0
  | some (some (delta, i)) =>
  let s := { s with needSort := s.needSort || decide (delta < 0), genCol := wrap32 (s.genCol + delta) }
  if (s.genLine = c.lineOffset ∧ s.genCol < c.columnOffset) ∨ s.genCol < 0 then
    .fail s (.invalidGenCol s.genCol) i
  else
  let s := { s with current := s.current + i }
  if s.current = c.units.length then .done s else
  match c.units[s.current]? with
  | none => .panic
  | some u =>
  if u = 44 then .next { s with current := s.current + 1 }
  else if u = 59 then .next s
  else stepSource c s

inductive LoopResult where
  | ok (s : Loop)
  | err (current : Nat) (e : Err) (len : Nat)
  | panic
  | hang

/-- `for current < mappingsLen { … }` -/
def loop (c : Consts) : Nat → Loop → LoopResult
  | 0, _ => .hang
  | fuel + 1, s =>
    if s.current < c.units.length then
      match step c s with
      | .next s => loop c fuel s
      | .done s => .ok s
      | .fail s e len => .err s.current e len
      | .panic => .panic
    else .ok s

/-- one element of `sections` after its properties have been read -/
structure SectionIn where
  lineOffset : Int
  columnOffset : Int
  hasVersion : Bool
  units : List Nat       -- `mappingsRaw` ([] when absent or not a string)
  sourcesLen : Nat       -- len(sourcesArray)
  contentLen : Nat       -- len(sourcesContentArray)
  namesLen : Nat         -- len(namesArray)
deriving Repr

/-- the variables that live across sections -/
structure Acc where
  sources : Nat := 0     -- len(sources)
  content : Nat := 0     -- len(sourcesContent)
  names : Nat := 0       -- len(names)
  mappings : List Mapping := []
  genLine : Int := 0
  genCol : Int := 0
  needSort : Bool := false
deriving Repr

inductive SecResult where
  | ok (a : Acc)
  | err (current : Nat) (e : Err) (len : Nat) -- `return nil` after the warning
  | panic
  | hang

/-- body of `for _, section := range sections` -/
def section_ (a : Acc) (x : SectionIn) : SecResult :=
  -- Silently ignore the section if the version was missing or incorrect / if the source map is pointless
  if !x.hasVersion then .ok a else
  if x.units.length = 0 ∨ x.sourcesLen = 0 then .ok a else
  let needSort := a.needSort ||
    (decide (x.lineOffset < a.genLine) || (decide (x.lineOffset = a.genLine) && decide (x.columnOffset < a.genCol)))
  let sourceOffset := wrap32 a.sources
  let nameOffset := wrap32 a.names
  let c : Consts := { units := x.units, lineOffset := x.lineOffset, columnOffset := x.columnOffset,
                      sourceOffset := sourceOffset, nameOffset := nameOffset,
                      sourcesLen := x.sourcesLen, namesLen := x.namesLen }
  let s0 : Loop := { current := 0, genLine := x.lineOffset, genCol := x.columnOffset, srcIdx := sourceOffset,
                     origLine := 0, origCol := 0, origName := nameOffset, needSort := needSort, out := a.mappings }
  match loop c (x.units.length + 1) s0 with
  | .panic => .panic
  | .hang => .hang
  | .err cur e len => .err cur e len
  | .ok s =>
    let sources := a.sources + x.sourcesLen
    let content : Option Nat :=
      if x.contentLen > 0 then
        -- make([]sourcemap.SourceContent, int(sourceOffset)-len(sourcesContent))
        if sourceOffset - (a.content : Int) < 0 then none
        else some (a.content + (sourceOffset - (a.content : Int)).toNat + min x.contentLen x.sourcesLen)
      else some a.content
    match content with
    | none => .panic
    | some content =>
      .ok { sources := sources, content := content, names := a.names + x.namesLen, mappings := s.out,
            genLine := s.genLine, genCol := s.genCol, needSort := s.needSort }

def sections (a : Acc) : List SectionIn → SecResult
  | [] => .ok a
  | x :: xs =>
    match section_ a x with
    | .ok a => sections a xs
    | r => r

/-- `mappingArray.Less` -/
def less (a b : Mapping) : Bool :=
  decide (a.genLine < b.genLine) || (decide (a.genLine = b.genLine) && decide (a.genCol ≤ b.genCol))

inductive Result where
  | map (sources content names : Nat) (mappings : List Mapping)
  | nil                                        -- silently `return nil`
  | err (current : Nat) (e : Err) (len : Nat)  -- warning + `return nil`
  | panic
  | hang
deriving DecidableEq, Repr

/-- `ParseSourceMap` after the section list has been built -/
def parse (xs : List SectionIn) : Result :=
  match sections {} xs with
  | .panic => .panic
  | .hang => .hang
  | .err cur e len => .err cur e len
  | .ok a =>
    if a.sources = 0 ∨ a.mappings.length = 0 then .nil else
    if a.needSort then
      match GoSort.stable less a.mappings.toArray with
      | none => .panic
      | some d => .map a.sources a.content a.names d.toList
    else .map a.sources a.content a.names a.mappings

/-! ### `SourceMap.Find` -/

/-- the binary search; `none` = index out of range; result = `index` -/
def findLoop (ms : Array Mapping) (line col : Int) : Nat → Int → Int → Option Int
  | 0, _, _ => none
  | fuel + 1, count, index =>
    if count > 0 then
      let step := count / 2
      let i := index + step
      if i < 0 then none else
      match ms[i.toNat]? with
      | none => none
      | some m =>
        if m.genLine < line ∨ (m.genLine = line ∧ m.genCol ≤ col) then
          findLoop ms line col fuel (count - (step + 1)) (i + 1)
        else findLoop ms line col fuel step index
    else some index

/-- `sm.Find(line, column)`: outer `none` = panic, `some none` = nil, `some (some k)` = `&sm.Mappings[k]` -/
def find (ms : Array Mapping) (line col : Int) : Option (Option Nat) :=
  match findLoop ms line col (ms.size + 1) ms.size 0 with
  | none => none
  | some index =>
    if index > 0 then
      match ms[(index - 1).toNat]? with
      | none => none
      | some m => if m.genLine = line then some (some (index - 1).toNat) else some none
    else some none

end EsbuildModel.SmParse
