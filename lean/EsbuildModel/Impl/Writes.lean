/-
Model of what a build context does to the file system (pkg/api/api_impl.go rebuildImpl + rebuild, and the
output checks at the end of internal/bundler/bundler.go Compile).

A context remembers the paths of the output files of its latest build (`latestHashes`).  One rebuild:
  * the bundler produces output files (path, content) unless scanning/linking failed;
  * Compile refuses (an error) when an output path is one of the input files and overwriting was not allowed
    (it is implicitly allowed when writing is disabled),
    and when two outputs share a path with different contents;
  * a cancelled build is an error;
  * with errors the new hash table is empty;
  * if writing is enabled: every path of the old table that is not in the new table is deleted, and — only if
    there were no errors — every output is written, except those whose hash is unchanged and whose content is
    already on disk;
  * the context's table becomes the new table.
Paths and contents are natural numbers (the harness numbers them).
-/
import EsbuildModel.Util.Wire
namespace EsbuildModel.Writes

structure Out where
  path : Nat
  content : Nat
deriving DecidableEq, Repr

structure Req where
  inputs : List Nat           -- absolute paths of all input files
  outs : List Out             -- what the linker produced (empty if scan/link failed)
  failed : Bool               -- scan or link reported an error
  cancelled : Bool
  allowOverwrite : Bool
  write : Bool
  onDiskSame : List Nat       -- output paths whose current content on disk equals the new content
deriving Repr

/-- table of the latest build: path ↦ content hash (contents stand for their hashes) -/
abbrev Table := List Out

/-- api_impl.go validateBuildOptions: overwriting is implicitly allowed when nothing is written -/
def clobbersInput (r : Req) : Bool :=
  !r.allowOverwrite && r.write && r.outs.any (fun o => r.inputs.contains o.path)

def conflictingOutputs (r : Req) : Bool :=
  r.outs.any (fun a => r.outs.any (fun b => a.path == b.path && a.content != b.content))

def hasError (r : Req) : Bool := r.failed || r.cancelled || clobbersInput r || conflictingOutputs r

def newTable (r : Req) : Table := if hasError r then [] else r.outs

structure Effects where
  deleted : List Nat
  written : List Out
deriving Repr

def effects (old : Table) (r : Req) : Effects :=
  if !r.write then { deleted := [], written := [] } else
  let nt := newTable r
  { deleted := (old.map (·.path)).filter (fun p => !(nt.map (·.path)).contains p),
    written := if hasError r then [] else
      r.outs.filter (fun o => !(old.contains o && r.onDiskSame.contains o.path)) }

/-- one rebuild: the effects and the context's next table -/
def step (old : Table) (r : Req) : Effects × Table := (effects old r, newTable r)

/-- a history of rebuilds on one context; ghost component: everything the context has ever written -/
def run : Table → List Nat → List Req → List Effects
  | _, _, [] => []
  | t, ever, r :: rs =>
    let (e, t') := step t r
    e :: run t' (ever ++ e.written.map (·.path)) rs

-- ---------------------------------------------------------------- wire

def parseOuts (s : String) : Option (List Out) :=
  if s = "-" then some [] else
  (s.splitOn ",").mapM (fun item =>
    match item.splitOn ":" with
    | [p, c] => do let p ← p.toNat?; let c ← c.toNat?; pure { path := p, content := c }
    | _ => none)

def b (s : String) : Option Bool := if s = "1" then some true else if s = "0" then some false else none

def showOuts (l : List Out) : String :=
  if l.isEmpty then "-" else ",".intercalate (l.map (fun o => s!"{o.path}:{o.content}"))

def driver (args : List String) : String :=
  match args with
  | [old, inputs, outs, failed, cancelled, allow, write, same] =>
    match parseOuts old, Wire.parseNatList inputs, parseOuts outs, b failed, b cancelled, b allow, b write,
          Wire.parseNatList same with
    | some old, some inputs, some outs, some failed, some cancelled, some allow, some write, some same =>
      let r : Req := { inputs, outs, failed, cancelled, allowOverwrite := allow, write, onDiskSame := same }
      let (e, t) := step old r
      s!"err={if hasError r then 1 else 0} del={Wire.showNatList e.deleted} wr={showOuts e.written} next={showOuts t}"
    | _, _, _, _, _, _, _, _ => "bad-op"
  | _ => "bad-op"

end EsbuildModel.Writes
