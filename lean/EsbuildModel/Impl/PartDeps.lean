/-
Model of how esbuild's linker computes the dependency edges between parts (`js_ast.Part.Dependencies`), the INPUT of
the tree-shaking model Impl/Shake.lean.  Transcribed from

  * internal/js_parser/js_parser.go, end of `toAST`: `topLevelSymbolToParts` (every top-level declared symbol, links
    followed, filed under the parts that declare it; every linked symbol aliased to the parts of its chain end; the
    exports object always under `NSExportPartIndex` = 0);
  * internal/graph/graph.go / input.go: `AddPartToFile` (overlay), `TopLevelSymbolToParts`, `GenerateSymbolImportAndUse`,
    `GenerateRuntimeSymbolImportAndUse`;
  * internal/linker/linker.go `scanImportsAndExports`
      step 4 `createWrapperForFile`  (the wrapper part of a wrapped file depends on `__commonJS` / `__esm`),
      step 5 `createExportsForFile`  (the namespace-export part 0 depends on every resolved export, on the re-export
             chain of an exported import and on `__export`), the call-use loop (calls of empty / identity functions do
             not count as uses), the local loop (a part that uses a symbol depends on every part of its file that
             declares it; `LocalPartsWithUses`; imports of inlined constants are skipped),
      step 6 the `ImportsToBind` loop (a part using a bound import depends on the parts declaring the resolved symbol in
             the other file and on `ImportData.ReExports`), the entry-point part, the import-record loop (wrapper
             symbol and exports object of wrapped / dynamic-fallback files, `__toESM`, `__toCommonJS`, `__require`) and
             the export-star loop (`__reExport`, exports objects).

The linker is observed AFTER these steps (hook verif_observe_partdeps.go), so the model works on the final tables: the
final `SymbolUses` of a part are an input; the uses the linker adds itself (call uses that are kept, generated uses)
are recomputed and must be among them.  Order and multiplicity of `Dependencies` are not modelled (nothing reads them:
`markPartLiveForTreeShaking` and `markFileReachableForCodeSplitting` only iterate); results are compared as sets.

NOT modelled: how the parser finds `SymbolUses` / `DeclaredSymbols` / call uses, `ImportSymbolPropertyUses` (TypeScript
enum inlining), how `ImportsToBind` is computed (Impl/ExportMatch.lean models target file and ref; `ReExports` is an input
here), CSS and lazy-export specifics beyond their parts.  A Go run-time panic (a record index or file that does not
exist) is excluded by `structOk`; the driver answers PANIC when it fails.
-/
import EsbuildModel.Util.Wire
namespace EsbuildModel.PartDeps

/-- `ast.Ref` -/
structure Ref where
  src : Nat
  idx : Nat
deriving DecidableEq, Repr

/-- `js_ast.Dependency` -/
structure Dep where
  src : Nat
  part : Nat
deriving DecidableEq, Repr

structure Decl where
  ref : Ref
  top : Bool
deriving DecidableEq, Repr

/-- `js_ast.SymbolCallUse` -/
structure CallUse where
  ref : Ref
  calls : Nat
  single : Nat
deriving DecidableEq, Repr

structure Part where
  uses : List Ref          -- keys of the final `SymbolUses`
  callUses : List CallUse
  decls : List Decl
  recs : List Nat          -- `ImportRecordIndices`
deriving Repr

/-- `ast.ImportKind` values the linker distinguishes -/
def kStmt : Nat := 1
def kRequire : Nat := 2
def kDynamic : Nat := 3

structure Rec where
  kind : Nat
  target : Option Nat      -- `record.SourceIndex`
  star : Bool              -- ContainsImportStar
  dflt : Bool              -- ContainsDefaultAlias
  esm : Bool               -- ContainsESModuleAlias
  extDyn : Bool            -- `isExternalDynamicImport`
deriving Repr

/-- an entry of `Meta.ImportsToBind` -/
structure Bind where
  key : Ref
  src : Nat
  ref : Ref
  rx : List Dep            -- ReExports
deriving Repr

/-- a symbol that has a link or one of the flags the linker reads; symbols not listed have none -/
structure Sym where
  idx : Nat
  link : Option Ref
  isImport : Bool
  isEmpty : Bool
  isIdentity : Bool
  mutated : Bool
deriving Repr

/-- `graph.WrapKind` -/
def wrapCJS : Nat := 1
def wrapESM : Nat := 2
/-- `js_ast.ExportsKind` -/
def kindCJS : Nat := 1
def kindESMDyn : Nat := 3

structure File where
  src : Nat
  isEntry : Bool
  forceInclude : Bool      -- Meta.ForceIncludeExportsForEntryPoint
  needsExportsVar : Bool   -- Meta.NeedsExportsVariable
  wrap : Nat
  kind : Nat
  wrapperPart : Option Nat
  entryPart : Option Nat
  exportsRef : Ref
  moduleRef : Ref
  wrapperRef : Ref
  /-- `ResolvedExports[alias]` (SourceIndex, Ref) for alias in `SortedAndFilteredExportAliases` -/
  exports : List (Nat × Ref)
  nimps : List Ref         -- keys of `AST.NamedImports`
  binds : List Bind
  recs : List Rec
  stars : List Nat         -- ExportStarImportRecords
  syms : List Sym
  parts : List Part
deriving Repr

structure Opts where
  keepESM : Bool           -- OutputFormat.KeepESMImportExportSyntax()
  fmtCJS : Bool
  rtReq : Bool             -- config.ShouldCallRuntimeRequire
  noDyn : Bool             -- UnsupportedJSFeatures.Has(DynamicImport)
  constOn : Bool           -- graph.ConstValues != nil
deriving Repr

structure State where
  opts : Opts
  consts : List Ref        -- keys of graph.ConstValues
  rtSrc : Nat
  rtToESM : Ref
  rtToCJS : Ref
  rtRequire : Ref
  rtReExport : Ref
  rtExport : Ref
  rtCommonJS : Ref
  rtESM : Ref
  files : List File
deriving Repr

def State.file? (s : State) (i : Nat) : Option File := s.files.find? (fun f => f.src == i)

def File.bind? (f : File) (r : Ref) : Option Bind := f.binds.find? (fun b => b.key == r)

def File.sym? (f : File) (i : Nat) : Option Sym := f.syms.find? (fun y => y.idx == i)

-- ---------------------------------------------------------------- topLevelSymbolToParts

/-- the link a symbol had when the PARSER ran: the linker only links the keys of `ImportsToBind` (step 6,
`MergeSymbols(importRef, importData.Ref)`), and those have no link before -/
def plink (f : File) (r : Ref) : Option Ref :=
  if r.src != f.src then none
  else if (f.bind? r).isSome then none
  else match f.sym? r.idx with
    | some y => y.link
    | none => none

/-- `for p.symbols[ref.InnerIndex].Link != ast.InvalidRef { ref = p.symbols[ref.InnerIndex].Link }`; `none` = the
loop does not terminate within the fuel (a cycle of links) -/
def pfollow (f : File) : Nat → Ref → Option Ref
  | 0, r => if (plink f r).isNone then some r else none
  | fuel + 1, r =>
    match plink f r with
    | none => some r
    | some r' => pfollow f fuel r'

def File.fuel (f : File) : Nat := f.syms.length

/-- does the part declare (at top level) a symbol that is filed under `r` -/
def declares (f : File) (p : Part) (r : Ref) : Bool :=
  p.decls.any (fun d => d.top && pfollow f f.fuel d.ref == some r)

/-- the parts the PARSER made: part 0 is the (then empty) namespace-export placeholder, the wrapper part is appended by
the linker (step 4); linker-made parts that declare fresh symbols (lazy exports) do not matter here, nothing is linked
to a fresh symbol -/
def parserPart (f : File) (q : Nat) : Bool := q != 0 && f.wrapperPart != some q

/-- `repr.TopLevelSymbolToParts(ref)` as a set.  For a symbol without a parser link: the parts that declare the symbol
(a declared symbol is filed under the end of its link chain), plus "pulling in the exports of this module always pulls
in the export part".  For a symbol WITH a parser link (a `var` re-declared in a nested scope and hoisted, a function
declared twice): toAST files it under the parts its chain end had when the parser finished ("A symbol that was merged
into another one … is still used under its own ref by the code in that nested scope") -/
def tlsOf (f : File) (r : Ref) : List Nat :=
  match plink f r with
  | none =>
    ((List.range f.parts.length).filter (fun q => match f.parts[q]? with
      | some p => declares f p r
      | none => false)) ++ (if r == f.exportsRef then [0] else [])
  | some _ =>
    match pfollow f f.fuel r with
    | some e => (List.range f.parts.length).filter (fun q => parserPart f q && (match f.parts[q]? with
      | some p => declares f p e
      | none => false))
    | none => []

/-- the dependencies `{sourceIndex g, partIndex}` for the parts of file `g` declaring `r` -/
def tlsIn (s : State) (g : Nat) (r : Ref) : List Dep :=
  match s.file? g with
  | some gf => (tlsOf gf r).map (fun q => ⟨g, q⟩)
  | none => []

-- ---------------------------------------------------------------- step 5: call uses

def noSym : Sym := { idx := 0, link := none, isImport := false, isEmpty := false, isIdentity := false, mutated := false }

/-- `graph.Symbols.Get(ref)` restricted to what the linker reads (no link is followed) -/
def symOf (s : State) (r : Ref) : Sym :=
  match s.file? r.src with
  | some f => (f.sym? r.idx).getD noSym
  | none => noSym

/-- "Find the symbol that was called": an import is looked up through `ImportsToBind` -/
def calledSym (s : State) (f : File) (r : Ref) : Sym :=
  let y := symOf s r
  if y.isImport then
    match f.bind? r with
    | some b => symOf s b.ref
    | none => y
  else y

/-- the call use does NOT become a use: every call will be inlined (`continue` in the `SymbolCallUses` loop) -/
def callExempt (s : State) (f : File) (cu : CallUse) : Bool :=
  let y := calledSym s f cu.ref
  if y.isEmpty && !y.mutated then true
  else if y.isIdentity && !y.mutated then cu.calls == cu.single   -- uint32: `calls -= single; calls == 0`
  else false

/-- call uses that the loop adds to `part.SymbolUses` -/
def keptCallUses (s : State) (f : File) (p : Part) : List Ref :=
  (p.callUses.filter (fun cu => !callExempt s f cu)).map (·.ref)

-- ---------------------------------------------------------------- step 5: local dependencies

/-- "Rare path: this import is an inlined const value" (`continue`: no dependency, no LocalPartsWithUses entry) -/
def constSkip (s : State) (f : File) (r : Ref) : Bool :=
  s.opts.constOn && (match f.bind? r with
    | some b => s.consts.contains b.ref
    | none => false)

/-- `for ref := range part.SymbolUses { for _, otherPartIndex := range repr.TopLevelSymbolToParts(ref) {…} }` -/
def localDeps (s : State) (f : File) (p : Part) : List Dep :=
  p.uses.flatMap (fun r => if constSkip s f r then [] else (tlsOf f r).map (fun q => ⟨f.src, q⟩))

/-- `namedImports[ref].LocalPartsWithUses` -/
def localPartsWithUses (s : State) (f : File) (k : Ref) : List Nat :=
  if f.nimps.contains k then
    (List.range f.parts.length).filter (fun q => match f.parts[q]? with
      | some p => p.uses.contains k && !constSkip s f k
      | none => false)
  else []

-- ---------------------------------------------------------------- step 6: ImportsToBind

/-- "Depend on the file containing the imported symbol" + "any files that re-exported this symbol" -/
def bindDeps (s : State) (f : File) (q : Nat) : List Dep :=
  f.binds.flatMap (fun b => if (localPartsWithUses s f b.key).contains q then tlsIn s b.src b.ref ++ b.rx else [])

-- ---------------------------------------------------------------- GenerateSymbolImportAndUse calls

/-- one call `GenerateSymbolImportAndUse(sourceIndex, partIndex, ref, n>0, from)` -/
structure Gen where
  ref : Ref
  src : Nat
deriving DecidableEq, Repr

def Rec.external (r : Rec) : Bool := r.target.isNone || r.extDyn

/-- "Check if it will be a require() call" -/
def Rec.requireLike (o : Opts) (r : Rec) : Bool :=
  r.kind == kRequire || !o.keepESM || (r.kind == kDynamic && o.noDyn)

def recRtRequire (s : State) (r : Rec) : Bool := r.external && r.requireLike s.opts && s.opts.rtReq

def recToESM (s : State) (r : Rec) : Bool :=
  if r.external then
    r.requireLike s.opts && r.kind != kRequire && (r.kind != kStmt || r.star || r.dflt || r.esm)
  else match r.target.bind s.file? with
    | some o => o.wrap != 0 && r.kind != kRequire && o.kind == kindCJS
    | none => false

def recToCJS (s : State) (r : Rec) : Bool :=
  if r.external then false
  else match r.target.bind s.file? with
    | some o => o.wrap == wrapESM && r.kind != kStmt && r.kind == kRequire
    | none => false

/-- wrapper symbol / exports object of the imported file -/
def recGens (s : State) (r : Rec) : List Gen :=
  if r.external then []
  else match r.target.bind s.file? with
    | some o =>
      if o.wrap != 0 then
        [⟨o.wrapperRef, o.src⟩] ++ (if o.wrap == wrapESM && r.kind != kStmt then [⟨o.exportsRef, o.src⟩] else [])
      else if r.kind == kStmt && o.kind == kindESMDyn then [⟨o.exportsRef, o.src⟩]
      else []
    | none => []

def partRecs (f : File) (p : Part) : List Rec := p.recs.filterMap (fun i => f.recs[i]?)
def starRecs (f : File) : List Rec := f.stars.filterMap (fun i => f.recs[i]?)

/-- "Is this export star evaluated at run time?" -/
def starHappens (s : State) (f : File) (r : Rec) : Bool :=
  (r.target.isNone && (!f.isEntry || !s.opts.keepESM)) ||
  (match r.target.bind s.file? with
    | some o => o.src != f.src && (o.kind == kindCJS || o.kind == kindESMDyn)
    | none => false)

/-- the export-star loop: it runs for EVERY part of the file (it is inside `for partIndex, part := range repr.AST.Parts`
but iterates `repr.AST.ExportStarImportRecords`, not the part's own records) -/
def starGens (s : State) (f : File) : List Gen :=
  (starRecs f).flatMap (fun r =>
    (match r.target.bind s.file? with
      | some o => if o.kind == kindESMDyn then [⟨o.exportsRef, o.src⟩] else []
      | none => []) ++
    (if starHappens s f r then [⟨f.exportsRef, f.src⟩] else [])) ++
  (if (starRecs f).any (starHappens s f) then [⟨s.rtReExport, s.rtSrc⟩] else [])

/-- `len(nsExportStmts) > 0` in createExportsForFile: part 0 is (re)initialised -/
def nsGenerated (s : State) (f : File) : Bool :=
  f.needsExportsVar || !f.exports.isEmpty || (f.forceInclude && s.opts.fmtCJS)

/-- `repr.Meta.NeedsExportSymbolFromRuntime` -/
def needsExportSym (_s : State) (f : File) : Bool := !f.exports.isEmpty

/-- every `GenerateSymbolImportAndUse` call for part `q` -/
def gens (s : State) (f : File) (q : Nat) (p : Part) : List Gen :=
  (partRecs f p).flatMap (recGens s) ++
  (if (partRecs f p).any (recToESM s) then [⟨s.rtToESM, s.rtSrc⟩] else []) ++
  (if (partRecs f p).any (recToCJS s) then [⟨s.rtToCJS, s.rtSrc⟩] else []) ++
  (if (partRecs f p).any (recRtRequire s) then [⟨s.rtRequire, s.rtSrc⟩] else []) ++
  starGens s f ++
  (if q == 0 && needsExportSym s f then [⟨s.rtExport, s.rtSrc⟩] else []) ++
  (if f.wrapperPart == some q then
    (if f.wrap == wrapCJS then [⟨s.rtCommonJS, s.rtSrc⟩] else if f.wrap == wrapESM then [⟨s.rtESM, s.rtSrc⟩] else [])
   else []) ++
  (if f.entryPart == some q && f.forceInclude then [⟨s.rtToCJS, s.rtSrc⟩] else [])

/-- "Pull in all parts that declare this symbol" -/
def genDeps (s : State) (f : File) (q : Nat) (p : Part) : List Dep :=
  (gens s f q p).flatMap (fun g => tlsIn s g.src g.ref)

-- ---------------------------------------------------------------- parts built by the linker

/-- "If this is an export of an import, reference the symbol that the import was eventually resolved to" -/
def resolveExport (s : State) (e : Nat × Ref) : Nat × Ref × List Dep :=
  match (s.file? e.1).bind (fun g => g.bind? e.2) with
  | some b => (b.src, b.ref, b.rx)
  | none => (e.1, e.2, [])

def exportDeps (s : State) (f : File) : List Dep :=
  f.exports.flatMap (fun e => let r := resolveExport s e; r.2.2 ++ tlsIn s r.1 r.2.1)

/-- createExportsForFile: `nsExportDependencies` -/
def nsDeps (s : State) (f : File) : List Dep :=
  exportDeps s f ++ (if !f.exports.isEmpty then tlsIn s s.rtSrc s.rtExport else [])

/-- createExportsForFile: keys of `nsExportSymbolUses` -/
def nsUses (s : State) (f : File) : List Ref := f.exports.map (fun e => (resolveExport s e).2.1)

/-- the dummy part of an entry point -/
def entryDeps (s : State) (f : File) : List Dep :=
  exportDeps s f ++ (if f.forceInclude then [⟨f.src, 0⟩] else []) ++
  (match f.wrapperPart with
    | some w => if f.wrap != 0 then [⟨f.src, w⟩] else []
    | none => [])

/-- createWrapperForFile: the dummy part depends on `__commonJS` / `__esm` -/
def wrapperDeps (s : State) (f : File) : List Dep :=
  if f.wrap == wrapCJS then tlsIn s s.rtSrc s.rtCommonJS
  else if f.wrap == wrapESM then tlsIn s s.rtSrc s.rtESM else []

def baseDeps (s : State) (f : File) (q : Nat) : List Dep :=
  (if q == 0 && nsGenerated s f then nsDeps s f else []) ++
  (if f.wrapperPart == some q then wrapperDeps s f else []) ++
  (if f.entryPart == some q then entryDeps s f else [])

/-- the final `part.Dependencies` of part `q` of file `f`, as a set -/
def deps (s : State) (f : File) (q : Nat) (p : Part) : List Dep :=
  baseDeps s f q ++ localDeps s f p ++ bindDeps s f q ++ genDeps s f q p

/-- uses the linker itself puts into `SymbolUses`; they must be among the final uses -/
def linkerUses (s : State) (f : File) (q : Nat) (p : Part) : List Ref :=
  keptCallUses s f p ++ (gens s f q p).map (·.ref) ++
  (if q == 0 && nsGenerated s f then nsUses s f else []) ++
  (if f.wrapperPart == some q && f.wrap != 0 then [f.wrapperRef] else [])

-- ---------------------------------------------------------------- no Go panic / well-formedness of a dump

def Rec.targetOk (s : State) (r : Rec) : Bool :=
  match r.target with
  | some o => (s.file? o).isSome
  | none => true

/-- the Go code does not index out of range or fail a type assertion -/
def File.structOk (s : State) (f : File) : Bool :=
  f.parts.all (fun p => p.recs.all (· < f.recs.length)) &&
  f.stars.all (· < f.recs.length) &&
  f.recs.all (fun r => r.external || r.targetOk s) &&
  (starRecs f).all (Rec.targetOk s) &&
  f.binds.all (fun b => (s.file? b.src).isSome) &&
  f.exports.all (fun e => (s.file? e.1).isSome && (s.file? (resolveExport s e).1).isSome) &&
  (f.wrap == 0 || f.wrapperPart.isSome)

def structOk (s : State) : Bool := (s.file? s.rtSrc).isSome && s.files.all (File.structOk s)

def Dep.inRange (s : State) (d : Dep) : Bool :=
  match s.file? d.src with
  | some g => d.part < g.parts.length
  | none => false

/-- shape of the tables: symbols belong to the files that name them, part indices exist, flags agree with indices,
links do not cycle -/
def File.shapeOk (s : State) (f : File) : Bool :=
  (f.isEntry == f.entryPart.isSome) && ((f.wrap != 0) == f.wrapperPart.isSome) &&
  (match f.wrapperPart with | some w => w < f.parts.length | none => true) &&
  (match f.entryPart with | some e => e < f.parts.length | none => true) &&
  (0 < f.parts.length) &&
  (f.exportsRef.src == f.src) && (f.moduleRef.src == f.src) && (f.wrapperRef.src == f.src) &&
  (plink f f.exportsRef).isNone &&
  f.parts.all (fun p => p.decls.all (fun d => (pfollow f f.fuel d.ref).isSome) && p.callUses.all (fun cu => cu.ref.src == f.src)) &&
  f.nimps.all (fun k => k.src == f.src) &&
  f.binds.all (fun b => b.ref.src == b.src && b.rx.all (Dep.inRange s)) &&
  f.exports.all (fun e => e.2.src == e.1)

/-- every binding the linker generates itself (a use of a symbol of ANOTHER file through
`GenerateSymbolImportAndUse`) is in `ImportsToBind` with target = the symbol itself -/
def File.genBindsOk (s : State) (f : File) : Bool :=
  (List.range f.parts.length).all (fun q => match f.parts[q]? with
    | some p => (gens s f q p).all (fun g => g.src == f.src ||
        (match f.bind? g.ref with | some b => b.src == g.src && b.ref == g.ref | none => false))
    | none => true)

/-- an `ImportsToBind` entry whose key is not a named import of the file is such a generated binding -/
def File.otherBindsOk (f : File) : Bool :=
  f.binds.all (fun b => f.nimps.contains b.key || (b.key.src != f.src && b.src == b.key.src && b.ref == b.key))

/-- a symbol of another file is only used where the linker put the use -/
def File.foreignUsesOk (s : State) (f : File) : Bool :=
  (List.range f.parts.length).all (fun q => match f.parts[q]? with
    | some p => p.uses.all (fun r => r.src == f.src || (linkerUses s f q p).contains r)
    | none => true)

/-- every entry of `ReExports` is a part that declares a named import of its file (an import / re-export statement) -/
def File.rxOk (s : State) (f : File) : Bool :=
  f.binds.all (fun b => b.rx.all (fun d => match s.file? d.src with
    | some g => (match g.parts[d.part]? with
      | some p => p.decls.any (fun dc => dc.top && g.nimps.contains dc.ref)
      | none => false)
    | none => false))

/-- the wrapper part declares the wrapper symbol, which is not linked or bound to anything -/
def File.wrapperOk (f : File) : Bool :=
  match f.wrapperPart with
  | some w => (match f.parts[w]? with
    | some p => p.decls.any (fun d => d.top && d.ref == f.wrapperRef)
    | none => false) && (f.sym? f.wrapperRef.idx).isNone && (f.bind? f.wrapperRef).isNone
  | none => true

/-- what the linker adds to `SymbolUses` is there -/
def File.linkerUsesOk (s : State) (f : File) : Bool :=
  (List.range f.parts.length).all (fun q => match f.parts[q]? with
    | some p => (linkerUses s f q p).all p.uses.contains
    | none => true)

/-- the links the linker made (`MergeSymbols(importRef, importData.Ref)`): an import symbol that is bound is linked
to its target, the target is the end of its chain, an unbound import symbol is not linked -/
def File.linksOk (s : State) (f : File) : Bool :=
  f.syms.all (fun y => !y.isImport ||
    (match f.bind? ⟨f.src, y.idx⟩ with
      | some b => y.link == some b.ref && (symOf s b.ref).link.isNone
      | none => y.link.isNone))

/-- a symbol with a parser link never ends at a symbol that a linker-made part declares (the exports object, `module`,
the wrapper): the alias table of toAST, built before those parts exist, then agrees with the final declarations.
NOT part of `wf`: real builds can violate it (a CommonJS-style file whose module-level `var exports` / `var module` is
re-declared in a nested scope); it is the residual hypothesis of soundness (Props/C04PartDeps.lean) -/
def File.aliasOk (f : File) : Bool :=
  f.syms.all (fun y => match plink f ⟨f.src, y.idx⟩ with
    | none => true
    | some _ => (match pfollow f f.fuel ⟨f.src, y.idx⟩ with
      | some e => e != f.exportsRef &&
          (List.range f.parts.length).all (fun q => parserPart f q || (match f.parts[q]? with
            | some p => !declares f p e
            | none => true))
      | none => false))

def aliasOk (s : State) : Bool := s.files.all File.aliasOk

def File.wf (s : State) (f : File) : Bool :=
  f.shapeOk s && f.genBindsOk s && f.otherBindsOk && f.foreignUsesOk s && f.rxOk s && f.wrapperOk && f.linkerUsesOk s &&
  f.linksOk s

def rtOk (s : State) : Bool :=
  s.rtToESM.src == s.rtSrc && s.rtToCJS.src == s.rtSrc && s.rtRequire.src == s.rtSrc && s.rtReExport.src == s.rtSrc &&
  s.rtExport.src == s.rtSrc && s.rtCommonJS.src == s.rtSrc && s.rtESM.src == s.rtSrc

def wf (s : State) : Bool :=
  structOk s && rtOk s && s.files.all (File.wf s) &&
  -- source indices identify files
  decide (s.files.map (·.src)).Nodup

end EsbuildModel.PartDeps
