import EsbuildModel.Impl.SmChunk
import EsbuildModel.Util.Wire
/-
Line protocol of kernel `smchunk` (model: `Impl/SmChunk.lean`).

  smchunk full <exclude><asciiOnly> <sourceRoot> <chunkAbsDir> <file>|<file>… <result>|<result>…
  smchunk src  <chunkAbsDir> <source>

Strings are hex ("-" = empty string); an empty LIST is the empty field.
file   = ns/text/suffix/selfQuoted/hasMap/sources/names/mappings/contents
           sources, names : hex;hex…     mappings : gl:gc:si:ol:oc:name;…  (name = "-" or a number)
           contents : quoted:hasValue:requoted;…
result = sourceIndex/isNull/offsetLines/offsetColumns/events     events : N | C<k> | M<line>:<col>:<name hex>, `;` separated
-/
namespace EsbuildModel.SmChunk
open SmJoin Wire

def splitList (sep : String) (s : String) : List String := if s = "" then [] else s.splitOn sep

def parseBytesList (s : String) : Option (List Bytes) := (splitList ";" s).mapM (parseHexUnits 2)

def showBytesList (l : List Bytes) : String := if l.isEmpty then "." else ";".intercalate (l.map (hexUnits 2))

def parseMapping (s : String) : Option SmParse.Mapping :=
  match s.splitOn ":" with
  | [gl, gc, si, ol, oc, n] =>
    match gl.toInt?, gc.toInt?, si.toInt?, ol.toInt?, oc.toInt?, parseOptNat n with
    | some gl, some gc, some si, some ol, some oc, some n => some ⟨gl, gc, si, ol, oc, n⟩
    | _, _, _, _, _, _ => none
  | _ => none

def parseContent (s : String) : Option SourceContent :=
  match s.splitOn ":" with
  | [q, h, r] =>
    match parseHexUnits 2 q, parseBool h, parseHexUnits 2 r with
    | some q, some h, some r => some ⟨q, h, r⟩
    | _, _, _ => none
  | _ => none

def parsePEv (s : String) : Option PEv :=
  if s = "N" then some .newline
  else
    match s.toList with
    | 'C' :: rest => ((String.ofList rest).toNat?).map PEv.cols
    | 'M' :: rest =>
      match (String.ofList rest).splitOn ":" with
      | [l, c, n] =>
        match l.toInt?, c.toInt?, parseHexUnits 2 n with
        | some l, some c, some n => some (.call l c n)
        | _, _, _ => none
      | _ => none
    | _ => none

/-- a file as the operation describes it -/
structure FileOp where
  ns : Bytes
  text : Bytes
  suffix : Bytes
  selfQuoted : Bytes
  im : Option (InputMap × List SourceContent)

def parseFile (s : String) : Option FileOp :=
  match s.splitOn "/" with
  | [ns, text, suffix, sq, hasMap, sources, names, mappings, contents] =>
    match parseHexUnits 2 ns, parseHexUnits 2 text, parseHexUnits 2 suffix, parseHexUnits 2 sq, parseBool hasMap,
      parseBytesList sources, parseBytesList names, (splitList ";" mappings).mapM parseMapping,
      (splitList ";" contents).mapM parseContent with
    | some ns, some text, some suffix, some sq, some hasMap, some sources, some names, some mappings, some contents =>
      some { ns := ns, text := text, suffix := suffix, selfQuoted := sq,
             im := if hasMap then some (⟨sources, mappings.toArray, names⟩, contents) else none }
    | _, _, _, _, _, _, _, _, _ => none
  | _ => none

structure ResultOp where
  sourceIndex : Nat
  isNull : Bool
  offset : Offset
  evs : List PEv

def parseResult (s : String) : Option ResultOp :=
  match s.splitOn "/" with
  | [si, nu, ol, oc, evs] =>
    match si.toNat?, parseBool nu, ol.toInt?, oc.toInt?, (splitList ";" evs).mapM parsePEv with
    | some si, some nu, some ol, some oc, some evs => some ⟨si, nu, ⟨ol, oc⟩, evs⟩
    | _, _, _, _, _ => none
  | _ => none

def FileOp.toFileIn (asciiOnly exclude : Bool) (f : FileOp) : FileIn :=
  { ns := f.ns, text := f.text, suffix := f.suffix
    inputSources := f.im.map (·.1.sources)
    quoted := quotedContents asciiOnly exclude f.selfQuoted f.im }

/-- the chunk of a result: a null entry carries the zero `sourcemap.Chunk`; otherwise the real builder ran with the
input source map of the result's file (no file: no input map) -/
def ResultOp.toResultIn (files : List FileOp) (r : ResultOp) : Option ResultIn :=
  let im : Option InputMap := match files[r.sourceIndex]? with
    | some f => f.im.map (·.1)
    | none => none
  mkResult im r.sourceIndex r.isNull r.offset r.evs

def showOpt (o : Option String) : String := match o with | some s => s | none => "~"

def showGenerated (g : Generated) : String :=
  s!"S {showBytesList g.sources} R {showOpt (g.sourceRoot.map (hexUnits 2))} C {showOpt (g.sourcesContent.map showBytesList)} M {hexUnits 2 g.mappings} N {showBytesList g.names}"

def full (exclude asciiOnly : Bool) (root dir : Bytes) (files : List FileOp) (results : List ResultOp) : String :=
  match results.mapM (ResultOp.toResultIn files) with
  | none => "PANIC in ChunkBuilder"
  | some rs =>
    let chunks := "|".intercalate ((rs.filter (!·.isNullEntry)).map fun r =>
      showChunk r.chunk ++ " " ++ showBytesList r.quotedNames)
    let fileIns := files.map (FileOp.toFileIn asciiOnly exclude)
    let data := "|".intercalate (fileIns.map fun f => showBytesList f.quoted)
    match generate fileIns exclude root dir rs with
    | none => s!"K {chunks} D {data} PANIC"
    | some g =>
      -- the model of URL handling is claimed only inside `sourceModelled`
      let its := (itemsLoop fileIns exclude {} rs).map (·.items)
      if (its.getD []).all (fun it => sourceModelled it.source) then s!"K {chunks} D {data} {showGenerated g}"
      else s!"K {chunks} D {data} UNMODELLED"

def driver (args : List String) : String :=
  match args with
  | ["full", flags, root, dir, files, results] =>
    match flags.toList.mapM (fun c => parseBool (String.singleton c)), parseHexUnits 2 root, parseHexUnits 2 dir,
      (splitList "|" files).mapM parseFile, (splitList "|" results).mapM parseResult with
    | some [exclude, asciiOnly], some root, some dir, some files, some results =>
      full exclude asciiOnly root dir files results
    | _, _, _, _, _ => "bad-op"
  | ["src", dir, s] =>
    match parseHexUnits 2 dir, parseHexUnits 2 s with
    | some dir, some s => if sourceModelled s then hexUnits 2 (writeSource dir s) else "UNMODELLED"
    | _, _ => "bad-op"
  | _ => "bad-op"

end EsbuildModel.SmChunk
