import EsbuildModel.Spec.RealPath
/-
Directory information and real paths in esbuild's resolver — a model of

  /repo/internal/fs/filepath.go   goFilepath.evalSymlinks            (`walkList` / `walk` / `goEval`)
  /repo/internal/fs/fs_real.go    realFS.kind, realFS.kindOfPath     (`kindOfPath`)
                                  realFS.ReadDirectory               (`readDirectory`: names in readdir order)
  /repo/internal/fs/fs.go         Entry.Symlink, Entry.Kind, DirEntries.Get (the map keyed by strings.ToLower(name))
                                                                      (`entrySymlink`, `entryKind`, `get`)
  /repo/internal/resolver/resolver.go
                                  dirInfoCached, dirInfoUncached (the parent / ReadDirectory / absRealPath part)
                                                                      (`dirInfoCached`, `dirInfoStep`)
                                  finalizeResolve (the rewrite of the result path to the real path)
                                                                      (`finalize`)
                                  Resolve → resolveWithoutSymlinks → loadAsFileOrDirectory → loadAsFile for a
                                  relative import with an explicit extension that names an existing entry, and
                                  loadNodeModules for such a package path (`resolveRel`, `resolveBare`; end-to-end cross-check only)

on a file tree `PosixFS.Tree` (Spec/RealPath.lean).  Paths are lists of components: every path the resolver
handles is the result of `fs.Join`, i.e. a clean absolute path, so `fs.Dir` / `fs.Base` / `fs.Join(dir, base)` are
`dropLast` / last / `++ [base]`; the empty string (`absRealPath == ""`, `symlink == ""`) is `none`.

The operating system (os.Lstat, os.Open + Readdirnames on a path that may run through links) is modelled as POSIX
resolution with Linux's bound of 40 link expansions (`osResolve`); `filepath.go`'s own loop allows 255.
Memoisation inside realFS (`fs.entries`, `Entry.needStat`) is invisible on an unchanging tree and not modelled;
the resolver's `dirCache` IS modelled (theorem cache_order_irrelevant is about it).
Not modelled: permissions (EACCES/EPERM → empty directory), the error message logged for errors other than
ENOENT/ENOTDIR (ELOOP), Windows volumes, Yarn PnP / zip, package.json, tsconfig.json.
-/
namespace EsbuildModel.RealPath
open EsbuildModel.PosixFS

/-! ## goFilepath.evalSymlinks -/

/-- the component loop of `evalSymlinks`; `dest` is the path built so far (it contains no links), `onLink` is what
happens after `path = link + path[end:]` (the same loop again with one more link walked).
Go keeps `dest == "/.."` when ".." is applied to the root and lets the OS and the final `clean` treat it as "/";
the model stays at the root. -/
def walkList (t : Tree) (onLink : Path → List Name → Option Path) : Path → List Name → Option Path
  | dest, [] => some dest
  | dest, c :: rest =>
    if c = dotN then walkList t onLink dest rest
    else if c = dotdotN then walkList t onLink dest.dropLast rest
    else
      match t.raw (dest ++ [c]) with          -- os.Lstat(dest): dest has no links, so this is the entry itself
      | none => none                           -- return "", err
      | some (.link abs tgt) => onLink (if abs then [] else dest) (tgt ++ rest)
      | some .dir => walkList t onLink (dest ++ [c]) rest
      | some .file => if rest = [] then some (dest ++ [c]) else none   -- !IsDir && end < len(path) → ENOTDIR

/-- `walk t b` may expand `b` links (`linksWalked++; if linksWalked > 255 → error`) -/
def walk (t : Tree) : Nat → Path → List Name → Option Path
  | 0, dest, rest => walkList t (fun _ _ => none) dest rest
  | b + 1, dest, rest => walkList t (fun d r => walk t b d r) dest rest

/-- `fs.fp.evalSymlinks(path)` for an absolute path -/
def goLinkLimit : Nat := 255
def goEval (t : Tree) (p : List Name) : Option Path := walk t goLinkLimit [] p

/-! ## the operating system -/

/-- Linux: MAXSYMLINKS = 40 link expansions per lookup, then ELOOP -/
def osLinkLimit : Nat := 40
/-- follow every link of the pathname (open, stat, opendir) -/
def osResolve (t : Tree) (p : List Name) : Option Path := walk t osLinkLimit [] p

/-- `os.Lstat(p)`: resolve the directory part, do not follow the last component -/
def osLstat (t : Tree) (p : Path) : Option Node :=
  match splitLast p with
  | none => some .dir
  | some (d, b) =>
    match osResolve t d with
    | none => none
    | some rd => if t.raw rd = some .dir then t.raw (rd ++ [b]) else none

/-- `os.Open(p)` + `Readdirnames(-1)`: the names in listing order, or an error (ENOENT / ENOTDIR / ELOOP) -/
def osReaddir (t : Tree) (p : Path) : Option (List Name) :=
  match osResolve t p with
  | none => none
  | some rd => if t.raw rd = some .dir then some (t.children rd) else none

/-! ## fs_real.go / fs.go -/

inductive Kind where
  | none    -- the zero EntryKind: "skip over this entry"
  | dir
  | file
  deriving DecidableEq, Repr

def kindOf : Node → Kind
  | .dir => .dir
  | _ => .file     -- "We consider the entry either a directory or a file"

/-- `realFS.kindOfPath(entryPath)` -/
def kindOfPath (t : Tree) (p : Path) : Option Path × Kind :=
  match osLstat t p with
  | none => (none, .none)
  | some (.link _ _) =>
    match goEval t p with
    | none => (none, .none)                    -- "Skip over this entry"
    | some l =>
      match osLstat t l with                   -- "Re-run lstat on the symlink target"
      | none => (none, .none)
      | some (.link _ _) => (none, .none)      -- "This should no longer be a symlink, so this is unexpected"
      | some n => (some l, kindOf n)
  | some n => (none, kindOf n)

/-- ASCII `strings.ToLower` -/
def lower (n : Name) : Name := n.map Char.toLower

/-- `DirEntries.Get(query)` on the map built by `ReadDirectory` (`entries.data[strings.ToLower(name)] = &Entry{base: name}`
in listing order: a later name with the same lower-case form replaces an earlier one).  Returns the STORED base name. -/
def get (names : List Name) (query : Name) : Option Name :=
  (names.filter (fun n => lower n = lower query)).getLast?

/-- `entry.Symlink(fs)` / `entry.Kind(fs)` of the entry `stored` of `ReadDirectory(dir)` = `fs.kind(dir, stored)` -/
def entrySymlink (t : Tree) (dir : Path) (stored : Name) : Option Path := (kindOfPath t (dir ++ [stored])).1
def entryKind (t : Tree) (dir : Path) (stored : Name) : Kind := (kindOfPath t (dir ++ [stored])).2

/-! ## resolver.go: dirInfo -/

structure DirInfo where
  absPath : Path
  absRealPath : Option Path      -- "" = none
  entries : List Name            -- r.fs.ReadDirectory(absPath)
  deriving DecidableEq, Repr

/-- the path the resolver takes for the directory's real location -/
def DirInfo.eff (i : DirInfo) : Path := i.absRealPath.getD i.absPath

/-- the real-path rule shared by dirInfoUncached and finalizeResolve: the entry's own `Symlink`, else the
real path of the containing directory joined with the base name, else nothing -/
def realOfEntry (t : Tree) (dir : Path) (dirReal : Option Path) (stored base : Name) : Option Path :=
  match entrySymlink t dir stored with
  | some s => some s
  | none =>
    match dirReal with
    | some rp => some (rp ++ [base])
    | none => none

/-- body of `dirInfoUncached(path)` after the parent has been looked up (`parent = none`: the root) -/
def dirInfoStep (t : Tree) (preserve : Bool) (path : Path) (parent : Option DirInfo) : Option DirInfo :=
  match osReaddir t path with
  | none => none
  | some names =>
    let real : Option Path :=
      match parent, splitLast path with
      | some pi, some (_, base) =>
        if preserve then none else
        match get pi.entries base with
        | none => none
        | some stored => realOfEntry t pi.absPath pi.absRealPath stored base
      | _, _ => none
    some { absPath := path, absRealPath := real, entries := names }

/-- `r.dirCache`: `some none` is the entry `nil` ("failure, do not retry") -/
abbrev Cache := List (Path × Option DirInfo)

def Cache.lookup (c : Cache) (p : Path) : Option (Option DirInfo) := (c.find? (fun kv => kv.1 = p)).map (·.2)
def Cache.set (c : Cache) (p : Path) (v : Option DirInfo) : Cache := (p, v) :: c

/-- the end of `dirInfoCached` after a miss: "Only update the cache again on success" -/
def cacheFinish (c2 : Cache) (path : Path) (res : Option DirInfo) : Cache × Option DirInfo :=
  match res with
  | none => (c2, none)
  | some i => (c2.set path (some i), some i)

/-- `dirInfoCached(path)` with `dirInfoUncached` inlined; the argument is the path REVERSED (base name first) so
that "parent first" is structural recursion -/
def dirInfoCachedRev (t : Tree) (preserve : Bool) : List Name → Cache → Cache × Option DirInfo
  | [], c =>
    match c.lookup [] with
    | some v => (c, v)                                     -- cache hit
    | none =>                                              -- r.dirCache["/"] = nil; parentDir == path
      cacheFinish (c.set [] none) [] (dirInfoStep t preserve [] none)
  | b :: parentRev, c =>
    match c.lookup (b :: parentRev).reverse with
    | some v => (c, v)                                     -- cache hit
    | none =>
      -- r.dirCache[path] = nil, then the parent (through the cache)
      let r := dirInfoCachedRev t preserve parentRev (c.set (b :: parentRev).reverse none)
      cacheFinish r.1 (b :: parentRev).reverse
        (match r.2 with
         | none => none                                    -- "Stop now if the parent directory doesn't exist"
         | some pi => dirInfoStep t preserve (b :: parentRev).reverse (some pi))

def dirInfoCached (t : Tree) (preserve : Bool) (c : Cache) (p : Path) : Cache × Option DirInfo :=
  dirInfoCachedRev t preserve p.reverse c

/-! ## resolver.go: finalizeResolve -/

/-- the path part of `finalizeResolve` for one "file" namespace path -/
def finalize (t : Tree) (preserve : Bool) (c : Cache) (p : Path) : Cache × Path :=
  match splitLast p with
  | none => ((dirInfoCached t preserve c []).1, p)       -- Dir("/") = "/", Base("/") = "/": no such entry
  | some (d, base) =>
    match dirInfoCached t preserve c d with
    | (c1, none) => (c1, p)
    | (c1, some di) =>
      if preserve then (c1, p) else
      match get di.entries base with
      | none => (c1, p)
      | some stored =>
        match realOfEntry t di.absPath di.absRealPath stored base with
        | none => (c1, p)
        | some s => ((dirInfoCached t preserve c1 s.dropLast).1, s)   -- "Look up the directory over again"

/-! ## Resolve for an import that names an existing entry exactly (end-to-end cross-check of the above)

`Resolve(sourceDir, importPath)`: `dirInfoCached(sourceDir)` must exist; a relative import is `fs.Join`ed (lexically
cleaned) and goes to `loadAsFile` (ReadDirectory(dir) + `Get(base)` + `Kind == FileEntry`); a package path goes to
`loadNodeModules` (every enclosing directory with `hasNodeModules`, nearest first); the result goes through
`finalizeResolve`.  The trees of the kernel contain no package.json / tsconfig.json / index.* / other extensions, so
nothing else of the resolver can fire.  By theorem `cache_order_irrelevant` the answer does not depend on the
dirCache, so these functions start from the empty cache. -/

/-- `fs.Join(dir, rel)` = lexical `Clean` of the concatenation -/
def lexJoin : Path → List Name → Path
  | d, [] => d
  | d, c :: rest =>
    if c = dotN then lexJoin d rest
    else if c = dotdotN then lexJoin d.dropLast rest
    else lexJoin (d ++ [c]) rest

/-- `loadAsFile(path)`, first `tryFile(base)` only -/
def loadAsFileExact (t : Tree) (p : Path) : Option Path :=
  match splitLast p with
  | none => none
  | some (d, b) =>
    match osReaddir t d with
    | none => none
    | some names =>
      match get names b with
      | none => none
      | some stored => if entryKind t d stored = .file then some p else none

def resolveRel (t : Tree) (preserve : Bool) (src : Path) (imp : List Name) : Option Path :=
  match (dirInfoCached t preserve [] src).2 with
  | none => none
  | some _ =>
    match loadAsFileExact t (lexJoin src imp) with
    | none => none
    | some p => some (finalize t preserve [] p).2

def nodeModulesN : Name := "node_modules".toList

/-- `info.hasNodeModules` of `dirInfoUncached` -/
def hasNodeModules (t : Tree) (i : DirInfo) : Bool :=
  match splitLast i.absPath with
  | some (_, b) =>
    if b = nodeModulesN then false else
    match get i.entries nodeModulesN with
    | some stored => entryKind t i.absPath stored = .dir
    | none => false
  | none =>
    match get i.entries nodeModulesN with
    | some stored => entryKind t i.absPath stored = .dir
    | none => false

/-- one round of the loop of `loadNodeModules`: `tryToResolvePackage(Join(dirInfo.absPath, "node_modules"))` -/
def bareHere (t : Tree) (preserve : Bool) (pkg : List Name) (d : Path) : Option Path :=
  match (dirInfoCached t preserve [] d).2 with
  | none => none
  | some i =>
    if hasNodeModules t i then loadAsFileExact t (lexJoin (i.absPath ++ [nodeModulesN]) pkg) else none

/-- the loop of `loadNodeModules` over `dirInfo`, `dirInfo.parent`, …; the argument is the directory REVERSED -/
def bareLoop (t : Tree) (preserve : Bool) (pkg : List Name) : List Name → Option Path
  | [] => bareHere t preserve pkg []
  | b :: parent =>
    match bareHere t preserve pkg (b :: parent).reverse with
    | some p => some p
    | none => bareLoop t preserve pkg parent

def resolveBare (t : Tree) (preserve : Bool) (src : Path) (pkg : List Name) : Option Path :=
  match (dirInfoCached t preserve [] src).2 with
  | none => none
  | some _ =>
    match bareLoop t preserve pkg src.reverse with
    | none => none
    | some p => some (finalize t preserve [] p).2

/-! ## line protocol -/

def splitSlash (s : List Char) : List Name := (s.splitOn '/')

/-- a pathname text → (absolute?, components); empty components vanish, a trailing slash is a final "." -/
def parsePathText (s : List Char) : Bool × List Name :=
  let comps := (splitSlash s).filter (· ≠ [])
  let trailing := s.getLast? = some '/' && !comps.isEmpty
  (s.head? = some '/', if trailing then comps ++ [dotN] else comps)

/-- a clean absolute path ("/a/b", "/") -/
def parseAbsClean (s : String) : Option Path :=
  let cs := s.toList
  if cs.head? ≠ some '/' then none else
  let comps := (splitSlash cs).filter (· ≠ [])
  if comps.any (fun c => c = dotN || c = dotdotN) then none else some comps

def parseEntry (s : String) : Option Entry :=
  match s.splitOn "|" with
  | [d, n, k] =>
    match parseAbsClean d, k.toList with
    | some dir, ['f'] => some ⟨dir, n.toList, .file⟩
    | some dir, ['d'] => some ⟨dir, n.toList, .dir⟩
    | some dir, 'l' :: tgt =>
      let (a, comps) := parsePathText tgt
      some ⟨dir, n.toList, .link a comps⟩
    | _, _ => none
  | _ => none

def parseTree (s : String) : Option Tree :=
  if s = "-" then some ⟨[]⟩ else
  match (s.splitOn ";").mapM parseEntry with
  | some es => some ⟨es⟩
  | none => none

def showPath (p : Path) : String :=
  if p.isEmpty then "/" else String.join (p.map (fun c => "/" ++ String.ofList c))

def showOptPath : Option Path → String
  | none => "-"
  | some p => showPath p

def showKind : Kind → String
  | .none => "0"
  | .dir => "dir"
  | .file => "file"

/-- one query of a session on one resolver: `d:<dir>` dirInfoCached, `f:<path>` finalizeResolve,
`r:<srcdir>:<relative import>` and `b:<srcdir>:<package path>` Resolve -/
def runQuery (t : Tree) (preserve : Bool) (c : Cache) (q : String) : Option (Cache × String) :=
  match q.splitOn ":" with
  | ["d", p] =>
    match parseAbsClean p with
    | some path =>
      match dirInfoCached t preserve c path with
      | (c', none) => some (c', "nil")
      | (c', some i) => some (c', "ok " ++ showOptPath i.absRealPath)
    | none => none
  | ["f", p] =>
    match parseAbsClean p with
    | some path => let (c', r) := finalize t preserve c path; some (c', showPath r)
    | none => none
  | ["r", s, imp] =>
    match parseAbsClean s with
    | some src => some (c, showOptPath (resolveRel t preserve src (parsePathText imp.toList).2))
    | none => none
  | ["b", s, imp] =>
    match parseAbsClean s with
    | some src => some (c, showOptPath (resolveBare t preserve src (parsePathText imp.toList).2))
    | none => none
  | _ => none

def runSession (t : Tree) (preserve : Bool) : Cache → List String → Option (List String)
  | _, [] => some []
  | c, q :: qs =>
    match runQuery t preserve c q with
    | none => none
    | some (c', out) =>
      match runSession t preserve c' qs with
      | none => none
      | some outs => some (out :: outs)

def driver (args : List String) : String :=
  match args with
  | ["eval", tree, path] =>
    match parseTree tree, parseAbsClean path with
    | some t, some p => showOptPath (goEval t p)
    | _, _ => "bad-op"
  | ["evalraw", tree, path] =>          -- a pathname with "." / ".." / "//" / trailing slash
    match parseTree tree with
    | some t =>
      let (a, comps) := parsePathText path.toList
      if a then showOptPath (goEval t comps) else "bad-op"
    | none => "bad-op"
  | ["kind", tree, dir, base] =>
    match parseTree tree, parseAbsClean dir with
    | some t, some d =>
      match osReaddir t d with
      | none => "nodir"
      | some names =>
        match get names base.toList with
        | none => "noentry"
        | some stored =>
          let (s, k) := kindOfPath t (d ++ [stored])
          String.ofList stored ++ " " ++ showOptPath s ++ " " ++ showKind k
    | _, _ => "bad-op"
  | ["session", tree, pres, queries] =>
    match parseTree tree with
    | some t =>
      if pres ≠ "0" ∧ pres ≠ "1" then "bad-op" else
      match runSession t (pres = "1") [] (queries.splitOn ",") with
      | some outs => ",".intercalate outs
      | none => "bad-op"
    | none => "bad-op"
  | _ => "bad-op"

end EsbuildModel.RealPath
