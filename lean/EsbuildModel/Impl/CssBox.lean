import EsbuildModel.Util.Wire
import EsbuildModel.Spec.BoxCascade
/-
Model of the box-shorthand collapsing done by `--minify-syntax` on ONE declaration list:

* internal/css_parser/css_decls_box.go: `unitSafetyTracker.isSafeWith`, `.includeUnitOf`, `boxTracker.updateSide`,
  `.mangleSides`, `.mangleSide`, `.compactRules`;
* internal/css_parser/css_decls.go: `expandTokenQuad`, `compactTokenQuad`, `lowerInset` and the part of
  `processDeclarations` that feeds the three trackers `margin`, `padding`, `inset` (every other `case` of the switch
  is outside the model: the kernel only generates property names that no other case touches) plus the final
  "Compact removed rules" loop;
* internal/css_ast/css_ast.go: `Token.TurnLengthIntoNumberIfZero`, `DimensionValue`, `DimensionUnit`,
  `DimensionUnitIsSafeLength`, `EqualIgnoringWhitespace`, `Token.Equal`, `RDeclaration.Equal`;
* internal/css_parser/css_parser.go: the duplicate removal of `RemoveDeadRulesInPlace` (called from `mangleRules`
  on every declaration list) restricted to declarations: scanning from the back, a rule that `Equal`s an already
  kept one is dropped.

Conventions.  A Go string is the list of its UTF-8 bytes.  `css_ast.Token` keeps `Kind` (only the kinds the code
looks at are distinguished; every other token, including functions with their children, is `Kind.other` with an
opaque `text` that encodes everything `Token.Equal` compares), `Text`, `UnitOffset`, `Whitespace` (1 = before,
2 = after).  `css_ast.Rule{}` (a removed rule) is `none`.  `decl.Key` is not stored: it is
`css_ast.KnownDeclarations[strings.ToLower(keyText)]`, which is `keyOfText` here (the table is restricted to the
three families; flow-relative names are recognised only so that the specification can talk about them, the tracker
treats them like any other property).  Writing `rules[i]` with `i` out of range panics in Go: `RS.setAt` then sets
the `panic` flag, the driver prints PANIC.  `t.Text[:t.UnitOffset]` is `take` (the lexer guarantees
`UnitOffset ≤ len(Text)` for dimensions; the driver rejects operations that violate it).  `strings.ToLower` is ASCII
lower-casing plus the only two non-ASCII letters whose lower case is ASCII (U+0130 → i, U+212A → k);
`strings.EqualFold(·, "auto")` is ASCII case-insensitive comparison (no non-ASCII letter folds to a, u, t, o).
Numeric and identifier tokens have no children and `PayloadIndex = 0`, which is why `EqualIgnoringWhitespace`
compares kind and text only.  `p.options.minifySyntax` is true throughout.
-/
namespace EsbuildModel.CssBox
open EsbuildModel.Spec.BoxCascade (Side Flow BoxProp)

/-- ASCII string constant as bytes -/
def b (s : String) : List Nat := s.toList.map Char.toNat

def lowerAscii (l : List Nat) : List Nat := l.map fun c => if 65 ≤ c ∧ c ≤ 90 then c + 32 else c

/-- `strings.ToLower` -/
def toLower : List Nat → List Nat
  | 0xC4 :: 0xB0 :: r => 0x69 :: toLower r
  | 0xE2 :: 0x84 :: 0xAA :: r => 0x6B :: toLower r
  | c :: r => (if 65 ≤ c ∧ c ≤ 90 then c + 32 else c) :: toLower r
  | [] => []

inductive Kind | eof | number | percentage | dimension | ident | other
  deriving DecidableEq, Repr

/-- `css_lexer.T.IsNumeric` -/
def Kind.isNumeric : Kind → Bool
  | .number | .percentage | .dimension => true
  | _ => false

structure Token where
  kind : Kind := .eof
  text : List Nat := []
  unitOffset : Nat := 0
  ws : Nat := 0
  deriving DecidableEq, Repr

def Token.dimValue (t : Token) : List Nat := t.text.take t.unitOffset
def Token.dimUnit (t : Token) : List Nat := t.text.drop t.unitOffset

def safeUnits : List (List Nat) := [b "cm", b "em", b "in", b "mm", b "pc", b "pt", b "px"]

/-- `DimensionUnitIsSafeLength` -/
def Token.unitIsSafeLength (t : Token) : Bool := safeUnits.contains (toLower t.dimUnit)

/-- `TurnLengthIntoNumberIfZero` (the stale `UnitOffset` is kept, as in Go) -/
def Token.turn (t : Token) : Token × Bool :=
  if t.kind = .dimension ∧ t.dimValue = b "0" then ({ t with kind := .number, text := b "0" }, true) else (t, false)

/-- `EqualIgnoringWhitespace` -/
def Token.eqIW (a c : Token) : Bool := a.kind == c.kind && a.text == c.text

/-- `Token.Equal` (same file: `check == nil`) -/
def Token.equal (a c : Token) : Bool := a.kind == c.kind && a.text == c.text && a.ws == c.ws

inductive Family | margin | padding | inset
  deriving DecidableEq, Repr

inductive Key
  | box (f : Family) (p : BoxProp)
  | other
  deriving DecidableEq, Repr

def famNames (f : Family) (pre : String) (sides : Bool) : List (List Nat × Key) :=
  let s := fun (n : String) => if sides then b n else b (pre ++ "-" ++ n)
  [ (b pre, .box f .shorthand),
    (s "top", .box f (.side .top)), (s "right", .box f (.side .right)),
    (s "bottom", .box f (.side .bottom)), (s "left", .box f (.side .left)),
    (b (pre ++ "-block-start"), .box f (.flow .blockStart)), (b (pre ++ "-block-end"), .box f (.flow .blockEnd)),
    (b (pre ++ "-inline-start"), .box f (.flow .inlineStart)), (b (pre ++ "-inline-end"), .box f (.flow .inlineEnd)),
    (b (pre ++ "-block"), .box f .block), (b (pre ++ "-inline"), .box f .inline) ]

def keyTable : List (List Nat × Key) :=
  famNames .margin "margin" false ++ famNames .padding "padding" false ++ famNames .inset "inset" true

/-- `css_ast.KnownDeclarations[strings.ToLower(keyText)]` restricted to the three families -/
def keyOfText (t : List Nat) : Key := (keyTable.lookup (toLower t)).getD .other

structure Decl where
  keyText : List Nat
  value : List Token
  important : Bool
  deriving DecidableEq, Repr

def Decl.key (d : Decl) : Key := keyOfText d.keyText

def tokensEqual : List Token → List Token → Bool
  | [], [] => true
  | a :: as, c :: cs => a.equal c && tokensEqual as cs
  | _, _ => false

/-- `RDeclaration.Equal` -/
def Decl.equal (a c : Decl) : Bool := a.keyText == c.keyText && tokensEqual a.value c.value && a.important == c.important

inductive Status | safe | unsafeSingle | unsafeMixed
  deriving DecidableEq, Repr

/-- `unitSafetyTracker` -/
structure Safety where
  unit : List Nat := []
  status : Status := .safe
  deriving DecidableEq, Repr

def Safety.isSafeWith (a c : Safety) : Bool :=
  a.status == c.status && a.status != .unsafeMixed && (a.status != .unsafeSingle || a.unit == c.unit)

def Safety.includeUnitOf (s : Safety) (t : Token) : Safety :=
  match t.kind with
  | .number => if t.text = b "0" then s else { s with status := .unsafeMixed }
  | .percentage => s
  | .dimension =>
    if t.unitIsSafeLength then s
    else if s.status = .safe then { unit := t.dimUnit, status := .unsafeSingle }
    else if s.status = .unsafeSingle ∧ s.unit = t.dimUnit then s
    else { s with status := .unsafeMixed }
  | _ => { s with status := .unsafeMixed }

structure BoxSide where
  token : Token := {}
  unitSafety : Safety := {}
  ruleIndex : Nat := 0
  wasSingleRule : Bool := false
  deriving DecidableEq, Repr

structure Sides where
  top : BoxSide := {}
  right : BoxSide := {}
  bottom : BoxSide := {}
  left : BoxSide := {}
  deriving DecidableEq, Repr

def Sides.get (s : Sides) : Side → BoxSide
  | .top => s.top
  | .right => s.right
  | .bottom => s.bottom
  | .left => s.left

def Sides.put (s : Sides) (i : Side) (v : BoxSide) : Sides :=
  match i with
  | .top => { s with top := v }
  | .right => { s with right := v }
  | .bottom => { s with bottom := v }
  | .left => { s with left := v }

/-- `boxTracker`; `keyKnown` is `key != css_ast.DUnknown` -/
structure Tracker where
  keyText : List Nat
  sides : Sides := {}
  allowAuto : Bool
  important : Bool := false
  keyKnown : Bool := true
  deriving DecidableEq, Repr

/-- the slice `rewrittenRules` plus "an index was out of range" -/
structure RS where
  rules : List (Option Decl) := []
  panic : Bool := false
  deriving DecidableEq, Repr

def RS.setAt (r : RS) (i : Nat) (v : Option Decl) : RS :=
  if i < r.rules.length then { r with rules := r.rules.set i v } else { r with panic := true }

def updateSide (box : Tracker) (rs : RS) (side : Side) (new : BoxSide) : Tracker × RS :=
  let old := box.sides.get side
  let rs :=
    if old.token.kind != .eof && (!new.wasSingleRule || old.wasSingleRule) &&
        old.unitSafety.status == .safe && new.unitSafety.status == .safe then rs.setAt old.ruleIndex none
    else rs
  ({ box with sides := box.sides.put side new }, rs)

def wsOf (mw : Bool) (i n : Nat) : Nat := (if !mw || i > 0 then 1 else 0) + (if i + 1 < n then 2 else 0)

def setWs (mw : Bool) (n : Nat) : Nat → List Token → List Token
  | _, [] => []
  | i, t :: r => { t with ws := wsOf mw i n } :: setWs mw n (i + 1) r

def compactTokenQuad (a c d e : Token) (mw : Bool) : List Token :=
  let tokens :=
    if e.eqIW c then
      if d.eqIW a then
        if c.eqIW a then [a] else [a, c]
      else [a, c, d]
    else [a, c, d, e]
  setWs mw tokens.length 0 tokens

def expandTokenQuad (tokens : List Token) (allowedIdent : List Nat) : Option (Token × Token × Token × Token) :=
  if tokens.all fun t => t.kind.isNumeric || (t.kind == .ident && allowedIdent != [] && t.text == allowedIdent) then
    match tokens with
    | [a] => some (a, a, a, a)
    | [a, c] => some (a, c, a, c)
    | [a, c, d] => some (a, c, d, c)
    | [a, c, d, e] => some (a, c, d, e)
    | _ => none
  else none

/-- `compactRules`; the tracker is updated too: after a merge every side points at the merged declaration -/
def compactRules (box : Tracker) (rs : RS) (mw : Bool) : Tracker × RS :=
  if !box.keyKnown then (box, rs) else
  let s := box.sides
  if s.top.token.kind == .eof || s.right.token.kind == .eof || s.bottom.token.kind == .eof || s.left.token.kind == .eof then (box, rs) else
  if !(s.right.unitSafety.isSafeWith s.top.unitSafety) then (box, rs) else
  if !(s.bottom.unitSafety.isSafeWith s.top.unitSafety) then (box, rs) else
  if !(s.left.unitSafety.isSafeWith s.top.unitSafety) then (box, rs) else
  let tokens := compactTokenQuad s.top.token s.right.token s.bottom.token s.left.token mw
  let rs := rs.setAt s.top.ruleIndex none
  let rs := rs.setAt s.right.ruleIndex none
  let rs := rs.setAt s.bottom.ruleIndex none
  let rs := rs.setAt s.left.ruleIndex none
  -- "Insert the combined declaration where the last rule was"
  let last := s.top.ruleIndex
  let last := if s.right.ruleIndex > last then s.right.ruleIndex else last
  let last := if s.bottom.ruleIndex > last then s.bottom.ruleIndex else last
  let last := if s.left.ruleIndex > last then s.left.ruleIndex else last
  let rs := rs.setAt last (some { keyText := box.keyText, value := tokens, important := box.important })
  -- "All sides now come from the combined declaration"
  let f := fun (x : BoxSide) => { x with ruleIndex := last, wasSingleRule := false }
  ({ box with sides := { top := f s.top, right := f s.right, bottom := f s.bottom, left := f s.left } }, rs)

/-- "Reset if we see a change in the `!important` flag" -/
def syncImportant (box : Tracker) (decl : Decl) : Tracker :=
  if box.important != decl.important then { box with sides := {}, important := decl.important } else box

def mangleSides (box : Tracker) (rs : RS) (decl : Decl) (mw : Bool) : Tracker × RS :=
  let box := syncImportant box decl
  match expandTokenQuad decl.value (if box.allowAuto then b "auto" else []) with
  | some (t0, t1, t2, t3) =>
    let inc := fun (u : Safety) (t : Token) => if !box.allowAuto || t.kind.isNumeric then u.includeUnitOf t else u
    let unitSafety := inc (inc (inc (inc {} t0) t1) t2) t3
    let mk := fun (t : Token) => ({ token := if unitSafety.status == .safe then t.turn.1 else t,
                                    ruleIndex := rs.rules.length - 1, unitSafety := unitSafety } : BoxSide)
    let (box, rs) := updateSide box rs .top (mk t0)
    let (box, rs) := updateSide box rs .right (mk t1)
    let (box, rs) := updateSide box rs .bottom (mk t2)
    let (box, rs) := updateSide box rs .left (mk t3)
    compactRules box rs mw
  | none => ({ box with sides := {} }, rs)

def mangleSide (box : Tracker) (rs : RS) (decl : Decl) (mw : Bool) (side : Side) : Tracker × RS :=
  let box := syncImportant box decl
  match decl.value with
  | [t] =>
    if t.kind.isNumeric || (t.kind == .ident && box.allowAuto && lowerAscii t.text == b "auto") then
      let unitSafety := if !box.allowAuto || t.kind.isNumeric then ({} : Safety).includeUnitOf t else {}
      let (t', turned) := if unitSafety.status == .safe then t.turn else (t, false)
      -- `tokens[0] = t` writes through the shared `*RDeclaration`, which is `rules[len(rules)-1]`
      let rs := if turned then rs.setAt (rs.rules.length - 1) (some { decl with value := [t'] }) else rs
      let (box, rs) := updateSide box rs side
        { token := t', ruleIndex := rs.rules.length - 1, wasSingleRule := true, unitSafety := unitSafety }
      compactRules box rs mw
    else ({ box with sides := {} }, rs)
  | _ => ({ box with sides := {} }, rs)

structure Opts where
  minifyWhitespace : Bool := false
  insetUnsupported : Bool := false   -- `p.options.unsupportedCSSFeatures.Has(compat.InsetProperty)`
  deriving DecidableEq, Repr

structure St where
  rs : RS := {}
  margin : Tracker
  padding : Tracker
  inset : Tracker
  deriving DecidableEq, Repr

def St.get (st : St) : Family → Tracker
  | .margin => st.margin
  | .padding => st.padding
  | .inset => st.inset

def St.put (st : St) (f : Family) (t : Tracker) (rs : RS) : St :=
  match f with
  | .margin => { st with margin := t, rs := rs }
  | .padding => { st with padding := t, rs := rs }
  | .inset => { st with inset := t, rs := rs }

def initSt (o : Opts) : St :=
  { margin := { keyText := b "margin", allowAuto := true },
    padding := { keyText := b "padding", allowAuto := false },
    inset := { keyText := if o.insetUnsupported then [] else b "inset", allowAuto := true,
               keyKnown := !o.insetUnsupported } }

/-- `lowerInset`: `tokens[i].Whitespace &= mask` with `mask = ^WhitespaceAfter`, or 0 when minifying whitespace -/
def lowerInset (o : Opts) (decl : Decl) : Option (List (Side × Decl)) :=
  match expandTokenQuad decl.value [] with
  | some (t0, t1, t2, t3) =>
    let m := fun (t : Token) => { t with ws := if o.minifyWhitespace then 0 else t.ws % 2 }
    some [ (.top, { keyText := b "top", value := [m t0], important := decl.important }),
           (.right, { keyText := b "right", value := [m t1], important := decl.important }),
           (.bottom, { keyText := b "bottom", value := [m t2], important := decl.important }),
           (.left, { keyText := b "left", value := [m t3], important := decl.important }) ]
  | none => none

def pushRule (st : St) (d : Decl) : St := { st with rs := { st.rs with rules := st.rs.rules ++ [some d] } }

def stepSide (o : Opts) (st : St) (f : Family) (decl : Decl) (s : Side) : St :=
  let r := mangleSide (st.get f) st.rs decl o.minifyWhitespace s
  st.put f r.1 r.2

def stepSides (o : Opts) (st : St) (f : Family) (decl : Decl) : St :=
  let r := mangleSides (st.get f) st.rs decl o.minifyWhitespace
  st.put f r.1 r.2

/-- one iteration of the loop of `processDeclarations` -/
def step (o : Opts) (st : St) (decl : Decl) : St :=
  let st := pushRule st decl
  match decl.key with
  | .box f .shorthand =>
    if f = .inset ∧ o.insetUnsupported = true then
      match lowerInset o decl with
      | some decls =>
        -- `rewrittenRules = rewrittenRules[:len(rewrittenRules)-1]`, then append + mangleSide for each
        let st := { st with rs := { st.rs with rules := st.rs.rules.dropLast } }
        decls.foldl (fun st sd => stepSide o (pushRule st sd.2) .inset sd.2 sd.1) st
      | none => stepSides o st f decl
    else stepSides o st f decl
  | .box f (.side s) => stepSide o st f decl s
  | _ => st

/-- `processDeclarations` up to and including "Compact removed rules"; `none` = Go panicked -/
def processDeclarations (o : Opts) (rules : List Decl) : Option (List Decl) :=
  let st := rules.foldl (step o) (initSt o)
  if st.rs.panic then none else some (st.rs.rules.filterMap id)

/-- `RemoveDeadRulesInPlace` on declarations: back to front, drop what equals an already kept rule -/
def removeDead (rules : List Decl) : List Decl :=
  rules.foldr (fun d out => if out.any (fun e => d.equal e) then out else d :: out) []

/-- what `parseListOfDeclarations` does to the parsed declarations under `--minify-syntax` -/
def minifyDecls (o : Opts) (rules : List Decl) : Option (List Decl) :=
  (processDeclarations o rules).map removeDead

/-! ### line protocol
`cssbox <flags> <decls>` → `<decls>` or `PANIC`; flags: letters `w` (minify whitespace), `i` (inset unsupported), or `-`;
`decls` = `decl;decl;…` or `-`; `decl` = `keyTextHex:imp:tok,tok,…` (`-` for no token);
`tok` = kind letter (`n` number, `p` percentage, `d` dimension, `i` ident, `x` other) + whitespace digit + `.` +
unit offset + `.` + text hex. -/
open Wire in
def parseToken (s : String) : Option Token :=
  match s.splitOn "." with
  | [kw, uo, tx] =>
    match kw.toList, parseNat uo, parseHexUnits 2 tx with
    | [k, w], some uo, some tx =>
      let kind : Option Kind := match k with
        | 'n' => some .number | 'p' => some .percentage | 'd' => some .dimension | 'i' => some .ident | 'x' => some .other
        | _ => none
      match kind with
      | some kind =>
        if w.toNat < 48 ∨ w.toNat > 51 ∨ (kind = .dimension ∧ uo > tx.length) then none
        else some { kind := kind, text := tx, unitOffset := uo, ws := w.toNat - 48 }
      | none => none
    | _, _, _ => none
  | _ => none

open Wire in
def parseDecl (s : String) : Option Decl :=
  match s.splitOn ":" with
  | [kt, imp, toks] =>
    match parseHexUnits 2 kt, (if imp = "0" then some false else if imp = "1" then some true else none),
          (if toks = "-" then some [] else (toks.splitOn ",").mapM parseToken) with
    | some kt, some imp, some toks => some { keyText := kt, value := toks, important := imp }
    | _, _, _ => none
  | _ => none

def parseDecls (s : String) : Option (List Decl) :=
  if s = "-" then some [] else (s.splitOn ";").mapM parseDecl

def parseFlags (s : String) : Option Opts :=
  if s = "-" then some {} else
  if s.toList.all (fun c => c = 'w' ∨ c = 'i') then
    some { minifyWhitespace := s.toList.contains 'w', insetUnsupported := s.toList.contains 'i' }
  else none

open Wire in
def showToken (t : Token) : String :=
  let k := match t.kind with
    | .number => "n" | .percentage => "p" | .dimension => "d" | .ident => "i" | .other => "x" | .eof => "e"
  s!"{k}{t.ws}.{t.unitOffset}.{hexUnits 2 t.text}"

open Wire in
def showDecl (d : Decl) : String :=
  let toks := if d.value.isEmpty then "-" else ",".intercalate (d.value.map showToken)
  s!"{hexUnits 2 d.keyText}:{if d.important then "1" else "0"}:{toks}"

def showDecls (l : List Decl) : String := if l.isEmpty then "-" else ";".intercalate (l.map showDecl)

def driver (args : List String) : String :=
  match args with
  | [flags, decls] =>
    match parseFlags flags, parseDecls decls with
    | some o, some ds =>
      match minifyDecls o ds with
      | some out => showDecls out
      | none => "PANIC"
    | _, _ => "bad-op"
  | _ => "bad-op"

end EsbuildModel.CssBox
