/-
Model of esbuild's polling file watcher, `pkg/api/watcher.go` (whole file), transcribed line by line:

  `watcher.setWatchData`      → `setWatchData`
  `watcher.tryToFindDirtyPath`→ `poll` (= `refill` then `pollCore`)
  `watcher.start` (the loop)  → `runLoop` / `iteration`
  `watcher.stop`/`shouldStop` → the `stop` field of `Iter` (the value `atomic.LoadInt32(&w.shouldStop) != 0` at the loop head)
  the constants               → `watchIntervalSleepMs`, `maxRecentItemCount`, `minItemCountPerIter`, `maxIntervalsBeforeUpdate`

What is abstract:
  * a path is any type `α` with decidable equality (Go: `string`; the driver uses `String`);
  * `w.data.Paths` (a Go map path → predicate) is its KEY SET `keys` plus an ORACLE `ask c p`: the answer of the predicate of
    path `p` when it is the `c`-th predicate call (0-based) of this poll.  ("" = not dirty.)  A world that does not change
    during one poll is `fun _ p => world p`; the index lets the file system change between two calls of one poll.
  * the order in which the map is ranged over and the Fisher-Yates shuffle with `math/rand` seeded by the clock are ONE
    nondeterministic choice: the list `order` that `itemsToScan` holds after the refill.  Every `order` that is a permutation
    of `keys` is possible (`ValidOrder`); the theorems quantify over all of them; the correspondence kernel feeds the model
    the order the real code produced and checks that it is a permutation (trace inclusion).
  * mutexes (every method runs under `w.mutex`: methods are atomic steps), log messages (`shouldLog`), and real time are
    not modelled; sleeping is recorded as an event `Ev.sleep ms`.
Assumed: fewer than 2^31 paths (the shuffle indexes with `int32`; with 2^31 paths `rand.Int31n(i + 1)` would panic).
A Go panic (calling a nil func: `w.data.Paths[path]` for a path that is not in the map) is the result `none`.
-/
namespace EsbuildModel.WatchLoop

/-- `const watchIntervalSleep = 100 * time.Millisecond` -/
def watchIntervalSleepMs : Nat := 100
/-- `const maxRecentItemCount = 16` -/
def maxRecentItemCount : Nat := 16
/-- `const minItemCountPerIter = 64` -/
def minItemCountPerIter : Nat := 64
/-- `const maxIntervalsBeforeUpdate = 20` -/
def maxIntervalsBeforeUpdate : Nat := 20

/-- the fields of `watcher` the polling reads and writes -/
structure W (α : Type) where
  keys : List α                 -- key set of `w.data.Paths` (a Go map: each key once, no order)
  itemsToScan : List α
  recentItems : List α
  perIter : Nat                 -- `itemsPerIteration`
  deriving Repr, DecidableEq

/-- `&watcher{…}` as `internalContext.Watch` builds it: no data, empty lists -/
def W.init {α : Type} : W α := { keys := [], itemsToScan := [], recentItems := [], perIter := 0 }

/-- the predicate oracle of one poll -/
abbrev Ask (α : Type) := Nat → α → String

variable {α : Type} [DecidableEq α]

/-- `setWatchData(data)`: `w.data = data; w.itemsToScan = w.itemsToScan[:0]`, and the recent items that are not a key of
the new data are removed in place (order kept) -/
def setWatchData (w : W α) (newKeys : List α) : W α :=
  { keys := newKeys
    itemsToScan := []
    recentItems := w.recentItems.filter (fun p => p ∈ newKeys)
    perIter := w.perIter }

/-- "Determine how many items to check every iteration, rounded up" -/
def perIterOf (n : Nat) : Nat :=
  let perIter := (n + maxIntervalsBeforeUpdate - 1) / maxIntervalsBeforeUpdate
  if perIter < minItemCountPerIter then minItemCountPerIter else perIter

/-- "If we ran out of items to scan, fill the items back up in a random order": `order` is what the range over the map
followed by the shuffle produced -/
def refill (w : W α) (order : List α) : W α :=
  if w.itemsToScan.length = 0 then
    { w with itemsToScan := order, perIter := perIterOf order.length }
  else w

/-- the choice the real code can make at a refill -/
def ValidOrder (w : W α) (order : List α) : Prop := order.Perm w.keys

instance (w : W α) (order : List α) : Decidable (ValidOrder w order) := by unfold ValidOrder; infer_instance

/-- result of one `for _, path := range l { if dirtyPath := w.data.Paths[path](); dirtyPath != "" {…return} }` -/
inductive Scan (α : Type) where
  | panic (i : Nat)                             -- `l[i]` is not a key of the map: nil func call
  | clean                                       -- every predicate answered ""
  | hit (i : Nat) (path : α) (dirty : String)   -- `l[i] = path` is the first whose predicate answered `dirty ≠ ""`
  deriving Repr, DecidableEq

/-- scan `l`; the predicate of the first element is call number `c` of this poll -/
def scan (keys : List α) (ask : Ask α) : Nat → List α → Scan α
  | _, [] => .clean
  | c, p :: rest =>
    if p ∈ keys then
      if ask c p ≠ "" then .hit 0 p (ask c p)
      else match scan keys ask (c + 1) rest with
        | .hit i q d => .hit (i + 1) q d
        | .panic i => .panic (i + 1)
        | .clean => .clean
    else .panic 0

/-- "Mark this item as recent by adding it to the back of the list"; "Remove items from the front of the list when we hit
the limit": `copy(w.recentItems, w.recentItems[1:]); w.recentItems = w.recentItems[:maxRecentItemCount]` -/
def pushRecent (recent : List α) (p : α) : List α :=
  let r := recent ++ [p]
  if r.length > maxRecentItemCount then (r.drop 1).take maxRecentItemCount else r

/-- what one call of `tryToFindDirtyPath` does and returns -/
structure Out (α : Type) where
  w : W α
  ret : String            -- the return value ("" = nothing dirty found)
  hit : Option α          -- ghost: the key whose predicate answered `ret`
  calls : List α          -- ghost: the predicates that were called, in call order
  deriving Repr, DecidableEq

/-- `tryToFindDirtyPath` after the refill -/
def pollCore (w : W α) (ask : Ask α) : Option (Out α) :=
  -- "Always check all recent items every iteration"
  match scan w.keys ask 0 w.recentItems with
  | .panic _ => none
  | .hit i p d =>
    -- "Move this path to the back of the list": copy(recent[i:], recent[i+1:]); recent[len-1] = path
    some { w := { w with recentItems := w.recentItems.eraseIdx i ++ [p] }, ret := d, hit := some p
           calls := w.recentItems.take (i + 1) }
  | .clean =>
    -- "Check a constant number of items every iteration" (`Nat` subtraction = the clamp at 0)
    let remainingCount := w.itemsToScan.length - w.perIter
    let toCheck := w.itemsToScan.drop remainingCount
    let w2 : W α := { w with itemsToScan := w.itemsToScan.take remainingCount }
    match scan w.keys ask w.recentItems.length toCheck with
    | .panic _ => none
    | .hit i p d =>
      some { w := { w2 with recentItems := pushRecent w.recentItems p }, ret := d, hit := some p
             calls := w.recentItems ++ toCheck.take (i + 1) }
    | .clean => some { w := w2, ret := "", hit := none, calls := w.recentItems ++ toCheck }

/-- `tryToFindDirtyPath()` -/
def poll (w : W α) (order : List α) (ask : Ask α) : Option (Out α) := pollCore (refill w order) ask

/-! ## the goroutine of `watcher.start` -/

/-- what the loop does besides calling the two methods above -/
inductive Ev where
  | sleep (ms : Nat)             -- `time.Sleep`
  | rebuild (change : String)    -- `w.rebuild()` was called because `tryToFindDirtyPath` returned `change`
  deriving Repr, DecidableEq

/-- everything one loop iteration reads from outside the watcher -/
structure Iter (α : Type) where
  stop : Bool               -- `atomic.LoadInt32(&w.shouldStop) != 0` at the loop head (`stop()` stores 1, nothing stores 0)
  order : List α            -- the refill order, if this poll refills
  ask : Ask α               -- the predicate answers during this poll
  newKeys : List α          -- key set of the watch data `w.rebuild()` returns, if this iteration rebuilds
  rebuildSets : Bool        -- the `rebuild` callback calls `w.setWatchData` itself before it returns, as
                            -- `internalContext.rebuild` (api_impl.go) does; the loop then calls it a second time

/-- `w.setWatchData(w.rebuild())` -/
def afterRebuild (w : W α) (newKeys : List α) (rebuildSets : Bool) : W α :=
  setWatchData (if rebuildSets then setWatchData w newKeys else w) newKeys

/-- the loop body after the `shouldStop` test: sleep, poll, and if dirty: optional delay, rebuild, new watch data.
`delayMs` is `w.delayInMS` (`WatchOptions.Delay`, the `--watch-delay=` flag). -/
def iteration (delayMs : Int) (w : W α) (it : Iter α) : Option (W α × List Ev × Out α) :=
  match poll w it.order it.ask with
  | none => none
  | some o =>
    if o.ret ≠ "" then
      let evs := [Ev.sleep watchIntervalSleepMs] ++ (if delayMs > 0 then [Ev.sleep delayMs.toNat] else []) ++ [Ev.rebuild o.ret]
      some (afterRebuild o.w it.newKeys it.rebuildSets, evs, o)
    else some (o.w, [Ev.sleep watchIntervalSleepMs], o)

structure LoopOut (α : Type) where
  w : W α
  log : List Ev
  exited : Bool             -- the goroutine left the loop and called `stopWaitGroup.Done()`

/-- `for atomic.LoadInt32(&w.shouldStop) == 0 { … }` over the given iterations -/
def runLoop (delayMs : Int) : W α → List (Iter α) → Option (LoopOut α)
  | w, [] => some { w := w, log := [], exited := false }
  | w, it :: rest =>
    if it.stop then some { w := w, log := [], exited := true }
    else match iteration delayMs w it with
      | none => none
      | some (w', evs, _) =>
        match runLoop delayMs w' rest with
        | none => none
        | some out => some { out with log := evs ++ out.log }

/-! ## line protocol (kernel `watchloop`)
Lists of paths: joined by "," ("-" = empty).  Paths and answers contain none of `TAB , ; = : | @`.
  watchloop \t poll \t KEYS \t ITEMS \t RECENT \t PERITER \t ORDER \t BASE \t FLIPS
      ORDER = `itemsToScan` right after the refill as the real code made it ("-" if it did not refill)
      BASE  = `path=answer` joined by "," : what each predicate answers (missing = "")
      FLIPS = `c:path=answer` joined by "," in increasing `c`: from call number `c` of this poll on, `path` answers `answer`
    answer: `ret|ITEMS'|RECENT'|PERITER'|CALLS`, or `PANIC`, or `REJECT` (ORDER is not a permutation of KEYS)
  watchloop \t set \t KEYS \t ITEMS \t RECENT \t PERITER \t NEWKEYS            answer: `ITEMS'|RECENT'|PERITER'`
  watchloop \t loop \t DELAY \t SETS \t KEYS \t ITEMS \t RECENT \t PERITER \t K \t LOG \t REBUILDS
      one run of the real goroutine.  LOG = every predicate call it made, `path=answer` or `path=answer@ORDER` (ORDER: the
      contents of `itemsToScan`'s backing array, given when it differs from the last one given), joined by ";".
      `shouldStop` became 1 during call number K (1-based) of the run.  REBUILDS = the key sets the successive rebuilds
      returned, joined by ";".  SETS = 1: the rebuild callback called setWatchData itself.
    answer: `ITEMS'|RECENT'|PERITER'|rebuilds=N`, `PANIC`, or `REJECT` (the model cannot produce this trace)
-/
def parseList (s : String) : List String := if s = "-" then [] else s.splitOn ","
def showList (l : List String) : String := if l.isEmpty then "-" else ",".intercalate l

def parsePair (s : String) : Option (String × String) :=
  match s.splitOn "=" with
  | [p, a] => some (p, a)
  | _ => none

def parseFlip (s : String) : Option (Nat × String × String) :=
  match s.splitOn ":" with
  | [c, pa] => match c.toNat?, parsePair pa with
    | some c, some (p, a) => some (c, p, a)
    | _, _ => none
  | _ => none

def lookupStr : List (String × String) → String → String
  | [], _ => ""
  | (k, v) :: m, p => if k = p then v else lookupStr m p

/-- the scripted world: the last flip for `p` that is already in force at call `c`, else the base answer -/
def askOf (base : List (String × String)) (flips : List (Nat × String × String)) : Ask String := fun c p =>
  match (flips.filter (fun f => f.1 ≤ c ∧ f.2.1 = p)).getLast? with
  | some f => f.2.2
  | none => lookupStr base p

/-- `l.Nodup`, decided by sorting (the key lists of the big cases have thousands of paths) -/
def nodupFast (l : List String) : Bool :=
  let a := l.toArray.qsort (· < ·)
  (List.range (a.size - 1)).all fun i => a[i]? != a[i + 1]?

def parseW (keys items recent perIter : String) : Option (W String) :=
  match perIter.toNat? with
  | some n =>
    let ks := parseList keys
    if nodupFast ks then some { keys := ks, itemsToScan := parseList items, recentItems := parseList recent, perIter := n } else none
  | none => none

def showW (w : W String) : String :=
  showList w.itemsToScan ++ "|" ++ showList w.recentItems ++ "|" ++ toString w.perIter

/-- one logged predicate call of a `loop` run -/
structure LogEntry where
  path : String
  answer : String
  order : Option (List String)

def parseLogEntry (s : String) : Option LogEntry :=
  match s.splitOn "@" with
  | [pa] => (parsePair pa).map fun (p, a) => { path := p, answer := a, order := none }
  | [pa, o] => (parsePair pa).map fun (p, a) => { path := p, answer := a, order := some (parseList o) }
  | _ => none

/-- replay of a logged run of the real goroutine against `iteration` (trace inclusion): the log supplies the refill orders and
the predicate answers; the model must make exactly the logged calls, in the logged order, and use up exactly the logged
rebuild results.  `fuel` bounds the number of iterations (every iteration of a run with a nonempty key set makes a call). -/
def replay (delay : Int) (sets : Bool) (k : Nat) (log : Array LogEntry) (rebuilds : Array (List String)) :
    Nat → W String → (pos nreb : Nat) → (lastOrder : List String) → String
  | 0, _, _, _, _ => "REJECT"
  | fuel + 1, w, pos, nreb, lastOrder =>
    if k ≤ pos then
      -- `shouldStop` is 1 at this loop head: the goroutine exits
      if pos = log.size ∧ nreb = rebuilds.size then showW w ++ "|rebuilds=" ++ toString nreb else "REJECT"
    else
      let order := match log[pos]? with
        | some e => (match e.order with | some o => o | none => lastOrder)
        | none => lastOrder
      if w.itemsToScan.length = 0 ∧ ¬ ValidOrder w order then "REJECT" else
      let ask : Ask String := fun c p => match log[pos + c]? with
        | some e => if e.path = p then e.answer else ""
        | none => ""
      let it : Iter String :=
        { stop := false, order := order, ask := ask, newKeys := (rebuilds[nreb]?).getD [], rebuildSets := sets }
      match iteration delay w it with
      | none => "PANIC"
      | some (w', _, o) =>
        let n := o.calls.length
        if pos + n ≤ log.size ∧ o.calls = ((log.extract pos (pos + n)).toList.map (·.path)) then
          if o.ret ≠ "" then
            if nreb < rebuilds.size then replay delay sets k log rebuilds fuel w' (pos + n) (nreb + 1) order else "REJECT"
          else replay delay sets k log rebuilds fuel w' (pos + n) nreb order
        else "REJECT"

def driver (args : List String) : String :=
  match args with
  | ["poll", keys, items, recent, perIter, order, base, flips] =>
    match parseW keys items recent perIter, (parseList base).mapM parsePair, (parseList flips).mapM parseFlip with
    | some w, some base, some flips =>
      let order := parseList order
      if w.itemsToScan.length = 0 ∧ ¬ ValidOrder w order then "REJECT" else
      match poll w order (askOf base flips) with
      | none => "PANIC"
      | some o => o.ret ++ "|" ++ showW o.w ++ "|" ++ showList o.calls
    | _, _, _ => "bad-op"
  | ["set", keys, items, recent, perIter, newKeys] =>
    match parseW keys items recent perIter with
    | some w =>
      let nk := parseList newKeys
      if nodupFast nk then showW (setWatchData w nk) else "bad-op"
    | none => "bad-op"
  | ["loop", delay, sets, keys, items, recent, perIter, k, log, rebuilds] =>
    match delay.toInt?, parseW keys items recent perIter, k.toNat?,
          (if log = "-" then some [] else (log.splitOn ";").mapM parseLogEntry) with
    | some delay, some w, some k, some log =>
      if sets ≠ "0" ∧ sets ≠ "1" then "bad-op" else
      let rebuilds := if rebuilds = "-" then [] else (rebuilds.splitOn ";").map parseList
      if rebuilds.all nodupFast then
        replay delay (sets = "1") k log.toArray rebuilds.toArray (log.length + 2) w 0 0 []
      else "bad-op"
    | _, _, _, _ => "bad-op"
  | _ => "bad-op"

end EsbuildModel.WatchLoop
