/-
Model of esbuild's handling of TypeScript enums (internal/js_parser/js_parser.go, `case *js_ast.SEnum`):
member values (auto-increment, constant folding of initialisers over integers and strings, references to
earlier members), the statements of the emitted closure, and the constants inlined at use sites.

Numbers are modelled as unbounded integers; an intermediate or final result outside the safe-integer range
(|x| ≥ 2^53), a division, or a non-constant initialiser makes the value `unknown` (the real code then keeps
the expression and does not inline it).  Bit operators go through ToInt32/ToUint32 on integers (`wrap32`),
whose agreement with the real `js_ast.ToInt32` on all doubles is C03's theorem.
-/
import EsbuildModel.Impl.ToInt32
namespace EsbuildModel.TsEnum
open EsbuildModel.ToInt32 (wrap32)

inductive Expr where
  | num (v : Int)
  | str (s : String)
  | ref (i : Nat)            -- bare reference to the member with this index (must be earlier to be known)
  | opaque                   -- anything that is not a constant (a call, an outer variable, ...)
  | neg (a : Expr)
  | bnot (a : Expr)
  | add (a b : Expr)
  | sub (a b : Expr)
  | mul (a b : Expr)
  | bor (a b : Expr)
  | band (a b : Expr)
  | bxor (a b : Expr)
  | shl (a b : Expr)
  | shr (a b : Expr)
  | ushr (a b : Expr)
deriving Repr

inductive Val where
  | num (v : Int)
  | str (s : String)
  | unknown
deriving Repr, DecidableEq

def safe (x : Int) : Val := if -9007199254740992 < x ∧ x < 9007199254740992 then .num x else .unknown

def u32 (x : Int) : Int := x % 4294967296

def binNum (f : Int → Int → Int) : Val → Val → Val
  | .num a, .num b => safe (f a b)
  | _, _ => .unknown

def eval (env : List Val) : Expr → Val
  | .num v => safe v
  | .str s => .str s
  | .ref i => env.getD i .unknown
  | .opaque => .unknown
  | .neg a => match eval env a with | .num x => safe (-x) | _ => .unknown
  | .bnot a => match eval env a with | .num x => .num (wrap32 (-(wrap32 x) - 1)) | _ => .unknown
  | .add a b =>
    match eval env a, eval env b with
    | .num x, .num y => safe (x + y)
    | .str x, .str y => .str (x ++ y)
    | _, _ => .unknown
  | .sub a b => binNum (· - ·) (eval env a) (eval env b)
  | .mul a b => binNum (· * ·) (eval env a) (eval env b)
  | .bor a b => binNum (fun x y => wrap32 (Int.ofNat ((u32 x).toNat ||| (u32 y).toNat))) (eval env a) (eval env b)
  | .band a b => binNum (fun x y => wrap32 (Int.ofNat ((u32 x).toNat &&& (u32 y).toNat))) (eval env a) (eval env b)
  | .bxor a b => binNum (fun x y => wrap32 (Int.ofNat ((u32 x).toNat ^^^ (u32 y).toNat))) (eval env a) (eval env b)
  | .shl a b => binNum (fun x y => wrap32 (wrap32 x * 2 ^ (y % 32).toNat)) (eval env a) (eval env b)
  | .shr a b => binNum (fun x y => wrap32 x / 2 ^ (y % 32).toNat) (eval env a) (eval env b)
  | .ushr a b => binNum (fun x y => u32 x / 2 ^ (y % 32).toNat) (eval env a) (eval env b)

structure Member where
  name : String
  init : Option Expr
deriving Repr

/-- running state while the members are visited in order -/
structure St where
  vals : List Val        -- values so far (same order as the members)
  next : Option Int      -- the value an initialiser-less member would get (none: previous was not numeric)

def stepMember (st : St) (m : Member) : St :=
  match m.init with
  | none =>
    match st.next with
    | some n => { vals := st.vals ++ [.num n], next := some (n + 1) }
    | none => { vals := st.vals ++ [.unknown], next := none }
  | some e =>
    match eval st.vals e with
    | .num v => { vals := st.vals ++ [.num v], next := some (v + 1) }
    | .str s => { vals := st.vals ++ [.str s], next := none }
    | .unknown => { vals := st.vals ++ [.unknown], next := none }

/-- the value of every member, i.e. what is inlined for `E.name` -/
def values (ms : List Member) : List Val := (ms.foldl stepMember { vals := [], next := some 0 }).vals

-- ---------------------------------------------------------------- the emitted closure, run on a toy object

/-- property keys of the enum object: member names and (for the reverse mapping) numbers -/
inductive Key where
  | name (s : String)
  | idx (v : Int)
deriving DecidableEq, Repr

/-- `E[E["A"] = 1] = "A"` for numeric members, `E["A"] = "x"` for string members; members whose value is not
known at compile time are not modelled (their statement has the numeric form but depends on run-time data) -/
inductive Stmt where
  | setNum (name : String) (v : Int)
  | setStr (name : String) (s : String)
  | setDyn (name : String)
deriving Repr

def emit (ms : List Member) : List Stmt :=
  (ms.zip (values ms)).map (fun (m, v) =>
    match v with
    | .num x => .setNum m.name x
    | .str s => .setStr m.name s
    | .unknown => .setDyn m.name)

/-- the object as an association list, latest write first -/
abbrev Obj := List (Key × Val)

def runStmt (o : Obj) : Stmt → Obj
  | .setNum n v => (.idx v, .str n) :: (.name n, .num v) :: o
  | .setStr n s => (.name n, .str s) :: o
  | .setDyn n => (.name n, .unknown) :: o

def run (ss : List Stmt) : Obj := ss.foldl runStmt []

def lookup (o : Obj) (k : Key) : Option Val := (o.find? (fun e => e.1 == k)).map (·.2)

-- ---------------------------------------------------------------- wire

/-- expression in prefix form, tokens separated by spaces: `n<int>` `s<hex>` `r<idx>` `o`, unary `neg` `bnot`,
binary `add sub mul bor band bxor shl shr ushr` -/
def parseExpr : Nat → List String → Option (Expr × List String)
  | 0, _ => none
  | fuel + 1, tok :: rest =>
    let un (c : Expr → Expr) := (parseExpr fuel rest).map (fun (a, r) => (c a, r))
    let bin (c : Expr → Expr → Expr) :=
      match parseExpr fuel rest with
      | some (a, r) => (parseExpr fuel r).map (fun (b, r2) => (c a b, r2))
      | none => none
    match tok with
    | "o" => some (.opaque, rest)
    | "neg" => un .neg
    | "bnot" => un .bnot
    | "add" => bin .add
    | "sub" => bin .sub
    | "mul" => bin .mul
    | "bor" => bin .bor
    | "band" => bin .band
    | "bxor" => bin .bxor
    | "shl" => bin .shl
    | "shr" => bin .shr
    | "ushr" => bin .ushr
    | t =>
      if t.startsWith "n" then (t.drop 1).toString.toInt?.map (fun v => (.num v, rest))
      else if t.startsWith "r" then (t.drop 1).toString.toNat?.map (fun v => (.ref v, rest))
      else if t.startsWith "s" then
        (Wire.parseHexUnits 2 (t.drop 1).toString).map (fun bs => (.str (String.ofList (bs.map Char.ofNat)), rest))
      else none
  | _, [] => none

def parseMember (s : String) : Option Member :=
  match s.splitOn "=" with
  | [name] => some { name, init := none }
  | [name, e] =>
    match parseExpr 64 (e.splitOn " ") with
    | some (ex, []) => some { name, init := some ex }
    | _ => none
  | _ => none

def showVal : Val → String
  | .num v => s!"n{v}"
  | .str s => "s" ++ Wire.hexUnits 2 (s.toList.map Char.toNat)
  | .unknown => "u"

def driver (args : List String) : String :=
  match args with
  | [members] =>
    match (members.splitOn ";").mapM parseMember with
    | some ms => " ".intercalate ((values ms).map showVal)
    | none => "bad-op"
  | _ => "bad-op"

end EsbuildModel.TsEnum
