import EsbuildModel.Impl.Compat
import EsbuildModel.Gen.TargetTables
/-!
# From the option TEXT to the feature set (C14, work package `targets`)

Transcription of
* pkg/cli/cli_impl.go `splitWithEmptyCheck`, `parseTargets` (`--target=chrome58,firefox57,es2020`), the `--supported:` case and
  `parseBoolFlag`;
* pkg/api/api_impl.go `versionRegex`, `validateFeatures`, `validateSupported`;
* internal/compat/compat.go `Semver.String`, `CompareSemver`, `splitOffNextPreReleasePart`, `preReleasePartToNumber`
  (`compareVersions` / `isVersionSupported` / `UnsupportedJSFeatures` are `Compat.*`, reused);
* internal/compat/css_table.go `UnsupportedCSSFeatures`, `CSSPrefixData`;
* internal/config/config.go `PrettyPrintTargetEnvironment`; internal/helpers `StringArrayToQuotedCommaSeparatedString`.
All tables come from `Gen.TargetTables` / `Gen.CompatTable` (regenerated from the source on every run).

Text is `List Char` (code points). Go works on bytes; every class the code tests is ASCII, so a non-ASCII code point and an
ill-formed byte behave alike (they match nothing); ill-formed UTF-8 itself is outside the model.
-/
namespace EsbuildModel.Targets
open EsbuildModel

abbrev Text := List Char

/-- `compat.Semver`: numeric parts and the pre-release TEXT ("" or "-alpha.1") -/
structure Sv where
  parts : List Nat
  pre : Text
  deriving Repr, DecidableEq, Inhabited

/-- the view `compareVersions` has of a constraint: only whether a pre-release text is present -/
def Sv.toC (s : Sv) : Compat.Semver := { parts := s.parts, pre := !s.pre.isEmpty }

/-! ## strconv.Atoi on a digit string, 64-bit `int` -/

def maxInt : Nat := 2 ^ 63 - 1

def digitsVal (ds : Text) : Nat := ds.foldl (fun a c => a * 10 + (c.toNat - 48)) 0

/-- `strconv.Atoi` restricted to the inputs the code can pass: "" (an unmatched group → error) or a digit string
(error iff out of the int64 range) -/
def atoi (ds : Text) : Option Nat :=
  if ds.isEmpty then none else if digitsVal ds ≤ maxInt then some (digitsVal ds) else none

/-! ## `versionRegex` = `^([0-9]+)(?:\.([0-9]+))?(?:\.([0-9]+))?(-[A-Za-z0-9]+(?:\.[A-Za-z0-9]+)*)?$` -/

def versionRegexText : String :=
  "^([0-9]+)(?:\\.([0-9]+))?(?:\\.([0-9]+))?(-[A-Za-z0-9]+(?:\\.[A-Za-z0-9]+)*)?$"

/-- split at every '.', as the loop of `splitOffNextPreReleasePart` does on regex-valid text -/
def splitDot : Text → List Text
  | [] => [[]]
  | c :: cs =>
    if c = '.' then [] :: splitDot cs
    else match splitDot cs with
      | h :: t => (c :: h) :: t
      | [] => [[c]]

/-- group 4: `-[A-Za-z0-9]+(?:\.[A-Za-z0-9]+)*` up to the end of the text -/
def preOk (r : Text) : Bool :=
  match r with
  | '-' :: body => (splitDot body).all fun p => !p.isEmpty && p.all Char.isAlphanum
  | _ => false

/-- `(?:\.([0-9]+))?` (greedy; skipping it when it does not match) -/
def optDotDigits (r : Text) : Text × Text :=
  match r with
  | '.' :: r' =>
    let d := r'.takeWhile Char.isDigit
    if d.isEmpty then ([], r) else (d, r'.dropWhile Char.isDigit)
  | _ => ([], r)

/-- `versionRegex.FindStringSubmatch`: the four groups ("" for a group that did not take part) -/
def matchVersion (cs : Text) : Option (Text × Text × Text × Text) :=
  let g1 := cs.takeWhile Char.isDigit
  let r := cs.dropWhile Char.isDigit
  if g1.isEmpty then none else
  let (g2, r) := optDotDigits r
  let (g3, r) := optDotDigits r
  if r.isEmpty then some (g1, g2, g3, [])
  else if preOk r then some (g1, g2, g3, r)
  else none

/-- the body of the `for _, engine := range engines` loop up to building `new` (none = "Invalid version") -/
def parseVersion (cs : Text) : Option Sv :=
  match matchVersion cs with
  | none => none
  | some (g1, g2, g3, g4) =>
    match atoi g1 with
    | none => none
    | some major =>
      let parts := match atoi g2 with
        | none => [major]
        | some minor =>
          match atoi g3 with
          | none => [major, minor]
          | some patch => [major, minor, patch]
      some { parts := parts, pre := g4 }

/-! ## compat.CompareSemver -/

/-- the numeric loop: parts padded with 0 to the longer length, first difference `ai - bi` -/
def cmpParts : List Nat → List Nat → Int
  | [], [] => 0
  | a :: as, [] => if a = 0 then cmpParts as [] else (a : Int)
  | [], b :: bs => if b = 0 then cmpParts [] bs else -(b : Int)
  | a :: as, b :: bs => if a = b then cmpParts as bs else (a : Int) - (b : Int)

/-- `splitOffNextPreReleasePart` -/
def splitOff (t : Text) : Text × Text :=
  (t.takeWhile (· != '.'), (t.dropWhile (· != '.')).drop 1)

/-- `preReleasePartToNumber` -/
def partNum (h : Text) : Option Nat := if h.all Char.isDigit then atoi h else none

/-- Go's `<` on strings (bytewise = by code point for well-formed text) -/
def lexLt : Text → Text → Bool
  | _, [] => false
  | [], _ :: _ => true
  | a :: as, b :: bs => if a < b then true else if b < a then false else lexLt as bs

theorem splitOff_lt (t : Text) (h : t ≠ []) : (splitOff t).2.length < t.length := by
  cases t with
  | nil => exact absurd rfl h
  | cons c cs =>
    have h1 := (List.dropWhile_sublist (· != '.') (l := c :: cs)).length_le
    simp only [splitOff, List.length_drop, List.length_cons] at *
    cases hd : List.dropWhile (· != '.') (c :: cs) with
    | nil => simp
    | cons x xs => rw [hd] at h1; simp only [List.length_cons] at *; omega

/-- the `for a_tail != "" && b_tail != ""` loop with its final `return len(a_tail) - len(b_tail)` -/
def cmpPre (a b : Text) : Int :=
  if ha : a = [] then (a.length : Int) - b.length
  else if hb : b = [] then (a.length : Int) - b.length
  else
    let ah := (splitOff a).1
    let bh := (splitOff b).1
    if ah = bh then cmpPre (splitOff a).2 (splitOff b).2
    else
      match partNum ah, partNum bh with
      | none, none => if lexLt ah bh then -1 else 1
      | some an, some bn => if an ≠ bn then (an : Int) - bn else (ah.length : Int) - bh.length
      | some _, none => -1
      | none, some _ => 1
termination_by a.length
decreasing_by exact splitOff_lt a ha

/-- `strings.TrimPrefix(s, "-")` -/
def trimDash : Text → Text
  | '-' :: t => t
  | t => t

/-- `compat.CompareSemver` -/
def compareSemver (a b : Sv) : Int :=
  let c := cmpParts a.parts b.parts
  if c ≠ 0 then c
  else if (!a.pre.isEmpty) != (!b.pre.isEmpty) then (b.pre.length : Int) - a.pre.length
  else cmpPre (trimDash a.pre) (trimDash b.pre)

/-! ## api.validateFeatures -/

abbrev Constraints := List (String × Sv)

/-- `constraints[name] = new` on the association list that stands for the Go map -/
def setC (cs : Constraints) (name : String) (v : Sv) : Constraints :=
  match cs with
  | [] => [(name, v)]
  | (n, o) :: rest => if n = name then (n, v) :: rest else (n, o) :: setC rest name v

/-- `if old, ok := constraints[name]; ok && CompareSemver(old, new) < 0 { continue }; constraints[name] = new` -/
def addConstraint (cs : Constraints) (name : String) (new : Sv) : Constraints :=
  match cs.lookup name with
  | some old => if compareSemver old new < 0 then cs else setC cs name new
  | none => setC cs name new

/-- `convertEngineName` on the numeric value of an `api.EngineName` (none = `panic("Invalid engine name")`) -/
def convertEngineName (e : Nat) : Option String :=
  match Gen.apiEngineNames[e]? with
  | none => none
  | some n => Gen.apiEngineToCompat.lookup n

inductive LoopRes where
  | panic
  | ok (cs : Constraints) (errs : List Text)
  deriving Repr, DecidableEq

/-- the `for _, engine := range engines` loop; `errs` are the texts of the "Invalid version" errors, in order -/
def engineLoop (engines : List (Nat × Text)) (cs : Constraints) (errs : List Text) : LoopRes :=
  match engines with
  | [] => .ok cs errs
  | (e, vt) :: rest =>
    match parseVersion vt with
    | none => engineLoop rest cs (errs ++ [vt])
    | some new =>
      match convertEngineName e with
      | none => .panic
      | some name => engineLoop rest (addConstraint cs name new) errs

def showNat (n : Nat) : Text := (toString n).toList

/-- `Semver.String` -/
def Sv.str (v : Sv) : Text :=
  let rec go : List Nat → Text
    | [] => []
    | [p] => showNat p
    | p :: q :: r => showNat p ++ '.' :: go (q :: r)
  go v.parts ++ v.pre

def engineText (e : String) : Text := ((Gen.engineStrings.lookup e).getD "").toList

/-- `engine.String()+version.String()` -/
def targetText (c : String × Sv) : Text := engineText c.1 ++ c.2.str

def lexLe (a b : Text) : Bool := !lexLt b a

def insertSorted (x : Text) : List Text → List Text
  | [] => [x]
  | y :: ys => if lexLe x y then x :: y :: ys else y :: insertSorted x ys

/-- `sort.Strings` -/
def sortTexts (l : List Text) : List Text := l.foldr insertSorted []

/-- `fmt.Sprintf("%q", s)` for the texts that can occur here (printable ASCII without quote or backslash) -/
def quote (s : Text) : Text := '"' :: s ++ ['"']

/-- `helpers.StringArrayToQuotedCommaSeparatedString` -/
def quotedCommaSeparated : List Text → Text
  | [] => []
  | [s] => quote s
  | s :: t :: r => quote s ++ ',' :: ' ' :: quotedCommaSeparated (t :: r)

def isBrowser (e : String) : Bool := Gen.browserEngines.contains e

def toCompat (cs : Constraints) : List (String × Compat.Semver) := cs.map fun c => (c.1, c.2.toC)

/-- `compat.UnsupportedJSFeatures` -/
def jsUnsupported (cs : Constraints) : List String :=
  Compat.unsupported Gen.compatTable Gen.compatFeatures (toCompat cs)

/-- `compat.UnsupportedCSSFeatures`: non-browser engines are skipped, InlineStyle is purely user-specified -/
def cssUnsupported (cs : Constraints) : List String :=
  Gen.cssFeatures.filter fun f =>
    f != "InlineStyle" &&
    match Gen.cssTable.lookup f with
    | none => false
    | some engines => Compat.featureUnsupported engines ((toCompat cs).filter fun c => isBrowser c.1)

/-- does one `prefixData` item ask for its prefix under one constraint? -/
def itemNeeds (item : String × String × Compat.V) (c : String × Compat.Semver) : Bool :=
  item.1 == c.1 && (item.2.2 == (0, 0, 0) || Compat.compareVersions item.2.2 c.2 > 0)

/-- the prefixes `CSSPrefixData` ORs together for one property -/
def prefixesOf (items : List (String × String × Compat.V)) (cs : Constraints) : List String :=
  Gen.cssPrefixBits.filter fun p =>
    (toCompat cs).any fun c => isBrowser c.1 && items.any fun it => it.2.1 == p && itemNeeds it c

/-- `compat.CSSPrefixData`: only properties with a non-empty prefix set get an entry -/
def cssPrefixData (cs : Constraints) : List (String × List String) :=
  (Gen.cssPrefixTable.map fun (prop, items) => (prop, prefixesOf items cs)).filter fun e => !e.2.isEmpty

structure Features where
  js : List String
  css : List String
  pfx : List (String × List String)
  env : Text
  errs : List Text
  deriving Repr, DecidableEq

inductive VFRes where
  | panic (msg : String)
  | ok (f : Features)
  deriving Repr, DecidableEq

/-- the constraint map `validateFeatures` builds (none = a panic) -/
def constraintsOf (target : Nat) (engines : List (Nat × Text)) : Option (String × LoopRes) :=
  match Gen.apiTargets[target]? with
  | none => none
  | some tname =>
    match Gen.targetES.lookup tname with
    | none => none
    | some parts =>
      let cs : Constraints := if parts.isEmpty then [] else [("ES", { parts := parts, pre := [] })]
      some (tname, engineLoop engines cs [])

/-- `api.validateFeatures` (`target` = numeric value of the `api.Target`, engine names likewise) -/
def validateFeatures (target : Nat) (engines : List (Nat × Text)) : VFRes :=
  if Gen.apiTargets[target]? = some "DefaultTarget" ∧ engines.isEmpty then .ok { js := [], css := [], pfx := [], env := [], errs := [] } else
  match constraintsOf target engines with
  | none => .panic "Invalid target"
  | some (_, .panic) => .panic "Invalid engine name"
  | some (tname, .ok cs errs) =>
    let targets := cs.map targetText ++ (if tname = "ESNext" then ["esnext".toList] else [])
    .ok { js := jsUnsupported cs, css := cssUnsupported cs, pfx := cssPrefixData cs,
          env := quotedCommaSeparated (sortTexts targets), errs := errs }

/-! ## cli: `--target=` -/

/-- `strings.ToLower` as far as equality with an ASCII key can see it: A–Z, and the two non-ASCII code points whose
lower case is ASCII (U+212A KELVIN SIGN → k, U+0130 → i); every other code point lower-cases to a non-ASCII one -/
def lowerChar (c : Char) : Char :=
  if 'A' ≤ c ∧ c ≤ 'Z' then Char.ofNat (c.toNat + 32)
  else if c = Char.ofNat 0x212A then 'k'
  else if c = Char.ofNat 0x130 then 'i'
  else c

def toLower (t : Text) : Text := t.map lowerChar

/-- `splitWithEmptyCheck(s, ",")`: `strings.Split` but "" ↦ [] -/
def splitComma (s : Text) : List Text :=
  if s.isEmpty then [] else
  let rec go : Text → List Text
    | [] => [[]]
    | c :: cs =>
      if c = ',' then [] :: go cs
      else match go cs with
        | h :: t => (c :: h) :: t
        | [] => [[c]]
  go s

inductive ItemRes where
  | target (name : String)
  | engine (name : String) (version : Text)
  | missingVersion
  | invalid
  deriving Repr, DecidableEq

/-- the inner `for engine, name := range validEngines` (a Go MAP: the order is arbitrary — `Props` shows the keys are
prefix-free, so the first hit is the only one) -/
def findEngine (value : Text) : List (String × String) → Option (String × Text)
  | [] => none
  | (key, name) :: rest =>
    if key.toList.isPrefixOf value then some (name, value.drop key.toList.length) else findEngine value rest

/-- one iteration of the `outer` loop of `parseTargets` -/
def parseItem (value : Text) : ItemRes :=
  match Gen.cliTargets.lookup (String.ofList (toLower value)) with
  | some t => .target t
  | none =>
    match findEngine value Gen.cliEngines with
    | some (name, version) => if version.isEmpty then .missingVersion else .engine name version
    | none => .invalid

inductive CliRes where
  | ok (target : String) (engines : List (String × Text))
  | missingVersion (idx : Nat)
  | invalid (idx : Nat)
  deriving Repr, DecidableEq

/-- `parseTargets`; the zero value of `api.Target` is DefaultTarget; `idx` = index of the offending item -/
def parseTargetsFrom (idx : Nat) (items : List Text) (target : String) (engines : List (String × Text)) : CliRes :=
  match items with
  | [] => .ok target engines
  | v :: rest =>
    match parseItem v with
    | .target t => parseTargetsFrom (idx + 1) rest t engines
    | .engine n ver => parseTargetsFrom (idx + 1) rest target (engines ++ [(n, ver)])
    | .missingVersion => .missingVersion idx
    | .invalid => .invalid idx

/-- what `--target=<s>` sets in the options -/
def parseTargetArg (s : Text) : CliRes := parseTargetsFrom 0 (splitComma s) "DefaultTarget" []

/-- numeric values of the `api.Target` / `api.EngineName` constants -/
def targetIndex (name : String) : Option Nat := Gen.apiTargets.idxOf? name
def engineIndex (name : String) : Option Nat := Gen.apiEngineNames.idxOf? name

/-! ## cli: `--supported:name=bool`, api.validateSupported -/

inductive SupArg where
  | ok (name : Text) (v : Bool)
  | missingEq
  | invalidValue
  deriving Repr, DecidableEq

/-- the `--supported:` case with `parseBoolFlag` (value = the text after `--supported:`) -/
def parseSupportedArg (value : Text) : SupArg :=
  let name := value.takeWhile (· != '=')
  match value.dropWhile (· != '=') with
  | [] => .missingEq
  | _ :: v =>
    if v = "false".toList then .ok name false
    else if v = "true".toList then .ok name true
    else .invalidValue

structure Supported where
  jsFeature : List String
  jsMask : List String
  cssFeature : List String
  cssMask : List String
  bad : List Text
  deriving Repr, DecidableEq

/-- `validateSupported` over the entries of the map (distinct keys; every result is an OR, so the order is immaterial) -/
def validateSupported : List (Text × Bool) → Supported
  | [] => { jsFeature := [], jsMask := [], cssFeature := [], cssMask := [], bad := [] }
  | (k, v) :: rest =>
    let r := validateSupported rest
    match Gen.jsFeatureNames.lookup (String.ofList k) with
    | some js => { r with jsMask := js :: r.jsMask, jsFeature := if v then r.jsFeature else js :: r.jsFeature }
    | none =>
      match Gen.cssFeatureNames.lookup (String.ofList k) with
      | some css => { r with cssMask := css :: r.cssMask, cssFeature := if v then r.cssFeature else css :: r.cssFeature }
      | none => { r with bad := k :: r.bad }

/-! ## config.PrettyPrintTargetEnvironment -/

def popCount : Nat → Nat → Nat
  | 0, _ => 0
  | fuel + 1, m => if m = 0 then 0 else m % 2 + popCount fuel (m / 2)

def prettyPrintTargetEnvironment (env : Text) (overridesMask : Nat) : Text :=
  let whereT := "the configured target environment".toList
  let overrides : Text :=
    if overridesMask ≠ 0 then
      let count := popCount 64 overridesMask
      " + ".toList ++ showNat count ++ " override".toList ++ (if count = 1 then [] else ['s'])
    else []
  if env.isEmpty then whereT else whereT ++ " (".toList ++ env ++ overrides ++ [')']

end EsbuildModel.Targets
