import EsbuildModel.Impl.Vlq
import EsbuildModel.Gen.Base64
import EsbuildModel.Util.Wire
/-
Byte-level `encodeVLQ` / `DecodeVLQ` / `DecodeVLQUTF16` over the alphabet extracted from the source.
-/
namespace EsbuildModel.Vlq

/-- `bytes.IndexByte(base64, b)`; 64 stands for "-1 / not found" -/
def toDigit (alpha : List Nat) (b : Nat) : Nat :=
  match alpha.idxOf? b with
  | some i => if i < 64 then i else 64
  | none => 64

/-- `base64[digit]` (digit < 64 always holds for digits produced by `encode`) -/
def fromDigit (alpha : List Nat) (d : Nat) : Nat := alpha.getD d 0

def encodeBytes (alpha : List Nat) (v : Int) : List Nat := (encode v).map (fromDigit alpha)

/-- `DecodeVLQ(encoded, start)`: `none` models Go's index-out-of-range panic. Result is
(value, new start index). -/
def decodeBytes (alpha : List Nat) (encoded : List Nat) (start : Nat) : Option (Int × Nat) :=
  if start > encoded.length then none else
  match decode ((encoded.drop start).map (toDigit alpha)) with
  | none => none
  | some (v, rest) => some (v, encoded.length - rest.length)

/-- the scan loop of `DecodeVLQUTF16`: like `scan` but failing (`none`) on a non-alphabet unit,
with Go's `int32` semantics (`BitVec 32`: `x << s` is 0 once `s ≥ 32`). Units ≥ 256 are
truncated to a byte by `byte(encoded[current])` exactly as in the Go code. -/
def scan16 (alpha : List Nat) (shift : Nat) (vlq : BitVec 32) : List Nat → Option (BitVec 32 × List Nat)
  | [] => none
  | u :: rest =>
    let d := toDigit alpha (u % 256)
    if d ≥ 64 then none
    else
      let vlq := vlq ||| (BitVec.ofNat 32 (d &&& 31) <<< shift)
      if d &&& 32 = 0 then some (vlq, rest) else scan16 alpha (shift + 5) vlq rest

/-- `DecodeVLQUTF16`: (value, consumed); `none` = `ok == false`. `>>` on int32 is arithmetic. -/
def decodeUTF16 (alpha : List Nat) (encoded : List Nat) : Option (Int × Nat) :=
  match scan16 alpha 0 0 encoded with
  | none => none
  | some (vlq, rest) =>
    let value := vlq.sshiftRight 1
    let value := if vlq &&& 1 ≠ 0 then -value else value
    some (value.toInt, encoded.length - rest.length)

open Wire in
def driver (args : List String) : String :=
  match args with
  | ["enc", v] =>
    match parseInt v with
    | some v => hexUnits 2 (encodeBytes Gen.base64 v)
    | none => "bad-op"
  | ["dec", bytes, start] =>
    match parseHexUnits 2 bytes, parseNat start with
    | some bs, some st =>
      match decodeBytes Gen.base64 bs st with
      | some (v, n) => s!"{v} {n}"
      | none => "PANIC"
    | _, _ => "bad-op"
  | ["dec16", units] =>
    match parseHexUnits 4 units with
    | some us =>
      match decodeUTF16 Gen.base64 us with
      | some (v, n) => s!"{v} {n} true"
      | none => "0 0 false"
    | none => "bad-op"
  | _ => "bad-op"

end EsbuildModel.Vlq
