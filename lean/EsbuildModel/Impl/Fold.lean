import EsbuildModel.Util.F64Arith
import EsbuildModel.Util.Wire
import EsbuildModel.Impl.ToInt32
/-
Model of esbuild's compile-time evaluation of operators on literals
(internal/js_ast/js_ast_helpers.go: FoldBinaryOperator, ShouldFoldBinaryOperatorWhenMinifying,
CheckEqualityIfNoSideEffects, CheckEqualityBigInt, ToNumberWithoutSideEffects, ToStringWithoutSideEffects,
TryToStringOnNumberSafely (radix 10), StringToEquivalentNumberValue, TypeofWithoutSideEffects,
ToBooleanWithSideEffects, ToNullOrUndefinedWithSideEffects, IsPrimitiveLiteral, extractNumericValue,
extractStringValue, stringCompareUCS2; internal/js_parser/js_parser.go: the `EUnary` post-processing of
`! void + - ~ typeof` in visitExprInOut), restricted to the operand kinds listed in `Expr`.

float64 values are exact dyadics (`F64`); Go's `+ - * /` and the generic part of `math.Pow` are the parameter
`Arith`; Go's int32 / uint32 are `BitVec 32`; the unspecified result of converting an out-of-range float64 to
int32 is the parameter `G`. `math.Mod` and the special cases of `math.Pow` are transcribed from Go 1.23
(src/math/mod.go, pow.go), with the exactness of the remainder loop taken from its documentation.
-/
namespace EsbuildModel.Fold
open EsbuildModel F64

/-- the operand expressions the folding code distinguishes -/
inductive Expr
  | null
  | undef
  | bool (b : Bool)
  | num (f : F64)
  | str (s : List Nat)              -- EString: UTF-16 code units
  | bigint (t : List Nat)           -- EBigInt: literal text without `n` and without `_`
  | regexp (t : List Nat)           -- ERegExp: source text
  | array0                          -- EArray with no items
  | object0                         -- EObject with no properties
  | func                            -- EFunction / EArrow
  | ident (i : Nat)                 -- anything else (an unbound identifier in the harness)
  | inlinedEnum (v : Expr)          -- EInlinedEnum
  | annot (v : Expr) (removable : Bool)   -- EAnnotation, flag CanBeRemovedIfUnusedFlag
  deriving DecidableEq, Repr

/-- js_ast.OpCode, binary operators that FoldBinaryOperator has a case for; `other` = every other opcode -/
inductive Op
  | add | sub | mul | div | rem | pow
  | shl | shr | ushr | band | bor | bxor
  | lt | gt | le | ge
  | looseEq | strictEq | looseNe | strictNe
  | logicalAnd | logicalOr | nullish
  | other
  deriving DecidableEq, Repr

inductive UOp
  | pos | neg | cpl | not | typeof | void
  deriving DecidableEq, Repr

-- ---------------------------------------------------------------- small helpers

def extractNumericValue : Expr → Option F64
  | .annot v _ => extractNumericValue v
  | .inlinedEnum v => extractNumericValue v
  | .num f => some f
  | _ => none

def extractNumericValues (l r : Expr) : Option (F64 × F64) :=
  match extractNumericValue l with
  | some a => match extractNumericValue r with
    | some b => some (a, b)
    | none => none
  | none => none

def extractStringValue : Expr → Option (List Nat)
  | .annot v _ => extractStringValue v
  | .inlinedEnum v => extractStringValue v
  | .str s => some s
  | _ => none

def extractStringValues (l r : Expr) : Option (List Nat × List Nat) :=
  match extractStringValue l with
  | some a => match extractStringValue r with
    | some b => some (a, b)
    | none => none
  | none => none

def isPrimitiveLiteral : Expr → Bool
  | .annot v _ => isPrimitiveLiteral v
  | .inlinedEnum v => isPrimitiveLiteral v
  | .null | .undef | .str _ | .bool _ | .num _ | .bigint _ => true
  | _ => false

/-- the loop of stringCompareUCS2 from index i; the lists are indexed as the Go slices are, an index out of
range is a Go panic (`none`) -/
def compareFrom (a b : List Nat) (n : Nat) : Nat → Nat → Option Int
  | 0, _ => some ((a.length : Int) - (b.length : Int))
  | fuel + 1, i =>
    if i < n then
      match a[i]?, b[i]? with
      | some x, some y =>
        let delta : Int := (x : Int) - (y : Int)
        if delta ≠ 0 then some delta else compareFrom a b n fuel (i + 1)
      | _, _ => none
    else some ((a.length : Int) - (b.length : Int))

def stringCompareUCS2 (a b : List Nat) : Option Int :=
  let n := if a.length < b.length then a.length else b.length
  compareFrom a b n (n + 1) 0

-- ---------------------------------------------------------------- Go int32 / uint32

/-- `ToInt32(f)` as a 32-bit pattern -/
def toInt32 (G : F64 → Int) (f : F64) : BitVec 32 := BitVec.ofInt 32 (ToInt32.impl (G f) f)

/-- `ToUint32(f) = uint32(ToInt32(f))`: the same bits -/
def toUint32 (G : F64 → Int) (f : F64) : BitVec 32 := toInt32 G f

/-- `float64(i)` for `i int32` / `i uint32` -/
def ofInt32 (b : BitVec 32) : F64 := ofInt b.toInt
def ofUint32 (b : BitVec 32) : F64 := ofInt (b.toNat : Int)

/-- `ToUint32(right) & 31` -/
def shiftAmount (G : F64 → Int) (r : F64) : Nat := (toUint32 G r &&& 31#32).toNat

-- ---------------------------------------------------------------- math.Mod, math.Pow (Go 1.23)

/-- src/math/mod.go. The loop `for r >= y { … r = r - Ldexp(y, rexp-yexp) }` subtracts exact multiples of y, so
for finite operands the result is |x| mod |y| with the sign of x (an unchanged x when |x| < |y|). -/
def goMod (x y : F64) : F64 :=
  if ieeeEq y zero || isInf x || isNaN x || isNaN y then .nan
  else match x, y with
    | .fin nx mx ex, .fin _ my ey =>
      let e0 := min ex ey
      let a := mx * 2 ^ (ex - e0).toNat
      let b := my * 2 ^ (ey - e0).toNat
      if a < b then x else .fin nx (a % b) e0
    | _, _ => x               -- y = ±Inf: `r >= y` is false at once, ±r = x is returned

/-- math.isOddInt -/
def goIsOddInt (y : F64) : Bool :=
  if ieeeGe (abs y) (.fin false (2 ^ 53) 0) then false
  else match y with
    | .fin _ m e => isIntegral m e && truncAbs m e % 2 == 1
    | _ => false

/-- `case x == 0:` of math.pow (y is neither 0 nor NaN there); falling out of the inner switch continues with
the general algorithm -/
def goPowZero (A : Arith) (x y : F64) : F64 :=
  if ieeeLt y zero then (if signbit x && goIsOddInt y then .inf true else .inf false)
  else if ieeeGt y zero then (if signbit x && goIsOddInt y then x else zero)
  else A.pow x y

/-- src/math/pow.go `pow`. After the special cases: `y == ±0.5` (Sqrt, NaN for x < 0), `yf != 0 && x < 0` (NaN),
everything else is the parameter. -/
def goPow (A : Arith) (x y : F64) : F64 :=
  if ieeeEq y zero || ieeeEq x one then one
  else if ieeeEq y one then x
  else if isNaN x || isNaN y then .nan
  else if ieeeEq x zero then goPowZero A x y
  else if isInf y then
    (if ieeeEq x (.fin true 1 0) then one
     else if (ieeeLt (abs x) one) == isInfSign false y then zero
     else .inf false)
  else if isInf x then
    (if isInfSign true x then
       -- return Pow(1/x, -y): x' = −0, y' = −y is finite, not 0, not NaN
       (let y' := neg y
        if ieeeEq y' one then .fin true 0 0 else goPowZero A (.fin true 0 0) y')
     else if ieeeLt y zero then zero
     else if ieeeGt y zero then .inf false
     else A.pow x y)
  else if ieeeLt x zero && !isInteger y then .nan
  else A.pow x y

-- ---------------------------------------------------------------- number ↔ string

/-- digits of `strconv.FormatInt(_, 10)`, least significant first into `acc` -/
def formatDigits : Nat → Nat → List Nat → List Nat
  | 0, _, acc => acc
  | fuel + 1, u, acc =>
    if u / 10 = 0 then (48 + u % 10) :: acc
    else formatDigits fuel (u / 10) ((48 + u % 10) :: acc)

def formatInt (i : Int) : List Nat :=
  (if i < 0 then [45] else []) ++ formatDigits (i.natAbs + 1) i.natAbs []

/-- the Go conversion `int32(n)`: truncation when the truncated value fits, otherwise unspecified (`G n`) -/
def convInt32 (G : F64 → Int) (n : F64) : Int :=
  match n with
  | .fin neg m e =>
    let t := truncAbs m e
    if (if neg then t ≤ 2147483648 else t < 2147483648) then (if neg then -(t : Int) else (t : Int)) else G n
  | _ => G n

/-- TryToStringOnNumberSafely(n, 10) -/
def tryToStringOnNumberSafely (G : F64 → Int) (n : F64) : Option (List Nat) :=
  let i := convInt32 G n
  if ieeeEq (ofInt i) n then some (formatInt i)
  else if isNaN n then some [78, 97, 78]                                   -- "NaN"
  else if isInfSign false n then some [73, 110, 102, 105, 110, 105, 116, 121]        -- "Infinity"
  else if isInfSign true n then some [45, 73, 110, 102, 105, 110, 105, 116, 121]     -- "-Infinity"
  else none

/-- the digit loop of StringToEquivalentNumberValue: `intValue = intValue*10 + int32(c) - '0'` on int32 -/
def parseDigits32 (acc : Int) : List Nat → Option Int
  | [] => some acc
  | c :: cs =>
    if c < 48 || c > 57 then none
    else parseDigits32 (ToInt32.wrap32 (ToInt32.wrap32 (ToInt32.wrap32 (acc * 10) + (c : Int)) - 48)) cs

def stringToEquivalentNumberValue (value : List Nat) : Option F64 :=
  match value with
  | [] => none
  | c0 :: rest =>
    let isNegative := c0 == 45 && value.length > 1
    let digits := if isNegative then rest else value
    match parseDigits32 0 digits with
    | none => none
    | some iv =>
      let iv := if isNegative then ToInt32.wrap32 (-iv) else iv
      if value == formatInt iv then some (ofInt iv) else none     -- UTF16EqualsString on an ASCII string

def toNumberWithoutSideEffects : Expr → Option F64
  | .annot v _ => toNumberWithoutSideEffects v
  | .inlinedEnum v => toNumberWithoutSideEffects v
  | .null => some zero
  | .undef => some .nan
  | .regexp _ => some .nan
  | .array0 => some zero
  | .object0 => some .nan
  | .bool b => some (if b then one else zero)
  | .num f => some f
  | .str s => if s.length = 0 then some zero else stringToEquivalentNumberValue s
  | _ => none

/-- ToStringWithoutSideEffects (the `EDot … .constructor` case is outside the modelled operand kinds) -/
def toStringWithoutSideEffects (G : F64 → Int) : Expr → Option (List Nat)
  | .null => some [110, 117, 108, 108]
  | .undef => some [117, 110, 100, 101, 102, 105, 110, 101, 100]
  | .bool b => some (if b then [116, 114, 117, 101] else [102, 97, 108, 115, 101])
  | .bigint t => if t.length < 2 || t[0]? != some 48 then some t else none
  | .num f => tryToStringOnNumberSafely G f
  | .regexp t => some t
  | _ => none

def typeofWithoutSideEffects : Expr → Option (List Nat)
  | .annot v removable => if removable then typeofWithoutSideEffects v else none
  | .inlinedEnum v => typeofWithoutSideEffects v
  | .null => some [111, 98, 106, 101, 99, 116]
  | .undef => some [117, 110, 100, 101, 102, 105, 110, 101, 100]
  | .bool _ => some [98, 111, 111, 108, 101, 97, 110]
  | .num _ => some [110, 117, 109, 98, 101, 114]
  | .bigint _ => some [98, 105, 103, 105, 110, 116]
  | .str _ => some [115, 116, 114, 105, 110, 103]
  | .func => some [102, 117, 110, 99, 116, 105, 111, 110]
  | _ => none

-- ---------------------------------------------------------------- equality, truthiness

/-- the "no radix" test `len(a) < 2 || a[0] != '0'` -/
def noRadix (a : List Nat) : Bool := a.length < 2 || a[0]? != some 48

/-- CheckEqualityBigInt: (equal, ok) -/
def checkEqualityBigInt (a b : List Nat) : Bool × Bool :=
  if a == b then (true, true)
  else if noRadix a && noRadix b then (false, true)
  else (false, false)

/-- ToBooleanWithSideEffects: `none` = not ok, `some (boolean, noSideEffects)` -/
def toBooleanWithSideEffects : Expr → Option (Bool × Bool)
  | .annot v removable =>
    match toBooleanWithSideEffects v with
    | some (b, se) => some (b, if removable then true else se)
    | none => none
  | .inlinedEnum v => toBooleanWithSideEffects v
  | .null => some (false, true)
  | .undef => some (false, true)
  | .bool b => some (b, true)
  | .num f => some (!(ieeeEq f zero) && !(isNaN f), true)
  | .bigint t =>
    let (equal, ok) := checkEqualityBigInt t [48]
    if ok then some (!equal, true) else none
  | .str s => some (decide (s.length > 0), true)
  | .func => some (true, true)
  | .regexp _ => some (true, true)
  | .object0 => some (true, false)
  | .array0 => some (true, false)
  | .ident _ => none

/-- ToNullOrUndefinedWithSideEffects: `none` = not ok, `some (isNullOrUndefined, noSideEffects)` -/
def toNullOrUndefinedWithSideEffects : Expr → Option (Bool × Bool)
  | .annot v removable =>
    match toNullOrUndefinedWithSideEffects v with
    | some (b, se) => some (b, if removable then true else se)
    | none => none
  | .inlinedEnum v => toNullOrUndefinedWithSideEffects v
  | .bool _ | .num _ | .str _ | .regexp _ | .func | .bigint _ => some (false, true)
  | .object0 | .array0 => some (false, false)
  | .null | .undef => some (true, true)
  | .ident _ => none

/-- the recursion of CheckEqualityIfNoSideEffects only peels EInlinedEnum wrappers: first all of them on the
right operand, then all of them on the left one -/
def stripEnum : Expr → Expr
  | .inlinedEnum v => stripEnum v
  | e => e

/-- the `switch l := left.(type)` of CheckEqualityIfNoSideEffects; `none` = not ok -/
def checkEqualityCore (strict : Bool) (l r : Expr) : Option Bool :=
  match l with
  | .null =>
    match r with
    | .null => some true
    | .undef => some (!strict)
    | _ => if isPrimitiveLiteral r then some false else none
  | .undef =>
    match r with
    | .undef => some true
    | .null => some (!strict)
    | _ => if isPrimitiveLiteral r then some false else none
  | .bool lb =>
    match r with
    | .bool rb => some (lb == rb)
    | .num rf =>
      if !strict then (if lb then some (ieeeEq rf one) else some (ieeeEq rf zero)) else some false
    | .null => some false
    | .undef => some false
    | _ => if strict && isPrimitiveLiteral r then some false else none
  | .num lf =>
    match r with
    | .num rf => some (ieeeEq lf rf)
    | .bool rb =>
      if !strict then (if rb then some (ieeeEq lf one) else some (ieeeEq lf zero)) else some false
    | .null => some false
    | .undef => some false
    | _ => if strict && isPrimitiveLiteral r then some false else none
  | .bigint lt =>
    match r with
    | .bigint rt =>
      let (equal, ok) := checkEqualityBigInt lt rt
      if ok then some equal else none
    | .null => some false
    | .undef => some false
    | _ => if strict && isPrimitiveLiteral r then some false else none
  | .str ls =>
    match r with
    | .str rs => some (ls == rs)                 -- helpers.UTF16EqualsUTF16
    | .null => some false
    | .undef => some false
    | _ => if strict && isPrimitiveLiteral r then some false else none
  | _ => none

def checkEqualityIfNoSideEffects (strict : Bool) (l r : Expr) : Option Bool :=
  checkEqualityCore strict (stripEnum l) (stripEnum r)

-- ---------------------------------------------------------------- FoldBinaryOperator

inductive Res
  | notFolded                 -- `Expr{}`
  | folded (e : Expr)
  | panic
  deriving DecidableEq, Repr

def cmpResult (a b : List Nat) (test : Int → Bool) : Res :=
  match stringCompareUCS2 a b with
  | some d => .folded (.bool (test d))
  | none => .panic

def foldBinaryOperator (A : Arith) (G : F64 → Int) (op : Op) (l r : Expr) : Res :=
  let nums := extractNumericValues l r
  let strs := extractStringValues l r
  let numeric (f : F64 → F64 → F64) : Res :=
    match nums with
    | some (a, b) => .folded (.num (f a b))
    | none => .notFolded
  let compare (numTest : F64 → F64 → Bool) (strTest : Int → Bool) : Res :=
    match nums with
    | some (a, b) => .folded (.bool (numTest a b))
    | none =>
      match strs with
      | some (a, b) => cmpResult a b strTest
      | none => .notFolded
  match op with
  | .add =>
    match nums with
    | some (a, b) => .folded (.num (A.add a b))
    | none =>
      match strs with
      | some (a, b) => .folded (.str (a ++ b))           -- joinStrings
      | none => .notFolded
  | .sub => numeric A.sub
  | .mul => numeric A.mul
  | .div => numeric A.div
  | .rem => numeric goMod
  | .pow => numeric (fun a b =>
      if isNaN b || (isInf b && ieeeEq (abs a) one) then .nan else goPow A a b)
  | .shl => numeric (fun a b => ofInt32 (toInt32 G a <<< shiftAmount G b))
  | .shr => numeric (fun a b => ofInt32 ((toInt32 G a).sshiftRight (shiftAmount G b)))
  | .ushr => numeric (fun a b => ofUint32 (toUint32 G a >>> shiftAmount G b))
  | .band => numeric (fun a b => ofInt32 (toInt32 G a &&& toInt32 G b))
  | .bor => numeric (fun a b => ofInt32 (toInt32 G a ||| toInt32 G b))
  | .bxor => numeric (fun a b => ofInt32 (toInt32 G a ^^^ toInt32 G b))
  | .lt => compare ieeeLt (fun d => decide (d < 0))
  | .gt => compare ieeeGt (fun d => decide (d > 0))
  | .le => compare ieeeLe (fun d => decide (d ≤ 0))
  | .ge => compare ieeeGe (fun d => decide (d ≥ 0))
  | .looseEq | .strictEq => compare ieeeEq (fun d => decide (d = 0))
  | .looseNe | .strictNe => compare ieeeNe (fun d => decide (d ≠ 0))
  | .logicalAnd =>
    match toBooleanWithSideEffects l with
    | some (boolean, noSideEffects) =>
      if !boolean then .folded l else if noSideEffects then .folded r else .notFolded
    | none => .notFolded
  | .logicalOr =>
    match toBooleanWithSideEffects l with
    | some (boolean, noSideEffects) =>
      if boolean then .folded l else if noSideEffects then .folded r else .notFolded
    | none => .notFolded
  | .nullish =>
    match toNullOrUndefinedWithSideEffects l with
    | some (isNullOrUndefined, noSideEffects) =>
      if !isNullOrUndefined then .folded l else if noSideEffects then .folded r else .notFolded
    | none => .notFolded
  | .other => .notFolded

-- ---------------------------------------------------------------- ShouldFoldBinaryOperatorWhenMinifying

/-- `f == math.Trunc(f) && math.Abs(f) <= limit` -/
def smallInteger (f : F64) (limit : Nat) : Bool :=
  (match f with
   | .nan => false
   | .inf _ => true
   | .fin _ m e => isIntegral m e) && ieeeLe (abs f) (.fin false limit 0)

/-- Go `int` addition wraps at 64 bits -/
def wrap64 (x : Int) : Int := (x + 2 ^ 63) % 2 ^ 64 - 2 ^ 63

/-- `cnt` is approximatePrintedIntCharCount, a floating-point estimate (`math.Log10`) that the model does not
compute: it is a parameter -/
def shouldFoldBinaryOperatorWhenMinifying (cnt : F64 → Int) (G : F64 → Int) (op : Op) (l r : Expr) : Bool :=
  match op with
  | .looseEq | .looseNe | .strictEq | .strictNe | .shr | .band | .bor | .bxor | .lt | .gt | .le | .ge => true
  | .add =>
    (match extractNumericValues l r with
     | some (a, b) => smallInteger a 4294967295 && smallInteger b 4294967295
     | none => false)
    || (extractStringValues l r).isSome
  | .sub =>
    match extractNumericValues l r with
    | some (a, b) => smallInteger a 4294967295 && smallInteger b 4294967295
    | none => false
  | .mul =>
    match extractNumericValues l r with
    | some (a, b) => smallInteger a 255 && smallInteger b 255
    | none => false
  | .div =>
    match extractNumericValues l r with
    | some (_, b) => ieeeEq b zero
    | none => false
  | .shl =>
    match extractNumericValues l r with
    | some (a, b) =>
      let resultLen := cnt (ofInt32 (toInt32 G a <<< shiftAmount G b))
      decide (resultLen ≤ wrap64 (wrap64 (cnt a + 2) + cnt b))
    | none => false
  | .ushr =>
    match extractNumericValues l r with
    | some (a, b) =>
      let resultLen := cnt (ofUint32 (toUint32 G a >>> shiftAmount G b))
      decide (resultLen ≤ wrap64 (wrap64 (cnt a + 3) + cnt b))
    | none => false
  | .logicalAnd | .logicalOr | .nullish => isPrimitiveLiteral l
  | _ => false

-- ---------------------------------------------------------------- unary operators (js_parser.go, visitExprInOut)

/-- HelperContext.ExprCanBeRemovedIfUnused on the modelled operand kinds (`ident` = an unbound identifier) -/
def exprCanBeRemovedIfUnused : Expr → Bool
  | .annot _ removable => removable
  | .inlinedEnum v => exprCanBeRemovedIfUnused v
  | .ident _ => false
  | _ => true

def isUnsightlyPrimitive : Expr → Bool
  | .bool _ | .null | .undef | .num _ | .bigint _ | .str _ => true
  | _ => false

/-- HelperContext.SimplifyBooleanExpr on the modelled operand kinds: only its `default:` case applies
("!![]" => "true") -/
def simplifyBooleanExpr (v : Expr) : Expr :=
  match toBooleanWithSideEffects v with
  | some (boolean, noSideEffects) =>
    if noSideEffects || exprCanBeRemovedIfUnused v then .bool boolean else v
  | none => v

/-- the post-processing of a unary expression whose operand `v` has been visited; `fold` =
`p.shouldFoldTypeScriptConstantExpressions || p.options.minifySyntax`; `none` = the EUnary node stays -/
def foldUnary (G : F64 → Int) (minifySyntax fold : Bool) (op : UOp) (v : Expr) : Option Expr :=
  match op with
  | .typeof => (typeofWithoutSideEffects v).map .str
  | .not =>
    let v := if minifySyntax then simplifyBooleanExpr v else v
    match toBooleanWithSideEffects v with
    | some (boolean, true) => some (.bool (!boolean))
    | _ => none           -- MaybeSimplifyNot has no further case for the modelled operand kinds
  | .void =>
    let shouldRemove := if minifySyntax then exprCanBeRemovedIfUnused v else isUnsightlyPrimitive v
    if shouldRemove then some .undef else none
  | .pos => (toNumberWithoutSideEffects v).map .num
  | .neg => (toNumberWithoutSideEffects v).map (fun n => .num (neg n))
  | .cpl =>
    if fold then (toNumberWithoutSideEffects v).map (fun n => .num (ofInt32 (~~~ (toInt32 G n)))) else none

-- ---------------------------------------------------------------- wire

open Wire in
/-- one token: wrappers are prefixes (`e` EInlinedEnum, `a` / `p` EAnnotation with / without the removable flag);
atoms: `N` null, `U` undefined, `T` / `F` booleans, `n<16 hex>` number bits, `s<hex UTF-16 units>`, `b<hex bytes>`
bigint text, `r<hex bytes>` regexp text, `A` `[]`, `O` `{}`, `L` function, `i<k>` identifier -/
def parseExprChars : List Char → Option Expr
  | 'e' :: rest => (parseExprChars rest).map .inlinedEnum
  | 'a' :: rest => (parseExprChars rest).map (fun v => .annot v true)
  | 'p' :: rest => (parseExprChars rest).map (fun v => .annot v false)
  | ['N'] => some .null
  | ['U'] => some .undef
  | ['T'] => some (.bool true)
  | ['F'] => some (.bool false)
  | ['A'] => some .array0
  | ['O'] => some .object0
  | ['L'] => some .func
  | 'n' :: hex =>
    match parseHexUnits 16 (String.ofList hex) with
    | some [b] => some (.num (ofBits b))
    | _ => none
  | 's' :: hex => (parseHexUnits 4 (String.ofList hex)).map .str
  | 'b' :: hex => (parseHexUnits 2 (String.ofList hex)).map .bigint
  | 'r' :: hex => (parseHexUnits 2 (String.ofList hex)).map .regexp
  | 'i' :: ds => (String.ofList ds).toNat?.map .ident
  | _ => none

def parseExpr (s : String) : Option Expr := parseExprChars s.toList

open Wire in
def showExpr : Expr → String
  | .null => "N"
  | .undef => "U"
  | .bool true => "T"
  | .bool false => "F"
  | .num f => "n" ++ hexUnit 16 (toBits f)
  | .str s => "s" ++ hexUnits 4 s
  | .bigint t => "b" ++ hexUnits 2 t
  | .regexp t => "r" ++ hexUnits 2 t
  | .array0 => "A"
  | .object0 => "O"
  | .func => "L"
  | .ident i => "i" ++ toString i
  | .inlinedEnum v => "e" ++ showExpr v
  | .annot v true => "a" ++ showExpr v
  | .annot v false => "p" ++ showExpr v

def showRes : Res → String
  | .notFolded => "none"
  | .folded e => showExpr e
  | .panic => "PANIC"

def parseOp : String → Option Op
  | "add" => some .add | "sub" => some .sub | "mul" => some .mul | "div" => some .div
  | "rem" => some .rem | "pow" => some .pow
  | "shl" => some .shl | "shr" => some .shr | "ushr" => some .ushr
  | "band" => some .band | "bor" => some .bor | "bxor" => some .bxor
  | "lt" => some .lt | "gt" => some .gt | "le" => some .le | "ge" => some .ge
  | "looseEq" => some .looseEq | "strictEq" => some .strictEq
  | "looseNe" => some .looseNe | "strictNe" => some .strictNe
  | "logicalAnd" => some .logicalAnd | "logicalOr" => some .logicalOr | "nullish" => some .nullish
  | "other" => some .other
  | _ => none

def parseUOp : String → Option UOp
  | "pos" => some .pos | "neg" => some .neg | "cpl" => some .cpl
  | "not" => some .not | "typeof" => some .typeof | "void" => some .void
  | _ => none

/-- amd64: an out-of-range conversion gives the "integer indefinite" value −2^31 -/
def driverG : F64 → Int := fun _ => -2147483648

def showOptBytes : Option (List Nat) → String
  | some l => "=" ++ Wire.hexUnits 2 l
  | none => "none"

def showOptNum : Option F64 → String
  | some f => Wire.hexUnit 16 (toBits f)
  | none => "none"

def showPair : Option (Bool × Bool) → String
  | some (b, se) => toString b ++ "," ++ toString se
  | none => "none"

open Wire in
def driver (args : List String) : String :=
  match args with
  | ["bin", op, l, r, oracle] =>
    match parseOp op, parseExpr l, parseExpr r with
    | some op, some l, some r =>
      let powOracle : Option F64 :=
        if oracle = "-" then some .nan
        else match parseHexUnits 16 oracle with
          | some [b] => some (ofBits b)
          | _ => none
      match powOracle with
      | some o => showRes (foldBinaryOperator (Arith.exact o) driverG op l r)
      | none => "bad-op"
    | _, _, _ => "bad-op"
  | ["should", op, l, r, cl, cr, cres] =>
    match parseOp op, parseExpr l, parseExpr r, parseInt cl, parseInt cr, parseInt cres with
    | some op, some l, some r, some cl, some cr, some cres =>
      let cnt : F64 → Int := fun f =>
        match extractNumericValues l r with
        | some (a, b) => if toBits f = toBits a then cl else if toBits f = toBits b then cr else cres
        | none => 0
      toString (shouldFoldBinaryOperatorWhenMinifying cnt driverG op l r)
    | _, _, _, _, _, _ => "bad-op"
  | ["eq", kind, l, r] =>
    match parseExpr l, parseExpr r with
    | some l, some r =>
      if kind = "strict" ∨ kind = "loose" then
        match checkEqualityIfNoSideEffects (kind = "strict") l r with
        | some b => toString b
        | none => "unknown"
      else "bad-op"
    | _, _ => "bad-op"
  | ["tonum", e] => match parseExpr e with
    | some e => showOptNum (toNumberWithoutSideEffects e)
    | none => "bad-op"
  | ["tostr", e] => match parseExpr e with
    | some e => showOptBytes (toStringWithoutSideEffects driverG e)
    | none => "bad-op"
  | ["typeof", e] => match parseExpr e with
    | some e => showOptBytes (typeofWithoutSideEffects e)
    | none => "bad-op"
  | ["tobool", e] => match parseExpr e with
    | some e => showPair (toBooleanWithSideEffects e)
    | none => "bad-op"
  | ["tonull", e] => match parseExpr e with
    | some e => showPair (toNullOrUndefinedWithSideEffects e)
    | none => "bad-op"
  | ["prim", e] => match parseExpr e with
    | some e => toString (isPrimitiveLiteral e)
    | none => "bad-op"
  | ["s2n", hex] => match parseHexUnits 4 hex with
    | some u => showOptNum (stringToEquivalentNumberValue u)
    | none => "bad-op"
  | ["trystr", bits] => match parseHexUnits 16 bits with
    | some [b] => showOptBytes (tryToStringOnNumberSafely driverG (ofBits b))
    | _ => "bad-op"
  | ["un", op, minify, e] =>
    match parseUOp op, parseExpr e with
    | some op, some e =>
      if minify = "1" ∨ minify = "0" then
        match foldUnary driverG (minify = "1") (minify = "1") op e with
        | some r => showExpr r
        | none => "none"
      else "bad-op"
    | _, _ => "bad-op"
  | _ => "bad-op"

end EsbuildModel.Fold
