import EsbuildModel.Impl.Pieces
/-
Model of the FINAL chunk hash pre-image (internal/linker/linker.go:
`appendIsolatedHashesForImportedChunks`, called from `generateChunksInParallel` with a fresh
`visitedKey` per chunk).

The Go routine is a depth-first traversal over `chunk.crossChunkImports` that marks a chunk when it is
entered and, after all imported chunks have been handled, feeds to the hash
  * `hashWriteLengthPrefixed(relPath)` for every asset piece of the chunk, in piece order, and then
  * the chunk's isolated hash (`hash.Write(chunk.waitForIsolatedHash())`).
The model splits this into the post-order `order` (which chunks are fed, in which sequence) and the
bytes `block` each one contributes; `finalPreimage` is their concatenation.  A chunk index that is out
of range makes the Go code panic (index out of range): the model returns `none`.
-/
namespace EsbuildModel.ChunkHash
open EsbuildModel.Pieces

structure Chunk where
  imports : List Nat          -- crossChunkImports[i].chunkIndex, in order
  assets : List (List Nat)    -- relative paths of the chunk's asset pieces, in piece order
  iso : List Nat              -- the isolated hash bytes
deriving Repr

/-- State of the traversal: chunks marked so far (most recent first) and the post-order so far. -/
structure St where
  visited : List Nat
  order : List Nat
deriving Repr

/-- a loop `for _, j := range js { f(j) }` over a partial step function -/
def visitList (f : Nat → St → Option St) : List Nat → St → Option St
  | [], st => some st
  | j :: js, st =>
    match f j st with
    | none => none
    | some st' => visitList f js st'

/-- `appendIsolatedHashesForImportedChunks` for one chunk; `fuel` bounds the recursion depth. -/
def visit (cs : List Chunk) : Nat → Nat → St → Option St
  | 0, _, _ => none
  | fuel + 1, i, st =>
    if st.visited.contains i then some st
    else
      match cs[i]? with
      | none => none
      | some c =>
        match visitList (visit cs fuel) c.imports { st with visited := i :: st.visited } with
        | none => none
        | some st' => some { st' with order := st'.order ++ [i] }

/-- bytes one chunk contributes when it is fed to the hash -/
def block (c : Chunk) : List Nat := c.assets.flatMap lenPrefixed ++ c.iso

def blocks (cs : List Chunk) (order : List Nat) : List Nat :=
  order.flatMap fun i => match cs[i]? with | some c => block c | none => []

/-- chunks whose blocks are fed to the hash of chunk `i`, in feeding order -/
def order (cs : List Chunk) (i : Nat) : Option (List Nat) :=
  (visit cs (cs.length + 1) i { visited := [], order := [] }).map (·.order)

/-- everything fed to the hash that names chunk `i` -/
def finalPreimage (cs : List Chunk) (i : Nat) : Option (List Nat) :=
  (order cs i).map (blocks cs)

-- ---------------------------------------------------------------- driver
open Wire

/-- chunk syntax: `imports/assets/iso` with imports a comma list ("-" empty), assets hex strings
separated by "+" ("-" none), iso hex -/
def parseChunk (s : String) : Option Chunk :=
  match s.splitOn "/" with
  | [im, as, iso] => do
    let im ← parseNatList im
    let as ← if as = "-" then some [] else (as.splitOn "+").mapM (parseHexUnits 2)
    let iso ← parseHexUnits 2 iso
    pure { imports := im, assets := as, iso := iso }
  | _ => none

def driver (args : List String) : String :=
  match args with
  | ["final", chunks, idx] =>
    match (if chunks = "." then some [] else (chunks.splitOn " ").mapM parseChunk), parseNat idx with
    | some cs, some i =>
      match finalPreimage cs i with
      | some b => hexUnits 2 b
      | none => "PANIC"
    | _, _ => "bad-op"
  | _ => "bad-op"

end EsbuildModel.ChunkHash
