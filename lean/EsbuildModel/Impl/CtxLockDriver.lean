/-
Conformance driver of the lock-level context model (kernel `ctxlock`).

The harness drives a REAL api.Context from several goroutines and records, in real-time order, the observable
events: call start, call return (with what was returned), start and end of every build (on-start / on-end callback,
and whether the result carries "The build was canceled"). The driver decides whether the recorded history is a trace
of the model: it searches for a schedule of `step` whose observable steps — thread creation (`Action.call`), the
`halt` of a caller thread, `buildBegin`, `buildEnd` — are exactly the events, in that order. Every step taken is a
step of `stepT codeGen`, so an "ok" answer is a genuine trace; the search order / pruning only affects completeness:
  * purely thread-local instructions are executed eagerly,
  * a thread inside a critical section of ctx.mutex runs before the others,
  * HTTP connections are not generated (the harness makes none).
-/
import EsbuildModel.Impl.CtxLockSem
import EsbuildModel.Util.Wire
import Std.Data.HashSet
namespace EsbuildModel.CtxLock
open EsbuildModel.Gen.CtxLock (Mu Wg Fld Fn Cnd Tok)

inductive Ev where
  | call (id : Nat) (m : Method)
  | ret (id : Nat) (v : String)
  | bstart (k : Nat)
  | bend (k : Nat) (cancelled : Bool)
deriving Repr

def parseMethod : String → Option Method
  | "R" => some .rebuild | "C" => some .cancel | "D" => some .dispose | "W" => some .watch | "S" => some .serve
  | _ => none

def parseEv (x : String) : Option Ev :=
  let tag := (x.take 1).toString
  let rest := (x.drop 1).toString
  match tag, rest.splitOn ":" with
  | "c", [id, m] => do some (.call (← id.toNat?) (← parseMethod m))
  | "r", [id, v] => do some (.ret (← id.toNat?) v)
  | "s", [k] => do some (.bstart (← k.toNat?))
  | "e", [k, c] => do some (.bend (← k.toNat?) (c == "1"))
  | _, _ => none

def retMatches (r : Ret) (v : String) : Bool :=
  match r with
  | .none => v == "-"
  | .empty => v == "e"
  | .err => v == "err"
  | .ok => v == "ok"
  | .full b => v == s!"b{b}"
  | .partialOf _ => false

-- ------------------------------------------------------------------ compaction and keys

instance : Hashable Ret where
  hash
    | .none => 1 | .empty => 2 | .err => 3 | .ok => 4 | .partialOf b => mixHash 5 (hash b) | .full b => mixHash 6 (hash b)

structure Key where
  ei : Nat
  ids : List Nat
  scal : List Nat
  ths : List (List Nat)
  objs : List (List Nat)
deriving BEq, Hashable

def optN : Option Nat → Nat
  | none => 0 | some k => k + 1
def bN (b : Bool) : Nat := if b then 1 else 0

def retN : Ret → Nat
  | .none => 0 | .empty => 1 | .err => 2 | .ok => 3 | .partialOf b => 4 + 2 * b | .full b => 5 + 2 * b

def threadKey (th : Thread) : List Nat :=
  [th.pc, bN th.fin, optN th.lb, optN th.lrec, optN th.lw, optN th.sw, optN th.lh, optN th.sh, bN th.err, th.fuel, retN th.ret]

def stateKey (s : State) (ei : Nat) (ids : List Nat) : Key :=
  { ei := ei, ids := ids,
    scal := [bN s.panic, bN s.disposed, optN s.active, optN s.recent, optN s.watcher, optN s.handler, s.nbuilds, s.nwatchers,
             s.nhandlers, s.nthreads, optN (s.mu .ctx)],
    ths := (List.range s.nthreads).map fun t => threadKey (s.threads t),
    objs := ((List.range s.nbuilds).map fun b =>
               let x := s.builds b; [x.wg, bN x.cancel, x.work, bN x.begun, bN x.ended, bN x.written, bN x.sawCancel]) ++
            ((List.range s.nwatchers).map fun w => let x := s.watchers w; [x.wg, bN x.stop, optN (s.mu (.watcher w))]) ++
            ((List.range s.nhandlers).map fun h =>
               let x := s.handlers h; [x.serveWg, x.hackWg, bN x.hackDone, bN x.hackErr, bN x.sStop, bN x.closed,
                                       optN (s.mu (.handler h)), optN (s.mu (.hack h))]) }

/-- the same state with its tables stored in arrays (entries outside the allocated ranges are never written by `step`,
so they are the defaults) -/
def compact (s : State) : State :=
  let ta := Array.ofFn (n := s.nthreads) fun i => s.threads i
  let ba := Array.ofFn (n := s.nbuilds) fun i => s.builds i
  let wa := Array.ofFn (n := s.nwatchers) fun i => s.watchers i
  let ha := Array.ofFn (n := s.nhandlers) fun i => s.handlers i
  let mc := s.mu .ctx
  let mw := Array.ofFn (n := s.nwatchers) fun i => s.mu (.watcher i)
  let mh := Array.ofFn (n := s.nhandlers) fun i => s.mu (.handler i)
  let mk := Array.ofFn (n := s.nhandlers) fun i => s.mu (.hack i)
  { s with threads := fun i => ta.getD i {}, builds := fun i => ba.getD i {}, watchers := fun i => wa.getD i {},
           handlers := fun i => ha.getD i {},
           mu := fun m => match m with
             | .ctx => mc | .watcher i => mw.getD i none | .handler i => mh.getD i none | .hack i => mk.getD i none }

-- ------------------------------------------------------------------ moves

/-- instructions that the search executes as soon as they are enabled (it never tries to delay them): everything
except taking ctx.mutex and the heads of the two daemon loops (watcher, server). Executing them early only commutes with or
enables the steps of other threads: counters that reached 0 stay 0, flags are only ever set, critical sections of the other
mutexes contain no blocking step. (Completeness heuristic only; see the header.) -/
def isLocal : Instr → Bool
  | .lock .ctx => false
  | .br (.gen .wNotStopped) _ | .br .srvLoop _ | .br .moreWork _ => false   -- (the build may wait for a Cancel)
  | _ => true

def usesBit : Instr → Bool
  | .br (.gen .other) _ | .br .bounded _ | .br .srvLoop _ | .act .buildStep => true
  | _ => false

def codeArr : Array Instr := codeGen.toArray

/-- the choices the search tries for thread `t` at instruction `i` -/
def bitsFor (s : State) (pc : Nat) (i : Instr) : List Bool :=
  match i, codeArr[pc + 1]?, codeArr[pc - 1]? with
  | .br (.gen .other) _, some (.spawn _), _ => [false]   -- no HTTP connection arrives
  | .br (.gen .other) _, _, some (.unlock (.watcher .sw)) =>
    -- the watcher's "found a dirty path": only tried when its rebuild would start a build (otherwise it has no visible effect)
    if s.active.isNone && !s.disposed then [false, true] else [false]
  | _, _, _ => if usesBit i then [false, true] else [false]

def isObservable (th : Thread) : Instr → Bool
  | .act .buildBegin | .act .buildEnd => true
  | .halt => th.meth.isSome
  | _ => false

def stepsOf (s : State) (t : Nat) (i : Instr) : List State :=
  (bitsFor s (s.threads t).pc i).filterMap fun bit => (stepT codeGen s t bit 1).map compact

structure Node where
  s : State
  ei : Nat
  ids : List Nat   -- thread of the call with harness id k, in reverse order of creation

def liveThreads (s : State) : List (Nat × Instr) :=
  (List.range s.nthreads).filterMap fun t =>
    let th := s.threads t
    if th.fin then none else (codeArr[th.pc]?).map fun i => (t, i)

def tidOf (ids : List Nat) (id : Nat) : Option Nat := ids[ids.length - 1 - id]?

/-- the successor for the next event, if the model can do it now -/
def observableMove (nd : Node) (ev : Ev) (live : List (Nat × Instr)) : List Node :=
  match ev with
  | .call id m =>
    if id != nd.ids.length then [] else
    match step codeGen nd.s (.call m 1) with
    | some s' => [{ s := compact s', ei := nd.ei + 1, ids := nd.s.nthreads :: nd.ids }]
    | none => []
  | .ret id v =>
    match tidOf nd.ids id with
    | none => []
    | some t =>
      let th := nd.s.threads t
      if th.fin then [] else
      match codeArr[th.pc]? with
      | some .halt =>
        if retMatches th.ret v then (stepsOf nd.s t .halt).map fun s' => { nd with s := s', ei := nd.ei + 1 } else []
      | _ => []
  | .bstart k =>
    live.flatMap fun (t, i) =>
      if i == .act .buildBegin && (nd.s.threads t).lb == some k then
        (stepsOf nd.s t i).map fun s' => { nd with s := s', ei := nd.ei + 1 }
      else []
  | .bend k c =>
    live.flatMap fun (t, i) =>
      if i == .act .buildEnd && (nd.s.threads t).lb == some k && (nd.s.builds k).sawCancel == c then
        (stepsOf nd.s t i).map fun s' => { nd with s := s', ei := nd.ei + 1 }
      else []

def firstEager (s : State) : List (Nat × Instr) → List State
  | [] => []
  | (t, i) :: rest =>
    if isLocal i && !isObservable (s.threads t) i then
      match stepsOf s t i with
      | [] => firstEager s rest
      | ss => ss
    else firstEager s rest

def moves (evs : Array Ev) (nd : Node) : List Node :=
  let s := nd.s
  let live := liveThreads s
  -- 1. an eager instruction of some thread: run it, nothing else
  match firstEager s live with
  | s' :: ss => (s' :: ss).map fun s' => { nd with s := s' }
  | [] =>
    let obs := match evs[nd.ei]? with
      | some ev => observableMove nd ev live
      | none => []
    -- 2. the branching points: who takes ctx.mutex next, do the daemon loops go round again
    -- (the goroutine that clears ctx.recentBuild after 250 ms is never scheduled: nothing visible depends on it)
    let internal := live.filter fun (t, i) =>
      !isObservable (s.threads t) i &&
      !(match codeArr[(s.threads t).pc + 1]? with | some (.br (.gen .recentIsMine) _) => true | _ => false)
    obs ++ internal.flatMap fun (t, i) => (stepsOf s t i).map fun s' => { nd with s := s' }

structure Search where
  stack : List Node
  seen : Std.HashSet Key
  best : Nat := 0
  found : Bool := false
  count : Nat := 0

def searchLoop (evs : Array Ev) : Nat → Search → Search
  | 0, st => st
  | fuel + 1, st =>
    match st.stack with
    | [] => st
    | nd :: rest =>
      if nd.s.panic then searchLoop evs fuel { st with stack := rest } else
      if nd.ei ≥ evs.size then { st with found := true, stack := [] } else
      let key := stateKey nd.s nd.ei nd.ids
      if st.seen.contains key then searchLoop evs fuel { st with stack := rest } else
      let best := if nd.ei > st.best then nd.ei else st.best
      searchLoop evs fuel { stack := moves evs nd ++ rest, seen := st.seen.insert key, best := best, found := false, count := st.count + 1 }

def searchLimit : Nat := 400000

def showEv : Ev → String
  | .call id m => s!"call {id} {repr m}"
  | .ret id v => s!"return {id} {v}"
  | .bstart k => s!"build {k} starts"
  | .bend k c => s!"build {k} ends (cancelled={c})"

/-- `ctxlock <events>` → "ok" when the history is a trace of the model -/
def driver (args : List String) : String :=
  match args with
  | [evs] =>
    match (if evs = "-" then some [] else (evs.splitOn ",").mapM parseEv) with
    | none => "bad-op"
    | some es =>
      let ea := es.toArray
      let st := searchLoop ea searchLimit { stack := [{ s := init, ei := 0, ids := [] }], seen := {} }
      if st.found then "ok"
      else if !st.stack.isEmpty then s!"search-limit after {st.count} states (event {st.best})"
      else match ea[st.best]? with
        | some ev => s!"NOT-A-TRACE: the model cannot do event {st.best} ({showEv ev})"
        | none => "NOT-A-TRACE"
  | _ => "bad-op"

end EsbuildModel.CtxLock
