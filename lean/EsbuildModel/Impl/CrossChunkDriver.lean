/-
Line protocol of kernel `crosschunk` (see harness/cmd/hinternal/k_crosschunk.go).

  crosschunk <minify 0|1> <syms> <files> <chunks>

Each of the last three arguments is one comma separated list of naturals; lists are length-prefixed, names are
length-prefixed code point lists, refs are two numbers, optional refs `0` or `1 a b`.
Answer: `hyp=… decl=… | <chunk 0> | <chunk 1> …` (or PANIC / bad-op).  `hyp=ok` says that the graph meets the
decidable hypotheses of the theorems in Props/C10CrossChunk.lean; the harness always expects `ok`, so a real
build that leaves the hypotheses shows up as a disagreement.
-/
import EsbuildModel.Impl.CrossChunk
namespace EsbuildModel.CrossChunk

-- ---------------------------------------------------------------- parsing

abbrev P (α : Type) := List Nat → Option (α × List Nat)

def pNat : P Nat
  | x :: r => some (x, r)
  | [] => none

def pBool : P Bool
  | 0 :: r => some (false, r)
  | 1 :: r => some (true, r)
  | _ => none

def pRef : P Ref
  | a :: b :: r => some ((a, b), r)
  | _ => none

def pOptRef : P (Option Ref)
  | 0 :: r => some (none, r)
  | 1 :: a :: b :: r => some (some (a, b), r)
  | _ => none

def pMany {α : Type} (p : P α) : Nat → P (List α)
  | 0, r => some ([], r)
  | n + 1, r =>
    match p r with
    | none => none
    | some (a, r') =>
      match pMany p n r' with
      | none => none
      | some (as, r'') => some (a :: as, r'')

def pList {α : Type} (p : P α) : P (List α)
  | n :: r => pMany p n r
  | [] => none

def pSym : P Sym := fun r => do
  let (ref, r) ← pRef r
  let (unbound, r) ← pBool r
  let (missing, r) ← pBool r
  let (ns, r) ← pOptRef r
  let (name, r) ← pList pNat r
  let (link, r) ← pOptRef r
  some ({ ref, unbound, missing, ns, name, link }, r)

def pPart : P Part := fun r => do
  let (live, r) ← pBool r
  let (declared, r) ← pList pRef r
  let (uses, r) ← pList pRef r
  let (dyn, r) ← pList pNat r
  some ({ live, declared, uses, dyn }, r)

def pBind : P (Ref × Ref) := fun r => do
  let (a, r) ← pRef r
  let (b, r) ← pRef r
  some ((a, b), r)

def pExport : P (Name × Nat × Ref) := fun r => do
  let (alias, r) ← pList pNat r
  let (src, r) ← pNat r
  let (ref, r) ← pRef r
  some ((alias, src, ref), r)

def pFile : P File := fun r => do
  let (src, r) ← pNat r
  let (stable, r) ← pNat r
  let (isJS, r) ← pBool r
  let (wrap, r) ← pNat r
  let (wrapperRef, r) ← pRef r
  let (exportsRef, r) ← pRef r
  let (force, r) ← pBool r
  let (entryChunk, r) ← pNat r
  let (binds, r) ← pList pBind r
  let (exports, r) ← pList pExport r
  let (copies, r) ← pList pRef r
  let (parts, r) ← pList pPart r
  if wrap > 2 then none else
  some ({ src, stable, isJS, wrap, wrapperRef, exportsRef, force, entryChunk, binds, exports, copies, parts }, r)

def pChunk : P Chunk := fun r => do
  let (js, r) ← pBool r
  let (files, r) ← pList pNat r
  let (isEntry, r) ← pBool r
  let (entrySrc, r) ← pNat r
  let (entryBit, r) ← pNat r
  let (bits, r) ← pList pNat r
  some ({ js, files, isEntry, entrySrc, entryBit, bits }, r)

/-- the whole argument must be consumed -/
def pAll {α : Type} (p : P α) (s : String) : Option α :=
  match Wire.parseNatList s with
  | none => none
  | some l =>
    match p l with
    | some (a, []) => some a
    | _ => none

-- ---------------------------------------------------------------- decidable hypotheses

/-- every (symbol, chunk) pair of the first phase's `ChunkIndex` writes -/
def allDeclared (g : G) : List (Ref × Nat) :=
  g.chunks.zipIdx.flatMap fun x => (chunkDeclared g x.1).map fun r => (r, x.2)

/-- no symbol is declared by live parts of two different chunks (otherwise the goroutines race on ChunkIndex) -/
def declUniqueB (g : G) : Bool :=
  let d := allDeclared g
  d.all fun a => d.all fun b => a.1 != b.1 || a.2 == b.2

/-- a chunk that is not a JavaScript chunk holds no JavaScript file -/
def nonJSChunksB (g : G) : Bool :=
  g.chunks.all fun c => c.js || c.files.all fun s =>
    match g.file? s with
    | some f => !f.isJS
    | none => true

def stableInjB (g : G) : Bool :=
  g.files.all fun a => g.files.all fun b => a.stable != b.stable || a.src == b.src

/-- every symbol an entry chunk's tail needs is a top-level symbol of some live part -/
def tailDeclaredB (g : G) : Bool :=
  g.chunks.all fun c =>
    match chunkTail g c with
    | some t => (tailNeeds t).all fun r => (declChunk g r).isSome
    | none => true

def follow (g : G) : Nat → Ref → Ref
  | 0, r => r
  | k + 1, r =>
    match g.sym? r with
    | some s =>
      match s.link with
      | some l => follow g k l
      | none => r
    | none => r

/-- a used symbol that is itself declared nowhere but is linked to a symbol declared in another chunk would be
printed under a name that is not bound in the using chunk unless that other symbol is imported -/
def linksB (g : G) : Bool :=
  g.chunks.zipIdx.all fun x =>
    match chunkImports g x.1 with
    | none => true
    | some imps => imps.all fun s =>
      let r := follow g g.syms.length s
      r == s || (declChunk g s).isSome ||
        match declChunk g r with
        | none => true
        | some b => b == x.2 || imps.contains r

def hyp (g : G) : String :=
  let bad := (if declUniqueB g then [] else ["decl-unique"]) ++ (if nonJSChunksB g then [] else ["nonjs-chunk"]) ++
    (if stableInjB g then [] else ["stable-inj"]) ++ (if tailDeclaredB g then [] else ["tail-declared"]) ++
    (if linksB g then [] else ["links"])
  if bad.isEmpty then "ok" else "+".intercalate bad

-- ---------------------------------------------------------------- rendering

def showRef (r : Ref) : String := s!"{r.1}_{r.2}"
def showName (n : Name) : String := String.ofList (n.map Char.ofNat)
def showItem (x : Ref × Name) : String := showRef x.1 ++ "=" ++ showName x.2
def orDash (sep : String) (l : List String) : String := if l.isEmpty then "-" else sep.intercalate l

def showImports (l : List (Nat × List (Ref × Name))) : String :=
  orDash ";" (l.map fun e => toString e.1 ++ ":" ++ "+".intercalate (e.2.map showItem))

def showTok : TailTok → String
  | .ref r => showRef r
  | .decl r => "v" ++ showRef r
  | .item r a => showItem (r, a)
  | .itemLocal r a => showItem (r, a)

def refLe (a b : Ref × Name) : Bool := a.1.1 < b.1.1 || (a.1.1 == b.1.1 && a.1.2 ≤ b.1.2)

def showChunk (o : ChunkOut) : String :=
  "imp=" ++ showImports o.imports ++ " exp=" ++ orDash "+" (o.exports.map showItem) ++
  " map=" ++ orDash "+" ((sortBy refLe o.exports).map showItem) ++
  " cci=" ++ orDash "," (o.cci.map fun x => (if x.1 then "d" else "s") ++ toString x.2) ++
  " tail=" ++ orDash "," (o.tail.map showTok)

def showDecl (g : G) : String :=
  orDash "," (g.syms.filterMap fun s => (declChunk g s.ref).map fun c => showRef s.ref ++ ":" ++ toString c)

def render (g : G) : String :=
  match run g with
  | none => "PANIC"
  | some outs => " | ".intercalate (("hyp=" ++ hyp g ++ " decl=" ++ showDecl g) :: outs.map showChunk)

def driver (args : List String) : String :=
  match args with
  | [minify, syms, files, chunks] =>
    match pAll pBool minify, pAll (pList pSym) syms, pAll (pList pFile) files, pAll (pList pChunk) chunks with
    | some minify, some syms, some files, some chunks => render { minify, syms, files, chunks }
    | _, _, _, _ => "bad-op"
  | _ => "bad-op"

end EsbuildModel.CrossChunk
