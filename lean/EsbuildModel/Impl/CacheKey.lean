import EsbuildModel.Gen.CacheKey
/-
Model of the AST cache of an incremental build context (internal/cache/cache_ast.go: `JSCache.Parse`)
and of the structural part of its key (`js_parser.Options.Equal`), over the field lists regenerated
from the source.
-/
namespace EsbuildModel.CacheKey

/-- Is the option value at `path` (first component `h`), as read by the parser, distinguished by `Equal`?
* `h` is a field of the struct compared with `!=`, or
* `Equal` mentions exactly this path (`a.jsx.Parse`), or
* `Equal` mentions the whole field (`a.dropLabels`, `len(a.injectedFiles)`), or
* the field is documented as ignored ("defines": same contents for every build of a context). -/
def covered (structural equalPaths ignored : List String) (p : String × String) : Bool :=
  structural.contains p.1 || ignored.contains p.1 || equalPaths.contains p.2 || equalPaths.contains p.1

/-- the paths that are option fields at all (other objects also have a field called `options`) -/
def relevant (fields structural : List String) (paths : List (String × String)) : List (String × String) :=
  paths.filter fun p => fields.contains p.1 || structural.contains p.1

def uncovered (fields structural equalPaths ignored : List String) (readPaths : List (String × String)) : List (String × String) :=
  (relevant fields structural readPaths).filter fun p => !covered structural equalPaths ignored p

/-! ### the cache as a state machine -/

/-- abstract cache entry: the source text, the options it was parsed with, the resulting AST -/
structure Entry (Src Opt Ast : Type) where
  src : Src
  opt : Opt
  ast : Ast

/-- `JSCache.Parse`: hit iff the stored entry has the same source and `Equal` options -/
def parseCached {Src Opt Ast : Type} [DecidableEq Src] (equal : Opt → Opt → Bool) (parse : Src → Opt → Ast)
    (entry : Option (Entry Src Opt Ast)) (src : Src) (opt : Opt) : Ast × Option (Entry Src Opt Ast) :=
  match entry with
  | some e => if e.src = src ∧ equal e.opt opt = true then (e.ast, some e)
              else (parse src opt, some ⟨src, opt, parse src opt⟩)
  | none => (parse src opt, some ⟨src, opt, parse src opt⟩)

end EsbuildModel.CacheKey
