import EsbuildModel.Util.Wire
/-
Model of `compactHex`, `expandHex`, `parseHex` (internal/css_parser/css_decls_color.go).
A 32-bit colour 0xRRGGBBAA is modelled as its four bytes, a 16-bit short colour 0xRGBA as its four
nibbles (so that all arithmetic stays small); `ofU32`/`toU32` convert. `#rgba` stands for `#rrggbbaa`
(CSS Color 4 §5.2).
-/
namespace EsbuildModel.CssHex

structure Bytes where
  r : Nat
  g : Nat
  b : Nat
  a : Nat
  deriving DecidableEq, Repr

def ofU32 (v : Nat) : Bytes := ⟨v / 16777216 % 256, v / 65536 % 256, v / 256 % 256, v % 256⟩
def toU32 (x : Bytes) : Nat := x.r * 16777216 + x.g * 65536 + x.b * 256 + x.a

/-- `compactHex`: `((v & 0x0FF00000) >> 12) | ((v & 0x00000FF0) >> 4)` picks the LOW nibble of R, the HIGH
nibble of G, the LOW nibble of B and the HIGH nibble of A; result as nibbles (r,g,b,a) -/
def compactHex (x : Bytes) : Bytes := ⟨x.r % 16, x.g / 16, x.b % 16, x.a / 16⟩

/-- `expandHex`: every nibble doubled -/
def expandHex (c : Bytes) : Bytes := ⟨c.r * 16 + c.r, c.g * 16 + c.g, c.b * 16 + c.b, c.a * 16 + c.a⟩

/-- the printer's test `hex == expandHex(compactHex(hex))` -/
def canCompact (x : Bytes) : Bool := x == expandHex (compactHex x)

/-- specification: both nibbles of every channel are equal (#AABBCCDD) -/
def isDoubled (x : Bytes) : Prop := x.r / 16 = x.r % 16 ∧ x.g / 16 = x.g % 16 ∧ x.b / 16 = x.b % 16 ∧ x.a / 16 = x.a % 16

def shortToU16 (c : Bytes) : Nat := c.r * 4096 + c.g * 256 + c.b * 16 + c.a
def shortOfU16 (v : Nat) : Bytes := ⟨v / 4096 % 16, v / 256 % 16, v / 16 % 16, v % 16⟩

def hexDigit? (c : Nat) : Option Nat :=
  if 48 ≤ c ∧ c ≤ 57 then some (c - 48) else if 97 ≤ c ∧ c ≤ 102 then some (c - 87) else if 65 ≤ c ∧ c ≤ 70 then some (c - 55) else none

/-- `parseHex` (uint32 accumulator: `hex <<= 4` wraps) -/
def parseHex (text : List Nat) : Option Nat :=
  text.foldl (fun acc c => match acc, hexDigit? c with
    | some h, some d => some ((h * 16 + d) % 4294967296)
    | _, _ => none) (some 0)

open Wire in
def driver (args : List String) : String :=
  match args with
  | ["compact", v] => match parseNat v with | some v => toString (shortToU16 (compactHex (ofU32 v))) | none => "bad-op"
  | ["expand", v] => match parseNat v with | some v => toString (toU32 (expandHex (shortOfU16 (v % 65536)))) | none => "bad-op"
  | ["parse", t] => match parseHexUnits 2 t with
    | some t => (match parseHex t with | some v => s!"{v} true" | none => "0 false")
    | none => "bad-op"
  | _ => "bad-op"

end EsbuildModel.CssHex
