import EsbuildModel.Util.Wire
/-
Model of how esbuild READS, LOWERS and PRINTS regular-expression literals.

  * `lex` / `scanBody` / `flagsLoop` — internal/js_lexer/js_lexer.go: the `case '/':` arm of `(*Lexer).Next` (which decides
    between `/`, `/=`, a `//` comment and a `/* */` comment) followed by `(*Lexer).ScanRegExp()`, which the parser calls from
    `parsePrefix` for the tokens TSlash and TSlashEquals (internal/js_parser/js_parser.go, `case js_lexer.TSlash,
    js_lexer.TSlashEquals:`).  `validateAndStep` is inlined: a backslash is stepped over, then end of file or a line
    terminator is "Unterminated regular expression" at `lexer.end`, anything else is stepped over.  The two loops of
    ScanRegExp (outside / inside `[...]`) are the two values of `inClass`.  The `case '/'` arm (flags) is `flagsLoop`:
    `js_ast.IsIdentifierContinue` decides whether the loop goes on, a letter of `dgimsuvy` sets its bit or — when the bit
    is set — logs "Duplicate flag" (NOT a panic: scanning goes on) with a note at the first byte equal to that letter from
    `lexer.start` on (so possibly inside the body), any other identifier character is `SyntaxError()` (panic); after the loop
    "The "u" and "v" flags cannot be used together" is logged when both bits are set (/repo e618e05).
  * `visit` / `patScan` / `flagScan` — internal/js_parser/js_parser.go `isUnsupportedRegularExpression` and the
    `case *js_ast.ERegExp:` arm of `visitExprInOut` (`new RegExp(pattern[, flags])`, `helpers.StringToUTF16`).
  * `printRegExp` / `spaceBeforeIdentifier` — internal/js_printer/js_printer.go `case *js_ast.ERegExp:` of `printExpr`
    and `printSpaceBeforeIdentifier` (`prevRegExpEnd`).

Texts are lists of code points (what `utf8.DecodeRuneInString` yields on well-formed UTF-8); positions are counted in
CHARACTERS from the start of the token and converted to byte offsets by the driver.  `isUnsupportedRegularExpression` works
on BYTES (`c := pattern[i]`, `i++ // Skip the escaped character`): every byte it compares with is ASCII and the bytes of a
multi-byte character match no case, so skipping one byte of an escaped multi-byte character and then walking over its
continuation bytes is the same as skipping the character.  Parameter `na` = `unicode.Is(idContinueES5OrESNext, c)` for
c ≥ U+007F.  Not modelled: message texts, the ranges of the debug message "… not available in …", locations in the AST.
-/
namespace EsbuildModel.RegexLex

/-- `'\r', '\n', 0x2028, 0x2029` -/
def isLT (c : Nat) : Bool := c == 13 || c == 10 || c == 8232 || c == 8233

/-- the `switch` of `js_ast.IsIdentifierContinue`: `_ $ 0-9 a-z A-Z` -/
def asciiIdc (c : Nat) : Bool :=
  c == 95 || c == 36 || (48 ≤ c && c ≤ 57) || (97 ≤ c && c ≤ 122) || (65 ≤ c && c ≤ 90)

/-- `js_ast.IsIdentifierContinue` -/
def idc (na : Nat → Bool) (c : Nat) : Bool :=
  asciiIdc c || (decide (c ≥ 127) && (c == 8204 || c == 8205 || na c))

/-- `case 'd', 'g', 'i', 'm', 's', 'u', 'v', 'y'` -/
def isFlag (c : Nat) : Bool :=
  c == 100 || c == 103 || c == 105 || c == 109 || c == 115 || c == 117 || c == 118 || c == 121

inductive Res
  /-- the text does not start with `/` (the modelled code is not reached) -/
  | notSlash
  /-- `//` or `/*`: `Next` scans a comment; no TSlash token, ScanRegExp is not called for this `/` -/
  | comment
  /-- addRangeError(lexer.end, "Unterminated regular expression"); panic -/
  | unterminated (pos : Nat)
  /-- `lexer.SyntaxError()` at an identifier character that is not a flag; `dups` were logged before -/
  | syntax (pos : Nat) (dups : List (Nat × Nat))
  /-- ScanRegExp returned: the token is `len` characters long; `dups` = (position of the repeated flag, position of the note);
  `uv`: the error "The "u" and "v" flags cannot be used together in a regular expression" was logged (after the duplicates,
  for the range of the whole token; not a panic) -/
  | ok (len : Nat) (dups : List (Nat × Nat)) (uv : Bool)
  deriving DecidableEq, Repr

/-- the body loops of ScanRegExp up to and including the closing `/`: `.inr (rest, i)` = the text after that `/` and its
position; `.inl pos` = "Unterminated regular expression" at `pos` -/
def scanBody : Bool → List Nat → Nat → Nat ⊕ (List Nat × Nat)
  | _, [], i => .inl i                                             -- case -1
  | inClass, c :: rest, i =>
    if c = 92 then                                                 -- validateAndStep: '\\' → step()
      match rest with
      | [] => .inl (i + 1)
      | d :: r => if isLT d then .inl (i + 1) else scanBody inClass r (i + 2)
    else if inClass then                                           -- for lexer.codePoint != ']' { validateAndStep() }
      if c = 93 then scanBody false rest (i + 1)
      else if isLT c then .inl i else scanBody true rest (i + 1)
    else if c = 47 then .inr (rest, i + 1)                         -- case '/': step(); flags
    else if c = 91 then scanBody true rest (i + 1)                 -- case '[': step()
    else if isLT c then .inl i else scanBody false rest (i + 1)    -- default: validateAndStep()

/-- `for r1.Loc.Start < r2.Loc.Start && Contents[r1.Loc.Start] != byte(codePoint) { r1.Loc.Start++ }` from `lexer.start`:
index of the first character of the token equal to `c` (a flag letter is ASCII: no byte of a multi-byte character equals it);
`bound` = the position of the repeated flag -/
def firstAt (tok : List Nat) (c : Nat) (bound : Nat) : Nat := min (tok.idxOf c) bound

/-- `(bits&(1<<('u'-'a'))) != 0 && (bits&(1<<('v'-'a'))) != 0` after the flags loop -/
def bothUV (seen : List Nat) : Bool := seen.contains 117 && seen.contains 118

/-- `for js_ast.IsIdentifierContinue(lexer.codePoint) { switch … }` and the `u`/`v` check behind it; `seen` = the letters
whose bit is set in `bits` -/
def flagsLoop (na : Nat → Bool) (tok : List Nat) : List Nat → Nat → List Nat → List (Nat × Nat) → Res
  | [], i, seen, dups => .ok i dups.reverse (bothUV seen)
  | c :: rest, i, seen, dups =>
    if idc na c then
      if isFlag c then
        if seen.contains c then flagsLoop na tok rest (i + 1) seen ((i, firstAt tok c i) :: dups)
        else flagsLoop na tok rest (i + 1) (c :: seen) dups
      else .syntax i dups.reverse                                  -- SyntaxError() panics: the u/v check is not reached
    else .ok i dups.reverse (bothUV seen)

/-- `ScanRegExp` with the lexer standing `i` characters into the token `tok`, `l` = the text from there -/
def scanRegExp (na : Nat → Bool) (tok l : List Nat) (i : Nat) : Res :=
  match scanBody false l i with
  | .inl pos => .unterminated pos
  | .inr (rest, j) => flagsLoop na tok rest j [] []

/-- `Next` at a `/` (not JSON, not `forGlobalName`) and, for TSlash / TSlashEquals, the parser's call of ScanRegExp -/
def lex (na : Nat → Bool) (text : List Nat) : Res :=
  match text with
  | [] => .notSlash
  | c :: rest =>
    if c ≠ 47 then .notSlash
    else match rest with
      | [] => scanRegExp na text rest 1
      | d :: r =>
        if d = 47 ∨ d = 42 then .comment
        else if d = 61 then scanRegExp na text r 2                 -- TSlashEquals: the `=` is already consumed
        else scanRegExp na text rest 1

/-! ## `isUnsupportedRegularExpression` and the `new RegExp(…)` rewriting -/

/-- `p.options.unsupportedJSFeatures.Has(compat.Regexp…)` for the seven regular-expression features -/
structure Unsup where
  lookbehind : Bool      -- RegexpLookbehindAssertions
  named : Bool           -- RegexpNamedCaptureGroups
  propEsc : Bool         -- RegexpUnicodePropertyEscapes
  dotAll : Bool          -- RegexpDotAllFlag
  stickyUnicode : Bool   -- RegexpStickyAndUnicodeFlags
  matchIndices : Bool    -- RegexpMatchIndices
  setNotation : Bool     -- RegexpSetNotation
  deriving DecidableEq, Repr

/-- what the scan found -/
inductive Feat
  | none
  /-- `p.log.AddError(…, "Unexpected \")\" in regular expression"); return` — `pos` = index of the `)` in the literal -/
  | parenError (pos : Nat)
  | lookbehind
  | named
  | propEscape
  /-- "The regular expression flag \"%c\" is not available" -/
  | flag (c : Nat)
  deriving DecidableEq, Repr

/-- `strings.HasPrefix(tail, p)` -/
def hasPrefix (p tail : List Nat) : Bool := p.isPrefixOf tail

/-- the `pattern:` loop (outside a class) and the `class:` loop (`inClass`); `i` = index in the LITERAL of the head of the
list (the Go `i` after `i++` counts in the pattern, which starts one character later) -/
def patScan (u : Unsup) (isUnicode : Bool) : Bool → List Nat → Nat → Nat → Feat
  | _, [], _, _ => .none
  | true, c :: tail, depth, i =>
    if c = 93 then patScan u isUnicode false tail depth (i + 1)    -- case ']': break class
    else if c = 92 then                                            -- case '\\': i++
      match tail with
      | [] => .none
      | _ :: r => patScan u isUnicode true r depth (i + 2)
    else patScan u isUnicode true tail depth (i + 1)
  | false, c :: tail, depth, i =>
    if c = 91 then patScan u isUnicode true tail depth (i + 1)     -- case '['
    else if c = 40 then                                            -- case '('
      if hasPrefix [63, 60, 61] tail || hasPrefix [63, 60, 33] tail then
        if u.lookbehind then .lookbehind else patScan u isUnicode false tail (depth + 1) (i + 1)
      else if hasPrefix [63, 60] tail then
        if u.named && tail.contains 62 then .named else patScan u isUnicode false tail (depth + 1) (i + 1)
      else patScan u isUnicode false tail (depth + 1) (i + 1)
    else if c = 41 then                                            -- case ')'
      if depth = 0 then .parenError i else patScan u isUnicode false tail (depth - 1) (i + 1)
    else if c = 92 then                                            -- case '\\'
      if isUnicode && (hasPrefix [112, 123] tail || hasPrefix [80, 123] tail) && u.propEsc && tail.contains 125 then
        .propEscape
      else
        match tail with
        | [] => .none
        | _ :: r => patScan u isUnicode false r depth (i + 2)      -- i++ // Skip the escaped character
    else patScan u isUnicode false tail depth (i + 1)

/-- `for i, c := range flags { switch c {…}; …; isUnsupported = true; break }` -/
def flagScan (u : Unsup) : List Nat → Feat
  | [] => .none
  | c :: rest =>
    if c = 103 ∨ c = 105 ∨ c = 109 then flagScan u rest
    else if c = 115 then (if !u.dotAll then flagScan u rest else .flag c)
    else if c = 121 ∨ c = 117 then (if !u.stickyUnicode then flagScan u rest else .flag c)
    else if c = 100 then (if !u.matchIndices then flagScan u rest else .flag c)
    else if c = 118 then (if !u.setNotation then flagScan u rest else .flag c)
    else .flag c

/-- `end := strings.LastIndexByte(value, '/'); pattern = value[1:end]; flags = value[end+1:]`; `none` = the slice
expression panics (no `/` at all, or the only one is the first character) -/
def splitValue (value : List Nat) : Option (List Nat × List Nat) :=
  let r := value.reverse
  let flagsRev := r.takeWhile (· ≠ 47)
  match r.dropWhile (· ≠ 47) with
  | [] => none                                   -- end = -1
  | _ :: beforeRev =>
    match beforeRev.reverse with
    | [] => none                                 -- end = 0: value[1:0]
    | _ :: pattern => some (pattern, flagsRev.reverse)

/-- the verdict of `isUnsupportedRegularExpression` on (pattern, flags) -/
def scanFeatures (u : Unsup) (pattern flags : List Nat) : Feat :=
  match patScan u (flags.contains 117) false pattern 0 1 with
  | .none => flagScan u flags
  | f => f

/-- `helpers.StringToUTF16` on one rune -/
def encodeRune (c : Nat) : List Nat :=
  if c ≤ 65535 then [c] else [55296 + (c - 65536) / 1024 % 1024, 56320 + (c - 65536) % 1024]

def stringToUTF16 (s : List Nat) : List Nat := s.flatMap encodeRune

inductive Visit
  /-- a Go run-time panic (slice bounds out of range) -/
  | panic
  /-- the ERegExp node stays; `err` = position of an "Unexpected )" error -/
  | keep (err : Option Nat)
  /-- `new RegExp(pattern)` / `new RegExp(pattern, flags)`: the EString values (UTF-16); `flags = none`: one argument -/
  | lower (pattern : List Nat) (flags : Option (List Nat)) (why : Feat)
  deriving DecidableEq, Repr

/-- the `case *js_ast.ERegExp:` arm of `visitExprInOut` -/
def visit (u : Unsup) (value : List Nat) : Visit :=
  match splitValue value with
  | none => .panic
  | some (pattern, flags) =>
    match scanFeatures u pattern flags with
    | .none => .keep none
    | .parenError pos => .keep (some pos)
    | f => .lower (stringToUTF16 pattern) (if flags = [] then none else some (stringToUTF16 flags)) f

/-! ## the printer -/

def lowerAscii (a : Nat) : Nat := if 65 ≤ a ∧ a ≤ 90 then a + 32 else a

/-- `len(e.Value) >= 7 && strings.EqualFold(e.Value[:7], "/script")`: seven bytes can fold to seven ASCII characters only
if they are seven ASCII characters (U+017F folds to `s` but is two bytes long, U+212A folds to `k`) -/
def scriptPrefix (value : List Nat) : Bool :=
  (value.take 7).map lowerAscii == [47, 115, 99, 114, 105, 112, 116]

/-- `case *js_ast.ERegExp:` of `printExpr`: the new buffer; afterwards `p.prevRegExpEnd = len(p.js)` -/
def printRegExp (noInlineScript : Bool) (js value : List Nat) : List Nat :=
  let space :=
    match js.getLast? with
    | none => false                                                -- n == 0
    | some last => last == 47 || (!noInlineScript && last == 60 && scriptPrefix value)
  js ++ (if space then [32] else []) ++ value

/-- `printSpaceBeforeIdentifier`; `atRegExpEnd` = `p.prevRegExpEnd == len(p.js)`; `utf8.DecodeLastRune` of an empty
buffer is RuneError, not an identifier character -/
def spaceBeforeIdentifier (na : Nat → Bool) (js : List Nat) (atRegExpEnd : Bool) : List Nat :=
  let idLast := match js.getLast? with
    | none => false
    | some c => idc na c
  if idLast || atRegExpEnd then js ++ [32] else js

/-! ## line protocol

    regexlex  scan   <non-ASCII ID_Continue code points of the text, comma separated | ->  <text: 6 hex digits per code point>
    regexlex  feat   <7 bits: lookbehind named propEsc dotAll stickyUnicode matchIndices setNotation>  <literal>
    regexlex  print  <noInlineScript 0|1>  <buffer before>  <literal>  <identifier follows 0|1>  <text after>
-/

def utf8Width (c : Nat) : Nat := if c < 128 then 1 else if c < 2048 then 2 else if c < 65536 then 3 else 4

/-- byte offset of character position `pos` -/
def byteOff (text : List Nat) (pos : Nat) : Nat := ((text.take pos).map utf8Width).sum

def showDups (text : List Nat) (d : List (Nat × Nat)) : String :=
  if d.isEmpty then "-" else ",".intercalate (d.map fun (a, b) => s!"{byteOff text a}:{byteOff text b}")

def showRes (text : List Nat) : Res → String
  | .notSlash => "other"
  | .comment => "comment"
  | .unterminated p => s!"unterminated {byteOff text p}"
  | .syntax p d => s!"syntax {byteOff text p} {showDups text d}"
  | .ok n d uv => s!"ok {byteOff text n} {showDups text d}" ++ (if uv then " uv" else "")

def showFeat : Feat → String
  | .none => "none"
  | .parenError _ => "paren"
  | .lookbehind => "lookbehind"
  | .named => "named"
  | .propEscape => "propescape"
  | .flag c => s!"flag:{c}"

def showVisit (value : List Nat) : Visit → String
  | .panic => "PANIC"
  | .keep none => "keep"
  | .keep (some p) => s!"keep-err {byteOff value p}"
  | .lower p f why =>
    let fs := match f with
      | none => "none"
      | some f => Wire.hexUnits 4 f
    s!"lower {Wire.hexUnits 4 p} {fs} {showFeat why}"

def parseBit (s : Char) : Option Bool := if s = '0' then some false else if s = '1' then some true else none

def parseUnsup (s : String) : Option Unsup :=
  match s.toList.mapM parseBit with
  | some [a, b, c, d, e, f, g] => some ⟨a, b, c, d, e, f, g⟩
  | _ => none

def driver (args : List String) : String :=
  match args with
  | ["scan", idna, hex] =>
    match Wire.parseNatList idna, Wire.parseHexUnits 6 hex with
    | some ids, some text => showRes text (lex (fun c => ids.contains c) text)
    | _, _ => "bad-op"
  | ["feat", bits, hex] =>
    match parseUnsup bits, Wire.parseHexUnits 6 hex with
    | some u, some value => showVisit value (visit u value)
    | _, _ => "bad-op"
  | ["print", nis, pre, hex, ident, post] =>
    match nis.toList.mapM parseBit, Wire.parseHexUnits 6 pre, Wire.parseHexUnits 6 hex, ident.toList.mapM parseBit,
          Wire.parseHexUnits 6 post with
    | some [nis], some pre, some value, some [ident], some post =>
      let na := fun _ => false                                     -- the texts after the literal are ASCII
      let js1 := printRegExp nis pre value
      let js2 := if ident then spaceBeforeIdentifier na js1 true else js1
      let out := js2 ++ post
      let start := js1.length - value.length
      let relex := if lex na (out.drop start) = .ok value.length [] false then "same" else "different"
      s!"{Wire.hexUnits 6 out} {relex}"
    | _, _, _, _, _ => "bad-op"
  | _ => "bad-op"

end EsbuildModel.RegexLex
