/-
Model of esbuild's code-splitting chunk assignment (internal/linker/linker.go:
markFileReachableForCodeSplitting, computeChunks, computeCrossChunkDependencies; internal/graph/graph.go:
CloneLinkerGraph for dynamic-import entry points).

Files are numbered 0..n-1.  An edge list is a list of (importer, imported) pairs:
  * `named`  static imports whose imported symbol is used by the importer,
  * `bare`   static side-effect-only imports (`import "./x"`),
  * `dyn`    dynamic `import()` expressions.
With splitting on, every target of a dynamic import in a scanned file becomes an extra entry point
(CloneLinkerGraph) and `import()` edges to another file are NOT followed when the per-entry reachability is
marked (isExternalDynamicImport); a file's key is the set of entry points that reach it over static edges and
files with equal keys share a chunk (computeChunks).  Every entry point owns the chunk keyed by its own
singleton set even when no file has that key (an "empty facade" chunk).

A chunk A imports chunk B statically when a file of A uses a symbol declared in a file of B
(computeCrossChunkDependencies) or when A is the chunk of entry point i and B's key contains i
("make sure we import all chunks belonging to this entry point").
-/
import EsbuildModel.Util.Wire
namespace EsbuildModel.Split

structure G where
  n : Nat
  named : List (Nat × Nat)
  bare : List (Nat × Nat)
  dyn : List (Nat × Nat)
  user : List Nat          -- user-specified entry points
deriving Repr

/-- one closure step over an edge list: add the target of the first edge that leaves the set -/
def step (es : List (Nat × Nat)) (s : List Nat) : List Nat :=
  match es.find? (fun e => s.contains e.1 && !s.contains e.2) with
  | some e => e.2 :: s
  | none => s

def closure (es : List (Nat × Nat)) : Nat → List Nat → List Nat
  | 0, s => s
  | k + 1, s => closure es k (step es s)

def static (g : G) : List (Nat × Nat) := g.named ++ g.bare
def allEdges (g : G) : List (Nat × Nat) := g.named ++ g.bare ++ g.dyn

/-- closure from a set of roots, adding the roots one at a time (fuel n per root is enough: see Lemmas) -/
def closureFrom (es : List (Nat × Nat)) (n : Nat) (roots : List Nat) : List Nat :=
  roots.foldl (fun s r => if s.contains r then s else closure es n (r :: s)) []

/-- files the bundler scans: everything reachable from the user entry points over every kind of edge -/
def scanned (g : G) : List Nat := closureFrom (allEdges g) g.n g.user

/-- entry points: user-specified ones, then the targets of dynamic imports found in scanned files -/
def entries (g : G) : List Nat :=
  let dynTargets := (g.dyn.filter (fun e => (scanned g).contains e.1)).map (·.2)
  (g.user ++ dynTargets).eraseDups

def reach (g : G) (e f : Nat) : Bool := (closure (static g) g.n [e]).contains f

/-- the entry-point bit set of a file, as one Bool per entry point -/
def bits (g : G) (f : Nat) : List Bool := (entries g).map (fun e => reach g e f)

def pop (b : List Bool) : Nat := b.count true

def live (g : G) (f : Nat) : Bool := (bits g f).contains true

/-- key of the chunk owned by the i-th entry point -/
def single (g : G) (i : Nat) : List Bool := (List.range (entries g).length).map (· == i)

def files (g : G) : List Nat := (List.range g.n).filter (live g)

/-- all chunk keys: one per entry point, one per distinct key of a live file -/
def chunkKeys (g : G) : List (List Bool) :=
  ((List.range (entries g).length).map (single g) ++ (files g).map (bits g)).eraseDups

def members (g : G) (k : List Bool) : List Nat := (files g).filter (fun f => bits g f == k)

/-- static cross-chunk import edges between keys -/
def chunkEdges (g : G) : List (List Bool × List Bool) :=
  let sym := (g.named.filter (fun e => live g e.1 && bits g e.1 != bits g e.2)).map
    (fun e => (bits g e.1, bits g e.2))
  let ent := (List.range (entries g).length).flatMap (fun i =>
    ((chunkKeys g).filter (fun k => k.getD i false && k != single g i)).map (fun k => (single g i, k)))
  (sym ++ ent).eraseDups

/-- well-formedness the driver checks before answering: every endpoint and entry is a file index -/
def wf (g : G) : Bool :=
  (allEdges g).all (fun e => e.1 < g.n && e.2 < g.n) && g.user.all (· < g.n)

-- ---------------------------------------------------------------- wire

def chunkId (g : G) (k : List Bool) : String :=
  match members g k with
  | f :: _ => s!"m{f}"
  | [] =>
    match (List.range (entries g).length).find? (fun i => single g i == k) with
    | some i => s!"e{(entries g).getD i 0}"
    | none => "?"

def insertSorted (s : String) : List String → List String
  | [] => [s]
  | x :: xs => if s ≤ x then s :: x :: xs else x :: insertSorted s xs
def sortStrings (l : List String) : List String := l.foldr insertSorted []

def render (g : G) : String :=
  let groups := ((chunkKeys g).map (fun k => members g k)).filter (· ≠ [])
  let gs := sortStrings (groups.map (fun m => ",".intercalate (m.map toString)))
  let es := sortStrings ((chunkEdges g).map (fun e => chunkId g e.1 ++ ">" ++ chunkId g e.2))
  "groups=" ++ "|".intercalate gs ++ " edges=" ++ ",".intercalate es

def pairs : List Nat → Option (List (Nat × Nat))
  | [] => some []
  | a :: b :: rest => (pairs rest).map ((a, b) :: ·)
  | _ => none

def driver (args : List String) : String :=
  match args with
  | [n, named, bare, dyn, user] =>
    match Wire.parseNat n, (Wire.parseNatList named).bind pairs, (Wire.parseNatList bare).bind pairs,
          (Wire.parseNatList dyn).bind pairs, Wire.parseNatList user with
    | some n, some named, some bare, some dyn, some user =>
      let g : G := { n, named, bare, dyn, user }
      if wf g then render g else "bad-op"
    | _, _, _, _, _ => "bad-op"
  | _ => "bad-op"

end EsbuildModel.Split
