import EsbuildModel.Impl.NumText
/-
Model of `mangleNumber`, `shiftDot`, `mangleDimension` (internal/css_parser/css_parser.go).
Go strings are `List Char`; all three routines are total (no index can go out of range: every slice
expression is guarded by a length test or by the position of a byte that was just found), so there is no
PANIC result here.  `(string, bool)` results: `mangleNumber` returns the pair, `shiftDot`/`mangleDimension`
return `none` for `("", false)`.  Go's `int` is 64 bit; the model uses `Int`.
-/
namespace EsbuildModel.CssNumber
open EsbuildModel.NumText

/-- `for len(t) > 0 && t[len(t)-1] == '0' { t = t[:len(t)-1] }` on the reversed text -/
def dropZerosRev : List Char → List Char
  | [] => []
  | c :: r => if c = '0' then dropZerosRev r else c :: r

def dropTrailingZeros (t : List Char) : List Char := (dropZerosRev t.reverse).reverse

/-- "Remove a leading zero": `len(t) >= 3 && t[0]=='0' && t[1]=='.' && isDigit(t[2])` → `t[1:]`, else
`len(t) >= 4 && (t[0]=='+' || t[0]=='-') && t[1]=='0' && t[2]=='.' && isDigit(t[3])` → `t[0:1] + t[2:]` -/
def removeLeadingZero (t : List Char) : List Char :=
  match t with
  | c0 :: c1 :: c2 :: rest =>
    if c0 = '0' ∧ c1 = '.' ∧ isDig c2 = true then c1 :: c2 :: rest
    else
      match rest with
      | c3 :: _ =>
        if (c0 = '+' ∨ c0 = '-') ∧ c1 = '0' ∧ c2 = '.' ∧ isDig c3 = true then c0 :: c2 :: rest else t
      | [] => t
  | _ => t

/-- `mangleNumber` -/
def mangleNumber (t : List Char) : List Char × Bool :=
  let r :=
    match indexOf '.' t with
    | none => t
    | some dot =>
      -- Remove trailing zeros (but not the trailing zeros of an exponent): `if !strings.ContainsAny(t, "eE")`
      let t1 := if t.any (fun c => c = 'e' ∨ c = 'E') then t else dropTrailingZeros t
      if dot + 1 = t1.length then
        -- Remove the decimal point if it's unnecessary
        let t2 := t1.take dot
        if t2 = [] ∨ t2 = ['+'] ∨ t2 = ['-'] then t2 ++ ['0'] else t2
      else removeLeadingZero t1
  (r, r ≠ t)

/-- "Remove any leading zeros before the dot": `for len(text) > 0 && dot > 0 && text[0] == '0'` -/
def stripLeading : List Char → Int → List Char × Int
  | [], dot => ([], dot)
  | c :: r, dot => if dot > 0 ∧ c = '0' then stripLeading r (dot - 1) else (c :: r, dot)

/-- "Remove any trailing zeros after the dot": `for len(text) > 0 && len(text) > dot && text[len(text)-1] == '0'`,
on the reversed text -/
def stripTrailingRev : List Char → Int → List Char
  | [], _ => []
  | c :: r, dot => if ((r.length + 1 : Nat) : Int) > dot ∧ c = '0' then stripTrailingRev r dot else c :: r

/-- "Handle a leading sign": `len(text) > 0 && (text[0] == '-' || text[0] == '+')` → `text[:1]` -/
def leadingSign : List Char → List Char
  | c :: _ => if c = '-' ∨ c = '+' then [c] else []
  | [] => []

/-- `dot := strings.IndexByte(text, '.')`, `len(text)` when there is none -/
def dotPos (text : List Char) : Nat :=
  match indexOf '.' text with
  | none => text.length
  | some d => d

/-- "Remove the dot": `text[:dot] + text[dot+1:]` -/
def removeDot (text : List Char) : List Char :=
  match indexOf '.' text with
  | none => text
  | some d => text.take d ++ text.drop (d + 1)

/-- `shiftDot`; `none` = `("", false)` -/
def shiftDot (text : List Char) (dotOffset : Int) : Option (List Char) :=
  -- This doesn't handle numbers with exponents
  if text.any (fun c => c = 'e' ∨ c = 'E') then none
  else
    -- Handle a leading sign
    let sign := leadingSign text
    let text := text.drop sign.length
    -- Remove the dot
    let dot := dotPos text
    let text := removeDot text
    -- Move the dot
    let dot : Int := (dot : Int) + dotOffset
    -- Remove any leading zeros before the dot
    let text' := (stripLeading text dot).1
    let dot := (stripLeading text dot).2
    -- Remove any trailing zeros after the dot
    let text := (stripTrailingRev text'.reverse dot).reverse
    -- Does this number have no fractional component?
    if dot ≥ (text.length : Int) then
      -- All digits were zeros and have been removed (e.g. "00" shifted by -2)
      if dot = 0 then some (sign ++ ['0'])
      else some (sign ++ text ++ List.replicate (dot - (text.length : Int)).toNat '0')
    else
      -- Potentially add leading zeros
      let text' := if dot < 0 then List.replicate (-dot).toNat '0' ++ text else text
      let dot := if dot < 0 then 0 else dot.toNat
      -- Insert the dot again
      some (sign ++ text'.take dot ++ '.' :: text'.drop dot)

/-- `strings.EqualFold(unit, "ms")`: Unicode simple case folding; the orbit of `s` is {s, S, ſ (U+017F)},
the orbit of `m` is {m, M} -/
def foldsToM (c : Char) : Bool := c = 'm' ∨ c = 'M'
def foldsToS (c : Char) : Bool := c = 's' ∨ c = 'S' ∨ c.toNat = 0x17F

def equalFoldMs : List Char → Bool
  | [a, b] => foldsToM a && foldsToS b
  | _ => false

def equalFoldS : List Char → Bool
  | [a] => foldsToS a
  | _ => false

/-- `mangleDimension`; `none` = `("", "", false)` -/
def mangleDimension (value unit : List Char) : Option (List Char × List Char) :=
  let first : Option (List Char × List Char) :=
    if equalFoldMs unit then
      match shiftDot value (-3) with
      | some shifted => if shifted.length + 1 < value.length + 2 then some (shifted, ['s']) else none
      | none => none
    else none
  match first with
  | some r => some r
  | none =>
    if equalFoldS unit then
      match shiftDot value 3 with
      | some shifted => if shifted.length + 2 < value.length + 1 then some (shifted, ['m', 's']) else none
      | none => none
    else none

/-! ## line protocol (reached through the `numprint` kernel as `numprint\tcss\t…`) -/

open Wire in
def driver (args : List String) : String :=
  match args with
  | ["mangle", t] =>
    match parseText t with
    | some t => let r := mangleNumber t; s!"{showText r.1} {r.2}"
    | none => "bad-op"
  | ["shift", t, k] =>
    match parseText t, parseInt k with
    | some t, some k =>
      (match shiftDot t k with
       | some r => s!"{showText r} true"
       | none => "- false")
    | _, _ => "bad-op"
  | ["dim", v, u] =>
    match parseText v, parseHexUnits 4 u with
    | some v, some u =>
      (match mangleDimension v (u.map Char.ofNat) with
       | some (r, u') => s!"{showText r} {showText u'} true"
       | none => "- - false")
    | _, _ => "bad-op"
  | _ => "bad-op"

end EsbuildModel.CssNumber
