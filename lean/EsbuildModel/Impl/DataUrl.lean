import EsbuildModel.Util.Wire
/-
Model of `helpers.EncodeStringAsPercentEscapedDataURL` (internal/helpers/dataurl.go), body part
(after "data:<mime>,"), on bytes. The Go code iterates over runes but only ever escapes ASCII
characters and copies everything else verbatim, so on valid UTF-8 the byte-level description below is
the same function; invalid UTF-8 makes the Go function return `false` (`validUtf8`).
-/
namespace EsbuildModel.DataUrl

def isHex (c : Nat) : Bool := (48 ≤ c && c ≤ 57) || (97 ≤ c && c ≤ 102) || (65 ≤ c && c ≤ 70)

def hex2 : List Nat → Bool
  | a :: b :: _ => isHex a && isHex b
  | _ => false

/-- "trailing characters that need to be escaped": c ≤ 0x20 other than \t \n \r -/
def isTrail (c : Nat) : Bool := c ≤ 32 && c != 9 && c != 10 && c != 13

/-- `i >= trailingStart` ⇔ every byte from here to the end is a trailing-escape character -/
def allTrail (l : List Nat) : Bool := l.all isTrail

def hexDigit (d : Nat) : Nat := if d < 10 then 48 + d else 55 + d   -- "0123456789ABCDEF"[d]

def needsEscape (c : Nat) (rest : List Nat) : Bool :=
  c == 9 || c == 10 || c == 13 || c == 35 || allTrail (c :: rest) || (c == 37 && hex2 rest)

/-- the escaping loop -/
def enc : List Nat → List Nat
  | [] => []
  | c :: rest =>
    if needsEscape c rest then 37 :: hexDigit (c / 16) :: hexDigit (c % 16) :: enc rest
    else c :: enc rest

def hexVal (c : Nat) : Nat :=
  if 48 ≤ c && c ≤ 57 then c - 48 else if 97 ≤ c && c ≤ 102 then c - 87 else c - 55

/-- URL percent-decoding (WHATWG URL "percent-decode"): %HH ↦ byte, anything else literal -/
def dec : List Nat → List Nat
  | [] => []
  | [c] => [c]
  | [c, d] => [c, d]
  | c :: a :: b :: rest =>
    if c = 37 ∧ isHex a ∧ isHex b then (16 * hexVal a + hexVal b) :: dec rest
    else c :: dec (a :: b :: rest)

/-- UTF-8 validity as Go's `utf8.DecodeRuneInString` sees it -/
def validUtf8 : List Nat → Bool
  | [] => true
  | b0 :: rest =>
    if b0 < 128 then validUtf8 rest
    else if 194 ≤ b0 && b0 ≤ 223 then
      match rest with
      | b1 :: r => 128 ≤ b1 && b1 ≤ 191 && validUtf8 r
      | _ => false
    else if 224 ≤ b0 && b0 ≤ 239 then
      match rest with
      | b1 :: b2 :: r =>
        let lo := if b0 = 224 then 160 else 128
        let hi := if b0 = 237 then 159 else 191
        lo ≤ b1 && b1 ≤ hi && 128 ≤ b2 && b2 ≤ 191 && validUtf8 r
      | _ => false
    else if 240 ≤ b0 && b0 ≤ 244 then
      match rest with
      | b1 :: b2 :: b3 :: r =>
        let lo := if b0 = 240 then 144 else 128
        let hi := if b0 = 244 then 143 else 191
        lo ≤ b1 && b1 ≤ hi && 128 ≤ b2 && b2 ≤ 191 && 128 ≤ b3 && b3 ≤ 191 && validUtf8 r
      | _ => false
    else false

open Wire in
def driver (args : List String) : String :=
  match args with
  | ["percent", mime, text] =>
    match parseHexUnits 2 mime, parseHexUnits 2 text with
    | some m, some t =>
      if validUtf8 t then hexUnits 2 ([100, 97, 116, 97, 58] ++ m ++ [44] ++ enc t) ++ " true" else "- false"
    | _, _ => "bad-op"
  | _ => "bad-op"

end EsbuildModel.DataUrl
