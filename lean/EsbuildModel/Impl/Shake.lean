/-
Model of esbuild's tree-shaking liveness marking (internal/linker/linker.go markFileLiveForTreeShaking /
markPartLiveForTreeShaking).  The input is the part graph the linker works on (dumped by the verif
observation hook after scanImportsAndExports): files, their parts with the parser's CanBeRemovedIfUnused
flag, part dependencies, and the statement-level import records of every part.

The marking is the least set containing the entry-point files and closed under
  file f live  ⇒ the CSS file of f and (for CSS files) every imported file are live;
  file f live  ⇒ for every part q of f, every import record of q that is KEPT (target has side effects, or
                 annotations are ignored; external: not flagged side-effect free) makes its target file live;
  file f live  ⇒ part q of f is live unless it can be removed: its flag says so, it has no kept import, and
                 tree shaking is on (or the part forces it, or f is not an entry point);
  part q live  ⇒ its file and all parts it depends on are live.
It is computed with the fuelled closure of Impl/Split.lean over an explicit edge list; node ids: file f ↦ f,
part q ↦ nf + q, and one virtual root nf + np whose successors are the entry-point files.

What is NOT modelled: how the parser decides CanBeRemovedIfUnused and how the linker computes part
dependencies from symbol uses; those are inputs here (the search c04-shake covers them against Node).
-/
import EsbuildModel.Impl.Split
namespace EsbuildModel.Shake

structure Imp where
  target : Option Nat     -- file index, none = external
  se : Bool               -- target file has side effects
  extPure : Bool          -- external flagged IsExternalWithoutSideEffects
deriving Repr

structure Part where
  file : Nat
  canRemove : Bool
  force : Bool
  deps : List Nat         -- global part indices
  imps : List Imp
deriving Repr

structure FileInfo where
  isEntry : Bool
  css : Option Nat
  cssImports : List Nat
deriving Repr

structure S where
  treeShaking : Bool
  ignoreAnn : Bool
  entries : List Nat
  files : List FileInfo
  parts : List Part
deriving Repr

def S.nf (s : S) : Nat := s.files.length
def S.np (s : S) : Nat := s.parts.length
def S.root (s : S) : Nat := s.nf + s.np
def S.partNode (s : S) (q : Nat) : Nat := s.nf + q

def kept (s : S) (im : Imp) : Bool :=
  match im.target with
  | some _ => im.se || s.ignoreAnn
  | none => !im.extPure

/-- the part is included as soon as its file is -/
def mustKeep (s : S) (p : Part) : Bool :=
  let removable := p.canRemove && !(p.imps.any (kept s))
  !removable || (!p.force && !s.treeShaking && ((s.files[p.file]?).map (·.isEntry)).getD false)

def fileEdges (s : S) : List (Nat × Nat) :=
  (List.range s.nf).flatMap (fun f =>
    match s.files[f]? with
    | none => []
    | some fi => (match fi.css with | some c => [(f, c)] | none => []) ++ fi.cssImports.map (fun g => (f, g)))

def partEdges (s : S) : List (Nat × Nat) :=
  (List.range s.np).flatMap (fun q =>
    match s.parts[q]? with
    | none => []
    | some p =>
      ((p.imps.filter (kept s)).filterMap (fun im => im.target.map (fun g => (p.file, g)))) ++
      (if mustKeep s p then [(p.file, s.partNode q)] else []) ++
      [(s.partNode q, p.file)] ++ p.deps.map (fun d => (s.partNode q, s.partNode d)))

def edges (s : S) : List (Nat × Nat) :=
  s.entries.map (fun e => (s.root, e)) ++ fileEdges s ++ partEdges s

def liveSet (s : S) : List Nat := Split.closure (edges s) (s.root + 1) [s.root]

def fileLive (s : S) (f : Nat) : Bool := (liveSet s).contains f
def partLive (s : S) (q : Nat) : Bool := (liveSet s).contains (s.partNode q)

def wf (s : S) : Bool :=
  s.entries.all (· < s.nf) &&
  s.files.all (fun fi => (match fi.css with | some c => c < s.nf | none => true) && fi.cssImports.all (· < s.nf)) &&
  s.parts.all (fun p => p.file < s.nf && p.deps.all (· < s.np) &&
    p.imps.all (fun im => match im.target with | some g => g < s.nf | none => true))

-- ---------------------------------------------------------------- wire

def parseBool (s : String) : Option Bool := if s = "1" then some true else if s = "0" then some false else none

def dotList (s : String) : Option (List Nat) :=
  if s = "." then some [] else (s.splitOn ".").mapM (·.toNat?)

def parseImp (s : String) : Option Imp :=
  match s.splitOn ":" with
  | [t, se, ep] => do
    let se ← parseBool se; let ep ← parseBool ep
    if t = "x" then pure { target := none, se, extPure := ep }
    else do let g ← t.toNat?; pure { target := some g, se, extPure := ep }
  | _ => none

def parseItems {α : Type} (f : String → Option α) (s : String) : Option (List α) :=
  if s = "-" then some [] else (s.splitOn ";").mapM f

def parsePart (s : String) : Option Part :=
  match s.splitOn "," with
  | [file, cr, force, deps, imps] => do
    let file ← file.toNat?; let cr ← parseBool cr; let force ← parseBool force
    let deps ← dotList deps
    let imps ← if imps = "." then some [] else (imps.splitOn "+").mapM parseImp
    pure { file, canRemove := cr, force, deps, imps }
  | _ => none

def parseFile (s : String) : Option FileInfo :=
  match s.splitOn "," with
  | [e, css, ci] => do
    let e ← parseBool e
    let css ← if css = "n" then some none else (css.toNat?).map some
    let ci ← dotList ci
    pure { isEntry := e, css, cssImports := ci }
  | _ => none

def driver (args : List String) : String :=
  match args with
  | [ts, ia, entries, files, parts] =>
    match parseBool ts, parseBool ia, Wire.parseNatList entries, parseItems parseFile files, parseItems parsePart parts with
    | some ts, some ia, some entries, some files, some parts =>
      let s : S := { treeShaking := ts, ignoreAnn := ia, entries, files, parts }
      if wf s then
        "files=" ++ Wire.showNatList ((List.range s.nf).filter (fileLive s)) ++
        " parts=" ++ Wire.showNatList ((List.range s.np).filter (partLive s))
      else "bad-op"
    | _, _, _, _, _ => "bad-op"
  | _ => "bad-op"

end EsbuildModel.Shake
