import EsbuildModel.Impl.JsxEntityTable
import EsbuildModel.Impl.Wtf8
import EsbuildModel.Util.Wire
/-!
# Model of esbuild's JSX text handling (internal/js_lexer/js_lexer.go)

* `decodeJSXEntities`, `fixWhitespaceAndDecodeJSXEntities` (the two helper functions),
* the text-token part of `NextJSXElementChild` (where the token ends, fast path / slow path),
* the string-literal part of `NextInsideJSXElement` (JSX attribute strings: no backslash escapes, raw newlines kept),
* `parseJSXElement` in internal/js_parser/js_parser.go: a text child whose fixed value is empty is dropped.

A Go string is modelled as the list of runes that `utf8.DecodeRuneInString` yields from its start (`Text`); byte offsets
become rune offsets (`i += width` becomes `i + 1`). This is exact because every slice the code takes starts and ends at a
position reached by the same decoding loop, and `;` `&` `#` and the digits are ASCII bytes that never occur inside a
multi-byte sequence. The driver performs the decoding with the existing model of `DecodeRuneInString` (`Wtf8.goDecodeRune`,
U+FFFD with width 1 on every ill-formed byte).
-/
namespace EsbuildModel.JsxText

abbrev Text := List Nat

/-! ### strconv.ParseUint(s, base, 32) for base 10 / 16 (Go standard library, modelled from its documentation:
no sign, at least one digit, no underscores unless base = 0, range error outside uint32) -/

/-- digit value as in `strconv.ParseUint`: `'0'..'9'`, else `lower(c) = c|0x20` in `'a'..'z'`; bytes ≥ 0x80 never qualify -/
def digitVal (c : Nat) : Option Nat :=
  if 48 ≤ c ∧ c ≤ 57 then some (c - 48)
  else if 97 ≤ c ∧ c ≤ 122 then some (c - 87)
  else if 65 ≤ c ∧ c ≤ 90 then some (c - 55)
  else none

/-- the digit loop of `ParseUint` without the overflow check (done by the caller on the exact value); `none` = ErrSyntax -/
def parseDigits (base : Nat) : Text → Nat → Option Nat
  | [], acc => some acc
  | c :: cs, acc =>
    match digitVal c with
    | none => none
    | some d => if d < base then parseDigits base cs (acc * base + d) else none

/-- `value, err := strconv.ParseUint(s, base, 32)`; `none` = `err != nil` (ErrSyntax or ErrRange) -/
def parseUint32 (s : Text) (base : Nat) : Option Nat :=
  if s = [] then none else
  match parseDigits base s 0 with
  | none => none
  | some un => if un < 4294967296 then some un else none

/-! ### decodeJSXEntities -/

/-- `strings.IndexByte(s, ';')`, `none` = -1 -/
def indexSemi : Text → Option Nat
  | [] => none
  | c :: cs => if c = 59 then some 0 else (indexSemi cs).map (· + 1)

/-- the tail of the loop body: `if c <= 0xFFFF { append(uint16(c)) } else { c -= 0x10000; append(hi, lo) }` on an int32 -/
def emit (c : Int) : List Nat :=
  if c ≤ 0xFFFF then [(c % 65536).toNat]
  else
    let c := c - 0x10000
    [((0xD800 + (c / 1024) % 1024) % 65536).toNat, ((0xDC00 + c % 1024) % 65536).toNat]

/-- inside `if length > 0`: the value of `entity := text[i : i+length]`, `none` when nothing is decoded
(`ParseUint` failed, the value is above `utf8.MaxRune`, or the name is not in the table) -/
def entityValue (names : Text → Option Nat) (entity : Text) : Option Int :=
  match entity with
  | 35 :: number => -- entity[0] == '#'
    let nb : Text × Nat :=
      if number.length > 1 ∧ number.head? = some 120 then (number.drop 1, 16) else (number, 10)
    match parseUint32 nb.1 nb.2 with
    | some value => if value ≤ 0x10FFFF then some (value : Int) else none -- err == nil && value <= utf8.MaxRune
    | none => none
  | _ => (names entity).map Int.ofNat

/-- the `if c == '&' { … }` block; `rest` is `text[i:]` after the `&`. `some (c, text[i':])` when an entity was decoded
(`c` replaced, `i += length + 1`), `none` when `c` stays `'&'` and `i` stays. -/
def entityAt (names : Text → Option Nat) (rest : Text) : Option (Int × Text) :=
  match indexSemi rest with
  | none => none
  | some length =>
    if length > 0 then
      match entityValue names (rest.take length) with
      | some value => some (value, rest.drop (length + 1))
      | none => none
    else none

/-- the loop `for i < len(text)`; the argument is `text[i:]`; what is appended to `decoded`. `fuel` bounds the rounds
(every round consumes at least one rune, so `text.length` suffices: `decodeFrom_fuel`). -/
def decodeFrom (names : Text → Option Nat) : Nat → Text → List Nat
  | _, [] => []
  | 0, _ :: _ => []
  | fuel + 1, c :: rest =>
    match (if c = 38 then entityAt names rest else none) with
    | some (value, rest') => emit value ++ decodeFrom names fuel rest'
    | none => emit (c : Int) ++ decodeFrom names fuel rest

def decodeJSXEntities (names : Text → Option Nat) (decoded : List Nat) (text : Text) : List Nat :=
  decoded ++ decodeFrom names text.length text

/-! ### fixWhitespaceAndDecodeJSXEntities -/

/-- `case '\r', '\n', '\u2028', '\u2029'` -/
def isNewline (c : Nat) : Bool := c == 0x0D || c == 0x0A || c == 0x2028 || c == 0x2029

/-- `js_ast.IsWhitespace` (internal/js_ast/js_ident.go), the cases in source order -/
def isWhitespace (c : Nat) : Bool :=
  [0x0009, 0x000B, 0x000C, 0x0020, 0x00A0, 0x1680, 0x2000, 0x2001, 0x2002, 0x2003, 0x2004, 0x2005, 0x2006, 0x2007,
   0x2008, 0x2009, 0x200A, 0x202F, 0x205F, 0x3000, 0xFEFF].contains c

/-- Go's `text[lo:hi]`; `none` = slice bounds out of range (panic) -/
def slice (text : Text) (lo hi : Nat) : Option Text :=
  if lo ≤ hi ∧ hi ≤ text.length then some ((text.take hi).drop lo) else none

/-- the three local variables; `none` is Go's `-1` -/
structure St where
  afterLast : Option Nat
  first : Option Nat
  decoded : List Nat
deriving Repr, DecidableEq

/-- `if len(decoded) > 0 { decoded = append(decoded, ' ') }` -/
def sep (decoded : List Nat) : List Nat := if decoded.length > 0 then decoded ++ [32] else decoded

/-- one round of the `for i < len(text)` loop at rune `c = text[i]`; `none` = panic -/
def fixStep (names : Text → Option Nat) (text : Text) (i c : Nat) (st : St) : Option St :=
  if isNewline c then
    match st.first, st.afterLast with
    | some f, some a =>
      match slice text f a with
      | none => none
      | some s => some { st with decoded := decodeJSXEntities names (sep st.decoded) s, first := none }
    | _, _ => some { st with first := none }
  else if c = 9 ∨ c = 32 then some st
  else if !isWhitespace c then
    some { st with afterLast := some (i + 1), first := match st.first with | none => some i | some f => some f }
  else some st

def fixLoop (names : Text → Option Nat) (text : Text) : Text → Nat → St → Option St
  | [], _, st => some st
  | c :: rest, i, st =>
    match fixStep names text i c st with
    | none => none
    | some st' => fixLoop names text rest (i + 1) st'

/-- `none` = panic (never: `fix_never_panics`) -/
def fixWhitespaceAndDecodeJSXEntities (names : Text → Option Nat) (text : Text) : Option (List Nat) :=
  match fixLoop names text text 0 { afterLast := none, first := some 0, decoded := [] } with
  | none => none
  | some st =>
    match st.first with
    | some f =>
      match slice text f text.length with
      | none => none
      | some s => some (decodeJSXEntities names (sep st.decoded) s)
    | none => some st.decoded

/-! ### the text token of `NextJSXElementChild` and what `parseJSXElement` does with it -/

/-- the `stringLiteral:` loop from `originalStart`: the runes of the token and `needsFixing`. The token ends at
`{`, `<` or the end of the file; `}` and `>` only produce a warning (JS) and are kept. -/
def scanChildText : Text → Text × Bool
  | [] => ([], false)
  | c :: rest =>
    if c = 123 ∨ c = 60 then ([], false)
    else
      let r := scanChildText rest
      (c :: r.1, (c == 38 || isNewline c || decide (c ≥ 0x80)) || r.2)

inductive ChildToken where
  | endOfFile
  | openBrace
  | lessThan
  | stringLiteral (decoded : List Nat)
  | panic
deriving Repr, DecidableEq

/-- `NextJSXElementChild` on `src = Contents[lexer.end:]` -/
def nextJSXElementChild (names : Text → Option Nat) (src : Text) : ChildToken :=
  match src with
  | [] => .endOfFile
  | c :: _ =>
    if c = 123 then .openBrace
    else if c = 60 then .lessThan
    else
      let r := scanChildText src
      if r.2 then
        match fixWhitespaceAndDecodeJSXEntities names r.1 with
        | none => .panic
        | some d => .stringLiteral d
      else
        -- fast path `copy[i] = uint16(text[i])` over BYTES: all runes are < 0x80 here, so bytes = runes
        .stringLiteral r.1

/-- what the children loop of `parseJSXElement` appends for this token when it is a string:
`if str := p.lexer.StringLiteral(); len(str) > 0 { append(EString{str}) }` — `none` = nothing appended -/
def childOfToken : ChildToken → Option (List Nat)
  | .stringLiteral d => if d.length > 0 then some d else none
  | _ => none

/-! ### JSX attribute strings (`case '\'', '"'` of `NextInsideJSXElement`) -/

/-- the `stringLiteral:` loop after the opening quote: (runes between the quotes, needsDecode, source after the closing
quote); `none` = end of file → `lexer.SyntaxError()`. A backslash is only remembered for an error message. -/
def scanAttr (quote : Nat) : Text → Option (Text × Bool × Text)
  | [] => none
  | c :: rest =>
    if c = 38 then (scanAttr quote rest).map fun r => (c :: r.1, true, r.2.2)
    else if c = 92 then (scanAttr quote rest).map fun r => (c :: r.1, r.2.1, r.2.2)
    else if c = quote then some ([], false, rest)
    else (scanAttr quote rest).map fun r => (c :: r.1, decide (c ≥ 0x80) || r.2.1, r.2.2)

/-- decoded value of the attribute string and the source after it -/
def attrString (names : Text → Option Nat) (quote : Nat) (src : Text) : Option (List Nat × Text) :=
  match scanAttr quote src with
  | none => none
  | some (text, needsDecode, rest) =>
    if needsDecode then some (decodeJSXEntities names [] text, rest) else some (text, rest)

/-! ### driver -/

/-- `for i < len(s) { c, width := utf8.DecodeRuneInString(s[i:]); i += width }` -/
def runesOf : Nat → List Nat → Text
  | _, [] => []
  | 0, _ :: _ => []
  | fuel + 1, b :: bs =>
    let cw := Wtf8.goDecodeRune b bs
    cw.1 :: runesOf fuel (bs.drop (cw.2 - 1))

/-- `jsxtext <quote> <hex bytes of the source after the opening quote of <a b=Q…>`: the attribute value and the first
child of the element when it is a string -/
def driver (args : List String) : String :=
  match args with
  | [q, hx] =>
    match Wire.parseNat q, Wire.parseHexUnits 2 hx with
    | some quote, some bytes =>
      let src := runesOf bytes.length bytes
      match attrString jsxEntity quote src with
      | none => "ERR"
      | some (attr, rest) =>
        match rest with
        | 62 :: body =>
          match nextJSXElementChild jsxEntity body with
          | .panic => "PANIC"
          | .endOfFile => "ERR" -- the parser reports "Unexpected end of file before a closing tag"
          | tok =>
            "A:" ++ Wire.hexUnits 4 attr ++ " C:" ++
              (match childOfToken tok with | some d => Wire.hexUnits 4 d | none => "none")
        | _ => "bad-op"
    | _, _ => "bad-op"
  | _ => "bad-op"

end EsbuildModel.JsxText
