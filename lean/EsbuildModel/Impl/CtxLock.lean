/-
Lock-level model of a build context (pkg/api/api_impl.go internalContext: rebuild, Rebuild,
activeBuildOrRecentBuildOrRebuild, Watch, Cancel, Dispose; pkg/api/watcher.go: start (+ its goroutine), stop,
setWatchData, tryToFindDirtyPath; pkg/api/serve_other.go: Serve (+ its goroutines and closures handler.rebuild,
handler.stop), hackListener.Accept, broadcastBuildResult).

The Go functions are transcribed as STRUCTURED PROGRAMS (`Stmt`) whose primitive statements are exactly the
synchronisation-relevant operations of the source, in source order: Lock / Unlock / defer Unlock of the four
mutexes, Add / Done / Wait of the four kinds of wait group, reads and writes of the shared fields, calls of the
other modelled functions (inlined), `go` statements, if / for / return.  `skel` erases a program to the token
list that the go/ast extractor (harness/cmd/extract/ctxlock.go) regenerates from the source into
Gen/CtxLockFacts.lean; Props/C20Lock.lean `facts_match_model` states that the two agree for every function.

The programs are compiled (`compileF`) to a flat instruction list `code`; a thread is a program counter into it
plus its Go local variables; `step` executes ONE instruction of ONE thread (the atomic steps are exactly the
primitive statements).  Any number of threads; goroutines are created by `spawn`.  Blocking instructions:
`lock` (mutex held) and `wait` (counter > 0).  What Go would answer with a panic (nil receiver, negative
wait-group counter, unlock of a mutex the thread does not hold, pc outside the code) sets `panic`.

Library / environment pieces that have no esbuild source (bodies of `call` that the skeleton does not enter):
rebuildImpl (the build: begin, finitely many steps each of which may observe the cancel flag, end),
net/http's Server.Serve (accept loop calling hackListener.Accept, one goroutine per connection that calls
handler.rebuild(), returns ErrServerClosed after Close), Server.Close, CancelFlag.Cancel.
-/
import EsbuildModel.Gen.CtxLockFacts
namespace EsbuildModel.CtxLock
open EsbuildModel.Gen.CtxLock (Mu Wg Fld Fn Cnd Tok)

/-- primitive non-blocking operations; `Act.tok` gives the source token (none = a purely local computation) -/
inductive Act where
  | readActive | readState | newBuild | setActive | readWatcher | readHandler | writeState | clearActive
  | setRecent | clearRecent | readRecent | retRecent | sleep | setDisposed | newWatcher | setWStop
  | newHandler | setHandler | setSStop | setHackDone | setHackErr | retHackErr
  | getStreams | clrStreams | closeStream | sendStream
  | retEmpty | retErr | retOk | tick | loadCtxWatcher | loadCtxHandler
  -- library / environment
  | buildBegin | buildStep | buildEnd | setCancel | closeServer | srvResult | accept | external
deriving DecidableEq, Repr

def Act.tok : Act → Option Tok
  | .readActive => some (.get .activeBuild) | .readState => some (.get .buildState) | .newBuild => none
  | .setActive => some (.set .activeBuild) | .readWatcher => some (.get .watcher) | .readHandler => some (.get .handler)
  | .writeState => some (.set .buildState) | .clearActive => some (.clr .activeBuild)
  | .setRecent => some (.set .recentBuild) | .clearRecent => some (.clr .recentBuild)
  | .readRecent => some (.get .recentBuild) | .retRecent => none | .sleep => some .sleep
  | .setDisposed => some (.set .didDispose) | .newWatcher => some (.set .watcher) | .setWStop => some (.set .wShouldStop)
  | .newHandler => none | .setHandler => some (.set .handler) | .setSStop => some (.set .sShouldStop)
  | .setHackDone => some (.set .hackDone) | .setHackErr => some (.set .hackErr) | .retHackErr => some (.get .hackErr)
  | .getStreams => some (.get .streams) | .clrStreams => some (.clr .streams) | .closeStream => some .close
  | .sendStream => some .send
  | _ => none

/-- conditions: the classified conditions of the source, plus three that have no own token -/
inductive Cond where
  | gen (c : Cnd)   -- `.gen .other` = decided by the scheduler (an input of the environment)
  | bounded         -- source token `.other`: a `for range` over a finite list: scheduler's choice while the thread has fuel
  | streams         -- source token `.other`: `for range activeStreams`: no event-stream client is connected (assumption) → false
  | moreWork        -- library: the build has work left
  | srvLoop         -- library: the server has not been closed and Accept has not failed
deriving DecidableEq, Repr

def Cond.tok : Cond → Cnd
  | .gen c => c
  | _ => .other

/-- Go locals that hold a *watcher: `sw` = the receiver `w` of the watcher's own methods (and `ctx.watcher` evaluated
as the receiver of start / stop), `lw` = the local `watcher` of rebuild (the receiver of ITS setWatchData call) -/
inductive WReg where
  | sw | lw
deriving DecidableEq, Repr
/-- Go locals that hold a *apiHandler (and its hackListener): `sh` = `handler` / `hack` of Serve and of its closures,
`lh` = the local `handler` of rebuild (the receiver of its broadcastBuildResult call) -/
inductive HReg where
  | sh | lh
deriving DecidableEq, Repr
/-- which registers the receiver-relative names of a function body (w.mutex, h.mutex, …) refer to -/
structure Recv where
  w : WReg
  h : HReg
deriving DecidableEq, Repr

inductive MuRef where
  | ctx | watcher (r : WReg) | handler (r : HReg) | hack (r : HReg)
deriving DecidableEq, Repr
inductive WgRef where
  | build | stop (r : WReg) | serve (r : HReg) | hack (r : HReg)
deriving DecidableEq, Repr

def Recv.mu (rc : Recv) : Mu → MuRef
  | .ctx => .ctx | .watcher => .watcher rc.w | .handler => .handler rc.h | .hack => .hack rc.h
def Recv.wg (rc : Recv) : Wg → WgRef
  | .build => .build | .stop => .stop rc.w | .serve => .serve rc.h | .hack => .hack rc.h

inductive Stmt where
  | lock (m : Mu) | unlock (m : Mu) | deferUnlock (m : Mu)
  | add (g : Wg) | done (g : Wg) | wait (g : Wg)
  | act (a : Act)
  | call (f : Fn) (rc : Recv) (body : List Stmt)   -- body inlined; `rc` = the callee's receiver registers
  | ite (c : Cond) (t : List Stmt) (e : Option (List Stmt))
  | loop (c : Cond) (body : List Stmt)
  | go (body : List Stmt)
  | goCall (f : Fn)
  | ret
  | maybeRet

-- ------------------------------------------------------------------ skeleton

mutual
def Stmt.skel : Stmt → List Tok
  | .lock m => [.lock m] | .unlock m => [.unlock m] | .deferUnlock m => [.deferUnlock m]
  | .add g => [.add g] | .done g => [.done g] | .wait g => [.wait g]
  | .act a => a.tok.toList
  | .call f _ _ => [.call f]
  | .ite c t none => .ifBegin c.tok :: (skelL t ++ [.ifEnd])
  | .ite c t (some e) => .ifBegin c.tok :: (skelL t ++ .elseBegin :: (skelL e ++ [.ifEnd]))
  | .loop c b => .forBegin c.tok :: (skelL b ++ [.forEnd])
  | .go b => .goBegin :: (skelL b ++ [.goEnd])
  | .goCall f => [.goCall f]
  | .ret => [.ret]
  | .maybeRet => [.maybeRet]
def skelL : List Stmt → List Tok
  | [] => []
  | s :: ss => s.skel ++ skelL ss
end

-- ------------------------------------------------------------------ instructions and the compiler

inductive Instr where
  | lock (m : MuRef) | unlock (m : MuRef)
  | add (g : WgRef) | done (g : WgRef) | wait (g : WgRef)
  | act (a : Act)
  | br (c : Cond) (target : Nat)   -- continue with the next instruction when `c` holds, else jump
  | goto (target : Nat)
  | spawn (target : Nat)           -- a new thread starts at `target` with a copy of the locals
  | halt
deriving DecidableEq, Repr

/-- the deferred unlocks registered at the top level of a function body -/
def defers : List Stmt → List Mu
  | [] => []
  | .deferUnlock m :: ss => m :: defers ss
  | _ :: ss => defers ss

mutual
def Stmt.size : Stmt → Nat
  | .lock _ | .unlock _ | .add _ | .done _ | .wait _ | .act _ | .goCall _ | .ret => 1
  | .deferUnlock _ => 0
  | .maybeRet => 2
  | .call _ _ b => sizeL b + (defers b).length
  | .ite _ t none => sizeL t + 2
  | .ite _ t (some e) => sizeL t + sizeL e + 2
  | .loop _ b => sizeL b + 2
  | .go b => sizeL b + (defers b).length + 3
def sizeL : List Stmt → Nat
  | [] => 0
  | s :: ss => s.size + sizeL ss
end

/-
Layout (addresses are absolute; `ra` = where `return` of the enclosing function body goes: its epilogue):
  ite c T E     : br c →else ; T ; goto →end ; else: E ; end:
  loop c B      : start: br c →end ; B ; goto →start ; end:
  go B          : spawn →child ; goto →end ; child: B ; epilogue(B) ; halt ; end:
  call f B      : B ; epilogue(B)            (return inside B jumps to its epilogue, then falls through)
  maybeRet      : br (gen other) →next ; goto →ra ; next:
  epilogue(B)   : one `unlock m` per `defer m.Unlock()` at the top level of B
-/
mutual
def Stmt.compile (rc : Recv) (base ra : Nat) : Stmt → List Instr
  | .lock m => [.lock (rc.mu m)] | .unlock m => [.unlock (rc.mu m)] | .deferUnlock _ => []
  | .add g => [.add (rc.wg g)] | .done g => [.done (rc.wg g)] | .wait g => [.wait (rc.wg g)]
  | .act a => [.act a]
  | .goCall _ => [.act .external]
  | .ret => [.goto ra]
  | .maybeRet => [.br (.gen .other) (base + 2), .goto ra]
  | .call _ rc' b => compileL rc' base (base + sizeL b) b ++ (defers b).map (fun m => .unlock (rc'.mu m))
  | .ite c t none => .br c (base + sizeL t + 2) :: (compileL rc (base + 1) ra t ++ [.goto (base + sizeL t + 2)])
  | .ite c t (some e) =>
    .br c (base + sizeL t + 2) :: (compileL rc (base + 1) ra t ++ .goto (base + sizeL t + sizeL e + 2) :: compileL rc (base + sizeL t + 2) ra e)
  | .loop c b => .br c (base + sizeL b + 2) :: (compileL rc (base + 1) ra b ++ [.goto base])
  | .go b =>
    .spawn (base + 2) :: .goto (base + sizeL b + (defers b).length + 3) ::
      (compileL rc (base + 2) (base + 2 + sizeL b) b ++ (defers b).map (fun m => .unlock (rc.mu m)) ++ [.halt])
def compileL (rc : Recv) (base ra : Nat) : List Stmt → List Instr
  | [] => []
  | s :: ss => s.compile rc base ra ++ compileL rc (base + s.size) ra ss
end

/-- a top-level program: its body as a function, then `halt` -/
def compileF (base : Nat) (b : List Stmt) : List Instr :=
  compileL ⟨.sw, .sh⟩ base (base + sizeL b) b ++ (defers b).map (fun m => .unlock ((⟨.sw, .sh⟩ : Recv).mu m)) ++ [.halt]

def sizeF (b : List Stmt) : Nat := sizeL b + (defers b).length + 1

end EsbuildModel.CtxLock
