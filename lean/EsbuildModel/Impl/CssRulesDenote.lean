/-
How a rule tree of the model (Impl/CssRules.lean) is READ as a style sheet of the specification
(Spec/RuleCascade.lean).  Everything the model keeps as opaque text is interpreted by a parameter (`Reading`): which
elements a selector matches, which longhands a declaration sets, when a media query holds, whether a known at-rule
is a conditional group rule.  The theorems of Props/C12Rules.lean hold for EVERY reading that satisfies
`Reading.Sound` (the reading respects what the code treats as equal / safe / dead).

Nested style rules (CSS Nesting 1): `parent { d1; child { … }; d2 }` is read as the rules `parent { d1 }`,
`<child under parent> { … }`, `parent { d2 }` in this order (the nested-declarations rule of the current
specification: declarations keep their place among the nested rules).  What a relative selector `child` means below
the parent list is again a parameter (`nest`): for `&` = `:is(parent list)` it depends on the parent LIST (its
specificity is the greatest of the whole list), which is why merging two parents that contain nested rules would
not be sound (the code refuses it: `containsNestedRules`).
-/
import EsbuildModel.Impl.CssRules
import EsbuildModel.Spec.RuleCascade

namespace EsbuildModel.CssRules

open EsbuildModel.Spec.RuleCascade

structure Reading (Elem Env Pr Val : Type) where
  /-- a complex selector of a top-level style rule -/
  sel : Complex → Selector Elem
  /-- a complex selector of a style rule nested in a style rule with the given (already read) selector list -/
  nest : List (Selector Elem) → Complex → Selector Elem
  /-- key text, value text ↦ what the declaration sets (`none` everywhere: the user agent drops it) -/
  decl : String → String → Pr → Option Val
  /-- media query list ↦ its truth in an environment -/
  media : String → Env → Bool
  /-- at-token, prelude of a known at-rule ↦ its condition if it is a conditional group rule (`@supports` …);
      `none`: the rule does not contain style rules that take part in the cascade (`@font-face`, `@page` …) -/
  group : String → String → Option (Env → Bool)

variable {Elem Env Pr Val : Type}

def layerName (n : List String) : LayerPath := n.map Seg.named

/-- the selector list of a style rule below `parent` (`none`: not inside a style rule) -/
def Reading.sels (R : Reading Elem Env Pr Val) (parent : Option (List (Selector Elem))) (sels : List Complex) :
    List (Selector Elem) :=
  match parent with
  | none => sels.map R.sel
  | some S => sels.map (R.nest S)

mutual
/-- `parent`: the selector list of the enclosing style rule, if there is one -/
def denoteRule (R : Reading Elem Env Pr Val) (parent : Option (List (Selector Elem))) :
    Rule → List (SRule Elem Env Pr Val)
  | .sel sels body => denoteRules R (some (R.sels parent sels)) body
  | .decl key value important =>
    match parent with
    | some S => [.style S [⟨R.decl key value, important⟩]]
    | none => [.inert]                       -- a declaration outside a style rule is invalid
  | .media q body => [.group (R.media q) (denoteRules R parent body)]
  | .layerStmt names => [.layerStmt (names.map layerName)]
  | .layerBlock names anon body =>
    match names with
    | [] => [.layerBlock [.anon anon] (denoteRules R parent body)]
    | [n] => [.layerBlock (layerName n) (denoteRules R parent body)]
    | _ => [.layerStmt (names.map layerName)]      -- never produced by the parser (several names: no block)
  | .known tok prelude body =>
    match R.group tok prelude with
    | some cond => [.group cond (denoteRules R parent body)]
    | none => [.inert]
  | .other .. => [.inert]                   -- qualified rule with a prelude that is no selector list; @scope (not covered)
  | .keyframes _ => [.inert]
  | .badDecl _ => [.inert]                  -- the user agent drops what it cannot parse as a declaration
  | .atom _ => [.inert]
  | .comment _ => [.inert]
  | .atImport _ => [.inert]                 -- the linker removes @import rules before this stage
def denoteRules (R : Reading Elem Env Pr Val) (parent : Option (List (Selector Elem))) :
    List Rule → List (SRule Elem Env Pr Val)
  | [] => []
  | r :: rest => denoteRule R parent r ++ denoteRules R parent rest
end

/-- the style sheet a list of files stands for: their rules one after the other (what the linker prints) -/
def denoteSheet (R : Reading Elem Env Pr Val) (files : List (List Rule)) : List (SRule Elem Env Pr Val) :=
  denoteRules R none files.flatten

/-- what a reading has to respect for the theorems: the code's notions of "equal", "safe" and "dead" -/
structure Reading.Sound (R : Reading Elem Env Pr Val) : Prop where
  /-- selectors that `ComplexSelector.Equal` identifies mean the same -/
  sel_eq : ∀ c c', complexEq c c' = true → R.sel c = R.sel c'
  nest_eq : ∀ S c c', complexEq c c' = true → R.nest S c = R.nest S c'
  /-- the parent list matters as a set (`:is(a, a, b)` = `:is(a, b)`) -/
  nest_parent : ∀ S S' c, (∀ x, x ∈ S ↔ x ∈ S') → R.nest S c = R.nest S' c
  /-- at-tokens are ASCII case-insensitive -/
  group_eq : ∀ t t' p, foldEq t t' = true → R.group t p = R.group t' p
  /-- `:is()` / `:where()` with an empty list match nothing -/
  dead_sel : ∀ c e, containsDeadSelectors c = true → (R.sel c).applies e = false
  dead_nest : ∀ S c e, containsDeadSelectors c = true → (R.nest S c).applies e = false
  /-- the user agent understands every selector that `isSafeSelectors` accepts -/
  safe_sel : ∀ c, c.all compoundIsSafe = true → (R.sel c).understood = true
  /-- … and, below a parent list, exactly when it understands the parent list -/
  safe_nest : ∀ S c, c.all compoundIsSafe = true → (R.nest S c).understood = S.all (·.understood)

end EsbuildModel.CssRules
