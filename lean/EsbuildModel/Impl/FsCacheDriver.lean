import EsbuildModel.Impl.FsCacheRun
import EsbuildModel.Impl.AstCache
import EsbuildModel.Util.Wire
/-
Line protocol of kernel `fscache` (harness/cmd/hinternal/k_fscache.go):

  fscache hist  <plat> <gapSec> <res> <clock0> <world> <ops>     → answers of the reads: h<hex> | m<hex> | me, space separated
  fscache wd    <plat> <gapSec> <res> <clock0> <world> <ops> <acts> <paths>
                                                                 → the same, then `|`, then per path 1 | 0 | - (fires / quiet / no slot)
  fscache probe <gapSec> <mtimeNs> <nowNs> <ino> <size> <mode> <uid>   → `ok ino size sec nsec mode uid` | `unusable`  (modkey_unix.go)
  fscache ast   <reqs>                                           → one digit per request: 1 = hit

world: `p:ino:mtime:mode:uid:hex` separated by `,` (`-` = empty). ops / acts separated by `;`, fields by `,`:
  w,p,hex  c,p,ino,mode,uid,hex  r,p,ino,mode,uid,hex  t,p  m,p,mode  o,p,uid  d,p  u,p,mtime  v,p,ino,mtime,mode,uid,hex
  k,d  s,t  R,p[|act|act…]  X,p  N
-/
namespace EsbuildModel.FsCache
open EsbuildModel.StatCache EsbuildModel.Wire

def parseBytes (s : String) : Option Contents := parseHexUnits 2 s
def showBytes (c : Contents) : String := hexUnits 2 c

def parsePlat : String → Option Platform
  | "unix" => some .unix
  | "other" => some .other
  | _ => none

def parseEdit (fs : List String) : Option Edit :=
  match fs with
  | ["w", p, h] => do some (.write (← parseNat p) (← parseBytes h))
  | ["c", p, i, m, u, h] => do some (.create (← parseNat p) (← parseNat i) (← parseNat m) (← parseNat u) (← parseBytes h))
  | ["r", p, i, m, u, h] => do some (.replace (← parseNat p) (← parseNat i) (← parseNat m) (← parseNat u) (← parseBytes h))
  | ["t", p] => do some (.touch (← parseNat p))
  | ["m", p, m] => do some (.chmod (← parseNat p) (← parseNat m))
  | ["o", p, u] => do some (.chown (← parseNat p) (← parseNat u))
  | ["d", p] => do some (.delete (← parseNat p))
  | ["u", p, t] => do some (.chtimes (← parseNat p) (← parseInt t))
  | ["v", p, i, t, m, u, h] =>
    do some (.moveIn (← parseNat p) ⟨← parseNat i, ← parseInt t, ← parseNat m, ← parseNat u, ← parseBytes h⟩)
  | _ => none

def parseAct (s : String) : Option Act :=
  match s.splitOn "," with
  | ["k", d] => do some (.tick (← parseNat d))
  | ["s", t] => do some (.setClock (← parseInt t))
  | fs => do some (.edit (← parseEdit fs))

def parseActs (s : String) (sep : String) : Option (List Act) :=
  if s = "-" then some [] else (s.splitOn sep).mapM parseAct

def parseOp (s : String) : Option Op :=
  match s.splitOn "|" with
  | [] => none
  | head :: mids =>
    match head.splitOn "," with
    | ["R", p] => do some (.read (← parseNat p) (← mids.mapM parseAct))
    | ["X", p] => if mids.isEmpty then do some (.rawRead (← parseNat p)) else none
    | ["N"] => if mids.isEmpty then some .newBuild else none
    | _ => if mids.isEmpty then do some (.act (← parseAct head)) else none

def parseOps (s : String) : Option (List Op) :=
  if s = "-" then some [] else (s.splitOn ";").mapM parseOp

def parseWorld (s : String) : Option World :=
  if s = "-" then some (fun _ => none) else do
    let items ← (s.splitOn ",").mapM fun it =>
      match it.splitOn ":" with
      | [p, i, t, m, u, h] => do
        some (← parseNat p, (⟨← parseNat i, ← parseInt t, ← parseNat m, ← parseNat u, ← parseBytes h⟩ : File))
      | _ => none
    some (fun p => (items.find? (fun x => x.1 = p)).map (·.2))

def showAnswers (log : List LogEntry) : String :=
  if log.isEmpty then "-" else
  " ".intercalate (log.map fun l =>
    (if l.hit then "h" else "m") ++ (match l.answer with | .ok c => showBytes c | .err => "e"))

def showKeyRes : KeyRes → String
  | .ok k => s!"ok {k.inode} {k.size} {k.mtimeSec} {k.mtimeNsec} {k.mode} {k.uid}"
  | .unusable => "unusable"
  | .err => "err"

def parseSource (s : String) : Option (AstCache.Source × Nat) :=
  match s.splitOn "," with
  | [i, k, p, n, h, o] => do
    some (⟨← parseNat i, ← parseNat k, ← parseNat p, ← parseNat n, ← parseBytes h⟩, ← parseNat o)
  | _ => none

def driver (args : List String) : String :=
  match args with
  | ["hist", plat, gap, res, clock, world, ops] =>
    match parsePlat plat, parseInt gap, parseInt res, parseInt clock, parseWorld world, parseOps ops with
    | some plat, some gap, some res, some clock, some w, some ops =>
      if res ≤ 0 then "bad-op" else
      showAnswers (run ⟨plat, gap, res⟩ (State.init clock w) ops).log
    | _, _, _, _, _, _ => "bad-op"
  | ["wd", plat, gap, res, clock, world, ops, acts, paths] =>
    match parsePlat plat, parseInt gap, parseInt res, parseInt clock, parseWorld world, parseOps ops,
          parseActs acts ";", parseNatList paths with
    | some plat, some gap, some res, some clock, some w, some ops, some acts, some paths =>
      if res ≤ 0 then "bad-op" else
      let cfg : Cfg := ⟨plat, gap, res⟩
      let s := run cfg (State.init clock w) ops
      let s' := runActs cfg (resolveWatchData cfg s) acts
      let polls := paths.map fun p =>
        match s'.wd p with
        | none => "-"
        | some d => if pollFires cfg s' p d then "1" else "0"
      showAnswers s.log ++ " | " ++ (if polls.isEmpty then "-" else " ".intercalate polls)
    | _, _, _, _, _, _, _, _ => "bad-op"
  | ["probe", gap, mtime, now, ino, size, mode, uid] =>
    match parseInt gap, parseInt mtime, parseInt now, parseNat ino, parseNat size, parseNat mode, parseNat uid with
    | some gap, some mtime, some now, some ino, some size, some mode, some uid =>
      showKeyRes (modKeyUnix gap now (some ⟨ino, mtime, mode, uid, List.replicate size 0⟩))
    | _, _, _, _, _, _, _ => "bad-op"
  | ["ast", reqs] =>
    match (if reqs = "-" then some [] else (reqs.splitOn ";").mapM parseSource) with
    | some rs =>
      let out := AstCache.runReqs (fun (a b : Nat) => a == b) (fun _ _ => ()) AstCache.Cache.empty rs
      if out.isEmpty then "-" else String.join (out.map fun a => if a.2.1 then "1" else "0")
    | none => "bad-op"
  | _ => "bad-op"

end EsbuildModel.FsCache
