/-
The ESM/CommonJS interop helpers of esbuild's runtime (/repo/internal/runtime/runtime.go: the JavaScript text of
`__export`, `__copyProps`, `__reExport`, `__toESM`, `__toCommonJS`, `__esm`, `__esmMin`, `__commonJS`,
`__commonJSMin`), transcribed statement by statement onto a heap of JavaScript objects.

Why a heap and not the values of Spec/ObjectOps.lean: the helpers MUTATE objects they did not create (`to`, `target`,
`module.exports`) and the identity of `module.exports` matters during a cycle, so objects live at addresses here.
The property keys (`Key`) and the ordered property lists (`alGet`) are those of Spec/ObjectOps.lean.

* a value is a primitive or the address of an object; functions are objects with a `code`;
* a property is a data property (value, writable) or an accessor (getter, setter: `undefined` or a function),
  with [[Enumerable]] and [[Configurable]]; objects are ordinary objects (no Proxies): looking at keys and
  attributes is not an event;
* functions of the user ("host" functions: getters, the thunks `() => a` of `__export`, module bodies) are events
  answered by the WORLD, which may change the whole heap while it answers;
* the closures the helpers create (`() => from[key]`) are `Code.fwd from key`.
* addresses 0..5 are %Object.prototype%, %Function.prototype%, %Number.prototype%, %String.prototype%,
  %Boolean.prototype%, %Symbol.prototype%.  ASSUMPTION: the keys used are not names of their built-in properties
  (the model keeps these six objects empty unless the world writes to them).
* ASSUMPTION: the own properties `name` / `length` of the closures the helpers create are not modelled.
* recursion through getters and prototype chains is bounded by a fuel argument; running out is `Exc.fuel`
  (JavaScript: a RangeError or a non-terminating loop), reported, never hidden.
-/
import EsbuildModel.Spec.ObjectOps
namespace EsbuildModel.Interop
open EsbuildModel.Lower3 (Key alGet)

inductive Val where
  | undef
  | null
  | bool (b : Bool)
  | num (n : Int)
  | str (s : String)
  | sym (id : Nat)
  | obj (a : Nat)
deriving DecidableEq, Repr, Inhabited

/-- what a callable object does when it is called -/
inductive Code where
  | host (f : Nat)                 -- a function of the user: an event
  | fwd (frm : Val) (k : Key)      -- `() => from[key]` (ES5 text: `(k => from[k]).bind(null, key)`) made by __copyProps
deriving DecidableEq, Repr

inductive Slot where
  | data (v : Val) (w : Bool)      -- [[Value]], [[Writable]]
  | acc (g s : Val)                -- [[Get]], [[Set]]: undefined or a function object
deriving DecidableEq, Repr

structure PropD where
  slot : Slot
  en : Bool
  cf : Bool
deriving DecidableEq, Repr

structure Obj where
  proto : Val                      -- null or an object
  ext : Bool                       -- [[Extensible]]
  code : Option Code
  props : List (Key × PropD)        -- in creation order
deriving DecidableEq, Repr

abbrev Heap := List Obj

inductive Exc where
  | typeError                      -- thrown by the language itself
  | host (v : Val)                 -- thrown by a function of the user
  | illFormed                      -- outside the model (dangling address, a case the model does not follow)
  | fuel
deriving DecidableEq, Repr

inductive Res (α : Type) where
  | ok (a : α)
  | err (x : Exc)
deriving DecidableEq, Repr

inductive HRes where
  | ret (v : Val)
  | throw (v : Val)
deriving DecidableEq, Repr

inductive Ev where
  | call (f : Nat) (this : Val) (args : List Val)     -- host function f called
  | reent (r : Res Val)                               -- (lazy-init wrappers) a re-entrant call returned / threw
deriving DecidableEq, Repr

structure St where
  heap : Heap
  tr : List Ev
deriving Repr

structure World where
  /-- the answer of host function `f` called with `this` and arguments in the given state, and the heap afterwards -/
  host : Nat → Val → List Val → St → HRes × Heap

def M (α : Type) := St → Res α × St

instance : Monad M where
  pure a := fun s => (.ok a, s)
  bind m f := fun s => match m s with
    | (.ok a, s') => f a s'
    | (.err x, s') => (.err x, s')

def throwE {α : Type} (x : Exc) : M α := fun s => (.err x, s)
def getHeap : M Heap := fun s => (.ok s.heap, s)
def setHeap (h : Heap) : M Unit := fun s => (.ok (), { s with heap := h })

@[simp] theorem pure_run {α : Type} (a : α) (s : St) : (pure a : M α) s = (.ok a, s) := rfl
theorem bind_run {α β : Type} (m : M α) (f : α → M β) (s : St) :
    (m >>= f) s = match m s with | (.ok a, s') => f a s' | (.err x, s') => (.err x, s') := rfl

-- ---------------------------------------------------------------- basic operations

def truthy : Val → Bool
  | .undef => false
  | .null => false
  | .bool b => b
  | .num n => n != 0
  | .str s => s != ""
  | _ => true

def codeOf (h : Heap) : Val → Option Code
  | .obj a => match h[a]? with
    | some o => o.code
    | none => none
  | _ => none

/-- the [[Prototype]] of ToObject(v) for a primitive that is neither undefined nor null -/
def primProto : Val → Val
  | .num _ => .obj 2
  | .str _ => .obj 3
  | .bool _ => .obj 4
  | .sym _ => .obj 5
  | v => v

def arrayIndex? (s : String) : Option Nat :=
  match s.toNat? with
  | some i => if toString i = s ∧ i < 4294967295 then some i else none
  | none => none

def insertNat (x : Nat) : List Nat → List Nat
  | [] => [x]
  | y :: r => if x ≤ y then x :: y :: r else y :: insertNat x r

def sortNat : List Nat → List Nat
  | [] => []
  | x :: r => insertNat x (sortNat r)

def strKeysRaw (ps : List (Key × PropD)) : List String :=
  ps.filterMap fun p => match p.1 with
    | .str s => some s
    | .sym _ => none

/-- OrdinaryOwnPropertyKeys, string part = Object.getOwnPropertyNames: array indices ascending, then the other
strings in creation order -/
def Obj.strKeys (o : Obj) : List String :=
  let ks := strKeysRaw o.props
  (sortNat (ks.filterMap arrayIndex?)).map toString ++ ks.filter fun s => (arrayIndex? s).isNone

def Obj.symKeys (o : Obj) : List Nat :=
  o.props.filterMap fun p => match p.1 with
    | .sym j => some j
    | .str _ => none

def Obj.ownKeys (o : Obj) : List Key := o.strKeys.map .str ++ o.symKeys.map .sym

def callHost (w : World) (f : Nat) (this : Val) (args : List Val) : M Val := fun s =>
  match w.host f this args s with
  | (.ret v, h') => (.ok v, ⟨h', s.tr ++ [.call f this args]⟩)
  | (.throw v, h') => (.err (.host v), ⟨h', s.tr ++ [.call f this args]⟩)

/-- O.[[Get]](k, recv) of an ordinary object, walking the prototype chain -/
def getProp (w : World) : Nat → Val → Val → Key → M Val
  | 0, _, _, _ => throwE .fuel
  | n + 1, recv, cur, k => fun s =>
    match cur with
    | .null => (.ok .undef, s)
    | .obj a =>
      match s.heap[a]? with
      | none => (.err .illFormed, s)
      | some o =>
        match alGet o.props k with
        | some ⟨.data v _, _, _⟩ => (.ok v, s)
        | some ⟨.acc g _, _, _⟩ =>
          match g with
          | .undef => (.ok .undef, s)
          | _ =>
            match codeOf s.heap g with
            | some (.host f) => callHost w f recv [] s
            | some (.fwd frm key) =>
              match frm with
              | .obj _ => getProp w n frm frm key s          -- `from[key]`
              | _ => (.err .illFormed, s)
            | none => (.err .typeError, s)
        | none => getProp w n recv o.proto k s
    | _ => (.err .illFormed, s)

/-- `v[k]` (GetV).  A String value has the own properties `length` and the indices (ASSUMPTION: the strings used
consist of code points below U+10000, so that `String.length` is the UTF-16 length). -/
def getV (w : World) (n : Nat) (v : Val) (k : Key) : M Val :=
  match v with
  | .undef => throwE .typeError
  | .null => throwE .typeError
  | .obj _ => getProp w n v v k
  | .str s =>
    match k with
    | .str ks =>
      if ks = "length" then pure (.num s.length)
      else match arrayIndex? ks with
        | some i => if i < s.length then pure (.str (String.singleton (s.toList.getD i ' ')))
                    else getProp w n v (primProto (.str s)) k
        | none => getProp w n v (primProto (.str s)) k
    | .sym _ => getProp w n v (primProto (.str s)) k
  | v => getProp w n v (primProto v) k

/-- a (partial) property descriptor object as the helpers write it -/
structure Desc where
  value : Option Val := none
  get : Option Val := none
  set : Option Val := none
  writable : Option Bool := none
  enumerable : Option Bool := none
  configurable : Option Bool := none
deriving DecidableEq, Repr

def Desc.isAccessor (d : Desc) : Bool := d.get.isSome || d.set.isSome
def Desc.isData (d : Desc) : Bool := d.value.isSome || d.writable.isSome

def alPut {σ : Type} : List (Key × σ) → Key → σ → List (Key × σ)
  | [], k, s => [(k, s)]
  | (k', s') :: r, k, s => if k' = k then (k, s) :: r else (k', s') :: alPut r k s

def alDel {σ : Type} : List (Key × σ) → Key → List (Key × σ)
  | [], _ => []
  | (k', s') :: r, k => if k' = k then r else (k', s') :: alDel r k

/-- ValidateAndApplyPropertyDescriptor (ES2023 10.1.6.3): `none` = rejected (defineProperty throws a TypeError).
A new property goes to the end, a changed one keeps its place. -/
def defineOwn (o : Obj) (k : Key) (d : Desc) : Option Obj :=
  match alGet o.props k with
  | none =>
    if !o.ext then none
    else
      let sl := if d.isAccessor then Slot.acc (d.get.getD .undef) (d.set.getD .undef)
                else Slot.data (d.value.getD .undef) (d.writable.getD false)
      some { o with props := alPut o.props k ⟨sl, d.enumerable.getD false, d.configurable.getD false⟩ }
  | some cur =>
    let bad : Bool :=
      !cur.cf && (d.configurable == some true
        || (match d.enumerable with | some e => e != cur.en | none => false)
        || (match cur.slot with
            | .acc g st =>
              d.isData || (match d.get with | some g' => g' != g | none => false)
                || (match d.set with | some s' => s' != st | none => false)
            | .data v wr =>
              d.isAccessor || (!wr && (d.writable == some true
                || (match d.value with | some v' => v' != v | none => false)))))
    if bad then none
    else
      let sl : Slot :=
        match cur.slot with
        | .data v wr =>
          if d.isAccessor then .acc (d.get.getD .undef) (d.set.getD .undef)
          else .data (d.value.getD v) (d.writable.getD wr)
        | .acc g st =>
          if d.isData then .data (d.value.getD .undef) (d.writable.getD false)
          else .acc (d.get.getD g) (d.set.getD st)
      some { o with props := alPut o.props k ⟨sl, d.enumerable.getD cur.en, d.configurable.getD cur.cf⟩ }

def setObj (h : Heap) (a : Nat) (o : Obj) : Heap := h.set a o

def alloc (o : Obj) : M Val := fun s => (.ok (.obj s.heap.length), { s with heap := s.heap ++ [o] })

/-- `{}` / `Object.create(p)` -/
def plain (p : Val) : Obj := ⟨p, true, none, []⟩

/-- a `get` / `set` field of a descriptor object is acceptable: absent, undefined or callable -/
def okAccessorField (h : Heap) : Option Val → Bool
  | none => true
  | some .undef => true
  | some g => (codeOf h g).isSome

/-- `Object.defineProperty(to, k, d)`: TypeError on a non-object, on a getter / setter that is neither undefined
nor callable, and when the definition is rejected -/
def defPropV (to : Val) (k : Key) (d : Desc) : M Unit := fun s =>
  match to with
  | .obj a =>
    match s.heap[a]? with
    | none => (.err .illFormed, s)
    | some o =>
      if !(okAccessorField s.heap d.get && okAccessorField s.heap d.set) then (.err .typeError, s)
      else match defineOwn o k d with
        | none => (.err .typeError, s)
        | some o' => (.ok (), { s with heap := setObj s.heap a o' })
  | _ => (.err .typeError, s)

/-- `Object.prototype.hasOwnProperty.call(to, k)` -/
def hasOwnV (to : Val) (k : Key) : M Bool := fun s =>
  match to with
  | .undef => (.err .typeError, s)
  | .null => (.err .typeError, s)
  | .obj a =>
    match s.heap[a]? with
    | none => (.err .illFormed, s)
    | some o => (.ok (alGet o.props k).isSome, s)
  | .str t =>
    match k with
    | .str ks =>
      (.ok (ks = "length" || (match arrayIndex? ks with | some i => decide (i < t.length) | none => false)), s)
    | .sym _ => (.ok false, s)
  | _ => (.ok false, s)

-- ---------------------------------------------------------------- for-in

def Obj.enumerableStr (o : Obj) (k : String) : Bool :=
  match alGet o.props (.str k) with
  | some p => p.en
  | none => false

/-- the keys a `for (name in v)` loop is going to visit, collected when the loop starts: own enumerable string
keys, then those of the prototypes; a key already seen on an earlier object (enumerable or not) shadows later ones.
`none`: the chain is longer than the fuel / leaves the heap. -/
def forInKeys (h : Heap) : Nat → Val → List String → Option (List String)
  | 0, _, _ => none
  | _ + 1, .null, _ => some []
  | n + 1, .obj a, seen =>
    match h[a]? with
    | none => none
    | some o =>
      let own := o.strKeys
      match forInKeys h n o.proto (seen ++ own) with
      | none => none
      | some r => some (own.filter (fun k => !seen.contains k && o.enumerableStr k) ++ r)
  | _ + 1, _, _ => none

/-- when a key's turn comes the loop skips it if the object and its chain do not have it any more (ECMA-262 14.7.5.9:
"a property that is deleted before it is processed is ignored").  V8 (the reference of the kernel) does not look
at [[Enumerable]] again at that moment, and neither does this model. -/
def hasProp (h : Heap) : Nat → Val → String → Bool
  | 0, _, _ => false
  | n + 1, .obj a, k =>
    match h[a]? with
    | none => false
    | some o =>
      match alGet o.props (.str k) with
      | some _ => true
      | none => hasProp h n o.proto k
  | _ + 1, _, _ => false

-- ---------------------------------------------------------------- __export

/-
export var __export = (target, all) => {
  for (var name in all)
    __defProp(target, name, { get: all[name], enumerable: true })
}
-/
def exportLoop (w : World) (n : Nat) (target all : Val) : List String → M Unit
  | [] => pure ()
  | name :: rest => do
    let h ← getHeap
    if hasProp h (h.length + 1) all name then
      let g ← getV w n all (.str name)
      defPropV target (.str name) { get := some g, enumerable := some true }
    exportLoop w n target all rest


def export_ (w : World) (n : Nat) (target all : Val) : M Val := do
  match all with
  | .undef => pure .undef
  | .null => pure .undef
  | .obj _ =>
    let h ← getHeap
    match forInKeys h (h.length + 1) all [] with
    | none => throwE .illFormed
    | some names => do
      exportLoop w n target all names
      pure .undef
  -- a String: the loop visits the indices; the first `all["0"]` is a one-character string, which is not a getter
  | .str s => if s = "" then pure .undef else throwE .typeError
  | _ => pure .undef                                              -- numbers, booleans, symbols: no enumerable keys

-- ---------------------------------------------------------------- __copyProps, __reExport

def ownProp (from_ : Val) (k : Key) : M (Option PropD) := fun s =>
  match from_ with
  | .obj a =>
    match s.heap[a]? with
    | none => (.err .illFormed, s)
    | some o => (.ok (alGet o.props k), s)
  | _ => (.err .illFormed, s)

/-- the function object `() => from[key]`; its prototype is %Function.prototype% -/
def closure (from_ : Val) (key : String) : Obj := ⟨.obj 1, true, some (.fwd from_ (.str key)), []⟩

/-
for (let key of __getOwnPropNames(from))
  if (!__hasOwnProp.call(to, key) && key !== except)
    __defProp(to, key, { get: () => from[key], enumerable: !(desc = __getOwnPropDesc(from, key)) || desc.enumerable })
-/
def copyDefine (to from_ : Val) (key : String) : M Unit := do
  let desc ← ownProp from_ (.str key)
  let en := match desc with
    | none => true
    | some p => p.en
  let g ← alloc (closure from_ key)
  defPropV to (.str key) { get := some g, enumerable := some en }

def copyStep (to from_ except : Val) (key : String) : M Unit := fun s =>
  match hasOwnV to (.str key) s with
  | (.ok has, s1) => if !has && Val.str key != except then copyDefine to from_ key s1 else (.ok (), s1)
  | (.err x, s1) => (.err x, s1)

def copyLoop (to from_ except : Val) : List String → M Unit
  | [] => pure ()
  | key :: rest => do
    copyStep to from_ except key
    copyLoop to from_ except rest

/-
var __copyProps = (to, from, except, desc) => {
  if (from && typeof from === 'object' || typeof from === 'function')
    for (let key of __getOwnPropNames(from)) …
  return to
}
-/
def copyProps (to from_ except : Val) : M Val := do
  match from_ with
  | .obj a =>
    let h ← getHeap
    match h[a]? with
    | none => throwE .illFormed
    | some o => do
      copyLoop to from_ except o.strKeys
      pure to
  | _ => pure to

/-
export var __reExport = (target, mod, secondTarget) => (
  __copyProps(target, mod, 'default'),
  secondTarget && __copyProps(secondTarget, mod, 'default')
)
-/
def reExport (target mod second : Val) : M Val := do
  let _ ← copyProps target mod (.str "default")
  if truthy second then copyProps second mod (.str "default") else pure second

-- ---------------------------------------------------------------- __toESM, __toCommonJS

def getProtoOf (v : Val) : M Val := fun s =>
  match v with
  | .undef => (.err .typeError, s)
  | .null => (.err .typeError, s)
  | .obj a =>
    match s.heap[a]? with
    | none => (.err .illFormed, s)
    | some o => (.ok o.proto, s)
  | v => (.ok (primProto v), s)

/-
export var __toESM = (mod, isNodeMode, target) => (
  target = mod != null ? __create(__getProtoOf(mod)) : {},
  __copyProps(
    isNodeMode || !mod || !mod.__esModule
      ? __defProp(target, 'default', { value: mod, enumerable: true })
      : target,
    mod)
)
-/
def toESMTarget (mod : Val) : M Val :=
  match mod with
  | .undef => alloc (plain (.obj 0))
  | .null => alloc (plain (.obj 0))
  | _ => do
    let p ← getProtoOf mod
    alloc (plain p)

/-- the second argument of `__copyProps` and the call: `useMod ? __defProp(target, 'default', …) : target` -/
def toESMFinish (useMod : Bool) (target mod : Val) : M Val := fun s =>
  if useMod then
    match defPropV target (.str "default") { value := some mod, enumerable := some true } s with
    | (.ok _, s1) => copyProps target mod .undef s1
    | (.err x, s1) => (.err x, s1)
  else copyProps target mod .undef s

/-- `isNodeMode || !mod || !mod.__esModule` (short-circuit: `mod.__esModule` is read only when needed) -/
def toESMUseMod (w : World) (n : Nat) (mod isNodeMode : Val) : M Bool := fun s =>
  if truthy isNodeMode || !truthy mod then (.ok true, s)
  else match getV w n mod (.str "__esModule") s with
    | (.ok e, s') => (.ok (!truthy e), s')
    | (.err x, s') => (.err x, s')

def toESM (w : World) (n : Nat) (mod isNodeMode : Val) : M Val := do
  let target ← toESMTarget mod
  let useMod ← toESMUseMod w n mod isNodeMode
  toESMFinish useMod target mod

/-
export var __toCommonJS = mod => __copyProps(__defProp({}, '__esModule', { value: true }), mod)
-/
def toCommonJS (mod : Val) : M Val := do
  let t ← alloc (plain (.obj 0))
  defPropV t (.str "__esModule") { value := some (.bool true) }
  copyProps t mod .undef

-- ---------------------------------------------------------------- assignment (used by the CommonJS bodies and the tests)

/-- the last steps of OrdinarySet: the value goes to the receiver (an object) -/
def setOnReceiver (recv : Val) (k : Key) (v : Val) : M Bool := fun s =>
  match recv with
  | .obj r =>
    match s.heap[r]? with
    | none => (.err .illFormed, s)
    | some ro =>
      match alGet ro.props k with
      | some ⟨.acc _ _, _, _⟩ => (.ok false, s)
      | some ⟨.data _ wr, _, _⟩ =>
        if !wr then (.ok false, s)
        else match defineOwn ro k { value := some v } with
          | none => (.ok false, s)
          | some ro' => (.ok true, { s with heap := setObj s.heap r ro' })
      | none =>
        match defineOwn ro k { value := some v, writable := some true, enumerable := some true, configurable := some true } with
        | none => (.ok false, s)
        | some ro' => (.ok true, { s with heap := setObj s.heap r ro' })
  | _ => (.err .illFormed, s)

/-- O.[[Set]](k, v, recv) = `Reflect.set`: false when the assignment is refused (sloppy code ignores that,
strict code throws a TypeError) -/
def setProp (w : World) : Nat → Val → Val → Key → Val → M Bool
  | 0, _, _, _, _ => throwE .fuel
  | n + 1, recv, cur, k, v => fun s =>
    match cur with
    | .null => setOnReceiver recv k v s
    | .obj a =>
      match s.heap[a]? with
      | none => (.err .illFormed, s)
      | some o =>
        match alGet o.props k with
        | none => setProp w n recv o.proto k v s
        | some ⟨.data _ wr, _, _⟩ => if !wr then (.ok false, s) else setOnReceiver recv k v s
        | some ⟨.acc _ st, _, _⟩ =>
          match st with
          | .undef => (.ok false, s)
          | _ =>
            match codeOf s.heap st with
            | some (.host f) =>
              match callHost w f recv [v] s with
              | (.ok _, s') => (.ok true, s')
              | (.err x, s') => (.err x, s')
            | _ => (.err .illFormed, s)
    | _ => (.err .illFormed, s)

-- ---------------------------------------------------------------- __esm, __esmMin, __commonJS, __commonJSMin

/-- what the body of a lazily initialised module does IF a call starts it: a finite sequence of actions and of
re-entrant calls of the wrapper itself (each again described by what the body would do if that call started it),
then it returns or throws -/
inductive Body (α : Type) where
  | done (out : HRes)
  | act (a : α) (rest : Body α)
  | reenter (nested : Body α) (rest : Body α)
deriving Repr

/-- the function the wrapper calls: `fn[__getOwnPropNames(fn)[0]]` (normal variant) or `fn` itself (Min variant).
`ok none`: not callable (the call throws a TypeError).  An accessor as first property is outside the model. -/
def callee (min : Bool) (h : Heap) (fn : Val) : Res (Option Nat) :=
  match fn with
  | .obj a =>
    match h[a]? with
    | none => .err .illFormed
    | some o =>
      if min then
        match o.code with
        | some (.host f) => .ok (some f)
        | some (.fwd _ _) => .err .illFormed
        | none => .ok none
      else
        match o.strKeys with
        | [] =>
          -- fn[undefined]: the key "undefined"
          match alGet o.props (.str "undefined") with
          | none => .ok none
          | some _ => .err .illFormed
        | k :: _ =>
          match alGet o.props (.str k) with
          | some ⟨.data v _, _, _⟩ =>
            match codeOf h v with
            | some (.host f) => .ok (some f)
            | some (.fwd _ _) => .err .illFormed
            | none => .ok none
          | _ => .err .illFormed
  | _ => .ok none

/-- the variables captured by `__esm(fn, res, err)` -/
structure EsmCell where
  fn : Val
  res : Val
  err : Option Exc          -- `err = [e]`
deriving Repr, DecidableEq

/-
export var __esm = (fn, res, err) => function __init() {
  if (err) throw err[0]
  try {
    return fn && (res = (0, fn[__getOwnPropNames(fn)[0]])(fn = 0)), res
  } catch (e) {
    throw err = [e], e
  }
}
(__esmMin: `fn(fn = 0)` instead of the property lookup)
-/
def esmEnter (min : Bool) (runBody : EsmCell → St → Res Val × EsmCell × St) (cell : EsmCell) (s : St) :
    Res Val × EsmCell × St :=
  match cell.err with
  | some e => (.err e, cell, s)                                  -- if (err) throw err[0]
  | none =>
    if !truthy cell.fn then (.ok cell.res, cell, s)              -- fn && (…), res
    else
      match callee min s.heap cell.fn with
      | .err x => (.err x, cell, s)
      | .ok none =>
        -- `fn = 0` is evaluated before the call fails with a TypeError; catch: err = [e]
        (.err .typeError, { cell with fn := .num 0, err := some .typeError }, s)
      | .ok (some f) =>
        match runBody { cell with fn := .num 0 } { s with tr := s.tr ++ [.call f .undef [.num 0]] } with
        | (.ok v, cell', s') => (.ok v, { cell' with res := v }, s')                 -- res = <result>; return res
        | (.err x, cell', s') => (.err x, { cell' with err := some x }, s')          -- throw err = [e], e

/-- the body runs: every re-entrant call goes through `esmEnter` again -/
def esmRun (min : Bool) : Body Empty → EsmCell → St → Res Val × EsmCell × St
  | .done (.ret v), cell, s => (.ok v, cell, s)
  | .done (.throw v), cell, s => (.err (.host v), cell, s)
  | .act a _, _, _ => nomatch a
  | .reenter nested rest, cell, s =>
    match esmEnter min (fun c t => esmRun min nested c t) cell s with
    | (r, cell', s') => esmRun min rest cell' { s' with tr := s'.tr ++ [.reent r] }

/-- one call of the function `__esm(fn)` returned, in the state `cell`; `b`: what the body does if this call starts it -/
def esmCall (min : Bool) (b : Body Empty) (cell : EsmCell) (s : St) : Res Val × EsmCell × St :=
  esmEnter min (esmRun min b) cell s

/-- a sequence of calls from outside -/
def esmCalls (min : Bool) : List (Body Empty) → EsmCell → St → List (Res Val) × EsmCell × St
  | [], cell, s => ([], cell, s)
  | b :: bs, cell, s =>
    match esmCall min b cell s with
    | (r, cell', s') =>
      match esmCalls min bs cell' s' with
      | (rs, cell'', s'') => (r :: rs, cell'', s'')

inductive CjsAct where
  | setExport (k : Key) (v : Val)        -- exports[k] = v   (the `exports` parameter)
  | setModuleExports (v : Val)           -- module.exports = v
deriving Repr, DecidableEq

/-- the variable `mod` captured by `__commonJS(cb, mod)`: 0 / undefined or the module object -/
structure CjsCell where
  mod : Val
deriving Repr, DecidableEq

def readExports (mod : Val) (s : St) : Res Val :=
  match mod with
  | .obj a =>
    match s.heap[a]? with
    | some o =>
      match alGet o.props (.str "exports") with
      | some ⟨.data v _, _, _⟩ => .ok v
      | _ => .err .illFormed
    | none => .err .illFormed
  | _ => .err .illFormed

/-
export var __commonJS = (cb, mod) => function __require() {
  try {
    return mod || (0, cb[__getOwnPropNames(cb)[0]])((mod = { exports: {} }).exports, mod), mod.exports
  } catch (e) {
    throw mod = 0, e
  }
}
(__commonJSMin: `cb(…)` instead of the property lookup)
-/
def cjsEnter (min : Bool) (cb : Val) (runBody : Val → Val → CjsCell → St → Res Unit × CjsCell × St)
    (cell : CjsCell) (s : St) : Res Val × CjsCell × St :=
  if truthy cell.mod then
    match readExports cell.mod s with
    | .ok v => (.ok v, cell, s)
    | .err x => (.err x, { cell with mod := .num 0 }, s)
  else
    match callee min s.heap cb with
    | .err x => (.err x, { cell with mod := .num 0 }, s)
    | .ok c =>
      let e : Val := .obj s.heap.length
      let m : Val := .obj (s.heap.length + 1)
      let s1 : St := { s with heap := s.heap ++ [plain (.obj 0),
        ⟨.obj 0, true, none, [(.str "exports", ⟨.data e true, true, true⟩)]⟩] }
      match c with
      | none => (.err .typeError, { cell with mod := .num 0 }, s1)
      | some f =>
        match runBody e m { cell with mod := m } { s1 with tr := s1.tr ++ [.call f .undef [e, m]] } with
        | (.err x, _, s') => (.err x, { mod := .num 0 }, s')                  -- throw mod = 0, e
        | (.ok (), cell', s') =>
          match readExports cell'.mod s' with
          | .ok v => (.ok v, cell', s')
          | .err x => (.err x, { mod := .num 0 }, s')

def cjsAct (exports module : Val) (a : CjsAct) (s : St) : Res Unit × St :=
  match a with
  | .setExport k v =>
    match setOnReceiver exports k v s with
    | (.ok _, s') => (.ok (), s')
    | (.err x, s') => (.err x, s')
  | .setModuleExports v =>
    match setOnReceiver module (.str "exports") v s with
    | (.ok _, s') => (.ok (), s')
    | (.err x, s') => (.err x, s')

def cjsRun (min : Bool) (cb : Val) : Body CjsAct → Val → Val → CjsCell → St → Res Unit × CjsCell × St
  | .done (.ret _), _, _, cell, s => (.ok (), cell, s)
  | .done (.throw v), _, _, cell, s => (.err (.host v), cell, s)
  | .act a rest, e, m, cell, s =>
    match cjsAct e m a s with
    | (.ok (), s') => cjsRun min cb rest e m cell s'
    | (.err x, s') => (.err x, cell, s')
  | .reenter nested rest, e, m, cell, s =>
    match cjsEnter min cb (fun e' m' c t => cjsRun min cb nested e' m' c t) cell s with
    | (r, cell', s') => cjsRun min cb rest e m cell' { s' with tr := s'.tr ++ [.reent r] }

def cjsCall (min : Bool) (cb : Val) (b : Body CjsAct) (cell : CjsCell) (s : St) : Res Val × CjsCell × St :=
  cjsEnter min cb (cjsRun min cb b) cell s

def cjsCalls (min : Bool) (cb : Val) : List (Body CjsAct) → CjsCell → St → List (Res Val) × CjsCell × St
  | [], cell, s => ([], cell, s)
  | b :: bs, cell, s =>
    match cjsCall min cb b cell s with
    | (r, cell', s') =>
      match cjsCalls min cb bs cell' s' with
      | (rs, cell'', s'') => (r :: rs, cell'', s'')

end EsbuildModel.Interop
