import EsbuildModel.Util.Wire
/-
Model of the subpath-pattern part of Node's PACKAGE_IMPORTS_EXPORTS_RESOLVE as implemented by
`esmPackageImportsExportsResolve` and `expansionKeysArray.Less` (internal/resolver/package_json.go).
Keys and match keys are lists of characters; 42 = '*', 47 = '/'.
-/
namespace EsbuildModel.Exports

/-- `strings.IndexByte(key, '*')` -/
def starIndex : List Nat → Option Nat
  | [] => none
  | c :: cs => if c = 42 then some 0 else (starIndex cs).map (· + 1)

def baseLength (key : List Nat) : Nat := (starIndex key).getD key.length

/-- `expansionKeysArray.Less` (PATTERN_KEY_COMPARE < 0) -/
def less (a b : List Nat) : Bool :=
  if baseLength a > baseLength b then true
  else if baseLength b > baseLength a then false
  else if (starIndex a).isNone then false
  else if (starIndex b).isNone then true
  else if a.length > b.length then true
  else false

def isSuffix (s l : List Nat) : Bool := s.reverse.isPrefixOf l.reverse

/-- does expansion key `key` apply to `matchKey`, and with which left-over subpath? -/
def matchKeyWith (key matchKey : List Nat) : Option (List Nat) :=
  match starIndex key with
  | some star =>
    let base := key.take star
    let trailer := key.drop (star + 1)
    if base.isPrefixOf matchKey then
      if trailer.isEmpty || (isSuffix trailer matchKey && matchKey.length ≥ key.length) then
        some ((matchKey.drop base.length).take (matchKey.length - base.length - trailer.length))
      else none
    else none
  | none => if key.isPrefixOf matchKey then some (matchKey.drop key.length) else none

/-- the loop over the (already sorted) expansion keys: index of the first key that applies -/
def firstMatch (keys : List (List Nat)) (matchKey : List Nat) : Option (Nat × List Nat) :=
  match keys with
  | [] => none
  | k :: ks =>
    match matchKeyWith k matchKey with
    | some sub => some (0, sub)
    | none => (firstMatch ks matchKey).map fun (i, s) => (i + 1, s)

/-- insertion sort by `less` (stable), standing for `sort.Stable(expansionKeys)` -/
def insertKey (k : List Nat) : List (List Nat) → List (List Nat)
  | [] => [k]
  | x :: xs => if less k x then k :: x :: xs else x :: insertKey k xs

def sortKeys : List (List Nat) → List (List Nat)
  | [] => []
  | k :: ks => insertKey k (sortKeys ks)

/-- the whole selection: sort the pattern keys, pick the first that applies; returns (key, subpath) -/
def select (keys : List (List Nat)) (matchKey : List Nat) : Option (List Nat × List Nat) :=
  let sorted := sortKeys keys
  match firstMatch sorted matchKey with
  | some (i, sub) => some (sorted.getD i [], sub)
  | none => none

open Wire in
def driver (args : List String) : String :=
  match args with
  | ["select", keys, mk] =>
    match (if keys = "." then some [] else (keys.splitOn " ").mapM (parseHexUnits 2)), parseHexUnits 2 mk with
    | some ks, some m =>
      match select ks m with
      | some (k, sub) => s!"{hexUnits 2 k} {hexUnits 2 sub}"
      | none => "none"
    | _, _ => "bad-op"
  | _ => "bad-op"

end EsbuildModel.Exports
