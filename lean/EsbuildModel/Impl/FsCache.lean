import EsbuildModel.Spec.StatCache
/-
Model of esbuild's file CONTENT cache and of the modification key it trusts (work package `fscache`, C09).

Transcribed line by line from
  internal/fs/fs.go            `ModKey` struct, `modKeySafetyGap`, `modKeyUnusable`
  internal/fs/modkey_unix.go   `modKey` (darwin / freebsd / linux): stat, zero-mtime rule, too-new rule, six fields
  internal/fs/modkey_other.go  `modKey` (everything else): os.Stat, zero rule, too-new rule, three fields
  internal/cache/cache_fs.go   `FSCache.ReadFile` (hit rule, the miss path, what is stored)
  internal/fs/fs_real.go       the watch-mode recording of `realFS.ModKey` and `realFS.ReadFile` for a path that is a
                               file or missing, `realFS.WatchData` for the four file states (resolution of
                               `stateFileNeedModKey`, the predicates of `stateFileMissing`, `stateFileHasModKey`,
                               `stateFileUnusableModKey`)
plus the world they run in (spec side, Spec/StatCache.lean): files, a clock, a time-stamp resolution, edits.

Not modelled here (Impl/Watch.lean does): directories, `ReadDirectory` on the same path, kinds / symlinks.
Go's fixed-width integers are unbounded here (times are `Int` nanoseconds; `time.Time.Add` does not saturate).
-/
namespace EsbuildModel.FsCache
open EsbuildModel.StatCache

/-! ## the modification key -/

/-- `fs.ModKey` ("What gets filled in here is OS-dependent") -/
structure ModKey where
  inode : Nat
  size : Nat
  mtimeSec : Int
  mtimeNsec : Int
  mode : Nat
  uid : Nat
  deriving DecidableEq, Repr, Inhabited

/-- `ModKey{}` -/
def ModKey.zero : ModKey := ⟨0, 0, 0, 0, 0, 0⟩

inductive Platform where
  | unix      -- modkey_unix.go
  | other     -- modkey_other.go
  deriving DecidableEq, Repr, Inhabited

/-- answer of `modKey(path)`: `(key, nil)`, `(ModKey{}, modKeyUnusable)`, `(ModKey{}, <stat error>)` -/
inductive KeyRes where
  | ok (k : ModKey)
  | unusable
  | err
  deriving DecidableEq, Repr, Inhabited

/-- the `ModKey` value of the answer (`ModKey{}` beside every error) -/
def KeyRes.key : KeyRes → ModKey
  | .ok k => k
  | _ => ModKey.zero

/-- `err == nil` -/
def KeyRes.isOk : KeyRes → Bool
  | .ok _ => true
  | _ => false

/-- modkey_unix.go `modKey`; `gapSec` = `modKeySafetyGap`, `now` = `time.Now()` in ns.
`unix.TimeToTimespec` and the kernel's `st_mtim` both give 0 ≤ nsec < 10⁹ with floor seconds. -/
def modKeyUnix (gapSec now : Int) : Option File → KeyRes
  | none => .err                                               -- unix.Stat fails
  | some f =>
    let statSec := secOf f.mtime
    let statNsec := nsecOf f.mtime
    -- We can't detect changes if the file system zeros out the modification time
    if statSec = 0 ∧ statNsec = 0 then .unusable else
    -- Don't generate a modification key if the file is too new
    let nowSec := secOf now
    let nowNsec := nsecOf now
    let mtimeSec := statSec + gapSec
    if mtimeSec > nowSec ∨ (mtimeSec = nowSec ∧ statNsec > nowNsec) then .unusable else
    .ok { inode := f.inode, size := f.size, mtimeSec := statSec, mtimeNsec := statNsec, mode := f.mode, uid := f.uid }

/-- `var zeroTime time.Time` (January 1, year 1, 00:00 UTC) as Unix nanoseconds -/
def zeroTimeNs : Int := -62135596800 * nsPerSec

/-- modkey_other.go `modKey`; `mtime.Unix()` is the floor second, `modKeySafetyGap * time.Second` is a Duration in ns -/
def modKeyOther (gapSec now : Int) : Option File → KeyRes
  | none => .err                                               -- os.Stat fails
  | some f =>
    let mtime := f.mtime
    if mtime = zeroTimeNs ∨ secOf mtime = 0 then .unusable else
    if mtime + gapSec * nsPerSec > now then .unusable else      -- mtime.Add(gap * time.Second).After(time.Now())
    .ok { inode := 0, size := f.size, mtimeSec := secOf mtime, mtimeNsec := 0, mode := f.mode, uid := 0 }

def modKey : Platform → Int → Int → Option File → KeyRes
  | .unix => modKeyUnix
  | .other => modKeyOther

/-! ## FSCache -/

/-- `fsEntry` -/
structure Entry where
  contents : Contents
  modKey : ModKey
  isModKeyUsable : Bool
  deriving DecidableEq, Repr, Inhabited

/-- `FSCache.entries` (a Go map keyed by path; paths are numbered) -/
abbrev Cache := Nat → Option Entry

def upd {α : Type} (m : Nat → α) (k : Nat) (v : α) : Nat → α := fun k' => if k' = k then v else m k'

/-- the hit test of `FSCache.ReadFile`:
`entry != nil && entry.isModKeyUsable && modKeyErr == nil && entry.modKey == modKey` → `entry.contents` -/
def hitOf (entry : Option Entry) (kr : KeyRes) : Option Contents :=
  match entry with
  | none => none
  | some e => if e.isModKeyUsable ∧ kr.isOk ∧ e.modKey = kr.key then some e.contents else none

/-- the entry stored after a successful `fs.ReadFile` on the miss path -/
def entryOf (c : Contents) (kr : KeyRes) : Entry :=
  { contents := c, modKey := kr.key, isModKeyUsable := kr.isOk }

/-! ## watch-mode recording for a file path (fs_real.go) -/

inductive WState where
  | none          -- stateNone (zero value of a fresh map slot)
  | hasModKey     -- stateFileHasModKey
  | needModKey    -- stateFileNeedModKey
  | missing       -- stateFileMissing
  | unusable      -- stateFileUnusableModKey
  deriving DecidableEq, Repr, Inhabited

/-- `privateWatchData` (file part) -/
structure WD where
  state : WState
  fileContents : Contents
  modKey : ModKey
  deriving DecidableEq, Repr, Inhabited

/-- Go's `data, ok := fs.watchData[path]`: the zero value when absent -/
def wdZero : WD := ⟨.none, [], ModKey.zero⟩

/-- the recording part of `realFS.ModKey` -/
def wdModKey (slot : Option WD) (kr : KeyRes) : WD :=
  match slot with
  | none =>
    -- `!ok`
    let st := match kr with
      | .unusable => WState.unusable
      | .err => WState.missing
      | .ok _ => WState.hasModKey
    { wdZero with state := st, modKey := kr.key }
  | some d =>
    -- `else if data.state == stateFileNeedModKey { data.state = stateFileHasModKey }` — whatever `err` is
    let st := if d.state = .needModKey then WState.hasModKey else d.state
    { d with state := st, modKey := kr.key }

/-- the recording part of `realFS.ReadFile` (`fileContents` is `""` beside an error) -/
def wdReadFile (slot : Option WD) (rd : ReadRes) : WD :=
  match rd with
  | .err =>
    match slot with
    | none => { wdZero with state := .missing, fileContents := [] }
    | some d => { d with state := .missing, fileContents := [] }
  | .ok c =>
    match slot with
    | none => { wdZero with state := .needModKey, fileContents := c }
    | some d => { d with fileContents := c }

/-- `realFS.WatchData()`, first half of the loop body: `stateFileNeedModKey` is resolved with a key taken NOW -/
def wdResolve (d : WD) (kr : KeyRes) : WD :=
  if d.state = .needModKey then
    match kr with
    | .unusable => { d with state := .unusable }
    | .err => { d with state := .missing }
    | .ok k => { d with state := .hasModKey, modKey := k }
  else d

/-- the predicate `WatchData()` builds for the slot, evaluated later when the path holds `f` and `modKey` answers `kr`:
`true` = the closure returns the path (dirty). A slot left in `stateNone` / `stateFileNeedModKey` gets no closure. -/
def predFires (d : WD) (kr : KeyRes) (f : Option File) : Bool :=
  match d.state with
  | .missing => f.isSome                                            -- os.Stat ok && !IsDir
  | .hasModKey => !kr.isOk || decide (kr.key ≠ d.modKey)             -- err != nil || key != data.modKey
  | .unusable => decide (resOf f ≠ .ok d.fileContents)               -- ReadFile fails || contents differ
  | .none => false
  | .needModKey => false

end EsbuildModel.FsCache
