import EsbuildModel.Impl.CjsWrap
import EsbuildModel.Util.Wire
/-!
Line protocol of kernel `cjswrap`:

  cjswrap <TAB> link <TAB> F:M:S:G <TAB> entries <TAB> order <TAB> file|file|…

`F` format (0 preserve, 1 iife, 2 cjs, 3 esm), `M` mode (0 pass-through, 1 convert-format, 2 bundle), `S` code
splitting, `G` a global name is set; `entries` = positions of the user-specified entry points, `order` = positions
in the order of `ReachableFiles` (comma separated, `-` = empty).  A file is `K;abcd;recs;stars` with `K` the
ExportsKind the PARSER gave it (n c e d), `abcd` the bits isRuntime / IsEntryPoint / HasLazyExport /
ExportKeyword, `recs` the import records `k:t:s:d` (kind s r d o, target position or x, ContainsImportStar,
ContainsDefaultAlias) and `stars` the ExportStarImportRecords.  Answer: per file
`K:W:didWrap:force:needsExportsVar` joined by `|`, or `PANIC`.
-/
namespace EsbuildModel.CjsWrap
open EsbuildModel.Wire

def parseBit (c : Char) : Option Bool := if c = '1' then some true else if c = '0' then some false else none
def parseBitS (s : String) : Option Bool := match s.toList with | [c] => parseBit c | _ => none

def parseKind (s : String) : Option Kind :=
  match s with | "n" => some .none | "c" => some .cjs | "e" => some .esm | "d" => some .dyn | _ => none

def parseRecKind (s : String) : Option RecKind :=
  match s with | "s" => some .stmt | "r" => some .require | "d" => some .dynamic | "o" => some .other | _ => none

def parseRec (s : String) : Option Rec :=
  match s.splitOn ":" with
  | [k, t, st, d] => do
    let k ← parseRecKind k
    let t ← if t = "x" then some none else (parseNat t).map some
    let st ← parseBitS st
    let d ← parseBitS d
    some ⟨k, t, st, d⟩
  | _ => none

def parseList {α : Type} (f : String → Option α) (sep : String) (s : String) : Option (List α) :=
  if s = "-" then some [] else (s.splitOn sep).mapM f

def parseFile (s : String) : Option File :=
  match s.splitOn ";" with
  | [k, bits, recs, stars] => do
    let k ← parseKind k
    let (rt, en, lz, kw) ← match bits.toList with
      | [a, b, c, d] => do some (← parseBit a, ← parseBit b, ← parseBit c, ← parseBit d)
      | _ => none
    let recs ← parseList parseRec "," recs
    let stars ← parseNatList stars
    some { isRuntime := rt, entry := en, lazyExport := lz, exportKw := kw, recs := recs, stars := stars,
           kind := k, wrap := .none, didWrap := false, force := false, needsExportsVar := false }
  | _ => none

def parseOpts (s : String) : Option Opts :=
  match s.splitOn ":" with
  | [f, m, sp, g] => do
    let f ← match f with | "0" => some Format.preserve | "1" => some .iife | "2" => some .cjs | "3" => some .esm | _ => none
    let m ← match m with | "0" => some Mode.passThrough | "1" => some .convertFormat | "2" => some .bundle | _ => none
    some ⟨f, m, ← parseBitS sp, ← parseBitS g⟩
  | _ => none

def showKind : Kind → String | .none => "n" | .cjs => "c" | .esm => "e" | .dyn => "d"
def showWrap : Wrap → String | .none => "N" | .cjs => "C" | .esm => "E"
def showBit (b : Bool) : String := if b then "1" else "0"

def showFile (f : File) : String :=
  showKind f.kind ++ ":" ++ showWrap f.wrap ++ ":" ++ showBit f.didWrap ++ ":" ++ showBit f.force ++ ":" ++ showBit f.needsExportsVar

def showFiles (fs : Files) : String := if fs.isEmpty then "-" else "|".intercalate (fs.map showFile)

/-! executable forms of the hypotheses of `Props/C02Wrap.lean` (`Lemmas/CjsWrapCheck.lean` shows they imply them);
op `hyp` evaluates them on a table, so that the correspondence run also shows that real tables meet them -/

def wfB (fs : Files) : Bool :=
  fs.all (fun f => f.recs.all (fun r => match r.target with | none => true | some t => decide (t < fs.length)) &&
    f.stars.all (fun s => decide (s < f.recs.length)))

def freshB (fs : Files) : Bool := fs.all (fun f => f.wrap == .none && !f.didWrap)

def coversB (order : List Nat) (fs : Files) : Bool :=
  order.all (fun i => decide (i < fs.length)) && (List.range fs.length).all (fun i => order.contains i)

def runtimeEsmB (fs : Files) : Bool := fs.all (fun f => !f.isRuntime || f.kind == .esm)

def noInitialDynB (fs : Files) : Bool := fs.all (fun f => f.kind != .dyn)

def driver (args : List String) : String :=
  match args with
  | ["hyp", o, entries, order, files] =>
    match parseOpts o, parseNatList entries, parseNatList order, parseList parseFile "|" files with
    | some o, some es, some ord, some fs =>
      match forM (entryOne o) es fs with
      | none => "PANIC"
      | some fs0 =>
        if wfB fs0 && freshB fs0 && coversB ord fs0 && runtimeEsmB fs0 && noInitialDynB fs0 then "ok" else "hypothesis-fails"
    | _, _, _, _ => "bad-op"
  | ["link", o, entries, order, files] =>
    match parseOpts o, parseNatList entries, parseNatList order, parseList parseFile "|" files with
    | some o, some es, some ord, some fs =>
      match link o es ord fs with
      | none => "PANIC"
      | some fs' => showFiles fs'
    | _, _, _, _ => "bad-op"
  | _ => "bad-op"

end EsbuildModel.CjsWrap
