import EsbuildModel.Impl.StrLex
import EsbuildModel.Gen.IdentTables
import EsbuildModel.Spec.Unicode
/-
Model of how esbuild READS and PRINTS identifiers.

internal/js_ast/js_ident.go
  * `isIdStart` / `isIdCont` (+ `…Both`)   — IsIdentifierStart / IsIdentifierContinue (/ …ES5AndESNext): the ASCII `switch`,
      `codePoint < 0x7F → false`, ZWNJ / ZWJ, then the generated `unicode.RangeTable` (a PARAMETER `Tables`; the driver uses
      the regenerated `Gen.IdentTables`);
  * `isIdentifierRunes`, `isIdentifierUTF16` — IsIdentifier, IsIdentifierES5AndESNext, IsIdentifierUTF16, IsIdentifierES5AndESNextUTF16;
  * `forceValid`                            — ForceValidIdentifier.
internal/js_lexer/js_lexer.go  (`next` = the identifier arms of `(*Lexer).Next`, NotJSON)
  * the `case '_', '$', 'a' … 'Z'` arm (byte fast path, slow path for non-ASCII, `Keywords[lexer.Raw()]`), the `case '\\'` arm, the
    identifier part of the `default` arm (IsWhitespace first), the `case '#'` arm (hashbang test, private names);
  * `pass1` — the first pass of `scanIdentifierWithEscapes` as the state machine the nested loops are; `finishEscaped` — its second
    pass: `tryToDecodeEscapeSequences(lexer.start, lexer.Raw(), true)` (the existing model `StrLex.decode`), `helpers.UTF16ToString`
    (`joinUnits`), `identifier[1:]` for private names, `IsIdentifier` over the `range` of the (WTF-8) string (`rangeRunes`), the
    "Invalid identifier" error (logged, no panic), `Keywords[text]` → TEscapedKeyword.
internal/js_printer/js_printer.go
  * `canPrintIdentifier` / `canPrintIdentifierUTF16` (= CanEscapeIdentifier), helpers.ContainsNonBMPCodePoint(UTF16);
  * `quoteIdentifier` — QuoteIdentifier (what `printIdentifier` appends when ASCIIOnly; otherwise the name itself);
  * `printIdentifierUTF16`; `needSpace` — the test of printSpaceBeforeIdentifier.

Source text and Go strings are lists of code points (what `range` / `utf8.DecodeRuneInString` yield on well-formed UTF-8); positions and
lengths are counted in characters from `lexer.start`; the driver converts to byte offsets.  At the end of the text the lexer's
`codePoint` is -1: the model spells that case out (`[]`).
-/
namespace EsbuildModel.IdentLex
open EsbuildModel.StrLex (decode Dec hexVal)

/-- the answers of `unicode.Is(<generated table>, c)`; only asked for `c ≥ 0x7F` -/
structure Tables where
  start : Nat → Bool
  cont : Nat → Bool
  startBoth : Nat → Bool
  contBoth : Nat → Bool

/-- the first `switch` of IsIdentifierStart -/
def asciiStart (c : Nat) : Bool := c == 95 || c == 36 || (97 ≤ c && c ≤ 122) || (65 ≤ c && c ≤ 90)
/-- the first `switch` of IsIdentifierContinue -/
def asciiCont (c : Nat) : Bool := asciiStart c || (48 ≤ c && c ≤ 57)

/-- js_ast.IsIdentifierStart -/
def isIdStart (T : Tables) (c : Nat) : Bool :=
  if asciiStart c then true else if c < 127 then false else T.start c
/-- js_ast.IsIdentifierContinue -/
def isIdCont (T : Tables) (c : Nat) : Bool :=
  if asciiCont c then true else if c < 127 then false else if c == 0x200C || c == 0x200D then true else T.cont c
/-- js_ast.IsIdentifierStartES5AndESNext -/
def isIdStartBoth (T : Tables) (c : Nat) : Bool :=
  if asciiStart c then true else if c < 127 then false else T.startBoth c
/-- js_ast.IsIdentifierContinueES5AndESNext -/
def isIdContBoth (T : Tables) (c : Nat) : Bool :=
  if asciiCont c then true else if c < 127 then false else if c == 0x200C || c == 0x200D then true else T.contBoth c

/-- `IsIdentifier(text)` / `IsIdentifierES5AndESNext(text)` over the runes that `range text` yields -/
def isIdentifierWith (st ct : Nat → Bool) : List Nat → Bool
  | [] => false
  | c :: r => st c && r.all ct
def isIdentifierRunes (T : Tables) : List Nat → Bool := isIdentifierWith (isIdStart T) (isIdCont T)
def isIdentifierBothRunes (T : Tables) : List Nat → Bool := isIdentifierWith (isIdStartBoth T) (isIdContBoth T)

def isHigh (u : Nat) : Bool := 0xD800 ≤ u && u ≤ 0xDBFF
def isLow (u : Nat) : Bool := 0xDC00 ≤ u && u ≤ 0xDFFF
def isSurrogate (c : Nat) : Bool := 0xD800 ≤ c && c ≤ 0xDFFF

/-- the pairing loop shared by helpers.UTF16ToString, IsIdentifierUTF16 and printIdentifierUTF16: a high surrogate followed by a
low one becomes one code point, every other unit stays as it is (lone surrogates included) -/
def joinUnits : List Nat → List Nat
  | [] => []
  | [u] => [u]
  | u :: v :: r =>
    if isHigh u && isLow v then ((u - 0xD800) * 1024 + (v - 0xDC00) + 0x10000) :: joinUnits r
    else u :: joinUnits (v :: r)

/-- what `for _, c := range s` yields on `s = UTF16ToString(units)`: the string is WTF-8, the three bytes of a lone surrogate are
invalid UTF-8 and decode to three U+FFFD -/
def rangeRunes (cps : List Nat) : List Nat :=
  cps.flatMap (fun c => if isSurrogate c then [65533, 65533, 65533] else [c])

/-- IsIdentifierUTF16 / IsIdentifierES5AndESNextUTF16: the same pairing, but a lone surrogate is asked as itself -/
def isIdentifierUTF16 (T : Tables) (units : List Nat) : Bool := isIdentifierRunes T (joinUnits units)
def isIdentifierBothUTF16 (T : Tables) (units : List Nat) : Bool := isIdentifierBothRunes T (joinUnits units)

/-- ForceValidIdentifier(prefix, text): `utf8.DecodeRuneInString("")` is (U+FFFD, 0), so an empty text yields one character too -/
def forceValid (T : Tables) (pfx text : List Nat) : List Nat :=
  let c := text.head?.getD 65533
  pfx ++ (if isIdStart T c then c else 95) :: (text.drop 1).map (fun d => if isIdCont T d then d else 95)

/-- js_ast.IsWhitespace -/
def isWhitespace (c : Nat) : Bool :=
  c == 9 || c == 11 || c == 12 || c == 32 || c == 160 || c == 0x1680 || (0x2000 ≤ c && c ≤ 0x200A) ||
  c == 0x202F || c == 0x205F || c == 0x3000 || c == 0xFEFF

/-- the keys of `js_lexer.Keywords` as code point lists -/
def keywordList : List (List Nat) := Gen.IdentTables.keywords.map (fun s => s.toList.map Char.toNat)
def isKeyword (name : List Nat) : Bool := keywordList.contains name

/-! ### the lexer -/

inductive Kind
  | ident            -- TIdentifier
  | keyword          -- the token `Keywords[name]`
  | escapedKeyword   -- TEscapedKeyword
  | priv             -- TPrivateIdentifier
  deriving DecidableEq, Repr

inductive Res
  /-- `len` = lexer.end - lexer.start, `name` = lexer.Identifier.String (code points; a lone surrogate stands for its WTF-8 bytes),
  `raw` = Identifier.Start is valid (the name is a slice of the source), `invalid` = "Invalid identifier" was logged -/
  | tok (k : Kind) (len : Nat) (name : List Nat) (raw : Bool) (invalid : Bool)
  /-- lexer.SyntaxError() with lexer.end at `pos` -/
  | syntax (pos : Nat)
  /-- "Unicode escape sequence is out of range" -/
  | outOfRange (pos len : Nat)
  /-- not one of the modelled arms (another token, white space, a comment, a hashbang, TSyntaxError, end of file) -/
  | other
  deriving DecidableEq, Repr

/-- number of leading characters for which `p` holds: `for p(lexer.codePoint) { lexer.step() }` -/
def spanLen (p : Nat → Bool) : List Nat → Nat
  | [] => 0
  | c :: r => if p c then spanLen p r + 1 else 0

/-- the byte loop of the fast path: `a-z A-Z 0-9 _ $` -/
def isFastByte (c : Nat) : Bool := (97 ≤ c && c ≤ 122) || (65 ≤ c && c ≤ 90) || (48 ≤ c && c ≤ 57) || c == 95 || c == 36

/-- the slow path of the `'a' … 'Z'` arm: `lexer.step(); if lexer.codePoint >= 0x80 { for IsIdentifierContinue(lexer.codePoint) { lexer.step() } }`
on the text after the byte loop -/
def slowLen (T : Tables) (after : List Nat) : Nat :=
  match after with
  | [] => 0                                                      -- -1 is not ≥ 0x80
  | d :: _ => if d ≥ 128 then spanLen (isIdCont T) after else 0

/-- where the first pass of scanIdentifierWithEscapes is -/
inductive St
  | top             -- head of the `for`
  | afterBackslash  -- after `\`: expects `u`
  | afterU          -- after `\u`: `{` or the first of four digits
  | brace           -- inside `\u{`
  | fixed (k : Nat) -- `k + 1` digits of `\uXXXX` still to read
  deriving DecidableEq, Repr

inductive Pass
  | ok (endPos : Nat)
  | syntax (pos : Nat)
  deriving DecidableEq, Repr

def isHex (c : Nat) : Bool := (hexVal c).isSome

/-- first pass of scanIdentifierWithEscapes from the current character on; `i` = its index from lexer.start -/
def pass1 (T : Tables) : St → List Nat → Nat → Pass
  | .top, [], i => .ok i                                         -- IsIdentifierContinue(-1) = false: break
  | .top, c :: r, i =>
    if c = 92 then pass1 T .afterBackslash r (i + 1)
    else if isIdCont T c then pass1 T .top r (i + 1)
    else .ok i
  | .afterBackslash, [], i => .syntax i                          -- codePoint != 'u'
  | .afterBackslash, c :: r, i => if c = 117 then pass1 T .afterU r (i + 1) else .syntax i
  | .afterU, [], i => .syntax i                                  -- -1 is not '{'; first round of the fixed loop: default
  | .afterU, c :: r, i =>
    if c = 123 then pass1 T .brace r (i + 1)
    else if isHex c then pass1 T (.fixed 2) r (i + 1)
    else .syntax i
  | .brace, [], i => .syntax i                                   -- -1 != '}': default arm
  | .brace, c :: r, i =>
    if c = 125 then pass1 T .top r (i + 1)                       -- step() over '}'; continue
    else if isHex c then pass1 T .brace r (i + 1)
    else .syntax i
  | .fixed _, [], i => .syntax i
  | .fixed k, c :: r, i =>
    if isHex c then (match k with | 0 => pass1 T .top r (i + 1) | k + 1 => pass1 T (.fixed k) r (i + 1))
    else .syntax i

/-- second pass of scanIdentifierWithEscapes: `src` from lexer.start, the token is its first `len` characters -/
def finishEscaped (T : Tables) (isPriv : Bool) (src : List Nat) (len : Nat) : Res :=
  match decode true (src.take len) with
  | .fail pos _ => .syntax pos                                   -- lexer.end = end; lexer.SyntaxError()
  | .range pos n => .outOfRange pos n
  | .ok units _ =>
    let name := joinUnits units                                  -- helpers.UTF16ToString(decoded)
    let ident := if isPriv then name.drop 1 else name            -- identifier[1:]: skip over the "#" (one byte)
    let invalid := !isIdentifierRunes T (rangeRunes ident)
    if isPriv then .tok .priv len name false invalid             -- the returned token is dropped by the caller
    else if isKeyword name then .tok .escapedKeyword len name false invalid
    else .tok .ident len name false invalid

/-- `scanIdentifierWithEscapes(kind)` entered with the current character at index `at` -/
def scanEscaped (T : Tables) (isPriv : Bool) (src : List Nat) (pos : Nat) : Res :=
  match pass1 T .top (src.drop pos) pos with
  | .syntax p => .syntax p
  | .ok len => finishEscaped T isPriv src len

/-- after the plain characters of a name: a `\` sends the whole token through scanIdentifierWithEscapes, otherwise the
name is `lexer.Raw()` -/
def afterPlain (T : Tables) (k : List Nat → Kind) (isPriv : Bool) (src : List Nat) (len : Nat) : Res :=
  if (src.drop len).head? = some 92 then scanEscaped T isPriv src len
  else .tok (k (src.take len)) len (src.take len) true false

/-- `Next()` with `lexer.start` at the head of `src`. `atFileStart` = `lexer.start == 0` -/
def next (T : Tables) (atFileStart : Bool) (src : List Nat) : Res :=
  match src with
  | [] => .other
  | c :: rest =>
    if c = 35 then                                               -- case '#'
      if atFileStart && rest.head? == some 33 then .other        -- "#!": hashbang
      else
        match rest with
        | [] => .syntax 1                                        -- IsIdentifierStart(-1) = false
        | d :: r =>
          if d = 92 then scanEscaped T true src 1
          else if !isIdStart T d then .syntax 1
          else afterPlain T (fun _ => .priv) true src (2 + spanLen (isIdCont T) r)
    else if asciiStart c then                                    -- case '_', '$', 'a' … 'Z'
      let n1 := spanLen isFastByte rest                          -- the byte loop
      let n2 := slowLen T (rest.drop n1)                         -- the slow path for the remaining non-ASCII characters
      afterPlain T (fun name => if isKeyword name then .keyword else .ident) false src (1 + n1 + n2)
    else if c = 92 then scanEscaped T false src 0                -- case '\\'
    else if c = 0x2028 ∨ c = 0x2029 then .other                  -- own case: line terminators
    else if isWhitespace c then .other                           -- default: unusual white space first
    else if isIdStart T c then                                   -- default: IsIdentifierStart (no keyword lookup)
      afterPlain T (fun _ => .ident) false src (1 + spanLen (isIdCont T) rest)
    else .other                                                  -- another case, or TSyntaxError

/-! ### the printer -/

/-- helpers.ContainsNonBMPCodePoint -/
def containsNonBMP (name : List Nat) : Bool := name.any (fun c => c > 0xFFFF)

/-- helpers.ContainsNonBMPCodePointUTF16: any high surrogate directly followed by a low one -/
def containsNonBMPUTF16 : List Nat → Bool
  | [] => false
  | [_] => false
  | u :: v :: r => (isHigh u && isLow v) || containsNonBMPUTF16 (v :: r)

/-- canPrintIdentifier / CanEscapeIdentifier; `noUE` = UnsupportedFeatures.Has(compat.UnicodeEscapes) -/
def canPrintIdentifier (T : Tables) (asciiOnly noUE : Bool) (name : List Nat) : Bool :=
  isIdentifierBothRunes T name && (!asciiOnly || !noUE || !containsNonBMP name)

def canPrintIdentifierUTF16 (T : Tables) (asciiOnly noUE : Bool) (units : List Nat) : Bool :=
  isIdentifierBothUTF16 T units && (!asciiOnly || !noUE || !containsNonBMPUTF16 units)

/-- `hexChars[d]` -/
def hexUpper (d : Nat) : Nat := if d < 10 then 48 + d else 55 + d

/-- `'\\', 'u', hexChars[c>>12], hexChars[(c>>8)&15], hexChars[(c>>4)&15], hexChars[c&15]` -/
def escape4 (c : Nat) : List Nat := [92, 117, hexUpper (c / 4096), hexUpper (c / 256 % 16), hexUpper (c / 16 % 16), hexUpper (c % 16)]

/-- the digits of `fmt.Sprintf("%X", c)`, most significant first, for `c > 0` with fuel ≥ the number of digits -/
def upperDigits : Nat → Nat → List Nat → List Nat
  | 0, _, acc => acc
  | fuel + 1, c, acc => if c < 16 then hexUpper c :: acc else upperDigits fuel (c / 16) (hexUpper (c % 16) :: acc)

/-- `fmt.Sprintf("\\u{%X}", c)` -/
def escapeBrace (c : Nat) : List Nat := [92, 117, 123] ++ upperDigits 8 c [] ++ [125]

/-- the escape both printers use for a character they do not copy; `none` = panic("Internal error: Cannot encode identifier…") -/
def escapeChar (noUE : Bool) (c : Nat) : Option (List Nat) :=
  if c ≤ 0xFFFF then some (escape4 c) else if !noUE then some (escapeBrace c) else none

/-- QuoteIdentifier(js, name, unsupportedFeatures): what is appended (runs of `firstASCII ≤ c ≤ lastASCII` are copied) -/
def quoteIdentifier (noUE : Bool) : List Nat → Option (List Nat)
  | [] => some []
  | c :: r =>
    match (if 0x20 ≤ c ∧ c ≤ 0x7E then some [c] else escapeChar noUE c), quoteIdentifier noUE r with
    | some a, some b => some (a ++ b)
    | _, _ => none

/-- printIdentifier(name) -/
def printIdentifier (asciiOnly noUE : Bool) (name : List Nat) : Option (List Nat) :=
  if asciiOnly then quoteIdentifier noUE name else some name

/-- what printIdentifierUTF16 appends for the code point `c`: the escape when ASCIIOnly and `c > lastASCII`, otherwise
`utf8.EncodeRune` (which writes U+FFFD for a surrogate) -/
def emitUTF16 (asciiOnly noUE : Bool) (c : Nat) : Option (List Nat) :=
  if asciiOnly && decide (c > 0x7E) then escapeChar noUE c
  else some [if isSurrogate c then 65533 else c]

/-- printIdentifierUTF16(name): the pairing loop of `joinUnits`, then one `emitUTF16` per code point, left to right (a panic
on a later character loses the earlier output too) -/
def printIdentifierUTF16 (asciiOnly noUE : Bool) (units : List Nat) : Option (List Nat) :=
  (joinUnits units).foldr (fun c acc => match emitUTF16 asciiOnly noUE c, acc with
    | some a, some b => some (a ++ b)
    | _, _ => none) (some [])

/-- printSpaceBeforeIdentifier: `prev` = utf8.DecodeLastRune(p.js) (`none`: nothing printed yet, DecodeLastRune gives U+FFFD),
`afterRegExp` = `p.prevRegExpEnd == len(p.js)` -/
def needSpace (T : Tables) (prev : Option Nat) (afterRegExp : Bool) : Bool :=
  isIdCont T (prev.getD 65533) || afterRegExp
