/-
Model of steps 3–5 of the linker's `scanImportsAndExports` (internal/linker/linker.go), as far as they decide which
binding an import names:

  * the initial `ResolvedExports` of a file (internal/graph/graph.go, "Clone the export map"): its own named exports;
  * `addExportsForExportStar`: `export * from` resolution with the visited *stack*, the shadowing rule, `default`
    never re-exported, CommonJS targets skipped, `PotentiallyAmbiguousExportStarRefs`;
  * `advanceImportTracker`, `matchImportWithExport`, `matchImportsWithExportsForFile`: following re-export chains
    with the cycle detector, the deferred ambiguity check, CommonJS / dynamic-fallback / external / TypeScript cases;
  * the filter that produces `SortedAndFilteredExportAliases` (step 5), before sorting.

What is NOT modelled: the parser (the tables are inputs), steps 1–2 (the final `ExportsKind` of a file is an opaque
input flag), log message texts, `reExports` dependency lists, symbol flags.  Go maps iterated in random order
(`NamedExports`) are iterated in list order here: different aliases never interact, so the order is unobservable.

`none` = the Go code would index out of range / a recursion ran out of fuel (Lemmas/ExportMatch*.lean prove that on a
well-formed table neither happens).  A `logger.Loc` is its `Start`; a symbol `ast.Ref` of file `s` is its inner index.
-/
import EsbuildModel.Util.Wire
namespace EsbuildModel.ExportMatch

abbrev Name := String

/-- `js_ast.ExportsKind` after steps 1–2 -/
inductive Kind where
  | none | cjs | esm | dyn
deriving DecidableEq, Repr

/-- an entry of `AST.NamedExports`: alias ↦ (Ref, AliasLoc) -/
structure NamedExport where
  alias : Name
  ref : Nat
  loc : Nat
deriving DecidableEq, Repr

/-- an entry of `AST.NamedImports`: Ref ↦ (import record's target file, Alias, AliasIsStar, NamespaceRef, IsExported) -/
structure NamedImport where
  ref : Nat
  /-- `record.SourceIndex`, `none` = not valid (external) -/
  target : Option Nat
  alias : Name
  isStar : Bool
  /-- `none` = `ast.InvalidRef` -/
  nsRef : Option Nat
  isExported : Bool
deriving DecidableEq, Repr

structure File where
  kind : Kind
  /-- `!HasLazyExport && ExportKeyword.Len == 0 && !UsesExportsRef && !UsesModuleRef` -/
  noExports : Bool
  isTS : Bool
  exportsRef : Nat
  exports : List NamedExport
  /-- `ExportStarImportRecords` in order, `none` = external -/
  stars : List (Option Nat)
  imports : List NamedImport
deriving DecidableEq, Repr

abbrev Table := List File

/-- `graph.ImportData` as used in `PotentiallyAmbiguousExportStarRefs` -/
structure ImportData where
  src : Nat
  ref : Nat
  loc : Nat
deriving DecidableEq, Repr

/-- `graph.ExportData` -/
structure ExportData where
  src : Nat
  ref : Nat
  loc : Nat
  ambs : List ImportData
deriving DecidableEq, Repr

/-- `map[string]graph.ExportData` as an association list (keys unique) -/
abbrev Resolved := List (Name × ExportData)

def setVal (a : Name) (v : ExportData) : Resolved → Resolved
  | [] => []
  | (k, w) :: rest => if k = a then (k, v) :: rest else (k, w) :: setVal a v rest

def hasExport (f : File) (a : Name) : Bool := f.exports.any (·.alias = a)

/-- "This export star is shadowed if any file in the stack has a matching real named export" -/
def shadowed (t : Table) : List Nat → Name → Option Bool
  | [], _ => some false
  | p :: ps, a =>
    match t[p]? with
    | none => none
    | some f => if hasExport f a then some true else shadowed t ps a

/-- body of `for alias, name := range otherRepr.AST.NamedExports` for one entry -/
def addAlias (t : Table) (stack : List Nat) (o : Nat) (res : Resolved) (e : NamedExport) : Option Resolved :=
  if e.alias = "default" then some res
  else
    match shadowed t stack e.alias with
    | none => none
    | some true => some res
    | some false =>
      match res.lookup e.alias with
      | none => some (res ++ [(e.alias, ⟨o, e.ref, e.loc, []⟩)])
      | some ex =>
        if ex.src ≠ o then some (setVal e.alias { ex with ambs := ex.ambs ++ [⟨o, e.ref, e.loc⟩] } res)
        else some res

def addAliases (t : Table) (stack : List Nat) (o : Nat) : Resolved → List NamedExport → Option Resolved
  | res, [] => some res
  | res, e :: es =>
    match addAlias t stack o res e with
    | none => none
    | some res' => addAliases t stack o res' es

/-- `for _, importRecordIndex := range repr.AST.ExportStarImportRecords`; `rec res o` is the recursive call -/
def starsLoop (t : Table) (stack : List Nat) (rec : Resolved → Nat → Option Resolved) :
    List (Option Nat) → Resolved → Option Resolved
  | [], res => some res
  | none :: ss, res => starsLoop t stack rec ss res          -- external: resolved at run time
  | some o :: ss, res =>
    match t[o]? with
    | none => none
    | some other =>
      if other.kind = .cjs then starsLoop t stack rec ss res  -- CommonJS: resolved at run time
      else
        match addAliases t stack o res other.exports with
        | none => none
        | some res' =>
          match rec res' o with
          | none => none
          | some res'' => starsLoop t stack rec ss res''

/-- `addExportsForExportStar(resolvedExports, sourceIndex, sourceIndexStack)` -/
def addStar (t : Table) : Nat → Resolved → Nat → List Nat → Option Resolved
  | 0, _, _, _ => none
  | fuel + 1, res, src, stack =>
    if stack.contains src then some res
    else
      match t[src]? with
      | none => none
      | some f => starsLoop t (stack ++ [src]) (fun r o => addStar t fuel r o (stack ++ [src])) f.stars res

/-- the export map cloned from `NamedExports` -/
def ownResolved (m : Nat) (f : File) : Resolved := f.exports.map (fun e => (e.alias, ⟨m, e.ref, e.loc, []⟩))

/-- `repr.Meta.ResolvedExports` of file `m` after step 3 -/
def resolvedExports (t : Table) (m : Nat) : Option Resolved :=
  match t[m]? with
  | none => none
  | some f =>
    if f.stars.isEmpty then some (ownResolved m f)
    else addStar t (t.length + 1) (ownResolved m f) m []

def mapOpt {α β : Type} (f : α → Option β) : List α → Option (List β)
  | [] => some []
  | a :: as =>
    match f a with
    | none => none
    | some b =>
      match mapOpt f as with
      | none => none
      | some bs => some (b :: bs)

def allResolved (t : Table) : Option (List Resolved) := mapOpt (resolvedExports t) (List.range t.length)

/-! ## Matching imports with exports -/

structure Tracker where
  src : Nat
  loc : Nat
  ref : Nat
deriving DecidableEq, Repr

inductive Status where
  | noMatch | found | commonJS | dynamicFallback | commonJSWithoutExports | external | probablyTS
deriving DecidableEq, Repr

inductive MKind where
  | ignore | normal | namespace | normalAndNamespace | cycle | probablyTS | ambiguous
deriving DecidableEq, Repr

/-- `matchImportResult`; the Go code compares whole structs, so every field is kept (zero values by default) -/
structure MResult where
  kind : MKind := .ignore
  alias : Name := ""
  nsSrc : Nat := 0
  nsRef : Nat := 0
  src : Nat := 0
  loc : Nat := 0
  otherSrc : Nat := 0
  otherLoc : Nat := 0
  ref : Nat := 0
deriving DecidableEq, Repr

structure Ctx where
  t : Table
  resolved : List Resolved
  /-- `c.options.OutputFormat.KeepESMImportExportSyntax()` -/
  keepESM : Bool

def findImport (f : File) (ref : Nat) : Option NamedImport := f.imports.find? (·.ref = ref)

/-- `_, ok := c.graph.Files[s].…NamedImports[ref]` -/
def isImport (t : Table) (s ref : Nat) : Option Bool :=
  match t[s]? with
  | none => none
  | some f => some (findImport f ref).isSome

def advance (c : Ctx) (tr : Tracker) : Option (Tracker × Status × List ImportData) :=
  match c.t[tr.src]? with
  | none => none
  | some file =>
    match findImport file tr.ref with
    | none => none
    | some ni =>
      match ni.target with
      | none => some (⟨0, 0, 0⟩, .external, [])
      | some o =>
        match c.t[o]?, c.resolved[o]? with
        | some other, some res =>
          if !ni.isStar && other.noExports && ni.alias ≠ "default" then some (⟨o, 0, 0⟩, .commonJSWithoutExports, [])
          else if other.kind = .cjs then some (⟨o, 0, 0⟩, .commonJS, [])
          else if ni.isStar then some (⟨o, 0, other.exportsRef⟩, .found, [])
          else
            match res.lookup ni.alias with
            | some ex => some (⟨ex.src, ex.loc, ex.ref⟩, .found, ex.ambs)
            | none =>
              if other.kind = .dyn then some (⟨o, 0, other.exportsRef⟩, .dynamicFallback, [])
              else if file.isTS && ni.isExported then some (⟨0, 0, 0⟩, .probablyTS, [])
              else some (⟨o, 0, 0⟩, .noMatch, [])
        | _, _ => none

/-- a result with its `nameLoc` blanked: "The location of the export clause is only there for the error message.
Two different clauses can still export the same binding." -/
def noLoc (r : MResult) : MResult := { r with loc := 0 }

/-- "If there is a potential ambiguity, all results must be the same" (compared without their `nameLoc`) -/
def finish (result : MResult) (ambs : List MResult) : MResult :=
  match ambs.find? (fun a => noLoc a ≠ noLoc result) with
  | none => result
  | some a =>
    if result.kind = .normal ∧ a.kind = .normal ∧ result.loc ≠ 0 ∧ a.loc ≠ 0 then
      { kind := .ambiguous, src := result.src, loc := result.loc, otherSrc := a.src, otherLoc := a.loc }
    else { kind := .ambiguous }

/-- rewrite the import to a property access off a namespace object -/
def nsResult (result : MResult) (nsSrc nsRef : Nat) (alias : Name) : MResult :=
  if result.kind = .normal then { result with kind := .normalAndNamespace, nsSrc := nsSrc, nsRef := nsRef, alias := alias }
  else { kind := .namespace, nsSrc := nsSrc, nsRef := nsRef, alias := alias }

/-- `matchImportWithExport`: the `for` loop (a `continue` is the tail call) followed by the final comparison -/
def matchLoop (c : Ctx) : Nat → Tracker → List Tracker → MResult → List MResult → Option MResult
  | 0, _, _, _, _ => none
  | fuel + 1, tr, cd, result, ambs =>
    if cd.contains tr then some (finish { kind := .cycle } ambs)
    else
      match advance c tr with
      | none => none
      | some (next, status, pot) =>
        let viaNamespace (nsSrc : Nat) (nsRef : Option Nat) : Option MResult :=
          match (c.t[tr.src]?).bind (findImport · tr.ref) with
          | none => none
          | some ni =>
            match nsRef with
            | some r => some (finish (nsResult result nsSrc r ni.alias) ambs)
            | none => some (finish result ambs)
        match status with
        | .external =>
          if c.keepESM then some (finish result ambs)
          else viaNamespace tr.src ((c.t[tr.src]?).bind (findImport · tr.ref) |>.bind (·.nsRef))
        | .commonJS => viaNamespace tr.src ((c.t[tr.src]?).bind (findImport · tr.ref) |>.bind (·.nsRef))
        | .commonJSWithoutExports => viaNamespace tr.src ((c.t[tr.src]?).bind (findImport · tr.ref) |>.bind (·.nsRef))
        | .dynamicFallback => viaNamespace next.src (some next.ref)
        | .noMatch => some (finish result ambs)
        | .probablyTS => some (finish { kind := .probablyTS } ambs)
        | .found =>
          let one (p : ImportData) : Option MResult :=
            match isImport c.t p.src p.ref with
            | none => none
            | some true => matchLoop c fuel ⟨p.src, 0, p.ref⟩ (cd ++ [tr]) {} []
            | some false => some { kind := .normal, src := p.src, ref := p.ref, loc := p.loc }
          match mapOpt one pot with
          | none => none
          | some rs =>
            let result : MResult := { kind := .normal, src := next.src, ref := next.ref, loc := next.loc }
            match isImport c.t next.src next.ref with
            | none => none
            | some true => matchLoop c fuel next (cd ++ [tr]) result (ambs ++ rs)
            | some false => some (finish result (ambs ++ rs))

/-- an upper bound for the number of different trackers: (file, export location or 0, import of that file) -/
def matchFuel (t : Table) : Nat := (t.map (fun f => f.imports.length * (f.exports.length + 1))).sum + 1

/-- one iteration of `matchImportsWithExportsForFile` -/
def matchImport (c : Ctx) (s ref : Nat) : Option MResult := matchLoop c (matchFuel c.t) ⟨s, 0, ref⟩ [] {} []

/-- all imports of all files: `results[s]` = list of (import ref, result) -/
def matchAll (c : Ctx) : Option (List (List (Nat × MResult))) :=
  mapOpt (fun s =>
    match c.t[s]? with
    | none => none
    | some f => mapOpt (fun ni => (matchImport c s ni.ref).map (fun r => (ni.ref, r))) f.imports) (List.range c.t.length)

/-! ## Step 5: `SortedAndFilteredExportAliases` (before sorting) -/

/-- `ImportsToBind[ref]` of file `s`: present for the kinds Normal and NormalAndNamespace -/
def boundTo (results : List (List (Nat × MResult))) (s ref : Nat) : Option (Nat × Nat) :=
  match (results[s]?).bind (·.lookup ref) with
  | some r => if r.kind = .normal ∨ r.kind = .normalAndNamespace then some (r.src, r.ref) else none
  | none => none

/-- `mainRef` / `ambiguousRef`: the import's target if the export is a bound import, else the export's own symbol -/
def finalRef (results : List (List (Nat × MResult))) (s ref : Nat) : Nat × Nat :=
  match boundTo results s ref with
  | some b => b
  | none => (s, ref)

def isTSType (results : List (List (Nat × MResult))) (s ref : Nat) : Bool :=
  match (results[s]?).bind (·.lookup ref) with
  | some r => r.kind = .probablyTS
  | none => false

def keepAlias (results : List (List (Nat × MResult))) (ex : ExportData) : Bool :=
  !(ex.ambs.any (fun a => finalRef results a.src a.ref ≠ finalRef results ex.src ex.ref)) && !isTSType results ex.src ex.ref

def filteredAliases (results : List (List (Nat × MResult))) (res : Resolved) : List Name :=
  (res.filter (fun p => keepAlias results p.2)).map (·.1)

end EsbuildModel.ExportMatch
